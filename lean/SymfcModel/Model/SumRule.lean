/-
  Model/SumRule.lean — row/column index lists of `c_sum_cplmt` in
  `compressed_projector_sum_rules_O{n}` (fast) and `..._stable`, batch by batch.
-/
import SymfcModel.Model.Cell
import SymfcModel.Model.Cutoff
namespace Symfc

structure SumRuleCfg where
  /-- fast variant: restrict to rows whose *second* tuple atom (axis 0 of the transposed array) is independent -/
  indepMask : Bool
  divisor   : Divisor
deriving Repr, DecidableEq

/-- transposed flat position `p = flat(rest ++ [i])`  ↦  original tuple `(i :: rest)` -/
def sumRuleTuple (N n p : Nat) : List Nat :=
  let ds := unflat N n p
  (ds.getLastD 0) :: ds.dropLast

/-- entries `(row, col)` of `c_sum_cplmt` for one batch `[b, e)`; `none` = batch skipped (`size_data == 0`, fast variant only) -/
def sumRuleBatch (c : Cell) (n : Nat) (ad : Array Nat) (nzCut : Option (Array Bool)) (cfg : SumRuleCfg)
    (indep : List Nat) (b e : Nat) : Option (List (Nat × Nat)) :=
  let size := e - b
  let p3 := 3 ^ n
  let qs := (List.range size).filter (fun q =>
    let t := sumRuleTuple c.N n (b + q)
    (!cfg.indepMask || indep.contains (t.getD 1 0)) &&
    (match nzCut with | none => true | some nz => nz.getD (flat c.N t) false))
  if cfg.indepMask && qs.isEmpty then none
  else
    some ((List.range p3).flatMap (fun x =>
      qs.map (fun q =>
        ((x * size + q) / c.N, x + ad.getD (flat c.N (sumRuleTuple c.N n (b + q))) 0 * p3))))

/-- all batches; `batchSize` as computed by `optimize_batch_size_sum_rules_O{n}`.
    Outer `none`: zero batch size (Python `ValueError`). -/
def sumRuleBatches (c : Cell) (n : Nat) (nzCut : Option (Array Bool)) (cfg : SumRuleCfg)
    (batchSize : Nat) : Option (List (Option (List (Nat × Nat)))) :=
  let ad := c.atomicDecompr n
  let indep := c.indepAtoms
  (batchSlice (c.N ^ n) batchSize).map (fun sl =>
    sl.map (fun (b, e) => sumRuleBatch c n ad nzCut cfg indep b e))

def Divisor.eval (d : Divisor) (N nlp : Nat) : Nat :=
  match d with
  | .natom => N
  | .nlpNatom => nlp * N
  | .other => 0

end Symfc
