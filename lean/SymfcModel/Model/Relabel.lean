/-
  Model/Relabel.lean — relabelling (re-ordering) the atoms of a supercell: the same crystal
  described with another atom order. Import-free model-level definitions (C10, atom-ordering part).

  A relabelling is a permutation `π` of `{0..N-1}` given as an `Array Nat` together with its inverse
  `πinv`; old atom `i` is called `π[i]` in the new description.
-/
import SymfcModel.Model.Cell
import SymfcModel.Model.Cutoff
namespace Symfc

/-- `π[i]` (with a default that is irrelevant for valid arguments) -/
def Relabelling.ap (π : Array Nat) (i : Nat) : Nat := π.getD i 0

open Relabelling in
/-- decidable validity of a relabelling: `π` and `πinv` are arrays of `N` atoms `< N` and are
    inverse to each other (so both are permutations of `range N`) -/
def isRelabelling (N : Nat) (π πinv : Array Nat) : Bool :=
  π.size == N && πinv.size == N &&
  (List.range N).all (fun i => decide (ap π i < N) && ap πinv (ap π i) == i) &&
  (List.range N).all (fun j => decide (ap πinv j < N) && ap π (ap πinv j) == j)

open Relabelling in
/-- the supercell with its atoms renamed by `π`: `tp'[l][π i] = π (tp[l][i])`,
    i.e. `tp'[l][j] = π (tp[l][πinv j])`. The lattice translations keep their numbering. -/
def Cell.relabel (π πinv : Array Nat) (c : Cell) : Cell :=
  { N := c.N,
    tp := c.tp.map (fun row =>
      ((List.range c.N).map (fun j => ap π (row.getD (ap πinv j) c.N))).toArray) }

open Relabelling in
/-- the cutoff input with its atoms renamed by `π`: `D'[π i][π j] = D[i][j]`,
    i.e. `D'[i][j] = D[πinv i][πinv j]`; same radius. -/
def CutoffIn.relabel (_π πinv : Array Nat) (x : CutoffIn) : CutoffIn :=
  { N := x.N,
    dist := ((List.range x.N).map (fun i =>
      ((List.range x.N).map (fun j => x.d (ap πinv i) (ap πinv j))).toArray)).toArray,
    cutoff := x.cutoff }

open Relabelling in
/-- an entry `3 * atom + cart` with the atom renamed, the Cartesian component kept -/
def relabelEntry (π : Array Nat) (e : Nat) : Nat := 3 * ap π (e / 3) + e % 3

/-- a tensor element (list of `site·cartesian` entries) with all its atoms renamed -/
def relabelTuple (π : Array Nat) (t : List Nat) : List Nat := t.map (relabelEntry π)

end Symfc
