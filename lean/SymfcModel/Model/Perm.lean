/-
  Model/Perm.lean — operational model of the permutation stage
  (`compr_permutation_lat_trans_O{n}`, `_update_perm_decompr_indices`,
   `_eliminate_zero_elements`, `construct_basis_from_perm_decompr_indices`).
-/
import SymfcModel.Model.Cell
import SymfcModel.Model.Cutoff
namespace Symfc

/-- class-space element index of a combination entry list `[3*i1+a1, ..., 3*in+an]`:
    `atomic_decompr_idx[flat atoms] * 3^n + flat cart` (`_N3N3.._to_NN..and33..`). -/
def elemIdx (N : Nat) (ad : Array Nat) (entries : List Nat) : Nat :=
  ad.getD (flat N (entries.map (· / 3))) 0 * 3 ^ entries.length + flat 3 (entries.map (· % 3))

/-- rows of linked elements produced by one stage for one combination:
    `combinations[:, perms]` reshaped to `(-1, n_perms_sym)` -/
def stageRowsOf (N : Nat) (ad : Array Nat) (st : Stage) (comb : List Nat) : List (List Nat) :=
  let elems := st.perms.map (fun p => elemIdx N ad (p.map (fun pos => comb.getD pos 0)))
  let nsym := st.perms.length / st.nPermsGroup
  (List.range st.nPermsGroup).map (fun g => (elems.drop (g * nsym)).take nsym)

def rowRep (rk : RepKind) (row : List Nat) : Nat :=
  match rk with
  | .col0 => row.headD 0
  | .rowMin => row.foldl min (row.headD 0)

/-- one batch: `for orbit_components in rows.T: ptr[orbit_components] = rep(rows)`;
    numpy fancy assignment with repeated indices keeps the last row's value. -/
def writeBatch (rk : RepKind) (rows : List (List Nat)) (ptr : Array Int) : Array Int :=
  let ncol := (rows.headD []).length
  (List.range ncol).foldl
    (fun ptr col =>
      rows.foldl (fun ptr row => ptr.setIfInBounds (row.getD col 0) (Int.ofNat (rowRep rk row))) ptr)
    ptr

/-- `_update_perm_decompr_indices`: batches over combinations (`n_comb // n_batch` per batch).
    `none` models Python's `ValueError` for a zero batch size. -/
def updatePerm (N : Nat) (ad : Array Nat) (rk : RepKind) (st : Stage) (combs : List (List Nat))
    (nBatch : Nat) (ptr : Array Int) : Option (Array Int) :=
  match batchSlice combs.length (combs.length / nBatch) with
  | none => none
  | some sl =>
    some (sl.foldl
      (fun ptr (b, e) =>
        let rows := ((combs.drop b).take (e - b)).flatMap (stageRowsOf N ad st)
        writeBatch rk rows ptr)
      ptr)

/-- combinations fed to a stage -/
def stageCombs (ops : CutoffOps) (c : Cell) (n : Nat) (cut : Option CutoffIn) (st : Stage) :
    List (List Nat) :=
  if st.combOrder ≤ 1 then
    -- `[[i, i, ..] for i in range(3*natom)]` (only column 0 is ever used by the `[0,0,..]` table)
    (List.range (3 * c.N)).map (fun i => List.replicate n i)
  else
    getCombinations ops c.N st.combOrder cut (some c.indepAtoms)

/-- whole `compr_permutation_lat_trans_O{n}` up to the pointer array.
    `nBatch key` gives the batch count for each `batchKey`. -/
def permDecompr (ops : CutoffOps) (c : Cell) (n : Nat) (rk : RepKind) (stages : List Stage)
    (cut : Option CutoffIn) (nBatch : String → Nat) : Option (Array Int) :=
  let ad := c.atomicDecompr n
  let size := c.N ^ n * 3 ^ n / c.nlp
  stages.foldl
    (fun acc st => acc.bind (fun ptr =>
      updatePerm c.N ad rk st (stageCombs ops c n cut st) (nBatch st.batchKey) ptr))
    (some (Array.replicate size (-1)))

/-- one sweep of label propagation over the edges `e — ptr[e]`: both end points take the smaller label -/
def relaxOnce (ptr : Array Int) (lab : Array Int) : Array Int :=
  (List.range ptr.size).foldl
    (fun lab e =>
      let p := ptr.getD e (-1)
      if p == -1 then lab else
      let le := lab.getD e (-1)
      let lp := lab.getD p.toNat (-1)
      if lp == -1 then lab else
      let m := min le lp
      (lab.setIfInBounds e m).setIfInBounds p.toNat m)
    lab

/-- iterate `relaxOnce` until nothing changes (at most `fuel` sweeps) -/
def relaxFix (ptr : Array Int) : Nat → Array Int → Array Int
  | 0, lab => lab
  | fuel + 1, lab =>
    let lab' := relaxOnce ptr lab
    if lab' == lab then lab else relaxFix ptr fuel lab'

/-- weakly connected components of the functional graph `e → ptr[e]` on `{e | ptr[e] ≠ -1}`;
    result: for every element the smallest member of its component, or `-1`.
    (label propagation to a fixed point; `size` sweeps suffice) -/
def componentLabels (ptr : Array Int) : Array Int :=
  relaxFix ptr ptr.size
    (Array.ofFn (n := ptr.size) (fun i => if ptr.getD i.val (-1) == -1 then -1 else Int.ofNat i.val))

end Symfc
