/-
  Model/Tables.lean — decidable facts about arrangement tables (`perms` lists).
-/
import SymfcModel.Model.Basic
import SymfcModel.Model.Types
namespace Symfc

/-- all maps from `n` positions onto `{0..k-1}` (surjections), lexicographic -/
def surjections (n k : Nat) : List (List Nat) :=
  (tuples k n).filter (fun t => (List.range k).all (fun v => t.contains v))

def insertSortedL (x : List Nat) : List (List Nat) → List (List Nat)
  | [] => [x]
  | y :: ys => if x ≤ y then x :: y :: ys else y :: insertSortedL x ys

def sortLists (l : List (List Nat)) : List (List Nat) := l.foldr insertSortedL []

def insertNat (x : Nat) : List Nat → List Nat
  | [] => [x]
  | y :: ys => if x ≤ y then x :: y :: ys else y :: insertNat x ys

def sortNats (l : List Nat) : List Nat := l.foldr insertNat []

/-- the table lists every arrangement of `n` positions onto `k` distinct combination entries exactly once -/
def tableComplete (n : Nat) (st : Stage) : Bool :=
  sortLists st.perms == surjections n st.combOrder

/-- rows of a stage: `perms` split into `nPermsGroup` consecutive groups -/
def stageGroups (st : Stage) : List (List (List Nat)) :=
  let nsym := st.perms.length / st.nPermsGroup
  (List.range st.nPermsGroup).map (fun g => (st.perms.drop (g * nsym)).take nsym)

/-- within one group all arrangements are rearrangements of the same multiset (so the elements of a row
    are index permutations of one another), the group sizes divide evenly, no arrangement is repeated,
    and every arrangement has length `n` with entries `< combOrder` -/
def stageSound (n : Nat) (st : Stage) : Bool :=
  st.nPermsGroup > 0 &&
  st.perms.length % st.nPermsGroup == 0 &&
  st.perms.all (fun p => p.length == n && p.all (· < max st.combOrder 1)) &&
  (stageGroups st).all (fun g => g.all (fun p => sortNats p == sortNats (g.headD []))) &&
  ((sortLists st.perms).zip ((sortLists st.perms).drop 1)).all (fun (a, b) => a != b)

/-- every row of a group contains, for every index permutation `σ` of the `n` positions, the image of its
    first arrangement: the group is closed under the action of S_n on positions (it is a full orbit) -/
def groupIsFullOrbit (n : Nat) (g : List (List Nat)) : Bool :=
  (permsOf (List.range n)).all (fun σ =>
    g.all (fun p => g.contains (σ.map (fun i => p.getD i 0))))

def stageFullOrbits (n : Nat) (st : Stage) : Bool :=
  (stageGroups st).all (groupIsFullOrbit n)

/-- stages of one order have pairwise different `combOrder` (they address different equality patterns) -/
def stagesDistinct (sts : List Stage) : Bool :=
  (sts.map (·.combOrder)) == (List.range sts.length).map (· + 1)

end Symfc
