/-
  Model/Types.lean — data types instantiated by the REGENERATED files in `Gen/`.
-/
namespace Symfc

/-- one call of `_update_perm_decompr_indices` inside `compr_permutation_lat_trans_O{n}` -/
structure Stage where
  /-- 1: diagonal combinations `[[i,i,..]]`; k ≥ 2: `get_combinations(natom, order=k, ...)` -/
  combOrder   : Nat
  /-- the literal `perms` table (arrangements of combination positions) -/
  perms       : List (List Nat)
  nPermsGroup : Nat
  /-- name of the expression passed as `n_batch=` ("1" when the literal 1) -/
  batchKey    : String
deriving Repr, DecidableEq

/-- which entry of a row of linked elements is written as the representative -/
inductive RepKind | col0 | rowMin
deriving Repr, DecidableEq

inductive Cmp | lt | le | gt | ge | eq | ne
deriving Repr, DecidableEq

def Cmp.eval : Cmp → Nat → Nat → Bool
  | .lt, a, b => a < b
  | .le, a, b => a ≤ b
  | .gt, a, b => a > b
  | .ge, a, b => a ≥ b
  | .eq, a, b => a == b
  | .ne, a, b => a != b

/-- comparison sites of `cutoff_tools.FCCutoff` (all against `self._cutoff`) -/
structure CutoffOps where
  neighbors : Cmp
  outsides  : Cmp
  /-- pair tests `(p, q, cmp)` on positions of the candidate tuple in `combinations3` -/
  comb3     : List (Nat × Nat × Cmp)
  comb4     : List (Nat × Nat × Cmp)
  nonzero3  : List (Nat × Nat × Cmp)
  nonzero4  : List (Nat × Nat × Cmp)
  /-- strict `3*j+b < kc` filters in combinations2/3/4 -/
  comb2Idx  : Cmp
  comb3Idx  : Cmp
  comb4Idx  : Cmp
  /-- periodic images searched per reduced axis in `_calc_distances` -/
  images    : List Int
deriving Repr, DecidableEq

/-- one step of a `divmod` chain in a `reshape_*` function:
    `div, rem = divmod(cur, divisor)` followed by updates `row (=|+=) div*k`, `col += div*k`,
    and possibly `row += rem` at the end. Divisors/multipliers are monomials `coef * N^e * nx^f`. -/
structure Mono where
  coef : Nat
  nPow : Nat
  nx   : Bool
deriving Repr, DecidableEq

def Mono.eval (m : Mono) (N nx : Nat) : Nat := m.coef * N ^ m.nPow * (if m.nx then nx else 1)

inductive Target | row | col
deriving Repr, DecidableEq

structure DivStep where
  divisor : Mono
  /-- where `div * mult` is accumulated -/
  target  : Target
  mult    : Mono
  /-- true if the statement is `=` (overwrite) rather than `+=` -/
  assign  : Bool
deriving Repr, DecidableEq

/-- a whole `reshape_*` function: the chain starts from `mat.row`, every later `divmod` reads the
    previous remainder, and the last remainder is added to `remTarget`. -/
structure Chain where
  steps     : List DivStep
  remTarget : Target
  /-- output shape `(rows, cols)` as monomials (`mat.resize`) with `n` standing for the atom-batch length -/
  outRows   : Mono
deriving Repr, DecidableEq

/-- dispatch branch of `Symfc.solve` -/
structure SolveBranch where
  orders      : List Nat
  basisKeys   : List Nat
  fcKeys      : List Nat
  /-- every `_force_constants[k] = ...` statement occurs after the solver call -/
  writesAfter : Bool
  /-- `batch_size` is forwarded to the solver -/
  passesBatch : Bool
deriving Repr, DecidableEq

/-- guards of `_check_dataset`, in source order -/
inductive Guard
  | dispNone | forcesNone | shapeMismatch | dispShape | forcesShape
deriving Repr, DecidableEq

inductive OneByOneRule | keepIfNotCloseZero | keepIfCloseOne | other
deriving Repr, DecidableEq

inductive Divisor | natom | nlpNatom | other
deriving Repr, DecidableEq

end Symfc
