/-
  Model/Api.lean — the `Symfc` object as a state machine, parameterised by what the translator
  extracted from `api_symfc.py` (`ApiCfg`).
  Arrays and basis sets are abstract tokens; a solver result records exactly which inputs it was
  computed from (its provenance), so "depends only on its inputs" becomes an equation between tokens.
-/
import SymfcModel.Model.Types
namespace Symfc

structure ApiCfg where
  maxOrderWhitelist : List Nat
  ordersWhitelist   : List (List Nat)
  guards            : List Guard
  checksFirst       : Bool
  branches          : List SolveBranch
  runGuarded        : Bool
  cutoffKeys        : List (Nat × Nat)
deriving Repr

/-- an array handed to the object: identity token and shape -/
structure Arr where
  id    : Nat
  shape : List Nat
deriving Repr, DecidableEq

/-- a basis set: which order, built for which supercell / cutoff / operations (tokens) -/
structure Basis where
  order  : Nat
  cfgId  : Nat      -- token of (supercell, spacegroup_operations) of the object that built it
  cutoff : Option Nat
deriving Repr, DecidableEq

/-- provenance of one entry of `force_constants` -/
structure FcVal where
  order   : Nat
  orders  : List Nat        -- solver combination it came from
  bases   : List Basis      -- basis sets handed to the solver, in order
  disp    : Nat             -- dataset tokens
  forces  : Nat
  compact : Bool
deriving Repr, DecidableEq

structure ApiState where
  natom  : Nat
  cfgId  : Nat
  cutoff : List (Nat × Option Nat)      -- per-order cutoff token (`_prepare_cutoff`)
  disp   : Option Arr
  forces : Option Arr
  basis  : List (Nat × Basis)           -- dict: later entries for a key replace earlier ones
  fc     : List (Nat × FcVal)
deriving Repr, DecidableEq

inductive ApiErr
  | noOrders | badMaxOrder | badOrders | dispNone | forcesNone | shapeMismatch | dispShape | forcesShape
  | missingBasis | noBranch
deriving Repr, DecidableEq

inductive ApiOp
  | setDisp (a : Arr)
  | setForces (a : Arr)
  | setBasis (d : List (Nat × Basis))
  | computeBasis (maxOrder : Option Nat) (orders : Option (List Nat))
  | solve (maxOrder : Option Nat) (orders : Option (List Nat)) (compact : Bool)
  | run (maxOrder : Option Nat) (orders : Option (List Nat)) (compact : Bool)
deriving Repr

def dictSet {β} (d : List (Nat × β)) (k : Nat) (v : β) : List (Nat × β) :=
  (d.filter (fun p => p.1 != k)) ++ [(k, v)]

def dictGet {β} (d : List (Nat × β)) (k : Nat) : Option β :=
  (d.find? (fun p => p.1 == k)).map (·.2)

def insertSorted (x : Nat) : List Nat → List Nat
  | [] => [x]
  | y :: ys => if x ≤ y then x :: y :: ys else y :: insertSorted x ys

def sortNat (l : List Nat) : List Nat := l.foldr insertSorted []

/-- `_check_orders` -/
def checkOrders (cfg : ApiCfg) (maxOrder : Option Nat) (orders : Option (List Nat)) :
    Except ApiErr (List Nat) :=
  match maxOrder, orders with
  | none, none => .error .noOrders
  | some m, _ =>
    if cfg.maxOrderWhitelist.contains m then .ok ((List.range (m + 1)).drop 2) else .error .badMaxOrder
  | none, some os =>
    let s := sortNat os
    if cfg.ordersWhitelist.contains s then .ok s else .error .badOrders

def guardFails (g : Guard) (s : ApiState) : Option ApiErr :=
  match g with
  | .dispNone => if s.disp.isNone then some .dispNone else none
  | .forcesNone => if s.forces.isNone then some .forcesNone else none
  | .shapeMismatch =>
    match s.disp, s.forces with
    | some d, some f => if d.shape != f.shape then some .shapeMismatch else none
    | _, _ => some .shapeMismatch      -- Python would raise AttributeError: still an exception
  | .dispShape =>
    match s.disp with
    | some d => if d.shape.length != 3 || d.shape.drop 1 != [s.natom, 3] then some .dispShape else none
    | none => some .dispShape
  | .forcesShape =>
    match s.forces with
    | some f => if f.shape.length != 3 || f.shape.drop 1 != [s.natom, 3] then some .forcesShape else none
    | none => some .forcesShape

/-- `_check_dataset`: first failing guard in source order -/
def checkDataset (cfg : ApiCfg) (s : ApiState) : Option ApiErr :=
  cfg.guards.findSome? (fun g => guardFails g s)

def allSome {α} : List (Option α) → Option (List α)
  | [] => some []
  | none :: _ => none
  | some a :: r => (allSome r).map (a :: ·)

/-- `solve`: validate, dispatch, call the solver, write the results -/
def solveStep (cfg : ApiCfg) (s : ApiState) (maxOrder : Option Nat) (orders : Option (List Nat))
    (compact : Bool) : ApiState × Option ApiErr :=
  match checkDataset cfg s with
  | some e => (s, some e)
  | none =>
    match checkOrders cfg maxOrder orders with
    | .error e => (s, some e)
    | .ok os =>
      match cfg.branches.find? (fun b => b.orders == os) with
      | none => (s, none)      -- no branch matches: Python falls through and returns self
      | some b =>
        match allSome (b.basisKeys.map (dictGet s.basis)) with
        | none => (s, some .missingBasis)     -- KeyError before any solver runs
        | some bases =>
          match s.disp, s.forces with
          | some d, some f =>
            let fc' := b.fcKeys.foldl (fun fc k =>
              dictSet fc k { order := k, orders := b.orders, bases := bases, disp := d.id, forces := f.id,
                             compact := compact }) s.fc
            ({ s with fc := fc' }, none)
          | _, _ => (s, some .dispNone)

def computeStep (cfg : ApiCfg) (s : ApiState) (maxOrder : Option Nat) (orders : Option (List Nat)) :
    ApiState × Option ApiErr :=
  match checkOrders cfg maxOrder orders with
  | .error e => (s, some e)
  | .ok os =>
    let basis' := os.foldl (fun bs k =>
      match dictGet cfg.cutoffKeys k with
      | some ck => dictSet bs k { order := k, cfgId := s.cfgId, cutoff := (dictGet s.cutoff ck).getD none }
      | none => bs) s.basis
    ({ s with basis := basis' }, none)

def step (cfg : ApiCfg) (s : ApiState) (op : ApiOp) : ApiState × Option ApiErr :=
  match op with
  | .setDisp a => ({ s with disp := some a }, none)
  | .setForces a => ({ s with forces := some a }, none)
  | .setBasis d => ({ s with basis := d }, none)
  | .computeBasis m o => computeStep cfg s m o
  | .solve m o c => solveStep cfg s m o c
  | .run m o c =>
    if cfg.runGuarded && (s.disp.isNone || s.forces.isNone) then (s, none)
    else
      match computeStep cfg s m o with
      | (s', some e) => (s', some e)
      | (s', none) => solveStep cfg s' m o c

def runOps (cfg : ApiCfg) (s : ApiState) (ops : List ApiOp) : ApiState :=
  ops.foldl (fun s op => (step cfg s op).1) s

end Symfc
