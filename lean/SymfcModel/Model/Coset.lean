/-
  Model/Coset.lean — atom-tuple permutation representation (`_get_sigma{n}_rep_data`) and the
  integer part `C^T sigma C` of `get_compr_coset_projector_O{n}` for one rotation.
-/
import SymfcModel.Model.Cell
namespace Symfc

/-- `permutation[tuples[:,0]]*N^(n-1) + ... ` for the tuples selected by `mask` (all if `none`) -/
def sigmaRep (N n : Nat) (g : Array Nat) (mask : Option (Array Bool)) : List Nat :=
  ((List.range (N ^ n)).filter (fun t => match mask with | none => true | some m => m.getD t false)).map
    (fun t => flat N ((unflat N n t).map (fun a => g.getD a 0)))

/-- mask used by the fast variant: first atom independent (and cutoff mask if any) -/
def cosetMask (c : Cell) (n : Nat) (fast : Bool) (nzCut : Option (Array Bool)) : Option (Array Bool) :=
  if fast then
    let indep := c.indepAtoms
    some (Array.ofFn (n := c.N ^ n) (fun t =>
      indep.contains (t.val / c.N ^ (n - 1)) &&
      (match nzCut with | none => true | some m => m.getD t.val false)))
  else nzCut

/-- COO entries `(row, col)` (each with value 1; duplicates add) of the class-space matrix of one operation -/
def cosetPairs (c : Cell) (n : Nat) (g : Array Nat) (fast : Bool) (nzCut : Option (Array Bool)) :
    List (Nat × Nat) :=
  let ad := c.atomicDecompr n
  let mask := cosetMask c n fast nzCut
  let sel := (List.range (c.N ^ n)).filter (fun t => match mask with | none => true | some m => m.getD t false)
  (sigmaRep c.N n g mask).zip sel |>.map (fun (img, t) => (ad.getD img 0, ad.getD t 0))

/-- `cosets[i % n_cosets] += mat_i; sum(cosets)` over an additive type given as lists of summands -/
def chunkedSum {α} (add : α → α → α) (zero : α) (nCosets : Nat) (mats : List α) : α :=
  let init : List α := List.replicate nCosets zero
  let acc := (mats.zipIdx).foldl (fun acc (m, i) =>
    acc.modify (i % nCosets) (fun s => add s m)) init
  acc.foldl add zero

end Symfc
