/- Model/Inst.lean — the model instantiated with what the translator extracted from the current source -/
import SymfcModel.Model.Api
import SymfcModel.Model.Perm
import SymfcModel.Model.SumRule
import SymfcModel.Model.Solver
import SymfcModel.Gen.PermTables
import SymfcModel.Gen.Cutoff
import SymfcModel.Gen.Solver
import SymfcModel.Gen.Api
import SymfcModel.Gen.Eig
import SymfcModel.Gen.SumRule
namespace Symfc

def genApiCfg : ApiCfg :=
  { maxOrderWhitelist := Gen.maxOrderWhitelist, ordersWhitelist := Gen.ordersWhitelist,
    guards := Gen.datasetGuards, checksFirst := Gen.solveChecksFirst, branches := Gen.solveBranches,
    runGuarded := Gen.runGuarded, cutoffKeys := Gen.computeCutoffKeys }

def stagesFor (n : Nat) : List Stage :=
  if n == 2 then Gen.stagesO2 else if n == 3 then Gen.stagesO3 else Gen.stagesO4
def repFor (n : Nat) : RepKind :=
  if n == 2 then Gen.repKindO2 else if n == 3 then Gen.repKindO3 else Gen.repKindO4
def chainFor (k : Nat) : Chain := if k == 2 then Gen.chainO2 else if k == 3 then Gen.chainO3 else Gen.chainO4

end Symfc
