/-
  Model/SgPermFull.lean — the WHOLE of `compute_sg_permutations` (utils.py) in exact integer arithmetic on grid inputs.
  Coordinates (positions and translations) are integers in units of 1/S of a lattice vector (S even, e.g. S = 8 for
  positions that are multiples of 1/8, for which the floating-point code is exact); rotations are integer matrices.
  On such inputs `diffs -= rint(diffs); norm(diffs @ lattice.T) < symprec` holds iff every coordinate of the
  difference is ≡ 0 (mod S) (`sameSite`).
  Python exceptions (RuntimeError of `_find_optimal_decimals`, AssertionError, IndexError/ValueError of the final
  fancy indexing) are all modelled by the result `none`.
  No imports besides Model/SgPerm.lean (fast path, `composeOut`).
-/
import SymfcModel.Model.SgPerm
namespace Symfc

/-- `Σ_m r[m]·x[m]` (one row of `x @ R.T`) -/
def dotInt (r x : List Int) : Int := ((r.zip x).map (fun (a, b) => a * b)).sum

/-- `x @ R.T + t`, i.e. `y_k = Σ_m R[k][m]·x[m] + t[k]` (no wrapping: the code does not reduce rotated positions;
    the grid size `S` plays no role here and is only kept for a uniform signature) -/
def applyOp (_S : Int) (R : List (List Int)) (t : List Int) (x : List Int) : List Int :=
  (R.zip t).map (fun (row, tk) => dotInt row x + tk)

/-- `positions + t` for one atom, exactly as written inside `fastTransPerm` -/
def addVec (p t : List Int) : List Int := (p.zip t).map (fun (a, b) => a + b)

/-- `t − u` coordinate-wise (`lattice_trans = t - unique_t[r2ur[i]]`) -/
def subVec (t u : List Int) : List Int := List.zipWith (fun a b => a - b) t u

/-- `dist(p − q) < symprec` on the grid: every coordinate of `p − q` is a multiple of S -/
def sameSite (S : Int) (p q : List Int) : Bool := (subVec p q).all (fun d => d % S == 0)

/-- `rows, cols = np.where(dists < symprec)` with `diffs[i][j] = ps[j] − qs[i]`, in row-major order -/
def matchPairs (S : Int) (ps qs : List (List Int)) : List (Nat × Nat) :=
  (List.range qs.length).flatMap (fun i =>
    ((List.range ps.length).filter (fun j => sameSite S (ps.getD j []) (qs.getD i []))).map (fun j => (i, j)))

/-- the distinct entries of a list (`np.unique`, up to the order, only its length is used) -/
def uniqueNat : List Nat → List Nat
  | [] => []
  | a :: l => if l.contains a then uniqueNat l else a :: uniqueNat l

/-- The distance fall-back / rotation matching:
    `rows, cols = np.where(dists < symprec); assert N == len(unique(rows)) == len(unique(cols));
     return cols[np.argsort(rows)]`.
    `rows` is non-decreasing by construction (row-major `np.where`), so a stable argsort is the identity and the
    result is `cols`.  numpy's default argsort is not stable, but ties in `rows` (one row matching several columns)
    can only occur when two positions coincide mod S, which `_find_optimal_decimals` has already excluded
    (`positionsDistinct`, checked first by `sgPermutations`).  `none` = AssertionError. -/
def exactMatch (S : Int) (ps qs : List (List Int)) : Option (List Nat) :=
  let m := matchPairs S ps qs
  let rows := m.map (·.1)
  let cols := m.map (·.2)
  if ps.length == (uniqueNat rows).length && ps.length == (uniqueNat cols).length then some cols else none

/-- `(r != np.eye(3, dtype=int)).any()` is False -/
def isIdentity (R : List (List Int)) : Bool := R == [[1, 0, 0], [0, 1, 0], [0, 0, 1]]

/-- body of the pure-translation loop: the sort-and-compare fast path if it accepts, else the distance fall-back -/
def transPerm (S : Int) (ps : List (List Int)) (t : List Int) : Option (List Nat) :=
  match fastTransPerm S ps t with
  | some tp => some tp
  | none => exactMatch S ps (ps.map (fun p => addVec p t))

/-- all entries are `some` (an exception in any loop iteration aborts the whole call) -/
def allSomeL {α : Type} : List (Option α) → Option (List α)
  | [] => some []
  | none :: _ => none
  | some a :: l => match allSomeL l with
    | none => none
    | some r => some (a :: r)

/-- `pure_trans`: translations of the operations whose rotation is the identity, in order of appearance -/
def pureTranslations (rots : List (List (List Int))) (trans : List (List Int)) : List (List Int) :=
  ((rots.zip trans).filter (fun op => isIdentity op.1)).map (·.2)

/-- `trans_perms` -/
def transPermsOf (S : Int) (ps : List (List Int)) (pureT : List (List Int)) : Option (List (List Nat)) :=
  allSomeL (pureT.map (transPerm S ps))

/-- one iteration of the unique-rotation scan on the state `(unique_r, unique_t, r2ur)`:
    `List.idxOf` is the inner `for j, ur in enumerate(unique_r): if (r == ur).all(): ...; break` (first match wins,
    `= unique_r.length` if there is none) -/
def rotScanStep (s : List (List (List Int)) × List (List Int) × List Nat) (op : List (List Int) × List Int) :
    List (List (List Int)) × List (List Int) × List Nat :=
  let j := s.1.idxOf op.1
  if j < s.1.length then (s.1, s.2.1, s.2.2 ++ [j])
  else (s.1 ++ [op.1], s.2.1 ++ [op.2], s.2.2 ++ [s.1.length])

/-- `(unique_r, unique_t, r2ur)` -/
def rotScan (ops : List (List (List Int) × List Int)) : List (List (List Int)) × List (List Int) × List Nat :=
  ops.foldl rotScanStep ([], [], [])

/-- `unique_rotation_perms` (rotated positions `positions @ r.T + t` matched against the positions) -/
def rotPermsOf (S : Int) (ps : List (List Int)) (ur : List (List (List Int))) (ut : List (List Int)) :
    Option (List (List Nat)) :=
  allSomeL ((ur.zip ut).map (fun (r, t) => exactMatch S ps (ps.map (applyOp S r t))))

/-- `np.where(dists < symprec)[0]` of the final loop: ALL pure translations equal to `lt` modulo the lattice -/
def latTransIdx (S : Int) (pureT : List (List Int)) (lt : List Int) : List Nat :=
  (List.range pureT.length).filter (fun l => sameSite S (pureT.getD l []) lt)

/-- `trans_perms[lat_trans_idx[0], perms]` (numpy fancy indexing with the index arrays `idx` (shape (k,)) and `perms`
    (shape (N,))).  The Python `assert len(lat_trans_idx) == 1` is vacuous (it is the length of the TUPLE returned by
    `np.where`), so k is unconstrained:
    * k = 1: `trans_perms[l][perms]`, the intended composition;
    * k = N ≠ 1: the two index arrays are zipped, entry a is `trans_perms[idx[a]][perms[a]]` — a well-formed row
      (this happens e.g. for N duplicated pure translations; the prompt of this model asked for `none` here, but the
      real code returns an (n_ops, N) array, so the branch is modelled faithfully);
    * otherwise `none`: the real code raises IndexError (shapes do not broadcast) or, for N = 1, produces a row of
      length k ≠ N (ragged / wrongly shaped output).  The correspondence harness reads "model `none`" as
      "the real code must not return a well-formed (n_ops, N) integer array". -/
def outRow (transPerms : List (List Nat)) (idx perms : List Nat) : Option (List Nat) :=
  match idx with
  | [l] => some (composeOut (transPerms.getD l []) perms)
  | _ =>
    if idx.length == perms.length then
      some ((idx.zip perms).map (fun (l, j) => (transPerms.getD l []).getD j 0))
    else none

/-- the final loop `for i, t in enumerate(translations)` -/
def finalLoop (S : Int) (trans pureT : List (List Int)) (transPerms : List (List Nat))
    (ut : List (List Int)) (r2ur : List Nat) (urPerms : List (List Nat)) : Option (List (List Nat)) :=
  allSomeL ((List.range trans.length).map (fun i =>
    let u := r2ur.getD i 0
    outRow transPerms (latTransIdx S pureT (subVec (trans.getD i []) (ut.getD u []))) (urPerms.getD u [])))

/-- `compute_sg_permutations(positions, rotations, translations, lattice, symprec)` on grid inputs.
    `none` stands for every way in which the real code fails to return a well-formed (n_ops, N) integer array:
    RuntimeError (positions not pairwise distinct mod S), AssertionError (a translation or rotated structure does not
    match the positions), IndexError (`r2ur[i]` with fewer rotations than translations; fancy indexing with k ≠ 1, N
    matching pure translations), ValueError (no pure translation at all). At least one atom is assumed. -/
def sgPermutations (S : Int) (ps : List (List Int)) (rots : List (List (List Int))) (trans : List (List Int)) :
    Option (List (List Nat)) :=
  if positionsDistinct S ps = false then none
  else if rots.length < trans.length then none
  else
    match transPermsOf S ps (pureTranslations rots trans) with
    | none => none
    | some tps =>
      let sc := rotScan (rots.zip trans)
      match rotPermsOf S ps sc.1 sc.2.1 with
      | none => none
      | some ups => finalLoop S trans (pureTranslations rots trans) tps sc.2.1 sc.2.2 ups

end Symfc
