/-
  Model/Dist.lean — the part of `FCCutoff._calc_distances` (cutoff_tools.py) AFTER the Niggli reduction
  (`spglib.niggli_reduce` and the integer transformation matrix are trusted):

      scaled_positions -= np.rint(scaled_positions)
      diff = scaled_positions[:, None, :] - scaled_positions[None, :, :]
      trans = itertools.product([-1,0,1], [-1,0,1], [-1,0,1])
      norms = 1e10
      for t1 in trans:
          norms_trial = |(diff - t1) @ reduced_bases|
          match = norms_trial < norms ; norms[match] = norms_trial[match]

  Exact arithmetic on a grid: coordinates are integers in units of 1/S of a (reduced) lattice vector,
  the reduced basis enters through its Gram matrix `G[a][b] = b_a · b_b` (integers in some unit), lengths are
  SQUARED and in units of 1/S²:  |(d/S − t)·B|² = norm2 G (d − S·t) / S².
  NOT modelled: floating point (sqrt, rounding of the products), the sentinel `1e10` (taken as +∞: the first
  trial is always accepted), the Niggli reduction itself.  This file is import-free.
-/
namespace Symfc

/-- `np.rint(x / S)` for a grid coordinate `x` (S > 0): nearest integer, TIES TO EVEN -/
def rintGrid (S x : Int) : Int :=
  let q := x / S
  let r2 := 2 * (x % S)
  if r2 < S then q else if S < r2 then q + 1 else if q % 2 = 0 then q else q + 1

/-- `x - np.rint(x)` in grid units: the representative of `x` mod `S` in `[-S/2, S/2]`; at the boundary
    `x ≡ S/2 (mod S)` the result is `+S/2` when `⌊x/S⌋` is even and `-S/2` when it is odd
    (`wrapHalf` of Model/SgPerm.lean always gives `-S/2` there; the two agree everywhere else). -/
def rintWrap (S x : Int) : Int := x - S * rintGrid S x

/-- `scaled_positions -= np.rint(scaled_positions)` on one atom -/
def wrapPos (S : Int) (p : List Int) : List Int := p.map (rintWrap S)

/-- componentwise difference (numpy broadcasting on equal shapes) -/
def vsub (u v : List Int) : List Int := List.zipWith (· - ·) u v

/-- `S · t` -/
def smulV (S : Int) (t : List Int) : List Int := t.map (S * ·)

def dotI : List Int → List Int → Int
  | a :: as, b :: bs => a * b + dotI as bs
  | _, _ => 0

/-- `Σ_ab v_a G_ab v_b` -/
def norm2 (G : List (List Int)) (v : List Int) : Int := dotI v (G.map (fun row => dotI row v))

/-- `[-k, …, k]` -/
def rangeSym (k : Nat) : List Int := (List.range (2 * k + 1)).map (fun (i : Nat) => (i : Int) - (k : Int))

/-- `itertools.product(r, r, r)` with `r = [-k..k]`, in that order (last index fastest) -/
def offsets (k : Nat) : List (List Int) :=
  (rangeSym k).flatMap (fun a => (rangeSym k).flatMap (fun b => (rangeSym k).map (fun c => [a, b, c])))

/-- squared length (units 1/S²) of the trial vector `diff − S·t` -/
def trial (S : Int) (G : List (List Int)) (d t : List Int) : Int := norm2 G (vsub d (smulV S t))

/-- the running strict minimum `if v < m then v else m`, started with the first element (sentinel = +∞) -/
def minList : List Int → Int
  | [] => 0
  | x :: xs => xs.foldl (fun m v => if v < m then v else m) x

/-- minimum of the trial lengths over the window `{-k..k}³`, scanned in `itertools.product` order -/
def minOver (S : Int) (G : List (List Int)) (d : List Int) (k : Nat) : Int :=
  minList ((offsets k).map (trial S G d))

/-- `diff[i][j]` after the wrap -/
def diffW (S : Int) (p q : List Int) : List Int := vsub (wrapPos S p) (wrapPos S q)

/-- squared minimum-image distance as computed by the code (27 images) -/
def minImage2 (S : Int) (G : List (List Int)) (p q : List Int) : Int := minOver S G (diffW S p q) 1

/-- `self._distances`, squared, units 1/S² -/
def dist2Matrix (S : Int) (G : List (List Int)) (ps : List (List Int)) : List (List Int) :=
  ps.map (fun p => ps.map (fun q => minImage2 S G p q))

/-- `distances[i][j] < cutoff` with `cut2` = squared cutoff in the same units -/
def nearD (S : Int) (G : List (List Int)) (ps : List (List Int)) (cut2 : Int) (i j : Nat) : Bool :=
  decide (minImage2 S G (ps.getD i []) (ps.getD j []) < cut2)

/-- the 27-image minimum of one pair equals its minimum over the larger window `{-k..k}³` -/
def pairWindowOK (S : Int) (G : List (List Int)) (k : Nat) (p q : List Int) : Bool :=
  minOver S G (diffW S p q) 1 == minOver S G (diffW S p q) k

/-- decidable check on a structure: for all pairs the 27-image minimum equals the minimum over `{-k..k}³` -/
def windowOK (k : Nat) (S : Int) (G : List (List Int)) (ps : List (List Int)) : Bool :=
  ps.all (fun p => ps.all (fun q => pairWindowOK S G k p q))

/-- 5³ window (the task's `WindowOK`): NOT sufficient at the rint boundary, see Lemmas/Dist.lean -/
def WindowOK (S : Int) (G : List (List Int)) (ps : List (List Int)) : Bool := windowOK 2 S G ps

/-- 7³ window: the sufficient condition of D4 -/
def WindowOK3 (S : Int) (G : List (List Int)) (ps : List (List Int)) : Bool := windowOK 3 S G ps

/-- no coordinate sits on the rounding boundary of `rint` (`x ≡ S/2 mod S`) -/
def noBoundary (S : Int) (ps : List (List Int)) : Bool :=
  ps.all (fun p => p.all (fun x => 2 * (x % S) != S))

end Symfc
