/-
  Model/Cell.lean — supercell as a free translation group acting on atom indices,
  independent atoms, lattice-translation class indices (`*_decompr_indices*`).
-/
import SymfcModel.Model.Basic
namespace Symfc

/-- `trans_perms`: `tp[l][i]` = atom reached from atom `i` by the `l`-th pure lattice translation. -/
structure Cell where
  N  : Nat
  tp : Array (Array Nat)
deriving Repr

namespace Cell

def nlp (c : Cell) : Nat := c.tp.size

/-- `tp[l][i]` with an out-of-range default that is never a valid atom -/
def img (c : Cell) (l i : Nat) : Nat := (c.tp.getD l #[]).getD i c.N

def isPermRow (N : Nat) (row : Array Nat) : Bool :=
  row.size == N && (List.range N).all (fun j => row.toList.count j == 1)

/-- decidable well-formedness: rows are permutations of `range N`, row 0 is the identity,
    rows are closed under composition, distinct rows differ at every atom (free action). -/
def wf (c : Cell) : Bool :=
  c.nlp > 0 &&
  c.tp.all (isPermRow c.N) &&
  (List.range c.N).all (fun i => c.img 0 i == i) &&
  (List.range c.nlp).all (fun l => (List.range c.nlp).all (fun m =>
    (List.range c.nlp).any (fun k => (List.range c.N).all (fun i => c.img k i == c.img l (c.img m i))))) &&
  (List.range c.nlp).all (fun l => (List.range c.nlp).all (fun m =>
    l == m || (List.range c.N).all (fun i => c.img l i != c.img m i)))

/-- `get_indep_atoms_by_lat_trans`: scan atoms in order, keep `i` unless an already kept atom `j`
    occurs in column `i` of `trans_perms`. -/
def indepAtoms (c : Cell) : List Nat :=
  (List.range c.N).foldl
    (fun acc i =>
      if acc.any (fun j => (List.range c.nlp).any (fun l => c.img l i == j)) then acc else acc ++ [i])
    []

/-- Operational model of `get_atomic_lat_trans_decompr_indices_O{n}` (and of
    `_get_atomic_lat_trans_decompr_indices` for n = 2): nested loops over
    (independent atom, j, k, ...) with a running counter, vectorised write over all translations. -/
def decomprKeys (c : Cell) (n : Nat) : List (List Nat) :=
  c.indepAtoms.flatMap (fun ip => (tuples c.N (n - 1)).map (fun rest => ip :: rest))

def atomicDecompr (c : Cell) (n : Nat) : Array Nat :=
  -- the running counter of the Python loops is the position of `(i_patom, j, k, ..)` in loop order
  ((c.decomprKeys n).zipIdx).foldl
    (fun out (key, cnt) =>
      (List.range c.nlp).foldl
        (fun out l => out.setIfInBounds (flat c.N (key.map (c.img l))) cnt) out)
    (Array.replicate (c.N ^ n) 0)

/-- Closed form of the same array: the class of an atom tuple is
    `m * N^(n-1) + flat(rest)` where some translation `l` maps `(indep[m], rest)` onto the tuple. -/
def classIdx (c : Cell) (atoms : List Nat) : Option Nat :=
  match atoms with
  | [] => none
  | i :: _ =>
    let indep := c.indepAtoms
    -- the translation bringing an independent atom onto `i`
    (List.range c.nlp).findSome? (fun l =>
      (List.range indep.length).findSome? (fun m =>
        if c.img l (indep.getD m c.N) == i then
          -- pull the whole tuple back by translation `l`
          let back := atoms.map (fun a => ((List.range c.N).find? (fun j => c.img l j == a)).getD c.N)
          some (m * c.N ^ (atoms.length - 1) + flat c.N (back.drop 1))
        else none))

/-- `get_lat_trans_decompr_indices(_O{n})`: element-level class index
    (`atomic class * 3^n + cartesian`). -/
def latTransDecompr (c : Cell) (n : Nat) : Array Nat :=
  let ad := c.atomicDecompr n
  let p := 3 ^ n
  Array.ofFn (n := c.N ^ n * p) (fun t => ad.getD (t.val / p) 0 * p + t.val % p)

end Cell
end Symfc
