/-
  Model/Solver.lean — design matrix and normal equations of the six solvers.
  Exact integer arithmetic: all Taylor constants are multiplied by 6 (`const6`), so the model's
  design matrix is `6·X`, its Gram matrix `36·XᵀX` and its right-hand side `6·Xᵀy`.
-/
import SymfcModel.Model.Cell
import SymfcModel.Model.Types
namespace Symfc

abbrev IMat := Array (Array Int)
/-- sparse rows: `row ↦ [(col, val)]` -/
abbrev SRows := Array (List (Nat × Int))

def IMat.zeros (r c : Nat) : IMat := Array.replicate r (Array.replicate c 0)
def IMat.get (m : IMat) (i j : Nat) : Int := (m.getD i #[]).getD j 0
def IMat.add (a b : IMat) : IMat :=
  Array.ofFn (n := a.size) (fun i => Array.ofFn (n := (a.getD i #[]).size) (fun j => a.get i j + b.get i j))

/-- apply a `reshape_*` divmod chain to one COO entry `(row, col)` -/
def Chain.run (ch : Chain) (N nx : Nat) (row col : Nat) : Nat × Nat :=
  let (r, c, rem) := ch.steps.foldl
    (fun (acc : Nat × Nat × Nat) st =>
      let (r, c, cur) := acc
      let d := st.divisor.eval N nx
      let q := cur / d
      let rem := cur % d
      let v := q * st.mult.eval N nx
      match st.target with
      | .row => (if st.assign then v else r + v, c, rem)
      | .col => (r, if st.assign then v else c + v, rem))
    (row, col, row)
  match ch.remTarget with
  | .row => (r + rem, c)
  | .col => (r, c + rem)

/-- displacement monomials of degree `k-1`: index `flat (3N) [p1, .., p_{k-1}]` ↦ `u_{p1}·…·u_{p_{k-1}}` -/
def dispPow (u : Array Int) (N3 deg idx : Nat) : Int :=
  (unflat N3 deg idx).foldl (fun acc p => acc * u.getD p 0) 1

structure OrderData where
  k      : Nat            -- order 2,3,4
  nx     : Nat            -- number of columns of the compact compression matrix
  cc     : SRows          -- compact compression matrix (class-space rows), integer valued here
  const6 : Int            -- 6 × Taylor constant (−6, −3, −1)
  chain  : Chain

/-- OPERATIONAL: reshaped + scaled compression matrix of one atom batch `[bi, ei)` as COO entries
    `(row', col', val)` — `compact[decompr_idx]` followed by the divmod chain. -/
def comprEntries (c : Cell) (od : OrderData) (bi ei : Nat) : List (Nat × Nat × Int) :=
  let ad := c.atomicDecompr od.k
  let nk := c.N ^ (od.k - 1)
  let p3 := 3 ^ od.k
  (List.range ((ei - bi) * nk)).flatMap (fun q =>
    (List.range p3).flatMap (fun x =>
      let src := ad.getD (bi * nk + q) 0 * p3 + x
      ((od.cc.getD src []).map (fun (col, v) =>
        let (r', c') := od.chain.run c.N od.nx (q * p3 + x) col
        (r', c', od.const6 * v)))))

/-- OPERATIONAL: block `X_k` of the design matrix for snapshots `us` and atom batch `[bi, ei)`;
    row index `(s, il, a)`, `nx` columns. -/
def designBlockOp (c : Cell) (od : OrderData) (us : List (Array Int)) (bi ei : Nat) : IMat :=
  let ents := comprEntries c od bi ei
  let n3 := (ei - bi) * 3
  let N3 := 3 * c.N
  let rows := us.flatMap (fun u =>
    -- dense row of length n3*nx, then reshaped to (n3, nx)
    let dense := ents.foldl (fun (acc : Array Int) (r', c', v) =>
      acc.modify c' (· + dispPow u N3 (od.k - 1) r' * v)) (Array.replicate (n3 * od.nx) 0)
    (List.range n3).map (fun m => (dense.extract (m * od.nx) ((m + 1) * od.nx))))
  rows.toArray

/-- SPEC (Taylor expansion): entry of `6·X_k` for snapshot `u`, atom `i`, component `a`, column `x`:
    `const6 · Σ_{(j,b),(k,c),…} cc[class(i,j,k,…)·3^k + (a,b,c,…), x] · u_{jb} u_{kc} …` -/
def designEntrySpec (c : Cell) (od : OrderData) (u : Array Int) (i a x : Nat) : Int :=
  let ad := c.atomicDecompr od.k
  let N3 := 3 * c.N
  let deg := od.k - 1
  (List.range (N3 ^ deg)).foldl (fun acc idx =>
    let ps := unflat N3 deg idx
    let atoms := i :: ps.map (· / 3)
    let carts := a :: ps.map (· % 3)
    let src := ad.getD (flat c.N atoms) 0 * 3 ^ od.k + flat 3 carts
    let coef := ((od.cc.getD src []).foldl (fun s (col, v) => if col == x then s + v else s) 0)
    acc + od.const6 * coef * dispPow u N3 deg idx) 0

def hcat (ms : List IMat) : IMat :=
  match ms with
  | [] => #[]
  | m :: _ => Array.ofFn (n := m.size) (fun i => ms.foldl (fun acc mm => acc ++ mm.getD i #[]) #[])

/-- `Aᵀ B` -/
def tmul (a b : IMat) : IMat :=
  let ca := (a.getD 0 #[]).size
  let cb := (b.getD 0 #[]).size
  Array.ofFn (n := ca) (fun i => Array.ofFn (n := cb) (fun j =>
    (List.range a.size).foldl (fun s r => s + a.get r i * b.get r j) 0))

/-- OPERATIONAL normal equations: loops over atom batches and snapshot batches exactly as
    `prepare_normal_equation_*` (joint design matrix `[X_k1 | X_k2 | …]`), accumulating Gram sums.
    `forces[s]` is the flat `(3N)` vector. Result `(36·XᵀX, 6·Xᵀy)`. -/
def normalEqOp (c : Cell) (ods : List OrderData) (us fs : List (Array Int))
    (atomBatch snapBatch : Nat) : Option (IMat × Array Int) :=
  match batchSlice c.N atomBatch, batchSlice us.length snapBatch with
  | some ab, some sb =>
    let ncol := ods.foldl (fun s od => s + od.nx) 0
    let init : IMat × Array Int := (IMat.zeros ncol ncol, Array.replicate ncol 0)
    some (ab.foldl (fun acc (bi, ei) =>
      sb.foldl (fun (acc : IMat × Array Int) (b, e) =>
        let usb := (us.drop b).take (e - b)
        let fsb := (fs.drop b).take (e - b)
        let X := hcat (ods.map (fun od => designBlockOp c od usb bi ei))
        let y : IMat := (fsb.flatMap (fun f =>
          (List.range ((ei - bi) * 3)).map (fun m => #[f.getD (bi * 3 + m) 0]))).toArray
        let g := tmul X X
        let xy := tmul X y
        (acc.1.add g, Array.ofFn (n := ncol) (fun j => acc.2.getD j 0 + xy.get j 0)))
        acc) init)
  | _, _ => none

/-- SPEC normal equations: Gram matrix of the full Taylor design matrix, rows `(s, i, a)`. -/
def normalEqSpec (c : Cell) (ods : List OrderData) (us fs : List (Array Int)) : IMat × Array Int :=
  let rows : List (Array Int × Int) := (us.zip fs).flatMap (fun (u, f) =>
    (List.range c.N).flatMap (fun i => (List.range 3).map (fun a =>
      ((ods.foldl (fun (acc : Array Int) od =>
          acc ++ Array.ofFn (n := od.nx) (fun x => designEntrySpec c od u i a x.val)) #[]),
       f.getD (3 * i + a) 0))))
  let X : IMat := (rows.map (·.1)).toArray
  let y : IMat := (rows.map (fun r => #[r.2])).toArray
  let ncol := ods.foldl (fun s od => s + od.nx) 0
  (tmul X X, Array.ofFn (n := ncol) (fun j => (tmul X y).get j 0))

end Symfc
