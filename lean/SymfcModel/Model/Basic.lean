/-
  Model/Basic.lean — import-free helpers shared by the executable model.
  Everything here is total and computable (the line-protocol driver runs it).
-/
namespace Symfc

/-- `get_batch_slice(n_data, batch_size)` of `solver_funcs.py`:
    `begin = range(0, n, b)`, `end = begin[1:] ++ [n]`.
    Python raises `ValueError` for `b = 0`; the model returns `none` there. -/
def batchBegins (n b : Nat) : List Nat :=
  (List.range ((n + b - 1) / b)).map (· * b)

def batchSlice (n b : Nat) : Option (List (Nat × Nat)) :=
  if b = 0 then none
  else
    let begins := batchBegins n b
    -- python: if len(begin) > 1 then end = begin[1:] + [n] else end = [n];
    -- zip(begin, end) truncates to the shorter list (n = 0 gives no batches)
    some (begins.zip (begins.tail ++ [n]))

/-- mixed-radix flattening: `flat base [d1,..,dk] = ((d1*base + d2)*base + ...) + dk` -/
def flat (base : Nat) (ds : List Nat) : Nat :=
  ds.foldl (fun acc d => acc * base + d) 0

/-- inverse of `flat` for `k` digits (most significant first) -/
def unflat (base k x : Nat) : List Nat :=
  (List.range k).reverse.map (fun p => (x / base ^ p) % base)

/-- all length-`k` tuples over `range base`, lexicographic (= `np.mgrid` order, = `itertools.product`) -/
def tuples (base : Nat) : Nat → List (List Nat)
  | 0 => [[]]
  | k + 1 => (List.range base).flatMap (fun d => (tuples base k).map (d :: ·))

/-- strictly increasing `r`-tuples from `range n` whose entries are all `≥ lo`, lexicographic
    (= `itertools.combinations(range(n), r)`, = `get_entire_combinations`). -/
def combsFrom (n : Nat) : Nat → Nat → List (List Nat)
  | 0, _ => [[]]
  | r + 1, lo => (List.range n).flatMap (fun d =>
      if lo ≤ d then (combsFrom n r (d + 1)).map (d :: ·) else [])

def entireCombinations (n r : Nat) : List (List Nat) := combsFrom n r 0

/-- `itertools.permutations(range n)` order (lexicographic) -/
def permsOf : List Nat → List (List Nat)
  | [] => [[]]
  | xs => aux xs xs.length
where
  aux (xs : List Nat) : Nat → List (List Nat)
    | 0 => [[]]
    | fuel + 1 =>
      if xs.isEmpty then [[]] else
      (List.range xs.length).flatMap (fun i =>
        let x := xs.getD i 0
        (aux (xs.eraseIdx i) fuel).map (x :: ·))

end Symfc
