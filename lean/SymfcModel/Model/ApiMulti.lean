/-
  Model/ApiMulti.lean — SEVERAL `Symfc` objects that may SHARE basis-set dictionaries.

  In api_symfc.py the `basis_set` setter stores the dict it is given by reference
  (`self._basis_set = basis_set`) and `compute_basis_set` writes `self._basis_set[order] = …` INTO that
  dict. After `B.basis_set = A.basis_set` the two objects hold ONE dict. The single-object model
  (`Model/Api.lean`) cannot say this; here every object holds a reference `dictRef` into a heap of dicts.

  Everything an object does is expressed through the single-object functions (`computeStep`, `solveStep`)
  applied to the single-object state `view s i` that object `i` sees.
-/
import SymfcModel.Model.Api
namespace Symfc

/-- one `Symfc` object; its basis-set dict lives in the heap under `dictRef` -/
structure MObj where
  natom   : Nat
  cfgId   : Nat
  cutoff  : List (Nat × Option Nat)
  disp    : Option Arr
  forces  : Option Arr
  dictRef : Nat
  fc      : List (Nat × FcVal)
deriving Repr, DecidableEq

structure MState where
  objs  : List MObj
  /-- the heap: `dicts[r]` is the dict every object with `dictRef = r` reads and writes -/
  dicts : List (List (Nat × Basis))
deriving Repr, DecidableEq

def MState.empty : MState := { objs := [], dicts := [] }

inductive MErr
  | noObject                -- an operation names an object that was never created
  | api (e : ApiErr)        -- the exception the single-object model raises
deriving Repr, DecidableEq

inductive MOp
  /-- `Symfc(supercell, cutoff=…)`: a fresh object with a fresh empty dict -/
  | new (natom cfgId : Nat) (cutoff : List (Nat × Option Nat))
  | setDisp (obj : Nat) (a : Arr)
  | setForces (obj : Nat) (a : Arr)
  /-- `dst.basis_set = src.basis_set`: the setter keeps the reference -/
  | handOver (dst src : Nat)
  | computeBasis (obj : Nat) (maxOrder : Option Nat) (orders : Option (List Nat))
  | solve (obj : Nat) (maxOrder : Option Nat) (orders : Option (List Nat)) (compact : Bool)
  | run (obj : Nat) (maxOrder : Option Nat) (orders : Option (List Nat)) (compact : Bool)
deriving Repr

/-- the dict object `o` sees -/
def heapGet (s : MState) (r : Nat) : List (Nat × Basis) := (s.dicts[r]?).getD []

/-- the single-object state seen by the object `o` of `s` -/
def viewOf (s : MState) (o : MObj) : ApiState :=
  { natom := o.natom, cfgId := o.cfgId, cutoff := o.cutoff, disp := o.disp, forces := o.forces,
    basis := heapGet s o.dictRef, fc := o.fc }

/-- the single-object state seen by object number `i` -/
def view (s : MState) (i : Nat) : Option ApiState := (s.objs[i]?).map (viewOf s)

def liftErr (e : Option ApiErr) : Option MErr := e.map MErr.api

/-- `compute_basis_set` on object `i`: the single-object `computeStep` on its view; the resulting dict is
    written into the heap cell the object refers to (so every object holding that reference sees it) -/
def mCompute (cfg : ApiCfg) (s : MState) (i : Nat) (m : Option Nat) (os : Option (List Nat)) :
    MState × Option MErr :=
  match s.objs[i]? with
  | none => (s, some .noObject)
  | some o =>
    let r := computeStep cfg (viewOf s o) m os
    ({ s with dicts := s.dicts.set o.dictRef r.1.basis }, liftErr r.2)

/-- `solve` on object `i`: the single-object `solveStep` on its view; only `fc` is written back -/
def mSolve (cfg : ApiCfg) (s : MState) (i : Nat) (m : Option Nat) (os : Option (List Nat)) (c : Bool) :
    MState × Option MErr :=
  match s.objs[i]? with
  | none => (s, some .noObject)
  | some o =>
    let r := solveStep cfg (viewOf s o) m os c
    ({ s with objs := s.objs.set i { o with fc := r.1.fc } }, liftErr r.2)

def mstep (cfg : ApiCfg) (s : MState) (op : MOp) : MState × Option MErr :=
  match op with
  | .new natom cfgId cutoff =>
    ({ objs := s.objs ++ [{ natom := natom, cfgId := cfgId, cutoff := cutoff, disp := none, forces := none,
                            dictRef := s.dicts.length, fc := [] }],
       dicts := s.dicts ++ [[]] }, none)
  | .setDisp i a =>
    match s.objs[i]? with
    | none => (s, some .noObject)
    | some o => ({ s with objs := s.objs.set i { o with disp := some a } }, none)
  | .setForces i a =>
    match s.objs[i]? with
    | none => (s, some .noObject)
    | some o => ({ s with objs := s.objs.set i { o with forces := some a } }, none)
  | .handOver dst src =>
    match s.objs[dst]?, s.objs[src]? with
    | some od, some os => ({ s with objs := s.objs.set dst { od with dictRef := os.dictRef } }, none)
    | _, _ => (s, some .noObject)
  | .computeBasis i m os => mCompute cfg s i m os
  | .solve i m os c => mSolve cfg s i m os c
  | .run i m os c =>
    match s.objs[i]? with
    | none => (s, some .noObject)
    | some o =>
      if cfg.runGuarded && (o.disp.isNone || o.forces.isNone) then (s, none)
      else
        match mCompute cfg s i m os with
        | (s', some e) => (s', some e)
        | (s', none) => mSolve cfg s' i m os c

def runM (cfg : ApiCfg) (s : MState) (ops : List MOp) : MState :=
  ops.foldl (fun s op => (mstep cfg s op).1) s

/-- the object an operation acts on and the single-object operation it performs there
    (`none` for the two operations that have no single-object counterpart) -/
def MOp.onObject : MOp → Option (Nat × ApiOp)
  | .new _ _ _ => none
  | .handOver _ _ => none
  | .setDisp i a => some (i, .setDisp a)
  | .setForces i a => some (i, .setForces a)
  | .computeBasis i m os => some (i, .computeBasis m os)
  | .solve i m os c => some (i, .solve m os c)
  | .run i m os c => some (i, .run m os c)

/-- every reference points into the heap -/
def WF (s : MState) : Prop := ∀ o ∈ s.objs, o.dictRef < s.dicts.length

/-- what a COPYING setter would do (`self._basis_set = dict(basis_set)`): `dst` gets a new heap cell whose
    content equals `src`'s dict. Not an operation of the library; defined for contrast. -/
def handOverCopy (s : MState) (dst src : Nat) : MState × Option MErr :=
  match s.objs[dst]?, s.objs[src]? with
  | some od, some os =>
    ({ objs := s.objs.set dst { od with dictRef := s.dicts.length },
       dicts := s.dicts ++ [heapGet s os.dictRef] }, none)
  | _, _ => (s, some .noObject)

end Symfc
