/-
  Model/Eig.lean — structural part of `eig_tools.py`: compression by empty columns, block finding,
  duplicate-block dictionary, 1×1 rule, column placement, rank short-cuts and the bookkeeping of the
  block-divided solver. The dense eigen-solve itself is NOT modelled (trusted kernel contract):
  it enters only through the number of unit eigenvectors it returned for a block.
  Matrix entries are integers `k` standing for the rational `k / den`.
-/
import SymfcModel.Model.Basic
import SymfcModel.Model.Types
import SymfcModel.Model.Solver
namespace Symfc

/-- indices of columns holding a non-zero entry (`np.unique(p.nonzero()[1])`) -/
def nonzeroCols (m : IMat) : List Nat :=
  (List.range ((m.getD 0 #[]).size)).filter (fun j => (List.range m.size).any (fun i => m.get i j != 0))

def subMat (m : IMat) (ids : List Nat) : IMat :=
  (ids.map (fun i => (ids.map (fun j => m.get i j)).toArray)).toArray

/-- weakly connected components of the non-zero pattern, each block ascending,
    blocks ordered by their smallest index (`_find_projector_blocks`) -/
def findBlocks (m : IMat) : List (List Nat) := Id.run do
  let n := m.size
  let mut lab : Array Nat := Array.ofFn (n := n) (fun i => i.val)
  for _ in List.range n do
    let mut changed := false
    for i in List.range n do
      for j in List.range n do
        if m.get i j != 0 || m.get j i != 0 then
          let a := lab.getD i 0
          let b := lab.getD j 0
          if a != b then
            let mn := min a b
            lab := (lab.setIfInBounds i mn).setIfInBounds j mn
            changed := true
    if !changed then break
  let reps := (List.range n).filter (fun i => lab.getD i 0 == i)
  return reps.map (fun r => (List.range n).filter (fun i => lab.getD i 0 == r))

/-- Python `round` (half to even) of the rational `t / den`, `den > 0`, `t ≥ 0` -/
def roundHalfEven (t den : Int) : Int :=
  let q := t / den
  let r2 := 2 * (t % den)
  if r2 < den then q else if r2 > den then q + 1 else if q % 2 == 0 then q else q + 1

def traceOf (m : IMat) : Int := (List.range m.size).foldl (fun s i => s + m.get i i) 0

inductive UniqKind | solve | one
deriving Repr, DecidableEq

/-- one entry of `uniq_eigvecs` (insertion order): the block indices sharing it -/
structure UniqEntry where
  kind   : UniqKind
  labels : List Nat          -- indices into the block list
deriving Repr, DecidableEq

def oneByOneKeeps (rule : OneByOneRule) (v den : Int) : Bool :=
  match rule with
  | .keepIfNotCloseZero => v != 0
  | .keepIfCloseOne => v == den
  | .other => false

/-- the dictionary built by `eigsh_projector`: blocks of size > 1 keyed by their data,
    kept 1×1 blocks under the key `'one'` -/
def eigshPlan (rule : OneByOneRule) (m : IMat) (den : Int) (blocks : List (List Nat)) : List UniqEntry × List IMat :=
  (blocks.zipIdx).foldl
    (fun (acc : List UniqEntry × List IMat) (ids, bi) =>
      let (ents, keys) := acc
      if ids.length > 1 then
        let key := subMat m ids
        match (keys.zipIdx).find? (fun (k, _) => k == key) with
        | some (_, pos) =>
          (ents.modify pos (fun e => { e with labels := e.labels ++ [bi] }), keys)
        | none => (ents ++ [{ kind := .solve, labels := [bi] }], keys ++ [key])
      else
        let v := m.get (ids.headD 0) (ids.headD 0)
        if oneByOneKeeps rule v den then
          match (ents.zipIdx).find? (fun (e, _) => e.kind == .one) with
          | some (_, pos) => (ents.modify pos (fun e => { e with labels := e.labels ++ [bi] }), keys)
          | none => (ents ++ [{ kind := .one, labels := [bi] }], keys ++ [#[]])
        else acc)
    ([], [])

/-- `_recover_eigvecs_from_uniq_eigvecs`: every output entry `(row, col)` with its source
    `(entry index, r, c)` in the unique eigenvector matrix; `ncols[e]` = number of eigenvectors of
    entry `e` (0 when the dense solver returned `None`). -/
def placement (blocks : List (List Nat)) (ents : List UniqEntry) (ncols : List Nat) :
    List (Nat × Nat × Nat × Nat × Nat) × Nat :=
  (ents.zipIdx).foldl
    (fun (acc : List (Nat × Nat × Nat × Nat × Nat) × Nat) (e, ei) =>
      let (out, colId) := acc
      let nc := ncols.getD ei 0
      if nc == 0 then acc else
      let new := (e.labels.zipIdx).flatMap (fun (bl, seq) =>
        let ids := blocks.getD bl []
        (ids.zipIdx).flatMap (fun (row, r) =>
          (List.range nc).map (fun c => (row, colId + seq * nc + c, ei, r, c))))
      (out ++ new, colId + nc * e.labels.length))
    ([], 0)

/-- plan of `eigsh_projector_sumrule_stable/large`: per block whether the dense solver is called (`rank > 0`) -/
def sumrulePlan (m : IMat) (den : Int) (blocks : List (List Nat)) : List Bool :=
  blocks.map (fun ids => roundHalfEven (traceOf (subMat m ids)) den > 0)

/-- column bookkeeping of `_block_eigh_projector`: for sub-blocks of sizes `sizes`, with `solved[i]`
    telling whether `round(trace) > 0` and `found[i]` the number of unit eigenvectors returned,
    the number of eigenvector columns and of complement columns after the loop. -/
def blockBookkeeping (skippedInComplement : Bool) (sizes : List Nat) (solved : List Bool) (found : List Nat) :
    Nat × Nat :=
  ((sizes.zip (solved.zip found))).foldl
    (fun (acc : Nat × Nat) (sz, sv, k) =>
      if sv then (acc.1 + k, acc.2 + (sz - k))
      else if skippedInComplement then (acc.1, acc.2 + sz) else acc)
    (0, 0)

/-- `target_size = min(max(p_size // div, lo), hi)` -/
def targetSize (div lo hi pSize : Nat) : Nat := min (max (pSize / div) lo) hi

end Symfc
