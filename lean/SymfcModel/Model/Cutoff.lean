/-
  Model/Cutoff.lean — `cutoff_tools.FCCutoff` given an (integer-ranked) distance matrix.
-/
import SymfcModel.Model.Basic
import SymfcModel.Model.Types
namespace Symfc

structure CutoffIn where
  N      : Nat
  dist   : Array (Array Nat)   -- order-preserving integer image of the float distance matrix
  cutoff : Nat
deriving Repr

namespace CutoffIn

def d (x : CutoffIn) (i j : Nat) : Nat := (x.dist.getD i #[]).getD j 0

def neighbors (ops : CutoffOps) (x : CutoffIn) (i : Nat) : List Nat :=
  (List.range x.N).filter (fun j => ops.neighbors.eval (x.d i j) x.cutoff)

def pairsOK (x : CutoffIn) (tests : List (Nat × Nat × Cmp)) (atoms : List Nat) : Bool :=
  tests.all (fun (p, q, c) => c.eval (x.d (atoms.getD p 0) (atoms.getD q 0)) x.cutoff)

/-- `itertools.combinations(xs, r)` on an arbitrary list -/
def listCombs (xs : List Nat) (r : Nat) : List (List Nat) :=
  (entireCombinations xs.length r).map (fun ps => ps.map (fun p => xs.getD p 0))

def neighborsN3 (ops : CutoffOps) (idx : Cmp) (x : CutoffIn) (last : Nat) : List Nat :=
  (x.neighbors ops (last / 3)).flatMap (fun j =>
    (List.range 3).filterMap (fun b => if idx.eval (3 * j + b) last then some (3 * j + b) else none))

def combinations2 (ops : CutoffOps) (x : CutoffIn) : List (List Nat) :=
  (List.range (3 * x.N)).flatMap (fun jb =>
    (x.neighborsN3 ops ops.comb2Idx jb).map (fun ia => [ia, jb]))

def combinationsK (ops : CutoffOps) (x : CutoffIn) (k : Nat) : List (List Nat) :=
  let tests := if k == 3 then ops.comb3 else ops.comb4
  let idx := if k == 3 then ops.comb3Idx else ops.comb4Idx
  (List.range (3 * x.N)).flatMap (fun last =>
    ((listCombs (x.neighborsN3 ops idx last) (k - 1)).filter
        (fun cmb => x.pairsOK tests (cmb.map (· / 3)))).map (· ++ [last]))

def combinations (ops : CutoffOps) (x : CutoffIn) (k : Nat) : List (List Nat) :=
  if k == 2 then x.combinations2 ops else x.combinationsK ops k

/-- `nonzero_atomic_indices_fc{n}` as a Boolean array over flattened atom tuples.
    Closed form (the Python loop only ever sets entries to True, so the order of effects is irrelevant):
    entry `(i, j, k, ..)` is set iff `j, k, ..` are neighbours of `i` and pass the pair tests. -/
def nonzeroAtomic (ops : CutoffOps) (x : CutoffIn) (n : Nat) : Array Bool :=
  Array.ofFn (n := x.N ^ n) (fun t =>
    let atoms := unflat x.N n t.val
    let i := atoms.headD 0
    let rest := atoms.drop 1
    let tests := if n == 3 then ops.nonzero3 else if n == 4 then ops.nonzero4 else []
    rest.all (fun j => (x.neighbors ops i).contains j) && x.pairsOK tests rest)

end CutoffIn

/-- `get_combinations(natom, order, fc_cutoff, indep_atoms)` -/
def getCombinations (ops : CutoffOps) (N : Nat) (order : Nat) (cut : Option CutoffIn)
    (indep : Option (List Nat)) : List (List Nat) :=
  let combs := match cut with
    | none => entireCombinations (3 * N) order
    | some x => x.combinations ops order
  match indep with
  | none => combs
  | some ia => combs.filter (fun cmb => ia.contains (cmb.headD 0 / 3))

end Symfc
