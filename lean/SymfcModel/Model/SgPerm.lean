/-
  Model/SgPerm.lean — the exact-arithmetic core of `compute_sg_permutations` (utils.py):
  rounding of fractional coordinates into [-1/2, 1/2), sorting atoms by rounded coordinates, the FAST PATH
  assignment of pure-translation permutations, and the composition `trans_perms[l][perm_u]`.
  Coordinates are integers in units of 10^-d (`S = 10^d` units per lattice vector, S even), for inputs whose
  coordinates have at most d decimals the floating-point code computes exactly these integers.
  The distance fall-back, `symprec` and float rounding are NOT modelled.
-/
namespace Symfc

/-- `x - rint(x)` with the value +1/2 mapped to -1/2: the representative of x mod S in [-S/2, S/2) (S even) -/
def wrapHalf (S x : Int) : Int := (x + S / 2) % S - S / 2

/-- `round_positions` on one atom -/
def roundPos (S : Int) (p : List Int) : List Int := p.map (wrapHalf S)

/-- lexicographic `<` on integer triples (Python tuple comparison) -/
def lexLt : List Int → List Int → Bool
  | [], [] => false
  | [], _ :: _ => true
  | _ :: _, [] => false
  | a :: as, b :: bs => if a < b then true else if b < a then false else lexLt as bs

/-- stable insertion of index `i` into a list of indices sorted by `key` -/
def insertByKey (key : Nat → List Int) (i : Nat) : List Nat → List Nat
  | [] => [i]
  | j :: js => if lexLt (key i) (key j) then i :: j :: js else j :: insertByKey key i js

/-- `sorted(range(n), key=...)`. Tied keys come out in DESCENDING index order here whereas Python's `sorted` is stable;
    ties cannot occur inside `compute_sg_permutations` because `_find_optimal_decimals` demands pairwise distinct
    rounded positions (`positionsDistinct`), and no theorem or correspondence check depends on the order of ties. -/
def argsortBy (key : Nat → List Int) (n : Nat) : List Nat :=
  (List.range n).reverse.foldl (fun acc i => insertByKey key i acc) []

/-- `argsort_positions`: indices sorted by rounded coordinates -/
def argsortPos (S : Int) (ps : List (List Int)) : List Nat :=
  argsortBy (fun i => roundPos S (ps.getD i [])) ps.length

/-- FAST PATH of the pure-translation loop: if the sorted rounded coordinates of `x + t` coincide with those of `x`,
    atom `sorted_trans_ids[k]` is sent to atom `sorted_ids[k]`; otherwise `none` (the code falls back to distances). -/
def fastTransPerm (S : Int) (ps : List (List Int)) (t : List Int) : Option (List Nat) :=
  let ids := argsortPos S ps
  let tps := ps.map (fun p => (p.zip t).map (fun (a, b) => a + b))
  let tids := argsortPos S tps
  if ids.map (fun i => roundPos S (ps.getD i [])) == tids.map (fun i => roundPos S (tps.getD i [])) then
    some ((List.range ps.length).map (fun i =>
      -- tp[sorted_trans_ids[k]] = sorted_ids[k]
      match (tids.zip ids).find? (fun (a, _) => a == i) with
      | some (_, b) => b
      | none => ps.length))
  else none

/-- `_find_optimal_decimals` in the exact model: the rounded positions must be pairwise distinct -/
def positionsDistinct (S : Int) (ps : List (List Int)) : Bool :=
  (List.range ps.length).all (fun i => (List.range ps.length).all (fun j =>
    i == j || roundPos S (ps.getD i []) != roundPos S (ps.getD j [])))

/-- `out[i] = trans_perms[l][perms]`: first the permutation of the rotation, then the lattice translation -/
def composeOut (tp perm : List Nat) : List Nat := perm.map (fun j => tp.getD j tp.length)

end Symfc
