/-
  Lemmas/Order3d.lean — one batch of stage 3 of `Gen.stagesO3` (combinations of three distinct
  entries, six columns): every row ends up in one component.
-/
import SymfcModel.Lemmas.Order3c
namespace Symfc
namespace O3
open OC

/-- the row of the combination `[a, b, d]` at stage 3 -/
def row3 (c : Cell) (a b d : Nat) : List Nat :=
  [T c a b d, T c a d b, T c b a d, T c b d a, T c d a b, T c d b a]

theorem rows3_eq (c : Cell) (a b d : Nat) :
    stageRowsOf c.N (c.atomicDecompr 3) st3 [a, b, d] = [row3 c a b d] := rfl

/-- the six arrangements of `(a, b, d)`, in the order of the stage table -/
def arr (a b d : Nat) : Nat → List Nat
  | 0 => [a, b, d]
  | 1 => [a, d, b]
  | 2 => [b, a, d]
  | 3 => [b, d, a]
  | 4 => [d, a, b]
  | _ => [d, b, a]

/-- "the batch contains the combination obtained from `[a, b, d]` by the `j`-th arrangement and a
    lattice translation" -/
def P3 (c : Cell) (cs : List (List Nat)) (a b d j : Nat) : Prop :=
  ∃ l, l < c.nlp ∧ (arr a b d j).map (tauE c l) ∈ cs

theorem lt_six_cases {j : Nat} (hj : j < 6) : j = 0 ∨ j = 1 ∨ j = 2 ∨ j = 3 ∨ j = 4 ∨ j = 5 := by
  omega

section stage3
variable {c : Cell} (hwf : c.wf = true) {a b d : Nat} (ha : a < 3 * c.N) (hb : b < 3 * c.N)
  (hd : d < 3 * c.N)
include hwf ha hb hd

/-- the row of a translated arrangement of `[a, b, d]` in terms of the row of `[a, b, d]` -/
theorem row3_arr {j l a' b' d' : Nat} (hj : j < 6) (hl : l < c.nlp)
    (he : [a', b', d'] = (arr a b d j).map (tauE c l)) :
    row3 c a' b' d' = rho (row3 c a b d) j := by
  rcases lt_six_cases hj with rfl | rfl | rfl | rfl | rfl | rfl <;>
  · simp only [arr, List.map_cons, List.map_nil, List.cons.injEq, and_true] at he
    obtain ⟨rfl, rfl, rfl⟩ := he
    simp only [row3, T_translate hwf ha hb hd hl, T_translate hwf ha hd hb hl,
      T_translate hwf hb ha hd hl, T_translate hwf hb hd ha hl, T_translate hwf hd ha hb hl,
      T_translate hwf hd hb ha hl]
    rfl

/-- a combination whose head lies in the row of `[a, b, d]` is a translated arrangement of it -/
theorem head_cases {a' b' d' : Nat} (ha' : a' < 3 * c.N) (hb' : b' < 3 * c.N)
    (hd' : d' < 3 * c.N) (hm : T c a' b' d' ∈ row3 c a b d) :
    ∃ j, j < 6 ∧ ∃ l, l < c.nlp ∧ [a', b', d'] = (arr a b d j).map (tauE c l) := by
  simp only [row3, List.mem_cons, List.not_mem_nil, or_false] at hm
  rcases hm with e | e | e | e | e | e
  · obtain ⟨l, hl, h1, h2, h3⟩ := T_sep hwf ha hb hd ha' hb' hd' e.symm
    exact ⟨0, by omega, l, hl, by simp [arr, h1, h2, h3]⟩
  · obtain ⟨l, hl, h1, h2, h3⟩ := T_sep hwf ha hd hb ha' hb' hd' e.symm
    exact ⟨1, by omega, l, hl, by simp [arr, h1, h2, h3]⟩
  · obtain ⟨l, hl, h1, h2, h3⟩ := T_sep hwf hb ha hd ha' hb' hd' e.symm
    exact ⟨2, by omega, l, hl, by simp [arr, h1, h2, h3]⟩
  · obtain ⟨l, hl, h1, h2, h3⟩ := T_sep hwf hb hd ha ha' hb' hd' e.symm
    exact ⟨3, by omega, l, hl, by simp [arr, h1, h2, h3]⟩
  · obtain ⟨l, hl, h1, h2, h3⟩ := T_sep hwf hd ha hb ha' hb' hd' e.symm
    exact ⟨4, by omega, l, hl, by simp [arr, h1, h2, h3]⟩
  · obtain ⟨l, hl, h1, h2, h3⟩ := T_sep hwf hd hb ha ha' hb' hd' e.symm
    exact ⟨5, by omega, l, hl, by simp [arr, h1, h2, h3]⟩

/-- the stabiliser of a combination of three distinct entries is trivial or cyclic of order 3 -/
theorem six_dichotomy (hab : a ≠ b) (had : a ≠ d) (hbd : b ≠ d) :
    (row3 c a b d).Nodup ∨
      (T c b d a = T c a b d ∧ T c d a b = T c a b d ∧ T c b a d = T c a d b ∧
        T c d b a = T c a d b ∧ T c a b d ≠ T c a d b) := by
  -- an even and an odd arrangement never have the same index
  have n01 : T c a b d ≠ T c a d b := fun e =>
    hbd (T_fix hwf ha hb hd ha hd hb e (Or.inl rfl)).2.1
  have n02 : T c a b d ≠ T c b a d := fun e =>
    hab (T_fix hwf ha hb hd hb ha hd e (Or.inr (Or.inr rfl))).1
  have n05 : T c a b d ≠ T c d b a := fun e =>
    had (T_fix hwf ha hb hd hd hb ha e (Or.inr (Or.inl rfl))).1
  have n31 : T c b d a ≠ T c a d b := fun e =>
    hab (T_fix hwf hb hd ha ha hd hb e (Or.inr (Or.inl rfl))).1.symm
  have n32 : T c b d a ≠ T c b a d := fun e =>
    had (T_fix hwf hb hd ha hb ha hd e (Or.inl rfl)).2.1.symm
  have n35 : T c b d a ≠ T c d b a := fun e =>
    hbd (T_fix hwf hb hd ha hd hb ha e (Or.inr (Or.inr rfl))).1
  have n41 : T c d a b ≠ T c a d b := fun e =>
    had (T_fix hwf hd ha hb ha hd hb e (Or.inr (Or.inr rfl))).1.symm
  have n42 : T c d a b ≠ T c b a d := fun e =>
    hbd (T_fix hwf hd ha hb hb ha hd e (Or.inr (Or.inl rfl))).1.symm
  have n45 : T c d a b ≠ T c d b a := fun e =>
    hab (T_fix hwf hd ha hb hd hb ha e (Or.inl rfl)).2.1
  by_cases h03 : T c a b d = T c b d a
  · obtain ⟨p1, p2, p3, p4, p5⟩ := T_perm hwf ha hb hd hb hd ha h03
    -- p1 : T b d a = T d a b, p2 : T d a b = T a b d, p3 : T a d b = T b a d,
    -- p4 : T b a d = T d b a, p5 : T d b a = T a d b
    exact Or.inr ⟨h03.symm, p2, p3.symm, p5, n01⟩
  · left
    have h04 : T c a b d ≠ T c d a b := fun e =>
      h03 (T_perm hwf ha hb hd hd ha hb e).1.symm
    have h34 : T c b d a ≠ T c d a b := fun e =>
      h04 (T_perm hwf hb hd ha hd ha hb e).1.symm
    have h12 : T c a d b ≠ T c b a d := fun e =>
      h03 (T_perm hwf ha hd hb hb ha hd e).2.2.1
    have h15 : T c a d b ≠ T c d b a := fun e =>
      h04 (T_perm hwf ha hd hb hd hb ha e).2.2.1
    have h25 : T c b a d ≠ T c d b a := fun e =>
      h03 (T_perm hwf hb ha hd hd hb ha e).2.2.2.1
    simp only [row3, List.nodup_cons, List.mem_cons, List.not_mem_nil, or_false, not_or,
      List.nodup_nil, and_true, not_false_eq_true]
    exact ⟨⟨n01, n02, h03, h04, n05⟩, ⟨h12, Ne.symm n31, Ne.symm n41, h15⟩,
      ⟨Ne.symm n32, Ne.symm n42, h25⟩, ⟨h34, n35⟩, n45⟩

end stage3

/-- entries of a combination of the batch -/
theorem comb3_facts (c : Cell) (cut : Option CutoffIn) (hcut : ∀ x, cut = some x → x.N = c.N)
    {cs : List (List Nat)} (hcs : ∀ x ∈ cs, x ∈ stageCombs Gen.cutoffOps c 3 cut st3)
    {x y z : Nat} (hm : [x, y, z] ∈ cs) : x < y ∧ y < z ∧ z < 3 * c.N ∧ x / 3 ∈ c.indepAtoms := by
  obtain ⟨a, b, d, he, h1, h2, h3, h4⟩ := comb3_cases c cut hcut (hcs _ hm)
  simp only [List.cons.injEq, and_true] at he
  obtain ⟨rfl, rfl, rfl⟩ := he
  exact ⟨h1, h2, h3, h4⟩

/-- at most one of the two arrangements with the same first position occurs in a batch -/
theorem P3_excl (c : Cell) (hwf : c.wf = true) (cut : Option CutoffIn)
    (hcut : ∀ x, cut = some x → x.N = c.N) {cs : List (List Nat)}
    (hcs : ∀ x ∈ cs, x ∈ stageCombs Gen.cutoffOps c 3 cut st3) {a b d : Nat}
    (ha : a < 3 * c.N) (hb : b < 3 * c.N) (hd : d < 3 * c.N) :
    ¬ (P3 c cs a b d 0 ∧ P3 c cs a b d 1) ∧ ¬ (P3 c cs a b d 2 ∧ P3 c cs a b d 3) ∧
      ¬ (P3 c cs a b d 4 ∧ P3 c cs a b d 5) := by
  have h := Cell.wf_WF c hwf
  refine ⟨?_, ?_, ?_⟩
  · rintro ⟨⟨l, hl, h1⟩, ⟨l', hl', h2⟩⟩
    have f1 := comb3_facts c cut hcut hcs h1
    have f2 := comb3_facts c cut hcut hcs h2
    have : l = l' := indep_same h hl hl' ha f1.2.2.2 f2.2.2.2
    subst this
    omega
  · rintro ⟨⟨l, hl, h1⟩, ⟨l', hl', h2⟩⟩
    have f1 := comb3_facts c cut hcut hcs h1
    have f2 := comb3_facts c cut hcut hcs h2
    have : l = l' := indep_same h hl hl' hb f1.2.2.2 f2.2.2.2
    subst this
    omega
  · rintro ⟨⟨l, hl, h1⟩, ⟨l', hl', h2⟩⟩
    have f1 := comb3_facts c cut hcut hcs h1
    have f2 := comb3_facts c cut hcut hcs h2
    have : l = l' := indep_same h hl hl' hd f1.2.2.2 f2.2.2.2
    subst this
    omega

theorem rho_cyclic (x y : Nat) {j : Nat} (hj : j < 6) :
    rho [x, y, y, x, x, y] j = [x, y, y, x, x, y] ∨ rho [x, y, y, x, x, y] j = [y, x, x, y, y, x] := by
  rcases lt_six_cases hj with rfl | rfl | rfl | rfl | rfl | rfl
  · exact Or.inl rfl
  · exact Or.inr rfl
  · exact Or.inr rfl
  · exact Or.inl rfl
  · exact Or.inl rfl
  · exact Or.inr rfl

/-- (C), (D) stage 3: in one batch of stage 3 (any sub-list `cs` of its combinations) all
    elements of every row end up in one component -/
theorem stage3_conn (c : Cell) (hwf : c.wf = true) (cut : Option CutoffIn)
    (hcut : ∀ x, cut = some x → x.N = c.N) {cs : List (List Nat)}
    (hcs : ∀ x ∈ cs, x ∈ stageCombs Gen.cutoffOps c 3 cut st3)
    (hoc : OrbitClosed (rowsOf c st3 cs)) {r : List Nat} (hr : r ∈ rowsOf c st3 cs)
    {q : Array Int} (hsz : ∀ e ∈ r, e < q.size) (hq : ∀ e ∈ r, LastCol (rowsOf c st3 cs) q e) :
    ∀ a ∈ r, ∀ b ∈ r, SameComp q a b := by
  have h := Cell.wf_WF c hwf
  have hn : ((rowsOf c st3 cs).headD []).length = 6 := rowsOf_ncol c hr
  have hlen : ∀ R ∈ rowsOf c st3 cs, R.length = 6 := fun _ hR => rowsOf_length c hR
  -- the rows of the batch
  have hB : ∀ R ∈ rowsOf c st3 cs, ∃ a b d, [a, b, d] ∈ cs ∧ a < b ∧ b < d ∧ d < 3 * c.N ∧
      R = row3 c a b d := by
    intro R hR
    obtain ⟨cu, hcu, hRcu⟩ := List.mem_flatMap.mp hR
    obtain ⟨a, b, d, rfl, hab, hbd, hd3, _⟩ := comb3_cases c cut hcut (hcs cu hcu)
    rw [rows3_eq, List.mem_singleton] at hRcu
    exact ⟨a, b, d, hcu, hab, hbd, hd3, hRcu⟩
  have hBmem : ∀ a b d, [a, b, d] ∈ cs → row3 c a b d ∈ rowsOf c st3 cs := fun a b d hm =>
    List.mem_flatMap.mpr ⟨_, hm, by rw [rows3_eq]; exact List.mem_singleton.mpr rfl⟩
  obtain ⟨a, b, d, habd, hab, hbd, hd3, rfl⟩ := hB r hr
  have ha3 : a < 3 * c.N := by omega
  have hb3 : b < 3 * c.N := by omega
  -- every row meeting the row of `[a, b, d]` is a rearrangement `rho · j` of it
  have hrowsG : ∀ R ∈ rowsOf c st3 cs, (∃ x ∈ R, x ∈ row3 c a b d) →
      ∃ j, j < 6 ∧ P3 c cs a b d j ∧ R = rho (row3 c a b d) j := by
    rintro R hR ⟨x, hxR, hxr⟩
    have hs := hoc _ hr R hR ⟨x, hxr, hxR⟩
    obtain ⟨a', b', d', hmem', hab', hbd', hd3', rfl⟩ := hB R hR
    have hhead : T c a' b' d' ∈ row3 c a b d := (hs _).mpr (by simp [row3])
    obtain ⟨j, hj, l, hl, he⟩ := head_cases hwf ha3 hb3 hd3 (by omega) (by omega) hd3' hhead
    exact ⟨j, hj, ⟨l, hl, he ▸ hmem'⟩, row3_arr hwf ha3 hb3 hd3 hj hl he⟩
  have hpres : ∀ j, j < 6 → P3 c cs a b d j → rho (row3 c a b d) j ∈ rowsOf c st3 cs := by
    rintro j hj ⟨l, hl, hm⟩
    obtain ⟨a', b', d', he⟩ : ∃ a' b' d', [a', b', d'] = (arr a b d j).map (tauE c l) := by
      rcases lt_six_cases hj with rfl | rfl | rfl | rfl | rfl | rfl <;> exact ⟨_, _, _, rfl⟩
    rw [← row3_arr hwf ha3 hb3 hd3 hj hl he]
    exact hBmem _ _ _ (he ▸ hm)
  have hP0 : P3 c cs a b d 0 :=
    ⟨0, h.nlp_pos, by simpa [arr, tauE_zero h ha3, tauE_zero h hb3, tauE_zero h hd3] using habd⟩
  rcases six_dichotomy hwf ha3 hb3 hd3 (by omega) (by omega) (by omega) with hnd | hcyc
  · -- trivial stabiliser
    exact conn_six_distinct (es := row3 c a b d) rfl hnd (P3 c cs a b d) hn hlen hrowsG hpres
      (P3_excl c hwf cut hcut hcs ha3 hb3 hd3) ⟨0, by omega, hP0⟩ hsz hq
  · -- cyclic stabiliser
    obtain ⟨e3, e4, e2, e5, hxy⟩ := hcyc
    have hes : row3 c a b d = [T c a b d, T c a d b, T c a d b, T c a b d, T c a b d, T c a d b] := by
      simp only [row3, e3, e4, e2, e5]
    rw [hes] at hr hsz hq hrowsG hpres
    have key := conn_two_vals hxy hn hlen
      (fun R hR hm => by
        obtain ⟨j, hj, _, rfl⟩ := hrowsG R hR (by
          rcases hm with hm | hm
          · exact ⟨_, hm, by simp⟩
          · exact ⟨_, hm, by simp⟩)
        exact rho_cyclic _ _ hj)
      hr ⟨hsz _ (by simp), hsz _ (by simp)⟩ ⟨hq _ (by simp), hq _ (by simp)⟩
    have hm : ∀ x, x ∈ row3 c a b d → x ∈ [T c a b d, T c a d b] := by
      intro x hx
      rw [hes] at hx
      simp only [List.mem_cons, List.not_mem_nil, or_false] at hx ⊢
      rcases hx with h | h | h | h | h | h <;> simp [h]
    exact fun u hu v hv => key u (hm u hu) v (hm v hv)

end O3
end Symfc
