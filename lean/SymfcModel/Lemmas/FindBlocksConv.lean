/-
  Lemmas/FindBlocksConv.lean — `n` sweeps of the label propagation of `findBlocks` reach the final
  labelling: every index holds the smallest index of its connected component.

  V1 component minima `IsMin`, final labels `Final`
  V2 a label that reached the component minimum stays; an edge visited by a sweep with one end at the
     minimum has both ends at the minimum afterwards
  V3 progress: unless every index is final, a sweep makes at least one more index final
  V4 `iter` with fuel ≥ (number of non-final indices) returns an all-final labelling; a sweep
     reporting "unchanged" is all-final; hence `labels m` (fuel `n`) is all-final
-/
import SymfcModel.Lemmas.FindBlocksInv
namespace Symfc.FindBlocks

/-! ## V1: component minima -/

/-- `mn` is the smallest index in the component of `a` -/
def IsMin (m : IMat) (n a mn : Nat) : Prop :=
  Conn m n a mn ∧ ∀ b, Conn m n a b → mn ≤ b

theorem exists_least (P : Nat → Prop) (n : Nat) (h : P n) : ∃ m, P m ∧ ∀ b, P b → m ≤ b := by
  induction n using Nat.strongRecOn with
  | _ n ih =>
    by_cases hex : ∃ k, k < n ∧ P k
    · obtain ⟨k, hk, hpk⟩ := hex; exact ih k hk hpk
    · exact ⟨n, h, fun b hb => Nat.le_of_not_lt (fun hlt => hex ⟨b, hlt, hb⟩)⟩

theorem exists_isMin (m : IMat) {n a : Nat} (ha : a < n) : ∃ mn, IsMin m n a mn :=
  exists_least _ a (.refl ha)

theorem IsMin.congr {m : IMat} {n a b mn : Nat} (h : IsMin m n a mn) (hab : Conn m n a b) :
    IsMin m n b mn :=
  ⟨hab.symm.trans h.1, fun c hc => h.2 c (hab.trans hc)⟩

theorem IsMin.unique {m : IMat} {n a mn mn' : Nat} (h1 : IsMin m n a mn) (h2 : IsMin m n a mn') :
    mn = mn' :=
  Nat.le_antisymm (h1.2 _ h2.1) (h2.2 _ h1.1)

theorem IsMin.lt {m : IMat} {n a mn : Nat} (h : IsMin m n a mn) : a < n := h.1.lt_left

theorem LabInv.ge_min {m : IMat} {n : Nat} {lab : Array Nat} (hI : LabInv m n lab) {a mn : Nat}
    (hm : IsMin m n a mn) : mn ≤ lab.getD a 0 :=
  hm.2 _ (hI.cov a hm.lt).2

/-- `x` holds its final label -/
def Final (m : IMat) (n : Nat) (lab : Array Nat) (x : Nat) : Prop :=
  ∀ mn, IsMin m n x mn → lab.getD x 0 = mn

/-- all-final labellings agree along edges -/
theorem allEq_of_final {m : IMat} {n : Nat} {lab : Array Nat} (hf : ∀ x, Final m n lab x) :
    AllEq m n lab := by
  intro i j hi hj he
  obtain ⟨mn, hm⟩ := exists_isMin m hi
  rw [hf i mn hm, hf j mn (hm.congr (.link hi hj he))]

/-- under the invariant, labels that agree along edges are final -/
theorem final_of_allEq {m : IMat} {n : Nat} {lab : Array Nat} (hI : LabInv m n lab)
    (h : AllEq m n lab) : ∀ x, Final m n lab x := by
  intro x mn hm
  have h1 : lab.getD x 0 = lab.getD mn 0 := h.conn hm.1
  have h2 : lab.getD mn 0 ≤ mn := (hI.cov mn hm.1.lt_right).1
  have h3 : mn ≤ lab.getD x 0 := hI.ge_min hm
  omega

/-! ## V2: minima are kept and spread along visited edges -/

/-- an index already holding the minimum of its component keeps it -/
theorem sweepL_keep {m : IMat} {n : Nat} {l : List (Nat × Nat)} {s : Array Nat × Bool}
    (hI : LabInv m n s.1) (hr : InRange n l) {x mn : Nat} (hm : IsMin m n x mn)
    (h : s.1.getD x 0 = mn) : (sweepL m l s).1.getD x 0 = mn := by
  apply Nat.le_antisymm
  · rw [← h]; exact sweepL_le ..
  · exact (sweepL_inv hI hr).ge_min hm

theorem Final.sweepL {m : IMat} {n : Nat} {l : List (Nat × Nat)} {s : Array Nat × Bool}
    (hI : LabInv m n s.1) (hr : InRange n l) {x : Nat} (h : Final m n s.1 x) :
    Final m n (sweepL m l s).1 x :=
  fun mn hm => sweepL_keep hI hr hm (h mn hm)

theorem Final.sweep {m : IMat} {n : Nat} {lab : Array Nat} (hI : LabInv m n lab) {x : Nat}
    (h : Final m n lab x) : Final m n (sweep m n lab).1 x :=
  Final.sweepL (s := (lab, false)) hI (pairs_inRange n) h

theorem min_eq_of_ge {A B M : Nat} (h1 : M ≤ A) (h2 : M ≤ B) (h3 : A = M ∨ B = M) :
    min A B = M := by
  omega

/-- if one end point of an edge visited by the sweep holds the component minimum before the sweep,
    both end points hold it afterwards -/
theorem sweepL_finalize {m : IMat} {n : Nat} {l : List (Nat × Nat)} {s : Array Nat × Bool}
    (hI : LabInv m n s.1) (hr : InRange n l) {u v mn : Nat} (huv : (u, v) ∈ l)
    (he : edgeB m u v = true) (hm : IsMin m n u mn)
    (h : s.1.getD u 0 = mn ∨ s.1.getD v 0 = mn) :
    (sweepL m l s).1.getD u 0 = mn ∧ (sweepL m l s).1.getD v 0 = mn := by
  obtain ⟨l1, l2, rfl⟩ := List.append_of_mem huv
  obtain ⟨hr1, hr2⟩ := hr.of_append
  obtain ⟨⟨hu, hv⟩, hr2⟩ := hr2.of_cons
  rw [sweepL_append, sweepL_cons]
  have hmv : IsMin m n v mn := hm.congr (.link hu hv he)
  have hI1 := sweepL_inv hI hr1
  have hI2 : LabInv m n (step m u (sweepL m l1 s) v).1 := step_inv hI1 hu hv
  have hmin : min ((sweepL m l1 s).1.getD u 0) ((sweepL m l1 s).1.getD v 0) = mn := by
    apply min_eq_of_ge (hI1.ge_min hm) (hI1.ge_min hmv)
    rcases h with h | h
    · exact Or.inl (sweepL_keep hI hr1 hm h)
    · exact Or.inr (sweepL_keep hI hr1 hmv h)
  have h3 := step_getD (s := sweepL m l1 s) hI1.size_eq hu hv he
  have hu' := h3 u
  have hv' := h3 v
  rw [if_pos (Or.inl rfl), hmin] at hu'
  rw [if_pos (Or.inr rfl), hmin] at hv'
  exact ⟨sweepL_keep hI2 hr2 hm hu', sweepL_keep hI2 hr2 hmv hv'⟩

/-! ## V3: progress -/

/-- unless every index is final, a sweep makes at least one more index final -/
theorem sweep_progress {m : IMat} {n : Nat} {lab : Array Nat} (hI : LabInv m n lab)
    (hn : ¬ ∀ x, Final m n lab x) :
    ∃ x, x < n ∧ ¬ Final m n lab x ∧ Final m n (sweep m n lab).1 x := by
  obtain ⟨a, ha⟩ := Classical.not_forall.mp hn
  obtain ⟨mn, hna⟩ := Classical.not_forall.mp ha
  obtain ⟨hm, hna⟩ := Classical.not_imp.mp hna
  have hmn : mn < n := hm.1.lt_right
  -- the minimum index itself holds `mn`
  have hSm : lab.getD mn 0 = mn := by
    obtain ⟨hle, hc⟩ := hI.cov mn hmn
    have := hm.2 _ (hm.1.trans hc)
    omega
  obtain ⟨u, v, hu, hv, he, hcross⟩ := Conn.crossing (fun x => lab.getD x 0 = mn) hm.1.symm
    (fun h => hna (h.mp hSm))
  -- anything labelled `mn` lies in the component of `a`
  have hin : ∀ x, x < n → lab.getD x 0 = mn → Conn m n a x := by
    intro x hx hxm
    have := (hI.cov x hx).2
    rw [hxm] at this
    exact hm.1.trans this.symm
  have hau : Conn m n a u := by
    by_cases hu' : lab.getD u 0 = mn
    · exact hin u hu hu'
    · have hv' : lab.getD v 0 = mn := by
        apply Classical.byContradiction
        intro hv'
        exact hcross ⟨fun h => absurd h hu', fun h => absurd h hv'⟩
      exact (hin v hv hv').trans (Conn.link hu hv he).symm
  have hmu : IsMin m n u mn := hm.congr hau
  have hmv : IsMin m n v mn := hmu.congr (.link hu hv he)
  have hor : lab.getD u 0 = mn ∨ lab.getD v 0 = mn := by
    apply Classical.byContradiction
    intro hno
    exact hcross ⟨fun h => absurd (Or.inl h) hno, fun h => absurd (Or.inr h) hno⟩
  have hfin := sweepL_finalize (s := (lab, false)) hI (pairs_inRange n)
    (mem_pairs.mpr ⟨hu, hv⟩) he hmu hor
  by_cases hu' : lab.getD u 0 = mn
  · have hv' : lab.getD v 0 ≠ mn := fun hv' => hcross ⟨fun _ => hv', fun _ => hu'⟩
    exact ⟨v, hv, fun hf => hv' (hf mn hmv), fun m' hm' => by
      rw [← hmv.unique hm']; exact hfin.2⟩
  · exact ⟨u, hu, fun hf => hu' (hf mn hmu), fun m' hm' => by
      rw [← hmu.unique hm']; exact hfin.1⟩

/-! ## V4: `n` sweeps suffice -/

theorem countP_lt_of {l : List Nat} {p q : Nat → Bool} (hqp : ∀ x ∈ l, q x = true → p x = true)
    (hx : ∃ x ∈ l, p x = true ∧ q x = false) : l.countP q < l.countP p := by
  induction l with
  | nil => obtain ⟨x, hx, _⟩ := hx; cases hx
  | cons y ys ih =>
    have hle : ys.countP q ≤ ys.countP p :=
      List.countP_mono_left (fun x hx => hqp x (List.mem_cons_of_mem _ hx))
    rw [List.countP_cons, List.countP_cons]
    by_cases hy : p y = true ∧ q y = false
    · simp [hy.1, hy.2]; omega
    · have hlt : ys.countP q < ys.countP p := by
        apply ih (fun x hx => hqp x (List.mem_cons_of_mem _ hx))
        obtain ⟨x, hxm, hxp⟩ := hx
        rcases List.mem_cons.mp hxm with rfl | hxm
        · exact absurd hxp hy
        · exact ⟨x, hxm, hxp⟩
      have := hqp y List.mem_cons_self
      cases hq : q y <;> cases hp : p y <;> simp_all <;> omega

open Classical in
/-- number of indices not yet holding their final label -/
noncomputable def unfinal (m : IMat) (n : Nat) (lab : Array Nat) : Nat :=
  (List.range n).countP (fun x => decide (¬ Final m n lab x))

theorem unfinal_le (m : IMat) (n : Nat) (lab : Array Nat) : unfinal m n lab ≤ n := by
  unfold unfinal
  exact Nat.le_trans List.countP_le_length (by simp)

theorem final_of_unfinal_zero {m : IMat} {n : Nat} {lab : Array Nat} (h : unfinal m n lab = 0) :
    ∀ x, Final m n lab x := by
  intro x
  by_cases hx : x < n
  · unfold unfinal at h
    rw [List.countP_eq_zero] at h
    have := h x (List.mem_range.mpr hx)
    simpa using this
  · intro mn hm
    exact absurd hm.lt hx

theorem unfinal_lt {m : IMat} {n : Nat} {lab : Array Nat} (hI : LabInv m n lab)
    (hn : ¬ ∀ x, Final m n lab x) : unfinal m n (sweep m n lab).1 < unfinal m n lab := by
  obtain ⟨x, hx, hx1, hx2⟩ := sweep_progress hI hn
  unfold unfinal
  apply countP_lt_of
  · intro y _ hy
    simp only [decide_eq_true_eq] at hy ⊢
    intro hf
    exact hy (hf.sweep hI)
  · exact ⟨x, List.mem_range.mpr hx, by simpa using hx1, by simpa using hx2⟩

/-- final labels survive any number of further sweeps -/
theorem iter_final_of_final {m : IMat} {n : Nat} (k : Nat) {lab : Array Nat} (hI : LabInv m n lab)
    (hf : ∀ x, Final m n lab x) : ∀ x, Final m n (iter m n k lab) x := by
  induction k generalizing lab with
  | zero => exact hf
  | succ k ih =>
    rw [iter]
    split
    · exact ih (sweep_inv hI) (fun x => (hf x).sweep hI)
    · exact fun x => (hf x).sweep hI

/-- `iter` returns an all-final labelling as soon as the fuel is at least the number of non-final
    indices (in particular: ANY fuel ≥ `n` gives the same, final, answer) -/
theorem iter_final {m : IMat} {n : Nat} (k : Nat) {lab : Array Nat} (hI : LabInv m n lab)
    (hk : unfinal m n lab ≤ k) : ∀ x, Final m n (iter m n k lab) x := by
  induction k generalizing lab with
  | zero => exact final_of_unfinal_zero (lab := lab) (by omega)
  | succ k ih =>
    by_cases hall : ∀ x, Final m n lab x
    · exact iter_final_of_final _ hI hall
    · rw [iter]
      split
      · apply ih (sweep_inv hI)
        have := unfinal_lt hI hall
        omega
      · rename_i hflag
        have hflag : (sweep m n lab).2 = false := by simpa using hflag
        obtain ⟨h1, h2⟩ := sweep_flag_false hflag
        rw [h1]
        exact final_of_allEq hI h2

/-- the labels computed by the model are final: every index holds the smallest index of its
    connected component -/
theorem labels_final (m : IMat) : ∀ x, Final m m.size (labels m) x :=
  iter_final _ (initLab_inv m m.size) (unfinal_le ..)

theorem labels_isMin (m : IMat) {x : Nat} (hx : x < m.size) :
    IsMin m m.size x ((labels m).getD x 0) := by
  obtain ⟨mn, hm⟩ := exists_isMin m hx
  rw [labels_final m x mn hm]
  exact hm

/-- the labels decide connectivity -/
theorem labels_eq_iff_conn (m : IMat) {a b : Nat} (ha : a < m.size) (hb : b < m.size) :
    (labels m).getD a 0 = (labels m).getD b 0 ↔ Conn m m.size a b := by
  constructor
  · intro h
    have h1 := ((labels_inv m).cov a ha).2
    have h2 := ((labels_inv m).cov b hb).2
    rw [h] at h1
    exact h1.trans h2.symm
  · exact (allEq_of_final (labels_final m)).conn

/-- more fuel does not change the result: the labelling is determined by the matrix alone -/
theorem iter_fuel_irrelevant (m : IMat) (k : Nat) (hk : m.size ≤ k) :
    iter m m.size k (initLab m.size) = labels m := by
  have hI1 := iter_inv (m := m) k (initLab_inv m m.size)
  have hf1 := iter_final (m := m) k (initLab_inv m m.size)
    (Nat.le_trans (unfinal_le ..) hk)
  have hI2 := labels_inv m
  apply Array.ext (by rw [hI1.size_eq, hI2.size_eq])
  intro x h1 h2
  have hx : x < m.size := by rw [← hI1.size_eq]; exact h1
  obtain ⟨mn, hm⟩ := exists_isMin m hx
  have e1 := hf1 x mn hm
  have e2 := labels_final m x mn hm
  rw [Array.getD_eq_getD_getElem?, Array.getElem?_eq_getElem h1] at e1
  rw [Array.getD_eq_getD_getElem?, Array.getElem?_eq_getElem h2] at e2
  simp only [Option.getD_some] at e1 e2
  rw [e1, e2]

end Symfc.FindBlocks
