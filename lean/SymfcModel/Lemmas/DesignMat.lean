/-
  Lemmas/DesignMat.lean — entrywise descriptions of `tmul`, `IMat.add`, `hcat` and of the Gram
  accumulation loop of `normalEqOp`.
-/
import SymfcModel.Lemmas.DesignSum
import SymfcModel.Model.Solver
namespace Symfc

theorem getD_ofFn {α} {n : Nat} (f : Fin n → α) (i : Nat) (d : α) :
    (Array.ofFn f).getD i d = if h : i < n then f ⟨i, h⟩ else d := by
  simp only [Array.getD_eq_getD_getElem?, Array.getElem?_ofFn]
  by_cases h : i < n <;> simp [h]

/-! ### `tmul` -/

theorem tmul_size (a b : IMat) : (tmul a b).size = (a.getD 0 #[]).size := by simp [tmul]

theorem tmul_row_size (a b : IMat) (i : Nat) (hi : i < (a.getD 0 #[]).size) :
    ((tmul a b).getD i #[]).size = (b.getD 0 #[]).size := by
  unfold tmul
  rw [getD_ofFn, dif_pos hi]; simp

theorem tmul_get (a b : IMat) (p q : Nat) (hp : p < (a.getD 0 #[]).size)
    (hq : q < (b.getD 0 #[]).size) :
    (tmul a b).get p q = rsum a.size (fun r => a.get r p * b.get r q) := by
  unfold IMat.get tmul
  rw [getD_ofFn, dif_pos hp, getD_ofFn, dif_pos hq]
  simp only
  rw [foldl_add_eq_lsum, Int.zero_add]; rfl

/-! ### `IMat.add` -/

theorem add_size (a b : IMat) : (a.add b).size = a.size := by simp [IMat.add]

theorem add_row_size (a b : IMat) (i : Nat) (hi : i < a.size) :
    ((a.add b).getD i #[]).size = (a.getD i #[]).size := by
  unfold IMat.add
  rw [getD_ofFn, dif_pos hi]; simp

theorem add_get (a b : IMat) (i j : Nat) (hi : i < a.size) (hj : j < (a.getD i #[]).size) :
    (a.add b).get i j = a.get i j + b.get i j := by
  unfold IMat.add
  conv => lhs; unfold IMat.get
  rw [getD_ofFn, dif_pos hi, getD_ofFn, dif_pos hj]
  rfl

/-! ### the accumulation loop -/

/-- shape invariant of the accumulator -/
structure AccShape (ncol : Nat) (acc : IMat × Array Int) : Prop where
  h1 : acc.1.size = ncol
  h2 : ∀ i, i < ncol → (acc.1.getD i #[]).size = ncol
  h3 : acc.2.size = ncol

/-- one update of the accumulator by `(XᵀX, Xᵀy)` -/
def accStep (ncol : Nat) (acc : IMat × Array Int) (G : IMat × IMat) : IMat × Array Int :=
  (acc.1.add G.1, Array.ofFn (n := ncol) (fun j => acc.2.getD j 0 + G.2.get j 0))

theorem accStep_shape {ncol : Nat} {acc : IMat × Array Int} (h : AccShape ncol acc)
    (G : IMat × IMat) : AccShape ncol (accStep ncol acc G) := by
  refine ⟨?_, ?_, ?_⟩
  · simp [accStep, add_size, h.h1]
  · intro i hi
    simp only [accStep]
    rw [add_row_size _ _ _ (by rw [h.h1]; exact hi), h.h2 i hi]
  · simp [accStep]

theorem accStep_get {ncol : Nat} {acc : IMat × Array Int} (h : AccShape ncol acc)
    (G : IMat × IMat) (p q : Nat) (hp : p < ncol) (hq : q < ncol) :
    (accStep ncol acc G).1.get p q = acc.1.get p q + G.1.get p q := by
  simp only [accStep]
  exact add_get _ _ _ _ (by rw [h.h1]; exact hp) (by rw [h.h2 p hp]; exact hq)

theorem accStep_get2 {ncol : Nat} (acc : IMat × Array Int)
    (G : IMat × IMat) (j : Nat) (hj : j < ncol) :
    (accStep ncol acc G).2.getD j 0 = acc.2.getD j 0 + G.2.get j 0 := by
  simp only [accStep]
  rw [getD_ofFn, dif_pos hj]

theorem accFold (ncol : Nat) (L : List (IMat × IMat)) (acc : IMat × Array Int)
    (h : AccShape ncol acc) :
    AccShape ncol (L.foldl (accStep ncol) acc) ∧
    (∀ p q, p < ncol → q < ncol →
      (L.foldl (accStep ncol) acc).1.get p q = acc.1.get p q + lsum L (fun G => G.1.get p q)) ∧
    (∀ j, j < ncol →
      (L.foldl (accStep ncol) acc).2.getD j 0 = acc.2.getD j 0 + lsum L (fun G => G.2.get j 0)) := by
  induction L generalizing acc with
  | nil => exact ⟨h, by simp, by simp⟩
  | cons G L ih =>
    obtain ⟨i1, i2, i3⟩ := ih (accStep ncol acc G) (accStep_shape h G)
    refine ⟨i1, ?_, ?_⟩
    · intro p q hp hq
      simp only [List.foldl_cons, lsum_cons]
      rw [i2 p q hp hq, accStep_get h G p q hp hq]; omega
    · intro j hj
      simp only [List.foldl_cons, lsum_cons]
      rw [i3 j hj, accStep_get2 acc G j hj]; omega

theorem zeros_shape (ncol : Nat) : AccShape ncol (IMat.zeros ncol ncol, Array.replicate ncol 0) := by
  refine ⟨by simp [IMat.zeros], ?_, by simp⟩
  intro i hi
  simp [IMat.zeros, hi]

theorem zeros_get (r c p q : Nat) : (IMat.zeros r c).get p q = 0 := by
  unfold IMat.get IMat.zeros
  simp only [Array.getD_eq_getD_getElem?, Array.getElem?_replicate]
  by_cases hp : p < r
  · by_cases hq : q < c <;> simp [hp, hq]
  · simp [hp]

/-! ### `hcat` -/

theorem hcat_cons_size (m : IMat) (ms : List IMat) : (hcat (m :: ms)).size = m.size := by
  simp [hcat]

theorem hcat_cons_row (m : IMat) (ms : List IMat) (i : Nat) (hi : i < m.size) :
    (hcat (m :: ms)).getD i #[] = (m :: ms).foldl (fun acc mm => acc ++ mm.getD i #[]) #[] := by
  unfold hcat
  rw [getD_ofFn, dif_pos hi]

theorem foldl_congr_mem {α β} (l : List α) (f g : β → α → β) (init : β)
    (h : ∀ a ∈ l, ∀ acc, f acc a = g acc a) : l.foldl f init = l.foldl g init := by
  induction l generalizing init with
  | nil => rfl
  | cons a l ih =>
    simp only [List.foldl_cons]
    rw [h a (by simp), ih _ (fun a' ha' => h a' (by simp [ha']))]

end Symfc
