/- Lemmas/PermSound.lean — soundness of the pointer graph for any representative kind -/
import SymfcModel.Lemmas.Perm
namespace Symfc

theorem rowRep_mem (rk : RepKind) (r : List Nat) (h : r ≠ []) : rowRep rk r ∈ r := by
  cases rk with
  | col0 => rw [rowRep_col0 r h]; exact List.head_mem h
  | rowMin => exact rowMin_mem r h

/-- every edge of the final pointer graph joins two elements of one row (of some stage), whatever the
    representative kind, the batch counts and the order of writes -/
theorem permDecompr_links_within_rows {ops : CutoffOps} {c : Cell} {n : Nat} {rk : RepKind}
    {stages : List Stage} {cut : Option CutoffIn} {nBatch : String → Nat} {ptr' : Array Int}
    (h : permDecompr ops c n rk stages cut nBatch = some ptr') (a b : Nat) (hl : linked ptr' a b) :
    ∃ r ∈ allStageRows ops c n stages cut, a ∈ r ∧ b ∈ r := by
  obtain ⟨bs, rfl, hu, hmem⟩ := permDecompr_spec h
  obtain ⟨ha, hv⟩ := hl
  rw [foldBatches_size] at ha
  rcases foldBatches_cases rk bs _ a (-1) hu ha with ⟨_, hv'⟩ | ⟨r, hr, har, hv'⟩
  · rw [hv', getD_replicate_neg] at hv
    exact absurd hv.symm (ofNat_ne_neg_one b)
  · rw [hv'] at hv
    have hb : rowRep rk r = b := by
      have := Int.ofNat.inj hv; exact this
    refine ⟨r, (hmem r).mp hr, har, ?_⟩
    rw [← hb]
    exact rowRep_mem rk r (List.ne_nil_of_mem har)

end Symfc
