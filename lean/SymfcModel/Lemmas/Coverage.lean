/-
  Lemmas/Coverage.lean — completeness of coverage of the permutation stage (C04.b / C07):
  exactly which class-space elements are written (linked) by `compr_permutation_lat_trans_O{n}`.
-/
import SymfcModel.Lemmas.Coverage1
namespace Symfc
namespace Cov
open OC

/-! ## hypotheses on the cutoff -/

/-- the cutoff input fits the cell: same number of atoms, and the nearness relation is symmetric,
    reflexive on the atoms `< N` and invariant under the lattice translations -/
structure CutOK (c : Cell) (x : CutoffIn) : Prop where
  hN : x.N = c.N
  symm : ∀ i j, i < c.N → j < c.N → near x i j → near x j i
  refl : ∀ i, i < c.N → near x i i
  inv : ∀ l, l < c.nlp → ∀ i j, i < c.N → j < c.N →
    (near x (c.img l i) (c.img l j) ↔ near x i j)

/-- a tuple passes the (optional) cutoff: its atoms are pairwise near -/
def admissible (cut : Option CutoffIn) (t : List Nat) : Prop :=
  ∀ x, cut = some x → pairwiseNear x (t.map (· / 3))

theorem rawNear_of_pairwiseNear {x : CutoffIn} {c : List Nat} (hne : c ≠ [])
    (h : pairwiseNear x (c.map (· / 3))) : rawNear x c := by
  refine ⟨c.dropLast, c.getLast hne, (List.dropLast_concat_getLast hne).symm, ?_, ?_⟩
  · apply List.pairwise_of_forall_mem_list
    intro a ha b hb
    obtain ⟨e, he, rfl⟩ := List.mem_map.mp ha
    obtain ⟨f, hf, rfl⟩ := List.mem_map.mp hb
    exact h _ (List.mem_map.mpr ⟨e, List.dropLast_subset _ he, rfl⟩)
      _ (List.mem_map.mpr ⟨f, List.dropLast_subset _ hf, rfl⟩)
  · intro e he
    exact h _ (List.mem_map.mpr ⟨_, List.getLast_mem hne, rfl⟩)
      _ (List.mem_map.mpr ⟨e, List.dropLast_subset _ he, rfl⟩)

theorem pairwiseNear_of_rawNear {c : Cell} {x : CutoffIn} (hx : CutOK c x) {cb : List Nat}
    (hlt : ∀ e ∈ cb, e < 3 * c.N) (h : rawNear x cb) : pairwiseNear x (cb.map (· / 3)) := by
  have hat : ∀ a ∈ cb.map (· / 3), a < c.N := by
    intro a ha
    obtain ⟨e, he, rfl⟩ := List.mem_map.mp ha
    have := hlt e he
    omega
  obtain ⟨pre, last, rfl, h1, h2⟩ := h
  have hP : ((pre ++ [last]).map (· / 3)).Pairwise (near x) := by
    rw [List.map_append, List.pairwise_append]
    refine ⟨h1, by simp, ?_⟩
    intro a ha b hb
    simp at hb; subst hb
    obtain ⟨e, he, rfl⟩ := List.mem_map.mp ha
    have h3 := hlt e (by simp [he])
    have h4 := hlt last (by simp)
    exact hx.symm _ _ (by omega) (by omega) (h2 e he)
  intro a ha b hb
  have hF : ((pre ++ [last]).map (· / 3)).Pairwise (fun u v => near x v u) :=
    hP.imp_of_mem (fun {u v} hu hv huv => hx.symm _ _ (hat u hu) (hat v hv) huv)
  exact List.Pairwise.forall_of_forall_of_flip (fun a ha => hx.refl a (hat a ha)) hP hF ha hb

/-! ## the combinations fed to a stage -/

/-- sufficient condition for membership in `stageCombs` (stages with at least two entries) -/
theorem mem_stageCombs_of {c : Cell} {n : Nat} (cut : Option CutoffIn)
    (hcut : ∀ x, cut = some x → CutOK c x) {st : Stage} (hk2 : 2 ≤ st.combOrder)
    (hk4 : st.combOrder ≤ 4) {comb : List Nat} (hlen : comb.length = st.combOrder)
    (hs : comb.Pairwise (· < ·)) (hlt : ∀ e ∈ comb, e < 3 * c.N)
    (hind : comb.headD 0 / 3 ∈ c.indepAtoms) (hadm : admissible cut comb) :
    comb ∈ stageCombs Gen.cutoffOps c n cut st := by
  unfold stageCombs
  rw [if_neg (by omega), mem_getCombinations_some]
  refine ⟨?_, hind⟩
  cases cut with
  | none =>
    rw [getCombinations_none_none]
    exact mem_entireCombinations.mpr ⟨hlen, hs, hlt⟩
  | some x =>
    rw [getCombinations_some_none, mem_combinations_raw (by omega)]
    have hne : comb ≠ [] := by rintro rfl; simp at hlen; omega
    refine ⟨hlen, hs, ?_, rawNear_of_pairwiseNear hne (hadm x rfl)⟩
    rw [(hcut x rfl).hN]; exact hlt

/-- what membership in `stageCombs` means -/
theorem stageCombs_spec {c : Cell} {n : Nat} {cut : Option CutoffIn}
    (hcutN : ∀ x, cut = some x → x.N = c.N) {st : Stage} (h1 : 1 ≤ st.combOrder)
    (h4 : st.combOrder ≤ 4) {comb : List Nat}
    (hcomb : comb ∈ stageCombs Gen.cutoffOps c n cut st) :
    (st.combOrder = 1 ∧ ∃ i, i < 3 * c.N ∧ comb = List.replicate n i) ∨
    (2 ≤ st.combOrder ∧ comb.length = st.combOrder ∧ comb.Pairwise (· < ·) ∧
      (∀ e ∈ comb, e < 3 * c.N) ∧ comb.headD 0 / 3 ∈ c.indepAtoms ∧
      ∀ x, cut = some x → rawNear x comb) := by
  unfold stageCombs at hcomb
  split at hcomb
  · next hle =>
    left
    simp only [List.mem_map, List.mem_range] at hcomb
    obtain ⟨i, hi, rfl⟩ := hcomb
    exact ⟨by omega, i, hi, rfl⟩
  · next hgt =>
    right
    have hk : st.combOrder = 2 ∨ st.combOrder = 3 ∨ st.combOrder = 4 := by omega
    obtain ⟨hmem, hind⟩ := mem_getCombinations_some.mp hcomb
    refine ⟨by omega, ?_⟩
    cases cut with
    | none =>
      rw [getCombinations_none_none] at hmem
      obtain ⟨hl, hs, hlt⟩ := mem_entireCombinations.mp hmem
      exact ⟨hl, hs, hlt, hind, fun x hx => nomatch hx⟩
    | some x =>
      rw [getCombinations_some_none] at hmem
      obtain ⟨hl, hs, hlt, hraw⟩ := (mem_combinations_raw hk).mp hmem
      rw [hcutN x rfl] at hlt
      refine ⟨hl, hs, hlt, hind, fun y hy => ?_⟩
      cases hy
      exact hraw

/-! ## Boolean table checks -/

/-- every arrangement of `n` positions onto `k` values (`1 ≤ k ≤ n`) that is not excluded by `excl`
    occurs in a group of a stage with `combOrder = k` -/
def tablesCover (n : Nat) (stages : List Stage) (excl : List Nat → Bool) : Bool :=
  (List.range n).all fun k' => (surjections n (k' + 1)).all fun p =>
    excl p || stages.any fun st =>
      st.combOrder == k' + 1 && (stageGroups st).any fun g => g.contains p

/-- no arrangement of any table is excluded by `excl` -/
def tablesAvoid (stages : List Stage) (excl : List Nat → Bool) : Bool :=
  stages.all fun st => (stageGroups st).all fun g => g.all fun p => !excl p

/-- `excl` only looks at the equality pattern of a tuple -/
def PatternInvariant (excl : List Nat → Bool) : Prop :=
  ∀ (t : List Nat) (φ : Nat → Nat), (∀ a ∈ t, ∀ b ∈ t, φ a = φ b → a = b) →
    excl (t.map φ) = excl t

def noExcl : List Nat → Bool := fun _ => false

theorem noExcl_invariant : PatternInvariant noExcl := fun _ _ _ => rfl

/-- the equality pattern `(p,p,q,q)` in any arrangement: exactly two distinct values, each
    occurring twice -/
def ppqq : List Nat → Bool
  | [a, b, c, d] =>
    (a == b && c == d && a != c) || (a == c && b == d && a != b) || (a == d && b == c && a != b)
  | _ => false

theorem ppqq_invariant : PatternInvariant ppqq := by
  intro t φ hinj
  match t with
  | [a, b, c, d] =>
    have e : ∀ u ∈ [a, b, c, d], ∀ v ∈ [a, b, c, d], (φ u == φ v) = (u == v) := by
      intro u hu v hv
      by_cases huv : u = v
      · subst huv; simp
      · have : φ u ≠ φ v := fun h => huv (hinj u hu v hv h)
        rw [beq_eq_false_iff_ne.mpr this, beq_eq_false_iff_ne.mpr huv]
    simp only [List.map_cons, List.map_nil, ppqq, bne]
    rw [e a (by simp) b (by simp), e c (by simp) d (by simp), e a (by simp) c (by simp),
      e b (by simp) d (by simp), e a (by simp) d (by simp), e b (by simp) c (by simp)]
  | [] => rfl
  | [_] => rfl
  | [_, _] => rfl
  | [_, _, _] => rfl
  | _ :: _ :: _ :: _ :: _ :: _ => rfl

theorem tablesCover_O2 : tablesCover 2 Gen.stagesO2 noExcl = true := by decide +kernel
theorem tablesCover_O3 : tablesCover 3 Gen.stagesO3 noExcl = true := by decide +kernel
theorem tablesCover_O4 : tablesCover 4 Gen.stagesO4 ppqq = true := by decide +kernel
theorem tablesAvoid_O4 : tablesAvoid Gen.stagesO4 ppqq = true := by decide +kernel

theorem tablesCover_spec {n : Nat} {stages : List Stage} {excl : List Nat → Bool}
    (h : tablesCover n stages excl = true) {k : Nat} (hk1 : 1 ≤ k) (hkn : k ≤ n) {p : List Nat}
    (hp : p ∈ surjections n k) (hex : excl p = false) :
    ∃ st ∈ stages, st.combOrder = k ∧ ∃ g ∈ stageGroups st, p ∈ g := by
  simp only [tablesCover, List.all_eq_true, List.mem_range, Bool.or_eq_true, List.any_eq_true,
    Bool.and_eq_true, beq_iff_eq, List.contains_iff_mem] at h
  have hk : k - 1 + 1 = k := by omega
  rcases h (k - 1) (by omega) p (hk ▸ hp) with h | ⟨st, hst, hco, g, hg, hpg⟩
  · rw [hex] at h; cases h
  · exact ⟨st, hst, by omega, g, hg, hpg⟩

theorem tablesAvoid_spec {stages : List Stage} {excl : List Nat → Bool}
    (h : tablesAvoid stages excl = true) {st : Stage} (hst : st ∈ stages) {g : List (List Nat)}
    (hg : g ∈ stageGroups st) {p : List Nat} (hp : p ∈ g) : excl p = false := by
  simp only [tablesAvoid, List.all_eq_true, Bool.not_eq_true'] at h
  exact h st hst g hg p hp

/-! ## positive direction: an admissible tuple lies in a row -/

theorem mem_allStageRows_of {c : Cell} {n : Nat} {stages : List Stage} {cut : Option CutoffIn}
    {st : Stage} (hst : st ∈ stages) {comb : List Nat}
    (hcomb : comb ∈ stageCombs Gen.cutoffOps c n cut st) {g : List (List Nat)}
    (hg : g ∈ stageGroups st) :
    g.map (fun p => elemIdx c.N (c.atomicDecompr n) (act p comb)) ∈
      allStageRows Gen.cutoffOps c n stages cut := by
  simp only [allStageRows, stageRows, List.mem_flatMap]
  refine ⟨st, hst, comb, hcomb, ?_⟩
  rw [stageRowsOf_eq]
  exact List.mem_map.mpr ⟨g, hg, rfl⟩

/-- generic form: every valid tuple that passes the cutoff and whose equality pattern is
    not excluded lies in a row of a stage -/
theorem exists_row {c : Cell} (hwf : c.wf = true) {n : Nat} (hn : 1 ≤ n) (hn4 : n ≤ 4)
    {stages : List Stage} {excl : List Nat → Bool} (hinv : PatternInvariant excl)
    (hcov : tablesCover n stages excl = true) (cut : Option CutoffIn)
    (hcut : ∀ x, cut = some x → CutOK c x) {t : List Nat} (ht : Valid c.N n t)
    (hex : excl t = false) (hadm : admissible cut t) :
    ∃ r ∈ allStageRows Gen.cutoffOps c n stages cut, elemIdx c.N (c.atomicDecompr n) t ∈ r := by
  have h := Cell.wf_WF c hwf
  obtain ⟨l, hl, v, hv, hmin, hind⟩ := exists_min_translate h hn ht
  have hts : Valid c.N n (t.map (tauE c l)) := valid_map_tauE h hl ht
  have heq := elemIdx_translate c hwf hn ht hl
  have hadm' : admissible cut (t.map (tauE c l)) := by
    intro x hx
    have hxok := hcut x hx
    rw [map_tauE_atoms]
    intro a ha b hb
    obtain ⟨a0, ha0, rfl⟩ := List.mem_map.mp ha
    obtain ⟨b0, hb0, rfl⟩ := List.mem_map.mp hb
    exact (hxok.inv l hl a0 b0 ((valid_atoms ht).2 a0 ha0) ((valid_atoms ht).2 b0 hb0)).mpr
      (hadm x hx a0 ha0 b0 hb0)
  have hex' : excl (t.map (tauE c l)) = false := by
    rw [hinv t (tauE c l) (fun a ha b hb e => tauE_inj h hl (ht.2 a ha) (ht.2 b hb) e)]
    exact hex
  generalize t.map (tauE c l) = ts at hv hmin hts heq hadm' hex'
  -- normal form of the translated tuple
  have hact := act_arrangement hts.2
  have hsurj := arrangement_mem_surjections hts.2
  rw [hts.1] at hsurj
  have hne : ts ≠ [] := by
    intro e; have := hts.1; rw [e] at this; simp at this; omega
  have hk1 : 0 < (distinctSorted (3 * c.N) ts).length := distinctSorted_pos hne hts.2
  have hkn := distinctSorted_length_le (3 * c.N) ts
  rw [hts.1] at hkn
  have hexp : excl (arrangement (3 * c.N) ts) = false := by
    unfold arrangement
    rw [hinv ts _ (fun a ha b hb e => idxOf_inj (mem_distinctSorted.mpr ⟨hts.2 a ha, ha⟩)
      (mem_distinctSorted.mpr ⟨hts.2 b hb, hb⟩) e)]
    exact hex'
  obtain ⟨st, hst, hco, g, hg, hpg⟩ := tablesCover_spec hcov hk1 hkn hsurj hexp
  have hhead := distinctSorted_head hv (hts.2 v hv) hmin
  have hplt := (mem_surjections.mp hsurj).2.1
  generalize arrangement (3 * c.N) ts = p at hact hsurj hpg hplt
  have hsorted := distinctSorted_sorted (3 * c.N) ts
  have hmemds : ∀ e, e ∈ distinctSorted (3 * c.N) ts → e < 3 * c.N ∧ e ∈ ts :=
    fun e he => mem_distinctSorted.mp he
  generalize distinctSorted (3 * c.N) ts = comb at *
  by_cases hk2 : 2 ≤ st.combOrder
  · -- a genuine combination
    have hcomb : comb ∈ stageCombs Gen.cutoffOps c n cut st := by
      refine mem_stageCombs_of cut hcut hk2 (by omega) hco.symm hsorted
        (fun e he => (hmemds e he).1) (by rw [hhead]; exact hind) ?_
      intro x hx a ha b hb
      obtain ⟨a0, ha0, rfl⟩ := List.mem_map.mp ha
      obtain ⟨b0, hb0, rfl⟩ := List.mem_map.mp hb
      exact hadm' x hx _ (List.mem_map.mpr ⟨a0, (hmemds a0 ha0).2, rfl⟩)
        _ (List.mem_map.mpr ⟨b0, (hmemds b0 hb0).2, rfl⟩)
    refine ⟨_, mem_allStageRows_of hst hcomb hg, List.mem_map.mpr ⟨p, hpg, ?_⟩⟩
    rw [hact]; exact heq
  · -- the diagonal stage
    have hk : st.combOrder = 1 := by omega
    have hvN : v < 3 * c.N := hts.2 v hv
    have hcomb : List.replicate n v ∈ stageCombs Gen.cutoffOps c n cut st := by
      unfold stageCombs
      rw [if_pos (by omega)]
      exact List.mem_map.mpr ⟨v, List.mem_range.mpr hvN, rfl⟩
    refine ⟨_, mem_allStageRows_of hst hcomb hg, List.mem_map.mpr ⟨p, hpg, ?_⟩⟩
    have : act p (List.replicate n v) = act p comb := by
      apply act_congr
      intro pos hpos
      have hp0 : pos = 0 := by have := hplt pos hpos; omega
      subst hp0
      obtain ⟨m, rfl⟩ : ∃ m, n = m + 1 := ⟨n - 1, by omega⟩
      obtain ⟨a, ha⟩ := List.length_eq_one_iff.mp (hco.symm.trans hk)
      rw [ha] at hhead ⊢
      simp only [List.headD_cons] at hhead
      simp [List.replicate_succ, hhead]
    rw [this, hact]; exact heq

/-! ## converse direction: what the elements of a row look like -/

/-- a valid tuple whose index lies in a row is a lattice translate of an arrangement (from the
    table of a stage) of a combination fed to that stage -/
theorem row_elem_form {c : Cell} (hwf : c.wf = true) {n : Nat} (hn : 1 ≤ n)
    {stages : List Stage} (hst : stages.all (stageOK n) = true) (cut : Option CutoffIn)
    (hcutN : ∀ x, cut = some x → x.N = c.N) {t : List Nat} (ht : Valid c.N n t) {r : List Nat}
    (hr : r ∈ allStageRows Gen.cutoffOps c n stages cut)
    (hmem : elemIdx c.N (c.atomicDecompr n) t ∈ r) :
    ∃ st ∈ stages, ∃ comb ∈ stageCombs Gen.cutoffOps c n cut st, ∃ g ∈ stageGroups st,
      ∃ p ∈ g, (p.length = n ∧ ∀ pos ∈ p, pos < st.combOrder) ∧
        ∃ l, l < c.nlp ∧ t = (act p comb).map (tauE c l) := by
  simp only [allStageRows, stageRows, List.mem_flatMap] at hr
  obtain ⟨st, hstm, comb, hcomb, hr⟩ := hr
  rw [stageRowsOf_eq, List.mem_map] at hr
  obtain ⟨g, hg, rfl⟩ := hr
  obtain ⟨h1, h4, hgs⟩ := stageOK_spec (List.all_eq_true.mp hst st hstm)
  obtain ⟨hlen, -, -⟩ := hgs g hg
  obtain ⟨p, hp, he⟩ := List.mem_map.mp hmem
  have hval : Valid c.N n (act p comb) := by
    refine ⟨by rw [act_length]; exact (hlen p hp).1, ?_⟩
    intro e he
    simp only [act, List.mem_map] at he
    obtain ⟨pos, hpos, rfl⟩ := he
    exact stageCombs_getD_lt c hn cut hcutN h1 h4 hcomb ((hlen p hp).2 pos hpos)
  obtain ⟨l, hl, rfl⟩ := elemIdx_separate c hwf hn hval ht he
  exact ⟨st, hstm, comb, hcomb, g, hg, p, hp, hlen p hp, l, hl, rfl⟩

/-- a tuple whose equality pattern is excluded from all tables lies in no row -/
theorem not_mem_row_of_excl {c : Cell} (hwf : c.wf = true) {n : Nat} (hn : 1 ≤ n)
    {stages : List Stage} (hst : stages.all (stageOK n) = true) (cut : Option CutoffIn)
    (hcutN : ∀ x, cut = some x → x.N = c.N) {excl : List Nat → Bool}
    (hinv : PatternInvariant excl) (havoid : tablesAvoid stages excl = true) {t : List Nat}
    (ht : Valid c.N n t) (hex : excl t = true) :
    ∀ r ∈ allStageRows Gen.cutoffOps c n stages cut, elemIdx c.N (c.atomicDecompr n) t ∉ r := by
  intro r hr hmem
  have h := Cell.wf_WF c hwf
  obtain ⟨st, hstm, comb, hcomb, g, hg, p, hp, ⟨hpl, hplt⟩, l, hl, rfl⟩ :=
    row_elem_form hwf hn hst cut hcutN ht hr hmem
  obtain ⟨h1, h4, -⟩ := stageOK_spec (List.all_eq_true.mp hst st hstm)
  have hlt : ∀ pos, pos < st.combOrder → comb.getD pos 0 < 3 * c.N :=
    fun pos hpos => stageCombs_getD_lt c hn cut hcutN h1 h4 hcomb hpos
  have hexp := tablesAvoid_spec havoid hstm hg hp
  have hmm : (act p comb).map (tauE c l) = p.map (fun pos => tauE c l (comb.getD pos 0)) := by
    unfold act; rw [List.map_map]; rfl
  rw [hmm, hinv p _ ?_, hexp] at hex
  · cases hex
  · intro a ha b hb e
    have ha' := hplt a ha
    have hb' := hplt b hb
    have e' := tauE_inj h hl (hlt a ha') (hlt b hb') e
    rcases stageCombs_spec hcutN h1 h4 hcomb with ⟨hk, -⟩ | ⟨-, hlen, hs, -, -, -⟩
    · omega
    · rcases Nat.lt_trichotomy a b with hab | hab | hab
      · have := getD_lt_of_sorted hs hab (by omega); omega
      · exact hab
      · have := getD_lt_of_sorted hs hab (by omega); omega

/-- the atoms of a valid tuple whose index lies in a row are pairwise near -/
theorem admissible_of_mem_row {c : Cell} (hwf : c.wf = true) {n : Nat} (hn : 1 ≤ n)
    {stages : List Stage} (hst : stages.all (stageOK n) = true) (cut : Option CutoffIn)
    (hcut : ∀ x, cut = some x → CutOK c x) {t : List Nat} (ht : Valid c.N n t) {r : List Nat}
    (hr : r ∈ allStageRows Gen.cutoffOps c n stages cut)
    (hmem : elemIdx c.N (c.atomicDecompr n) t ∈ r) : admissible cut t := by
  have h := Cell.wf_WF c hwf
  have hcutN : ∀ x, cut = some x → x.N = c.N := fun x hx => (hcut x hx).hN
  obtain ⟨st, hstm, comb, hcomb, g, hg, p, hp, ⟨hpl, hplt⟩, l, hl, rfl⟩ :=
    row_elem_form hwf hn hst cut hcutN ht hr hmem
  obtain ⟨h1, h4, -⟩ := stageOK_spec (List.all_eq_true.mp hst st hstm)
  intro x hx
  have hxok := hcut x hx
  rw [map_tauE_atoms]
  -- the atoms before translation are pairwise near and `< N`
  have key : ∀ a ∈ (act p comb).map (· / 3), ∀ b ∈ (act p comb).map (· / 3),
      a < c.N ∧ b < c.N ∧ near x a b := by
    intro a ha b hb
    obtain ⟨ea, hea, rfl⟩ := List.mem_map.mp ha
    obtain ⟨eb, heb, rfl⟩ := List.mem_map.mp hb
    simp only [act, List.mem_map] at hea heb
    obtain ⟨pa, hpa, rfl⟩ := hea
    obtain ⟨pb, hpb, rfl⟩ := heb
    have hpa' := hplt pa hpa
    have hpb' := hplt pb hpb
    have hla := stageCombs_getD_lt c hn cut hcutN h1 h4 hcomb hpa'
    have hlb := stageCombs_getD_lt c hn cut hcutN h1 h4 hcomb hpb'
    refine ⟨by omega, by omega, ?_⟩
    rcases stageCombs_spec hcutN h1 h4 hcomb with ⟨hk, -⟩ | ⟨-, hlen, -, hlt, -, hraw⟩
    · have : pa = pb := by omega
      subst this
      exact hxok.refl _ (by omega)
    · have hpn := pairwiseNear_of_rawNear hxok hlt (hraw x hx)
      exact hpn _ (List.mem_map.mpr ⟨_, OC.getD_mem_of_lt (by omega), rfl⟩)
        _ (List.mem_map.mpr ⟨_, OC.getD_mem_of_lt (by omega), rfl⟩)
  intro a ha b hb
  obtain ⟨a0, ha0, rfl⟩ := List.mem_map.mp ha
  obtain ⟨b0, hb0, rfl⟩ := List.mem_map.mp hb
  obtain ⟨h1', h2', h3'⟩ := key a0 ha0 b0 hb0
  exact (hxok.inv l hl a0 b0 h1' h2').mpr h3'

/-! ## every class-space index is the index of a valid tuple -/

theorem zipWith_entries : ∀ (as bs : List Nat), as.length = bs.length → (∀ b ∈ bs, b < 3) →
    (List.zipWith (fun a b => 3 * a + b) as bs).map (· / 3) = as ∧
    (List.zipWith (fun a b => 3 * a + b) as bs).map (· % 3) = bs := by
  intro as
  induction as with
  | nil =>
    intro bs hl _
    cases bs with
    | nil => simp
    | cons b bs => simp at hl
  | cons a as ih =>
    intro bs hl hb
    cases bs with
    | nil => simp at hl
    | cons b bs =>
      obtain ⟨h1, h2⟩ := ih bs (by simpa using hl) (fun y hy => hb y (by simp [hy]))
      have hb3 := hb b (by simp)
      simp only [List.zipWith_cons_cons, List.map_cons, h1, h2, List.cons.injEq, and_true]
      omega

theorem size_eq {c : Cell} (hwf : c.wf = true) {n : Nat} (hn : 1 ≤ n) :
    c.N ^ n * 3 ^ n / c.nlp = c.indepAtoms.length * c.N ^ (n - 1) * 3 ^ n := by
  have h := Cell.wf_WF c hwf
  have hN := h.N_eq
  have hpow : c.N ^ n = c.nlp * (c.indepAtoms.length * c.N ^ (n - 1)) := by
    obtain ⟨k, rfl⟩ : ∃ k, n = k + 1 := ⟨n - 1, by omega⟩
    simp only [Nat.add_sub_cancel]
    rw [Nat.pow_succ]
    have : c.N ^ k * c.N = c.N ^ k * (c.indepAtoms.length * c.nlp) := by rw [← hN]
    rw [this]
    ac_rfl
  rw [hpow, Nat.mul_assoc, Nat.mul_div_cancel_left _ h.nlp_pos]

/-- surjectivity of `elemIdx`: every index below the size of the class space is the index of a
    valid entry tuple -/
theorem elemIdx_surj {c : Cell} (hwf : c.wf = true) {n : Nat} (hn : 1 ≤ n) {e : Nat}
    (he : e < c.N ^ n * 3 ^ n / c.nlp) :
    ∃ t, Valid c.N n t ∧ elemIdx c.N (c.atomicDecompr n) t = e := by
  have h := Cell.wf_WF c hwf
  rw [size_eq hwf hn] at he
  have hP : 0 < 3 ^ n := Nat.pow_pos (by omega)
  have hv : e / 3 ^ n < c.indepAtoms.length * c.N ^ (n - 1) :=
    (Nat.div_lt_iff_lt_mul hP).mpr he
  obtain ⟨key, hkl, hklt, -, -, hiff⟩ := Cell.atomicDecompr_fiber c hwf n hn _ hv
  have hkey : (c.atomicDecompr n).getD (flat c.N key) 0 = e / 3 ^ n := by
    refine (hiff key hkl hklt).mpr (List.mem_map.mpr ⟨0, List.mem_range.mpr h.nlp_pos, ?_⟩)
    exact h.map_img_zero ⟨hkl, hklt⟩
  obtain ⟨carts, hcl, hclt, hcf⟩ := flat_surj 3 n (e % 3 ^ n) (Nat.mod_lt _ hP)
  obtain ⟨h1, h2⟩ := zipWith_entries key carts (by rw [hkl, hcl]) hclt
  refine ⟨List.zipWith (fun a b => 3 * a + b) key carts, ⟨?_, ?_⟩, ?_⟩
  · simp [hkl, hcl]
  · intro x hx
    have : x / 3 ∈ key := by
      rw [← h1]; exact List.mem_map.mpr ⟨x, hx, rfl⟩
    have := hklt _ this
    omega
  · unfold elemIdx
    rw [h1, h2, hkey, hcf]
    have : (List.zipWith (fun a b => 3 * a + b) key carts).length = n := by simp [hkl, hcl]
    rw [this]
    exact Nat.div_add_mod' e (3 ^ n)

/-! ## the pointer array -/

/-- after the permutation stage the covered indices are exactly the elements of the rows -/
theorem covered_iff_mem_row {c : Cell} (hwf : c.wf = true) {n : Nat}
    (hn : n = 2 ∨ n = 3 ∨ n = 4) (cut : Option CutoffIn)
    (hcutN : ∀ x, cut = some x → x.N = c.N) {rk : RepKind} {nBatch : String → Nat}
    {ptr' : Array Int}
    (h : permDecompr Gen.cutoffOps c n rk (stagesFor n) cut nBatch = some ptr') (e : Nat) :
    covered ptr' e ↔ ∃ r ∈ allStageRows Gen.cutoffOps c n (stagesFor n) cut, e ∈ r := by
  obtain ⟨bs, rfl, hu, hmem⟩ := permDecompr_spec h
  rw [foldBatches_covered_iff rk bs _ hu
    (fun r hr => allStageRows_lt c hwf hn cut hcutN r ((hmem r).mp hr))]
  constructor
  · rintro ⟨r, hr, he⟩; exact ⟨r, (hmem r).mp hr, he⟩
  · rintro ⟨r, hr, he⟩; exact ⟨r, (hmem r).mpr hr, he⟩

/-! ## the generated tables: hypotheses of the generic theorems -/

theorem stagesFor_2 : stagesFor 2 = Gen.stagesO2 := rfl
theorem stagesFor_3 : stagesFor 3 = Gen.stagesO3 := rfl
theorem stagesFor_4 : stagesFor 4 = Gen.stagesO4 := rfl

theorem tablesCover_for {n : Nat} (hn : n = 2 ∨ n = 3) :
    tablesCover n (stagesFor n) noExcl = true := by
  rcases hn with rfl | rfl
  · exact tablesCover_O2
  · exact tablesCover_O3

theorem admissible_none (t : List Nat) : admissible none t := fun _ h => nomatch h

theorem admissible_some {x : CutoffIn} {t : List Nat} :
    admissible (some x) t ↔ pairwiseNear x (t.map (· / 3)) :=
  ⟨fun h => h x rfl, fun h y hy => by cases hy; exact h⟩

/-! ## V1: no cutoff, orders 2 and 3 — everything is covered -/

/-- **V1 (rows)**: without a cutoff, at orders 2 and 3, the class-space index of EVERY valid entry
    tuple lies in a row of some stage. -/
theorem V1_row (c : Cell) (hwf : c.wf = true) {n : Nat} (hn : n = 2 ∨ n = 3) (t : List Nat)
    (hlen : t.length = n) (hlt : ∀ e ∈ t, e < 3 * c.N) :
    ∃ r ∈ allStageRows Gen.cutoffOps c n (stagesFor n) none,
      elemIdx c.N (c.atomicDecompr n) t ∈ r :=
  exists_row hwf (by omega) (by omega) noExcl_invariant (tablesCover_for hn) none
    (fun _ h => nomatch h) ⟨hlen, hlt⟩ rfl (admissible_none t)

/-- **V1 (pointer array)**: without a cutoff, at orders 2 and 3, EVERY index of the class space is
    covered by the permutation stage; nothing is eliminated as a zero element. -/
theorem V1_covered (c : Cell) (hwf : c.wf = true) {n : Nat} (hn : n = 2 ∨ n = 3)
    (nBatch : String → Nat) (ptr' : Array Int)
    (h : permDecompr Gen.cutoffOps c n (repFor n) (stagesFor n) none nBatch = some ptr') :
    ∀ e, e < c.N ^ n * 3 ^ n / c.nlp → covered ptr' e := by
  intro e he
  have hn' : n = 2 ∨ n = 3 ∨ n = 4 := by omega
  obtain ⟨t, ht, rfl⟩ := elemIdx_surj hwf (by omega : 1 ≤ n) he
  exact (covered_iff_mem_row hwf hn' none (fun _ h => nomatch h) h _).mpr
    (V1_row c hwf hn t ht.1 ht.2)

/-! ## V2: with a cutoff, orders 2 and 3 — covered iff pairwise near -/

/-- **V2 (rows)**: with a cutoff whose nearness relation is symmetric, reflexive and translation
    invariant, at orders 2 and 3, the index of a valid entry tuple lies in a row of some stage
    IF AND ONLY IF the atoms of the tuple are pairwise near. -/
theorem V2_row (c : Cell) (hwf : c.wf = true) {n : Nat} (hn : n = 2 ∨ n = 3) (x : CutoffIn)
    (hN : x.N = c.N)
    (hsym : ∀ i j, i < c.N → j < c.N → near x i j → near x j i)
    (hrefl : ∀ i, i < c.N → near x i i)
    (hinv : ∀ l, l < c.nlp → ∀ i j, i < c.N → j < c.N →
      (near x (c.img l i) (c.img l j) ↔ near x i j))
    (t : List Nat) (hlen : t.length = n) (hlt : ∀ e ∈ t, e < 3 * c.N) :
    (∃ r ∈ allStageRows Gen.cutoffOps c n (stagesFor n) (some x),
      elemIdx c.N (c.atomicDecompr n) t ∈ r) ↔ pairwiseNear x (t.map (· / 3)) := by
  have hcut : ∀ y, some x = some y → CutOK c y := fun y hy => by
    cases hy; exact ⟨hN, hsym, hrefl, hinv⟩
  have hn' : n = 2 ∨ n = 3 ∨ n = 4 := by omega
  constructor
  · rintro ⟨r, hr, hmem⟩
    exact admissible_some.mp
      (admissible_of_mem_row hwf (by omega) (stagesFor_ok hn').2.2 (some x) hcut ⟨hlen, hlt⟩ hr hmem)
  · intro hnear
    exact exists_row hwf (by omega) (by omega) noExcl_invariant (tablesCover_for hn) (some x)
      hcut ⟨hlen, hlt⟩ rfl (admissible_some.mpr hnear)

/-- **V2 (pointer array)**: under the same hypotheses the element of a valid tuple is covered by
    the permutation stage iff its atoms are pairwise near. -/
theorem V2_covered (c : Cell) (hwf : c.wf = true) {n : Nat} (hn : n = 2 ∨ n = 3) (x : CutoffIn)
    (hN : x.N = c.N)
    (hsym : ∀ i j, i < c.N → j < c.N → near x i j → near x j i)
    (hrefl : ∀ i, i < c.N → near x i i)
    (hinv : ∀ l, l < c.nlp → ∀ i j, i < c.N → j < c.N →
      (near x (c.img l i) (c.img l j) ↔ near x i j))
    (nBatch : String → Nat) (ptr' : Array Int)
    (h : permDecompr Gen.cutoffOps c n (repFor n) (stagesFor n) (some x) nBatch = some ptr')
    (t : List Nat) (hlen : t.length = n) (hlt : ∀ e ∈ t, e < 3 * c.N) :
    covered ptr' (elemIdx c.N (c.atomicDecompr n) t) ↔ pairwiseNear x (t.map (· / 3)) := by
  have hn' : n = 2 ∨ n = 3 ∨ n = 4 := by omega
  rw [covered_iff_mem_row hwf hn' (some x) (fun y hy => by cases hy; exact hN) h]
  exact V2_row c hwf hn x hN hsym hrefl hinv t hlen hlt

/-- V2 for an arbitrary index `e`: it is covered iff it is the index of some valid tuple with
    pairwise near atoms (then every valid tuple with index `e` has pairwise near atoms). -/
theorem V2_covered_index (c : Cell) (hwf : c.wf = true) {n : Nat} (hn : n = 2 ∨ n = 3)
    (x : CutoffIn) (hN : x.N = c.N)
    (hsym : ∀ i j, i < c.N → j < c.N → near x i j → near x j i)
    (hrefl : ∀ i, i < c.N → near x i i)
    (hinv : ∀ l, l < c.nlp → ∀ i j, i < c.N → j < c.N →
      (near x (c.img l i) (c.img l j) ↔ near x i j))
    (nBatch : String → Nat) (ptr' : Array Int)
    (h : permDecompr Gen.cutoffOps c n (repFor n) (stagesFor n) (some x) nBatch = some ptr')
    (e : Nat) :
    covered ptr' e ↔ ∃ t, t.length = n ∧ (∀ a ∈ t, a < 3 * c.N) ∧
      elemIdx c.N (c.atomicDecompr n) t = e ∧ pairwiseNear x (t.map (· / 3)) := by
  constructor
  · intro hc
    have he : e < c.N ^ n * 3 ^ n / c.nlp := by
      obtain ⟨bs, rfl, -, -⟩ := permDecompr_spec h
      have := hc.1
      rwa [foldBatches_size, Array.size_replicate] at this
    obtain ⟨t, ht, rfl⟩ := elemIdx_surj hwf (by omega : 1 ≤ n) he
    exact ⟨t, ht.1, ht.2, rfl,
      (V2_covered c hwf hn x hN hsym hrefl hinv nBatch ptr' h t ht.1 ht.2).mp hc⟩
  · rintro ⟨t, hlen, hlt, rfl, hnear⟩
    exact (V2_covered c hwf hn x hN hsym hrefl hinv nBatch ptr' h t hlen hlt).mpr hnear

/-! ## V3: order 4 — the pattern `(p,p,q,q)` is never covered (finding F1), everything else is -/

/-- **V3 (negative, rows)**: at order 4 a valid tuple with equality pattern `(p,p,q,q)` lies in NO
    row of any stage, with or without a cutoff. -/
theorem V3_ppqq_in_no_row (c : Cell) (hwf : c.wf = true) (cut : Option CutoffIn)
    (hcutN : ∀ x, cut = some x → x.N = c.N) (t : List Nat) (hlen : t.length = 4)
    (hlt : ∀ e ∈ t, e < 3 * c.N) (hp : ppqq t = true) :
    ∀ r ∈ allStageRows Gen.cutoffOps c 4 Gen.stagesO4 cut,
      elemIdx c.N (c.atomicDecompr 4) t ∉ r :=
  not_mem_row_of_excl hwf (by omega) stagesO4_ok cut hcutN ppqq_invariant tablesAvoid_O4
    ⟨hlen, hlt⟩ hp

/-- **V3 (negative, pointer array)**: these elements are never covered, hence forced to zero. -/
theorem V3_ppqq_never_covered (c : Cell) (hwf : c.wf = true) (cut : Option CutoffIn)
    (hcutN : ∀ x, cut = some x → x.N = c.N) (nBatch : String → Nat) (ptr' : Array Int)
    (h : permDecompr Gen.cutoffOps c 4 Gen.repKindO4 Gen.stagesO4 cut nBatch = some ptr')
    (t : List Nat) (hlen : t.length = 4) (hlt : ∀ e ∈ t, e < 3 * c.N) (hp : ppqq t = true) :
    ¬ covered ptr' (elemIdx c.N (c.atomicDecompr 4) t) := by
  intro hc
  obtain ⟨r, hr, hmem⟩ :=
    (covered_iff_mem_row hwf (Or.inr (Or.inr rfl)) cut hcutN (n := 4) h _).mp hc
  exact V3_ppqq_in_no_row c hwf cut hcutN t hlen hlt hp r hr hmem

/-- **V3 (rows)**: at order 4, with an optional cutoff (symmetric, reflexive, translation
    invariant), the index of a valid tuple lies in a row iff its pattern is not `(p,p,q,q)` and
    its atoms are pairwise near. -/
theorem V3_row (c : Cell) (hwf : c.wf = true) (cut : Option CutoffIn)
    (hcut : ∀ x, cut = some x → CutOK c x) (t : List Nat) (hlen : t.length = 4)
    (hlt : ∀ e ∈ t, e < 3 * c.N) :
    (∃ r ∈ allStageRows Gen.cutoffOps c 4 Gen.stagesO4 cut,
      elemIdx c.N (c.atomicDecompr 4) t ∈ r) ↔ ppqq t = false ∧ admissible cut t := by
  have hcutN : ∀ x, cut = some x → x.N = c.N := fun x hx => (hcut x hx).hN
  constructor
  · rintro ⟨r, hr, hmem⟩
    refine ⟨?_, admissible_of_mem_row hwf (by omega) stagesO4_ok cut hcut ⟨hlen, hlt⟩ hr hmem⟩
    cases hp : ppqq t with
    | false => rfl
    | true => exact absurd hmem (V3_ppqq_in_no_row c hwf cut hcutN t hlen hlt hp r hr)
  · rintro ⟨hp, hadm⟩
    exact exists_row hwf (by omega) (by omega) ppqq_invariant tablesCover_O4 cut hcut
      ⟨hlen, hlt⟩ hp hadm

/-- **V3 (no cutoff)**: a valid tuple of order 4 lies in a row iff its pattern is not `(p,p,q,q)` -/
theorem V3_row_no_cutoff (c : Cell) (hwf : c.wf = true) (t : List Nat) (hlen : t.length = 4)
    (hlt : ∀ e ∈ t, e < 3 * c.N) :
    (∃ r ∈ allStageRows Gen.cutoffOps c 4 Gen.stagesO4 none,
      elemIdx c.N (c.atomicDecompr 4) t ∈ r) ↔ ppqq t = false := by
  rw [V3_row c hwf none (fun _ h => nomatch h) t hlen hlt]
  exact ⟨fun h => h.1, fun h => ⟨h, admissible_none t⟩⟩

/-- **V3 (with cutoff)**: a valid tuple of order 4 lies in a row iff its pattern is not
    `(p,p,q,q)` and its atoms are pairwise near. -/
theorem V3_row_cutoff (c : Cell) (hwf : c.wf = true) (x : CutoffIn) (hN : x.N = c.N)
    (hsym : ∀ i j, i < c.N → j < c.N → near x i j → near x j i)
    (hrefl : ∀ i, i < c.N → near x i i)
    (hinv : ∀ l, l < c.nlp → ∀ i j, i < c.N → j < c.N →
      (near x (c.img l i) (c.img l j) ↔ near x i j))
    (t : List Nat) (hlen : t.length = 4) (hlt : ∀ e ∈ t, e < 3 * c.N) :
    (∃ r ∈ allStageRows Gen.cutoffOps c 4 Gen.stagesO4 (some x),
      elemIdx c.N (c.atomicDecompr 4) t ∈ r) ↔
      ppqq t = false ∧ pairwiseNear x (t.map (· / 3)) := by
  rw [V3_row c hwf (some x) (fun y hy => by cases hy; exact ⟨hN, hsym, hrefl, hinv⟩) t hlen hlt,
    admissible_some]

/-- **V3 (pointer array)**: at order 4 the element of a valid tuple is covered iff its pattern is
    not `(p,p,q,q)` and its atoms pass the cutoff. -/
theorem V3_covered (c : Cell) (hwf : c.wf = true) (cut : Option CutoffIn)
    (hcut : ∀ x, cut = some x → CutOK c x) (nBatch : String → Nat) (ptr' : Array Int)
    (h : permDecompr Gen.cutoffOps c 4 Gen.repKindO4 Gen.stagesO4 cut nBatch = some ptr')
    (t : List Nat) (hlen : t.length = 4) (hlt : ∀ e ∈ t, e < 3 * c.N) :
    covered ptr' (elemIdx c.N (c.atomicDecompr 4) t) ↔ ppqq t = false ∧ admissible cut t := by
  rw [covered_iff_mem_row hwf (Or.inr (Or.inr rfl)) cut (fun x hx => (hcut x hx).hN) (n := 4) h]
  exact V3_row c hwf cut hcut t hlen hlt

/-! ## the pattern `(p,p,q,q)` in words -/

set_option linter.unusedSimpArgs false in
/-- `ppqq t` says: `t` has four entries, exactly two distinct values, each occurring twice -/
theorem ppqq_iff_counts (t : List Nat) :
    ppqq t = true ↔ t.length = 4 ∧ ∃ a b, a ≠ b ∧ t.count a = 2 ∧ t.count b = 2 := by
  constructor
  · intro h
    match t, h with
    | [a, b, c, d], h =>
      refine ⟨rfl, ?_⟩
      simp only [ppqq, Bool.or_eq_true, Bool.and_eq_true, beq_iff_eq, bne_iff_ne] at h
      rcases h with (⟨⟨rfl, rfl⟩, hne⟩ | ⟨⟨rfl, rfl⟩, hne⟩) | ⟨⟨rfl, rfl⟩, hne⟩
      · exact ⟨a, c, hne, by simp [List.count_cons, hne, Ne.symm hne],
          by simp [List.count_cons, hne, Ne.symm hne]⟩
      · exact ⟨a, b, hne, by simp [List.count_cons, hne, Ne.symm hne],
          by simp [List.count_cons, hne, Ne.symm hne]⟩
      · exact ⟨a, b, hne, by simp [List.count_cons, hne, Ne.symm hne],
          by simp [List.count_cons, hne, Ne.symm hne]⟩
  · rintro ⟨hlen, a, b, hab, ha, hb⟩
    match t, hlen with
    | [x1, x2, x3, x4], _ =>
      simp only [List.count_cons, List.count_nil, beq_iff_eq] at ha hb
      simp only [ppqq, Bool.or_eq_true, Bool.and_eq_true, beq_iff_eq, bne_iff_ne]
      grind

example : ppqq [7, 2, 2, 7] = true ∧ ppqq [7, 7, 7, 2] = false ∧ ppqq [1, 2, 3, 3] = false ∧
    ppqq [5, 5, 5, 5] = false := by decide

/-! ## non-vacuity -/

/-- a cutoff input on the 8 atoms of `Cell.exampleCell` whose nearness relation is symmetric,
    reflexive and invariant under the 4 lattice translations, and not trivial -/
def covCut : CutoffIn :=
  { N := 8, cutoff := 3,
    dist := #[#[0,1,2,3,2,3,4,5], #[1,0,3,2,3,2,5,4], #[2,3,0,1,4,5,2,3], #[3,2,1,0,5,4,3,2],
              #[2,3,4,5,0,1,2,3], #[3,2,5,4,1,0,3,2], #[4,5,2,3,2,3,0,1], #[5,4,3,2,3,2,1,0]] }

theorem covCut_ok : CutOK Cell.exampleCell covCut := by
  have h1 : ∀ i, i < 8 → ∀ j, j < 8 → near covCut i j → near covCut j i := by decide +kernel
  have h2 : ∀ i, i < 8 → near covCut i i := by decide +kernel
  have h3 : ∀ l, l < 4 → ∀ i, i < 8 → ∀ j, j < 8 →
      (near covCut (Cell.exampleCell.img l i) (Cell.exampleCell.img l j) ↔ near covCut i j) := by
    decide +kernel
  exact ⟨rfl, fun i j hi hj => h1 i hi j hj, h2, fun l hl i j hi hj => h3 l hl i hi j hj⟩

example : pairwiseNear covCut ([23, 20, 22].map (· / 3)) := by unfold pairwiseNear; decide
example : ¬ pairwiseNear covCut ([0, 9, 10].map (· / 3)) := by unfold pairwiseNear; decide

/-- V1 at `exampleCell` (N = 8, nlp = 4), order 3: all 3456 indices are covered -/
example (nBatch : String → Nat) (ptr' : Array Int)
    (h : permDecompr Gen.cutoffOps Cell.exampleCell 3 (repFor 3) (stagesFor 3) none nBatch
      = some ptr') : ∀ e, e < 8 ^ 3 * 3 ^ 3 / 4 → covered ptr' e :=
  V1_covered Cell.exampleCell Cell.exampleCell_wf (Or.inr rfl) nBatch ptr' h

/-- V2 at `exampleCell` with `covCut`: the hypotheses are satisfiable -/
example (t : List Nat) (hlen : t.length = 3) (hlt : ∀ e ∈ t, e < 24) :
    (∃ r ∈ allStageRows Gen.cutoffOps Cell.exampleCell 3 (stagesFor 3) (some covCut),
      elemIdx 8 (Cell.exampleCell.atomicDecompr 3) t ∈ r) ↔ pairwiseNear covCut (t.map (· / 3)) :=
  V2_row _ Cell.exampleCell_wf (Or.inr rfl) covCut covCut_ok.hN covCut_ok.symm covCut_ok.refl
    covCut_ok.inv t hlen hlt

/-- …a tuple that needs a non-trivial translation and rearrangement is in a row, … -/
example : ∃ r ∈ allStageRows Gen.cutoffOps Cell.exampleCell 3 (stagesFor 3) (some covCut),
    elemIdx 8 (Cell.exampleCell.atomicDecompr 3) [23, 20, 22] ∈ r :=
  (V2_row _ Cell.exampleCell_wf (Or.inr rfl) covCut covCut_ok.hN covCut_ok.symm covCut_ok.refl
    covCut_ok.inv [23, 20, 22] rfl (by decide)).mpr (by unfold pairwiseNear; decide)

/-- …and a tuple with a far pair is in none -/
example : ¬ ∃ r ∈ allStageRows Gen.cutoffOps Cell.exampleCell 3 (stagesFor 3) (some covCut),
    elemIdx 8 (Cell.exampleCell.atomicDecompr 3) [0, 9, 10] ∈ r := fun h =>
  absurd ((V2_row _ Cell.exampleCell_wf (Or.inr rfl) covCut covCut_ok.hN covCut_ok.symm
    covCut_ok.refl covCut_ok.inv [0, 9, 10] rfl (by decide)).mp h)
    (by unfold pairwiseNear; decide)

/-- independent evaluation at order 2: `[0, 9]` (atoms 0 and 3, far) is in no row, `[23, 20]`
    (atoms 7 and 6, near) is in one -/
example : (allStageRows Gen.cutoffOps Cell.exampleCell 2 (stagesFor 2) (some covCut)).all
    (fun r => !r.contains (elemIdx 8 (Cell.exampleCell.atomicDecompr 2) [0, 9])) = true ∧
  (allStageRows Gen.cutoffOps Cell.exampleCell 2 (stagesFor 2) (some covCut)).any
    (fun r => r.contains (elemIdx 8 (Cell.exampleCell.atomicDecompr 2) [23, 20])) = true := by
  decide +kernel

/-- V3 at `exampleCell`: the element of `(0,0,3,3)` is never covered (F1) -/
example (nBatch : String → Nat) (ptr' : Array Int)
    (h : permDecompr Gen.cutoffOps Cell.exampleCell 4 Gen.repKindO4 Gen.stagesO4 none nBatch
      = some ptr') :
    ¬ covered ptr' (elemIdx 8 (Cell.exampleCell.atomicDecompr 4) [0, 0, 3, 3]) :=
  V3_ppqq_never_covered _ Cell.exampleCell_wf none (fun _ h => nomatch h) nBatch ptr' h
    [0, 0, 3, 3] rfl (by decide) (by decide)

/-- one atom, no translations: 3 entries, 81 elements of order 4 -/
def tinyCell : Cell := { N := 1, tp := #[#[0]] }
theorem tinyCell_wf : tinyCell.wf = true := by decide +kernel

/-- independent evaluation of V3 on `tinyCell`: exactly 18 of the 81 elements lie in no row, and
    they are exactly the elements of the 18 tuples with pattern `(p,p,q,q)` -/
example : ((List.range 81).filter (fun e =>
      !(allStageRows Gen.cutoffOps tinyCell 4 Gen.stagesO4 none).any (fun r => r.contains e))).length
    = 18 ∧
  ((tuples 3 4).filter ppqq).length = 18 ∧
  ((tuples 3 4).filter ppqq).all (fun t =>
    !(allStageRows Gen.cutoffOps tinyCell 4 Gen.stagesO4 none).any
      (fun r => r.contains (elemIdx 1 (tinyCell.atomicDecompr 4) t))) = true := by
  decide +kernel

/-- two atoms exchanged by one translation -/
def smallCell : Cell := { N := 2, tp := #[#[0, 1], #[1, 0]] }
theorem smallCell_wf : smallCell.wf = true := by decide +kernel

/-- independent evaluation of V1 on `smallCell` at order 3: all 108 elements lie in rows -/
example : ((List.range (2 ^ 3 * 3 ^ 3 / 2)).filter (fun e =>
      !(allStageRows Gen.cutoffOps smallCell 3 Gen.stagesO3 none).any (fun r => r.contains e))).length
    = 0 := by
  decide +kernel

end Cov
end Symfc

section AxiomAudit
open Symfc Symfc.Cov
end AxiomAudit
