/- The columns assembled by the sub-block loop of `_block_eigh_projector` satisfy the hypotheses of the deflation
   theorem: `eigvecs_block` = block-diagonal of the sub-block eigenvectors `V_s`, `cmplt` = block-diagonal of the sub-block
   complements `Q_s` (the identity for a skipped sub-block, where `V_s` has no column). -/
import Mathlib.Data.Matrix.Block
import SymfcModel.Lemmas.Deflation

set_option linter.unusedSectionVars false

namespace Symfc.Deflation
open Matrix

variable {K : Type*} [Field K]
variable {o : Type*} [Fintype o] [DecidableEq o]
variable {m' k' q' : o → Type*} [∀ i, Fintype (m' i)] [∀ i, DecidableEq (m' i)]
  [∀ i, Fintype (k' i)] [∀ i, DecidableEq (k' i)] [∀ i, Fintype (q' i)] [∀ i, DecidableEq (q' i)]

/-- If in every sub-block `[V_s Q_s]` is an orthogonal matrix (`V_s V_sᵀ + Q_s Q_sᵀ = 1`) then the assembled
    `V = diag(V_s)`, `Q = diag(Q_s)` split the identity of the whole block: no coordinate is lost. -/
theorem assembled_columns_split_the_identity (V : ∀ i, Matrix (m' i) (k' i) K) (Q : ∀ i, Matrix (m' i) (q' i) K)
    (h : ∀ i, V i * (V i)ᵀ + Q i * (Q i)ᵀ = 1) :
    blockDiagonal' V * (blockDiagonal' V)ᵀ + blockDiagonal' Q * (blockDiagonal' Q)ᵀ = 1 := by
  rw [blockDiagonal'_transpose, blockDiagonal'_transpose, ← blockDiagonal'_mul, ← blockDiagonal'_mul,
    ← blockDiagonal'_add, ← blockDiagonal'_one]
  congr 1
  funext i
  exact h i

/-- Orthonormal sub-block complements assemble to orthonormal complement columns. -/
theorem assembled_complement_is_orthonormal (Q : ∀ i, Matrix (m' i) (q' i) K) (h : ∀ i, (Q i)ᵀ * Q i = 1) :
    (blockDiagonal' Q)ᵀ * blockDiagonal' Q = 1 := by
  rw [blockDiagonal'_transpose, ← blockDiagonal'_mul, ← blockDiagonal'_one]
  congr 1
  funext i
  exact h i

/-- Sub-block eigenvectors orthogonal to their sub-block complements stay orthogonal after assembly. -/
theorem assembled_columns_are_orthogonal (V : ∀ i, Matrix (m' i) (k' i) K) (Q : ∀ i, Matrix (m' i) (q' i) K)
    (h : ∀ i, (V i)ᵀ * Q i = 0) : (blockDiagonal' V)ᵀ * blockDiagonal' Q = 0 := by
  rw [blockDiagonal'_transpose, ← blockDiagonal'_mul, ← blockDiagonal'_zero]
  congr 1
  funext i
  exact h i

omit [Fintype o] [∀ i, Fintype (m' i)] in
/-- A skipped sub-block (no eigenvector column, identity complement — the fix of F4) satisfies the per-block
    hypothesis. -/
theorem skipped_sub_block_splits {μ : Type*} [Fintype μ] [DecidableEq μ] (V : Matrix μ Empty K) :
    V * Vᵀ + (1 : Matrix μ μ K) * (1 : Matrix μ μ K)ᵀ = 1 := by
  have : V * Vᵀ = 0 := by ext i j; simp [Matrix.mul_apply]
  rw [this, Matrix.transpose_one, Matrix.mul_one, zero_add]

end Symfc.Deflation
