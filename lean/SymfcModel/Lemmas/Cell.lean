/-
  Lemmas/Cell.lean — supercell translation group: main theorems.
    Part 1 (Cell1): group facts from `Cell.wf`
    Part 2 (Cell2): C14.a  `indepAtoms_spec`
    Part 3 (Cell3, Cell4, here): C08.a  `atomicDecompr` = translation-class index
-/
import SymfcModel.Lemmas.Cell4
namespace Symfc
namespace Cell

/-! ### Part 1 summary -/

/-- Part 1: all group facts for a well-formed cell -/
theorem wf_group_facts (c : Cell) (hwf : c.wf = true) :
    0 < c.nlp ∧
    (∀ l i, l < c.nlp → i < c.N → c.img l i < c.N) ∧
    (∀ i, i < c.N → c.img 0 i = i) ∧
    (∀ l i j, l < c.nlp → i < c.N → j < c.N → c.img l i = c.img l j → i = j) ∧
    (∀ l j, l < c.nlp → j < c.N → ∃ i, i < c.N ∧ c.img l i = j) ∧
    (∀ l m, l < c.nlp → m < c.nlp →
      ∃ k, k < c.nlp ∧ ∀ i, i < c.N → c.img k i = c.img l (c.img m i)) ∧
    (∀ l m, l < c.nlp → m < c.nlp → l ≠ m → ∀ i, i < c.N → c.img l i ≠ c.img m i) ∧
    (∀ l, l < c.nlp →
      ∃ k, k < c.nlp ∧ ∀ i, i < c.N → c.img k (c.img l i) = i ∧ c.img l (c.img k i) = i) := by
  have h := wf_WF c hwf
  exact ⟨h.nlp_pos, h.img_lt, h.img_zero, h.img_inj, h.img_surj, h.closure, h.free, h.inverse⟩

/-- Part 1: `sameOrbit` is an equivalence relation on atoms, orbits stay inside `range N`, and every
    orbit has exactly `nlp` members (listed without repetition by `orbitList`). -/
theorem sameOrbit_equiv (c : Cell) (hwf : c.wf = true) :
    (∀ i, i < c.N → sameOrbit c i i) ∧
    (∀ i j, i < c.N → sameOrbit c i j → sameOrbit c j i) ∧
    (∀ i j k, i < c.N → sameOrbit c i j → sameOrbit c j k → sameOrbit c i k) ∧
    (∀ i j, i < c.N → sameOrbit c i j → j < c.N) ∧
    (∀ i, i < c.N → (orbitList c i).Nodup ∧ (orbitList c i).length = c.nlp ∧
      (∀ j, j ∈ orbitList c i ↔ sameOrbit c i j) ∧
      ((List.range c.N).filter (fun j => decide (j ∈ orbitList c i))).length = c.nlp) := by
  have h := wf_WF c hwf
  exact ⟨fun _ hi => h.sameOrbit_refl hi, fun _ _ hi => h.sameOrbit_symm hi,
    fun _ _ _ hi => h.sameOrbit_trans hi, fun _ _ hi => h.sameOrbit_lt hi,
    fun i hi => ⟨h.nodup_orbitList hi, length_orbitList c i, mem_orbitList c i, h.orbit_card hi⟩⟩

/-! ### Part 3: C08.a -/

/-- (a) translation invariance of the class index -/
theorem atomicDecompr_translate (c : Cell) (hwf : c.wf = true) (n : Nat) (hn : 1 ≤ n)
    (atoms : List Nat) (hlen : atoms.length = n) (hlt : ∀ x, x ∈ atoms → x < c.N)
    (l : Nat) (hl : l < c.nlp) :
    (c.atomicDecompr n).getD (flat c.N (atoms.map (c.img l))) 0
      = (c.atomicDecompr n).getD (flat c.N atoms) 0 := by
  have h := wf_WF c hwf
  obtain ⟨m, hm, rest, l0, hr, hl0, rfl⟩ := h.exists_key hn ⟨hlen, hlt⟩
  obtain ⟨p, hp, hc⟩ := h.closure l l0 hl hl0
  have hkey : IsTuple c (rest.length + 1) (c.indepAtoms[m] :: rest) := by
    refine ⟨rfl, fun x hx => ?_⟩
    simp only [List.mem_cons] at hx
    rcases hx with rfl | hx
    · exact ((h.mem_indep _).mp (List.getElem_mem hm)).1
    · exact hr.2 x hx
  rw [map_img_comp hkey hc, h.atomicDecompr_key hn hm hp hr, h.atomicDecompr_key hn hm hl0 hr]

/-- (b) compact rows: the tuples starting with the `m`-th independent atom are numbered
    consecutively in lexicographic order -/
theorem atomicDecompr_compact (c : Cell) (hwf : c.wf = true) (n : Nat) (hn : 1 ≤ n)
    (m : Nat) (hm : m < c.indepAtoms.length)
    (rest : List Nat) (hlen : rest.length = n - 1) (hlt : ∀ x, x ∈ rest → x < c.N) :
    (c.atomicDecompr n).getD (flat c.N (c.indepAtoms[m] :: rest)) 0
      = m * c.N ^ (n - 1) + flat c.N rest := by
  have h := wf_WF c hwf
  have hkey : IsTuple c (rest.length + 1) (c.indepAtoms[m] :: rest) := by
    refine ⟨rfl, fun x hx => ?_⟩
    simp only [List.mem_cons] at hx
    rcases hx with rfl | hx
    · exact ((h.mem_indep _).mp (List.getElem_mem hm)).1
    · exact hlt x hx
  have := h.atomicDecompr_key hn hm h.nlp_pos (rest := rest) ⟨hlen, hlt⟩
  rwa [h.map_img_zero hkey] at this

/-- (c) separation: tuples with the same class index are translates of each other -/
theorem atomicDecompr_separate (c : Cell) (hwf : c.wf = true) (n : Nat) (hn : 1 ≤ n)
    (a b : List Nat) (halen : a.length = n) (halt : ∀ x, x ∈ a → x < c.N)
    (hblen : b.length = n) (hblt : ∀ x, x ∈ b → x < c.N)
    (e : (c.atomicDecompr n).getD (flat c.N a) 0 = (c.atomicDecompr n).getD (flat c.N b) 0) :
    ∃ l, l < c.nlp ∧ b = a.map (c.img l) := by
  have h := wf_WF c hwf
  obtain ⟨m, hm, rest, l1, hr, hl1, rfl⟩ := h.exists_key hn ⟨halen, halt⟩
  obtain ⟨m', hm', rest', l2, hr', hl2, rfl⟩ := h.exists_key hn ⟨hblen, hblt⟩
  rw [h.atomicDecompr_key hn hm hl1 hr, h.atomicDecompr_key hn hm' hl2 hr'] at e
  have h1 := flat_lt c.N rest hr.2
  have h2 := flat_lt c.N rest' hr'.2
  rw [hr.1] at h1
  rw [hr'.1] at h2
  obtain ⟨hmm, hff⟩ := mul_add_inj h1 h2 e
  subst hmm
  have hrr := flat_inj c.N rest rest' (by rw [hr.1, hr'.1]) hr.2 hr'.2 hff
  subst hrr
  -- b = key.map l2 = (key.map l1).map (l2 ∘ l1⁻¹)
  obtain ⟨k, hk, hinv⟩ := h.inverse l1 hl1
  obtain ⟨p, hp, hc⟩ := h.closure l2 k hl2 hk
  refine ⟨p, hp, ?_⟩
  rw [List.map_map]
  refine List.map_congr_left fun x hx => ?_
  have hxN : x < c.N := by
    simp only [List.mem_cons] at hx
    rcases hx with rfl | hx
    · exact ((h.mem_indep _).mp (List.getElem_mem hm)).1
    · exact hr.2 x hx
  simp only [Function.comp]
  rw [hc _ (h.img_lt l1 x hl1 hxN), (hinv x hxN).1]

/-- (a)+(c): two atom tuples get the same class index iff they are lattice translates -/
theorem atomicDecompr_eq_iff (c : Cell) (hwf : c.wf = true) (n : Nat) (hn : 1 ≤ n)
    (a b : List Nat) (halen : a.length = n) (halt : ∀ x, x ∈ a → x < c.N)
    (hblen : b.length = n) (hblt : ∀ x, x ∈ b → x < c.N) :
    (c.atomicDecompr n).getD (flat c.N a) 0 = (c.atomicDecompr n).getD (flat c.N b) 0 ↔
      ∃ l, l < c.nlp ∧ b = a.map (c.img l) := by
  constructor
  · exact atomicDecompr_separate c hwf n hn a b halen halt hblen hblt
  · rintro ⟨l, hl, rfl⟩
    exact (atomicDecompr_translate c hwf n hn a halen halt l hl).symm

/-- (d1) range of the class index -/
theorem atomicDecompr_lt (c : Cell) (hwf : c.wf = true) (n : Nat) (hn : 1 ≤ n)
    (atoms : List Nat) (hlen : atoms.length = n) (hlt : ∀ x, x ∈ atoms → x < c.N) :
    (c.atomicDecompr n).getD (flat c.N atoms) 0 < c.indepAtoms.length * c.N ^ (n - 1) := by
  have h := wf_WF c hwf
  obtain ⟨m, hm, rest, l0, hr, hl0, rfl⟩ := h.exists_key hn ⟨hlen, hlt⟩
  rw [h.atomicDecompr_key hn hm hl0 hr]
  have h1 := flat_lt c.N rest hr.2
  rw [hr.1] at h1
  have : (m + 1) * c.N ^ (n - 1) ≤ c.indepAtoms.length * c.N ^ (n - 1) :=
    Nat.mul_le_mul_right _ hm
  rw [Nat.succ_mul] at this
  omega

/-- (d2) the number of classes is `N^n / nlp` -/
theorem num_classes_eq (c : Cell) (hwf : c.wf = true) (n : Nat) (hn : 1 ≤ n) :
    c.indepAtoms.length * c.N ^ (n - 1) = c.N ^ n / c.nlp := by
  have h := wf_WF c hwf
  have hN := h.N_eq
  obtain ⟨k, rfl⟩ : ∃ k, n = k + 1 := ⟨n - 1, by omega⟩
  simp only [Nat.add_sub_cancel]
  rw [Nat.pow_succ]
  conv => rhs; rw [hN]
  rw [← Nat.mul_assoc, Nat.mul_div_cancel _ h.nlp_pos, ← hN, Nat.mul_comm]

/-- (d3) every value below the bound is attained by exactly `nlp` tuples: the `nlp` translates of a
    key tuple, which are pairwise distinct. -/
theorem atomicDecompr_fiber (c : Cell) (hwf : c.wf = true) (n : Nat) (hn : 1 ≤ n)
    (v : Nat) (hv : v < c.indepAtoms.length * c.N ^ (n - 1)) :
    ∃ key : List Nat, key.length = n ∧ (∀ x, x ∈ key → x < c.N) ∧
      ((List.range c.nlp).map (fun l => key.map (c.img l))).Nodup ∧
      ((List.range c.nlp).map (fun l => key.map (c.img l))).length = c.nlp ∧
      ∀ t : List Nat, t.length = n → (∀ x, x ∈ t → x < c.N) →
        ((c.atomicDecompr n).getD (flat c.N t) 0 = v ↔
          t ∈ (List.range c.nlp).map (fun l => key.map (c.img l))) := by
  have h := wf_WF c hwf
  have hP : 0 < c.N ^ (n - 1) := by
    rcases Nat.eq_zero_or_pos (c.N ^ (n - 1)) with h0 | h0
    · rw [h0] at hv; omega
    · exact h0
  have hm : v / c.N ^ (n - 1) < c.indepAtoms.length :=
    Nat.div_lt_of_lt_mul (by rw [Nat.mul_comm]; exact hv)
  obtain ⟨rest, hrl, hrlt, hrf⟩ := flat_surj c.N (n - 1) (v % c.N ^ (n - 1)) (Nat.mod_lt _ hP)
  have hr : IsTuple c (n - 1) rest := ⟨hrl, hrlt⟩
  have hsplit : v = (v / c.N ^ (n - 1)) * c.N ^ (n - 1) + flat c.N rest := by
    rw [hrf, Nat.mul_comm]; exact (Nat.div_add_mod v _).symm
  have haN := ((h.mem_indep _).mp (List.getElem_mem hm)).1
  have hkey : IsTuple c n (c.indepAtoms[v / c.N ^ (n - 1)] :: rest) := by
    refine ⟨by simp [hrl]; omega, fun x hx => ?_⟩
    simp only [List.mem_cons] at hx
    rcases hx with rfl | hx
    · exact haN
    · exact hrlt x hx
  refine ⟨_, hkey.1, hkey.2, ?_, by simp, ?_⟩
  · apply nodup_map_range
    intro l l' hl hl' e
    exact (h.key_unique hm hm hl hl' hr hr e).2.1
  · intro t htl htlt
    simp only [List.mem_map, List.mem_range]
    constructor
    · intro e
      obtain ⟨m', hm', rest', l', hr', hl', rfl⟩ := h.exists_key hn ⟨htl, htlt⟩
      rw [h.atomicDecompr_key hn hm' hl' hr'] at e
      have h1 := flat_lt c.N rest hrlt
      have h2 := flat_lt c.N rest' hr'.2
      rw [hrl] at h1
      rw [hr'.1] at h2
      obtain ⟨hmm, hff⟩ := mul_add_inj h2 h1 (e.trans hsplit)
      subst hmm
      have hrr := flat_inj c.N rest' rest (by rw [hr.1, hr'.1]) hr'.2 hr.2 hff
      subst hrr
      exact ⟨l', hl', rfl⟩
    · rintro ⟨l, hl, rfl⟩
      rw [h.atomicDecompr_key hn hm hl hr]
      exact hsplit.symm

/-! ### (e) the closed form `classIdx` -/

theorem findSome?_none_or_some {α β} (f : α → Option β) (v : β) :
    ∀ (xs : List α), (∀ x, x ∈ xs → f x = none ∨ f x = some v) →
      xs.findSome? f = none ∨ xs.findSome? f = some v := by
  intro xs
  induction xs with
  | nil => intro _; simp
  | cons x xs ih =>
    intro hx
    rw [List.findSome?_cons]
    rcases hx x (by simp) with h | h
    · rw [h]; exact ih (fun y hy => hx y (by simp [hy]))
    · rw [h]; simp

theorem findSome?_eq_some_of_unique {α β} (f : α → Option β) (v : β) (xs : List α)
    (hx : ∀ x, x ∈ xs → f x = none ∨ f x = some v) (hw : ∃ x, x ∈ xs ∧ f x = some v) :
    xs.findSome? f = some v := by
  rcases findSome?_none_or_some f v xs hx with h | h
  · rw [List.findSome?_eq_none_iff] at h
    obtain ⟨x, hxm, hxv⟩ := hw
    rw [h x hxm] at hxv; cases hxv
  · exact h

/-- candidate produced by `classIdx` for translation `l` and independent-atom position `m` -/
def classCand (c : Cell) (atoms : List Nat) (i l m : Nat) : Option Nat :=
  if c.img l (c.indepAtoms.getD m c.N) == i then
    some (m * c.N ^ (atoms.length - 1) + flat c.N ((atoms.map (fun a =>
      ((List.range c.N).find? (fun j => c.img l j == a)).getD c.N)).drop 1))
  else none

theorem classIdx_cons (c : Cell) (i : Nat) (tl : List Nat) :
    classIdx c (i :: tl) = (List.range c.nlp).findSome? (fun l =>
      (List.range c.indepAtoms.length).findSome? (fun m => classCand c (i :: tl) i l m)) := rfl

theorem WF.find_inv {c : Cell} (h : WF c) {l x : Nat} (hl : l < c.nlp) (hx : x < c.N) :
    (List.range c.N).find? (fun j => c.img l j == c.img l x) = some x := by
  cases hf : (List.range c.N).find? (fun j => c.img l j == c.img l x) with
  | none =>
    rw [List.find?_eq_none] at hf
    have := hf x (List.mem_range.mpr hx)
    simp at this
  | some j =>
    have h1 := List.find?_some hf
    have h2 := List.mem_range.mp (List.mem_of_find?_eq_some hf)
    simp only [beq_iff_eq] at h1
    rw [h.img_inj l j x hl h2 hx h1]

/-- (e) the closed form `classIdx` agrees with the operational `atomicDecompr` -/
theorem classIdx_eq (c : Cell) (hwf : c.wf = true) (n : Nat) (hn : 1 ≤ n)
    (atoms : List Nat) (hlen : atoms.length = n) (hlt : ∀ x, x ∈ atoms → x < c.N) :
    classIdx c atoms = some ((c.atomicDecompr n).getD (flat c.N atoms) 0) := by
  have h := wf_WF c hwf
  obtain ⟨m0, hm0, rest, l0, hr, hl0, rfl⟩ := h.exists_key hn ⟨hlen, hlt⟩
  rw [h.atomicDecompr_key hn hm0 hl0 hr]
  have haN := ((h.mem_indep _).mp (List.getElem_mem hm0)).1
  rw [List.map_cons, classIdx_cons]
  -- any matching candidate is the candidate (l0, m0)
  have hcand : ∀ l m, l < c.nlp → m < c.indepAtoms.length →
      classCand c (c.img l0 c.indepAtoms[m0] :: rest.map (c.img l0)) (c.img l0 c.indepAtoms[m0]) l m
        = none ∨
      classCand c (c.img l0 c.indepAtoms[m0] :: rest.map (c.img l0)) (c.img l0 c.indepAtoms[m0]) l m
        = some (m0 * c.N ^ (n - 1) + flat c.N rest) := by
    intro l m hl hm
    unfold classCand
    split
    · next hc =>
      right
      simp only [beq_iff_eq] at hc
      have hget : c.indepAtoms.getD m c.N = c.indepAtoms[m] := by
        simp [List.getD_eq_getElem?_getD, hm]
      rw [hget] at hc
      have hnil : IsTuple c 0 [] := ⟨rfl, by simp⟩
      obtain ⟨hmm, hll, _⟩ := h.key_unique (rest := []) (rest' := []) hm hm0 hl hl0 hnil hnil
        (by simp [hc])
      subst hmm; subst hll
      have hback : (List.map (fun a => ((List.range c.N).find? (fun j => c.img l j == a)).getD c.N)
          (c.img l c.indepAtoms[m] :: rest.map (c.img l))) = c.indepAtoms[m] :: rest := by
        simp only [List.map_cons, List.map_map, h.find_inv hl haN, Option.getD_some,
          List.cons.injEq, true_and]
        have : ∀ x, x ∈ rest →
            ((fun a => ((List.range c.N).find? (fun j => c.img l j == a)).getD c.N) ∘ c.img l) x
              = id x := by
          intro x hx
          simp only [Function.comp, h.find_inv hl (hr.2 x hx), Option.getD_some, id]
        rw [List.map_congr_left this, List.map_id]
      rw [hback]
      simp only [List.length_cons, List.length_map, hr.1, List.drop_succ_cons, List.drop_zero]
      have : n - 1 + 1 - 1 = n - 1 := by omega
      rw [this]
    · exact Or.inl rfl
  apply findSome?_eq_some_of_unique
  · intro l hl
    exact findSome?_none_or_some _ _ _ fun m hm =>
      hcand l m (List.mem_range.mp hl) (List.mem_range.mp hm)
  · refine ⟨l0, List.mem_range.mpr hl0, ?_⟩
    apply findSome?_eq_some_of_unique
    · intro m hm
      exact hcand l0 m hl0 (List.mem_range.mp hm)
    · refine ⟨m0, List.mem_range.mpr hm0, ?_⟩
      rcases hcand l0 m0 hl0 hm0 with hc | hc
      · exfalso
        unfold classCand at hc
        simp [List.getElem?_eq_getElem hm0] at hc
      · exact hc

/-! ### the hypotheses are satisfiable -/

/-- a 2×2 lattice of translations acting freely on 8 atoms -/
def exampleCell : Cell :=
  { N := 8, tp := #[#[0,1,2,3,4,5,6,7], #[2,3,0,1,6,7,4,5], #[1,0,3,2,5,4,7,6], #[3,2,1,0,7,6,5,4]] }

theorem exampleCell_wf : exampleCell.wf = true := by decide +kernel
example : exampleCell.N = 8 ∧ exampleCell.nlp = 4 := ⟨rfl, rfl⟩
example : exampleCell.indepAtoms = [0, 4] := by decide +kernel

end Cell
end Symfc
