/-
  Lemmas/Cutoff.lean — characterisation of the FCCutoff model (`Model/Cutoff.lean`)
  instantiated at the extracted comparison sites `Gen.cutoffOps`.
-/
import SymfcModel.Model.Cutoff
import SymfcModel.Gen.Cutoff
import SymfcModel.Lemmas.CutoffBasic
namespace Symfc

/-! ## Definitions -/

def near (x : CutoffIn) (i j : Nat) : Prop := x.d i j < x.cutoff

instance (x : CutoffIn) (i j : Nat) : Decidable (near x i j) := by unfold near; infer_instance

def pairwiseNear (x : CutoffIn) (atoms : List Nat) : Prop := ∀ a ∈ atoms, ∀ b ∈ atoms, near x a b

/-! ## E2. `neighbors` -/

theorem mem_neighbors {x : CutoffIn} {i j : Nat} :
    j ∈ x.neighbors Gen.cutoffOps i ↔ j < x.N ∧ near x i j := by
  simp [CutoffIn.neighbors, Gen.cutoffOps, Cmp.eval, near]

theorem neighbors_sorted (x : CutoffIn) (i : Nat) :
    (x.neighbors Gen.cutoffOps i).Pairwise (· < ·) :=
  List.pairwise_lt_range.filter _

/-! ## E3. `listCombs` -/

theorem getD_lt_of_sorted {xs : List Nat} (hxs : xs.Pairwise (· < ·)) {p q : Nat}
    (hpq : p < q) (hq : q < xs.length) : xs.getD p 0 < xs.getD q 0 := by
  have hp : p < xs.length := by omega
  rw [← List.getElem_eq_getD (h := hp), ← List.getElem_eq_getD (h := hq)]
  exact List.pairwise_iff_getElem.mp hxs p q hp hq hpq

theorem getD_mem {xs : List Nat} {p : Nat} (hp : p < xs.length) : xs.getD p 0 ∈ xs := by
  rw [← List.getElem_eq_getD (h := hp)]; exact List.getElem_mem hp

theorem mem_listCombs {xs : List Nat} (hxs : xs.Pairwise (· < ·)) {r : Nat} {c : List Nat} :
    c ∈ CutoffIn.listCombs xs r ↔
      c.length = r ∧ c.Pairwise (· < ·) ∧ ∀ e ∈ c, e ∈ xs := by
  unfold CutoffIn.listCombs
  rw [List.mem_map]
  constructor
  · rintro ⟨ps, hps, rfl⟩
    obtain ⟨h1, h2, h3⟩ := mem_entireCombinations.mp hps
    refine ⟨by simpa using h1, ?_, ?_⟩
    · rw [List.pairwise_map]
      exact h2.imp_of_mem (fun {a b} _ hb hab => getD_lt_of_sorted hxs hab (h3 b hb))
    · intro e he
      obtain ⟨p, hp, rfl⟩ := List.mem_map.mp he
      exact getD_mem (h3 p hp)
  · rintro ⟨h1, h2, h3⟩
    refine ⟨c.map (fun e => xs.idxOf e), mem_entireCombinations.mpr ⟨by simpa using h1, ?_, ?_⟩, ?_⟩
    · rw [List.pairwise_map]
      refine h2.imp_of_mem (fun {a b} ha hb hab => ?_)
      have hla := List.idxOf_lt_length_of_mem (h3 a ha)
      have hlb := List.idxOf_lt_length_of_mem (h3 b hb)
      have ea : xs.getD (xs.idxOf a) 0 = a := by
        rw [← List.getElem_eq_getD (h := hla)]; exact List.getElem_idxOf hla
      have eb : xs.getD (xs.idxOf b) 0 = b := by
        rw [← List.getElem_eq_getD (h := hlb)]; exact List.getElem_idxOf hlb
      rcases Nat.lt_trichotomy (xs.idxOf a) (xs.idxOf b) with h | h | h
      · exact h
      · rw [h] at ea; omega
      · have := getD_lt_of_sorted hxs h hla; omega
    · intro p hp
      obtain ⟨e, he, rfl⟩ := List.mem_map.mp hp
      exact List.idxOf_lt_length_of_mem (h3 e he)
    · rw [List.map_map]
      conv => rhs; rw [← List.map_id c]
      apply List.map_congr_left
      intro e he
      have hle := List.idxOf_lt_length_of_mem (h3 e he)
      show xs.getD (xs.idxOf e) 0 = e
      rw [← List.getElem_eq_getD (h := hle)]; exact List.getElem_idxOf hle

theorem map_lt_map_of_sorted {xs : List Nat} (hxs : xs.Pairwise (· < ·)) :
    ∀ {ps qs : List Nat}, (∀ p ∈ ps, p < xs.length) → (∀ q ∈ qs, q < xs.length) → ps < qs →
      ps.map (fun p => xs.getD p 0) < qs.map (fun p => xs.getD p 0) := by
  intro ps
  induction ps with
  | nil =>
    intro qs _ _ h
    cases qs with
    | nil => exact absurd h (List.lt_irrefl _)
    | cons q qs => simp
  | cons p ps ih =>
    intro qs hp hq h
    cases qs with
    | nil => simp at h
    | cons q qs =>
      simp only [List.map_cons]
      rcases List.cons_lt_cons_iff.mp h with h' | ⟨rfl, h'⟩
      · exact List.cons_lt_cons_iff.mpr (Or.inl (getD_lt_of_sorted hxs h' (hq q (by simp))))
      · exact List.cons_lt_cons_iff.mpr (Or.inr ⟨rfl,
          ih (fun a ha => hp a (by simp [ha])) (fun a ha => hq a (by simp [ha])) h'⟩)

theorem listCombs_sorted {xs : List Nat} (hxs : xs.Pairwise (· < ·)) (r : Nat) :
    (CutoffIn.listCombs xs r).Pairwise (· < ·) := by
  unfold CutoffIn.listCombs
  rw [List.pairwise_map]
  refine (entireCombinations_sorted xs.length r).imp_of_mem (fun {a b} ha hb hab => ?_)
  exact map_lt_map_of_sorted hxs (mem_entireCombinations.mp ha).2.2
    (mem_entireCombinations.mp hb).2.2 hab

theorem listCombs_nodup {xs : List Nat} (hxs : xs.Pairwise (· < ·)) (r : Nat) :
    (CutoffIn.listCombs xs r).Nodup :=
  nodup_of_pairwise_lt (listCombs_sorted hxs r)

/-! ## E4. `combinations` -/

theorem mem_neighborsN3 {x : CutoffIn} {last e : Nat} :
    e ∈ x.neighborsN3 Gen.cutoffOps .lt last ↔
      e < last ∧ e / 3 < x.N ∧ near x (last / 3) (e / 3) := by
  simp only [CutoffIn.neighborsN3, List.mem_flatMap, List.mem_filterMap, List.mem_range,
    mem_neighbors, Cmp.eval, decide_eq_true_eq]
  constructor
  · rintro ⟨j, ⟨hj, hn⟩, b, hb, h⟩
    split at h
    · cases h
      have : (3 * j + b) / 3 = j := by omega
      rw [this]; exact ⟨by assumption, hj, hn⟩
    · cases h
  · rintro ⟨h1, h2, h3⟩
    refine ⟨e / 3, ⟨h2, h3⟩, e % 3, by omega, ?_⟩
    have : 3 * (e / 3) + e % 3 = e := by omega
    rw [this, if_pos h1]

theorem neighborsN3_sorted (x : CutoffIn) (last : Nat) :
    (x.neighborsN3 Gen.cutoffOps .lt last).Pairwise (· < ·) := by
  unfold CutoffIn.neighborsN3
  rw [List.pairwise_flatMap]
  refine ⟨fun j _ => ?_, ?_⟩
  · refine List.Pairwise.filterMap _ ?_ List.pairwise_lt_range
    intro a a' haa' b hb b' hb'
    split at hb <;> split at hb' <;> simp at hb hb'
    omega
  · refine (neighbors_sorted x (last / 3)).imp ?_
    intro j j' hjj' a ha b hb
    simp only [List.mem_filterMap, List.mem_range] at ha hb
    obtain ⟨u, hu, ha⟩ := ha
    obtain ⟨v, hv, hb⟩ := hb
    split at ha <;> split at hb <;> simp at ha hb
    omega

/-- the raw (hypothesis-free) shape of the cutoff test performed by `combinations{2,3,4}`:
    the tuple is `pre ++ [last]`, all atoms of `pre` are neighbours of the last atom,
    and the atoms of `pre` pass the pair tests `near (earlier) (later)`. -/
def rawNear (x : CutoffIn) (c : List Nat) : Prop :=
  ∃ pre last, c = pre ++ [last] ∧ (pre.map (· / 3)).Pairwise (near x) ∧
    ∀ e ∈ pre, near x (last / 3) (e / 3)

theorem pairsOK_comb3 (x : CutoffIn) {atoms : List Nat} (h : atoms.length = 2) :
    x.pairsOK Gen.cutoffOps.comb3 atoms = true ↔ atoms.Pairwise (near x) := by
  match atoms, h with
  | [a, b], _ => simp [CutoffIn.pairsOK, Gen.cutoffOps, Cmp.eval, near]

theorem pairsOK_comb4 (x : CutoffIn) {atoms : List Nat} (h : atoms.length = 3) :
    x.pairsOK Gen.cutoffOps.comb4 atoms = true ↔ atoms.Pairwise (near x) := by
  match atoms, h with
  | [a, b, c], _ =>
    simp [CutoffIn.pairsOK, Gen.cutoffOps, Cmp.eval, near]
    constructor
    · rintro ⟨h1, h2, h3⟩; exact ⟨⟨h1, h2⟩, h3⟩
    · rintro ⟨⟨h1, h2⟩, h3⟩; exact ⟨h1, h2, h3⟩

theorem mem_combinations2_raw {x : CutoffIn} {c : List Nat} :
    c ∈ x.combinations Gen.cutoffOps 2 ↔
      c.length = 2 ∧ c.Pairwise (· < ·) ∧ (∀ e ∈ c, e < 3 * x.N) ∧ rawNear x c := by
  have hk : x.combinations Gen.cutoffOps 2 = x.combinations2 Gen.cutoffOps := rfl
  rw [hk]
  simp only [CutoffIn.combinations2, List.mem_flatMap, List.mem_range, List.mem_map]
  have hidx : Gen.cutoffOps.comb2Idx = .lt := rfl
  rw [hidx]
  constructor
  · rintro ⟨jb, hjb, ia, hia, rfl⟩
    obtain ⟨h1, h2, h3⟩ := mem_neighborsN3.mp hia
    refine ⟨rfl, by simpa using h1, ?_, [ia], jb, rfl, by simp, by simpa using h3⟩
    intro e he
    simp at he
    omega
  · rintro ⟨h1, h2, h3, pre, last, rfl, h4, h5⟩
    have hlen : pre.length = 1 := by simpa using h1
    match pre, hlen with
    | [ia], _ =>
      simp at h2 h3 h5
      exact ⟨last, h3.2, ia, mem_neighborsN3.mpr ⟨h2, by omega, h5⟩, rfl⟩

theorem mem_combinationsK_raw_aux {x : CutoffIn} {k : Nat} {tests : List (Nat × Nat × Cmp)}
    (hk : 1 ≤ k)
    (htests : ∀ atoms : List Nat, atoms.length = k - 1 →
      (x.pairsOK tests atoms = true ↔ atoms.Pairwise (near x)))
    {c : List Nat} :
    c ∈ (List.range (3 * x.N)).flatMap (fun last =>
      ((CutoffIn.listCombs (x.neighborsN3 Gen.cutoffOps .lt last) (k - 1)).filter
        (fun cmb => x.pairsOK tests (cmb.map (· / 3)))).map (· ++ [last])) ↔
      c.length = k ∧ c.Pairwise (· < ·) ∧ (∀ e ∈ c, e < 3 * x.N) ∧ rawNear x c := by
  simp only [List.mem_flatMap, List.mem_range, List.mem_map, List.mem_filter]
  constructor
  · rintro ⟨last, hlast, cmb, ⟨hcmb, hok⟩, rfl⟩
    obtain ⟨h1, h2, h3⟩ := (mem_listCombs (neighborsN3_sorted x last)).mp hcmb
    have hN := fun e he => mem_neighborsN3.mp (h3 e he)
    refine ⟨by simp [h1]; omega, ?_, ?_, cmb, last, rfl, ?_, fun e he => (hN e he).2.2⟩
    · rw [List.pairwise_append]
      refine ⟨h2, by simp, ?_⟩
      intro a ha b hb
      simp at hb; subst hb
      exact (hN a ha).1
    · intro e he
      rcases List.mem_append.mp he with he | he
      · have := (hN e he).1; omega
      · simp at he; omega
    · exact (htests _ (by simpa using h1)).mp hok
  · rintro ⟨h1, h2, h3, pre, last, rfl, h4, h5⟩
    rw [List.pairwise_append] at h2
    have hlen : pre.length = k - 1 := by simp at h1; omega
    refine ⟨last, h3 last (by simp), pre, ⟨?_, ?_⟩, rfl⟩
    · refine (mem_listCombs (neighborsN3_sorted x last)).mpr ⟨hlen, h2.1, fun e he => ?_⟩
      have h6 := h3 e (by simp [he])
      exact mem_neighborsN3.mpr ⟨h2.2.2 e he last (by simp), by omega, h5 e he⟩
    · exact (htests _ (by simpa using hlen)).mpr h4

theorem mem_combinations3_raw {x : CutoffIn} {c : List Nat} :
    c ∈ x.combinations Gen.cutoffOps 3 ↔
      c.length = 3 ∧ c.Pairwise (· < ·) ∧ (∀ e ∈ c, e < 3 * x.N) ∧ rawNear x c :=
  mem_combinationsK_raw_aux (k := 3) (tests := Gen.cutoffOps.comb3) (by omega)
    (fun _ h => pairsOK_comb3 x h)

theorem mem_combinations4_raw {x : CutoffIn} {c : List Nat} :
    c ∈ x.combinations Gen.cutoffOps 4 ↔
      c.length = 4 ∧ c.Pairwise (· < ·) ∧ (∀ e ∈ c, e < 3 * x.N) ∧ rawNear x c :=
  mem_combinationsK_raw_aux (k := 4) (tests := Gen.cutoffOps.comb4) (by omega)
    (fun _ h => pairsOK_comb4 x h)

/-- hypothesis-free characterisation of `combinations{2,3,4}` -/
theorem mem_combinations_raw {x : CutoffIn} {k : Nat} (hk : k = 2 ∨ k = 3 ∨ k = 4)
    {c : List Nat} :
    c ∈ x.combinations Gen.cutoffOps k ↔
      c.length = k ∧ c.Pairwise (· < ·) ∧ (∀ e ∈ c, e < 3 * x.N) ∧ rawNear x c := by
  rcases hk with rfl | rfl | rfl
  · exact mem_combinations2_raw
  · exact mem_combinations3_raw
  · exact mem_combinations4_raw

theorem near_symm {x : CutoffIn} (hsym : ∀ i j, x.d i j = x.d j i) {a b : Nat}
    (h : near x a b) : near x b a := by
  unfold near at *; rw [hsym]; exact h

/-- under symmetry and self-nearness the raw test is the symmetric pairwise test -/
theorem rawNear_iff_pairwiseNear {x : CutoffIn}
    (hsym : ∀ i j, x.d i j = x.d j i) (hself : ∀ i, i < x.N → x.d i i < x.cutoff)
    {c : List Nat} (hne : c ≠ []) (hlt : ∀ e ∈ c, e < 3 * x.N) :
    rawNear x c ↔ pairwiseNear x (c.map (· / 3)) := by
  have hrefl : ∀ a ∈ c.map (· / 3), near x a a := by
    intro a ha
    obtain ⟨e, he, rfl⟩ := List.mem_map.mp ha
    have := hlt e he
    exact hself _ (by omega)
  constructor
  · rintro ⟨pre, last, rfl, h1, h2⟩
    have hP : ((pre ++ [last]).map (· / 3)).Pairwise (near x) := by
      rw [List.map_append, List.pairwise_append]
      refine ⟨h1, by simp, ?_⟩
      intro a ha b hb
      simp at hb; subst hb
      obtain ⟨e, he, rfl⟩ := List.mem_map.mp ha
      exact near_symm hsym (h2 e he)
    have hF : ((pre ++ [last]).map (· / 3)).Pairwise (flip (near x)) :=
      hP.imp (fun h => near_symm hsym h)
    intro a ha b hb
    exact List.Pairwise.forall_of_forall_of_flip hrefl hP hF ha hb
  · intro h
    refine ⟨c.dropLast, c.getLast hne, (List.dropLast_concat_getLast hne).symm, ?_, ?_⟩
    · apply List.pairwise_of_forall_mem_list
      intro a ha b hb
      obtain ⟨e, he, rfl⟩ := List.mem_map.mp ha
      obtain ⟨f, hf, rfl⟩ := List.mem_map.mp hb
      exact h _ (List.mem_map.mpr ⟨e, List.dropLast_subset _ he, rfl⟩)
        _ (List.mem_map.mpr ⟨f, List.dropLast_subset _ hf, rfl⟩)
    · intro e he
      exact h _ (List.mem_map.mpr ⟨_, List.getLast_mem hne, rfl⟩)
        _ (List.mem_map.mpr ⟨e, List.dropLast_subset _ he, rfl⟩)

/-- **E4** main characterisation of `combinations{2,3,4}`. -/
theorem mem_combinations {x : CutoffIn}
    (hsym : ∀ i j, x.d i j = x.d j i) (hself : ∀ i, i < x.N → x.d i i < x.cutoff)
    {k : Nat} (hk : k = 2 ∨ k = 3 ∨ k = 4) {c : List Nat} :
    c ∈ x.combinations Gen.cutoffOps k ↔
      c.length = k ∧ c.Pairwise (· < ·) ∧ (∀ e ∈ c, e < 3 * x.N) ∧
        pairwiseNear x (c.map (· / 3)) := by
  rw [mem_combinations_raw hk]
  constructor
  · rintro ⟨h1, h2, h3, h4⟩
    have hne : c ≠ [] := by rintro rfl; simp at h1; omega
    exact ⟨h1, h2, h3, (rawNear_iff_pairwiseNear hsym hself hne h3).mp h4⟩
  · rintro ⟨h1, h2, h3, h4⟩
    have hne : c ≠ [] := by rintro rfl; simp at h1; omega
    exact ⟨h1, h2, h3, (rawNear_iff_pairwiseNear hsym hself hne h3).mpr h4⟩

/-! ### Nodup -/

theorem nodup_flatMap_snoc (ls : List Nat) (f : Nat → List (List Nat))
    (hls : ls.Nodup) (hf : ∀ l ∈ ls, (f l).Nodup) :
    (ls.flatMap (fun l => (f l).map (· ++ [l]))).Nodup := by
  unfold List.Nodup
  rw [List.pairwise_flatMap]
  refine ⟨fun l hl => ?_, ?_⟩
  · exact (hf l hl).map _ (fun a b hab h => hab (List.append_cancel_right h))
  · refine hls.imp ?_
    intro l l' hll' a ha b hb hab
    obtain ⟨u, _, rfl⟩ := List.mem_map.mp ha
    obtain ⟨v, _, rfl⟩ := List.mem_map.mp hb
    have := (List.append_inj' hab rfl).2
    simp at this
    exact hll' this

theorem combinations_nodup (x : CutoffIn) {k : Nat} (hk : k = 2 ∨ k = 3 ∨ k = 4) :
    (x.combinations Gen.cutoffOps k).Nodup := by
  rcases hk with rfl | rfl | rfl
  · show (x.combinations2 Gen.cutoffOps).Nodup
    unfold CutoffIn.combinations2
    have : ∀ jb, (x.neighborsN3 Gen.cutoffOps Gen.cutoffOps.comb2Idx jb).map (fun ia => [ia, jb])
        = ((x.neighborsN3 Gen.cutoffOps .lt jb).map (fun ia => [ia])).map (· ++ [jb]) := by
      intro jb; rw [List.map_map]; rfl
    simp only [this]
    refine nodup_flatMap_snoc _ _ List.nodup_range (fun l _ => ?_)
    exact (neighborsN3_sorted x l).map _ (fun a b hab h => by simp at h; omega)
  · exact nodup_flatMap_snoc _ _ List.nodup_range
      (fun l _ => (listCombs_nodup (neighborsN3_sorted x l) _).filter _)
  · exact nodup_flatMap_snoc _ _ List.nodup_range
      (fun l _ => (listCombs_nodup (neighborsN3_sorted x l) _).filter _)

/-! ## E5. `flat` / `unflat` and `nonzeroAtomic` -/

theorem pairwiseNear_iff_pairwise {x : CutoffIn} (hsym : ∀ i j, x.d i j = x.d j i)
    {l : List Nat} (hrefl : ∀ a ∈ l, near x a a) :
    pairwiseNear x l ↔ l.Pairwise (near x) := by
  constructor
  · intro h; exact List.pairwise_of_forall_mem_list h
  · intro hP a ha b hb
    exact List.Pairwise.forall_of_forall_of_flip hrefl hP (hP.imp (fun h => near_symm hsym h)) ha hb

theorem nonzeroAtomic_getD (ops : CutoffOps) (x : CutoffIn) (n t : Nat) (ht : t < x.N ^ n) :
    (x.nonzeroAtomic ops n).getD t false =
      (let atoms := unflat x.N n t
       let i := atoms.headD 0
       let rest := atoms.drop 1
       let tests := if n == 3 then ops.nonzero3 else if n == 4 then ops.nonzero4 else []
       rest.all (fun j => (x.neighbors ops i).contains j) && x.pairsOK tests rest) := by
  simp [CutoffIn.nonzeroAtomic, Array.getD, ht]

/-- hypothesis-free form of E5 -/
theorem nonzeroAtomic_raw {x : CutoffIn} {n : Nat} (hn : n = 2 ∨ n = 3 ∨ n = 4)
    {i : Nat} {rest : List Nat} (hlen : (i :: rest).length = n) (hlt : ∀ a ∈ i :: rest, a < x.N) :
    (x.nonzeroAtomic Gen.cutoffOps n).getD (flat x.N (i :: rest)) false = true ↔
      (∀ j ∈ rest, near x i j) ∧ rest.Pairwise (near x) := by
  have hflt := flat_lt_pow hlt
  have hun := unflat_flat hlt
  rw [hlen] at hflt hun
  rw [nonzeroAtomic_getD _ _ _ _ hflt]
  simp only [hun, List.headD_cons, List.drop_one, List.tail_cons, Bool.and_eq_true,
    List.all_eq_true, List.contains_iff_mem, mem_neighbors]
  have hrest : ∀ j ∈ rest, j < x.N := fun j hj => hlt j (by simp [hj])
  have h1 : (∀ j ∈ rest, j < x.N ∧ near x i j) ↔ (∀ j ∈ rest, near x i j) :=
    ⟨fun h j hj => (h j hj).2, fun h j hj => ⟨hrest j hj, h j hj⟩⟩
  rw [h1]
  rcases hn with rfl | rfl | rfl
  · match rest, hlen with
    | [j], _ => simp [CutoffIn.pairsOK]
  · have : rest.length = 2 := by simpa using hlen
    have := pairsOK_comb3 x this
    simp only [show Gen.cutoffOps.comb3 = Gen.cutoffOps.nonzero3 from rfl] at this
    simp [this]
  · have : rest.length = 3 := by simpa using hlen
    have := pairsOK_comb4 x this
    simp only [show Gen.cutoffOps.comb4 = Gen.cutoffOps.nonzero4 from rfl] at this
    simp [this]

/-- **E5** -/
theorem nonzeroAtomic_iff {x : CutoffIn}
    (hsym : ∀ i j, x.d i j = x.d j i) (hself : ∀ i, i < x.N → x.d i i < x.cutoff)
    {n : Nat} (hn : n = 2 ∨ n = 3 ∨ n = 4)
    {atoms : List Nat} (hlen : atoms.length = n) (hlt : ∀ a ∈ atoms, a < x.N) :
    (x.nonzeroAtomic Gen.cutoffOps n).getD (flat x.N atoms) false = true ↔
      pairwiseNear x atoms := by
  rw [pairwiseNear_iff_pairwise hsym (fun a ha => hself a (hlt a ha))]
  match atoms, hlen, hlt with
  | i :: rest, hlen, hlt =>
    rw [nonzeroAtomic_raw hn hlen hlt, List.pairwise_cons]
  | [], hlen, _ => simp at hlen; omega


/-! ## E6. consistency of `combinations` and `nonzeroAtomic` -/

/-- `nonzeroAtomic` with no hypotheses on the distance matrix: the flag is set iff
    `near (earlier atom) (later atom)` for all position pairs. -/
theorem nonzeroAtomic_iff_pairwise {x : CutoffIn} {n : Nat} (hn : n = 2 ∨ n = 3 ∨ n = 4)
    {atoms : List Nat} (hlen : atoms.length = n) (hlt : ∀ a ∈ atoms, a < x.N) :
    (x.nonzeroAtomic Gen.cutoffOps n).getD (flat x.N atoms) false = true ↔
      atoms.Pairwise (near x) := by
  match atoms, hlen, hlt with
  | i :: rest, hlen, hlt => rw [nonzeroAtomic_raw hn hlen hlt, List.pairwise_cons]
  | [], hlen, _ => simp at hlen; omega

/-- under symmetry alone, the raw test of `combinations` is `Pairwise near` on the atoms -/
theorem rawNear_iff_pairwise {x : CutoffIn} (hsym : ∀ i j, x.d i j = x.d j i)
    {c : List Nat} (hne : c ≠ []) :
    rawNear x c ↔ (c.map (· / 3)).Pairwise (near x) := by
  constructor
  · rintro ⟨pre, last, rfl, h1, h2⟩
    rw [List.map_append, List.pairwise_append]
    refine ⟨h1, by simp, ?_⟩
    intro a ha b hb
    simp at hb; subst hb
    obtain ⟨e, he, rfl⟩ := List.mem_map.mp ha
    exact near_symm hsym (h2 e he)
  · intro h
    refine ⟨c.dropLast, c.getLast hne, (List.dropLast_concat_getLast hne).symm, ?_, ?_⟩
    all_goals
      rw [← List.dropLast_concat_getLast hne, List.map_append, List.pairwise_append] at h
    · exact h.1
    · intro e he
      exact near_symm hsym (h.2.2 _ (List.mem_map.mpr ⟨e, he, rfl⟩) _ (by simp))

theorem mem_combinations_pairwise {x : CutoffIn} (hsym : ∀ i j, x.d i j = x.d j i)
    {k : Nat} (hk : k = 2 ∨ k = 3 ∨ k = 4) {c : List Nat} :
    c ∈ x.combinations Gen.cutoffOps k ↔
      c.length = k ∧ c.Pairwise (· < ·) ∧ (∀ e ∈ c, e < 3 * x.N) ∧
        (c.map (· / 3)).Pairwise (near x) := by
  rw [mem_combinations_raw hk]
  constructor
  · rintro ⟨h1, h2, h3, h4⟩
    have hne : c ≠ [] := by rintro rfl; simp at h1; omega
    exact ⟨h1, h2, h3, (rawNear_iff_pairwise hsym hne).mp h4⟩
  · rintro ⟨h1, h2, h3, h4⟩
    have hne : c ≠ [] := by rintro rfl; simp at h1; omega
    exact ⟨h1, h2, h3, (rawNear_iff_pairwise hsym hne).mpr h4⟩

/-- **E6** (only symmetry of the distance matrix is needed) -/
theorem mem_combinations_iff_nonzeroAtomic {x : CutoffIn}
    (hsym : ∀ i j, x.d i j = x.d j i)
    {k : Nat} (hk : k = 2 ∨ k = 3 ∨ k = 4) {c : List Nat}
    (hlen : c.length = k) (hinc : c.Pairwise (· < ·)) (hlt : ∀ e ∈ c, e < 3 * x.N) :
    c ∈ x.combinations Gen.cutoffOps k ↔
      (x.nonzeroAtomic Gen.cutoffOps k).getD (flat x.N (c.map (· / 3))) false = true := by
  rw [mem_combinations_pairwise hsym hk,
    nonzeroAtomic_iff_pairwise hk (atoms := c.map (· / 3)) (by simpa using hlen)]
  · exact ⟨fun h => h.2.2.2, fun h => ⟨hlen, hinc, hlt, h⟩⟩
  · intro a ha
    obtain ⟨e, he, rfl⟩ := List.mem_map.mp ha
    have := hlt e he
    omega

/-! ## E7. monotonicity and the no-cutoff limit -/

theorem rawNear_mono {x x' : CutoffIn} (h : ∀ i j, near x i j → near x' i j) {c : List Nat} :
    rawNear x c → rawNear x' c := by
  rintro ⟨pre, last, rfl, h1, h2⟩
  exact ⟨pre, last, rfl, h1.imp (h _ _), fun e he => h _ _ (h2 e he)⟩

theorem combinations_mono {x x' : CutoffIn} (hN : x'.N = x.N)
    (h : ∀ i j, near x i j → near x' i j) {k : Nat} (hk : k = 2 ∨ k = 3 ∨ k = 4)
    {c : List Nat} (hc : c ∈ x.combinations Gen.cutoffOps k) :
    c ∈ x'.combinations Gen.cutoffOps k := by
  rw [mem_combinations_raw hk] at hc ⊢
  obtain ⟨h1, h2, h3, h4⟩ := hc
  exact ⟨h1, h2, by rw [hN]; exact h3, rawNear_mono h h4⟩

theorem mem_combinations_of_all_near {x : CutoffIn}
    (hall : ∀ i j, i < x.N → j < x.N → near x i j)
    {k : Nat} (hk : k = 2 ∨ k = 3 ∨ k = 4) {c : List Nat} :
    c ∈ x.combinations Gen.cutoffOps k ↔ c ∈ entireCombinations (3 * x.N) k := by
  rw [mem_combinations_raw hk, mem_entireCombinations]
  constructor
  · rintro ⟨h1, h2, h3, _⟩; exact ⟨h1, h2, h3⟩
  · rintro ⟨h1, h2, h3⟩
    have hne : c ≠ [] := by rintro rfl; simp at h1; omega
    have hat : ∀ e ∈ c, e / 3 < x.N := fun e he => by have := h3 e he; omega
    refine ⟨h1, h2, h3, c.dropLast, c.getLast hne, (List.dropLast_concat_getLast hne).symm, ?_, ?_⟩
    · apply List.pairwise_of_forall_mem_list
      intro a ha b hb
      obtain ⟨e, he, rfl⟩ := List.mem_map.mp ha
      obtain ⟨f, hf, rfl⟩ := List.mem_map.mp hb
      exact hall _ _ (hat e (List.dropLast_subset _ he)) (hat f (List.dropLast_subset _ hf))
    · intro e he
      exact hall _ _ (hat _ (List.getLast_mem hne)) (hat e (List.dropLast_subset _ he))

theorem combinations_perm_entire {x : CutoffIn}
    (hall : ∀ i j, i < x.N → j < x.N → near x i j)
    {k : Nat} (hk : k = 2 ∨ k = 3 ∨ k = 4) :
    (x.combinations Gen.cutoffOps k).Perm (entireCombinations (3 * x.N) k) :=
  (List.perm_ext_iff_of_nodup (combinations_nodup x hk) (entireCombinations_nodup _ _)).mpr
    (fun _ => mem_combinations_of_all_near hall hk)

/-! ## E8. `getCombinations` -/

theorem mem_getCombinations_some {ops : CutoffOps} {N order : Nat} {cut : Option CutoffIn}
    {ia : List Nat} {c : List Nat} :
    c ∈ getCombinations ops N order cut (some ia) ↔
      c ∈ getCombinations ops N order cut none ∧ c.headD 0 / 3 ∈ ia := by
  simp [getCombinations, List.mem_filter]

theorem getCombinations_none_none (ops : CutoffOps) (N order : Nat) :
    getCombinations ops N order none none = entireCombinations (3 * N) order := rfl

theorem getCombinations_some_none (ops : CutoffOps) (N order : Nat) (x : CutoffIn) :
    getCombinations ops N order (some x) none = x.combinations ops order := rfl

/-! ## Non-vacuity examples -/

/-- three atoms on a line: 0–1 and 1–2 are near, 0–2 is not -/
def exCut : CutoffIn := { N := 3, dist := #[#[0, 1, 5], #[1, 0, 1], #[5, 1, 0]], cutoff := 2 }

theorem exCut_sym : ∀ i j, exCut.d i j = exCut.d j i := by
  intro i j
  rcases i with _ | _ | _ | i <;> rcases j with _ | _ | _ | j <;> simp [CutoffIn.d, exCut]

theorem exCut_self : ∀ i, i < exCut.N → exCut.d i i < exCut.cutoff := by
  intro i hi
  rcases i with _ | _ | _ | i
  · decide
  · decide
  · decide
  · have : exCut.N = 3 := rfl
    omega

example : near exCut 0 1 ∧ near exCut 1 2 ∧ ¬ near exCut 0 2 := by decide

example : exCut.combinations Gen.cutoffOps 3 =
    [[0, 1, 2], [0, 1, 3], [0, 2, 3], [1, 2, 3], [0, 1, 4], [0, 2, 4], [0, 3, 4], [1, 2, 4],
     [1, 3, 4], [2, 3, 4], [0, 1, 5], [0, 2, 5], [0, 3, 5], [0, 4, 5], [1, 2, 5], [1, 3, 5],
     [1, 4, 5], [2, 3, 5], [2, 4, 5], [3, 4, 5], [3, 4, 6], [3, 5, 6], [4, 5, 6], [3, 4, 7],
     [3, 5, 7], [3, 6, 7], [4, 5, 7], [4, 6, 7], [5, 6, 7], [3, 4, 8], [3, 5, 8], [3, 6, 8],
     [3, 7, 8], [4, 5, 8], [4, 6, 8], [4, 7, 8], [5, 6, 8], [5, 7, 8], [6, 7, 8]] := by decide

example : (exCut.combinations Gen.cutoffOps 2).length = 27 ∧
    (exCut.combinations Gen.cutoffOps 3).length = 39 ∧
    (exCut.combinations Gen.cutoffOps 4).length = 30 ∧
    (entireCombinations 9 3).length = 84 := by decide

example : [0, 4, 8] ∉ exCut.combinations Gen.cutoffOps 3 ∧
    [0, 3, 4] ∈ exCut.combinations Gen.cutoffOps 3 := by decide

example : exCut.nonzeroAtomic Gen.cutoffOps 2 =
    #[true, true, false, true, true, true, false, true, true] := by decide

example : getCombinations Gen.cutoffOps 3 3 (some exCut) (some [2]) = [[6, 7, 8]] := by decide

/-- E4 instantiated at the concrete example (hypotheses are satisfiable) -/
example (c : List Nat) : c ∈ exCut.combinations Gen.cutoffOps 3 ↔
    c.length = 3 ∧ c.Pairwise (· < ·) ∧ (∀ e ∈ c, e < 3 * exCut.N) ∧
      pairwiseNear exCut (c.map (· / 3)) :=
  mem_combinations exCut_sym exCut_self (Or.inr (Or.inl rfl))



end Symfc
