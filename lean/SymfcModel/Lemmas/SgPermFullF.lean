/-
  Lemmas/SgPermFullF.lean — the lattice-translation hypothesis of B4 stated on the OPERATIONS of the list
  ("exactly one identity-rotation operation k has t_k ≡ t_i − t_first(i)") implies the form on `pure_trans`.
-/
import SymfcModel.Lemmas.SgPermFullD
namespace Symfc.SgPermFull
open Symfc

/-- a filter keeps exactly one entry iff exactly one index satisfies the predicate -/
theorem filter_length_one_iff {α : Type} (Q : α → Bool) (d : α) : ∀ l : List α,
    (l.filter Q).length = 1 ↔ ∃ k, k < l.length ∧ Q (l.getD k d) = true ∧
      ∀ k', k' < l.length → Q (l.getD k' d) = true → k' = k := by
  intro l
  induction l with
  | nil => simp
  | cons a t ih =>
    by_cases hq : Q a = true
    · rw [List.filter_cons_of_pos hq]
      simp only [List.length_cons]
      constructor
      · intro h
        have hnil : t.filter Q = [] := List.eq_nil_of_length_eq_zero (by omega)
        rw [List.filter_eq_nil_iff] at hnil
        refine ⟨0, by simp, by simpa using hq, ?_⟩
        intro k' hk' hqk'
        cases k' with
        | zero => rfl
        | succ k' =>
          exfalso
          have hk'' : k' < t.length := by simpa using hk'
          exact hnil (t.getD k' d) (getD_mem _ _ _ hk'') (by simpa using hqk')
      · rintro ⟨k, hk, hqk, huniq⟩
        have hk0 : 0 = k := huniq 0 (by simp) (by simpa using hq)
        subst hk0
        have : t.filter Q = [] := by
          rw [List.filter_eq_nil_iff]
          intro x hx hqx
          obtain ⟨k', hk', rfl⟩ := List.getElem_of_mem hx
          have := huniq (k' + 1) (by simpa using hk') (by
            simpa [List.getD_eq_getElem?_getD, hk'] using hqx)
          omega
        rw [this]; rfl
    · rw [List.filter_cons_of_neg hq, ih]
      constructor
      · rintro ⟨k, hk, hqk, hu⟩
        refine ⟨k + 1, by simpa using hk, by simpa using hqk, ?_⟩
        intro k' hk' hqk'
        cases k' with
        | zero => exfalso; exact hq (by simpa using hqk')
        | succ k' =>
          have := hu k' (by simpa using hk') (by simpa using hqk')
          omega
      · rintro ⟨k, hk, hqk, hu⟩
        cases k with
        | zero => exfalso; exact hq (by simpa using hqk)
        | succ k =>
          refine ⟨k, by simpa using hk, by simpa using hqk, ?_⟩
          intro k' hk' hqk'
          have := hu (k' + 1) (by simpa using hk') (by simpa using hqk')
          omega

/-- if exactly one operation of the list is a pure translation by `≡ lt`, exactly one entry of `pure_trans` is
    `≡ lt` -/
theorem unique_pure_of_unique_op (S : Int) (rots : List (List (List Int))) (trans : List (List Int))
    (htrans : ∀ t ∈ trans, t.length = 3) (hn : rots.length = trans.length) (lt : List Int) (hlt : lt.length = 3)
    (h : ∃ k, k < rots.length ∧ isIdentity (rots.getD k []) = true ∧ Cong S (trans.getD k []) lt ∧
      ∀ k', k' < rots.length → isIdentity (rots.getD k' []) = true → Cong S (trans.getD k' []) lt → k' = k) :
    ∃ l, l < (pureTranslations rots trans).length ∧ Cong S ((pureTranslations rots trans).getD l []) lt ∧
      ∀ l', l' < (pureTranslations rots trans).length →
        Cong S ((pureTranslations rots trans).getD l' []) lt → l' = l := by
  have hzl : (rots.zip trans).length = rots.length := by rw [List.length_zip]; omega
  have hget : ∀ k, k < rots.length →
      (rots.zip trans).getD k ([], []) = (rots.getD k [], trans.getD k []) :=
    fun k hk => getD_zip_lt _ _ k hk (hn ▸ hk) [] []
  have hsc : ∀ k, k < rots.length → (sameSite S (trans.getD k []) lt = true ↔ Cong S (trans.getD k []) lt) :=
    fun k hk => sameSite_iff_cong S _ _ ((htrans _ (getD_mem _ _ _ (hn ▸ hk))).trans hlt.symm)
  -- exactly one operation satisfies both predicates
  have h1 : ((rots.zip trans).filter (fun op => isIdentity op.1 && sameSite S op.2 lt)).length = 1 := by
    rw [filter_length_one_iff _ ([], [])]
    obtain ⟨k, hk, hid, hc, hu⟩ := h
    refine ⟨k, hzl ▸ hk, ?_, ?_⟩
    · rw [hget k hk]
      simp only [Bool.and_eq_true]
      exact ⟨hid, (hsc k hk).mpr hc⟩
    · intro k' hk' hq
      rw [hzl] at hk'
      rw [hget k' hk'] at hq
      simp only [Bool.and_eq_true] at hq
      exact hu k' hk' hq.1 ((hsc k' hk').mp hq.2)
  have h2 : (((rots.zip trans).filter (fun op => isIdentity op.1)).filter
      (fun op => sameSite S op.2 lt)).length = 1 := by
    rw [List.filter_filter]
    have : (fun a : List (List Int) × List Int => sameSite S a.2 lt && isIdentity a.1) =
        (fun op => isIdentity op.1 && sameSite S op.2 lt) := by
      funext a; exact Bool.and_comm _ _
    rw [this]; exact h1
  rw [filter_length_one_iff _ ([], [])] at h2
  obtain ⟨l, hl, hq, hu⟩ := h2
  have hpl : (pureTranslations rots trans).length =
      ((rots.zip trans).filter (fun op => isIdentity op.1)).length := by simp [pureTranslations]
  have hpg : ∀ j, j < ((rots.zip trans).filter (fun op => isIdentity op.1)).length →
      (pureTranslations rots trans).getD j [] =
        (((rots.zip trans).filter (fun op => isIdentity op.1)).getD j ([], [])).2 :=
    fun j hj => getD_map_lt _ _ j hj ([], []) []
  have hlen3 : ∀ j, j < (pureTranslations rots trans).length →
      ((pureTranslations rots trans).getD j []).length = lt.length := by
    intro j hj
    obtain ⟨k, _, hk, _, he⟩ := mem_pureTranslations rots trans _ (getD_mem _ [] j hj)
    rw [← he, hlt]; exact htrans _ (getD_mem _ _ _ hk)
  refine ⟨l, hpl ▸ hl, ?_, ?_⟩
  · rw [← sameSite_iff_cong S _ _ (hlen3 l (hpl ▸ hl)), hpg l hl]; exact hq
  · intro l' hl' hc
    apply hu l' (hpl ▸ hl')
    rw [← hpg l' (hpl ▸ hl')]
    exact (sameSite_iff_cong S _ _ (hlen3 l' hl')).mpr hc

end Symfc.SgPermFull
