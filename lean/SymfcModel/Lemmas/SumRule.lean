/-
  Lemmas/SumRule.lean — structure of the COO entries of `c_sum_cplmt` (`sumRuleBatch`):
    A1  rows = (Cartesian offset x, rest of the tuple); each row lists the class-space columns
        of the tuples `(i :: rest)`, `i` passing the mask
    A2  these columns are pairwise distinct (well-formed cell, n ≥ 2)
    A3  batch independence
    A4  fast vs stable, no cutoff
-/
import SymfcModel.Model.SumRule
import SymfcModel.Lemmas.Batch
import SymfcModel.Lemmas.TupleAux
namespace Symfc
namespace SumRule

/-! ### A1 — arithmetic of the row index -/

/-- `(x * size + q) / N = x * (size / N) + q / N` when `N ∣ size` -/
theorem row_index_split {N size x q : Nat} (hd : N ∣ size) :
    (x * size + q) / N = x * (size / N) + q / N := by
  rcases Nat.eq_zero_or_pos N with h0 | hN
  · subst h0; simp
  · obtain ⟨M, rfl⟩ := hd
    rw [Nat.mul_div_cancel_left _ hN, Nat.mul_left_comm, Nat.mul_add_div hN]

/-- A1 (arithmetic core): inside one batch of `size` positions, `N ∣ size`, two entries `(x, q)`, `(x', q')`
    have the same row index iff they have the same Cartesian offset and `q / N = q' / N`. -/
theorem row_index_eq_iff {N size x x' q q' : Nat} (hd : N ∣ size) (hq : q < size) (hq' : q' < size) :
    (x * size + q) / N = (x' * size + q') / N ↔ x = x' ∧ q / N = q' / N := by
  rw [row_index_split hd, row_index_split hd]
  have hN : 0 < N := by
    rcases Nat.eq_zero_or_pos N with h0 | hN
    · subst h0; obtain ⟨M, rfl⟩ := hd; simp at hq
    · exact hN
  obtain ⟨M, rfl⟩ := hd
  rw [Nat.mul_div_cancel_left _ hN]
  have h1 : q / N < M := (Nat.div_lt_iff_lt_mul hN).2 (by rw [Nat.mul_comm]; exact hq)
  have h2 : q' / N < M := (Nat.div_lt_iff_lt_mul hN).2 (by rw [Nat.mul_comm]; exact hq')
  constructor
  · intro e
    exact mul_add_inj h1 h2 e
  · rintro ⟨rfl, e⟩; rw [e]

/-! ### A1 — the tuple behind a transposed position -/

theorem sumRuleTuple_succ (N k p : Nat) :
    sumRuleTuple N (k + 1) p = (p % N) :: unflat N k (p / N) := by
  simp [sumRuleTuple, unflat_succ]

/-- `p = flat (rest ++ [i])` is the transposed position of the tuple `i :: rest` -/
theorem sumRuleTuple_flat {N n i : Nat} {rest : List Nat} (hlen : rest.length + 1 = n)
    (hi : i < N) (hrest : ∀ d ∈ rest, d < N) :
    sumRuleTuple N n (flat N (rest ++ [i])) = i :: rest := by
  subst hlen
  rw [sumRuleTuple_succ, flat_snoc]
  have hN : 0 < N := by omega
  rw [Nat.mul_comm, Nat.mul_add_mod, Nat.mod_eq_of_lt hi, Nat.mul_add_div hN, Nat.div_eq_of_lt hi,
    Nat.add_zero, unflat_flat hrest]

/-- position `b + (k*N + i)` of a batch beginning at a multiple of `N` -/
theorem sumRuleTuple_block {N n b k i : Nat} (hn : 1 ≤ n) (hb : N ∣ b) (hi : i < N) :
    sumRuleTuple N n (b + (k * N + i)) = i :: unflat N (n - 1) (b / N + k) := by
  obtain ⟨m, rfl⟩ : ∃ m, n = m + 1 := ⟨n - 1, by omega⟩
  have hN : 0 < N := by omega
  obtain ⟨b', rfl⟩ := hb
  rw [sumRuleTuple_succ, Nat.mul_div_cancel_left _ hN, Nat.add_sub_cancel]
  have e : N * b' + (k * N + i) = N * (b' + k) + i := by
    rw [Nat.mul_add, Nat.mul_comm k N, Nat.add_assoc]
  rw [e, Nat.mul_add_mod, Nat.mod_eq_of_lt hi, Nat.mul_add_div hN, Nat.div_eq_of_lt hi, Nat.add_zero]

theorem unflat_inj {N k a b : Nat} (ha : a < N ^ k) (hb : b < N ^ k)
    (e : unflat N k a = unflat N k b) : a = b := by
  rw [← flat_unflat ha, ← flat_unflat hb, e]

/-- inside a batch beginning at a multiple of `N`, `q / N = q' / N` iff the two positions have the same `rest`
    (the tuple without its first atom) -/
theorem sumRuleTuple_tail_eq_iff {N n b q q' : Nat} (hn : 1 ≤ n) (hb : N ∣ b)
    (hq : b + q < N ^ n) (hq' : b + q' < N ^ n) :
    (sumRuleTuple N n (b + q)).tail = (sumRuleTuple N n (b + q')).tail ↔ q / N = q' / N := by
  have hN := pow_pos_of_lt hn hq
  obtain ⟨m, rfl⟩ : ∃ m, n = m + 1 := ⟨n - 1, by omega⟩
  obtain ⟨b', rfl⟩ := hb
  rw [sumRuleTuple_succ, sumRuleTuple_succ, List.tail_cons, List.tail_cons,
    Nat.mul_add_div hN, Nat.mul_add_div hN]
  rw [Nat.pow_succ] at hq hq'
  have h1 : b' + q / N < N ^ m := by
    rw [← Nat.mul_add_div hN]; exact (Nat.div_lt_iff_lt_mul hN).2 hq
  have h2 : b' + q' / N < N ^ m := by
    rw [← Nat.mul_add_div hN]; exact (Nat.div_lt_iff_lt_mul hN).2 hq'
  constructor
  · intro e; have := unflat_inj h1 h2 e; omega
  · intro e; rw [e]

/-- A1: two entries `(x, q)`, `(x', q')` of the batch `[b, e)` (`N ∣ b`, `N ∣ e - b`, `e ≤ N^n`) have the same row
    index iff they have the same Cartesian offset and the same `rest` -/
theorem sumRuleBatch_same_row_iff {N n b e x x' q q' : Nat} (hn : 1 ≤ n) (hb : N ∣ b) (he : N ∣ e - b)
    (hle : e ≤ N ^ n) (hq : q < e - b) (hq' : q' < e - b) :
    (x * (e - b) + q) / N = (x' * (e - b) + q') / N ↔
      x = x' ∧ (sumRuleTuple N n (b + q)).tail = (sumRuleTuple N n (b + q')).tail := by
  rw [row_index_eq_iff he hq hq',
    sumRuleTuple_tail_eq_iff hn hb (by omega : b + q < N ^ n) (by omega : b + q' < N ^ n)]

/-! ### A1 — the rows of one batch -/

/-- the mask of `sumRuleBatch` as a predicate on the original tuple `t = i :: rest` -/
def mask (N : Nat) (nzCut : Option (Array Bool)) (cfg : SumRuleCfg) (indep : List Nat)
    (t : List Nat) : Bool :=
  (!cfg.indepMask || indep.contains (t.getD 1 0)) &&
    (match nzCut with | none => true | some nz => nz.getD (flat N t) false)

/-- the row `(rest, x)` of `c_sum_cplmt`: class-space columns of the tuples `i :: rest`, `i` passing the mask -/
def rowCols (N n : Nat) (ad : Array Nat) (nzCut : Option (Array Bool)) (cfg : SumRuleCfg)
    (indep : List Nat) (rest : List Nat) (x : Nat) : List Nat :=
  ((List.range N).filter (fun i => mask N nzCut cfg indep (i :: rest))).map
    (fun i => x + ad.getD (flat N (i :: rest)) 0 * 3 ^ n)

/-- positions of the batch passing the mask -/
def batchQs (N n : Nat) (nzCut : Option (Array Bool)) (cfg : SumRuleCfg) (indep : List Nat)
    (b e : Nat) : List Nat :=
  (List.range (e - b)).filter (fun q => mask N nzCut cfg indep (sumRuleTuple N n (b + q)))

/-- `sumRuleBatch` unfolded, with the row index split (`N ∣ e - b`) -/
theorem sumRuleBatch_eq (c : Cell) (n : Nat) (ad : Array Nat) (nzCut : Option (Array Bool))
    (cfg : SumRuleCfg) (indep : List Nat) (b e : Nat) (he : c.N ∣ e - b) :
    sumRuleBatch c n ad nzCut cfg indep b e =
      if cfg.indepMask && (batchQs c.N n nzCut cfg indep b e).isEmpty then none
      else some ((List.range (3 ^ n)).flatMap (fun x =>
        (batchQs c.N n nzCut cfg indep b e).map (fun q =>
          (x * ((e - b) / c.N) + q / c.N,
            x + ad.getD (flat c.N (sumRuleTuple c.N n (b + q))) 0 * 3 ^ n)))) := by
  simp only [sumRuleBatch, batchQs, mask, row_index_split he]
  rfl

theorem mem_batchQs_lt {N n : Nat} {nzCut : Option (Array Bool)} {cfg : SumRuleCfg} {indep : List Nat}
    {b e q : Nat} (h : q ∈ batchQs N n nzCut cfg indep b e) : q < e - b := by
  simp only [batchQs, List.mem_filter, List.mem_range] at h
  exact h.1

/-- every entry of a batch has a row index `x * M + k`, `x < 3^n`, `k < M = (e-b)/N`, and its column is the
    class-space column of a position of the row `(rest = unflat (b/N + k), x)` -/
theorem sumRuleBatch_entry (c : Cell) (n : Nat) (ad : Array Nat) (nzCut : Option (Array Bool))
    (cfg : SumRuleCfg) (indep : List Nat) (b e : Nat) (hn : 1 ≤ n) (hb : c.N ∣ b) (he : c.N ∣ e - b)
    (L : List (Nat × Nat)) (h : sumRuleBatch c n ad nzCut cfg indep b e = some L)
    (r col : Nat) (hm : (r, col) ∈ L) :
    ∃ x k, x < 3 ^ n ∧ k < (e - b) / c.N ∧ r = x * ((e - b) / c.N) + k ∧
      col ∈ rowCols c.N n ad nzCut cfg indep (unflat c.N (n - 1) (b / c.N + k)) x := by
  rw [sumRuleBatch_eq c n ad nzCut cfg indep b e he] at h
  split at h
  · cases h
  · have h' := Option.some.inj h
    subst h'
    simp only [List.mem_flatMap, List.mem_map, List.mem_range, Prod.mk.injEq] at hm
    obtain ⟨x, hx, q, hq, rfl, rfl⟩ := hm
    have hqs := mem_batchQs_lt hq
    have hN : 0 < c.N := by
      rcases Nat.eq_zero_or_pos c.N with h0 | hN
      · rw [h0] at he; obtain ⟨M, hM⟩ := he; simp at hM; omega
      · exact hN
    have hk : q / c.N < (e - b) / c.N := by
      obtain ⟨M, hM⟩ := he
      rw [hM, Nat.mul_div_cancel_left _ hN]
      exact (Nat.div_lt_iff_lt_mul hN).2 (by rw [Nat.mul_comm, ← hM]; exact hqs)
    refine ⟨x, q / c.N, hx, hk, rfl, ?_⟩
    have hqi : q = q / c.N * c.N + q % c.N := by
      rw [Nat.mul_comm]; exact (Nat.div_add_mod q c.N).symm
    have hi : q % c.N < c.N := Nat.mod_lt _ hN
    have ht := sumRuleTuple_block (N := c.N) (n := n) (b := b) (k := q / c.N) (i := q % c.N) hn hb hi
    rw [← hqi] at ht
    simp only [rowCols, List.mem_map, List.mem_filter, List.mem_range]
    refine ⟨q % c.N, ⟨hi, ?_⟩, by rw [ht]⟩
    simp only [batchQs, List.mem_filter] at hq
    rw [← ht]; exact hq.2

/-- A1: for a batch `[b, e)` with `N ∣ b`, `N ∣ e - b`, the entries with row index `x * M + k`
    (`M = (e - b) / N`, `x < 3^n`, `k < M`) are, in order, the class-space columns
    `x + ad[flat (i :: rest)] * 3^n` of the tuples `i :: rest`, `rest = unflat (b / N + k)` fixed,
    `i` ranging over the atoms passing the mask. -/
theorem sumRuleBatch_row (c : Cell) (n : Nat) (ad : Array Nat) (nzCut : Option (Array Bool))
    (cfg : SumRuleCfg) (indep : List Nat) (b e : Nat) (hn : 1 ≤ n) (hb : c.N ∣ b) (he : c.N ∣ e - b)
    (L : List (Nat × Nat)) (h : sumRuleBatch c n ad nzCut cfg indep b e = some L)
    (x k : Nat) (hx : x < 3 ^ n) (hk : k < (e - b) / c.N) :
    (L.filter (fun p => p.1 == x * ((e - b) / c.N) + k)).map Prod.snd
      = rowCols c.N n ad nzCut cfg indep (unflat c.N (n - 1) (b / c.N + k)) x := by
  rw [sumRuleBatch_eq c n ad nzCut cfg indep b e he] at h
  split at h
  · cases h
  · have h' := Option.some.inj h
    subst h'
    have hN : 0 < c.N := by
      rcases Nat.eq_zero_or_pos c.N with h0 | hN
      · rw [h0] at hk; simp at hk
      · exact hN
    generalize hM : (e - b) / c.N = M at hk ⊢
    have hsize : e - b = c.N * M := by
      obtain ⟨M', hM'⟩ := he
      rw [hM', Nat.mul_div_cancel_left _ hN] at hM
      rw [hM', hM]
    have hqM : ∀ q, q ∈ batchQs c.N n nzCut cfg indep b e → q / c.N < M := by
      intro q hq
      have := mem_batchQs_lt hq
      exact (Nat.div_lt_iff_lt_mul hN).2 (by rw [Nat.mul_comm, ← hsize]; exact this)
    rw [List.filter_flatMap, flatMap_range_single _ _ x hx]
    · -- the block of the offset `x`
      rw [List.filter_map, List.map_map]
      have e1 : (batchQs c.N n nzCut cfg indep b e).filter
            ((fun p : Nat × Nat => p.1 == x * M + k) ∘ (fun q =>
              (x * M + q / c.N,
                x + ad.getD (flat c.N (sumRuleTuple c.N n (b + q))) 0 * 3 ^ n)))
          = ((List.range c.N).map (fun i => k * c.N + i)).filter
              (fun q => mask c.N nzCut cfg indep (sumRuleTuple c.N n (b + q))) := by
        have e2 : (batchQs c.N n nzCut cfg indep b e).filter
              ((fun p : Nat × Nat => p.1 == x * M + k) ∘ (fun q =>
                (x * M + q / c.N,
                  x + ad.getD (flat c.N (sumRuleTuple c.N n (b + q))) 0 * 3 ^ n)))
            = (batchQs c.N n nzCut cfg indep b e).filter (fun q => q / c.N == k) := by
          apply List.filter_congr
          intro q _
          simp only [Function.comp]
          rw [Bool.eq_iff_iff]
          simp
        rw [e2, batchQs, List.filter_filter]
        have hk' : (k + 1) * c.N ≤ e - b := by
          rw [hsize, Nat.mul_comm]; exact Nat.mul_le_mul_left _ hk
        rw [← filter_div_range c.N (e - b) k hN hk', List.filter_filter]
        apply List.filter_congr
        intro q _
        rw [Bool.and_comm]
      rw [e1, List.filter_map, List.map_map, rowCols]
      have e3 : (List.range c.N).filter
            ((fun q => mask c.N nzCut cfg indep (sumRuleTuple c.N n (b + q))) ∘ (fun i => k * c.N + i))
          = (List.range c.N).filter
              (fun i => mask c.N nzCut cfg indep (i :: unflat c.N (n - 1) (b / c.N + k))) := by
        apply List.filter_congr
        intro i hi
        simp only [Function.comp]
        rw [sumRuleTuple_block hn hb (List.mem_range.mp hi)]
      rw [e3]
      apply List.map_congr_left
      intro i hi
      have hi' := List.mem_range.mp (List.mem_filter.mp hi).1
      simp only [Function.comp]
      rw [sumRuleTuple_block hn hb hi']
    · -- other offsets contribute nothing
      intro x' _ hne
      rw [List.filter_eq_nil_iff]
      intro p hp
      simp only [List.mem_map] at hp
      obtain ⟨q, hq, rfl⟩ := hp
      have h1 := hqM q hq
      simp only [beq_iff_eq]
      intro e'
      exact hne (mul_add_inj h1 hk e').1

/-! ### A2 — the columns of one row are pairwise distinct -/

/-- A2 (core): for a well-formed cell and `n ≥ 2`, the class of `(i :: rest)` determines `i` once `rest` is fixed:
    a translation mapping `(i :: rest)` onto `(i' :: rest)` fixes the atom `rest.head`, hence is the identity. -/
theorem class_first_atom_inj (c : Cell) (hwf : c.wf = true) (n : Nat) (hn : 2 ≤ n)
    (rest : List Nat) (hlen : rest.length = n - 1) (hlt : ∀ x, x ∈ rest → x < c.N)
    (i i' : Nat) (hi : i < c.N) (hi' : i' < c.N)
    (e : (c.atomicDecompr n).getD (flat c.N (i :: rest)) 0
        = (c.atomicDecompr n).getD (flat c.N (i' :: rest)) 0) : i = i' := by
  obtain ⟨_, _, hzero, _, _, _, hfree, _⟩ := Cell.wf_group_facts c hwf
  have hnpos : 0 < c.nlp := by assumption
  have hmem : ∀ j, j < c.N → ∀ x, x ∈ j :: rest → x < c.N := by
    intro j hj x hx
    simp only [List.mem_cons] at hx
    rcases hx with rfl | hx
    · exact hj
    · exact hlt x hx
  obtain ⟨l, hl, hmap⟩ := (Cell.atomicDecompr_eq_iff c hwf n (by omega) (i :: rest) (i' :: rest)
    (by simp [hlen]; omega) (hmem i hi) (by simp [hlen]; omega) (hmem i' hi')).mp e
  cases rest with
  | nil => simp at hlen; omega
  | cons a rest' =>
    simp only [List.map_cons, List.cons.injEq] at hmap
    obtain ⟨h1, h2, _⟩ := hmap
    have ha : a < c.N := hlt a (by simp)
    have hl0 : l = 0 := by
      apply Classical.byContradiction
      intro hne
      have := hfree l 0 hl hnpos hne a ha
      rw [hzero a ha] at this
      exact this h2.symm
    subst hl0
    rw [h1, hzero i hi]

/-- A2: the columns of the row `(rest, x)` are pairwise distinct: the row is a 0/1 vector with exactly one 1 per
    summed atom `i` (so applied to a class-space vector `v` it computes `Σ_i v[class(i, rest)·3^n + x]`). -/
theorem rowCols_nodup (c : Cell) (hwf : c.wf = true) (n : Nat) (hn : 2 ≤ n)
    (nzCut : Option (Array Bool)) (cfg : SumRuleCfg) (indep : List Nat)
    (rest : List Nat) (hlen : rest.length = n - 1) (hlt : ∀ x, x ∈ rest → x < c.N) (x : Nat) :
    (rowCols c.N n (c.atomicDecompr n) nzCut cfg indep rest x).Nodup := by
  unfold rowCols
  rw [List.Nodup, List.pairwise_map]
  have hnd : ((List.range c.N).filter (fun i => mask c.N nzCut cfg indep (i :: rest))).Nodup :=
    List.nodup_range.filter _
  refine List.Pairwise.imp_of_mem ?_ hnd
  intro i i' hi hi' hne e
  have hi1 := List.mem_range.mp (List.mem_filter.mp hi).1
  have hi2 := List.mem_range.mp (List.mem_filter.mp hi').1
  have h3 : 0 < 3 ^ n := Nat.pow_pos (by omega)
  have e' := Nat.eq_of_mul_eq_mul_right h3 (Nat.add_left_cancel e)
  exact hne (class_first_atom_inj c hwf n hn rest hlen hlt i i' hi1 hi2 e')

/-- the number of 1s in the row is the number of atoms passing the mask -/
theorem rowCols_length (N n : Nat) (ad : Array Nat) (nzCut : Option (Array Bool)) (cfg : SumRuleCfg)
    (indep : List Nat) (rest : List Nat) (x : Nat) :
    (rowCols N n ad nzCut cfg indep rest x).length
      = ((List.range N).filter (fun i => mask N nzCut cfg indep (i :: rest))).length := by
  simp [rowCols]

/-- each column occurs at most once in a row -/
theorem rowCols_count_le_one (c : Cell) (hwf : c.wf = true) (n : Nat) (hn : 2 ≤ n)
    (nzCut : Option (Array Bool)) (cfg : SumRuleCfg) (indep : List Nat)
    (rest : List Nat) (hlen : rest.length = n - 1) (hlt : ∀ x, x ∈ rest → x < c.N) (x col : Nat) :
    (rowCols c.N n (c.atomicDecompr n) nzCut cfg indep rest x).count col ≤ 1 :=
  List.nodup_iff_count.mp (rowCols_nodup c hwf n hn nzCut cfg indep rest hlen hlt x) col

/-! ### A4 — fast vs stable (no cutoff) -/

/-- stable variant, no cutoff: every `rest` gives a full row (all `N` atoms are summed) -/
theorem rowCols_stable (N n : Nat) (ad : Array Nat) (cfg : SumRuleCfg) (hcfg : cfg.indepMask = false)
    (indep : List Nat) (rest : List Nat) (x : Nat) :
    rowCols N n ad none cfg indep rest x
      = (List.range N).map (fun i => x + ad.getD (flat N (i :: rest)) 0 * 3 ^ n) := by
  have : (List.range N).filter (fun i => mask N none cfg indep (i :: rest)) = List.range N := by
    rw [List.filter_eq_self]; intro i _; simp [mask, hcfg]
  rw [rowCols, this]

/-- fast variant, no cutoff: a `rest` gives a full row if its head (the second tuple atom) is an independent atom,
    and the empty row otherwise -/
theorem rowCols_fast (N n : Nat) (ad : Array Nat) (cfg : SumRuleCfg) (hcfg : cfg.indepMask = true)
    (indep : List Nat) (rest : List Nat) (x : Nat) :
    rowCols N n ad none cfg indep rest x
      = if indep.contains (rest.getD 0 0) then
          (List.range N).map (fun i => x + ad.getD (flat N (i :: rest)) 0 * 3 ^ n)
        else [] := by
  have hm : ∀ i, mask N none cfg indep (i :: rest) = indep.contains (rest.getD 0 0) := by
    intro i; simp [mask, hcfg]
  simp only [rowCols, hm]
  split
  · next h =>
    have : (List.range N).filter (fun _ => indep.contains (rest.getD 0 0)) = List.range N := by
      rw [List.filter_eq_self]; intro i _; exact h
    rw [this]
  · next h =>
    have : (List.range N).filter (fun _ => indep.contains (rest.getD 0 0)) = [] := by
      rw [List.filter_eq_nil_iff]; intro i _; exact h
    rw [this]; rfl


/-- A4: the stable variant never skips a batch -/
theorem sumRuleBatch_stable_isSome (c : Cell) (n : Nat) (ad : Array Nat) (nzCut : Option (Array Bool))
    (cfg : SumRuleCfg) (hcfg : cfg.indepMask = false) (indep : List Nat) (b e : Nat) :
    (sumRuleBatch c n ad nzCut cfg indep b e).isSome = true := by
  simp [sumRuleBatch, hcfg]

/-! ### A3 — batch independence -/

/-- a skipped batch (`none`: fast variant, no position passes the mask) only contains empty rows -/
theorem sumRuleBatch_none_row (c : Cell) (n : Nat) (ad : Array Nat) (nzCut : Option (Array Bool))
    (cfg : SumRuleCfg) (indep : List Nat) (b e : Nat) (hn : 1 ≤ n) (hb : c.N ∣ b) (he : c.N ∣ e - b)
    (h : sumRuleBatch c n ad nzCut cfg indep b e = none)
    (x k : Nat) (hk : k < (e - b) / c.N) :
    rowCols c.N n ad nzCut cfg indep (unflat c.N (n - 1) (b / c.N + k)) x = [] := by
  rw [sumRuleBatch_eq c n ad nzCut cfg indep b e he] at h
  split at h
  · next hc =>
    simp only [Bool.and_eq_true, List.isEmpty_iff] at hc
    have hN : 0 < c.N := by
      rcases Nat.eq_zero_or_pos c.N with h0 | hN
      · rw [h0] at hk; simp at hk
      · exact hN
    have hk' : (k + 1) * c.N ≤ e - b := by
      have := (Nat.le_div_iff_mul_le hN).1 (Nat.succ_le_of_lt hk)
      exact this
    unfold rowCols
    rw [List.map_eq_nil_iff, List.filter_eq_nil_iff]
    intro i hi hm
    have hi' := List.mem_range.mp hi
    have hq : k * c.N + i ∈ batchQs c.N n nzCut cfg indep b e := by
      simp only [batchQs, List.mem_filter, List.mem_range]
      refine ⟨by rw [Nat.add_mul] at hk'; omega, ?_⟩
      rw [sumRuleTuple_block hn hb hi']; exact hm
    rw [hc.2] at hq
    simp at hq
  · cases h

/-- `sumRuleBatches` is defined for every positive batch size -/
theorem sumRuleBatches_eq (c : Cell) (n : Nat) (nzCut : Option (Array Bool)) (cfg : SumRuleCfg)
    (B : Nat) (hB : 0 < B) :
    sumRuleBatches c n nzCut cfg B = some ((batchClosed (c.N ^ n) B).map (fun p =>
      sumRuleBatch c n (c.atomicDecompr n) nzCut cfg c.indepAtoms p.1 p.2)) := by
  unfold sumRuleBatches
  rw [batchSlice_closed hB]
  rfl

/-- shape of the `j`-th batch when the batch size is a multiple `N * Bq` of `N` and the data size is `N * P` -/
theorem batch_shape {N Bq P j : Nat} (hN : 0 < N) (hlt : j * (N * Bq) < N * P) :
    (j * (N * Bq)) / N = j * Bq ∧ N ∣ j * (N * Bq) ∧
    N ∣ min ((j + 1) * (N * Bq)) (N * P) - j * (N * Bq) ∧
    (min ((j + 1) * (N * Bq)) (N * P) - j * (N * Bq)) / N = min Bq (P - j * Bq) ∧
    j * Bq < P := by
  have hb : j * (N * Bq) = N * (j * Bq) := Nat.mul_left_comm j N Bq
  have he1 : (j + 1) * (N * Bq) = N * (j * Bq + Bq) := by
    rw [Nat.add_mul, Nat.one_mul, hb, Nat.mul_add]
  have hq : j * Bq < P := by
    rw [hb] at hlt
    exact Nat.lt_of_mul_lt_mul_left hlt
  have hsub : min ((j + 1) * (N * Bq)) (N * P) - j * (N * Bq) = N * min Bq (P - j * Bq) := by
    rw [hb, he1, Nat.mul_min_mul_left, ← Nat.mul_sub]
    congr 1
    omega
  refine ⟨by rw [hb, Nat.mul_div_cancel_left _ hN], ⟨j * Bq, hb⟩, ?_, ?_, hq⟩
  · rw [hsub]; exact Nat.dvd_mul_right _ _
  · rw [hsub, Nat.mul_div_cancel_left _ hN]

/-- columns of the row `(R, x)` (`R` = flat index of `rest`) read off the output of `sumRuleBatches`
    for batch size `B`: the row sits in batch `j = R / (B / N)` at row index `x * M + (R - b / N)`. -/
def rowOf (N n B : Nat) (out : List (Option (List (Nat × Nat)))) (R x : Nat) : List Nat :=
  let j := R / (B / N)
  let b := j * B
  let e := min ((j + 1) * B) (N ^ n)
  match out.getD j none with
  | none => []
  | some L => (L.filter (fun p => p.1 == x * ((e - b) / N) + (R - b / N))).map Prod.snd

/-- A3: whatever the batch size `B` (a positive multiple of `N`, e.g. `N^(n-1) * (N / nb)`), the row `(R, x)`
    read off the output is the batch-size-independent list `rowCols … (unflat R) x` -/
theorem rowOf_eq (c : Cell) (n : Nat) (nzCut : Option (Array Bool)) (cfg : SumRuleCfg) (B : Nat)
    (hn : 1 ≤ n) (hB : 0 < B) (hd : c.N ∣ B)
    (out : List (Option (List (Nat × Nat)))) (h : sumRuleBatches c n nzCut cfg B = some out)
    (R x : Nat) (hR : R < c.N ^ (n - 1)) (hx : x < 3 ^ n) :
    rowOf c.N n B out R x
      = rowCols c.N n (c.atomicDecompr n) nzCut cfg c.indepAtoms (unflat c.N (n - 1) R) x := by
  have hN : 0 < c.N := by
    rcases Nat.eq_zero_or_pos c.N with h0 | hN
    · rw [h0] at hd; obtain ⟨M, hM⟩ := hd; simp at hM; omega
    · exact hN
  obtain ⟨Bq, rfl⟩ := hd
  have hBq : 0 < Bq := Nat.pos_of_mul_pos_left hB
  obtain ⟨m, rfl⟩ : ∃ m, n = m + 1 := ⟨n - 1, by omega⟩
  rw [Nat.add_sub_cancel] at hR ⊢
  have hpow : c.N ^ (m + 1) = c.N * c.N ^ m := by rw [Nat.pow_succ, Nat.mul_comm]
  rw [sumRuleBatches_eq c (m + 1) nzCut cfg _ hB] at h
  have hout := (Option.some.inj h).symm
  unfold rowOf
  simp only [Nat.mul_div_cancel_left _ hN]
  generalize hj : R / Bq = j
  have hjq : j * Bq ≤ R := by rw [← hj]; exact Nat.div_mul_le_self R Bq
  have hk1 : R - j * Bq < Bq := by
    have := Nat.lt_div_mul_add (a := R) hBq
    rw [hj] at this; omega
  have hlt : j * (c.N * Bq) < c.N * c.N ^ m := by
    rw [Nat.mul_left_comm]
    have : j * Bq < c.N ^ m := by omega
    exact (Nat.mul_lt_mul_left hN).2 this
  obtain ⟨h1, h2, h3, h4, h5⟩ := batch_shape hN hlt
  have hjm : j < (c.N ^ (m + 1) + c.N * Bq - 1) / (c.N * Bq) := by
    apply ceil_le_of_mul_lt hB
    rw [hpow]; exact hlt
  have hget : out.getD j none = sumRuleBatch c (m + 1) (c.atomicDecompr (m + 1)) nzCut cfg c.indepAtoms
      (j * (c.N * Bq)) (min ((j + 1) * (c.N * Bq)) (c.N ^ (m + 1))) := by
    rw [hout, batchClosed, List.getD_eq_getElem?_getD, List.getElem?_map, List.getElem?_map,
      List.getElem?_range hjm]
    rfl
  rw [hget, hpow, h1]
  have hk : R - j * Bq < (min ((j + 1) * (c.N * Bq)) (c.N * c.N ^ m) - j * (c.N * Bq)) / c.N := by
    rw [h4]; omega
  have hRk : j * (c.N * Bq) / c.N + (R - j * Bq) = R := by rw [h1]; omega
  cases hs : sumRuleBatch c (m + 1) (c.atomicDecompr (m + 1)) nzCut cfg c.indepAtoms
      (j * (c.N * Bq)) (min ((j + 1) * (c.N * Bq)) (c.N * c.N ^ m)) with
  | none =>
    have := sumRuleBatch_none_row c (m + 1) _ nzCut cfg _ _ _ (by omega) h2 h3 hs x _ hk
    rw [hRk, Nat.add_sub_cancel] at this
    exact this.symm
  | some L =>
    have := sumRuleBatch_row c (m + 1) _ nzCut cfg _ _ _ (by omega) h2 h3 L hs x _ hx hk
    rw [hRk, Nat.add_sub_cancel] at this
    exact this

/-- A3 (batch independence): the rows read off the outputs for two batch sizes coincide -/
theorem rowOf_batch_independent (c : Cell) (n : Nat) (nzCut : Option (Array Bool)) (cfg : SumRuleCfg)
    (B B' : Nat) (hn : 1 ≤ n) (hB : 0 < B) (hd : c.N ∣ B) (hB' : 0 < B') (hd' : c.N ∣ B')
    (out out' : List (Option (List (Nat × Nat))))
    (h : sumRuleBatches c n nzCut cfg B = some out) (h' : sumRuleBatches c n nzCut cfg B' = some out')
    (R x : Nat) (hR : R < c.N ^ (n - 1)) (hx : x < 3 ^ n) :
    rowOf c.N n B out R x = rowOf c.N n B' out' R x := by
  rw [rowOf_eq c n nzCut cfg B hn hB hd out h R x hR hx,
    rowOf_eq c n nzCut cfg B' hn hB' hd' out' h' R x hR hx]

/-- the batch sizes of the code, `N^(n-1) * (N / nb)` with `1 ≤ nb ≤ N`, `n ≥ 2`, qualify -/
theorem code_batch_size_ok {N nb n : Nat} (hn : 2 ≤ n) (h1 : 1 ≤ nb) (h2 : nb ≤ N) :
    0 < N ^ (n - 1) * (N / nb) ∧ N ∣ N ^ (n - 1) * (N / nb) :=
  ⟨batch_pow_pos h1 h2, batch_pow_dvd (by omega)⟩

/-- A3 (nothing else, nothing split): every entry `(r, col)` of the `j`-th batch belongs to a row `(R, x)`,
    `R < N^(n-1)`, `x < 3^n`; `j` is THE batch `R / (B / N)` of that row, `r` is THE row index used by `rowOf`,
    and `col` is one of the columns `rowOf` returns. So no row `(rest, x)` is split across two batches. -/
theorem sumRuleBatches_entry (c : Cell) (n : Nat) (nzCut : Option (Array Bool)) (cfg : SumRuleCfg) (B : Nat)
    (hn : 1 ≤ n) (hB : 0 < B) (hd : c.N ∣ B)
    (out : List (Option (List (Nat × Nat)))) (h : sumRuleBatches c n nzCut cfg B = some out)
    (j : Nat) (L : List (Nat × Nat)) (hj : out[j]? = some (some L)) (r col : Nat) (hm : (r, col) ∈ L) :
    ∃ R x, R < c.N ^ (n - 1) ∧ x < 3 ^ n ∧ j = R / (B / c.N) ∧
      r = x * ((min ((j + 1) * B) (c.N ^ n) - j * B) / c.N) + (R - j * B / c.N) ∧
      col ∈ rowOf c.N n B out R x := by
  have hN : 0 < c.N := by
    rcases Nat.eq_zero_or_pos c.N with h0 | hN
    · rw [h0] at hd; obtain ⟨M, hM⟩ := hd; simp at hM; omega
    · exact hN
  have hout := h
  rw [sumRuleBatches_eq c n nzCut cfg _ hB] at hout
  have hout := (Option.some.inj hout).symm
  obtain ⟨Bq, rfl⟩ := hd
  have hBq : 0 < Bq := Nat.pos_of_mul_pos_left hB
  obtain ⟨m, rfl⟩ : ∃ m, n = m + 1 := ⟨n - 1, by omega⟩
  have hpow : c.N ^ (m + 1) = c.N * c.N ^ m := by rw [Nat.pow_succ, Nat.mul_comm]
  rw [hout, batchClosed, List.getElem?_map, List.getElem?_map] at hj
  have hjm : j < (c.N ^ (m + 1) + c.N * Bq - 1) / (c.N * Bq) := by
    apply Classical.byContradiction
    intro hge
    rw [List.getElem?_eq_none (by simp; omega)] at hj
    simp at hj
  rw [List.getElem?_range hjm] at hj
  simp only [Option.map_some, Option.some.injEq] at hj
  have hlt : j * (c.N * Bq) < c.N * c.N ^ m := by
    rw [← hpow]; exact ceil_pred_mul_lt hjm
  obtain ⟨h1, h2, h3, h4, h5⟩ := batch_shape hN hlt
  rw [hpow] at hj
  obtain ⟨x, k, hx, hk, hr, hcol⟩ :=
    sumRuleBatch_entry c (m + 1) _ nzCut cfg _ _ _ (by omega) h2 h3 L hj r col hm
  rw [h1] at hcol
  rw [h4] at hk
  have hRlt : j * Bq + k < c.N ^ m := by omega
  have hjR : j = (j * Bq + k) / Bq := by
    rw [Nat.mul_comm, Nat.mul_add_div hBq, Nat.div_eq_of_lt (by omega), Nat.add_zero]
  refine ⟨j * Bq + k, x, by simpa using hRlt, hx, ?_, ?_, ?_⟩
  · rw [Nat.mul_div_cancel_left _ hN]; exact hjR
  · rw [hpow, h1, Nat.add_sub_cancel_left]; exact hr
  · rw [rowOf_eq c (m + 1) nzCut cfg _ (by omega) hB ⟨Bq, rfl⟩ out h _ x (by simpa using hRlt) hx]
    exact hcol

/-! ### non-vacuity: `Cell.exampleCell` (N = 8, nlp = 4, independent atoms [0, 4]), n = 2 -/

section Examples
open Cell

private def cfgFast : SumRuleCfg := ⟨true, .natom⟩
private def cfgStable : SumRuleCfg := ⟨false, .nlpNatom⟩

/-- fast: `rest = [4]` (independent) gives the full row, `rest = [5]` the empty one; stable: full row -/
example : rowCols 8 2 (exampleCell.atomicDecompr 2) none cfgFast exampleCell.indepAtoms [4] 1
    = [37, 46, 55, 64, 109, 118, 127, 136] := by decide +kernel
example : rowCols 8 2 (exampleCell.atomicDecompr 2) none cfgFast exampleCell.indepAtoms [5] 1 = [] := by
  decide +kernel
example : rowCols 8 2 (exampleCell.atomicDecompr 2) none cfgStable exampleCell.indepAtoms [5] 1
    = [46, 37, 64, 55, 118, 109, 136, 127] := by decide +kernel

/-- batch sizes 32 (= 8^1 * (8 / 2)), 64 (= 8^1 * (8 / 1)) and 8 (= 8^1 * (8 / 8)): same row `(R, x) = (4, 1)` -/
example : (sumRuleBatches exampleCell 2 none cfgFast 32).map (fun o => rowOf 8 2 32 o 4 1)
    = some [37, 46, 55, 64, 109, 118, 127, 136] := by decide +kernel
example : (sumRuleBatches exampleCell 2 none cfgFast 64).map (fun o => rowOf 8 2 64 o 4 1)
    = some [37, 46, 55, 64, 109, 118, 127, 136] := by decide +kernel
/-- with batch size 8 the fast variant skips 6 of the 8 batches -/
example : (sumRuleBatches exampleCell 2 none cfgFast 8).map (fun o => o.map Option.isSome)
    = some [true, false, false, false, true, false, false, false] := by decide +kernel

/-- the hypotheses of the theorems are satisfiable -/
example : (rowCols 8 2 (exampleCell.atomicDecompr 2) none cfgFast exampleCell.indepAtoms [4] 1).Nodup :=
  rowCols_nodup exampleCell exampleCell_wf 2 (by omega) none cfgFast _ [4] rfl (by decide) 1

example (out out' : List (Option (List (Nat × Nat))))
    (h : sumRuleBatches exampleCell 2 none cfgFast (8 ^ (2 - 1) * (8 / 2)) = some out)
    (h' : sumRuleBatches exampleCell 2 none cfgFast (8 ^ (2 - 1) * (8 / 1)) = some out') :
    rowOf 8 2 (8 ^ (2 - 1) * (8 / 2)) out 4 1 = rowOf 8 2 (8 ^ (2 - 1) * (8 / 1)) out' 4 1 :=
  rowOf_batch_independent exampleCell 2 none cfgFast _ _ (by omega)
    (code_batch_size_ok (N := 8) (by omega) (by omega) (by omega)).1
    (code_batch_size_ok (N := 8) (by omega) (by omega) (by omega)).2
    (code_batch_size_ok (N := 8) (by omega) (by omega) (by omega)).1
    (code_batch_size_ok (N := 8) (by omega) (by omega) (by omega)).2
    out out' h h' 4 1 (by decide) (by decide)

end Examples


end SumRule
end Symfc
