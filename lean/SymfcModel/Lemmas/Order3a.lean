/-
  Lemmas/Order3a.lean — model-independent part of C01 at order 3 (`.col0` representatives):

    L1  `LastCol`, `last_family_batch`   only the last batch containing a row of the family matters
    L2  `exists_last_col`, `LastCol.value`
    L3  abstract connectivity lemmas for one batch
          `conn_one_col`        one-column rows                                   (stage 1)
          `conn_three_cols`     rows `[X,Y,Z]` / `[Z,Y,X]`                         (stage 2)
          `conn_six_distinct`   six distinct values, rows `rho es j`, ≤ 3 heads    (stage 3)
          `conn_two_vals`       rows `[x,y,y,x,x,y]` / `[y,x,x,y,y,x]`             (stage 3, cyclic)
    L4  `permDecompr_spec'`     `permDecompr_spec` remembering which stage a batch comes from
-/
import SymfcModel.Lemmas.Col0
import SymfcModel.Lemmas.OrbitClosed
namespace Symfc
namespace O3

/-! ## L1 the last family batch -/

/-- "the last column wins" as a property of an array `q` relative to one batch `B`: if `e` occurs in
    column `k` of `B` and in no later column, `q[e]` is the head of a row of `B` having `e` in
    column `k` -/
def LastCol (B : List (List Nat)) (q : Array Int) (e : Nat) : Prop :=
  ∀ k, k < (B.headD []).length → (∃ R ∈ B, R.getD k 0 = e) →
    (∀ k', k < k' → k' < (B.headD []).length → ∀ R ∈ B, R.getD k' 0 ≠ e) →
    ∃ R ∈ B, R.getD k 0 = e ∧ q.getD e (-1) = Int.ofNat (R.headD 0)

theorem lastCol_writeBatch (B : List (List Nat)) (p : Array Int) (e : Nat) (he : e < p.size) :
    LastCol B (writeBatch .col0 B p) e := by
  intro k hk hex hlater
  obtain ⟨R, hR, hRe, hv⟩ := writeBatch_lastcol .col0 B p e k (-1) he hk hex hlater
  exact ⟨R, hR, hRe, hv⟩

theorem LastCol.congr {B : List (List Nat)} {q q' : Array Int} {e : Nat} (h : LastCol B q e)
    (hv : q'.getD e (-1) = q.getD e (-1)) : LastCol B q' e := by
  intro k hk hex hlater
  obtain ⟨R, hR, hRe, hq⟩ := h k hk hex hlater
  exact ⟨R, hR, hRe, hv.trans hq⟩

/-- L1: for a non-empty row `r` of a uniform, orbit-closed list of batches there is a batch `B`
    containing a row with the same elements as `r` such that the final values at all elements of
    `r` are decided by `B` alone ("last column wins" in `B`) -/
theorem last_family_batch (bs : List (List (List Nat))) (hu : UniformBatches bs)
    (hoc : OrbitClosed bs.flatten) :
    ∀ (p : Array Int) (r : List Nat), r ∈ bs.flatten → r ≠ [] → (∀ e ∈ r, e < p.size) →
      ∃ B ∈ bs, (∃ R ∈ B, ∀ x, x ∈ R ↔ x ∈ r) ∧
        ∀ e ∈ r, LastCol B (foldBatches .col0 bs p) e := by
  induction bs with
  | nil => intro p r hr; simp at hr
  | cons b rest ih =>
    intro p r hr hne hsz
    have hu' : UniformBatches rest := fun b' hb' => hu b' (List.mem_cons_of_mem _ hb')
    have hoc' : OrbitClosed rest.flatten :=
      hoc.of_subset (fun r hr => by rw [List.flatten_cons]; exact List.mem_append_right _ hr)
    rw [foldBatches_cons]
    by_cases h : ∃ r' ∈ rest.flatten, ∃ e, e ∈ r ∧ e ∈ r'
    · obtain ⟨r', hr', e, her, her'⟩ := h
      have hs : ∀ x, x ∈ r' ↔ x ∈ r :=
        hoc r' (by rw [List.flatten_cons]; exact List.mem_append_right _ hr') r hr ⟨e, her', her⟩
      obtain ⟨B, hB, ⟨R, hR, hRs⟩, hlast⟩ := ih hu' hoc' (writeBatch .col0 b p) r' hr'
        (List.ne_nil_of_mem her') (fun x hx => by rw [writeBatch_size]; exact hsz x ((hs x).mp hx))
      exact ⟨B, List.mem_cons_of_mem _ hB, ⟨R, hR, fun x => (hRs x).trans (hs x)⟩,
        fun x hx => hlast x ((hs x).mpr hx)⟩
    · have hno : ∀ e ∈ r, ∀ r' ∈ rest.flatten, e ∉ r' := fun e her r' hr' her' =>
        h ⟨r', hr', e, her, her'⟩
      have hrb : r ∈ b := by
        rw [List.flatten_cons] at hr
        rcases List.mem_append.mp hr with h1 | h1
        · exact h1
        · obtain ⟨x, xs, rfl⟩ := List.exists_cons_of_ne_nil hne
          exact absurd List.mem_cons_self (hno x List.mem_cons_self _ h1)
      refine ⟨b, List.mem_cons_self, ⟨r, hrb, fun _ => Iff.rfl⟩, fun e her => ?_⟩
      exact (lastCol_writeBatch b p e (hsz e her)).congr
        (foldBatches_frame .col0 rest _ e (-1) hu' (hno e her))

/-! ## L2 existence of the last column -/

theorem exists_last_col (B : List (List Nat)) (e : Nat) :
    ∀ n, (∃ k, k < n ∧ ∃ R ∈ B, R.getD k 0 = e) →
      ∃ k, k < n ∧ (∃ R ∈ B, R.getD k 0 = e) ∧
        ∀ k', k < k' → k' < n → ∀ R ∈ B, R.getD k' 0 ≠ e := by
  intro n
  induction n with
  | zero => rintro ⟨k, hk, _⟩; omega
  | succ n ih =>
    rintro ⟨k, hk, hex⟩
    by_cases h : ∃ R ∈ B, R.getD n 0 = e
    · exact ⟨n, by omega, h, fun k' h1 h2 => by omega⟩
    · have hkn : k < n := by
        rcases Nat.lt_or_ge k n with h1 | h1
        · exact h1
        · have : k = n := by omega
          subst this; exact absurd hex h
      obtain ⟨k0, hk0, hex0, hl0⟩ := ih ⟨k, hkn, hex⟩
      refine ⟨k0, by omega, hex0, fun k' h1 h2 R hR => ?_⟩
      by_cases hk' : k' = n
      · subst hk'; exact fun hc => h ⟨R, hR, hc⟩
      · exact hl0 k' h1 (by omega) R hR

/-- the value decided by `LastCol` for an element occurring in the batch -/
theorem LastCol.value {B : List (List Nat)} {q : Array Int} {e : Nat} (h : LastCol B q e)
    (hlen : ∀ R ∈ B, R.length = (B.headD []).length) {R0 : List Nat} (hR0 : R0 ∈ B)
    (he : e ∈ R0) :
    ∃ k R, k < (B.headD []).length ∧ R ∈ B ∧ R.getD k 0 = e ∧
      (∀ k', k < k' → k' < (B.headD []).length → ∀ R' ∈ B, R'.getD k' 0 ≠ e) ∧
      q.getD e (-1) = Int.ofNat (R.headD 0) := by
  obtain ⟨k1, hk1, hk1e⟩ := exists_getD_of_mem he
  obtain ⟨k, hk, hex, hlater⟩ := exists_last_col B e (B.headD []).length
    ⟨k1, by rw [← hlen R0 hR0]; exact hk1, R0, hR0, hk1e⟩
  obtain ⟨R, hR, hRe, hv⟩ := h k hk hex hlater
  exact ⟨k, R, hk, hR, hRe, hlater, hv⟩

/-! ## L3 abstract connectivity lemmas for one batch -/

theorem headD_eq_getD_zero (R : List Nat) : R.headD 0 = R.getD 0 0 := by
  cases R <;> rfl

theorem toNat_getD_of_linked {q : Array Int} {a b : Nat} (h : linked q a b) :
    (q.getD a (-1)).toNat = b := by
  rw [h.2]; rfl

/-- every element is linked to a "head", and the heads are mutually connected -/
theorem conn_via_heads {q : Array Int} {O : List Nat} (Hd : Nat → Prop)
    (hlink : ∀ e ∈ O, ∃ h, Hd h ∧ linked q e h)
    (hheads : ∀ h h', Hd h → Hd h' → SameComp q h h') :
    ∀ a ∈ O, ∀ b ∈ O, SameComp q a b := by
  intro a ha b hb
  obtain ⟨h1, hh1, hl1⟩ := hlink a ha
  obtain ⟨h2, hh2, hl2⟩ := hlink b hb
  exact .trans (.link hl1) (.trans (hheads h1 h2 hh1 hh2) (.symm (.link hl2)))

/-- stage 1: one-column rows -/
theorem conn_one_col {B : List (List Nat)} {q : Array Int} (hn : (B.headD []).length = 1)
    (hlen : ∀ R ∈ B, R.length = 1) {r : List Nat} (hr : r ∈ B)
    (hsz : ∀ e ∈ r, e < q.size) (hq : ∀ e ∈ r, LastCol B q e) :
    ∀ a ∈ r, ∀ b ∈ r, SameComp q a b := by
  obtain ⟨x, rfl⟩ := eq_singleton_of_length_one (hlen r hr)
  intro a ha b hb
  rw [List.mem_singleton] at ha hb
  rw [ha, hb]
  obtain ⟨R, _, hRe, hv⟩ := hq x (by simp) 0 (by omega) ⟨[x], hr, rfl⟩
    (fun k' h1 h2 => by omega)
  rw [headD_eq_getD_zero, hRe] at hv
  exact .link ⟨hsz x (by simp), hv⟩

/-- stage 2, one orientation: the rows meeting `{X, Y, Z}` are `[X,Y,Z]` (present) or `[Z,Y,X]` -/
theorem conn_three_cols_aux {B : List (List Nat)} {q : Array Int} {X Y Z : Nat}
    (hXY : X ≠ Y) (hXZ : X ≠ Z) (hYZ : Y ≠ Z)
    (hn : (B.headD []).length = 3) (hlen : ∀ R ∈ B, R.length = 3)
    (hrows : ∀ R ∈ B, (X ∈ R ∨ Y ∈ R ∨ Z ∈ R) → R = [X, Y, Z] ∨ R = [Z, Y, X])
    (hex : [X, Y, Z] ∈ B)
    (hsz : X < q.size ∧ Y < q.size ∧ Z < q.size)
    (hq : LastCol B q X ∧ LastCol B q Y ∧ LastCol B q Z) :
    ∀ a ∈ [X, Y, Z], SameComp q a X := by
  have hmem : ∀ R ∈ B, ∀ k, k < 3 → R.getD k 0 ∈ R := fun R hR k hk =>
    getD_mem_of_lt (by rw [hlen R hR]; exact hk)
  -- `Z ↦ X`
  have hZ : linked q Z X := by
    obtain ⟨R, hR, hRe, hv⟩ := hq.2.2 2 (by omega) ⟨_, hex, rfl⟩ (fun k' h1 h2 => by omega)
    have hZR : Z ∈ R := hRe ▸ hmem R hR 2 (by omega)
    rcases hrows R hR (Or.inr (Or.inr hZR)) with rfl | rfl
    · exact ⟨hsz.2.2, hv⟩
    · exact absurd hRe hXZ
  -- `Y ↦ X` or `Y ↦ Z`
  have hY : linked q Y X ∨ linked q Y Z := by
    obtain ⟨R, hR, hRe, hv⟩ := hq.2.1 1 (by omega) ⟨_, hex, rfl⟩ (fun k' h1 h2 R hR hc => by
      have hk' : k' = 2 := by omega
      subst hk'
      have hYR : Y ∈ R := hc ▸ hmem R hR 2 (by omega)
      rcases hrows R hR (Or.inr (Or.inl hYR)) with rfl | rfl
      · exact hYZ hc.symm
      · exact hXY hc)
    have hYR : Y ∈ R := hRe ▸ hmem R hR 1 (by omega)
    rcases hrows R hR (Or.inr (Or.inl hYR)) with rfl | rfl
    · exact Or.inl ⟨hsz.2.1, hv⟩
    · exact Or.inr ⟨hsz.2.1, hv⟩
  have hZX : SameComp q Z X := .link hZ
  intro a ha
  simp only [List.mem_cons, List.not_mem_nil, or_false] at ha
  rcases ha with rfl | rfl | rfl
  · exact .trans (.symm hZX) hZX
  · rcases hY with h | h
    · exact .link h
    · exact .trans (.link h) hZX
  · exact hZX

/-- stage 2: the rows meeting the three distinct values `X, Y, Z` are `[X,Y,Z]` or `[Z,Y,X]`, and
    one of them is present: `X, Y, Z` end up in one component -/
theorem conn_three_cols {B : List (List Nat)} {q : Array Int} {X Y Z : Nat}
    (hXY : X ≠ Y) (hXZ : X ≠ Z) (hYZ : Y ≠ Z)
    (hn : (B.headD []).length = 3) (hlen : ∀ R ∈ B, R.length = 3)
    (hrows : ∀ R ∈ B, (X ∈ R ∨ Y ∈ R ∨ Z ∈ R) → R = [X, Y, Z] ∨ R = [Z, Y, X])
    (hex : [X, Y, Z] ∈ B ∨ [Z, Y, X] ∈ B)
    (hsz : X < q.size ∧ Y < q.size ∧ Z < q.size)
    (hq : LastCol B q X ∧ LastCol B q Y ∧ LastCol B q Z) :
    ∀ a ∈ [X, Y, Z], ∀ b ∈ [X, Y, Z], SameComp q a b := by
  rcases hex with hex | hex
  · have h := conn_three_cols_aux hXY hXZ hYZ hn hlen hrows hex hsz hq
    exact fun a ha b hb => .trans (h a ha) (.symm (h b hb))
  · have h := conn_three_cols_aux (X := Z) (Y := Y) (Z := X) (Ne.symm hYZ) (Ne.symm hXZ)
      (Ne.symm hXY) hn hlen
      (fun R hR hm => (hrows R hR (by
        rcases hm with h | h | h
        · exact Or.inr (Or.inr h)
        · exact Or.inr (Or.inl h)
        · exact Or.inl h)).symm) hex ⟨hsz.2.2, hsz.2.1, hsz.1⟩
      ⟨hq.2.2, hq.2.1, hq.1⟩
    have hm : ∀ a, a ∈ [X, Y, Z] → a ∈ [Z, Y, X] := by
      intro a ha; simp only [List.mem_cons, List.not_mem_nil, or_false] at ha ⊢
      rcases ha with h | h | h
      · exact Or.inr (Or.inr h)
      · exact Or.inr (Or.inl h)
      · exact Or.inl h
    exact fun a ha b hb => .trans (h a (hm a ha)) (.symm (h b (hm b hb)))

/-- stage 3, cyclic stabiliser: two values; the rows meeting them are `[x,y,y,x,x,y]` (present) or
    `[y,x,x,y,y,x]` -/
theorem conn_two_vals {B : List (List Nat)} {q : Array Int} {x y : Nat} (hxy : x ≠ y)
    (hn : (B.headD []).length = 6) (hlen : ∀ R ∈ B, R.length = 6)
    (hrows : ∀ R ∈ B, (x ∈ R ∨ y ∈ R) → R = [x, y, y, x, x, y] ∨ R = [y, x, x, y, y, x])
    (hex : [x, y, y, x, x, y] ∈ B)
    (hsz : x < q.size ∧ y < q.size) (hq : LastCol B q x ∧ LastCol B q y) :
    ∀ a ∈ [x, y], ∀ b ∈ [x, y], SameComp q a b := by
  have hmem : ∀ R ∈ B, ∀ k, k < 6 → R.getD k 0 ∈ R := fun R hR k hk =>
    getD_mem_of_lt (by rw [hlen R hR]; exact hk)
  have hS : SameComp q x y := by
    by_cases h2 : [y, x, x, y, y, x] ∈ B
    · obtain ⟨R, hR, hRe, hv⟩ := hq.1 5 (by omega) ⟨_, h2, rfl⟩ (fun k' h1 h2 => by omega)
      have hxR : x ∈ R := hRe ▸ hmem R hR 5 (by omega)
      rcases hrows R hR (Or.inl hxR) with rfl | rfl
      · exact absurd hRe (Ne.symm hxy)
      · exact .link ⟨hsz.1, hv⟩
    · obtain ⟨R, hR, hRe, hv⟩ := hq.2 5 (by omega) ⟨_, hex, rfl⟩ (fun k' h1 h2 => by omega)
      have hyR : y ∈ R := hRe ▸ hmem R hR 5 (by omega)
      rcases hrows R hR (Or.inr hyR) with rfl | rfl
      · exact .symm (.link ⟨hsz.2, hv⟩)
      · exact absurd hR h2
  intro a ha b hb
  simp only [List.mem_cons, List.not_mem_nil, or_false] at ha hb
  rcases ha with rfl | rfl <;> rcases hb with rfl | rfl
  · exact .trans hS (.symm hS)
  · exact hS
  · exact .symm hS
  · exact .trans (.symm hS) hS

/-! ### stage 3, trivial stabiliser -/

/-- right-multiplication table of the six index permutations `[0,1,2], [0,2,1], [1,0,2], [1,2,0],
    [2,0,1], [2,1,0]`: `mtab[j][k]` is the number of `π_k ∘ π_j` -/
def mtab : List (List Nat) :=
  [[0, 1, 2, 3, 4, 5], [1, 0, 4, 5, 2, 3], [2, 3, 0, 1, 5, 4],
   [3, 2, 5, 4, 0, 1], [4, 5, 1, 0, 3, 2], [5, 4, 3, 2, 1, 0]]

def mt (j k : Nat) : Nat := (mtab.getD j []).getD k 0

/-- the row of the combination `(π_j · c)` translated, in terms of the row `es` of `c` -/
def rho (es : List Nat) (j : Nat) : List Nat := (mtab.getD j []).map (fun m => es.getD m 0)

theorem mtab_len : ∀ j, j < 6 → (mtab.getD j []).length = 6 := by decide
theorem mt_surj : ∀ j, j < 6 → ∀ i, i < 6 → ∃ k, k < 6 ∧ mt j k = i := by decide
theorem mt_zero : ∀ j, j < 6 → mt j 0 = j := by decide
theorem mt_lt : ∀ j, j < 6 → ∀ k, k < 6 → mt j k < 6 := by decide
theorem mt_eq_self : ∀ j, j < 6 → ∀ k, k < 6 → mt j k = j → k = 0 := by decide
theorem mt_other : ∀ j, j < 6 → ∀ j', j' < 6 → j ≠ j' → ∃ k, k < 6 ∧ 1 ≤ k ∧ mt j' k = j := by
  decide

theorem rho_getD (es : List Nat) {j k : Nat} (hj : j < 6) (hk : k < 6) :
    (rho es j).getD k 0 = es.getD (mt j k) 0 := by
  unfold rho mt
  exact OC.getD_map_of_lt _ (by rw [mtab_len j hj]; exact hk)

theorem rho_headD (es : List Nat) {j : Nat} (hj : j < 6) : (rho es j).headD 0 = es.getD j 0 := by
  rw [headD_eq_getD_zero, rho_getD es hj (by omega), mt_zero j hj]

/-- stage 3, trivial stabiliser: six distinct values `es`; every row meeting them is some
    `rho es j` with `P j`; at most one of `P 0, P 1`, of `P 2, P 3`, of `P 4, P 5` holds (so there
    are at most three heads); then all of `es` ends up in one component -/
theorem conn_six_distinct {B : List (List Nat)} {q : Array Int} {es : List Nat}
    (hes : es.length = 6) (hnd : es.Nodup) (P : Nat → Prop)
    (hn : (B.headD []).length = 6) (hlen : ∀ R ∈ B, R.length = 6)
    (hrows : ∀ R ∈ B, (∃ x ∈ R, x ∈ es) → ∃ j, j < 6 ∧ P j ∧ R = rho es j)
    (hpres : ∀ j, j < 6 → P j → rho es j ∈ B)
    (hexcl : ¬ (P 0 ∧ P 1) ∧ ¬ (P 2 ∧ P 3) ∧ ¬ (P 4 ∧ P 5))
    (hex : ∃ j, j < 6 ∧ P j)
    (hsz : ∀ e ∈ es, e < q.size) (hq : ∀ e ∈ es, LastCol B q e) :
    ∀ a ∈ es, ∀ b ∈ es, SameComp q a b := by
  have hlen' : ∀ R ∈ B, R.length = (B.headD []).length := fun R hR => by rw [hn]; exact hlen R hR
  have hesmem : ∀ i, i < 6 → es.getD i 0 ∈ es := fun i hi =>
    getD_mem_of_lt (by rw [hes]; exact hi)
  have hinj : ∀ i j, i < 6 → j < 6 → es.getD i 0 = es.getD j 0 → i = j := fun i j hi hj h =>
    (List.getD_inj (by rw [hes]; exact hi) (by rw [hes]; exact hj) hnd).mp h
  obtain ⟨j0, hj0, hPj0⟩ := hex
  -- the value at `e ∈ es`
  have hval : ∀ e ∈ es, ∃ k j, k < 6 ∧ j < 6 ∧ P j ∧ (rho es j).getD k 0 = e ∧
      (∀ k', k < k' → k' < 6 → ∀ R' ∈ B, R'.getD k' 0 ≠ e) ∧
      q.getD e (-1) = Int.ofNat (es.getD j 0) := by
    intro e he
    obtain ⟨i, hi, hie⟩ := exists_getD_of_mem he
    rw [hes] at hi
    obtain ⟨k0, hk0, hk0e⟩ := mt_surj j0 hj0 i hi
    have hin : e ∈ rho es j0 := by
      rw [← hie, ← hk0e, ← rho_getD es hj0 hk0]
      exact getD_mem_of_lt (by rw [hlen _ (hpres j0 hj0 hPj0)]; exact hk0)
    obtain ⟨k, R, hk, hR, hRe, hlater, hv⟩ := (hq e he).value hlen' (hpres j0 hj0 hPj0) hin
    rw [hn] at hk hlater
    have heR : e ∈ R := hRe ▸ getD_mem_of_lt (by rw [hlen R hR]; exact hk)
    obtain ⟨j, hj, hPj, rfl⟩ := hrows R hR ⟨e, heR, he⟩
    exact ⟨k, j, hk, hj, hPj, hRe, hlater, by rw [hv, rho_headD es hj]⟩
  let Hd : Nat → Prop := fun h => ∃ j, j < 6 ∧ P j ∧ h = es.getD j 0
  let f : Nat → Nat := fun e => (q.getD e (-1)).toNat
  have hlink : ∀ e ∈ es, Hd (f e) ∧ linked q e (f e) := by
    intro e he
    obtain ⟨k, j, _, hj, hPj, _, _, hv⟩ := hval e he
    have hl : linked q e (es.getD j 0) := ⟨hsz e he, hv⟩
    have hf : f e = es.getD j 0 := toNat_getD_of_linked hl
    rw [hf]
    exact ⟨⟨j, hj, hPj, rfl⟩, hl⟩
  have hHdmem : ∀ h, Hd h → h ∈ es := by
    rintro h ⟨j, hj, _, rfl⟩; exact hesmem j hj
  refine conn_via_heads Hd (fun e he => ⟨f e, hlink e he⟩) ?_
  intro h h' hh hh'
  -- the three possible heads
  have hthree : ∃ h1 h2 h3, ∀ h, Hd h → h = h1 ∨ h = h2 ∨ h = h3 := by
    have pick : ∀ i, i < 6 → ∃ v, ∀ j, j < 6 → P j → (j = i ∨ j = i + 1) → ¬ (P i ∧ P (i + 1)) →
        es.getD j 0 = v := by
      intro i _
      by_cases hPi : P i
      · exact ⟨es.getD i 0, fun j _ hPj hji hx => by
          rcases hji with rfl | rfl
          · rfl
          · exact absurd ⟨hPi, hPj⟩ hx⟩
      · exact ⟨es.getD (i + 1) 0, fun j _ hPj hji _ => by
          rcases hji with rfl | rfl
          · exact absurd hPj hPi
          · rfl⟩
    obtain ⟨v1, hv1⟩ := pick 0 (by omega)
    obtain ⟨v2, hv2⟩ := pick 2 (by omega)
    obtain ⟨v3, hv3⟩ := pick 4 (by omega)
    refine ⟨v1, v2, v3, ?_⟩
    rintro h ⟨j, hj, hPj, rfl⟩
    have hj' : j = 0 ∨ j = 1 ∨ j = 2 ∨ j = 3 ∨ j = 4 ∨ j = 5 := by omega
    rcases hj' with rfl | rfl | rfl | rfl | rfl | rfl
    · exact Or.inl (hv1 0 hj hPj (Or.inl rfl) hexcl.1)
    · exact Or.inl (hv1 1 hj hPj (Or.inr rfl) hexcl.1)
    · exact Or.inr (Or.inl (hv2 2 hj hPj (Or.inl rfl) hexcl.2.1))
    · exact Or.inr (Or.inl (hv2 3 hj hPj (Or.inr rfl) hexcl.2.1))
    · exact Or.inr (Or.inr (hv3 4 hj hPj (Or.inl rfl) hexcl.2.2))
    · exact Or.inr (Or.inr (hv3 5 hj hPj (Or.inr rfl) hexcl.2.2))
  obtain ⟨h1, h2, h3, hH⟩ := hthree
  refine conn_of_three (R := SameComp q) (H := Hd) f h1 h2 h3 ?_ .symm .trans ?_ hH ?_ ?_ hh hh'
  · intro h hh
    exact .refl (hlink h (hHdmem h hh)).2.covered
  · intro h hh
    exact .link (hlink h (hHdmem h hh)).2
  · intro h hh
    exact (hlink h (hHdmem h hh)).1
  · -- no fixed points as soon as there are two heads
    rintro a b ⟨ja, hja, hPja, rfl⟩ ⟨jb, hjb, hPjb, rfl⟩ hab h ⟨j, hj, hPj, rfl⟩ hfix
    -- another head `j'`
    obtain ⟨j', hj', hPj', hne⟩ : ∃ j', j' < 6 ∧ P j' ∧ j ≠ j' := by
      by_cases h1 : j = ja
      · exact ⟨jb, hjb, hPjb, fun h2 => hab (by rw [← h1, h2])⟩
      · exact ⟨ja, hja, hPja, h1⟩
    obtain ⟨k, i, hk, hi, hPi, hke, hlater, hv⟩ := hval _ (hesmem j hj)
    have hfi : f (es.getD j 0) = es.getD i 0 :=
      toNat_getD_of_linked ⟨hsz _ (hesmem j hj), hv⟩
    have hij : i = j := hinj i j hi hj (hfi.symm.trans hfix)
    subst hij
    rw [rho_getD es hi hk] at hke
    have hk0 : k = 0 := mt_eq_self i hi k hk (hinj _ _ (mt_lt i hi k hk) hi hke)
    subst hk0
    obtain ⟨k', hk', hk'1, hk'e⟩ := mt_other i hi j' hj' hne
    apply hlater k' (by omega) hk' (rho es j') (hpres j' hj' hPj')
    rw [rho_getD es hj' hk', hk'e]

/-! ## L4 `permDecompr`: which stage a batch comes from -/

/-- a batch of the model: the rows of some of the combinations of one stage -/
def IsStageBatch (N : Nat) (ad : Array Nat) (stages : List Stage)
    (combsOf : Stage → List (List Nat)) (b : List (List Nat)) : Prop :=
  ∃ st ∈ stages, ∃ cs : List (List Nat), (∀ x ∈ cs, x ∈ combsOf st) ∧
    b = cs.flatMap (stageRowsOf N ad st)

theorem stagesFold_spec' {rk : RepKind} {N : Nat} {ad : Array Nat}
    (combsOf : Stage → List (List Nat)) (nb : Stage → Nat)
    (stages : List Stage) (ptr ptr' : Array Int)
    (h : stages.foldl (fun acc st => acc.bind (fun p =>
        updatePerm N ad rk st (combsOf st) (nb st) p)) (some ptr) = some ptr') :
    ∃ bs, ptr' = foldBatches rk bs ptr ∧ UniformBatches bs ∧
      (∀ r, r ∈ bs.flatten ↔ r ∈ stages.flatMap (fun st => stageRows N ad st (combsOf st))) ∧
      ∀ b ∈ bs, IsStageBatch N ad stages combsOf b := by
  induction stages generalizing ptr with
  | nil =>
    simp only [List.foldl_nil, Option.some.injEq] at h
    exact ⟨[], h.symm, fun b hb => absurd hb List.not_mem_nil, fun r => by simp,
      fun b hb => absurd hb List.not_mem_nil⟩
  | cons st rest ih =>
    rw [List.foldl_cons, Option.bind_some] at h
    cases h1 : updatePerm N ad rk st (combsOf st) (nb st) ptr with
    | none => rw [h1, foldl_bind_none] at h; cases h
    | some p1 =>
      rw [h1] at h
      obtain ⟨sl, hsl, rfl⟩ := updatePerm_eq_foldBatches h1
      obtain ⟨bs2, rfl, hu2, hm2, hb2⟩ := ih _ h
      refine ⟨permBatches N ad st (combsOf st) sl ++ bs2, (foldBatches_append _ _ _ _).symm,
        ?_, ?_, ?_⟩
      · intro b hb
        rcases List.mem_append.mp hb with hb | hb
        · exact permBatches_uniform N ad st (combsOf st) sl b hb
        · exact hu2 b hb
      · intro r
        rw [List.flatten_append, List.mem_append, List.flatMap_cons, List.mem_append,
          mem_permBatches_flatten hsl, hm2]
        rfl
      · intro b hb
        rcases List.mem_append.mp hb with hb | hb
        · simp only [permBatches, List.mem_map] at hb
          obtain ⟨be, _, rfl⟩ := hb
          exact ⟨st, List.mem_cons_self, _,
            fun x hx => List.mem_of_mem_drop (List.mem_of_mem_take hx), rfl⟩
        · obtain ⟨st', hst', cs, hcs, rfl⟩ := hb2 b hb
          exact ⟨st', List.mem_cons_of_mem _ hst', cs, hcs, rfl⟩

/-- `permDecompr_spec` remembering the stage of every batch -/
theorem permDecompr_spec' {ops : CutoffOps} {c : Cell} {n : Nat} {rk : RepKind}
    {stages : List Stage} {cut : Option CutoffIn} {nBatch : String → Nat} {ptr' : Array Int}
    (h : permDecompr ops c n rk stages cut nBatch = some ptr') :
    ∃ bs, ptr' = foldBatches rk bs (Array.replicate (c.N ^ n * 3 ^ n / c.nlp) (-1)) ∧
      UniformBatches bs ∧ (∀ r, r ∈ bs.flatten ↔ r ∈ allStageRows ops c n stages cut) ∧
      ∀ b ∈ bs, IsStageBatch c.N (c.atomicDecompr n) stages
        (fun st => stageCombs ops c n cut st) b :=
  stagesFold_spec' (fun st => stageCombs ops c n cut st) (fun st => nBatch st.batchKey)
    stages _ ptr' h

end O3
end Symfc
