/-
  Lemmas/TupleAux.lean — small facts on `flat` / `unflat` and on lists over `List.range`
  shared by Lemmas/SumRule.lean and Lemmas/Coset.lean.
-/
import SymfcModel.Lemmas.Cell
import SymfcModel.Lemmas.CutoffBasic
namespace Symfc

theorem length_unflat (N k x : Nat) : (unflat N k x).length = k := by
  simp [unflat]

theorem mem_unflat_lt {N k x d : Nat} (hN : 0 < N) (h : d ∈ unflat N k x) : d < N := by
  simp only [unflat, List.mem_map] at h
  obtain ⟨p, _, rfl⟩ := h
  exact Nat.mod_lt _ hN

theorem flat_unflat {N k x : Nat} (hx : x < N ^ k) : flat N (unflat N k x) = x := by
  obtain ⟨t, hl, hlt, hf⟩ := flat_surj N k x hx
  have := unflat_flat (base := N) (ds := t) hlt
  rw [hl, hf] at this
  rw [this, hf]

theorem pow_pos_of_lt {N k x : Nat} (hk : 1 ≤ k) (hx : x < N ^ k) : 0 < N := by
  rcases Nat.eq_zero_or_pos N with h | h
  · subst h
    obtain ⟨q, rfl⟩ : ∃ q, k = q + 1 := ⟨k - 1, by omega⟩
    simp at hx
  · exact h

/-- `unflat` always yields a tuple when there is at least one atom -/
theorem unflat_tuple {N k x : Nat} (hN : 0 < N) :
    (unflat N k x).length = k ∧ ∀ d, d ∈ unflat N k x → d < N :=
  ⟨length_unflat N k x, fun _ h => mem_unflat_lt hN h⟩

/-! ### lists over `List.range` -/

/-- a `flatMap` over `range n` all of whose pieces but one are empty -/
theorem flatMap_range_single {β} (f : Nat → List β) (n x0 : Nat) (hx0 : x0 < n)
    (h : ∀ x, x < n → x ≠ x0 → f x = []) : (List.range n).flatMap f = f x0 := by
  have hsplit : List.range n = List.range x0 ++ x0 :: List.range' (x0 + 1) (n - (x0 + 1)) := by
    have h1 : List.range n = List.range' 0 (x0 + (n - x0)) := by
      rw [List.range_eq_range']; congr 1; omega
    rw [h1, ← List.range'_append_1, List.range_eq_range', Nat.zero_add]
    congr 1
    have : n - x0 = (n - (x0 + 1)) + 1 := by omega
    rw [this, List.range'_succ]
  rw [hsplit, List.flatMap_append, List.flatMap_cons]
  have e1 : (List.range x0).flatMap f = [] := by
    rw [List.flatMap_eq_nil_iff]
    intro x hx
    have := List.mem_range.mp hx
    exact h x (by omega) (by omega)
  have e2 : (List.range' (x0 + 1) (n - (x0 + 1))).flatMap f = [] := by
    rw [List.flatMap_eq_nil_iff]
    intro x hx
    have := List.mem_range'_1.mp hx
    exact h x (by omega) (by omega)
  rw [e1, e2]; simp

/-- the block `k` of width `N` inside `range size` -/
theorem filter_div_range (N size k : Nat) (hN : 0 < N) (hk : (k + 1) * N ≤ size) :
    (List.range size).filter (fun q => q / N == k) = (List.range N).map (fun i => k * N + i) := by
  have hsplit : List.range size
      = List.range' 0 (k * N) ++ (List.range' (k * N) N ++ List.range' (k * N + N) (size - (k * N + N))) := by
    rw [Nat.add_mul, Nat.one_mul] at hk
    have h1 : List.range size = List.range' 0 (k * N + (N + (size - (k * N + N)))) := by
      rw [List.range_eq_range']; congr 1; omega
    rw [h1, ← List.range'_append_1, ← List.range'_append_1, Nat.zero_add]
  rw [hsplit, List.filter_append, List.filter_append]
  have e1 : (List.range' 0 (k * N)).filter (fun q => q / N == k) = [] := by
    rw [List.filter_eq_nil_iff]
    intro q hq
    have hq' := List.mem_range'_1.mp hq
    have : q / N < k := (Nat.div_lt_iff_lt_mul hN).2 (by omega)
    simp; omega
  have e3 : (List.range' (k * N + N) (size - (k * N + N))).filter (fun q => q / N == k) = [] := by
    rw [List.filter_eq_nil_iff]
    intro q hq
    have hq' := List.mem_range'_1.mp hq
    have : k + 1 ≤ q / N := (Nat.le_div_iff_mul_le hN).2 (by rw [Nat.add_mul]; omega)
    simp; omega
  have e2 : (List.range' (k * N) N).filter (fun q => q / N == k) = List.range' (k * N) N := by
    rw [List.filter_eq_self]
    intro q hq
    have hq' := List.mem_range'_1.mp hq
    have h1 : q / N < k + 1 := (Nat.div_lt_iff_lt_mul hN).2 (by rw [Nat.add_mul]; omega)
    have h2 : k ≤ q / N := (Nat.le_div_iff_mul_le hN).2 (by omega)
    simp; omega
  rw [e1, e2, e3]
  simp only [List.nil_append, List.append_nil]
  rw [List.range'_eq_map_range]

end Symfc
