/-
  Lemmas/Coset.lean — integer part of the coset projector (`sigmaRep`, `cosetPairs`):
    B1  `sigmaRep` is the action of the atom permutation on flattened tuples; it is a homomorphism
    B2  a permutation normalising the translation group induces an injective map on translation classes
    B3  fast variant: one entry per class — the permutation matrix of the induced map
    B4  stable variant: every entry occurs `nlp` times
-/
import SymfcModel.Model.Coset
import SymfcModel.Lemmas.TupleAux
namespace Symfc
namespace Coset

/-! ### B1 — `sigmaRep` -/

theorem sigmaRep_none (N n : Nat) (g : Array Nat) :
    sigmaRep N n g none
      = (List.range (N ^ n)).map (fun t => flat N ((unflat N n t).map (fun a => g.getD a 0))) := by
  unfold sigmaRep
  congr 1
  rw [List.filter_eq_self]
  intro _ _; rfl

/-- B1: length -/
theorem length_sigmaRep_none (N n : Nat) (g : Array Nat) : (sigmaRep N n g none).length = N ^ n := by
  simp [sigmaRep_none]

/-- B1: the `t`-th entry is the flattened image tuple -/
theorem sigmaRep_getD (N n : Nat) (g : Array Nat) (t : Nat) (ht : t < N ^ n) :
    (sigmaRep N n g none).getD t 0 = flat N ((unflat N n t).map (fun a => g.getD a 0)) := by
  rw [sigmaRep_none, List.getD_eq_getElem?_getD, List.getElem?_map, List.getElem?_range ht]
  rfl

theorem sigmaRep_getElem (N n : Nat) (g : Array Nat) (t : Nat) (ht : t < N ^ n) :
    (sigmaRep N n g none)[t]'(by rw [length_sigmaRep_none]; exact ht)
      = flat N ((unflat N n t).map (fun a => g.getD a 0)) := by
  have := sigmaRep_getD N n g t ht
  rw [List.getD_eq_getElem?_getD, List.getElem?_eq_getElem (by rw [length_sigmaRep_none]; exact ht)] at this
  exact this

/-- B1: entries stay below `N^n` when `g` maps `range N` into itself -/
theorem sigmaRep_getD_lt (N n : Nat) (g : Array Nat) (hg : ∀ a, a < N → g.getD a 0 < N)
    (t : Nat) (ht : t < N ^ n) : (sigmaRep N n g none).getD t 0 < N ^ n := by
  rw [sigmaRep_getD N n g t ht]
  rcases Nat.eq_zero_or_pos n with h0 | hn
  · subst h0; simp [unflat, flat]
  · have hN := pow_pos_of_lt hn ht
    have := flat_lt_pow (base := N) (ds := (unflat N n t).map (fun a => g.getD a 0)) (by
      intro d hd
      simp only [List.mem_map] at hd
      obtain ⟨a, ha, rfl⟩ := hd
      exact hg a (mem_unflat_lt hN ha))
    simpa [length_unflat] using this

/-- B1: `sigmaRep` is a homomorphism: the representation of a composition is the composition of the
    representations (`gh[a] = g[h[a]]` on `range N`, `h` maps `range N` into itself). -/
theorem sigmaRep_comp (N n : Nat) (g h gh : Array Nat) (hh : ∀ a, a < N → h.getD a 0 < N)
    (hgh : ∀ a, a < N → gh.getD a 0 = g.getD (h.getD a 0) 0) (t : Nat) (ht : t < N ^ n) :
    (sigmaRep N n gh none).getD t 0
      = (sigmaRep N n g none).getD ((sigmaRep N n h none).getD t 0) 0 := by
  rw [sigmaRep_getD N n g _ (sigmaRep_getD_lt N n h hh t ht), sigmaRep_getD N n gh t ht,
    sigmaRep_getD N n h t ht]
  rcases Nat.eq_zero_or_pos n with h0 | hn
  · subst h0; simp [unflat, flat]
  · have hN := pow_pos_of_lt hn ht
    have hlt : ∀ d ∈ (unflat N n t).map (fun a => h.getD a 0), d < N := by
      intro d hd
      simp only [List.mem_map] at hd
      obtain ⟨a, ha, rfl⟩ := hd
      exact hh a (mem_unflat_lt hN ha)
    have hu := unflat_flat hlt
    rw [List.length_map, length_unflat] at hu
    rw [hu, List.map_map]
    congr 1
    apply List.map_congr_left
    intro a ha
    exact hgh a (mem_unflat_lt hN ha)

/-! ### B2 — the induced map on translation classes -/

/-- `g` (an array) maps `range N` injectively (hence bijectively) into itself and normalises the translation group -/
structure Normalises (c : Cell) (g : Array Nat) : Prop where
  into : ∀ i, i < c.N → g.getD i 0 < c.N
  inj : ∀ i j, i < c.N → j < c.N → g.getD i 0 = g.getD j 0 → i = j
  norm : ∀ l, l < c.nlp → ∃ l', l' < c.nlp ∧ ∀ i, i < c.N → g.getD (c.img l i) 0 = c.img l' (g.getD i 0)

/-- `g` is onto `range N` (pigeonhole) -/
theorem Normalises.surj {c : Cell} {g : Array Nat} (hg : Normalises c g) :
    ∀ j, j < c.N → ∃ i, i < c.N ∧ g.getD i 0 = j :=
  surj_of_inj_lt c.N (fun i => g.getD i 0) hg.into hg.inj

theorem map_tuple {c : Cell} {g : Array Nat} (hg : Normalises c g) {t : List Nat}
    (ht : ∀ x, x ∈ t → x < c.N) : ∀ x, x ∈ t.map (fun a => g.getD a 0) → x < c.N := by
  intro x hx
  simp only [List.mem_map] at hx
  obtain ⟨a, ha, rfl⟩ := hx
  exact hg.into a (ht a ha)

theorem map_inj {c : Cell} {g : Array Nat} (hg : Normalises c g) :
    ∀ (s t : List Nat), (∀ x, x ∈ s → x < c.N) → (∀ x, x ∈ t → x < c.N) →
      s.map (fun a => g.getD a 0) = t.map (fun a => g.getD a 0) → s = t := by
  intro s
  induction s with
  | nil => intro t _ _ e; cases t <;> simp_all
  | cons a s ih =>
    intro t hs ht e
    cases t with
    | nil => simp at e
    | cons b t =>
      simp only [List.map_cons, List.cons.injEq] at e
      rw [hg.inj a b (hs a (by simp)) (ht b (by simp)) e.1,
        ih t (fun x hx => hs x (by simp [hx])) (fun x hx => ht x (by simp [hx])) e.2]

/-- conjugation by `g` maps the translation group ONTO itself -/
theorem Normalises.norm_surj {c : Cell} (hwf : c.wf = true) {g : Array Nat} (hg : Normalises c g)
    (hN : 0 < c.N) :
    ∀ l', l' < c.nlp → ∃ l, l < c.nlp ∧ ∀ i, i < c.N → g.getD (c.img l i) 0 = c.img l' (g.getD i 0) := by
  obtain ⟨_, himg, _, _, _, _, hfree, _⟩ := Cell.wf_group_facts c hwf
  let f : Nat → Nat := fun l => if h : l < c.nlp then Classical.choose (hg.norm l h) else 0
  have hf : ∀ l, l < c.nlp → f l < c.nlp ∧ ∀ i, i < c.N → g.getD (c.img l i) 0 = c.img (f l) (g.getD i 0) := by
    intro l hl
    simp only [f, hl, dite_true]
    exact Classical.choose_spec (hg.norm l hl)
  have hinj : ∀ l m, l < c.nlp → m < c.nlp → f l = f m → l = m := by
    intro l m hl hm e
    apply Classical.byContradiction
    intro hne
    have h1 := (hf l hl).2 0 hN
    have h2 := (hf m hm).2 0 hN
    rw [e, ← h2] at h1
    exact hfree l m hl hm hne 0 hN (hg.inj _ _ (himg l 0 hl hN) (himg m 0 hm hN) h1)
  intro l' hl'
  obtain ⟨l, hl, e⟩ := surj_of_inj_lt c.nlp f (fun l hl => (hf l hl).1) hinj l' hl'
  exact ⟨l, hl, by rw [← e]; exact (hf l hl).2⟩

/-- translating then applying `g` = applying `g` then translating by the conjugate translation -/
theorem map_conj {c : Cell} {g : Array Nat} {l l' : Nat} {t : List Nat} (ht : ∀ x, x ∈ t → x < c.N)
    (h : ∀ i, i < c.N → g.getD (c.img l i) 0 = c.img l' (g.getD i 0)) :
    (t.map (c.img l)).map (fun a => g.getD a 0) = (t.map (fun a => g.getD a 0)).map (c.img l') := by
  rw [List.map_map, List.map_map]
  apply List.map_congr_left
  intro x hx
  exact h x (ht x hx)

/-- B2 (→): the class of `g·t` depends only on the class of `t` -/
theorem class_map_congr (c : Cell) (hwf : c.wf = true) (n : Nat) (hn : 1 ≤ n) (g : Array Nat)
    (hg : Normalises c g) (t t' : List Nat) (htl : t.length = n) (ht : ∀ x, x ∈ t → x < c.N)
    (htl' : t'.length = n) (ht' : ∀ x, x ∈ t' → x < c.N)
    (e : (c.atomicDecompr n).getD (flat c.N t) 0 = (c.atomicDecompr n).getD (flat c.N t') 0) :
    (c.atomicDecompr n).getD (flat c.N (t.map (fun a => g.getD a 0))) 0
      = (c.atomicDecompr n).getD (flat c.N (t'.map (fun a => g.getD a 0))) 0 := by
  obtain ⟨l, hl, rfl⟩ := (Cell.atomicDecompr_eq_iff c hwf n hn t t' htl ht htl' ht').mp e
  obtain ⟨l', hl', hc⟩ := hg.norm l hl
  rw [map_conj ht hc]
  exact (Cell.atomicDecompr_translate c hwf n hn _ (by simp [htl]) (map_tuple hg ht) l' hl').symm

/-- B2 (←): the induced map on classes is injective -/
theorem class_map_inj (c : Cell) (hwf : c.wf = true) (n : Nat) (hn : 1 ≤ n) (g : Array Nat)
    (hg : Normalises c g) (t t' : List Nat) (htl : t.length = n) (ht : ∀ x, x ∈ t → x < c.N)
    (htl' : t'.length = n) (ht' : ∀ x, x ∈ t' → x < c.N)
    (e : (c.atomicDecompr n).getD (flat c.N (t.map (fun a => g.getD a 0))) 0
      = (c.atomicDecompr n).getD (flat c.N (t'.map (fun a => g.getD a 0))) 0) :
    (c.atomicDecompr n).getD (flat c.N t) 0 = (c.atomicDecompr n).getD (flat c.N t') 0 := by
  obtain ⟨_, himg, _⟩ := Cell.wf_group_facts c hwf
  have hN : 0 < c.N := by
    cases t with
    | nil => simp at htl; omega
    | cons a _ => have := ht a (by simp); omega
  obtain ⟨l', hl', em⟩ := (Cell.atomicDecompr_eq_iff c hwf n hn _ _ (by simp [htl]) (map_tuple hg ht)
    (by simp [htl']) (map_tuple hg ht')).mp e
  obtain ⟨l, hl, hc⟩ := hg.norm_surj hwf hN l' hl'
  rw [← map_conj ht hc] at em
  have htl_img : ∀ x, x ∈ t.map (c.img l) → x < c.N := by
    intro x hx
    simp only [List.mem_map] at hx
    obtain ⟨a, ha, rfl⟩ := hx
    exact himg l a hl (ht a ha)
  have := map_inj hg _ _ ht' htl_img em
  exact (Cell.atomicDecompr_eq_iff c hwf n hn t t' htl ht htl' ht').mpr ⟨l, hl, this⟩

/-- B2: both directions -/
theorem class_map_iff (c : Cell) (hwf : c.wf = true) (n : Nat) (hn : 1 ≤ n) (g : Array Nat)
    (hg : Normalises c g) (t t' : List Nat) (htl : t.length = n) (ht : ∀ x, x ∈ t → x < c.N)
    (htl' : t'.length = n) (ht' : ∀ x, x ∈ t' → x < c.N) :
    (c.atomicDecompr n).getD (flat c.N (t.map (fun a => g.getD a 0))) 0
      = (c.atomicDecompr n).getD (flat c.N (t'.map (fun a => g.getD a 0))) 0 ↔
    (c.atomicDecompr n).getD (flat c.N t) 0 = (c.atomicDecompr n).getD (flat c.N t') 0 :=
  ⟨class_map_inj c hwf n hn g hg t t' htl ht htl' ht', class_map_congr c hwf n hn g hg t t' htl ht htl' ht'⟩

/-! ### the entries of `cosetPairs` -/

theorem zip_map_self {α β} (f : α → β) (l : List α) : (l.map f).zip l = l.map (fun a => (f a, a)) := by
  induction l with
  | nil => rfl
  | cons a l ih => simp [ih]

/-- flattened tuples selected by the mask -/
def sel (c : Cell) (n : Nat) (fast : Bool) (nzCut : Option (Array Bool)) : List Nat :=
  (List.range (c.N ^ n)).filter (fun t =>
    match cosetMask c n fast nzCut with | none => true | some m => m.getD t false)

/-- `cosetPairs` lists, for every selected tuple, (class of the image, class of the tuple) -/
theorem cosetPairs_eq (c : Cell) (n : Nat) (g : Array Nat) (fast : Bool) (nzCut : Option (Array Bool)) :
    cosetPairs c n g fast nzCut = (sel c n fast nzCut).map (fun t =>
      ((c.atomicDecompr n).getD (flat c.N ((unflat c.N n t).map (fun a => g.getD a 0))) 0,
        (c.atomicDecompr n).getD t 0)) := by
  unfold cosetPairs sigmaRep sel
  simp only []
  generalize cosetMask c n fast nzCut = mk
  cases mk <;> (rw [zip_map_self, List.map_map]; rfl)

theorem sel_stable_none (c : Cell) (n : Nat) : sel c n false none = List.range (c.N ^ n) := by
  unfold sel
  rw [List.filter_eq_self]
  intro t _
  simp [cosetMask]

theorem sel_fast_none (c : Cell) (n : Nat) :
    sel c n true none
      = (List.range (c.N ^ n)).filter (fun t => c.indepAtoms.contains (t / c.N ^ (n - 1))) := by
  unfold sel
  apply List.filter_congr
  intro t ht
  have ht' := List.mem_range.mp ht
  simp [cosetMask, ht']

/-- every entry is `(class (g·t), class t)` for an atom tuple `t` -/
theorem mem_cosetPairs (c : Cell) (n : Nat) (hn : 1 ≤ n) (g : Array Nat) (fast : Bool)
    (nzCut : Option (Array Bool)) (r v : Nat) (h : (r, v) ∈ cosetPairs c n g fast nzCut) :
    ∃ t : List Nat, t.length = n ∧ (∀ x, x ∈ t → x < c.N) ∧
      v = (c.atomicDecompr n).getD (flat c.N t) 0 ∧
      r = (c.atomicDecompr n).getD (flat c.N (t.map (fun a => g.getD a 0))) 0 := by
  rw [cosetPairs_eq] at h
  simp only [List.mem_map, Prod.mk.injEq] at h
  obtain ⟨t, ht, rfl, rfl⟩ := h
  have htlt : t < c.N ^ n := by
    simp only [sel, List.mem_filter, List.mem_range] at ht
    exact ht.1
  have hN := pow_pos_of_lt hn htlt
  exact ⟨unflat c.N n t, length_unflat _ _ _, fun x hx => mem_unflat_lt hN hx,
    by rw [flat_unflat htlt], rfl⟩

/-- with B2: the row index of an entry is the image class of ANY tuple in the column class:
    the matrix only has entries at `(Φ v, v)`, `Φ` the map induced by `g` on classes -/
theorem cosetPairs_fst (c : Cell) (hwf : c.wf = true) (n : Nat) (hn : 1 ≤ n) (g : Array Nat)
    (hg : Normalises c g) (fast : Bool) (nzCut : Option (Array Bool)) (r v : Nat)
    (h : (r, v) ∈ cosetPairs c n g fast nzCut)
    (t : List Nat) (htl : t.length = n) (ht : ∀ x, x ∈ t → x < c.N)
    (hv : (c.atomicDecompr n).getD (flat c.N t) 0 = v) :
    r = (c.atomicDecompr n).getD (flat c.N (t.map (fun a => g.getD a 0))) 0 := by
  obtain ⟨t', htl', ht', hv', hr'⟩ := mem_cosetPairs c n hn g fast nzCut r v h
  rw [hr']
  exact class_map_congr c hwf n hn g hg t' t htl' ht' htl ht (by rw [← hv', hv])

/-! ### B3 — fast variant -/

theorem flat_cons_div {N a : Nat} {rest : List Nat} (hr : ∀ x ∈ rest, x < N) :
    flat N (a :: rest) / N ^ rest.length = a := by
  have h1 := flat_lt_pow hr
  have hP : 0 < N ^ rest.length := by omega
  rw [flat_cons, Nat.mul_comm, Nat.mul_add_div hP, Nat.div_eq_of_lt h1, Nat.add_zero]

/-- selected tuples of the fast variant = tuples whose first atom is independent -/
theorem mem_sel_fast (c : Cell) (hwf : c.wf = true) (n : Nat) (hn : 1 ≤ n) (t : Nat) :
    t ∈ sel c n true none ↔
      ∃ m, ∃ hm : m < c.indepAtoms.length, ∃ rest : List Nat, rest.length = n - 1 ∧
        (∀ x, x ∈ rest → x < c.N) ∧ t = flat c.N (c.indepAtoms[m] :: rest) := by
  have hspec := (Cell.indepAtoms_spec c hwf).1.2
  rw [sel_fast_none]
  simp only [List.mem_filter, List.mem_range, List.contains_iff_mem]
  constructor
  · rintro ⟨htlt, hmem⟩
    have hN := pow_pos_of_lt hn htlt
    have hfu := flat_unflat htlt
    have hlen := length_unflat c.N n t
    cases hu : unflat c.N n t with
    | nil => rw [hu] at hlen; simp at hlen; omega
    | cons a rest =>
      rw [hu] at hlen hfu
      have hrest : ∀ x, x ∈ rest → x < c.N := fun x hx =>
        mem_unflat_lt hN (by rw [hu]; simp [hx])
      have hrl : rest.length = n - 1 := by simp at hlen; omega
      have hdiv := flat_cons_div (N := c.N) (a := a) hrest
      rw [hfu, hrl] at hdiv
      rw [hdiv] at hmem
      obtain ⟨m, hm, e⟩ := List.getElem_of_mem hmem
      exact ⟨m, hm, rest, hrl, hrest, by rw [e, hfu]⟩
  · rintro ⟨m, hm, rest, hrl, hrest, rfl⟩
    have hmem : c.indepAtoms[m] ∈ c.indepAtoms := List.getElem_mem hm
    have hall : ∀ x ∈ c.indepAtoms[m] :: rest, x < c.N := by
      intro x hx
      simp only [List.mem_cons] at hx
      rcases hx with rfl | hx
      · exact hspec _ hmem
      · exact hrest x hx
    have h1 := flat_lt_pow hall
    have hdiv := flat_cons_div (N := c.N) (a := c.indepAtoms[m]) hrest
    rw [hrl] at hdiv
    refine ⟨by simpa [hrl, Nat.sub_add_cancel hn] using h1, ?_⟩
    rw [hdiv]; exact hmem

/-- each class has at most one member whose first atom is independent -/
theorem sel_fast_class_inj (c : Cell) (hwf : c.wf = true) (n : Nat) (hn : 1 ≤ n) (t t' : Nat)
    (ht : t ∈ sel c n true none) (ht' : t' ∈ sel c n true none)
    (e : (c.atomicDecompr n).getD t 0 = (c.atomicDecompr n).getD t' 0) : t = t' := by
  obtain ⟨m, hm, rest, hrl, hrest, rfl⟩ := (mem_sel_fast c hwf n hn t).mp ht
  obtain ⟨m', hm', rest', hrl', hrest', rfl⟩ := (mem_sel_fast c hwf n hn t').mp ht'
  rw [Cell.atomicDecompr_compact c hwf n hn m hm rest hrl hrest,
    Cell.atomicDecompr_compact c hwf n hn m' hm' rest' hrl' hrest'] at e
  have h1 := flat_lt_pow hrest
  have h2 := flat_lt_pow hrest'
  rw [hrl] at h1
  rw [hrl'] at h2
  obtain ⟨hmm, hff⟩ := mul_add_inj h1 h2 e
  subst hmm
  have := flat_inj c.N rest rest' (by rw [hrl, hrl']) hrest hrest' hff
  subst this
  rfl

/-- B3: the column indices of the fast variant are pairwise distinct ... -/
theorem cosetPairs_fast_snd_nodup (c : Cell) (hwf : c.wf = true) (n : Nat) (hn : 1 ≤ n) (g : Array Nat) :
    ((cosetPairs c n g true none).map Prod.snd).Nodup := by
  rw [cosetPairs_eq, List.map_map, List.Nodup, List.pairwise_map]
  have hnd : (sel c n true none).Nodup := List.nodup_range.filter _
  refine List.Pairwise.imp_of_mem ?_ hnd
  intro t t' ht ht' hne e
  exact hne (sel_fast_class_inj c hwf n hn t t' ht ht' e)

/-- B3: ... and so are the row indices (the induced map on classes is injective): at most one entry per row
    and per column -/
theorem cosetPairs_fast_fst_nodup (c : Cell) (hwf : c.wf = true) (n : Nat) (hn : 1 ≤ n) (g : Array Nat)
    (hg : Normalises c g) : ((cosetPairs c n g true none).map Prod.fst).Nodup := by
  rw [cosetPairs_eq, List.map_map, List.Nodup, List.pairwise_map]
  have hnd : (sel c n true none).Nodup := List.nodup_range.filter _
  refine List.Pairwise.imp_of_mem ?_ hnd
  intro t t' ht ht' hne e
  simp only [Function.comp] at e
  have htlt : ∀ s, s ∈ sel c n true none → s < c.N ^ n := by
    intro s hs
    simp only [sel, List.mem_filter, List.mem_range] at hs
    exact hs.1
  have hN := pow_pos_of_lt hn (htlt t ht)
  have := class_map_inj c hwf n hn g hg (unflat c.N n t) (unflat c.N n t')
    (length_unflat _ _ _) (fun x hx => mem_unflat_lt hN hx)
    (length_unflat _ _ _) (fun x hx => mem_unflat_lt hN hx) e
  rw [flat_unflat (htlt t ht), flat_unflat (htlt t' ht')] at this
  exact hne (sel_fast_class_inj c hwf n hn t t' ht ht' this)

/-- ... and are exactly the class indices `v < n_a · N^(n-1)` -/
theorem cosetPairs_fast_snd_mem (c : Cell) (hwf : c.wf = true) (n : Nat) (hn : 1 ≤ n) (g : Array Nat)
    (v : Nat) :
    v ∈ (cosetPairs c n g true none).map Prod.snd ↔ v < c.indepAtoms.length * c.N ^ (n - 1) := by
  have hspec := (Cell.indepAtoms_spec c hwf).1.2
  rw [cosetPairs_eq, List.map_map]
  simp only [List.mem_map, Function.comp]
  constructor
  · rintro ⟨t, ht, rfl⟩
    obtain ⟨m, hm, rest, hrl, hrest, rfl⟩ := (mem_sel_fast c hwf n hn t).mp ht
    apply Cell.atomicDecompr_lt c hwf n hn
    · simp [hrl]; omega
    · intro x hx
      simp only [List.mem_cons] at hx
      rcases hx with rfl | hx
      · exact hspec _ (List.getElem_mem hm)
      · exact hrest x hx
  · intro hv
    have hP : 0 < c.N ^ (n - 1) := by
      rcases Nat.eq_zero_or_pos (c.N ^ (n - 1)) with h0 | h0
      · rw [h0] at hv; omega
      · exact h0
    have hm : v / c.N ^ (n - 1) < c.indepAtoms.length :=
      Nat.div_lt_of_lt_mul (by rw [Nat.mul_comm]; exact hv)
    obtain ⟨rest, hrl, hrest, hrf⟩ := flat_surj c.N (n - 1) (v % c.N ^ (n - 1)) (Nat.mod_lt _ hP)
    refine ⟨flat c.N (c.indepAtoms[v / c.N ^ (n - 1)] :: rest),
      (mem_sel_fast c hwf n hn _).mpr ⟨_, hm, rest, hrl, hrest, rfl⟩, ?_⟩
    rw [Cell.atomicDecompr_compact c hwf n hn _ hm rest hrl hrest, hrf, Nat.mul_comm]
    exact Nat.div_add_mod v _

/-- B3: every class occurs exactly once as column index of the fast variant; the column indices are a
    permutation of `range (n_a · N^(n-1))` -/
theorem cosetPairs_fast_snd_perm (c : Cell) (hwf : c.wf = true) (n : Nat) (hn : 1 ≤ n) (g : Array Nat) :
    ((cosetPairs c n g true none).map Prod.snd).Perm (List.range (c.indepAtoms.length * c.N ^ (n - 1))) := by
  rw [List.perm_ext_iff_of_nodup (cosetPairs_fast_snd_nodup c hwf n hn g) List.nodup_range]
  intro v
  rw [cosetPairs_fast_snd_mem c hwf n hn g v, List.mem_range]

theorem cosetPairs_fast_snd_count (c : Cell) (hwf : c.wf = true) (n : Nat) (hn : 1 ≤ n) (g : Array Nat)
    (v : Nat) (hv : v < c.indepAtoms.length * c.N ^ (n - 1)) :
    ((cosetPairs c n g true none).map Prod.snd).count v = 1 := by
  rw [(cosetPairs_fast_snd_nodup c hwf n hn g).count,
    if_pos ((cosetPairs_fast_snd_mem c hwf n hn g v).mpr hv)]

/-- counting an entry `(Φ v, v)` is counting the column index `v` -/
theorem count_pair_eq (c : Cell) (hwf : c.wf = true) (n : Nat) (hn : 1 ≤ n) (g : Array Nat)
    (hg : Normalises c g) (fast : Bool) (nzCut : Option (Array Bool))
    (t : List Nat) (htl : t.length = n) (ht : ∀ x, x ∈ t → x < c.N) :
    (cosetPairs c n g fast nzCut).count
        ((c.atomicDecompr n).getD (flat c.N (t.map (fun a => g.getD a 0))) 0,
          (c.atomicDecompr n).getD (flat c.N t) 0)
      = ((cosetPairs c n g fast nzCut).map Prod.snd).count ((c.atomicDecompr n).getD (flat c.N t) 0) := by
  rw [List.count_eq_countP, List.count_eq_countP, List.countP_map]
  apply List.countP_congr
  intro p hp
  obtain ⟨r, v⟩ := p
  simp only [Function.comp, beq_iff_eq, Prod.mk.injEq]
  constructor
  · exact fun h => h.2
  · intro hv
    exact ⟨cosetPairs_fst c hwf n hn g hg fast nzCut r v hp t htl ht hv.symm, hv⟩

/-- B3: the COO matrix of the fast variant is the permutation matrix of the map induced by `g` on classes:
    the entry `(class (g·t), class t)` occurs exactly once, for every atom tuple `t`
    (and by `cosetPairs_fst` there is no other entry in that column). -/
theorem cosetPairs_fast_count (c : Cell) (hwf : c.wf = true) (n : Nat) (hn : 1 ≤ n) (g : Array Nat)
    (hg : Normalises c g) (t : List Nat) (htl : t.length = n) (ht : ∀ x, x ∈ t → x < c.N) :
    (cosetPairs c n g true none).count
        ((c.atomicDecompr n).getD (flat c.N (t.map (fun a => g.getD a 0))) 0,
          (c.atomicDecompr n).getD (flat c.N t) 0) = 1 := by
  rw [count_pair_eq c hwf n hn g hg true none t htl ht]
  exact cosetPairs_fast_snd_count c hwf n hn g _ (Cell.atomicDecompr_lt c hwf n hn t htl ht)

/-! ### B4 — stable variant -/

/-- every class `v` has exactly `nlp` members among the flattened tuples -/
theorem class_card (c : Cell) (hwf : c.wf = true) (n : Nat) (hn : 1 ≤ n)
    (v : Nat) (hv : v < c.indepAtoms.length * c.N ^ (n - 1)) :
    ((List.range (c.N ^ n)).filter (fun t => (c.atomicDecompr n).getD t 0 == v)).length = c.nlp := by
  obtain ⟨_, himg, _⟩ := Cell.wf_group_facts c hwf
  obtain ⟨key, hkl, hklt, hnd, hlen, hiff⟩ := Cell.atomicDecompr_fiber c hwf n hn v hv
  have htup : ∀ s, s ∈ (List.range c.nlp).map (fun l => key.map (c.img l)) →
      s.length = n ∧ ∀ x, x ∈ s → x < c.N := by
    intro s hs
    simp only [List.mem_map, List.mem_range] at hs
    obtain ⟨l, hl, rfl⟩ := hs
    refine ⟨by simp [hkl], fun x hx => ?_⟩
    simp only [List.mem_map] at hx
    obtain ⟨a, ha, rfl⟩ := hx
    exact himg l a hl (hklt a ha)
  have hKnd : (((List.range c.nlp).map (fun l => key.map (c.img l))).map (flat c.N)).Nodup := by
    rw [List.Nodup, List.pairwise_map]
    refine List.Pairwise.imp_of_mem ?_ hnd
    intro s s' hs hs' hne e
    obtain ⟨h1, h2⟩ := htup s hs
    obtain ⟨h1', h2'⟩ := htup s' hs'
    exact hne (flat_inj c.N s s' (by rw [h1, h1']) h2 h2' e)
  have hperm : ((List.range (c.N ^ n)).filter (fun t => (c.atomicDecompr n).getD t 0 == v)).Perm
      (((List.range c.nlp).map (fun l => key.map (c.img l))).map (flat c.N)) := by
    rw [List.perm_ext_iff_of_nodup (List.nodup_range.filter _) hKnd]
    intro t
    simp only [List.mem_filter, List.mem_range, beq_iff_eq]
    constructor
    · rintro ⟨htlt, e⟩
      have hN := pow_pos_of_lt hn htlt
      have hfu := flat_unflat htlt
      rw [List.mem_map]
      refine ⟨unflat c.N n t, ?_, hfu⟩
      apply (hiff _ (length_unflat _ _ _) (fun x hx => mem_unflat_lt hN hx)).mp
      rw [hfu]; exact e
    · intro ht
      rw [List.mem_map] at ht
      obtain ⟨s, hs, rfl⟩ := ht
      obtain ⟨h1, h2⟩ := htup s hs
      have := flat_lt_pow h2
      rw [h1] at this
      exact ⟨this, (hiff s h1 h2).mpr hs⟩
  rw [hperm.length_eq, List.length_map, hlen]

/-- B4: in the stable variant every class occurs `nlp` times as column index (once per member of the class) -/
theorem cosetPairs_stable_snd_count (c : Cell) (hwf : c.wf = true) (n : Nat) (hn : 1 ≤ n) (g : Array Nat)
    (v : Nat) (hv : v < c.indepAtoms.length * c.N ^ (n - 1)) :
    ((cosetPairs c n g false none).map Prod.snd).count v = c.nlp := by
  rw [cosetPairs_eq, List.map_map, sel_stable_none, List.count_eq_countP, List.countP_map,
    List.countP_eq_length_filter]
  exact class_card c hwf n hn v hv

/-- column indices outside the class range do not occur -/
theorem cosetPairs_snd_lt (c : Cell) (hwf : c.wf = true) (n : Nat) (hn : 1 ≤ n) (g : Array Nat)
    (fast : Bool) (nzCut : Option (Array Bool)) (r v : Nat) (h : (r, v) ∈ cosetPairs c n g fast nzCut) :
    v < c.indepAtoms.length * c.N ^ (n - 1) := by
  obtain ⟨t, htl, ht, rfl, _⟩ := mem_cosetPairs c n hn g fast nzCut r v h
  exact Cell.atomicDecompr_lt c hwf n hn t htl ht

/-- B4: in the stable variant the entry `(class (g·t), class t)` occurs exactly `nlp` times, for every atom tuple `t`
    (and by `cosetPairs_fst` there is no other entry in that column): the stable matrix is `nlp` times the
    permutation matrix of the fast variant, which is why the code divides by `n_lp` there. -/
theorem cosetPairs_stable_count (c : Cell) (hwf : c.wf = true) (n : Nat) (hn : 1 ≤ n) (g : Array Nat)
    (hg : Normalises c g) (t : List Nat) (htl : t.length = n) (ht : ∀ x, x ∈ t → x < c.N) :
    (cosetPairs c n g false none).count
        ((c.atomicDecompr n).getD (flat c.N (t.map (fun a => g.getD a 0))) 0,
          (c.atomicDecompr n).getD (flat c.N t) 0) = c.nlp := by
  rw [count_pair_eq c hwf n hn g hg false none t htl ht]
  exact cosetPairs_stable_snd_count c hwf n hn g _ (Cell.atomicDecompr_lt c hwf n hn t htl ht)

/-- both variants together: `count_stable (r, v) = nlp * count_fast (r, v)` for EVERY pair `(r, v)` -/
theorem cosetPairs_stable_eq_nlp_mul_fast (c : Cell) (hwf : c.wf = true) (n : Nat) (hn : 1 ≤ n) (g : Array Nat)
    (hg : Normalises c g) (r v : Nat) :
    (cosetPairs c n g false none).count (r, v) = c.nlp * (cosetPairs c n g true none).count (r, v) := by
  by_cases hv : v < c.indepAtoms.length * c.N ^ (n - 1)
  · obtain ⟨key, hkl, hklt, _, _, hiff⟩ := Cell.atomicDecompr_fiber c hwf n hn v hv
    obtain ⟨_, _, hzero, _⟩ := Cell.wf_group_facts c hwf
    have hnlp : 0 < c.nlp := by assumption
    have hkv : (c.atomicDecompr n).getD (flat c.N key) 0 = v := by
      apply (hiff key hkl hklt).mpr
      rw [List.mem_map]
      refine ⟨0, List.mem_range.mpr hnlp, ?_⟩
      have : ∀ x, x ∈ key → c.img 0 x = id x := fun x hx => hzero x (hklt x hx)
      rw [List.map_congr_left this, List.map_id]
    by_cases hr : r = (c.atomicDecompr n).getD (flat c.N (key.map (fun a => g.getD a 0))) 0
    · rw [hr, ← hkv, cosetPairs_stable_count c hwf n hn g hg key hkl hklt,
        cosetPairs_fast_count c hwf n hn g hg key hkl hklt, Nat.mul_one]
    · have h0 : ∀ fast, (cosetPairs c n g fast none).count (r, v) = 0 := by
        intro fast
        rw [List.count_eq_zero]
        intro hm
        exact hr (cosetPairs_fst c hwf n hn g hg fast none r v hm key hkl hklt hkv)
      rw [h0, h0, Nat.mul_zero]
  · have h0 : ∀ fast, (cosetPairs c n g fast none).count (r, v) = 0 := by
      intro fast
      rw [List.count_eq_zero]
      intro hm
      exact hv (cosetPairs_snd_lt c hwf n hn g fast none r v hm)
    rw [h0, h0, Nat.mul_zero]

/-! ### non-vacuity: `Cell.exampleCell` (N = 8, nlp = 4, independent atoms [0, 4]) -/

section Examples
open Cell

/-- swaps the two generating translations (`i ↦ i xor 1` and `i ↦ i xor 2`): normalises the translation group
    without commuting with it -/
private def g1 : Array Nat := #[0, 2, 1, 3, 4, 6, 5, 7]
/-- swaps the two orbits -/
private def g2 : Array Nat := #[4, 5, 6, 7, 0, 1, 2, 3]
/-- `g1 ∘ g2` -/
private def g12 : Array Nat := #[4, 6, 5, 7, 0, 2, 1, 3]

theorem g1_normalises : Normalises exampleCell g1 := by
  refine ⟨?_, ?_, ?_⟩
  · show ∀ i, i < 8 → g1.getD i 0 < 8
    decide +kernel
  · have : ∀ i, i < 8 → ∀ j, j < 8 → g1.getD i 0 = g1.getD j 0 → i = j := by decide +kernel
    exact fun i j hi hj => this i hi j hj
  · show ∀ l, l < 4 → ∃ l', l' < 4 ∧
      ∀ i, i < 8 → g1.getD (exampleCell.img l i) 0 = exampleCell.img l' (g1.getD i 0)
    decide +kernel

example : sigmaRep 8 1 g1 none = [0, 2, 1, 3, 4, 6, 5, 7] := by decide +kernel
example : (sigmaRep 8 2 g12 none).getD 11 0
    = (sigmaRep 8 2 g1 none).getD ((sigmaRep 8 2 g2 none).getD 11 0) 0 :=
  sigmaRep_comp 8 2 g1 g2 g12 (by decide +kernel) (by decide +kernel) 11 (by decide)
example : (sigmaRep 8 2 g12 none).getD 11 0 = 55 := by decide +kernel

example : cosetPairs exampleCell 2 g1 true none
    = [(0, 0), (2, 1), (1, 2), (3, 3), (4, 4), (6, 5), (5, 6), (7, 7),
       (8, 8), (10, 9), (9, 10), (11, 11), (12, 12), (14, 13), (13, 14), (15, 15)] := by decide +kernel
example : (cosetPairs exampleCell 2 g1 false none).length = 64 := by decide +kernel
example : (cosetPairs exampleCell 2 g1 false none).count (1, 2) = 4 := by decide +kernel
example : (cosetPairs exampleCell 2 g1 true none).count (1, 2) = 1 := by decide +kernel

/-- the hypotheses of the theorems are satisfiable -/
example : ((cosetPairs exampleCell 2 g1 true none).map Prod.snd).Perm
    (List.range (exampleCell.indepAtoms.length * exampleCell.N ^ (2 - 1))) :=
  cosetPairs_fast_snd_perm exampleCell exampleCell_wf 2 (by omega) g1
example (r v : Nat) : (cosetPairs exampleCell 2 g1 false none).count (r, v)
    = exampleCell.nlp * (cosetPairs exampleCell 2 g1 true none).count (r, v) :=
  cosetPairs_stable_eq_nlp_mul_fast exampleCell exampleCell_wf 2 (by omega) g1 g1_normalises r v

end Examples


end Coset
end Symfc
