/-
  Lemmas/Relabel.lean — C10 "the result does not depend on how the crystal is described", atom-ordering part:
  the partition of tensor elements computed by the permutation stage is EQUIVARIANT under relabelling the atoms.

  Vocabulary (definitions are in Model/Relabel.lean, Lemmas/Relabel1.lean, Lemmas/OrbitClosed1.lean):
    `OC.act σ t = σ.map (fun i => t.getD i 0)`      index permutation σ applied to the tuple t
    `OC.tauE c l e = 3 * c.img l (e / 3) + e % 3`   lattice translation l on one entry; `t.map (OC.tauE c l)` on a tuple
    `SameRow c n cut t t'`     some row of `allStageRows Gen.cutoffOps c n (stagesFor n) cut` holds both elements
    `Covered n cut t`          atoms pairwise within the cutoff [and, at order 4, pattern not (p,p,q,q)]
    `c.relabel π πinv`         `tp'[l][π i] = π (tp[l][i])`
    `relabelCut π πinv cut`    `D'[π i][π j] = D[i][j]`, same radius
    `relabelTuple π t`         atom part of every entry mapped by π, Cartesian part kept
-/
import SymfcModel.Lemmas.Relabel3
import SymfcModel.Props.C01
namespace Symfc
namespace Relabel
open Relabelling OC Cov

/-! ## Step 1: same row ⇔ covered and same (S_n × T)-orbit -/

/-- **Step 1.** For a well-formed supercell, orders 2, 3, 4, with or without a cutoff (symmetric, reflexive,
    translation invariant), and two entry tuples `t t'` of length `n` with entries `< 3N`: the elements of `t` and
    `t'` are written in one row by the permutation stage IFF `t` is covered (pairwise within the cutoff, and at
    order 4 not of the pattern (p,p,q,q)) and `t'` is a lattice translate of an index permutation of `t`. -/
theorem same_row_iff_covered_and_same_orbit (c : Cell) (hwf : c.wf = true) (n : Nat)
    (hn : n = 2 ∨ n = 3 ∨ n = 4) (cut : Option CutoffIn) (hcut : ∀ x, cut = some x → CutOK c x)
    (t t' : List Nat) (hlen : t.length = n) (hlt : ∀ e ∈ t, e < 3 * c.N)
    (hlen' : t'.length = n) (hlt' : ∀ e ∈ t', e < 3 * c.N) :
    (∃ r ∈ allStageRows Gen.cutoffOps c n (stagesFor n) cut,
        elemIdx c.N (c.atomicDecompr n) t ∈ r ∧ elemIdx c.N (c.atomicDecompr n) t' ∈ r) ↔
      Covered n cut t ∧
        ∃ σ ∈ permsOf (List.range n), ∃ l, l < c.nlp ∧
          t' = (σ.map (fun i => t.getD i 0)).map (tauE c l) :=
  sameRow_iff c hwf hn cut hcut ⟨hlen, hlt⟩ ⟨hlen', hlt'⟩

/-- `Covered` spelled out: orders 2 and 3 — the atoms are pairwise within the cutoff -/
theorem covered_O2_O3 {n : Nat} (hn : n = 2 ∨ n = 3) (cut : Option CutoffIn) (t : List Nat) :
    Covered n cut t ↔ admissible cut t := by
  unfold Covered
  rcases hn with rfl | rfl
  · exact ⟨fun h => h.2, fun h => ⟨rfl, h⟩⟩
  · exact ⟨fun h => h.2, fun h => ⟨rfl, h⟩⟩

/-- `Covered` spelled out: order 4 — the condition of `C04.order4_covered_iff_not_ppqq` -/
theorem covered_O4 (cut : Option CutoffIn) (t : List Nat) :
    Covered 4 cut t ↔ ppqq t = false ∧ admissible cut t := Iff.rfl

/-! ## Step 3: equivariance of the partition -/

/-- the orbit relation is transported by the relabelling -/
theorem orbit_relabel {π πinv : Array Nat} {c : Cell} (hwf : c.wf = true) (hπ : IsRel c.N π πinv)
    {n : Nat} {t t' : List Nat} (ht : Valid c.N n t) (ht' : Valid c.N n t') {σ : List Nat}
    (hσl : σ.length = n) (hσlt : ∀ i ∈ σ, i < n) {l : Nat} (hl : l < c.nlp) :
    relabelTuple π t' = (act σ (relabelTuple π t)).map (tauE (c.relabel π πinv) l) ↔
      t' = (act σ t).map (tauE c l) := by
  have h := Cell.wf_WF c hwf
  have hv : Valid c.N n (act σ t) := valid_act ht hσl hσlt
  rw [act_relabelTuple π (by rw [ht.1]; exact hσlt), map_tauE_relabelTuple hπ hl hv]
  constructor
  · exact relabelTuple_inj hπ ht' (valid_map_tauE h hl hv)
  · intro e; rw [e]

/-- **Step 3 (main theorem).** For a well-formed supercell `c`, a valid relabelling `π` of its atoms (with inverse
    `πinv`), orders 2, 3, 4, with or without a cutoff, and all entry tuples `t t'`: the elements of `t` and `t'` are
    written in one row by the permutation stage run on `(c, cut)` IFF the elements of the relabelled tuples are
    written in one row by the permutation stage run on the relabelled description.

    `indepAtoms`, the class numbering `atomicDecompr`, the combinations and the rows themselves differ between the two
    descriptions; the induced partition of the tensor elements does not. -/
theorem partition_equivariant_under_atom_relabelling (c : Cell) (hwf : c.wf = true)
    (π πinv : Array Nat) (hπ : isRelabelling c.N π πinv = true)
    (n : Nat) (hn : n = 2 ∨ n = 3 ∨ n = 4)
    (cut : Option CutoffIn) (hcut : ∀ x, cut = some x → CutOK c x)
    (t t' : List Nat) (hlen : t.length = n) (hlt : ∀ e ∈ t, e < 3 * c.N)
    (hlen' : t'.length = n) (hlt' : ∀ e ∈ t', e < 3 * c.N) :
    SameRow c n cut t t' ↔
      SameRow (c.relabel π πinv) n (relabelCut π πinv cut) (relabelTuple π t) (relabelTuple π t') := by
  have hr := isRelabelling_spec hπ
  have ht : Valid c.N n t := ⟨hlen, hlt⟩
  have ht' : Valid c.N n t' := ⟨hlen', hlt'⟩
  have hsn := (stagesFor_ok hn).2.1
  rw [sameRow_iff c hwf hn cut hcut ht ht',
    sameRow_iff (c.relabel π πinv) (wf_relabel hwf hr) hn (relabelCut π πinv cut)
      (relabelCut_ok hwf hr hcut) (valid_relabelTuple hr ht) (valid_relabelTuple hr ht'),
    covered_relabel hr cut (fun x hx => (hcut x hx).hN) ht, nlp_relabel]
  refine and_congr_right fun _ => ?_
  constructor
  · rintro ⟨σ, hσ, l, hl, e⟩
    obtain ⟨hσl, hσlt⟩ := snOK_spec hsn hσ
    exact ⟨σ, hσ, l, hl, (orbit_relabel hwf hr ht ht' hσl hσlt hl).mpr e⟩
  · rintro ⟨σ, hσ, l, hl, e⟩
    obtain ⟨hσl, hσlt⟩ := snOK_spec hsn hσ
    exact ⟨σ, hσ, l, hl, (orbit_relabel hwf hr ht ht' hσl hσlt hl).mp e⟩

/-- the main theorem with `SameRow` unfolded -/
theorem partition_equivariant_under_atom_relabelling' (c : Cell) (hwf : c.wf = true)
    (π πinv : Array Nat) (hπ : isRelabelling c.N π πinv = true)
    (n : Nat) (hn : n = 2 ∨ n = 3 ∨ n = 4)
    (cut : Option CutoffIn) (hcut : ∀ x, cut = some x → CutOK c x)
    (t t' : List Nat) (hlen : t.length = n) (hlt : ∀ e ∈ t, e < 3 * c.N)
    (hlen' : t'.length = n) (hlt' : ∀ e ∈ t', e < 3 * c.N) :
    (∃ r ∈ allStageRows Gen.cutoffOps c n (stagesFor n) cut,
        elemIdx c.N (c.atomicDecompr n) t ∈ r ∧ elemIdx c.N (c.atomicDecompr n) t' ∈ r) ↔
    (∃ r ∈ allStageRows Gen.cutoffOps (c.relabel π πinv) n (stagesFor n) (relabelCut π πinv cut),
        elemIdx c.N ((c.relabel π πinv).atomicDecompr n) (relabelTuple π t) ∈ r ∧
        elemIdx c.N ((c.relabel π πinv).atomicDecompr n) (relabelTuple π t') ∈ r) :=
  partition_equivariant_under_atom_relabelling c hwf π πinv hπ n hn cut hcut t t' hlen hlt hlen' hlt'

/-- which elements are covered at all is equivariant too -/
theorem coverage_equivariant_under_atom_relabelling (c : Cell) (hwf : c.wf = true)
    (π πinv : Array Nat) (hπ : isRelabelling c.N π πinv = true)
    (n : Nat) (hn : n = 2 ∨ n = 3 ∨ n = 4)
    (cut : Option CutoffIn) (hcut : ∀ x, cut = some x → CutOK c x)
    (t : List Nat) (hlen : t.length = n) (hlt : ∀ e ∈ t, e < 3 * c.N) :
    (∃ r ∈ allStageRows Gen.cutoffOps c n (stagesFor n) cut, elemIdx c.N (c.atomicDecompr n) t ∈ r) ↔
    (∃ r ∈ allStageRows Gen.cutoffOps (c.relabel π πinv) n (stagesFor n) (relabelCut π πinv cut),
        elemIdx c.N ((c.relabel π πinv).atomicDecompr n) (relabelTuple π t) ∈ r) := by
  have hr := isRelabelling_spec hπ
  have ht : Valid c.N n t := ⟨hlen, hlt⟩
  rw [mem_row_iff_covered c hwf hn cut hcut ht]
  have := mem_row_iff_covered (c.relabel π πinv) (wf_relabel hwf hr) hn (relabelCut π πinv cut)
    (relabelCut_ok hwf hr hcut) (valid_relabelTuple hr ht)
  rw [N_relabel] at this
  rw [this, covered_relabel hr cut (fun x hx => (hcut x hx).hN) ht]

/-! ## Step 2, collected -/

/-- **Step 2.** Relabelling preserves the number of atoms and of lattice points, well-formedness of the cell and
    the fit of the cutoff input; the relabelled translations satisfy `tp'[l][π i] = π (tp[l][i])` and the
    relabelled nearness relation `near' (π i) (π j) ↔ near i j`; relabelled tuples are valid tuples. -/
theorem relabel_preserves (c : Cell) (hwf : c.wf = true) (π πinv : Array Nat)
    (hπ : isRelabelling c.N π πinv = true) :
    (c.relabel π πinv).N = c.N ∧ (c.relabel π πinv).nlp = c.nlp ∧ (c.relabel π πinv).wf = true ∧
    (∀ l i, l < c.nlp → i < c.N → (c.relabel π πinv).img l (ap π i) = ap π (c.img l i)) ∧
    (∀ x, CutOK c x → CutOK (c.relabel π πinv) (x.relabel π πinv) ∧
      ∀ i j, i < c.N → j < c.N → (near (x.relabel π πinv) (ap π i) (ap π j) ↔ near x i j)) ∧
    (∀ n t, t.length = n → (∀ e ∈ t, e < 3 * c.N) →
      (relabelTuple π t).length = n ∧ ∀ e ∈ relabelTuple π t, e < 3 * (c.relabel π πinv).N) := by
  have hr := isRelabelling_spec hπ
  refine ⟨rfl, nlp_relabel π πinv c, wf_relabel hwf hr, fun l i hl hi => img_relabel_ap hr hl hi,
    fun x hx => ⟨cutOK_relabel hwf hr hx, fun i j hi hj => near_relabel_ap hr x hx.hN hi hj⟩,
    fun n t hlen hlt => valid_relabelTuple hr ⟨hlen, hlt⟩⟩

/-! ## Step 4: the pointer arrays -/

/-- C01 for all three orders in one statement: the components of the pointer graph are the rows -/
theorem sameComp_iff_sameRow (c : Cell) (hwf : c.wf = true) {n : Nat} (hn : n = 2 ∨ n = 3 ∨ n = 4)
    (cut : Option CutoffIn) (hcutN : ∀ x, cut = some x → x.N = c.N) (nBatch : String → Nat)
    (p : Array Int)
    (h : permDecompr Gen.cutoffOps c n (repFor n) (stagesFor n) cut nBatch = some p) (t t' : List Nat) :
    SameComp p (elemIdx c.N (c.atomicDecompr n) t) (elemIdx c.N (c.atomicDecompr n) t') ↔
      SameRow c n cut t t' := by
  rcases hn with rfl | rfl | rfl
  · exact C01.C01_order2 c hwf cut hcutN nBatch p h _ _
  · exact C01.C01_order3 c hwf cut hcutN nBatch p h _ _
  · exact (C01.C01_order4 c hwf cut hcutN nBatch p h).1 _ _

/-- **Step 4 (corollary on the pointer arrays).** Run the permutation stage on the two descriptions of the same
    crystal (any batch splits `nBatch`, `nBatch'`). Two tensor elements lie in the same connected component of the
    pointer graph of the first description IFF the relabelled elements lie in the same connected component of the
    pointer graph of the second. Hence the columns of `c_pt` of the two descriptions are carried onto each other by
    the relabelling of tensor elements. -/
theorem components_equivariant_under_atom_relabelling (c : Cell) (hwf : c.wf = true)
    (π πinv : Array Nat) (hπ : isRelabelling c.N π πinv = true)
    (n : Nat) (hn : n = 2 ∨ n = 3 ∨ n = 4)
    (cut : Option CutoffIn) (hcut : ∀ x, cut = some x → CutOK c x)
    (nBatch nBatch' : String → Nat) (p p' : Array Int)
    (h : permDecompr Gen.cutoffOps c n (repFor n) (stagesFor n) cut nBatch = some p)
    (h' : permDecompr Gen.cutoffOps (c.relabel π πinv) n (repFor n) (stagesFor n)
      (relabelCut π πinv cut) nBatch' = some p')
    (t t' : List Nat) (hlen : t.length = n) (hlt : ∀ e ∈ t, e < 3 * c.N)
    (hlen' : t'.length = n) (hlt' : ∀ e ∈ t', e < 3 * c.N) :
    SameComp p (elemIdx c.N (c.atomicDecompr n) t) (elemIdx c.N (c.atomicDecompr n) t') ↔
    SameComp p' (elemIdx c.N ((c.relabel π πinv).atomicDecompr n) (relabelTuple π t))
      (elemIdx c.N ((c.relabel π πinv).atomicDecompr n) (relabelTuple π t')) := by
  have hr := isRelabelling_spec hπ
  have hok' := relabelCut_ok hwf hr hcut
  rw [sameComp_iff_sameRow c hwf hn cut (fun x hx => (hcut x hx).hN) nBatch p h t t']
  have := sameComp_iff_sameRow (c.relabel π πinv) (wf_relabel hwf hr) hn (relabelCut π πinv cut)
    (fun x hx => (hok' x hx).hN) nBatch' p' h' (relabelTuple π t) (relabelTuple π t')
  rw [N_relabel] at this
  rw [this]
  exact partition_equivariant_under_atom_relabelling c hwf π πinv hπ n hn cut hcut t t' hlen hlt hlen' hlt'

/-- Step 4, coverage part: an element is written (not eliminated as a zero element) in the first description IFF
    the relabelled element is written in the second. -/
theorem covered_equivariant_under_atom_relabelling (c : Cell) (hwf : c.wf = true)
    (π πinv : Array Nat) (hπ : isRelabelling c.N π πinv = true)
    (n : Nat) (hn : n = 2 ∨ n = 3 ∨ n = 4)
    (cut : Option CutoffIn) (hcut : ∀ x, cut = some x → CutOK c x)
    (nBatch nBatch' : String → Nat) (p p' : Array Int)
    (h : permDecompr Gen.cutoffOps c n (repFor n) (stagesFor n) cut nBatch = some p)
    (h' : permDecompr Gen.cutoffOps (c.relabel π πinv) n (repFor n) (stagesFor n)
      (relabelCut π πinv cut) nBatch' = some p')
    (t : List Nat) (hlen : t.length = n) (hlt : ∀ e ∈ t, e < 3 * c.N) :
    covered p (elemIdx c.N (c.atomicDecompr n) t) ↔
    covered p' (elemIdx c.N ((c.relabel π πinv).atomicDecompr n) (relabelTuple π t)) := by
  have hr := isRelabelling_spec hπ
  have hok' := relabelCut_ok hwf hr hcut
  rw [covered_iff_mem_row hwf hn cut (fun x hx => (hcut x hx).hN) h]
  have := covered_iff_mem_row (wf_relabel hwf hr) hn (relabelCut π πinv cut)
    (fun x hx => (hok' x hx).hN) h' (elemIdx c.N ((c.relabel π πinv).atomicDecompr n) (relabelTuple π t))
  rw [this]
  exact coverage_equivariant_under_atom_relabelling c hwf π πinv hπ n hn cut hcut t hlen hlt

/-! ## Step 5: non-vacuity -/

/-- four atoms, two lattice points: the translation exchanges 0 ↔ 1 and 2 ↔ 3 -/
def cell4 : Cell := { N := 4, tp := #[#[0, 1, 2, 3], #[1, 0, 3, 2]] }

/-- a non-trivial relabelling (a 4-cycle mixing the two translation orbits) and its inverse -/
def pi4 : Array Nat := #[2, 0, 3, 1]
def pi4inv : Array Nat := #[1, 3, 0, 2]

/-- a cutoff input on `cell4`: symmetric, translation invariant distances; radius 3 keeps all pairs
    except (0,3) and (1,2) -/
def cut4 : CutoffIn :=
  { N := 4, cutoff := 3, dist := #[#[0, 1, 2, 3], #[1, 0, 3, 2], #[2, 3, 0, 1], #[3, 2, 1, 0]] }

theorem cell4_wf : cell4.wf = true := by decide +kernel

theorem pi4_ok : isRelabelling cell4.N pi4 pi4inv = true := by decide

theorem cut4_ok : CutOK cell4 cut4 := by
  have h1 : ∀ i, i < 4 → ∀ j, j < 4 → near cut4 i j → near cut4 j i := by decide +kernel
  have h2 : ∀ i, i < 4 → near cut4 i i := by decide +kernel
  have h3 : ∀ l, l < 2 → ∀ i, i < 4 → ∀ j, j < 4 →
      (near cut4 (cell4.img l i) (cell4.img l j) ↔ near cut4 i j) := by decide +kernel
  exact ⟨rfl, fun i j hi hj => h1 i hi j hj, h2, fun l hl i j hi hj => h3 l hl i hi j hj⟩

/-- all hypotheses of the theorems hold for a concrete cell with N = 4, nlp = 2 and a non-trivial π; the relabelled
    description is really different (other translation table, other independent atoms, other distance matrix) -/
example : cell4.wf = true ∧ cell4.N = 4 ∧ cell4.nlp = 2 ∧ isRelabelling cell4.N pi4 pi4inv = true ∧
    pi4 ≠ #[0, 1, 2, 3] ∧
    (∀ x, some cut4 = some x → CutOK cell4 x) ∧ (∀ x, (none : Option CutoffIn) = some x → CutOK cell4 x) ∧
    (cell4.relabel pi4 pi4inv).tp = #[#[0, 1, 2, 3], #[2, 3, 0, 1]] ∧
    cell4.indepAtoms = [0, 2] ∧ (cell4.relabel pi4 pi4inv).indepAtoms = [0, 1] ∧
    (cut4.relabel pi4 pi4inv).dist = #[#[0, 2, 1, 3], #[2, 0, 3, 1], #[1, 3, 0, 2], #[3, 1, 2, 0]] ∧
    cell4.atomicDecompr 2 ≠ (cell4.relabel pi4 pi4inv).atomicDecompr 2 :=
  ⟨cell4_wf, rfl, rfl, pi4_ok, by decide, fun _ h => (by cases h; exact cut4_ok), (fun _ h => nomatch h),
    by decide +kernel, by decide +kernel, by decide +kernel, by decide +kernel, by decide +kernel⟩

/-- the main theorem and the pointer-array corollary instantiated at the concrete data (order 3, with the cutoff) -/
example (t t' : List Nat) (hlen : t.length = 3) (hlt : ∀ e ∈ t, e < 12) (hlen' : t'.length = 3)
    (hlt' : ∀ e ∈ t', e < 12) :
    SameRow cell4 3 (some cut4) t t' ↔
      SameRow (cell4.relabel pi4 pi4inv) 3 (relabelCut pi4 pi4inv (some cut4)) (relabelTuple pi4 t)
        (relabelTuple pi4 t') :=
  partition_equivariant_under_atom_relabelling cell4 cell4_wf pi4 pi4inv pi4_ok 3 (Or.inr (Or.inl rfl))
    (some cut4) (fun _ h => by cases h; exact cut4_ok) t t' hlen hlt hlen' hlt'

/-- independent evaluation (order 2, with the cutoff): `[0, 7]` (atoms 0, 2: near) and `[10, 3]` (its transpose
    translated by the lattice translation) share a row, and so do their relabellings `[6, 10]`, `[4, 0]` in the
    relabelled description; `[0, 9]` (atoms 0, 3: far) is in no row, nor is its relabelling `[6, 3]`. -/
example :
    relabelTuple pi4 [0, 7] = [6, 10] ∧ relabelTuple pi4 [10, 3] = [4, 0] ∧ relabelTuple pi4 [0, 9] = [6, 3] ∧
    (allStageRows Gen.cutoffOps cell4 2 (stagesFor 2) (some cut4)).any (fun r =>
      r.contains (elemIdx 4 (cell4.atomicDecompr 2) [0, 7]) &&
      r.contains (elemIdx 4 (cell4.atomicDecompr 2) [10, 3])) = true ∧
    (allStageRows Gen.cutoffOps (cell4.relabel pi4 pi4inv) 2 (stagesFor 2)
        (relabelCut pi4 pi4inv (some cut4))).any (fun r =>
      r.contains (elemIdx 4 ((cell4.relabel pi4 pi4inv).atomicDecompr 2) [6, 10]) &&
      r.contains (elemIdx 4 ((cell4.relabel pi4 pi4inv).atomicDecompr 2) [4, 0])) = true ∧
    (allStageRows Gen.cutoffOps cell4 2 (stagesFor 2) (some cut4)).all (fun r =>
      !r.contains (elemIdx 4 (cell4.atomicDecompr 2) [0, 9])) = true ∧
    (allStageRows Gen.cutoffOps (cell4.relabel pi4 pi4inv) 2 (stagesFor 2)
        (relabelCut pi4 pi4inv (some cut4))).all (fun r =>
      !r.contains (elemIdx 4 ((cell4.relabel pi4 pi4inv).atomicDecompr 2) [6, 3])) = true := by
  decide +kernel

end Relabel
end Symfc
