/-
  Lemmas/FindBlocksInv.lean — invariants of the label propagation of `findBlocks`
  (`step`/`sweepL`/`sweep`/`iter` of Lemmas/FindBlocksLoop.lean):

  B1 connectivity `Conn` of the non-zero pattern (reflexive, symmetric, transitive closure of
     `m[i][j] ≠ 0 ∨ m[j][i] ≠ 0` on the indices `< n`)
  B2 exact effect of one step, labels never increase
  B3 invariant `LabInv`: every index holds the index (≤ itself) of a member of its own component
  B4 the `changed` flag: a sweep that reports "unchanged" left the labels alone and saw equal labels
     on every edge
-/
import SymfcModel.Lemmas.FindBlocksLoop
namespace Symfc.FindBlocks

/-! ## generic helpers -/

theorem getD_set (a : Array Nat) (i x v : Nat) :
    (a.setIfInBounds i v).getD x 0 = if x = i ∧ i < a.size then v else a.getD x 0 := by
  rw [Array.getD_eq_getD_getElem?, Array.getD_eq_getD_getElem?, Array.getElem?_setIfInBounds]
  by_cases hx : i = x
  · subst hx
    by_cases hi : i < a.size
    · simp [hi]
    · simp [hi]
  · have hx' : ¬ x = i := fun h => hx h.symm
    simp [hx, hx']

theorem getD_zero_of_not_lt {a : Array Nat} {x : Nat} (h : ¬ x < a.size) : a.getD x 0 = 0 := by
  simp [Array.getD, h]

/-! ## B1: edges and connectivity -/

/-- the test of the innermost loop: `(i, j)` is an edge of the (symmetrised) non-zero pattern -/
def edgeB (m : IMat) (i j : Nat) : Bool := m.get i j != 0 || m.get j i != 0

theorem edgeB_iff (m : IMat) (i j : Nat) :
    edgeB m i j = true ↔ m.get i j ≠ 0 ∨ m.get j i ≠ 0 := by
  simp [edgeB]

theorem edgeB_false_iff (m : IMat) (i j : Nat) :
    edgeB m i j = false ↔ m.get i j = 0 ∧ m.get j i = 0 := by
  simp [edgeB]

theorem edgeB_symm (m : IMat) (i j : Nat) : edgeB m i j = edgeB m j i := by
  simp [edgeB, Bool.or_comm]

/-- `a` and `b` (both `< n`) are joined by a path of edges -/
inductive Conn (m : IMat) (n : Nat) : Nat → Nat → Prop
  | refl {a : Nat} (h : a < n) : Conn m n a a
  | step {a b c : Nat} (ha : a < n) (hb : b < n) (h : edgeB m a b = true) (t : Conn m n b c) :
      Conn m n a c

theorem Conn.lt_left {m : IMat} {n a b : Nat} (h : Conn m n a b) : a < n := by
  cases h with
  | refl h => exact h
  | step ha _ _ _ => exact ha

theorem Conn.lt_right {m : IMat} {n a b : Nat} (h : Conn m n a b) : b < n := by
  induction h with
  | refl h => exact h
  | step _ _ _ _ ih => exact ih

theorem Conn.trans {m : IMat} {n a b c : Nat} (h1 : Conn m n a b) (h2 : Conn m n b c) :
    Conn m n a c := by
  induction h1 with
  | refl _ => exact h2
  | step ha hb he _ ih => exact .step ha hb he (ih h2)

theorem Conn.link {m : IMat} {n a b : Nat} (ha : a < n) (hb : b < n) (h : edgeB m a b = true) :
    Conn m n a b := .step ha hb h (.refl hb)

theorem Conn.symm {m : IMat} {n a b : Nat} (h : Conn m n a b) : Conn m n b a := by
  induction h with
  | refl h => exact .refl h
  | step ha hb he _ ih => exact ih.trans (.link hb ha (by rw [edgeB_symm]; exact he))

/-- a set of indices that is not a union of components is crossed by an edge -/
theorem Conn.crossing {m : IMat} {n : Nat} (S : Nat → Prop) {x y : Nat} (hxy : Conn m n x y)
    (hne : ¬ (S x ↔ S y)) :
    ∃ u v, u < n ∧ v < n ∧ edgeB m u v = true ∧ ¬ (S u ↔ S v) := by
  induction hxy with
  | refl _ => exact absurd Iff.rfl hne
  | step ha hb he _ ih =>
    rename_i a b c _
    by_cases h1 : S a ↔ S b
    · exact ih (fun h2 => hne (h1.trans h2))
    · exact ⟨a, b, ha, hb, he, h1⟩

/-! ## B2: one step -/

theorem step_skip {m : IMat} {i j : Nat} {s : Array Nat × Bool} (h : edgeB m i j = false) :
    step m i s j = s := by
  unfold step
  unfold edgeB at h
  rw [if_neg (by rw [h]; exact Bool.false_ne_true)]

theorem step_same {m : IMat} {i j : Nat} {s : Array Nat × Bool}
    (h : s.1.getD i 0 = s.1.getD j 0) : step m i s j = s := by
  unfold step
  split
  · rw [if_neg (by simp [h])]
  · rfl

theorem step_do {m : IMat} {i j : Nat} {s : Array Nat × Bool} (h1 : edgeB m i j = true)
    (h2 : s.1.getD i 0 ≠ s.1.getD j 0) :
    step m i s j =
      ((s.1.setIfInBounds i (min (s.1.getD i 0) (s.1.getD j 0))).setIfInBounds j
        (min (s.1.getD i 0) (s.1.getD j 0)), true) := by
  unfold step
  unfold edgeB at h1
  rw [if_pos h1, if_pos (by simpa using h2)]

/-- the three possible outcomes of a step -/
theorem step_cases (m : IMat) (i j : Nat) (s : Array Nat × Bool) :
    step m i s j = s ∨
      (edgeB m i j = true ∧ s.1.getD i 0 ≠ s.1.getD j 0 ∧
        step m i s j =
          ((s.1.setIfInBounds i (min (s.1.getD i 0) (s.1.getD j 0))).setIfInBounds j
            (min (s.1.getD i 0) (s.1.getD j 0)), true)) := by
  cases he : edgeB m i j
  · exact Or.inl (step_skip he)
  · by_cases hne : s.1.getD i 0 = s.1.getD j 0
    · exact Or.inl (step_same hne)
    · exact Or.inr ⟨rfl, hne, step_do he hne⟩

@[simp] theorem step_size (m : IMat) (i j : Nat) (s : Array Nat × Bool) :
    (step m i s j).1.size = s.1.size := by
  rcases step_cases m i j s with h | ⟨_, _, h⟩
  · rw [h]
  · rw [h]; simp

/-- labels never increase in a step (no hypotheses needed) -/
theorem step_le (m : IMat) (i j : Nat) (s : Array Nat × Bool) (x : Nat) :
    (step m i s j).1.getD x 0 ≤ s.1.getD x 0 := by
  rcases step_cases m i j s with h | ⟨_, _, h⟩
  · rw [h]; exact Nat.le_refl _
  · rw [h]
    simp only [getD_set]
    split
    · rename_i hx; rw [hx.1]; exact Nat.min_le_right _ _
    · split
      · rename_i hx; rw [hx.1]; exact Nat.min_le_left _ _
      · exact Nat.le_refl _

/-- exact effect of a step at an edge with both ends in range -/
theorem step_getD {m : IMat} {n i j : Nat} {s : Array Nat × Bool} (hs : s.1.size = n) (hi : i < n)
    (hj : j < n) (he : edgeB m i j = true) (x : Nat) :
    (step m i s j).1.getD x 0 =
      if x = i ∨ x = j then min (s.1.getD i 0) (s.1.getD j 0) else s.1.getD x 0 := by
  by_cases hne : s.1.getD i 0 = s.1.getD j 0
  · rw [step_same hne]
    split
    · rename_i hx
      rcases hx with rfl | rfl
      · rw [← hne, Nat.min_self]
      · rw [hne, Nat.min_self]
    · rfl
  · rw [step_do he hne]
    simp only [getD_set, Array.size_setIfInBounds, hs]
    by_cases hxj : x = j
    · simp [hxj, hj]
    · by_cases hxi : x = i
      · simp [hxi, hi]
      · simp [hxj, hxi]

/-! ## sweeps over a list of pairs -/

@[simp] theorem sweepL_nil (m : IMat) (s : Array Nat × Bool) : sweepL m [] s = s := rfl

@[simp] theorem sweepL_cons (m : IMat) (p : Nat × Nat) (l : List (Nat × Nat))
    (s : Array Nat × Bool) : sweepL m (p :: l) s = sweepL m l (step m p.1 s p.2) := rfl

theorem sweepL_append (m : IMat) (l1 l2 : List (Nat × Nat)) (s : Array Nat × Bool) :
    sweepL m (l1 ++ l2) s = sweepL m l2 (sweepL m l1 s) := by
  simp [sweepL, List.foldl_append]

@[simp] theorem sweepL_size (m : IMat) (l : List (Nat × Nat)) (s : Array Nat × Bool) :
    (sweepL m l s).1.size = s.1.size := by
  induction l generalizing s with
  | nil => rfl
  | cons p l ih => rw [sweepL_cons, ih, step_size]

theorem sweepL_le (m : IMat) (l : List (Nat × Nat)) (s : Array Nat × Bool) (x : Nat) :
    (sweepL m l s).1.getD x 0 ≤ s.1.getD x 0 := by
  induction l generalizing s with
  | nil => exact Nat.le_refl _
  | cons p l ih => rw [sweepL_cons]; exact Nat.le_trans (ih _) (step_le m p.1 p.2 s x)

/-- all pairs of the list are in range -/
def InRange (n : Nat) (l : List (Nat × Nat)) : Prop := ∀ p ∈ l, p.1 < n ∧ p.2 < n

theorem mem_pairs {n i j : Nat} : (i, j) ∈ pairs n ↔ i < n ∧ j < n := by
  unfold pairs
  simp only [List.mem_flatMap, List.mem_map, List.mem_range, Prod.mk.injEq]
  constructor
  · rintro ⟨a, ha, b, hb, rfl, rfl⟩; exact ⟨ha, hb⟩
  · rintro ⟨hi, hj⟩; exact ⟨i, hi, j, hj, rfl, rfl⟩

theorem pairs_inRange (n : Nat) : InRange n (pairs n) := fun _ hp => mem_pairs.mp hp

theorem InRange.of_cons {n : Nat} {p : Nat × Nat} {l : List (Nat × Nat)} (h : InRange n (p :: l)) :
    (p.1 < n ∧ p.2 < n) ∧ InRange n l :=
  ⟨h p List.mem_cons_self, fun q hq => h q (List.mem_cons_of_mem _ hq)⟩

theorem InRange.of_append {n : Nat} {l1 l2 : List (Nat × Nat)} (h : InRange n (l1 ++ l2)) :
    InRange n l1 ∧ InRange n l2 :=
  ⟨fun q hq => h q (List.mem_append_left _ hq), fun q hq => h q (List.mem_append_right _ hq)⟩

/-! ## B3: the labelling invariant -/

/-- right size, and every index `x < n` holds the index (`≤ x`) of a member of its component -/
structure LabInv (m : IMat) (n : Nat) (lab : Array Nat) : Prop where
  size_eq : lab.size = n
  cov : ∀ x, x < n → lab.getD x 0 ≤ x ∧ Conn m n x (lab.getD x 0)

theorem step_inv {m : IMat} {n i j : Nat} {s : Array Nat × Bool} (hI : LabInv m n s.1) (hi : i < n)
    (hj : j < n) : LabInv m n (step m i s j).1 := by
  cases he : edgeB m i j
  · rw [step_skip he]; exact hI
  · obtain ⟨hle1, hc1⟩ := hI.cov i hi
    obtain ⟨hle2, hc2⟩ := hI.cov j hj
    have hij : Conn m n i j := .link hi hj he
    refine ⟨by rw [step_size]; exact hI.size_eq, fun x hx => ?_⟩
    rw [step_getD hI.size_eq hi hj he]
    split
    · rename_i hxx
      rcases Nat.le_total (s.1.getD i 0) (s.1.getD j 0) with h12 | h21
      · rw [Nat.min_eq_left h12]
        rcases hxx with rfl | rfl
        · exact ⟨hle1, hc1⟩
        · exact ⟨Nat.le_trans h12 hle2, hij.symm.trans hc1⟩
      · rw [Nat.min_eq_right h21]
        rcases hxx with rfl | rfl
        · exact ⟨Nat.le_trans h21 hle1, hij.trans hc2⟩
        · exact ⟨hle2, hc2⟩
    · exact hI.cov x hx

theorem sweepL_inv {m : IMat} {n : Nat} {l : List (Nat × Nat)} {s : Array Nat × Bool}
    (hI : LabInv m n s.1) (hr : InRange n l) : LabInv m n (sweepL m l s).1 := by
  induction l generalizing s with
  | nil => exact hI
  | cons _ l ih =>
    obtain ⟨⟨h1, h2⟩, hr'⟩ := hr.of_cons
    rw [sweepL_cons]
    exact ih (step_inv hI h1 h2) hr'

theorem sweep_inv {m : IMat} {n : Nat} {lab : Array Nat} (hI : LabInv m n lab) :
    LabInv m n (sweep m n lab).1 :=
  sweepL_inv (s := (lab, false)) hI (pairs_inRange n)

theorem iter_inv {m : IMat} {n : Nat} (k : Nat) {lab : Array Nat} (hI : LabInv m n lab) :
    LabInv m n (iter m n k lab) := by
  induction k generalizing lab with
  | zero => exact hI
  | succ k ih =>
    rw [iter]
    split
    · exact ih (sweep_inv hI)
    · exact sweep_inv hI

theorem initLab_getD (n x : Nat) : (initLab n).getD x 0 = if x < n then x else 0 := by
  unfold initLab
  rw [Array.getD_eq_getD_getElem?, Array.getElem?_ofFn]
  by_cases hx : x < n
  · simp [hx]
  · simp [hx]

theorem initLab_inv (m : IMat) (n : Nat) : LabInv m n (initLab n) := by
  refine ⟨by simp [initLab], fun x hx => ?_⟩
  rw [initLab_getD, if_pos hx]
  exact ⟨Nat.le_refl x, .refl hx⟩

/-- the labels computed by the model satisfy the invariant -/
theorem labels_inv (m : IMat) : LabInv m m.size (labels m) :=
  iter_inv _ (initLab_inv m m.size)

/-! ## B4: the `changed` flag -/

theorem step_flag_false {m : IMat} {i j : Nat} {s : Array Nat × Bool}
    (h : (step m i s j).2 = false) :
    s.2 = false ∧ step m i s j = s ∧ (edgeB m i j = true → s.1.getD i 0 = s.1.getD j 0) := by
  rcases step_cases m i j s with h1 | ⟨_, _, h1⟩
  · refine ⟨by rw [← h, h1], h1, fun he => ?_⟩
    apply Classical.byContradiction
    intro hne
    rw [step_do he hne] at h
    cases h
  · rw [h1] at h; cases h

/-- a sweep that ends with `changed = false` started with `changed = false`, did not touch the
    labels, and saw equal labels at both ends of every edge it visited -/
theorem sweepL_flag_false {m : IMat} {l : List (Nat × Nat)} {s : Array Nat × Bool}
    (h : (sweepL m l s).2 = false) :
    s.2 = false ∧ sweepL m l s = s ∧
      ∀ p ∈ l, edgeB m p.1 p.2 = true → s.1.getD p.1 0 = s.1.getD p.2 0 := by
  induction l generalizing s with
  | nil => exact ⟨h, rfl, fun p hp => by cases hp⟩
  | cons p l ih =>
    rw [sweepL_cons] at h
    obtain ⟨h1, h2, h3⟩ := ih h
    obtain ⟨g1, g2, g3⟩ := step_flag_false h1
    refine ⟨g1, by rw [sweepL_cons, h2, g2], fun q hq => ?_⟩
    rcases List.mem_cons.mp hq with rfl | hq
    · exact g3
    · have := h3 q hq
      rwa [g2] at this

/-- every edge has equal labels at both ends -/
def AllEq (m : IMat) (n : Nat) (lab : Array Nat) : Prop :=
  ∀ i j, i < n → j < n → edgeB m i j = true → lab.getD i 0 = lab.getD j 0

theorem sweep_flag_false {m : IMat} {n : Nat} {lab : Array Nat} (h : (sweep m n lab).2 = false) :
    (sweep m n lab).1 = lab ∧ AllEq m n lab := by
  obtain ⟨_, h2, h3⟩ := sweepL_flag_false (s := (lab, false)) h
  refine ⟨by unfold sweep; rw [h2], fun i j hi hj he => ?_⟩
  exact h3 (i, j) (mem_pairs.mpr ⟨hi, hj⟩) he

/-- labels that agree along every edge agree on every component -/
theorem AllEq.conn {m : IMat} {n : Nat} {lab : Array Nat} (h : AllEq m n lab) {a b : Nat}
    (hab : Conn m n a b) : lab.getD a 0 = lab.getD b 0 := by
  induction hab with
  | refl _ => rfl
  | step ha hb he _ ih => exact (h _ _ ha hb he).trans ih

end Symfc.FindBlocks
