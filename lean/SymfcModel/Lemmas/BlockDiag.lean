/-
  Lemmas/BlockDiag.lean — block-diagonal matrices: eigenvectors assembled block by block
  (`eigsh_projector`): orthonormality, unit-eigenvector property, completeness, zero rows.
-/
import Mathlib.Data.Matrix.Mul
import Mathlib.Algebra.BigOperators.Fin

namespace Symfc.BlockDiag

open Matrix

variable {K : Type*} [CommRing K]
variable {ι κ β : Type*}

/-- `M` is block diagonal with respect to the block map `blk` -/
def IsBlockDiag (blk : ι → β) (M : Matrix ι ι K) : Prop := ∀ i j, blk i ≠ blk j → M i j = 0

/-- every column `k` of `E` is supported in the block `owner k` -/
def ColSupported (blk : ι → β) (owner : κ → β) (E : Matrix ι κ K) : Prop :=
  ∀ i k, blk i ≠ owner k → E i k = 0

/-- **B1** columns supported in single blocks and orthonormal within each block are orthonormal. -/
theorem orthonormal_of_blockwise [Fintype ι] [DecidableEq κ] (blk : ι → β) (owner : κ → β) (E : Matrix ι κ K)
    (hsupp : ColSupported blk owner E)
    (horth : ∀ k k', owner k = owner k' → ∑ i, E i k * E i k' = if k = k' then 1 else 0) :
    Eᵀ * E = 1 := by
  ext k k'
  rw [Matrix.mul_apply]
  simp only [Matrix.transpose_apply]
  by_cases ho : owner k = owner k'
  · rw [horth k k' ho, Matrix.one_apply]
  · have hne : k ≠ k' := fun h => ho (by rw [h])
    rw [Matrix.one_apply_ne hne]
    apply Finset.sum_eq_zero
    intro i _
    by_cases hi : blk i = owner k
    · rw [hsupp i k' (fun h => ho (hi.symm.trans h)), mul_zero]
    · rw [hsupp i k hi, zero_mul]

/-- **B2** if every column is a unit eigenvector of its own diagonal block, it is a unit
    eigenvector of the whole block-diagonal matrix. -/
theorem mul_eq_of_blockwise [Fintype ι] [DecidableEq β] (blk : ι → β) (owner : κ → β) (M : Matrix ι ι K)
    (E : Matrix ι κ K) (hM : IsBlockDiag blk M) (hsupp : ColSupported blk owner E)
    (heig : ∀ k i, blk i = owner k →
      ∑ j, (if blk j = owner k then M i j * E j k else 0) = E i k) :
    M * E = E := by
  ext i k
  rw [Matrix.mul_apply]
  by_cases hi : blk i = owner k
  · rw [← heig k i hi]
    apply Finset.sum_congr rfl
    intro j _
    by_cases hj : blk j = owner k
    · rw [if_pos hj]
    · rw [if_neg hj, hsupp j k hj, mul_zero]
  · rw [hsupp i k hi]
    apply Finset.sum_eq_zero
    intro j _
    by_cases hj : blk j = owner k
    · rw [hM i j (fun h => hi (h.trans hj)), zero_mul]
    · rw [hsupp j k hj, mul_zero]

/-- restriction of a vector to block `b` -/
def restrict [DecidableEq β] (blk : ι → β) (x : ι → K) (b : β) : ι → K :=
  fun i => if blk i = b then x i else 0

theorem sum_restrict [Fintype β] [DecidableEq β] (blk : ι → β) (x : ι → K) :
    (fun i => ∑ b, restrict blk x b i) = x := by
  funext i
  simp [restrict]

/-- block diagonality: `M (x_b) = (M x)_b` -/
theorem mulVec_restrict [Fintype ι] [DecidableEq β] (blk : ι → β) (M : Matrix ι ι K) (hM : IsBlockDiag blk M)
    (x : ι → K) (b : β) : M *ᵥ restrict blk x b = restrict blk (M *ᵥ x) b := by
  funext i
  simp only [Matrix.mulVec, dotProduct, restrict]
  by_cases hi : blk i = b
  · rw [if_pos hi]
    apply Finset.sum_congr rfl
    intro j _
    by_cases hj : blk j = b
    · rw [if_pos hj]
    · rw [if_neg hj, mul_zero, hM i j (fun h => hj (h.symm.trans hi)), zero_mul]
  · rw [if_neg hi]
    apply Finset.sum_eq_zero
    intro j _
    by_cases hj : blk j = b
    · rw [hM i j (fun h => hi (h.trans hj)), zero_mul]
    · rw [if_neg hj, mul_zero]

/-- **B3** completeness: if for each block `b` the columns owned by `b` span the unit eigenvectors
    supported in `b`, then the columns of `E` span all unit eigenvectors of the block-diagonal `M`.
    (Symmetry of `M` and `xᵀ M x ≤ xᵀ x` are not needed.) -/
theorem complete_of_blockwise [Fintype ι] [Fintype κ] [Fintype β] [DecidableEq β] (blk : ι → β) (owner : κ → β) (M : Matrix ι ι K)
    (E : Matrix ι κ K) (hM : IsBlockDiag blk M)
    (hspan : ∀ b (x : ι → K), (∀ i, blk i ≠ b → x i = 0) → M *ᵥ x = x →
      ∃ a : κ → K, (∀ k, owner k ≠ b → a k = 0) ∧ x = E *ᵥ a)
    (x : ι → K) (hx : M *ᵥ x = x) : ∃ a : κ → K, x = E *ᵥ a := by
  have hb : ∀ b, ∃ a : κ → K, (∀ k, owner k ≠ b → a k = 0) ∧ restrict blk x b = E *ᵥ a := by
    intro b
    apply hspan b
    · intro i hi
      simp [restrict, hi]
    · rw [mulVec_restrict blk M hM, hx]
  choose a _ ha using hb
  refine ⟨fun k => ∑ b, a b k, ?_⟩
  funext i
  have h1 : x i = ∑ b, restrict blk x b i := (congrFun (sum_restrict blk x) i).symm
  rw [h1]
  simp only [Matrix.mulVec, dotProduct]
  simp only [Finset.mul_sum]
  rw [Finset.sum_comm]
  apply Finset.sum_congr rfl
  intro b _
  rw [ha b]
  simp only [Matrix.mulVec, dotProduct]

/-- **B4** zero rows: a unit eigenvector vanishes on every zero row of `M`. -/
theorem eigvec_zero_of_zero_row [Fintype ι] (M : Matrix ι ι K) (S : ι → Prop)
    (hS : ∀ i, ¬ S i → ∀ j, M i j = 0) (x : ι → K) (hx : M *ᵥ x = x) :
    ∀ i, ¬ S i → x i = 0 := by
  intro i hi
  rw [← hx]
  simp only [Matrix.mulVec, dotProduct]
  apply Finset.sum_eq_zero
  intro j _
  rw [hS i hi j, zero_mul]

theorem sum_subtype_of_zero [Fintype ι] (S : ι → Prop) [DecidablePred S] (f : ι → K)
    (hf : ∀ i, ¬ S i → f i = 0) : ∑ j : {i // S i}, f j = ∑ j, f j := by
  rw [← Finset.sum_subtype (p := S) (Finset.univ.filter S) (by simp) f, Finset.sum_filter]
  apply Finset.sum_congr rfl
  intro j _
  by_cases hj : S j
  · rw [if_pos hj]
  · rw [if_neg hj, hf j hj]

/-- **B4'** compression to the non-zero rows `S` loses no unit eigenvector: the restriction of a
    unit eigenvector of `M` is a unit eigenvector of the compressed matrix (and by **B4** the
    eigenvector is the zero-extension of its restriction). -/
theorem compress_eigvec [Fintype ι] (M : Matrix ι ι K) (S : ι → Prop) [DecidablePred S]
    (hS : ∀ i, ¬ S i → ∀ j, M i j = 0) (x : ι → K) (hx : M *ᵥ x = x) :
    (M.submatrix (Subtype.val : {i // S i} → ι) Subtype.val) *ᵥ (fun j : {i // S i} => x j.1)
      = fun j : {i // S i} => x j.1 := by
  have h0 := eigvec_zero_of_zero_row M S hS x hx
  funext i
  have h1 := congrFun hx i.1
  simp only [Matrix.mulVec, dotProduct, Matrix.submatrix_apply] at h1 ⊢
  rw [← h1]
  exact sum_subtype_of_zero S (fun j => M i.1 j * x j) (fun j hj => by rw [h0 j hj, mul_zero])

/-- **B4''** conversely the zero-extension of a unit eigenvector of the compressed matrix is a
    unit eigenvector of `M`. -/
theorem extend_eigvec [Fintype ι] (M : Matrix ι ι K) (S : ι → Prop) [DecidablePred S]
    (hS : ∀ i, ¬ S i → ∀ j, M i j = 0) (y : {i // S i} → K)
    (hy : (M.submatrix (Subtype.val : {i // S i} → ι) Subtype.val) *ᵥ y = y) :
    M *ᵥ (fun i => if h : S i then y ⟨i, h⟩ else 0) = fun i => if h : S i then y ⟨i, h⟩ else 0 := by
  funext i
  simp only [Matrix.mulVec, dotProduct]
  by_cases hi : S i
  · rw [dif_pos hi]
    have h1 := congrFun hy ⟨i, hi⟩
    simp only [Matrix.mulVec, dotProduct, Matrix.submatrix_apply] at h1
    rw [← h1, ← sum_subtype_of_zero S
      (fun j => M i j * (if h : S j then y ⟨j, h⟩ else 0))
      (fun j hj => by simp only [dif_neg hj, mul_zero])]
    apply Finset.sum_congr rfl
    intro j _
    rw [dif_pos j.2]
  · rw [dif_neg hi]
    apply Finset.sum_eq_zero
    intro j _
    rw [hS i hi j, zero_mul]

/-- **B1 + B2 + B3 together**: the block-wise assembled `E` has orthonormal columns, all of them
    unit eigenvectors of `M`, and they span the unit eigenspace of `M`. -/
theorem blockwise_eigvecs [Fintype ι] [Fintype κ] [Fintype β] [DecidableEq κ] [DecidableEq β]
    (blk : ι → β) (owner : κ → β) (M : Matrix ι ι K) (E : Matrix ι κ K)
    (hM : IsBlockDiag blk M) (hsupp : ColSupported blk owner E)
    (horth : ∀ k k', owner k = owner k' → ∑ i, E i k * E i k' = if k = k' then 1 else 0)
    (heig : ∀ k i, blk i = owner k →
      ∑ j, (if blk j = owner k then M i j * E j k else 0) = E i k)
    (hspan : ∀ b (x : ι → K), (∀ i, blk i ≠ b → x i = 0) → M *ᵥ x = x →
      ∃ a : κ → K, (∀ k, owner k ≠ b → a k = 0) ∧ x = E *ᵥ a) :
    Eᵀ * E = 1 ∧ M * E = E ∧ ∀ x : ι → K, M *ᵥ x = x ↔ ∃ a : κ → K, x = E *ᵥ a := by
  have h2 := mul_eq_of_blockwise blk owner M E hM hsupp heig
  refine ⟨orthonormal_of_blockwise blk owner E hsupp horth, h2, fun x => ⟨?_, ?_⟩⟩
  · exact complete_of_blockwise blk owner M E hM hspan x
  · rintro ⟨a, rfl⟩
    rw [Matrix.mulVec_mulVec, h2]

section axioms
end axioms

end Symfc.BlockDiag
