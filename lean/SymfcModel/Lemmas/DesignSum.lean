/-
  Lemmas/DesignSum.lean — finite integer sums over `List.range` (`rsum`) and over lists (`lsum`):
  congruence, single-point collapse, Fubini, `range (A*B)` vs nested ranges, reindexing along a
  bijection, `foldl`-accumulation into an array via `Array.modify`.
-/
import SymfcModel.Lemmas.Batch
namespace Symfc

/-- `Σ_{x ∈ l} f x` -/
def lsum {α} (l : List α) (f : α → Int) : Int := (l.map f).sum

/-- `Σ_{i < n} f i` -/
def rsum (n : Nat) (f : Nat → Int) : Int := lsum (List.range n) f

@[simp] theorem lsum_nil {α} (f : α → Int) : lsum [] f = 0 := rfl
@[simp] theorem lsum_cons {α} (a : α) (l : List α) (f : α → Int) :
    lsum (a :: l) f = f a + lsum l f := rfl

theorem lsum_append {α} (l₁ l₂ : List α) (f : α → Int) :
    lsum (l₁ ++ l₂) f = lsum l₁ f + lsum l₂ f := by
  simp [lsum]

theorem lsum_congr {α} {l : List α} {f g : α → Int} (h : ∀ a ∈ l, f a = g a) :
    lsum l f = lsum l g := by
  unfold lsum
  rw [List.map_congr_left h]

theorem lsum_zero {α} (l : List α) : lsum l (fun _ => 0) = 0 := by
  induction l with
  | nil => rfl
  | cons a l ih => simp [ih]

theorem lsum_eq_zero {α} {l : List α} {f : α → Int} (h : ∀ a ∈ l, f a = 0) : lsum l f = 0 := by
  rw [lsum_congr h, lsum_zero]

theorem lsum_add {α} (l : List α) (f g : α → Int) :
    lsum l (fun a => f a + g a) = lsum l f + lsum l g := by
  induction l with
  | nil => rfl
  | cons a l ih => simp only [lsum_cons, ih]; omega

theorem lsum_mul_left {α} (l : List α) (c : Int) (f : α → Int) :
    lsum l (fun a => c * f a) = c * lsum l f := by
  induction l with
  | nil => simp
  | cons a l ih => simp only [lsum_cons, ih, Int.mul_add]

theorem lsum_map {α β} (l : List α) (g : α → β) (f : β → Int) :
    lsum (l.map g) f = lsum l (fun a => f (g a)) := by
  simp [lsum, List.map_map, Function.comp_def]

theorem lsum_flatMap {α β} (l : List α) (g : α → List β) (f : β → Int) :
    lsum (l.flatMap g) f = lsum l (fun a => lsum (g a) f) := by
  unfold lsum
  exact sum_map_flatMap_int l g f

theorem lsum_swap {α β} (l₁ : List α) (l₂ : List β) (f : α → β → Int) :
    lsum l₁ (fun a => lsum l₂ (fun b => f a b)) = lsum l₂ (fun b => lsum l₁ (fun a => f a b)) := by
  induction l₁ with
  | nil => simp [lsum_zero]
  | cons a l ih => simp only [lsum_cons, ih, lsum_add]

theorem foldl_add_eq_lsum {α} (l : List α) (f : α → Int) (z : Int) :
    l.foldl (fun s r => s + f r) z = z + lsum l f := by
  induction l generalizing z with
  | nil => simp
  | cons a l ih => simp only [List.foldl_cons, ih, lsum_cons]; omega

/-! ### sums over ranges -/

@[simp] theorem rsum_zero (f : Nat → Int) : rsum 0 f = 0 := rfl

theorem rsum_succ (n : Nat) (f : Nat → Int) : rsum (n + 1) f = rsum n f + f n := by
  simp [rsum, List.range_succ, lsum_append]

theorem rsum_congr {n : Nat} {f g : Nat → Int} (h : ∀ i, i < n → f i = g i) :
    rsum n f = rsum n g :=
  lsum_congr (fun a ha => h a (List.mem_range.mp ha))

theorem rsum_eq_zero {n : Nat} {f : Nat → Int} (h : ∀ i, i < n → f i = 0) : rsum n f = 0 :=
  lsum_eq_zero (fun a ha => h a (List.mem_range.mp ha))

theorem rsum_add (n : Nat) (f g : Nat → Int) :
    rsum n (fun a => f a + g a) = rsum n f + rsum n g := lsum_add _ f g

theorem rsum_swap (A B : Nat) (f : Nat → Nat → Int) :
    rsum A (fun a => rsum B (fun b => f a b)) = rsum B (fun b => rsum A (fun a => f a b)) :=
  lsum_swap _ _ f

/-- a sum with a single non-zero term -/
theorem rsum_single {n : Nat} {f : Nat → Int} (i0 : Nat) (h0 : i0 < n)
    (h : ∀ i, i < n → i ≠ i0 → f i = 0) : rsum n f = f i0 := by
  induction n with
  | zero => omega
  | succ n ih =>
    rw [rsum_succ]
    by_cases e : i0 = n
    · subst e
      rw [rsum_eq_zero (fun i hi => h i (by omega) (by omega))]; omega
    · rw [ih (by omega) (fun i hi hne => h i (by omega) hne), h n (by omega) (fun e' => e e'.symm)]
      omega

/-- shifted ranges -/
theorem lsum_range' (s n : Nat) (f : Nat → Int) :
    lsum (List.range' s n) f = rsum n (fun i => f (s + i)) := by
  rw [List.range'_eq_map_range, lsum_map]; rfl

theorem rsum_add_range (A B : Nat) (f : Nat → Int) :
    rsum (A + B) f = rsum A f + rsum B (fun j => f (A + j)) := by
  induction B with
  | zero => simp
  | succ B ih => rw [← Nat.add_assoc, rsum_succ, rsum_succ, ih]; omega

/-- `range (A*B)` as nested ranges -/
theorem rsum_mul (A B : Nat) (f : Nat → Int) :
    rsum (A * B) f = rsum A (fun i => rsum B (fun j => f (i * B + j))) := by
  induction A with
  | zero => simp
  | succ A ih => rw [Nat.succ_mul, rsum_add_range, ih, rsum_succ]

/-- reindexing along a bijection `g : [0,A) → [0,B)` with inverse `h` -/
theorem rsum_bij {A B : Nat} (g h : Nat → Nat) (F : Nat → Int)
    (hg : ∀ i, i < A → g i < B) (hh : ∀ t, t < B → h t < A)
    (hhg : ∀ i, i < A → h (g i) = i) (hgh : ∀ t, t < B → g (h t) = t) :
    rsum A (fun i => F (g i)) = rsum B F := by
  have e1 : rsum A (fun i => F (g i))
      = rsum A (fun i => rsum B (fun t => if t = g i then F t else 0)) := by
    apply rsum_congr
    intro i hi
    rw [rsum_single (g i) (hg i hi)]
    · simp
    · intro t _ hne; simp [hne]
  have e2 : rsum B F = rsum B (fun t => rsum A (fun i => if t = g i then F t else 0)) := by
    apply rsum_congr
    intro t ht
    rw [rsum_single (h t) (hh t ht)]
    · simp [hgh t ht]
    · intro i hi hne
      have : t ≠ g i := by
        intro e; apply hne; rw [e, hhg i hi]
      simp [this]
  rw [e1, e2, rsum_swap]

/-! ### accumulation into a dense array -/

theorem foldl_modify_size {ε} (l : List ε) (pos : ε → Nat) (w : ε → Int) (init : Array Int) :
    (l.foldl (fun acc e => acc.modify (pos e) (· + w e)) init).size = init.size := by
  induction l generalizing init with
  | nil => rfl
  | cons a l ih => simp only [List.foldl_cons, ih, Array.size_modify]

theorem foldl_modify_getD {ε} (l : List ε) (pos : ε → Nat) (w : ε → Int) (init : Array Int)
    (m : Nat) (hm : m < init.size) :
    (l.foldl (fun acc e => acc.modify (pos e) (· + w e)) init).getD m 0
      = init.getD m 0 + lsum l (fun e => if pos e = m then w e else 0) := by
  induction l generalizing init with
  | nil => simp
  | cons a l ih =>
    simp only [List.foldl_cons, lsum_cons]
    rw [ih _ (by simpa using hm)]
    have : (init.modify (pos a) (· + w a)).getD m 0
        = init.getD m 0 + (if pos a = m then w a else 0) := by
      simp only [Array.getD_eq_getD_getElem?, Array.getElem?_modify]
      by_cases e : pos a = m
      · simp [e, hm]
      · simp [e]
    rw [this]; omega

end Symfc
