/-
  Lemmas/Relabel3.lean — relabelled tensor elements (`relabelTuple`): validity, injectivity, and how
  relabelling commutes with index permutations (`OC.act`), lattice translations (`OC.tauE`) and the
  coverage condition (`Relabel.Covered`).
-/
import SymfcModel.Lemmas.Relabel1
import SymfcModel.Lemmas.Relabel2
namespace Symfc
namespace Relabel
open Relabelling OC Cov

/-- the (optional) cutoff input of the relabelled description -/
def relabelCut (π πinv : Array Nat) (cut : Option CutoffIn) : Option CutoffIn :=
  cut.map (CutoffIn.relabel π πinv)

theorem relabelEntry_div (π : Array Nat) (e : Nat) : relabelEntry π e / 3 = ap π (e / 3) := by
  unfold relabelEntry; omega

theorem relabelEntry_mod (π : Array Nat) (e : Nat) : relabelEntry π e % 3 = e % 3 := by
  unfold relabelEntry; omega

theorem relabelEntry_lt {N : Nat} {π πinv : Array Nat} (hπ : IsRel N π πinv) {e : Nat}
    (he : e < 3 * N) : relabelEntry π e < 3 * N := by
  have := hπ.lt (e / 3) (by omega)
  unfold relabelEntry; omega

theorem relabelEntry_inj {N : Nat} {π πinv : Array Nat} (hπ : IsRel N π πinv) {a b : Nat}
    (ha : a < 3 * N) (hb : b < 3 * N) (e : relabelEntry π a = relabelEntry π b) : a = b := by
  unfold relabelEntry at e
  have h1 : ap π (a / 3) = ap π (b / 3) := by omega
  have := hπ.inj (by omega) (by omega) h1
  omega

theorem valid_relabelTuple {N n : Nat} {π πinv : Array Nat} (hπ : IsRel N π πinv) {t : List Nat}
    (ht : Valid N n t) : Valid N n (relabelTuple π t) := by
  refine ⟨by rw [relabelTuple, List.length_map, ht.1], ?_⟩
  intro e he
  obtain ⟨a, ha, rfl⟩ := List.mem_map.mp he
  exact relabelEntry_lt hπ (ht.2 a ha)

/-- a map that is injective on the members of two lists is injective on the lists -/
theorem map_inj_on (f : Nat → Nat) : ∀ (t s : List Nat),
    (∀ a ∈ t, ∀ b ∈ s, f a = f b → a = b) → t.map f = s.map f → t = s := by
  intro t
  induction t with
  | nil =>
    intro s _ h
    cases s with
    | nil => rfl
    | cons b s => simp at h
  | cons a t ih =>
    intro s hinj h
    cases s with
    | nil => simp at h
    | cons b s =>
      simp only [List.map_cons, List.cons.injEq] at h
      have e := hinj a (by simp) b (by simp) h.1
      subst e
      rw [ih s (fun x hx y hy => hinj x (by simp [hx]) y (by simp [hy])) h.2]

/-- relabelling is injective on valid tuples -/
theorem relabelTuple_inj {N n : Nat} {π πinv : Array Nat} (hπ : IsRel N π πinv) {t s : List Nat}
    (ht : Valid N n t) (hs : Valid N n s) (e : relabelTuple π t = relabelTuple π s) : t = s :=
  map_inj_on (relabelEntry π) t s
    (fun a ha b hb e' => relabelEntry_inj hπ (ht.2 a ha) (hs.2 b hb) e') e

/-- index permutations commute with relabelling -/
theorem act_relabelTuple (π : Array Nat) {σ t : List Nat} (h : ∀ i ∈ σ, i < t.length) :
    act σ (relabelTuple π t) = relabelTuple π (act σ t) :=
  act_map (relabelEntry π) h

/-- the relabelled translation of a relabelled entry is the relabelled translated entry -/
theorem tauE_relabel {π πinv : Array Nat} {c : Cell} (hπ : IsRel c.N π πinv) {l e : Nat}
    (hl : l < c.nlp) (he : e < 3 * c.N) :
    tauE (c.relabel π πinv) l (relabelEntry π e) = relabelEntry π (tauE c l e) := by
  have h1 := img_relabel_ap hπ hl (show e / 3 < c.N by omega)
  unfold tauE
  rw [relabelEntry_div, relabelEntry_mod, h1]
  show _ = 3 * ap π ((3 * c.img l (e / 3) + e % 3) / 3) + (3 * c.img l (e / 3) + e % 3) % 3
  have e1 : (3 * c.img l (e / 3) + e % 3) / 3 = c.img l (e / 3) := by omega
  have e2 : (3 * c.img l (e / 3) + e % 3) % 3 = e % 3 := by omega
  rw [e1, e2]

/-- lattice translations commute with relabelling -/
theorem map_tauE_relabelTuple {π πinv : Array Nat} {c : Cell} (hπ : IsRel c.N π πinv) {n l : Nat}
    (hl : l < c.nlp) {t : List Nat} (ht : Valid c.N n t) :
    (relabelTuple π t).map (tauE (c.relabel π πinv) l) = relabelTuple π (t.map (tauE c l)) := by
  unfold relabelTuple
  rw [List.map_map, List.map_map]
  apply List.map_congr_left
  intro e he
  exact tauE_relabel hπ hl (ht.2 e he)

/-- the atoms of the relabelled tuple -/
theorem relabelTuple_atoms (π : Array Nat) (t : List Nat) :
    (relabelTuple π t).map (· / 3) = (t.map (· / 3)).map (ap π) := by
  unfold relabelTuple
  rw [List.map_map, List.map_map]
  apply List.map_congr_left
  intro e _
  exact relabelEntry_div π e

/-- the cutoff condition does not see the relabelling -/
theorem admissible_relabel {N n : Nat} {π πinv : Array Nat} (hπ : IsRel N π πinv)
    (cut : Option CutoffIn) (hcutN : ∀ x, cut = some x → x.N = N) {t : List Nat}
    (ht : Valid N n t) :
    admissible (relabelCut π πinv cut) (relabelTuple π t) ↔ admissible cut t := by
  have hat := (valid_atoms ht).2
  cases cut with
  | none => exact ⟨fun _ => admissible_none _, fun _ => admissible_none _⟩
  | some x =>
    have hN := hcutN x rfl
    show admissible (some (x.relabel π πinv)) _ ↔ _
    rw [admissible_some, admissible_some, relabelTuple_atoms]
    constructor
    · intro h a ha b hb
      exact (near_relabel_ap hπ x hN (hat a ha) (hat b hb)).mp
        (h _ (List.mem_map.mpr ⟨a, ha, rfl⟩) _ (List.mem_map.mpr ⟨b, hb, rfl⟩))
    · intro h a ha b hb
      obtain ⟨a0, ha0, rfl⟩ := List.mem_map.mp ha
      obtain ⟨b0, hb0, rfl⟩ := List.mem_map.mp hb
      exact (near_relabel_ap hπ x hN (hat a0 ha0) (hat b0 hb0)).mpr (h a0 ha0 b0 hb0)

/-- the coverage condition does not see the relabelling -/
theorem covered_relabel {N n : Nat} {π πinv : Array Nat} (hπ : IsRel N π πinv)
    (cut : Option CutoffIn) (hcutN : ∀ x, cut = some x → x.N = N) {t : List Nat}
    (ht : Valid N n t) :
    Covered n (relabelCut π πinv cut) (relabelTuple π t) ↔ Covered n cut t := by
  unfold Covered
  rw [admissible_relabel hπ cut hcutN ht]
  have : exclFor n (relabelTuple π t) = exclFor n t :=
    exclFor_invariant t (relabelEntry π)
      (fun a ha b hb e => relabelEntry_inj hπ (ht.2 a ha) (ht.2 b hb) e)
  rw [this]

/-- the relabelled cutoff input fits the relabelled cell -/
theorem relabelCut_ok {π πinv : Array Nat} {c : Cell} (hwf : c.wf = true) (hπ : IsRel c.N π πinv)
    {cut : Option CutoffIn} (hcut : ∀ x, cut = some x → CutOK c x) :
    ∀ y, relabelCut π πinv cut = some y → CutOK (c.relabel π πinv) y := by
  intro y hy
  cases cut with
  | none => cases hy
  | some x =>
    cases hy
    exact cutOK_relabel hwf hπ (hcut x rfl)

end Relabel
end Symfc
