/-
  Lemmas/SgPermFullE.lean — B4 in its core form (`sgPermutations_core`): symmetry hypothesis given by permutations σ_i,
  lattice-translation hypothesis given as `latTransIdx … = [l]`.
-/
import SymfcModel.Lemmas.SgPermFullD
namespace Symfc.SgPermFull
open Symfc

theorem rotPermsOf_eq (S : Int) (ps : List (List Int)) (ur : List (List (List Int))) (ut : List (List Int)) :
    rotPermsOf S ps ur ut =
      allSomeL ((ur.zip ut).map (fun x => exactMatch S ps (ps.map (applyOp S x.1 x.2)))) := rfl

theorem finalLoop_eq (S : Int) (trans pureT : List (List Int)) (tps : List (List Nat)) (ut : List (List Int))
    (m : List Nat) (ups : List (List Nat)) :
    finalLoop S trans pureT tps ut m ups =
      allSomeL ((List.range trans.length).map (fun i =>
        outRow tps (latTransIdx S pureT (subVec (trans.getD i []) (ut.getD (m.getD i 0) [])))
          (ups.getD (m.getD i 0) []))) := rfl

theorem outRow_singleton (tps : List (List Nat)) (l : Nat) (perms : List Nat) :
    outRow tps [l] perms = some (composeOut (tps.getD l []) perms) := rfl

/-- one output row: rotation permutation of the first operation with the same rotation, then the permutation of the
    lattice translation `T ≡ t_i − t_first` -/
theorem compose_row (S : Int) (ps : List (List Int)) (R : List (List Int)) (tf ti T : List Int)
    (tp perm : List Nat)
    (hR : R.length = 3) (htf : tf.length = 3) (hti : ti.length = 3)
    (hT : Cong S T (subVec ti tf))
    (htpP : tp.Perm (List.range ps.length))
    (htp : ∀ b, b < ps.length → Cong S (ps.getD (tp.getD b 0) []) (transPos T (ps.getD b [])))
    (hpermP : perm.Perm (List.range ps.length))
    (hperm : ∀ a, a < ps.length → Cong S (ps.getD (perm.getD a 0) []) (applyOp S R tf (ps.getD a []))) :
    (composeOut tp perm).Perm (List.range ps.length) ∧
    ∀ a, a < ps.length →
      Cong S (ps.getD ((composeOut tp perm).getD a 0) []) (applyOp S R ti (ps.getD a [])) := by
  refine ⟨composeOut_perm tp perm _ htpP hpermP, ?_⟩
  intro a ha
  have hb := getD_lt_of_perm hpermP a ha
  have hpl : perm.length = ps.length := by rw [hpermP.length_eq, List.length_range]
  have htl : tp.length = ps.length := by rw [htpP.length_eq, List.length_range]
  rw [composeOut_getD tp perm a (hpl ▸ ha) (htl ▸ hb)]
  exact cong_compose S R tf ti T _ _ _ hR htf hti hT (hperm a ha) (htp _ hb)

/-- B4, core form -/
theorem sgPermutations_core (S : Int) (ps : List (List Int)) (rots : List (List (List Int)))
    (trans : List (List Int))
    (hps : ∀ p ∈ ps, p.length = 3) (hrots : ∀ R ∈ rots, R.length = 3) (htrans : ∀ t ∈ trans, t.length = 3)
    (hn : rots.length = trans.length)
    (hd : positionsDistinct S ps = true)
    (hsym : ∀ i, i < rots.length → ∃ σ : List Nat, σ.Perm (List.range ps.length) ∧
      ∀ a, a < ps.length →
        Cong S (ps.getD (σ.getD a 0) []) (applyOp S (rots.getD i []) (trans.getD i []) (ps.getD a [])))
    (hlat : ∀ i, i < rots.length → ∃ l, latTransIdx S (pureTranslations rots trans)
      (subVec (trans.getD i []) (trans.getD (firstOp rots i) [])) = [l]) :
    ∃ out, sgPermutations S ps rots trans = some out ∧ out.length = rots.length ∧
      ∀ i, i < rots.length → (out.getD i []).Perm (List.range ps.length) ∧
        ∀ a, a < ps.length → Cong S (ps.getD ((out.getD i []).getD a 0) [])
          (applyOp S (rots.getD i []) (trans.getD i []) (ps.getD a [])) := by
  have hpsl : ∀ a, a < ps.length → (ps.getD a []).length = 3 := fun a ha => getD_length_of_forall hps a ha
  have hrl : ∀ i, i < rots.length → (rots.getD i []).length = 3 := fun i hi => hrots _ (getD_mem _ _ _ hi)
  have htl : ∀ i, i < rots.length → (trans.getD i []).length = 3 :=
    fun i hi => htrans _ (getD_mem _ _ _ (hn ▸ hi))
  -- step 1: the pure-translation loop
  have hpure : ∀ t ∈ pureTranslations rots trans, t.length = 3 ∧ ∃ tp, transPerm S ps t = some tp := by
    intro t ht
    obtain ⟨k, hk1, hk2, hid, rfl⟩ := mem_pureTranslations rots trans t ht
    obtain ⟨σ, hσ, hσs⟩ := hsym k hk1
    refine ⟨htl k hk1, σ, transPerm_complete S ps _ σ hd hσ ?_⟩
    intro a ha
    rw [← applyOp_identity S _ _ _ hid (htl k hk1) (hpsl a ha)]
    exact hσs a ha
  have e1 := allSomeL_map_of_exists (transPerm S ps) [] _ (fun t ht => (hpure t ht).2)
  -- step 2: the scan
  obtain ⟨_, hlenT, hlenM, hidx, hsrc⟩ := unique_rotation_scan rots trans hn
  -- step 3: rotation permutations
  have hrot : ∀ u, u < (rotScan (rots.zip trans)).1.length →
      ∃ f, f < rots.length ∧ (rotScan (rots.zip trans)).1.getD u [] = rots.getD f [] ∧
        (rotScan (rots.zip trans)).2.1.getD u [] = trans.getD f [] ∧
        ∃ perm, exactMatch S ps (ps.map (applyOp S (rots.getD f []) (trans.getD f []))) = some perm := by
    intro u hu
    obtain ⟨f, hf, _, h2, h3⟩ := hsrc u hu
    obtain ⟨σ, hσ, hσs⟩ := hsym f hf
    refine ⟨f, hf, h2, h3, σ, exactMatch_complete S 3 ps _ σ hps (by simp) hd hσ ?_⟩
    intro a ha
    rw [getD_map_lt ps _ a ha [] []]
    exact hσs a ha
  have e2 := allSomeL_map_of_exists
    (fun x : List (List Int) × List Int => exactMatch S ps (ps.map (applyOp S x.1 x.2))) []
    ((rotScan (rots.zip trans)).1.zip (rotScan (rots.zip trans)).2.1) (by
      intro x hx
      obtain ⟨u, hu, hue⟩ := List.getElem_of_mem hx
      have hu' : u < (rotScan (rots.zip trans)).1.length ∧ u < (rotScan (rots.zip trans)).2.1.length := by
        rw [List.length_zip] at hu; omega
      obtain ⟨f, _, h2, h3, perm, hperm⟩ := hrot u hu'.1
      rw [List.getElem_zip] at hue
      refine ⟨perm, ?_⟩
      rw [← hue]
      simp only
      have g1 : (rotScan (rots.zip trans)).1[u] = rots.getD f [] := by
        rw [← h2]; simp [List.getD_eq_getElem?_getD, hu'.1]
      have g2 : (rotScan (rots.zip trans)).2.1[u] = trans.getD f [] := by
        rw [← h3]; simp [List.getD_eq_getElem?_getD, hu'.2]
      rw [g1, g2]; exact hperm)
  -- step 4: every row of the final loop
  have hrow : ∀ i, i < rots.length → ∃ row,
      outRow ((pureTranslations rots trans).map (fun t => (transPerm S ps t).getD []))
        (latTransIdx S (pureTranslations rots trans) (subVec (trans.getD i [])
          ((rotScan (rots.zip trans)).2.1.getD ((rotScan (rots.zip trans)).2.2.getD i 0) [])))
        ((((rotScan (rots.zip trans)).1.zip (rotScan (rots.zip trans)).2.1).map
          (fun x => (exactMatch S ps (ps.map (applyOp S x.1 x.2))).getD [])).getD
            ((rotScan (rots.zip trans)).2.2.getD i 0) []) = some row ∧
      row.Perm (List.range ps.length) ∧
      ∀ a, a < ps.length → Cong S (ps.getD (row.getD a 0) [])
        (applyOp S (rots.getD i []) (trans.getD i []) (ps.getD a [])) := by
    intro i hi
    obtain ⟨hu, _, hur, _, hut⟩ := hidx i hi
    obtain ⟨l, hl⟩ := hlat i hi
    have hfi := (firstOp_spec rots i hi).1
    obtain ⟨hl1, hl2, _⟩ := (filter_range_singleton_iff _ _ _).mp hl
    rw [hut, hl, outRow_singleton]
    refine ⟨_, rfl, ?_⟩
    -- the translation permutation
    have hTmem := getD_mem (pureTranslations rots trans) [] l hl1
    obtain ⟨hTlen, tp, htp⟩ := hpure _ hTmem
    have htps := transPerm_sound S 3 ps _ tp hps hTlen hd htp
    have e3 : ((pureTranslations rots trans).map (fun t => (transPerm S ps t).getD [])).getD l [] = tp := by
      rw [getD_map_lt _ _ l hl1 [] [], htp]; rfl
    -- the rotation permutation
    obtain ⟨f, hf, h2, h3, perm, hperm⟩ := hrot _ hu
    have hzl : (rotScan (rots.zip trans)).2.2.getD i 0 <
        ((rotScan (rots.zip trans)).1.zip (rotScan (rots.zip trans)).2.1).length := by
      rw [List.length_zip, hlenT]; simpa using hu
    have e4 : (((rotScan (rots.zip trans)).1.zip (rotScan (rots.zip trans)).2.1).map
          (fun x => (exactMatch S ps (ps.map (applyOp S x.1 x.2))).getD [])).getD
            ((rotScan (rots.zip trans)).2.2.getD i 0) [] = perm := by
      rw [getD_map_lt _ _ _ hzl ([], []) [], getD_zip_lt _ _ _ hu (hlenT ▸ hu) [] []]
      simp only
      rw [h2, h3, hperm]; rfl
    have hperms := exactMatch_sound S 3 ps _ perm hps (by
      intro x hx
      rw [List.mem_map] at hx
      obtain ⟨y, _, rfl⟩ := hx
      rw [applyOp_length, hrl f hf, htl f hf]; rfl) (by simp) hd hperm
    rw [e3, e4]
    have hRf : rots.getD f [] = rots.getD i [] := by rw [← h2, hur]
    have hTf : trans.getD f [] = trans.getD (firstOp rots i) [] := by rw [← h3, hut]
    have hT : Cong S ((pureTranslations rots trans).getD l [])
        (subVec (trans.getD i []) (trans.getD (firstOp rots i) [])) := by
      apply (sameSite_iff_cong S _ _ _).mp hl2
      rw [hTlen, subVec_length, htl i hi, htl _ (by omega)]; rfl
    apply compose_row S ps (rots.getD i []) (trans.getD (firstOp rots i) []) (trans.getD i []) _ tp perm
      (hrl i hi) (htl _ (by omega)) (htl i hi) hT htps.2.1 htps.2.2 hperms.2.1
    intro a ha
    have := hperms.2.2.1 a ha
    rw [getD_map_lt ps _ a ha [] [], hRf, hTf] at this
    exact this
  have e5 := allSomeL_map_of_exists (fun i =>
      outRow ((pureTranslations rots trans).map (fun t => (transPerm S ps t).getD []))
        (latTransIdx S (pureTranslations rots trans) (subVec (trans.getD i [])
          ((rotScan (rots.zip trans)).2.1.getD ((rotScan (rots.zip trans)).2.2.getD i 0) [])))
        ((((rotScan (rots.zip trans)).1.zip (rotScan (rots.zip trans)).2.1).map
          (fun x => (exactMatch S ps (ps.map (applyOp S x.1 x.2))).getD [])).getD
            ((rotScan (rots.zip trans)).2.2.getD i 0) [])) [] (List.range trans.length) (by
      intro i hi
      obtain ⟨row, h1, _⟩ := hrow i (hn ▸ List.mem_range.mp hi)
      exact ⟨row, h1⟩)
  refine ⟨?out, ?h1, ?h2, ?h3⟩
  case h1 =>
    unfold sgPermutations
    rw [if_neg (by simp [hd]), if_neg (by omega)]
    unfold transPermsOf
    rw [e1]
    simp only
    rw [rotPermsOf_eq, e2]
    simp only
    rw [finalLoop_eq]
    exact e5
  case h2 => simp [hn]
  case h3 =>
    intro i hi
    obtain ⟨row, h1, h2, h3⟩ := hrow i hi
    rw [getD_map_range _ _ i (hn ▸ hi), h1]
    exact ⟨h2, h3⟩

end Symfc.SgPermFull
