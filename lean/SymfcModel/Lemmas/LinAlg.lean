/- Lemmas/LinAlg.lean — linear algebra facts over a linearly ordered field used by the
   symfc correspondence proofs (projectors, sum rule, least squares, batching). -/
import Mathlib.Data.Matrix.Mul
import Mathlib.LinearAlgebra.Matrix.DotProduct
import Mathlib.LinearAlgebra.Matrix.Notation
import Mathlib.Algebra.Order.Field.Basic
import Mathlib.Algebra.Order.Field.Rat
import Mathlib.Algebra.BigOperators.Fin
import Mathlib.Algebra.Order.BigOperators.Ring.Finset
import Mathlib.Tactic.Ring
import Mathlib.Tactic.Abel
import Mathlib.Tactic.Linarith
import Mathlib.Tactic.Positivity
import Mathlib.Tactic.NormNum
import Mathlib.Tactic.FinCases

namespace Symfc.LinAlg

open Matrix

variable {K : Type*} [Field K] [LinearOrder K] [IsStrictOrderedRing K]
variable {m n k r β : Type*} [Fintype m] [Fintype n] [Fintype k] [Fintype r] [Fintype β]

/-! ## 1. Basic facts about `x ⬝ᵥ x` and the adjoint identity -/

theorem dotProduct_self_nonneg (x : n → K) : 0 ≤ x ⬝ᵥ x :=
  Finset.sum_nonneg fun i _ => mul_self_nonneg (x i)

theorem dotProduct_self_eq_zero_iff (x : n → K) : x ⬝ᵥ x = 0 ↔ x = 0 :=
  _root_.dotProduct_self_eq_zero

omit [LinearOrder K] [IsStrictOrderedRing K] in
/-- `(A x) ⬝ y = x ⬝ (Aᵀ y)`. -/
theorem mulVec_dotProduct_adj (A : Matrix m n K) (x : n → K) (y : m → K) :
    (A *ᵥ x) ⬝ᵥ y = x ⬝ᵥ (Aᵀ *ᵥ y) := by
  rw [dotProduct_comm, Matrix.dotProduct_transpose_mulVec]

omit [LinearOrder K] [IsStrictOrderedRing K] in
/-- `(A x) ⬝ (A y) = x ⬝ ((Aᵀ A) y)`. -/
theorem mulVec_dotProduct_mulVec (A : Matrix m n K) (x y : n → K) :
    (A *ᵥ x) ⬝ᵥ (A *ᵥ y) = x ⬝ᵥ ((Aᵀ * A) *ᵥ y) := by
  rw [mulVec_dotProduct_adj, Matrix.mulVec_mulVec]

/-! ## 2. L3: unit-eigenvector lemma -/

/-- A symmetric positive semidefinite `B` with `xᵀ B x = 0` annihilates `x`. -/
theorem psd_mulVec_eq_zero (B : Matrix n n K) (hB : Bᵀ = B)
    (hpsd : ∀ y : n → K, 0 ≤ y ⬝ᵥ (B *ᵥ y)) (x : n → K) (hx : x ⬝ᵥ (B *ᵥ x) = 0) :
    B *ᵥ x = 0 := by
  set z : n → K := B *ᵥ x with hz
  set q : K := z ⬝ᵥ z with hq
  set p : K := z ⬝ᵥ (B *ᵥ z) with hp
  have hp0 : 0 ≤ p := hpsd z
  have hq0 : 0 ≤ q := dotProduct_self_nonneg z
  -- cross terms
  have hxz : x ⬝ᵥ (B *ᵥ z) = q := by
    have := mulVec_dotProduct_adj B x z
    rw [hB] at this
    rw [← this]
  have hzx : z ⬝ᵥ (B *ᵥ x) = q := rfl
  -- expand the quadratic form at `s • x + t • z`
  have key : ∀ s t : K, (s • x + t • z) ⬝ᵥ (B *ᵥ (s • x + t • z))
      = s * s * (x ⬝ᵥ (B *ᵥ x)) + 2 * s * t * q + t * t * p := by
    intro s t
    simp only [Matrix.mulVec_add, Matrix.mulVec_smul, add_dotProduct, dotProduct_add,
      smul_dotProduct, dotProduct_smul, smul_eq_mul, hxz, hzx]
    rw [← hp]
    ring
  have h := hpsd ((p + 1) • x + (-q) • z)
  rw [key, hx] at h
  have h2 : q * q * (p + 2) ≤ 0 := by nlinarith
  have hq2 : q * q ≤ 0 := by
    by_contra hc
    have : 0 < q * q * (p + 2) := mul_pos (not_le.mp hc) (by linarith)
    linarith
  have hq00 : q = 0 := by
    have : q * q = 0 := le_antisymm hq2 (mul_self_nonneg q)
    exact mul_self_eq_zero.mp this
  exact (dotProduct_self_eq_zero_iff z).mp hq00

theorem unit_eigvec_of_quadratic [DecidableEq n] (A : Matrix n n K) (hA : Aᵀ = A)
    (hle : ∀ x : n → K, x ⬝ᵥ (A *ᵥ x) ≤ x ⬝ᵥ x) (x : n → K)
    (hx : x ⬝ᵥ (A *ᵥ x) = x ⬝ᵥ x) : A *ᵥ x = x := by
  have hB : ((1 : Matrix n n K) - A)ᵀ = 1 - A := by
    rw [Matrix.transpose_sub, Matrix.transpose_one, hA]
  have hquad : ∀ y : n → K, y ⬝ᵥ (((1 : Matrix n n K) - A) *ᵥ y) = y ⬝ᵥ y - y ⬝ᵥ (A *ᵥ y) := by
    intro y
    rw [Matrix.sub_mulVec, Matrix.one_mulVec, dotProduct_sub]
  have h0 := psd_mulVec_eq_zero (1 - A) hB
    (fun y => by rw [hquad]; exact sub_nonneg.mpr (hle y)) x (by rw [hquad, hx, sub_self])
  rw [Matrix.sub_mulVec, Matrix.one_mulVec] at h0
  exact (sub_eq_zero.mp h0).symm

example : (!![1/2, 1/2; 1/2, 1/2] : Matrix (Fin 2) (Fin 2) ℚ) *ᵥ ![1, 1] = ![1, 1] := by
  apply unit_eigvec_of_quadratic
  · ext i j; fin_cases i <;> fin_cases j <;> rfl
  · intro x
    simp only [dotProduct, Matrix.mulVec, Fin.sum_univ_two, Matrix.of_apply, Matrix.cons_val_zero,
      Matrix.cons_val_one]
    nlinarith [sq_nonneg (x 0 - x 1)]
  · norm_num [dotProduct, Matrix.mulVec, Fin.sum_univ_two]

/-! ## 6. Orthonormal columns -/

/-- rotation-like orthonormal 2×2 matrix over ℚ used in several examples -/
private def Rot : Matrix (Fin 2) (Fin 2) ℚ := !![3/5, -4/5; 4/5, 3/5]
private theorem Rot_orth : Rotᵀ * Rot = 1 := by
  ext i j; fin_cases i <;> fin_cases j <;>
    norm_num [Rot, Matrix.mul_apply, Fin.sum_univ_two]

omit [LinearOrder K] [IsStrictOrderedRing K] [Fintype k] in
theorem orthonormal_mul [DecidableEq n] [DecidableEq k] (A : Matrix m n K) (B : Matrix n k K)
    (hA : Aᵀ * A = 1) (hB : Bᵀ * B = 1) : (A * B)ᵀ * (A * B) = 1 := by
  rw [Matrix.transpose_mul, Matrix.mul_assoc, ← Matrix.mul_assoc Aᵀ, hA, Matrix.one_mul, hB]

example : (Rot * !![0, 1; 1, 0])ᵀ * (Rot * !![0, 1; 1, 0]) = 1 :=
  orthonormal_mul Rot _ Rot_orth (by
    ext i j; fin_cases i <;> fin_cases j <;> norm_num [Matrix.mul_apply, Fin.sum_univ_two])

omit [LinearOrder K] [IsStrictOrderedRing K] in
theorem isometry_of_orthonormal [DecidableEq n] (A : Matrix m n K) (hA : Aᵀ * A = 1)
    (v w : n → K) : (A *ᵥ v) ⬝ᵥ (A *ᵥ w) = v ⬝ᵥ w := by
  rw [mulVec_dotProduct_mulVec, hA, Matrix.one_mulVec]

example : (Rot *ᵥ ![1, 2]) ⬝ᵥ (Rot *ᵥ ![3, 4]) = 11 := by
  rw [isometry_of_orthonormal Rot Rot_orth]
  norm_num [dotProduct, Fin.sum_univ_two]

omit [LinearOrder K] [IsStrictOrderedRing K] in
theorem injective_of_orthonormal [DecidableEq n] (A : Matrix m n K) (hA : Aᵀ * A = 1) :
    Function.Injective A.mulVec := by
  intro v w h
  have h' : Aᵀ *ᵥ (A *ᵥ v) = Aᵀ *ᵥ (A *ᵥ w) := congrArg (Aᵀ *ᵥ ·) h
  simpa [Matrix.mulVec_mulVec, hA] using h'

example (v : Fin 2 → ℚ) (h : Rot *ᵥ v = Rot *ᵥ ![1, 2]) : v = ![1, 2] :=
  injective_of_orthonormal Rot Rot_orth h

/-! ## 3. Compressed projector -/

/-- A symmetric idempotent matrix is a contraction in the quadratic-form sense. -/
theorem projector_quadratic_le [DecidableEq m] (P : Matrix m m K) (hPs : Pᵀ = P)
    (hPi : P * P = P) (x : m → K) : x ⬝ᵥ (P *ᵥ x) ≤ x ⬝ᵥ x := by
  have hQs : ((1 : Matrix m m K) - P)ᵀ = 1 - P := by
    rw [Matrix.transpose_sub, Matrix.transpose_one, hPs]
  have hQi : ((1 : Matrix m m K) - P)ᵀ * (1 - P) = 1 - P := by
    rw [hQs, Matrix.sub_mul, Matrix.one_mul, Matrix.mul_sub, Matrix.mul_one, hPi, sub_self,
      sub_zero]
  have h := dotProduct_self_nonneg (((1 : Matrix m m K) - P) *ᵥ x)
  rw [mulVec_dotProduct_mulVec, hQi, Matrix.sub_mulVec, Matrix.one_mulVec, dotProduct_sub] at h
  exact sub_nonneg.mp h

theorem compressed_projector_unit_iff [DecidableEq m] [DecidableEq k] (C : Matrix m k K)
    (hC : Cᵀ * C = 1) (P : Matrix m m K) (hPs : Pᵀ = P) (hPi : P * P = P) (v : k → K) :
    (Cᵀ * P * C) *ᵥ v = v ↔ P *ᵥ (C *ᵥ v) = C *ᵥ v := by
  constructor
  · intro h
    apply unit_eigvec_of_quadratic P hPs (projector_quadratic_le P hPs hPi)
    have h1 : (C *ᵥ v) ⬝ᵥ (P *ᵥ (C *ᵥ v)) = v ⬝ᵥ ((Cᵀ * P * C) *ᵥ v) := by
      rw [mulVec_dotProduct_adj, Matrix.mulVec_mulVec, Matrix.mulVec_mulVec]
    rw [h1, h, isometry_of_orthonormal C hC]
  · intro h
    rw [← Matrix.mulVec_mulVec, ← Matrix.mulVec_mulVec, h, Matrix.mulVec_mulVec, hC,
      Matrix.one_mulVec]

private def Cc : Matrix (Fin 2) (Fin 1) ℚ := !![3/5; 4/5]
private def Pc : Matrix (Fin 2) (Fin 2) ℚ := !![9/25, 12/25; 12/25, 16/25]

example : (Ccᵀ * Pc * Cc) *ᵥ ![7] = ![7] := by
  refine (compressed_projector_unit_iff Cc ?_ Pc ?_ ?_ _).mpr ?_
  · ext i j; fin_cases i; fin_cases j; norm_num [Cc, Matrix.mul_apply, Fin.sum_univ_two]
  · ext i j; fin_cases i <;> fin_cases j <;> rfl
  · ext i j; fin_cases i <;> fin_cases j <;> norm_num [Pc, Matrix.mul_apply, Fin.sum_univ_two]
  · ext i; fin_cases i <;> norm_num [Cc, Pc, Matrix.mulVec, dotProduct, Fin.sum_univ_two]

/-! ## 4. L4: sum rule -/

theorem sumrule_unit_iff [DecidableEq k] (C : Matrix m k K) (T : Matrix r m K) (ν : K)
    (hν : 0 < ν) (v : k → K) :
    ((1 : Matrix k k K) - (1 / ν) • (Cᵀ * Tᵀ * T * C)) *ᵥ v = v ↔ T *ᵥ (C *ᵥ v) = 0 := by
  have hG : (Cᵀ * Tᵀ * T * C) *ᵥ v = (T * C)ᵀ *ᵥ (T *ᵥ (C *ᵥ v)) := by
    rw [Matrix.mulVec_mulVec, Matrix.mulVec_mulVec, Matrix.transpose_mul]
  rw [Matrix.sub_mulVec, Matrix.one_mulVec, Matrix.smul_mulVec, sub_eq_self]
  constructor
  · intro h
    have hne : (1 / ν) ≠ 0 := one_div_ne_zero hν.ne'
    have h0 : (Cᵀ * Tᵀ * T * C) *ᵥ v = 0 := (smul_eq_zero.mp h).resolve_left hne
    have h1 : (T *ᵥ (C *ᵥ v)) ⬝ᵥ (T *ᵥ (C *ᵥ v)) = 0 := by
      have : T *ᵥ (C *ᵥ v) = (T * C) *ᵥ v := Matrix.mulVec_mulVec _ _ _
      rw [hG] at h0
      rw [this] at h0 ⊢
      rw [mulVec_dotProduct_adj, h0, dotProduct_zero]
    exact (dotProduct_self_eq_zero_iff _).mp h1
  · intro h
    rw [hG, h, Matrix.mulVec_zero, smul_zero]

private def Cs : Matrix (Fin 2) (Fin 1) ℚ := !![1; -1]
private def Ts : Matrix (Fin 1) (Fin 2) ℚ := !![1, 1]

example : ((1 : Matrix (Fin 1) (Fin 1) ℚ) - (1 / 2 : ℚ) • (Csᵀ * Tsᵀ * Ts * Cs)) *ᵥ ![5] = ![5] := by
  refine (sumrule_unit_iff Cs Ts (2 : ℚ) (by norm_num) _).mpr ?_
  ext i; fin_cases i; norm_num [Cs, Ts, Matrix.mulVec, dotProduct, Fin.sum_univ_two]

/-! ## 7. L6: normal equations ⇒ least squares -/

omit [LinearOrder K] [IsStrictOrderedRing K] in
theorem normal_eq_residual_orthogonal (X : Matrix r k K) (y : r → K) (c : k → K)
    (h : (Xᵀ * X) *ᵥ c = Xᵀ *ᵥ y) : Xᵀ *ᵥ (X *ᵥ c - y) = 0 := by
  rw [Matrix.mulVec_sub, Matrix.mulVec_mulVec, h, sub_self]

example : (!![1; 1] : Matrix (Fin 2) (Fin 1) ℚ)ᵀ *ᵥ (!![1; 1] *ᵥ ![2] - ![1, 3]) = 0 := by
  apply normal_eq_residual_orthogonal
  ext i; fin_cases i
  norm_num [Matrix.mulVec, Matrix.mul_apply, dotProduct, Fin.sum_univ_two]

theorem normal_eq_minimises (X : Matrix r k K) (y : r → K) (c : k → K)
    (h : (Xᵀ * X) *ᵥ c = Xᵀ *ᵥ y) (c' : k → K) :
    (X *ᵥ c - y) ⬝ᵥ (X *ᵥ c - y) ≤ (X *ᵥ c' - y) ⬝ᵥ (X *ᵥ c' - y) := by
  have horth := normal_eq_residual_orthogonal X y c h
  have hsplit : X *ᵥ c' - y = (X *ᵥ c - y) + X *ᵥ (c' - c) := by
    rw [Matrix.mulVec_sub]; abel
  have hcross : (X *ᵥ (c' - c)) ⬝ᵥ (X *ᵥ c - y) = 0 := by
    rw [mulVec_dotProduct_adj, horth, dotProduct_zero]
  have hcross' : (X *ᵥ c - y) ⬝ᵥ (X *ᵥ (c' - c)) = 0 := by
    rw [dotProduct_comm, hcross]
  rw [hsplit, add_dotProduct, dotProduct_add, dotProduct_add, hcross, hcross', add_zero, zero_add]
  exact le_add_of_nonneg_right (dotProduct_self_nonneg _)

example (c' : Fin 1 → ℚ) :
    ((!![1; 1] : Matrix (Fin 2) (Fin 1) ℚ) *ᵥ ![2] - ![1, 3]) ⬝ᵥ (!![1; 1] *ᵥ ![2] - ![1, 3])
      ≤ (!![1; 1] *ᵥ c' - ![1, 3]) ⬝ᵥ (!![1; 1] *ᵥ c' - ![1, 3]) := by
  apply normal_eq_minimises
  ext i; fin_cases i
  norm_num [Matrix.mulVec, Matrix.mul_apply, dotProduct, Fin.sum_univ_two]

/-! ## 9. C13: facts about solutions of the normal equations -/

omit [LinearOrder K] [IsStrictOrderedRing K] in
/-- 9a. linearity of the fit in the data. -/
theorem normal_eq_linear (X : Matrix r k K) (y1 y2 : r → K) (c1 c2 : k → K) (a b : K)
    (h1 : (Xᵀ * X) *ᵥ c1 = Xᵀ *ᵥ y1) (h2 : (Xᵀ * X) *ᵥ c2 = Xᵀ *ᵥ y2) :
    (Xᵀ * X) *ᵥ (a • c1 + b • c2) = Xᵀ *ᵥ (a • y1 + b • y2) := by
  simp only [Matrix.mulVec_add, Matrix.mulVec_smul, h1, h2]

example (c1 c2 : Fin 2 → ℚ) (h1 : (Rotᵀ * Rot) *ᵥ c1 = Rotᵀ *ᵥ ![1, 0])
    (h2 : (Rotᵀ * Rot) *ᵥ c2 = Rotᵀ *ᵥ ![0, 1]) :
    (Rotᵀ * Rot) *ᵥ ((2 : ℚ) • c1 + (5 : ℚ) • c2) = Rotᵀ *ᵥ ((2 : ℚ) • ![1, 0] + (5 : ℚ) • ![0, 1]) :=
  normal_eq_linear Rot _ _ c1 c2 2 5 h1 h2

/-- `(XᵀX) d = 0 → X d = 0`. -/
theorem gram_mulVec_eq_zero (X : Matrix r k K) (d : k → K) (h : (Xᵀ * X) *ᵥ d = 0) :
    X *ᵥ d = 0 := by
  apply (dotProduct_self_eq_zero_iff _).mp
  rw [mulVec_dotProduct_mulVec, h, dotProduct_zero]

/-- 9b. uniqueness of the fit when the snapshots determine the coefficients. -/
theorem normal_eq_unique (X : Matrix r k K) (hinj : Function.Injective X.mulVec) (c c' : k → K)
    (h : (Xᵀ * X) *ᵥ c = (Xᵀ * X) *ᵥ c') : c = c' := by
  apply hinj
  have h0 : (Xᵀ * X) *ᵥ (c - c') = 0 := by rw [Matrix.mulVec_sub, h, sub_self]
  have h1 := gram_mulVec_eq_zero X (c - c') h0
  rw [Matrix.mulVec_sub] at h1
  exact sub_eq_zero.mp h1

example (c c' : Fin 2 → ℚ) (h : (Rotᵀ * Rot) *ᵥ c = (Rotᵀ * Rot) *ᵥ c') : c = c' :=
  normal_eq_unique Rot (injective_of_orthonormal Rot Rot_orth) c c' h

omit [LinearOrder K] [IsStrictOrderedRing K] [Fintype k] in
/-- 9c. row permutation invariance (Gram matrix). -/
theorem gram_submatrix_equiv (X : Matrix r k K) (σ : r ≃ r) :
    (X.submatrix σ id)ᵀ * (X.submatrix σ id) = Xᵀ * X := by
  ext i j
  simp only [Matrix.mul_apply, Matrix.transpose_apply, Matrix.submatrix_apply, id_eq]
  exact Equiv.sum_comp σ (fun s => X s i * X s j)

example : (Rot.submatrix (Equiv.swap 0 1) id)ᵀ * (Rot.submatrix (Equiv.swap 0 1) id) = 1 := by
  rw [gram_submatrix_equiv, Rot_orth]

omit [LinearOrder K] [IsStrictOrderedRing K] [Fintype k] in
/-- 9c. row permutation invariance (right-hand side). -/
theorem rhs_submatrix_equiv (X : Matrix r k K) (y : r → K) (σ : r ≃ r) :
    (X.submatrix σ id)ᵀ *ᵥ (y ∘ σ) = Xᵀ *ᵥ y := by
  ext i
  simp only [Matrix.mulVec, dotProduct, Matrix.transpose_apply, Matrix.submatrix_apply, id_eq,
    Function.comp_apply]
  exact Equiv.sum_comp σ (fun s => X s i * y s)

example : (Rot.submatrix (Equiv.swap 0 1) id)ᵀ *ᵥ (![1, 2] ∘ Equiv.swap 0 1) = Rotᵀ *ᵥ ![1, 2] :=
  rhs_submatrix_equiv Rot ![1, 2] (Equiv.swap 0 1)

omit [LinearOrder K] [IsStrictOrderedRing K] [Fintype k] in
/-- 9d. duplication of all rows doubles the Gram matrix. -/
theorem gram_duplicate (X : Matrix r k K) :
    (Matrix.of (fun (s : r ⊕ r) i => X (s.elim id id) i))ᵀ *
      (Matrix.of (fun (s : r ⊕ r) i => X (s.elim id id) i)) = (2 : K) • (Xᵀ * X) := by
  ext i j
  simp only [Matrix.mul_apply, Matrix.transpose_apply, Matrix.of_apply, Matrix.smul_apply,
    Fintype.sum_sum_type, Sum.elim_inl, Sum.elim_inr, id_eq, smul_eq_mul]
  ring

example : (Matrix.of (fun (s : Fin 2 ⊕ Fin 2) i => Rot (s.elim id id) i))ᵀ *
    (Matrix.of (fun (s : Fin 2 ⊕ Fin 2) i => Rot (s.elim id id) i)) = (2 : ℚ) • 1 := by
  rw [gram_duplicate, Rot_orth]

omit [LinearOrder K] [IsStrictOrderedRing K] [Fintype k] in
/-- 9d. duplication of all rows doubles the right-hand side. -/
theorem rhs_duplicate (X : Matrix r k K) (y : r → K) :
    (Matrix.of (fun (s : r ⊕ r) i => X (s.elim id id) i))ᵀ *ᵥ (fun s => y (s.elim id id))
      = (2 : K) • (Xᵀ *ᵥ y) := by
  ext i
  simp only [Matrix.mulVec, dotProduct, Matrix.transpose_apply, Matrix.of_apply, Pi.smul_apply,
    Fintype.sum_sum_type, Sum.elim_inl, Sum.elim_inr, id_eq, smul_eq_mul]
  ring

omit [LinearOrder K] [IsStrictOrderedRing K] in
/-- Scaling both sides of a linear system by a nonzero scalar does not change its solutions. -/
theorem smul_system_iff (G : Matrix k k K) (b : k → K) (t : K) (ht : t ≠ 0) (c : k → K) :
    (t • G) *ᵥ c = t • b ↔ G *ᵥ c = b := by
  rw [Matrix.smul_mulVec]
  exact (smul_right_injective (k → K) ht).eq_iff

/-- 9d. `c` solves the normal equations of the duplicated data iff it solves the original ones. -/
theorem normal_eq_duplicate_iff (X : Matrix r k K) (y : r → K) (c : k → K) :
    ((Matrix.of (fun (s : r ⊕ r) i => X (s.elim id id) i))ᵀ *
        (Matrix.of (fun (s : r ⊕ r) i => X (s.elim id id) i))) *ᵥ c
      = (Matrix.of (fun (s : r ⊕ r) i => X (s.elim id id) i))ᵀ *ᵥ (fun s => y (s.elim id id))
    ↔ (Xᵀ * X) *ᵥ c = Xᵀ *ᵥ y := by
  rw [gram_duplicate, rhs_duplicate]
  exact smul_system_iff _ _ 2 two_ne_zero c

example (c : Fin 2 → ℚ) (h : (Rotᵀ * Rot) *ᵥ c = Rotᵀ *ᵥ ![1, 2]) :
    ((Matrix.of (fun (s : Fin 2 ⊕ Fin 2) i => Rot (s.elim id id) i))ᵀ *
        (Matrix.of (fun (s : Fin 2 ⊕ Fin 2) i => Rot (s.elim id id) i))) *ᵥ c
      = (Matrix.of (fun (s : Fin 2 ⊕ Fin 2) i => Rot (s.elim id id) i))ᵀ *ᵥ
          (fun s => (![1, 2] : Fin 2 → ℚ) (s.elim id id)) :=
  (normal_eq_duplicate_iff Rot ![1, 2] c).mpr h

/-- 9e. zero forces give the zero fit. -/
theorem normal_eq_zero (X : Matrix r k K) (hinj : Function.Injective X.mulVec) (c : k → K)
    (h : (Xᵀ * X) *ᵥ c = Xᵀ *ᵥ (0 : r → K)) : c = 0 := by
  apply normal_eq_unique X hinj
  rw [h, Matrix.mulVec_zero, Matrix.mulVec_zero]

example (c : Fin 2 → ℚ) (h : (Rotᵀ * Rot) *ᵥ c = Rotᵀ *ᵥ 0) : c = 0 :=
  normal_eq_zero Rot (injective_of_orthonormal Rot Rot_orth) c h

omit [LinearOrder K] [IsStrictOrderedRing K] [Fintype k] in
/-- 9f. scaling the design matrix scales the Gram matrix quadratically. -/
theorem gram_smul (X : Matrix r k K) (s : K) : (s • X)ᵀ * (s • X) = s ^ 2 • (Xᵀ * X) := by
  rw [Matrix.transpose_smul, Matrix.smul_mul, Matrix.mul_smul, smul_smul, pow_two]

example : ((3 : ℚ) • Rot)ᵀ * ((3 : ℚ) • Rot) = (9 : ℚ) • 1 := by
  rw [gram_smul, Rot_orth]; norm_num

omit [LinearOrder K] [IsStrictOrderedRing K] [Fintype k] in
/-- 9f. scaling design matrix and data scales the right-hand side quadratically. -/
theorem rhs_smul (X : Matrix r k K) (y : r → K) (s : K) :
    (s • X)ᵀ *ᵥ (s • y) = s ^ 2 • (Xᵀ *ᵥ y) := by
  rw [Matrix.transpose_smul, Matrix.smul_mulVec, Matrix.mulVec_smul, smul_smul, pow_two]

omit [LinearOrder K] [IsStrictOrderedRing K] in
/-- 9f. for `s ≠ 0` the scaled problem has the same solutions. -/
theorem normal_eq_smul_iff (X : Matrix r k K) (y : r → K) (s : K) (hs : s ≠ 0) (c : k → K) :
    ((s • X)ᵀ * (s • X)) *ᵥ c = (s • X)ᵀ *ᵥ (s • y) ↔ (Xᵀ * X) *ᵥ c = Xᵀ *ᵥ y := by
  rw [gram_smul, rhs_smul]
  exact smul_system_iff _ _ (s ^ 2) (pow_ne_zero 2 hs) c

example (c : Fin 2 → ℚ) (h : (Rotᵀ * Rot) *ᵥ c = Rotᵀ *ᵥ ![1, 2]) :
    (((3 : ℚ) • Rot)ᵀ * ((3 : ℚ) • Rot)) *ᵥ c = ((3 : ℚ) • Rot)ᵀ *ᵥ ((3 : ℚ) • ![1, 2]) :=
  (normal_eq_smul_iff Rot ![1, 2] 3 (by norm_num) c).mpr h

/-! ## 5. L1: normalised indicator columns are orthonormal -/

omit [LinearOrder K] [IsStrictOrderedRing K] [Fintype k] in
theorem indicator_orthonormal [DecidableEq n] [DecidableEq k] (label : n → Option k) (w : k → K)
    (hcount : ∀ j, (w j) ^ 2 * ((Finset.univ.filter (fun i => label i = some j)).card : K) = 1) :
    (Matrix.of (fun i j => if label i = some j then w j else 0))ᵀ *
      (Matrix.of (fun i j => if label i = some j then w j else 0)) = (1 : Matrix k k K) := by
  ext j j'
  simp only [Matrix.mul_apply, Matrix.transpose_apply, Matrix.of_apply]
  by_cases hjj : j = j'
  · subst hjj
    rw [Matrix.one_apply_eq, ← hcount j]
    have : ∀ i, (if label i = some j then w j else 0) * (if label i = some j then w j else 0)
        = if label i = some j then (w j) ^ 2 else 0 := by
      intro i; split_ifs <;> ring
    simp only [this]
    rw [← Finset.sum_filter, Finset.sum_const, nsmul_eq_mul, mul_comm]
  · rw [Matrix.one_apply_ne hjj]
    apply Finset.sum_eq_zero
    intro i _
    by_cases h1 : label i = some j
    · have h2 : label i ≠ some j' := by
        rw [h1]; intro h; exact hjj (Option.some.inj h)
      rw [if_neg h2, mul_zero]
    · rw [if_neg h1, zero_mul]

example : (Matrix.of (fun (i : Fin 5) (j : Fin 2) =>
      if (![some 0, some 0, some 1, some 0, some 0] : Fin 5 → Option (Fin 2)) i = some j
      then (![1/2, -1] : Fin 2 → ℚ) j else 0))ᵀ *
    (Matrix.of (fun (i : Fin 5) (j : Fin 2) =>
      if (![some 0, some 0, some 1, some 0, some 0] : Fin 5 → Option (Fin 2)) i = some j
      then (![1/2, -1] : Fin 2 → ℚ) j else 0)) = 1 := by
  apply indicator_orthonormal
  intro j
  fin_cases j
  · have : (Finset.univ.filter (fun i : Fin 5 =>
        (![some 0, some 0, some 1, some 0, some 0] : Fin 5 → Option (Fin 2)) i = some 0)).card = 4 := by
      decide
    simp only [Fin.zero_eta, this]; norm_num
  · have : (Finset.univ.filter (fun i : Fin 5 =>
        (![some 0, some 0, some 1, some 0, some 0] : Fin 5 → Option (Fin 2)) i = some 1)).card = 1 := by
      decide
    simp only [Fin.mk_one, this]; norm_num

/-! ## 8. Gram matrix over a partition of the rows (batching) -/

omit [LinearOrder K] [IsStrictOrderedRing K] [Fintype k] in
theorem gram_sum_over_batches [DecidableEq β] (X : Matrix r k K) (b : r → β) :
    Xᵀ * X = ∑ j : β, Matrix.of (fun i i' =>
      ∑ s ∈ Finset.univ.filter (fun s => b s = j), X s i * X s i') := by
  ext i i'
  rw [Matrix.sum_apply]
  simp only [Matrix.mul_apply, Matrix.transpose_apply, Matrix.of_apply]
  exact (Finset.sum_fiberwise Finset.univ b (fun s => X s i * X s i')).symm

private def Xb : Matrix (Fin 3) (Fin 2) ℚ := !![1, 2; 3, 4; 5, 6]

example : Xbᵀ * Xb = ∑ j : Fin 2, Matrix.of (fun i i' =>
    ∑ s ∈ Finset.univ.filter (fun s => (![0, 1, 0] : Fin 3 → Fin 2) s = j), Xb s i * Xb s i') :=
  gram_sum_over_batches Xb ![0, 1, 0]

omit [LinearOrder K] [IsStrictOrderedRing K] [Fintype k] in
theorem rhs_sum_over_batches [DecidableEq β] (X : Matrix r k K) (y : r → K) (b : r → β) :
    Xᵀ *ᵥ y = ∑ j : β, (fun i => ∑ s ∈ Finset.univ.filter (fun s => b s = j), X s i * y s) := by
  ext i
  rw [Finset.sum_apply]
  simp only [Matrix.mulVec, dotProduct, Matrix.transpose_apply]
  exact (Finset.sum_fiberwise Finset.univ b (fun s => X s i * y s)).symm

example (X : Matrix (Fin 3) (Fin 2) ℚ) (y : Fin 3 → ℚ) :
    Xᵀ *ᵥ y = ∑ j : Fin 2, (fun i => ∑ s ∈ Finset.univ.filter (fun s => (![0, 1, 0] : Fin 3 → Fin 2) s = j), X s i * y s) :=
  rhs_sum_over_batches X y ![0, 1, 0]

/-! ## 10. Sub-block lemma for the block-divided eigen solver -/

theorem subblock_unit_eigvec [DecidableEq n] (A : Matrix n n K) (hA : Aᵀ = A)
    (hle : ∀ x : n → K, x ⬝ᵥ (A *ᵥ x) ≤ x ⬝ᵥ x) (S : Finset n) (x : n → K)
    (hsupp : ∀ i, i ∉ S → x i = 0) (hS : ∀ i ∈ S, (A *ᵥ x) i = x i) : A *ᵥ x = x := by
  apply unit_eigvec_of_quadratic A hA hle
  unfold dotProduct
  apply Finset.sum_congr rfl
  intro i _
  by_cases hi : i ∈ S
  · rw [hS i hi]
  · rw [hsupp i hi, zero_mul, zero_mul]

private def Ab : Matrix (Fin 3) (Fin 3) ℚ := !![1/2, 1/2, 0; 1/2, 1/2, 0; 0, 0, 1/3]

example : Ab *ᵥ ![1, 1, 0] = ![1, 1, 0] := by
  apply subblock_unit_eigvec Ab ?_ ?_ {0, 1}
  · intro i hi; fin_cases i <;> simp at hi ⊢
  · intro i hi
    fin_cases i
    · norm_num [Ab, Matrix.mulVec, dotProduct, Fin.sum_univ_three]
      exact Or.inr rfl
    · norm_num [Ab, Matrix.mulVec, dotProduct, Fin.sum_univ_three]
      exact Or.inr rfl
    · exact absurd hi (by decide)
  · ext i j; fin_cases i <;> fin_cases j <;> rfl
  · intro x
    simp [Ab, dotProduct, Matrix.mulVec, Fin.sum_univ_three]
    nlinarith [sq_nonneg (x 0 - x 1), sq_nonneg (x 2)]

end Symfc.LinAlg

/-! ## Axiom audit -/
