/-
  Lemmas/DesignIdx.lean — index bookkeeping for the design matrix: `unflat`/`flat` round trips,
  interleaving of atom and cartesian digits, and the generic statement satisfied by the three
  generated divmod chains.
-/
import SymfcModel.Model.Inst
import SymfcModel.Lemmas.Chain
import SymfcModel.Lemmas.CutoffBasic
import SymfcModel.Lemmas.Cell3
namespace Symfc

theorem unflat_length (base k x : Nat) : (unflat base k x).length = k := by simp [unflat]

theorem unflat_lt {base k x : Nat} (hb : 0 < base) : ∀ d ∈ unflat base k x, d < base := by
  intro d hd
  simp only [unflat, List.mem_map] at hd
  obtain ⟨p, _, rfl⟩ := hd
  exact Nat.mod_lt _ hb

theorem flat_unflat {base k x : Nat} (hx : x < base ^ k) : flat base (unflat base k x) = x := by
  obtain ⟨t, hl, hlt, e⟩ := flat_surj base k x hx
  have := unflat_flat (base := base) (ds := t) (fun d hd => hlt d hd)
  rw [hl, e] at this
  rw [this, e]

/-- interleave atom digits and cartesian digits: `(j, b) ↦ 3j + b` -/
def ilv (js bs : List Nat) : List Nat := List.zipWith (fun j b => 3 * j + b) js bs

theorem ilv_divmod (ps : List Nat) : ilv (ps.map (· / 3)) (ps.map (· % 3)) = ps := by
  induction ps with
  | nil => rfl
  | cons p ps ih =>
    simp only [ilv, List.map_cons, List.zipWith_cons_cons] at ih ⊢
    rw [ih]; congr 1; omega

theorem ilv_length : ∀ (js bs : List Nat), js.length = bs.length → (ilv js bs).length = js.length := by
  intro js bs h; simp [ilv, h]

theorem ilv_div : ∀ (js bs : List Nat), js.length = bs.length → (∀ b ∈ bs, b < 3) →
    (ilv js bs).map (· / 3) = js := by
  intro js
  induction js with
  | nil => intro bs _ _; simp [ilv]
  | cons j js ih =>
    intro bs hl hb
    cases bs with
    | nil => simp at hl
    | cons b bs =>
      have hb0 : b < 3 := hb b (by simp)
      have := ih bs (by simpa using hl) (fun b' hb' => hb b' (by simp [hb']))
      simp only [ilv, List.zipWith_cons_cons, List.map_cons] at this ⊢
      rw [this]; congr 1; omega

theorem ilv_mod : ∀ (js bs : List Nat), js.length = bs.length → (∀ b ∈ bs, b < 3) →
    (ilv js bs).map (· % 3) = bs := by
  intro js
  induction js with
  | nil => intro bs hl _; cases bs with
    | nil => simp [ilv]
    | cons b bs => simp at hl
  | cons j js ih =>
    intro bs hl hb
    cases bs with
    | nil => simp at hl
    | cons b bs =>
      have hb0 : b < 3 := hb b (by simp)
      have := ih bs (by simpa using hl) (fun b' hb' => hb b' (by simp [hb']))
      simp only [ilv, List.zipWith_cons_cons, List.map_cons] at this ⊢
      rw [this]; congr 1; omega

theorem ilv_lt {N : Nat} : ∀ (js bs : List Nat), (∀ j ∈ js, j < N) → (∀ b ∈ bs, b < 3) →
    ∀ z ∈ ilv js bs, z < 3 * N := by
  intro js
  induction js with
  | nil => intro bs _ _ z hz; simp [ilv] at hz
  | cons j js ih =>
    intro bs hj hb z hz
    cases bs with
    | nil => simp [ilv] at hz
    | cons b bs =>
      simp only [ilv, List.zipWith_cons_cons, List.mem_cons] at hz
      rcases hz with rfl | hz
      · have := hj j (by simp); have := hb b (by simp); omega
      · exact ih bs (fun j' h' => hj j' (by simp [h'])) (fun b' h' => hb b' (by simp [h'])) z hz

/-- `idx ↦ rest(idx) · 3^deg + xr(idx)`: atom digits and cartesian digits of a displacement index -/
def gIdx (N deg idx : Nat) : Nat :=
  flat N ((unflat (3 * N) deg idx).map (· / 3)) * 3 ^ deg + flat 3 ((unflat (3 * N) deg idx).map (· % 3))

/-- inverse: `(rest, xr) ↦ flat (3N) [3·rest_m + xr_m]` -/
def hIdx (N deg t : Nat) : Nat :=
  flat (3 * N) (ilv (unflat N deg (t / 3 ^ deg)) (unflat 3 deg (t % 3 ^ deg)))

theorem gIdx_parts {N deg idx : Nat} (hN : 0 < N) :
    flat N ((unflat (3 * N) deg idx).map (· / 3)) < N ^ deg ∧
    flat 3 ((unflat (3 * N) deg idx).map (· % 3)) < 3 ^ deg := by
  constructor
  · have := flat_lt N ((unflat (3 * N) deg idx).map (· / 3)) (by
      intro x hx
      simp only [List.mem_map] at hx
      obtain ⟨p, hp, rfl⟩ := hx
      have := unflat_lt (base := 3 * N) (by omega) p hp
      omega)
    simpa [unflat_length] using this
  · have := flat_lt 3 ((unflat (3 * N) deg idx).map (· % 3)) (by
      intro x hx
      simp only [List.mem_map] at hx
      obtain ⟨p, hp, rfl⟩ := hx
      omega)
    simpa [unflat_length] using this

theorem gIdx_lt {N deg idx : Nat} (hN : 0 < N) : gIdx N deg idx < N ^ deg * 3 ^ deg := by
  obtain ⟨h1, h2⟩ := gIdx_parts (N := N) (deg := deg) (idx := idx) hN
  exact digit_lt h1 h2

theorem hIdx_lt {N deg t : Nat} (hN : 0 < N) : hIdx N deg t < (3 * N) ^ deg := by
  have h3 : 0 < 3 ^ deg := Nat.pow_pos (by omega)
  have := flat_lt (3 * N) (ilv (unflat N deg (t / 3 ^ deg)) (unflat 3 deg (t % 3 ^ deg)))
    (ilv_lt _ _ (unflat_lt hN) (unflat_lt (by omega)))
  rw [ilv_length _ _ (by simp [unflat_length]), unflat_length] at this
  exact this

theorem hIdx_gIdx {N deg idx : Nat} (hN : 0 < N) (h : idx < (3 * N) ^ deg) :
    hIdx N deg (gIdx N deg idx) = idx := by
  obtain ⟨h1, h2⟩ := gIdx_parts (N := N) (deg := deg) (idx := idx) hN
  have e := divmod_of_lt (q := flat N ((unflat (3 * N) deg idx).map (· / 3))) h2
  unfold hIdx gIdx
  rw [e.1, e.2]
  have u1 : unflat N deg (flat N ((unflat (3 * N) deg idx).map (· / 3)))
      = (unflat (3 * N) deg idx).map (· / 3) := by
    have := unflat_flat (base := N) (ds := (unflat (3 * N) deg idx).map (· / 3)) (by
      intro x hx
      simp only [List.mem_map] at hx
      obtain ⟨p, hp, rfl⟩ := hx
      have := unflat_lt (base := 3 * N) (by omega) p hp
      omega)
    simpa [unflat_length] using this
  have u2 : unflat 3 deg (flat 3 ((unflat (3 * N) deg idx).map (· % 3)))
      = (unflat (3 * N) deg idx).map (· % 3) := by
    have := unflat_flat (base := 3) (ds := (unflat (3 * N) deg idx).map (· % 3)) (by
      intro x hx
      simp only [List.mem_map] at hx
      obtain ⟨p, hp, rfl⟩ := hx
      omega)
    simpa [unflat_length] using this
  rw [u1, u2, ilv_divmod, flat_unflat h]

theorem gIdx_hIdx {N deg t : Nat} (hN : 0 < N) (h : t < N ^ deg * 3 ^ deg) :
    gIdx N deg (hIdx N deg t) = t := by
  have h3 : 0 < 3 ^ deg := Nat.pow_pos (by omega)
  have hr : t / 3 ^ deg < N ^ deg := Nat.div_lt_of_lt_mul (by rw [Nat.mul_comm]; exact h)
  have hx : t % 3 ^ deg < 3 ^ deg := Nat.mod_lt _ h3
  unfold gIdx hIdx
  have hlen : (unflat N deg (t / 3 ^ deg)).length = (unflat 3 deg (t % 3 ^ deg)).length := by
    simp [unflat_length]
  have hb3 : ∀ b ∈ unflat 3 deg (t % 3 ^ deg), b < 3 := unflat_lt (by omega)
  have u : unflat (3 * N) deg (flat (3 * N)
      (ilv (unflat N deg (t / 3 ^ deg)) (unflat 3 deg (t % 3 ^ deg))))
      = ilv (unflat N deg (t / 3 ^ deg)) (unflat 3 deg (t % 3 ^ deg)) := by
    have := unflat_flat (base := 3 * N)
      (ds := ilv (unflat N deg (t / 3 ^ deg)) (unflat 3 deg (t % 3 ^ deg)))
      (ilv_lt _ _ (unflat_lt hN) hb3)
    rw [ilv_length _ _ hlen, unflat_length] at this
    exact this
  rw [u, ilv_div _ _ hlen hb3, ilv_mod _ _ hlen hb3, flat_unflat hr, flat_unflat hx]
  have := Nat.div_add_mod t (3 ^ deg)
  rw [Nat.mul_comm] at this
  exact this

/-! ### the generic chain statement -/

/-- compact row `(il, js | a, bs)` ↦ monomial row `flat (3N) [3·js_m + bs_m]`, column block `(il, a)` -/
def ChainOK (ch : Chain) (k : Nat) : Prop :=
  ∀ (N nx il a col : Nat) (js bs : List Nat), js.length = k - 1 → bs.length = k - 1 →
    (∀ j ∈ js, j < N) → (∀ b ∈ bs, b < 3) → a < 3 →
    ch.run N nx (flat N (il :: js) * 3 ^ k + flat 3 (a :: bs)) col
      = (flat (3 * N) (ilv js bs), col + (3 * il + a) * nx)

theorem flat3_pair (il a : Nat) : flat 3 [il, a] = 3 * il + a := by
  simp only [flat, List.foldl]; omega

theorem chainOK_2 : ChainOK (chainFor 2) 2 := by
  intro N nx il a col js bs hj hb hjl hbl ha
  match js, bs, hj, hb with
  | [j], [b], _, _ =>
    have := chainO2_run_flat N nx il j a b col (hjl j (by simp)) ha (hbl b (by simp))
    rw [flat3_pair il a] at this
    simpa [chainFor, ilv] using this

theorem chainOK_3 : ChainOK (chainFor 3) 3 := by
  intro N nx il a col js bs hj hb hjl hbl ha
  match js, bs, hj, hb with
  | [j, k], [b, c], _, _ =>
    have := chainO3_run_flat N nx il j k a b c col (hjl j (by simp)) (hjl k (by simp)) ha
      (hbl b (by simp)) (hbl c (by simp))
    rw [flat3_pair il a] at this
    simpa [chainFor, ilv] using this

theorem chainOK_4 : ChainOK (chainFor 4) 4 := by
  intro N nx il a col js bs hj hb hjl hbl ha
  match js, bs, hj, hb with
  | [j, k, l], [b, c, d], _, _ =>
    have := chainO4_run_flat N nx il j k l a b c d col (hjl j (by simp)) (hjl k (by simp))
      (hjl l (by simp)) ha (hbl b (by simp)) (hbl c (by simp)) (hbl d (by simp))
    rw [flat3_pair il a] at this
    simpa [chainFor, ilv] using this

theorem chainOK_for {k : Nat} (hk : k = 2 ∨ k = 3 ∨ k = 4) : ChainOK (chainFor k) k := by
  rcases hk with rfl | rfl | rfl
  · exact chainOK_2
  · exact chainOK_3
  · exact chainOK_4

/-- the chain at a compact entry given by plain numbers `rest < N^deg`, `xr < 3^deg` -/
theorem chain_apply {ch : Chain} {k deg : Nat} (hch : ChainOK ch k) (hk : k = deg + 1)
    {N : Nat} (hN : 0 < N) (nx il a col rest xr : Nat) (hrest : rest < N ^ deg)
    (hxr : xr < 3 ^ deg) (ha : a < 3) :
    ch.run N nx ((il * N ^ deg + rest) * 3 ^ k + (a * 3 ^ deg + xr)) col
      = (hIdx N deg (rest * 3 ^ deg + xr), col + (3 * il + a) * nx) := by
  have e := divmod_of_lt (q := rest) hxr
  have := hch N nx il a col (unflat N deg rest) (unflat 3 deg xr)
    (by rw [unflat_length]; omega) (by rw [unflat_length]; omega) (unflat_lt hN)
    (unflat_lt (by omega)) ha
  rw [flat_cons, flat_cons, unflat_length, unflat_length, flat_unflat hrest, flat_unflat hxr] at this
  rw [this]
  unfold hIdx
  rw [e.1, e.2]

end Symfc
