/-
  Lemmas/Perm.lean — the pointer-writing stage (`writeBatch`, `updatePerm`) and the component
  structure of the resulting star forest.

  D1 size, D2 frame, D3 soundness, D4 row-minimum facts, D5 star theorem (order independence),
  D6 batches / `updatePerm`, D7 components of a star forest, D8 `col0` soundness.
-/
import SymfcModel.Model.Perm
namespace Symfc

/-! ## A flat view: a batch is a sequence of single assignments `ptr[i] := v` -/

/-- a sequence of `ptr[i] := v` assignments, executed left to right -/
def applyWrites (ws : List (Nat × Int)) (ptr : Array Int) : Array Int :=
  ws.foldl (fun p w => p.setIfInBounds w.1 w.2) ptr

@[simp] theorem applyWrites_nil (ptr : Array Int) : applyWrites [] ptr = ptr := rfl

@[simp] theorem applyWrites_cons (w : Nat × Int) (ws : List (Nat × Int)) (ptr : Array Int) :
    applyWrites (w :: ws) ptr = applyWrites ws (ptr.setIfInBounds w.1 w.2) := rfl

@[simp] theorem applyWrites_size (ws : List (Nat × Int)) (ptr : Array Int) :
    (applyWrites ws ptr).size = ptr.size := by
  induction ws generalizing ptr with
  | nil => rfl
  | cons w ws ih => simp [ih]

/-- frame: an index that is the target of no assignment keeps its value -/
theorem applyWrites_frame (ws : List (Nat × Int)) (ptr : Array Int) (e : Nat)
    (h : ∀ w ∈ ws, w.1 ≠ e) : (applyWrites ws ptr)[e]? = ptr[e]? := by
  induction ws generalizing ptr with
  | nil => rfl
  | cons w ws ih =>
    rw [applyWrites_cons, ih _ (fun w' hw' => h w' (List.mem_cons_of_mem _ hw'))]
    exact Array.getElem?_setIfInBounds_ne (h w List.mem_cons_self)

/-- an in-bounds index that is the target of some assignment ends up holding the value of one of
    the assignments targeting it (the last one) -/
theorem applyWrites_hit (ws : List (Nat × Int)) (ptr : Array Int) (e : Nat) (he : e < ptr.size)
    (h : ∃ w ∈ ws, w.1 = e) : ∃ w ∈ ws, w.1 = e ∧ (applyWrites ws ptr)[e]? = some w.2 := by
  induction ws generalizing ptr with
  | nil => obtain ⟨w, hw, _⟩ := h; cases hw
  | cons w ws ih =>
    by_cases h' : ∃ w' ∈ ws, w'.1 = e
    · obtain ⟨w', hw', he', hv⟩ := ih (ptr.setIfInBounds w.1 w.2) (by simpa using he) h'
      exact ⟨w', List.mem_cons_of_mem _ hw', he', hv⟩
    · have hne : ∀ w' ∈ ws, w'.1 ≠ e := fun w' hw' hc => h' ⟨w', hw', hc⟩
      obtain ⟨w0, hw0, he0⟩ := h
      have hw : w.1 = e := by
        rcases List.mem_cons.mp hw0 with rfl | hin
        · exact he0
        · exact absurd he0 (hne w0 hin)
      refine ⟨w, List.mem_cons_self, hw, ?_⟩
      rw [applyWrites_cons, applyWrites_frame _ _ _ hne, ← hw,
        Array.getElem?_setIfInBounds_self, if_pos (by omega)]

/-- if all assignments targeting `e` write the same value `v`, and there is at least one, the
    final value is `v` -/
theorem applyWrites_const (ws : List (Nat × Int)) (ptr : Array Int) (e : Nat) (v : Int)
    (he : e < ptr.size) (hex : ∃ w ∈ ws, w.1 = e) (hall : ∀ w ∈ ws, w.1 = e → w.2 = v) :
    (applyWrites ws ptr)[e]? = some v := by
  obtain ⟨w, hw, hwe, hv⟩ := applyWrites_hit ws ptr e he hex
  rw [hv, hall w hw hwe]

/-- the assignments performed by one batch, in execution order (column-major) -/
def writesOf (rk : RepKind) (rows : List (List Nat)) : List (Nat × Int) :=
  (List.range (rows.headD []).length).flatMap
    (fun col => rows.map (fun row => (row.getD col 0, Int.ofNat (rowRep rk row))))

theorem writeBatch_eq_applyWrites (rk : RepKind) (rows : List (List Nat)) (ptr : Array Int) :
    writeBatch rk rows ptr = applyWrites (writesOf rk rows) ptr := by
  simp only [writeBatch, applyWrites, writesOf, List.foldl_flatMap, List.foldl_map]

theorem mem_writesOf {rk : RepKind} {rows : List (List Nat)} {w : Nat × Int} :
    w ∈ writesOf rk rows ↔
      ∃ col, col < (rows.headD []).length ∧ ∃ row ∈ rows,
        w = (row.getD col 0, Int.ofNat (rowRep rk row)) := by
  simp only [writesOf, List.mem_flatMap, List.mem_range, List.mem_map]
  constructor
  · rintro ⟨col, hc, row, hr, rfl⟩; exact ⟨col, hc, row, hr, rfl⟩
  · rintro ⟨col, hc, row, hr, rfl⟩; exact ⟨col, hc, row, hr, rfl⟩

/-! ## D1 size -/

theorem writeBatch_size (rk : RepKind) (rows : List (List Nat)) (ptr : Array Int) :
    (writeBatch rk rows ptr).size = ptr.size := by
  rw [writeBatch_eq_applyWrites, applyWrites_size]

/-! ## Rows of a common length -/

theorem getD_mem_of_lt {r : List Nat} {col : Nat} (h : col < r.length) : r.getD col 0 ∈ r := by
  rw [List.getD_eq_getElem?_getD, List.getElem?_eq_getElem h]
  exact List.getElem_mem h

theorem exists_getD_of_mem {r : List Nat} {e : Nat} (h : e ∈ r) :
    ∃ col, col < r.length ∧ r.getD col 0 = e := by
  obtain ⟨i, hi, rfl⟩ := List.mem_iff_getElem.mp h
  exact ⟨i, hi, by rw [List.getD_eq_getElem?_getD, List.getElem?_eq_getElem hi]; rfl⟩

/-- if all rows have a common length `n` then `n` is the column count used by `writeBatch`
    (unless there are no rows at all) -/
theorem headD_length_of_common {rows : List (List Nat)} {n : Nat}
    (hlen : ∀ r ∈ rows, r.length = n) {r : List Nat} (hr : r ∈ rows) :
    (rows.headD []).length = n := by
  cases rows with
  | nil => cases hr
  | cons r0 rs => exact hlen r0 List.mem_cons_self

/-! ## D2 frame -/

/-- frame, precise form: an index that is not the `col`-th entry (`col < ncol`, missing entries
    read as `0`, as in the model) of any row is untouched -/
theorem writeBatch_frame_getElem? (rk : RepKind) (rows : List (List Nat)) (ptr : Array Int)
    (e : Nat) (h : ∀ r ∈ rows, ∀ col, col < (rows.headD []).length → r.getD col 0 ≠ e) :
    (writeBatch rk rows ptr)[e]? = ptr[e]? := by
  rw [writeBatch_eq_applyWrites]
  apply applyWrites_frame
  intro w hw
  obtain ⟨col, hc, row, hr, rfl⟩ := mem_writesOf.mp hw
  exact h row hr col hc

theorem writeBatch_frame (rk : RepKind) (rows : List (List Nat)) (ptr : Array Int)
    (e : Nat) (d : Int)
    (h : ∀ r ∈ rows, ∀ col, col < (rows.headD []).length → r.getD col 0 ≠ e) :
    (writeBatch rk rows ptr).getD e d = ptr.getD e d := by
  rw [Array.getD_eq_getD_getElem?, Array.getD_eq_getD_getElem?,
    writeBatch_frame_getElem? rk rows ptr e h]

/-- frame for rows of a common length: an index occurring in no row is untouched -/
theorem writeBatch_frame_of_not_mem (rk : RepKind) (rows : List (List Nat)) (ptr : Array Int)
    (e : Nat) (d : Int) (hlen : ∀ r ∈ rows, r.length = (rows.headD []).length)
    (h : ∀ r ∈ rows, e ∉ r) :
    (writeBatch rk rows ptr).getD e d = ptr.getD e d := by
  apply writeBatch_frame
  intro r hr col hc hce
  exact h r hr (hce ▸ getD_mem_of_lt (by rw [hlen r hr]; exact hc))

/-! ## D3 soundness -/

/-- every index is either in no row and untouched, or holds the representative of a row
    containing it -/
theorem writeBatch_cases (rk : RepKind) (rows : List (List Nat)) (ptr : Array Int) (e : Nat)
    (d : Int) (hlen : ∀ r ∈ rows, r.length = (rows.headD []).length) (he : e < ptr.size) :
    ((∀ r ∈ rows, e ∉ r) ∧ (writeBatch rk rows ptr).getD e d = ptr.getD e d) ∨
      ∃ r ∈ rows, e ∈ r ∧ (writeBatch rk rows ptr).getD e d = Int.ofNat (rowRep rk r) := by
  by_cases h : ∃ r ∈ rows, e ∈ r
  · right
    obtain ⟨r, hr, her⟩ := h
    obtain ⟨col, hc, hce⟩ := exists_getD_of_mem her
    have hex : ∃ w ∈ writesOf rk rows, w.1 = e :=
      ⟨_, mem_writesOf.mpr ⟨col, by rw [← hlen r hr]; exact hc, r, hr, rfl⟩, hce⟩
    obtain ⟨w, hw, hwe, hv⟩ := applyWrites_hit _ ptr e he hex
    obtain ⟨col', hc', r', hr', rfl⟩ := mem_writesOf.mp hw
    refine ⟨r', hr', ?_, ?_⟩
    · exact hwe ▸ getD_mem_of_lt (by rw [hlen r' hr']; exact hc')
    · rw [Array.getD_eq_getD_getElem?, writeBatch_eq_applyWrites, hv]; rfl
  · left
    have h' : ∀ r ∈ rows, e ∉ r := fun r hr hc => h ⟨r, hr, hc⟩
    exact ⟨h', writeBatch_frame_of_not_mem rk rows ptr e d hlen h'⟩

/-- D3, as stated: unchanged, or the representative of a row containing the index -/
theorem writeBatch_sound (rk : RepKind) (rows : List (List Nat)) (ptr : Array Int) (e : Nat)
    (d : Int) (hlen : ∀ r ∈ rows, r.length = (rows.headD []).length) (he : e < ptr.size) :
    (writeBatch rk rows ptr).getD e d = ptr.getD e d ∨
      ∃ r ∈ rows, e ∈ r ∧ (writeBatch rk rows ptr).getD e d = Int.ofNat (rowRep rk r) := by
  rcases writeBatch_cases rk rows ptr e d hlen he with h | h
  · exact Or.inl h.2
  · exact Or.inr h

/-- D3, converse: an in-bounds index occurring in some row IS overwritten by the representative
    of some row containing it -/
theorem writeBatch_hit (rk : RepKind) (rows : List (List Nat)) (ptr : Array Int) (e : Nat)
    (d : Int) (hlen : ∀ r ∈ rows, r.length = (rows.headD []).length) (he : e < ptr.size)
    (h : ∃ r ∈ rows, e ∈ r) :
    ∃ r ∈ rows, e ∈ r ∧ (writeBatch rk rows ptr).getD e d = Int.ofNat (rowRep rk r) := by
  rcases writeBatch_cases rk rows ptr e d hlen he with h' | h'
  · obtain ⟨r, hr, her⟩ := h; exact absurd her (h'.1 r hr)
  · exact h'

/-! ## D4 row-minimum representatives -/

theorem foldl_min_le_init (l : List Nat) (a : Nat) : l.foldl min a ≤ a := by
  induction l generalizing a with
  | nil => exact Nat.le_refl a
  | cons x xs ih => exact Nat.le_trans (ih (min a x)) (Nat.min_le_left a x)

theorem foldl_min_le_of_mem (l : List Nat) (a x : Nat) (hx : x ∈ l) : l.foldl min a ≤ x := by
  induction l generalizing a with
  | nil => cases hx
  | cons y ys ih =>
    rcases List.mem_cons.mp hx with rfl | h
    · exact Nat.le_trans (foldl_min_le_init ys (min a x)) (Nat.min_le_right a x)
    · exact ih (min a y) h

theorem foldl_min_mem (l : List Nat) (a : Nat) : l.foldl min a = a ∨ l.foldl min a ∈ l := by
  induction l generalizing a with
  | nil => exact Or.inl rfl
  | cons x xs ih =>
    rcases ih (min a x) with h | h
    · rw [List.foldl_cons, h]
      rcases Nat.le_total a x with hax | hxa
      · exact Or.inl (Nat.min_eq_left hax)
      · exact Or.inr (by rw [Nat.min_eq_right hxa]; exact List.mem_cons_self)
    · exact Or.inr (List.mem_cons_of_mem _ h)

theorem rowMin_mem (r : List Nat) (h : r ≠ []) : rowRep .rowMin r ∈ r := by
  cases r with
  | nil => exact absurd rfl h
  | cons x xs =>
    show (x :: xs).foldl min x ∈ x :: xs
    rcases foldl_min_mem (x :: xs) x with h | h
    · rw [h]; exact List.mem_cons_self
    · exact h

theorem rowMin_le (r : List Nat) (x : Nat) (hx : x ∈ r) : rowRep .rowMin r ≤ x :=
  foldl_min_le_of_mem r _ x hx

/-- the row minimum only depends on the set of elements of the row -/
theorem rowMin_congr (r1 r2 : List Nat) (h : ∀ x, x ∈ r1 ↔ x ∈ r2) :
    rowRep .rowMin r1 = rowRep .rowMin r2 := by
  by_cases h1 : r1 = []
  · subst h1
    cases r2 with
    | nil => rfl
    | cons y ys => exact absurd ((h y).mpr List.mem_cons_self) (List.not_mem_nil)
  · have h2 : r2 ≠ [] := by
      rintro rfl
      cases r1 with
      | nil => exact h1 rfl
      | cons y ys => exact absurd ((h y).mp List.mem_cons_self) (List.not_mem_nil)
    apply Nat.le_antisymm
    · exact rowMin_le r1 _ ((h _).mpr (rowMin_mem r2 h2))
    · exact rowMin_le r2 _ ((h _).mp (rowMin_mem r1 h1))

/-! ## D5 star theorem -/

/-- any two rows sharing an element have the same elements -/
def OrbitClosed (rows : List (List Nat)) : Prop :=
  ∀ r1 ∈ rows, ∀ r2 ∈ rows, (∃ e, e ∈ r1 ∧ e ∈ r2) → ∀ x, x ∈ r1 ↔ x ∈ r2

/-- with row-minimum representatives and orbit-closed rows, every element of every row ends up
    pointing at the minimum of its row, whatever the order of the rows -/
theorem writeBatch_rowMin_star (rows : List (List Nat)) (ptr : Array Int) (d : Int)
    (hlen : ∀ r ∈ rows, r.length = (rows.headD []).length) (hoc : OrbitClosed rows)
    (r : List Nat) (hr : r ∈ rows) (e : Nat) (her : e ∈ r) (he : e < ptr.size) :
    (writeBatch .rowMin rows ptr).getD e d = Int.ofNat (rowRep .rowMin r) := by
  obtain ⟨r', hr', her', hv⟩ := writeBatch_hit .rowMin rows ptr e d hlen he ⟨r, hr, her⟩
  rw [hv, rowMin_congr r' r (hoc r' hr' r hr ⟨e, her', her⟩)]

theorem common_length_headD {rows : List (List Nat)} {n : Nat}
    (hlen : ∀ r ∈ rows, r.length = n) : ∀ r ∈ rows, r.length = (rows.headD []).length :=
  fun r hr => by rw [headD_length_of_common hlen hr]; exact hlen r hr

theorem OrbitClosed.of_subset {rows rows' : List (List Nat)} (h : OrbitClosed rows)
    (hsub : ∀ r, r ∈ rows' → r ∈ rows) : OrbitClosed rows' :=
  fun r1 h1 r2 h2 => h r1 (hsub r1 h1) r2 (hsub r2 h2)

theorem getElem_eq_getD {a : Array Int} {i : Nat} (h : i < a.size) (d : Int) :
    a[i] = a.getD i d := by
  rw [Array.getD_eq_getD_getElem?, Array.getElem?_eq_getElem h]; rfl

theorem getD_eq_of_not_lt {a b : Array Int} {e : Nat} (hs : a.size = b.size)
    (he : ¬ e < b.size) (d : Int) : a.getD e d = b.getD e d := by
  have he' : ¬ e < a.size := by rw [hs]; exact he
  simp [Array.getD, he, he']

/-- D5 corollary, pointwise: two row lists with the same *set* of rows (in particular two
    orderings of the same rows) produce the same value everywhere -/
theorem writeBatch_rowMin_congr_getD (rows rows' : List (List Nat)) (ptr : Array Int) (d : Int)
    (hlen : ∀ r ∈ rows, r.length = (rows.headD []).length) (hoc : OrbitClosed rows)
    (hmem : ∀ r, r ∈ rows' ↔ r ∈ rows) (e : Nat) :
    (writeBatch .rowMin rows' ptr).getD e d = (writeBatch .rowMin rows ptr).getD e d := by
  have hlen' : ∀ r ∈ rows', r.length = (rows'.headD []).length :=
    common_length_headD (fun r hr => hlen r ((hmem r).mp hr))
  have hoc' : OrbitClosed rows' := hoc.of_subset (fun r => (hmem r).mp)
  by_cases he : e < ptr.size
  · by_cases h : ∃ r ∈ rows, e ∈ r
    · obtain ⟨r, hr, her⟩ := h
      rw [writeBatch_rowMin_star rows ptr d hlen hoc r hr e her he,
        writeBatch_rowMin_star rows' ptr d hlen' hoc' r ((hmem r).mpr hr) e her he]
    · have h1 : ∀ r ∈ rows, e ∉ r := fun r hr hc => h ⟨r, hr, hc⟩
      have h2 : ∀ r ∈ rows', e ∉ r := fun r hr => h1 r ((hmem r).mp hr)
      rw [writeBatch_frame_of_not_mem _ rows ptr e d hlen h1,
        writeBatch_frame_of_not_mem _ rows' ptr e d hlen' h2]
  · rw [getD_eq_of_not_lt (writeBatch_size _ rows ptr) he,
      getD_eq_of_not_lt (writeBatch_size _ rows' ptr) he]

/-- D5 corollary: the whole array only depends on the set of rows -/
theorem writeBatch_rowMin_congr (rows rows' : List (List Nat)) (ptr : Array Int)
    (hlen : ∀ r ∈ rows, r.length = (rows.headD []).length) (hoc : OrbitClosed rows)
    (hmem : ∀ r, r ∈ rows' ↔ r ∈ rows) :
    writeBatch .rowMin rows' ptr = writeBatch .rowMin rows ptr := by
  apply Array.ext
  · rw [writeBatch_size, writeBatch_size]
  · intro i h1 h2
    rw [getElem_eq_getD h1 0, getElem_eq_getD h2 0]
    exact writeBatch_rowMin_congr_getD rows rows' ptr 0 hlen hoc hmem i

/-- D5 corollary: independence of the order of the rows -/
theorem writeBatch_rowMin_perm (rows rows' : List (List Nat)) (ptr : Array Int)
    (hlen : ∀ r ∈ rows, r.length = (rows.headD []).length) (hoc : OrbitClosed rows)
    (hp : rows'.Perm rows) :
    writeBatch .rowMin rows' ptr = writeBatch .rowMin rows ptr :=
  writeBatch_rowMin_congr rows rows' ptr hlen hoc (fun _ => hp.mem_iff)

/-! ## D7 components of a star forest -/

/-- `e` is a node of the pointer graph with an outgoing edge -/
def covered (ptr : Array Int) (e : Nat) : Prop := e < ptr.size ∧ ptr.getD e (-1) ≠ -1

/-- edge `a → b` of the pointer graph -/
def linked (ptr : Array Int) (a b : Nat) : Prop := a < ptr.size ∧ ptr.getD a (-1) = Int.ofNat b

/-- weak connectivity: the reflexive (on covered nodes), symmetric, transitive closure of
    `linked` -/
inductive SameComp (ptr : Array Int) : Nat → Nat → Prop
  | refl {a : Nat} : covered ptr a → SameComp ptr a a
  | link {a b : Nat} : linked ptr a b → SameComp ptr a b
  | symm {a b : Nat} : SameComp ptr a b → SameComp ptr b a
  | trans {a b c : Nat} : SameComp ptr a b → SameComp ptr b c → SameComp ptr a c

theorem linked.covered {ptr : Array Int} {a b : Nat} (h : linked ptr a b) : covered ptr a := by
  refine ⟨h.1, ?_⟩
  rw [h.2]
  intro hc
  have : (0 : Int) ≤ Int.ofNat b := Int.natCast_nonneg b
  omega

/-- star forest: `m` sends every covered node to its (covered, self-pointing) centre -/
structure StarForest (ptr : Array Int) (m : Nat → Nat) : Prop where
  ptr_eq : ∀ e, covered ptr e → ptr.getD e (-1) = Int.ofNat (m e)
  covered_m : ∀ e, covered ptr e → covered ptr (m e)
  m_idem : ∀ e, covered ptr e → m (m e) = m e

theorem StarForest.linked_m {ptr : Array Int} {m : Nat → Nat} (h : StarForest ptr m) {e : Nat}
    (he : covered ptr e) : linked ptr e (m e) := ⟨he.1, h.ptr_eq e he⟩

theorem StarForest.sameComp_imp {ptr : Array Int} {m : Nat → Nat} (h : StarForest ptr m)
    {a b : Nat} (hab : SameComp ptr a b) : covered ptr a ∧ covered ptr b ∧ m a = m b := by
  induction hab with
  | refl hc => exact ⟨hc, hc, rfl⟩
  | @link a b hl =>
    have hca := hl.covered
    have hb : b = m a := by
      have := (h.ptr_eq a hca).symm.trans hl.2
      exact (Int.ofNat.inj this).symm
    subst hb
    exact ⟨hca, h.covered_m a hca, (h.m_idem a hca).symm⟩
  | symm _ ih => exact ⟨ih.2.1, ih.1, ih.2.2.symm⟩
  | trans _ _ ih1 ih2 => exact ⟨ih1.1, ih2.2.1, ih1.2.2.trans ih2.2.2⟩

/-- D7: in a star forest the components are exactly the fibres of the centre map -/
theorem StarForest.sameComp_iff {ptr : Array Int} {m : Nat → Nat} (h : StarForest ptr m)
    {a b : Nat} (ha : covered ptr a) (hb : covered ptr b) :
    SameComp ptr a b ↔ m a = m b := by
  constructor
  · exact fun hab => (h.sameComp_imp hab).2.2
  · intro hm
    have h1 : SameComp ptr a (m a) := .link (h.linked_m ha)
    have h2 : SameComp ptr b (m b) := .link (h.linked_m hb)
    exact .trans h1 (hm ▸ .symm h2)

/-- D7 without side conditions: `SameComp` relates exactly the covered nodes with equal centre -/
theorem StarForest.sameComp_iff' {ptr : Array Int} {m : Nat → Nat} (h : StarForest ptr m)
    {a b : Nat} : SameComp ptr a b ↔ covered ptr a ∧ covered ptr b ∧ m a = m b :=
  ⟨h.sameComp_imp, fun ⟨ha, hb, hm⟩ => (h.sameComp_iff ha hb).mpr hm⟩

/-- D7 in the unbundled form of the task statement -/
theorem sameComp_iff_of_star (ptr : Array Int) (m : Nat → Nat)
    (h1 : ∀ e, e < ptr.size → ptr.getD e (-1) ≠ -1 → ptr.getD e (-1) = Int.ofNat (m e))
    (h2 : ∀ e, e < ptr.size → ptr.getD e (-1) ≠ -1 →
      (m e < ptr.size ∧ ptr.getD (m e) (-1) ≠ -1) ∧ m (m e) = m e)
    (a b : Nat) (ha : a < ptr.size ∧ ptr.getD a (-1) ≠ -1)
    (hb : b < ptr.size ∧ ptr.getD b (-1) ≠ -1) :
    SameComp ptr a b ↔ m a = m b :=
  StarForest.sameComp_iff
    ⟨fun e he => h1 e he.1 he.2, fun e he => (h2 e he.1 he.2).1, fun e he => (h2 e he.1 he.2).2⟩
    ha hb

/-! ## D6 several batches / stages -/

/-- run `writeBatch` over a list of batches (each batch a list of rows), left to right -/
def foldBatches (rk : RepKind) (bs : List (List (List Nat))) (ptr : Array Int) : Array Int :=
  bs.foldl (fun p b => writeBatch rk b p) ptr

@[simp] theorem foldBatches_nil (rk : RepKind) (ptr : Array Int) : foldBatches rk [] ptr = ptr :=
  rfl

@[simp] theorem foldBatches_cons (rk : RepKind) (b : List (List Nat)) (bs : List (List (List Nat)))
    (ptr : Array Int) : foldBatches rk (b :: bs) ptr = foldBatches rk bs (writeBatch rk b ptr) :=
  rfl

theorem foldBatches_append (rk : RepKind) (bs bs' : List (List (List Nat))) (ptr : Array Int) :
    foldBatches rk (bs ++ bs') ptr = foldBatches rk bs' (foldBatches rk bs ptr) := by
  simp [foldBatches, List.foldl_append]

/-- every batch has rows of one common length (its own) -/
def UniformBatches (bs : List (List (List Nat))) : Prop :=
  ∀ b ∈ bs, ∀ r ∈ b, r.length = (b.headD []).length

@[simp] theorem foldBatches_size (rk : RepKind) (bs : List (List (List Nat))) (ptr : Array Int) :
    (foldBatches rk bs ptr).size = ptr.size := by
  induction bs generalizing ptr with
  | nil => rfl
  | cons b bs ih => rw [foldBatches_cons, ih, writeBatch_size]

/-- soundness over several batches (any representative kind): an in-bounds index is either in no
    row of any batch and untouched, or holds the representative of a row containing it -/
theorem foldBatches_cases (rk : RepKind) (bs : List (List (List Nat))) (ptr : Array Int)
    (e : Nat) (d : Int) (hu : UniformBatches bs) (he : e < ptr.size) :
    ((∀ r ∈ bs.flatten, e ∉ r) ∧ (foldBatches rk bs ptr).getD e d = ptr.getD e d) ∨
      ∃ r ∈ bs.flatten, e ∈ r ∧ (foldBatches rk bs ptr).getD e d = Int.ofNat (rowRep rk r) := by
  induction bs generalizing ptr with
  | nil => exact Or.inl ⟨fun r hr => absurd hr List.not_mem_nil, rfl⟩
  | cons b bs ih =>
    have hu' : UniformBatches bs := fun b' hb' => hu b' (List.mem_cons_of_mem _ hb')
    rw [foldBatches_cons, List.flatten_cons]
    rcases ih (writeBatch rk b ptr) hu' (by rw [writeBatch_size]; exact he) with ⟨hno, hv⟩ | h
    · rcases writeBatch_cases rk b ptr e d (hu b List.mem_cons_self) he with ⟨hno', hv'⟩ | h'
      · left
        refine ⟨fun r hr => ?_, hv.trans hv'⟩
        rcases List.mem_append.mp hr with h1 | h1
        · exact hno' r h1
        · exact hno r h1
      · right
        obtain ⟨r, hr, her, hv'⟩ := h'
        exact ⟨r, List.mem_append_left _ hr, her, hv.trans hv'⟩
    · right
      obtain ⟨r, hr, her, hv⟩ := h
      exact ⟨r, List.mem_append_right _ hr, her, hv⟩

/-- frame over several batches -/
theorem foldBatches_frame (rk : RepKind) (bs : List (List (List Nat))) (ptr : Array Int)
    (e : Nat) (d : Int) (hu : UniformBatches bs) (h : ∀ r ∈ bs.flatten, e ∉ r) :
    (foldBatches rk bs ptr).getD e d = ptr.getD e d := by
  by_cases he : e < ptr.size
  · rcases foldBatches_cases rk bs ptr e d hu he with h' | ⟨r, hr, her, _⟩
    · exact h'.2
    · exact absurd her (h r hr)
  · exact getD_eq_of_not_lt (foldBatches_size rk bs ptr) he d

/-- D6 star theorem: if the union of all rows of all batches is orbit-closed, every element of
    every row finally points at the minimum of its row -/
theorem foldBatches_rowMin_star (bs : List (List (List Nat))) (ptr : Array Int) (d : Int)
    (hu : UniformBatches bs) (hoc : OrbitClosed bs.flatten)
    (r : List Nat) (hr : r ∈ bs.flatten) (e : Nat) (her : e ∈ r) (he : e < ptr.size) :
    (foldBatches .rowMin bs ptr).getD e d = Int.ofNat (rowRep .rowMin r) := by
  rcases foldBatches_cases .rowMin bs ptr e d hu he with h | ⟨r', hr', her', hv⟩
  · exact absurd her (h.1 r hr)
  · rw [hv, rowMin_congr r' r (hoc r' hr' r hr ⟨e, her', her⟩)]

/-- D6, pointwise: the final array only depends on the *set* of rows, not on how they are split
    into batches, nor on the order of batches or of rows inside a batch -/
theorem foldBatches_rowMin_congr_getD (bs bs' : List (List (List Nat))) (ptr : Array Int)
    (d : Int) (hu : UniformBatches bs) (hu' : UniformBatches bs') (hoc : OrbitClosed bs.flatten)
    (hmem : ∀ r, r ∈ bs'.flatten ↔ r ∈ bs.flatten) (e : Nat) :
    (foldBatches .rowMin bs' ptr).getD e d = (foldBatches .rowMin bs ptr).getD e d := by
  have hoc' : OrbitClosed bs'.flatten := hoc.of_subset (fun r => (hmem r).mp)
  by_cases he : e < ptr.size
  · by_cases h : ∃ r ∈ bs.flatten, e ∈ r
    · obtain ⟨r, hr, her⟩ := h
      rw [foldBatches_rowMin_star bs ptr d hu hoc r hr e her he,
        foldBatches_rowMin_star bs' ptr d hu' hoc' r ((hmem r).mpr hr) e her he]
    · have h1 : ∀ r ∈ bs.flatten, e ∉ r := fun r hr hc => h ⟨r, hr, hc⟩
      have h2 : ∀ r ∈ bs'.flatten, e ∉ r := fun r hr => h1 r ((hmem r).mp hr)
      rw [foldBatches_frame _ bs ptr e d hu h1, foldBatches_frame _ bs' ptr e d hu' h2]
  · rw [getD_eq_of_not_lt (foldBatches_size _ bs ptr) he,
      getD_eq_of_not_lt (foldBatches_size _ bs' ptr) he]

/-- D6: batching / order independence for the whole array -/
theorem foldBatches_rowMin_congr (bs bs' : List (List (List Nat))) (ptr : Array Int)
    (hu : UniformBatches bs) (hu' : UniformBatches bs') (hoc : OrbitClosed bs.flatten)
    (hmem : ∀ r, r ∈ bs'.flatten ↔ r ∈ bs.flatten) :
    foldBatches .rowMin bs' ptr = foldBatches .rowMin bs ptr := by
  apply Array.ext
  · rw [foldBatches_size, foldBatches_size]
  · intro i h1 h2
    rw [getElem_eq_getD h1 0, getElem_eq_getD h2 0]
    exact foldBatches_rowMin_congr_getD bs bs' ptr 0 hu hu' hoc hmem i

/-- in particular: all rows in one single batch (when they have one common length) -/
theorem foldBatches_rowMin_eq_single (bs : List (List (List Nat))) (ptr : Array Int)
    (hu : UniformBatches bs) (hu1 : ∀ r ∈ bs.flatten, r.length = (bs.flatten.headD []).length)
    (hoc : OrbitClosed bs.flatten) :
    foldBatches .rowMin bs ptr = writeBatch .rowMin bs.flatten ptr := by
  have := foldBatches_rowMin_congr [bs.flatten] bs ptr
    (by intro b hb; rw [List.mem_singleton.mp hb]; exact hu1) hu (by simpa using hoc)
    (by simp)
  rw [this]; rfl

/-! ## D6, connection to the model's `updatePerm` -/

theorem batchSlice_cover {n b : Nat} {sl : List (Nat × Nat)} (h : batchSlice n b = some sl)
    {j : Nat} (hj : j < n) : ∃ p ∈ sl, p.1 ≤ j ∧ j < p.2 := by
  unfold batchSlice at h
  split at h
  · cases h
  · rename_i hb
    have hb' : 0 < b := Nat.pos_of_ne_zero hb
    simp only [Option.some.injEq] at h
    subst h
    have hk : j / b < (n + b - 1) / b := by
      rw [Nat.div_lt_iff_lt_mul hb']
      have := Nat.lt_div_mul_add (a := n + b - 1) hb'
      omega
    have h1 : j / b * b ≤ j := Nat.div_mul_le_self j b
    have h2 : j < (j / b + 1) * b := by
      have := Nat.lt_div_mul_add (a := j) hb'
      rw [Nat.add_mul]; omega
    generalize j / b = i at hk h1 h2
    have hlen1 : (batchBegins n b).length = (n + b - 1) / b := by simp [batchBegins]
    have hget : ∀ (i : Nat) (hi : i < (batchBegins n b).length), (batchBegins n b)[i] = i * b := by
      intro i hi; simp [batchBegins]
    generalize batchBegins n b = begins at hlen1 hget
    generalize (n + b - 1) / b = k at hk hlen1
    have hlen2 : (begins.tail ++ [n]).length = k := by
      simp [hlen1]; omega
    have hi : i < (begins.zip (begins.tail ++ [n])).length := by
      rw [List.length_zip, hlen1, hlen2]; omega
    refine ⟨_, List.getElem_mem hi, ?_, ?_⟩
    · rw [List.getElem_zip]
      simp only [hget]
      exact h1
    · rw [List.getElem_zip]
      simp only
      by_cases hlast : i < begins.tail.length
      · rw [List.getElem_append_left hlast, List.getElem_tail, hget]
        exact h2
      · rw [List.getElem_append_right (Nat.le_of_not_lt hlast)]
        simpa using hj

theorem stageRowsOf_length {N : Nat} {ad : Array Nat} {st : Stage} {comb r : List Nat}
    (hr : r ∈ stageRowsOf N ad st comb) : r.length = st.perms.length / st.nPermsGroup := by
  simp only [stageRowsOf, List.mem_map, List.mem_range] at hr
  obtain ⟨g, hg, rfl⟩ := hr
  simp only [List.length_take, List.length_drop, List.length_map]
  have h1 : (g + 1) * (st.perms.length / st.nPermsGroup) ≤
      st.nPermsGroup * (st.perms.length / st.nPermsGroup) := Nat.mul_le_mul_right _ hg
  have h2 := Nat.mul_div_le st.perms.length st.nPermsGroup
  rw [Nat.add_mul] at h1
  generalize st.perms.length / st.nPermsGroup = q at *
  generalize g * q = x at *
  generalize st.nPermsGroup * q = y at *
  omega

/-- the batches of rows handled by `updatePerm` for the slices `sl` -/
def permBatches (N : Nat) (ad : Array Nat) (st : Stage) (combs : List (List Nat))
    (sl : List (Nat × Nat)) : List (List (List Nat)) :=
  sl.map (fun be => ((combs.drop be.1).take (be.2 - be.1)).flatMap (stageRowsOf N ad st))

theorem updatePerm_eq_foldBatches {N : Nat} {ad : Array Nat} {rk : RepKind} {st : Stage}
    {combs : List (List Nat)} {nBatch : Nat} {ptr ptr' : Array Int}
    (h : updatePerm N ad rk st combs nBatch ptr = some ptr') :
    ∃ sl, batchSlice combs.length (combs.length / nBatch) = some sl ∧
      ptr' = foldBatches rk (permBatches N ad st combs sl) ptr := by
  unfold updatePerm at h
  split at h
  · cases h
  · rename_i sl hsl
    refine ⟨sl, hsl, ?_⟩
    simp only [Option.some.injEq] at h
    rw [← h, foldBatches, permBatches, List.foldl_map]

theorem permBatches_uniform (N : Nat) (ad : Array Nat) (st : Stage) (combs : List (List Nat))
    (sl : List (Nat × Nat)) : UniformBatches (permBatches N ad st combs sl) := by
  intro b hb
  simp only [permBatches, List.mem_map] at hb
  obtain ⟨be, _, rfl⟩ := hb
  apply common_length_headD (n := st.perms.length / st.nPermsGroup)
  intro r hr
  obtain ⟨c, _, hc⟩ := List.mem_flatMap.mp hr
  exact stageRowsOf_length hc

theorem mem_permBatches_flatten {N : Nat} {ad : Array Nat} {st : Stage}
    {combs : List (List Nat)} {b : Nat} {sl : List (Nat × Nat)}
    (hsl : batchSlice combs.length b = some sl) (r : List Nat) :
    r ∈ (permBatches N ad st combs sl).flatten ↔ r ∈ combs.flatMap (stageRowsOf N ad st) := by
  simp only [permBatches, List.mem_flatten, List.mem_map, List.mem_flatMap]
  constructor
  · rintro ⟨_, ⟨be, _, rfl⟩, hr⟩
    obtain ⟨c, hc, hrc⟩ := List.mem_flatMap.mp hr
    exact ⟨c, List.mem_of_mem_drop (List.mem_of_mem_take hc), hrc⟩
  · rintro ⟨c, hc, hrc⟩
    obtain ⟨j, hj, rfl⟩ := List.mem_iff_getElem.mp hc
    obtain ⟨p, hp, hp1, hp2⟩ := batchSlice_cover hsl hj
    refine ⟨_, ⟨p, hp, rfl⟩, List.mem_flatMap.mpr ⟨combs[j], ?_, hrc⟩⟩
    rw [List.mem_iff_getElem]
    refine ⟨j - p.1, ?_, ?_⟩
    · rw [List.length_take, List.length_drop]; omega
    · rw [List.getElem_take, List.getElem_drop]
      congr 1; omega

/-- all rows of one stage -/
def stageRows (N : Nat) (ad : Array Nat) (st : Stage) (combs : List (List Nat)) :
    List (List Nat) := combs.flatMap (stageRowsOf N ad st)

/-- `updatePerm`, packaged: the result is a `foldBatches` over uniform batches whose rows are
    exactly the rows of the stage -/
theorem updatePerm_spec {N : Nat} {ad : Array Nat} {rk : RepKind} {st : Stage}
    {combs : List (List Nat)} {nBatch : Nat} {ptr ptr' : Array Int}
    (h : updatePerm N ad rk st combs nBatch ptr = some ptr') :
    ∃ bs, ptr' = foldBatches rk bs ptr ∧ UniformBatches bs ∧
      ∀ r, r ∈ bs.flatten ↔ r ∈ stageRows N ad st combs := by
  obtain ⟨sl, hsl, rfl⟩ := updatePerm_eq_foldBatches h
  exact ⟨_, rfl, permBatches_uniform N ad st combs sl, mem_permBatches_flatten hsl⟩

/-- D6 for `updatePerm`: star theorem -/
theorem updatePerm_rowMin_star {N : Nat} {ad : Array Nat} {st : Stage}
    {combs : List (List Nat)} {nBatch : Nat} {ptr ptr' : Array Int} (d : Int)
    (h : updatePerm N ad .rowMin st combs nBatch ptr = some ptr')
    (hoc : OrbitClosed (stageRows N ad st combs))
    (r : List Nat) (hr : r ∈ stageRows N ad st combs) (e : Nat) (her : e ∈ r)
    (he : e < ptr.size) : ptr'.getD e d = Int.ofNat (rowRep .rowMin r) := by
  obtain ⟨bs, rfl, hu, hmem⟩ := updatePerm_spec h
  exact foldBatches_rowMin_star bs ptr d hu (hoc.of_subset (fun r => (hmem r).mp)) r
    ((hmem r).mpr hr) e her he

/-- frame for `updatePerm` (any representative kind) -/
theorem updatePerm_frame {N : Nat} {ad : Array Nat} {rk : RepKind} {st : Stage}
    {combs : List (List Nat)} {nBatch : Nat} {ptr ptr' : Array Int} (d : Int)
    (h : updatePerm N ad rk st combs nBatch ptr = some ptr') (e : Nat)
    (hno : ∀ r ∈ stageRows N ad st combs, e ∉ r) : ptr'.getD e d = ptr.getD e d := by
  obtain ⟨bs, rfl, hu, hmem⟩ := updatePerm_spec h
  exact foldBatches_frame rk bs ptr e d hu (fun r hr => hno r ((hmem r).mp hr))

/-- D6 for `updatePerm`: the result does not depend on the number of batches -/
theorem updatePerm_rowMin_batch_indep {N : Nat} {ad : Array Nat} {st : Stage}
    {combs : List (List Nat)} {nBatch nBatch' : Nat} {ptr p1 p2 : Array Int}
    (h1 : updatePerm N ad .rowMin st combs nBatch ptr = some p1)
    (h2 : updatePerm N ad .rowMin st combs nBatch' ptr = some p2)
    (hoc : OrbitClosed (stageRows N ad st combs)) : p1 = p2 := by
  obtain ⟨bs1, rfl, hu1, hmem1⟩ := updatePerm_spec h1
  obtain ⟨bs2, rfl, hu2, hmem2⟩ := updatePerm_spec h2
  exact foldBatches_rowMin_congr bs2 bs1 ptr hu2 hu1 (hoc.of_subset (fun r => (hmem2 r).mp))
    (fun r => (hmem1 r).trans (hmem2 r).symm)

/-! ### all stages: `permDecompr` -/

/-- all rows of all stages of `permDecompr` -/
def allStageRows (ops : CutoffOps) (c : Cell) (n : Nat) (stages : List Stage)
    (cut : Option CutoffIn) : List (List Nat) :=
  stages.flatMap (fun st => stageRows c.N (c.atomicDecompr n) st (stageCombs ops c n cut st))

theorem foldl_bind_none {α β : Type} (f : α → β → Option α) (l : List β) :
    l.foldl (fun acc x => acc.bind (fun a => f a x)) none = none := by
  induction l with
  | nil => rfl
  | cons x xs ih => exact ih

theorem stagesFold_spec {rk : RepKind} {N : Nat} {ad : Array Nat}
    (combsOf : Stage → List (List Nat)) (nb : Stage → Nat)
    (stages : List Stage) (ptr ptr' : Array Int)
    (h : stages.foldl (fun acc st => acc.bind (fun p =>
        updatePerm N ad rk st (combsOf st) (nb st) p)) (some ptr) = some ptr') :
    ∃ bs, ptr' = foldBatches rk bs ptr ∧ UniformBatches bs ∧
      ∀ r, r ∈ bs.flatten ↔ r ∈ stages.flatMap (fun st => stageRows N ad st (combsOf st)) := by
  induction stages generalizing ptr with
  | nil =>
    simp only [List.foldl_nil, Option.some.injEq] at h
    exact ⟨[], h.symm, fun b hb => absurd hb List.not_mem_nil, fun r => by simp⟩
  | cons st rest ih =>
    rw [List.foldl_cons, Option.bind_some] at h
    cases h1 : updatePerm N ad rk st (combsOf st) (nb st) ptr with
    | none => rw [h1, foldl_bind_none] at h; cases h
    | some p1 =>
      rw [h1] at h
      obtain ⟨bs1, rfl, hu1, hm1⟩ := updatePerm_spec h1
      obtain ⟨bs2, rfl, hu2, hm2⟩ := ih _ h
      refine ⟨bs1 ++ bs2, (foldBatches_append _ _ _ _).symm, ?_, ?_⟩
      · intro b hb
        rcases List.mem_append.mp hb with hb | hb
        · exact hu1 b hb
        · exact hu2 b hb
      · intro r
        rw [List.flatten_append, List.mem_append, List.flatMap_cons, List.mem_append, hm1, hm2]

/-- `permDecompr`, packaged: the pointer array is a `foldBatches` from the all-`-1` array over
    uniform batches whose rows are exactly the rows of all stages -/
theorem permDecompr_spec {ops : CutoffOps} {c : Cell} {n : Nat} {rk : RepKind}
    {stages : List Stage} {cut : Option CutoffIn} {nBatch : String → Nat} {ptr' : Array Int}
    (h : permDecompr ops c n rk stages cut nBatch = some ptr') :
    ∃ bs, ptr' = foldBatches rk bs (Array.replicate (c.N ^ n * 3 ^ n / c.nlp) (-1)) ∧
      UniformBatches bs ∧ ∀ r, r ∈ bs.flatten ↔ r ∈ allStageRows ops c n stages cut :=
  stagesFold_spec (fun st => stageCombs ops c n cut st) (fun st => nBatch st.batchKey)
    stages _ ptr' h

/-! ## D6 + D7: the components after the row-minimum pass are exactly the rows -/

theorem getD_replicate_neg (size e : Nat) : (Array.replicate size (-1 : Int)).getD e (-1) = -1 := by
  rw [Array.getD_eq_getD_getElem?, Array.getElem?_replicate]
  split <;> rfl

theorem ofNat_ne_neg_one (k : Nat) : Int.ofNat k ≠ -1 := by
  intro h
  have : (0 : Int) ≤ Int.ofNat k := Int.natCast_nonneg k
  omega

theorem toNat_ofNat' (k : Nat) : (Int.ofNat k).toNat = k := rfl

/-- starting from the all-`-1` array, the covered nodes are exactly the elements of the rows -/
theorem foldBatches_covered_iff (rk : RepKind) (bs : List (List (List Nat))) (size : Nat)
    (hu : UniformBatches bs) (hb : ∀ r ∈ bs.flatten, ∀ e ∈ r, e < size) (e : Nat) :
    covered (foldBatches rk bs (Array.replicate size (-1))) e ↔ ∃ r ∈ bs.flatten, e ∈ r := by
  constructor
  · rintro ⟨he, hne⟩
    rw [foldBatches_size, Array.size_replicate] at he
    rcases foldBatches_cases rk bs (Array.replicate size (-1)) e (-1) hu (by simpa using he)
      with h | ⟨r, hr, her, _⟩
    · exact absurd (h.2.trans (getD_replicate_neg size e)) hne
    · exact ⟨r, hr, her⟩
  · rintro ⟨r, hr, her⟩
    have he : e < size := hb r hr e her
    refine ⟨by rw [foldBatches_size, Array.size_replicate]; exact he, ?_⟩
    rcases foldBatches_cases rk bs (Array.replicate size (-1)) e (-1) hu (by simpa using he)
      with h | ⟨r', _, _, hv⟩
    · exact absurd her (h.1 r hr)
    · rw [hv]; exact ofNat_ne_neg_one _

/-- after the row-minimum pass over orbit-closed rows the pointer graph is a star forest whose
    centre map is "minimum of my row" -/
theorem foldBatches_rowMin_starForest (bs : List (List (List Nat))) (size : Nat)
    (hu : UniformBatches bs) (hoc : OrbitClosed bs.flatten)
    (hb : ∀ r ∈ bs.flatten, ∀ e ∈ r, e < size) :
    StarForest (foldBatches .rowMin bs (Array.replicate size (-1)))
      (fun e => ((foldBatches .rowMin bs (Array.replicate size (-1))).getD e (-1)).toNat) := by
  have hval : ∀ r ∈ bs.flatten, ∀ e ∈ r,
      (foldBatches .rowMin bs (Array.replicate size (-1))).getD e (-1)
        = Int.ofNat (rowRep .rowMin r) := fun r hr e her =>
    foldBatches_rowMin_star bs _ (-1) hu hoc r hr e her (by simpa using hb r hr e her)
  have hrep : ∀ r ∈ bs.flatten, ∀ e ∈ r, rowRep .rowMin r ∈ r := fun r _ e her =>
    rowMin_mem r (List.ne_nil_of_mem her)
  refine ⟨fun e he => ?_, fun e he => ?_, fun e he => ?_⟩
  · obtain ⟨r, hr, her⟩ := (foldBatches_covered_iff _ bs size hu hb e).mp he
    simp only [hval r hr e her]; rfl
  · obtain ⟨r, hr, her⟩ := (foldBatches_covered_iff _ bs size hu hb e).mp he
    simp only [hval r hr e her]
    exact (foldBatches_covered_iff _ bs size hu hb _).mpr ⟨r, hr, hrep r hr e her⟩
  · obtain ⟨r, hr, her⟩ := (foldBatches_covered_iff _ bs size hu hb e).mp he
    simp only [hval r hr e her, toNat_ofNat', hval r hr _ (hrep r hr e her)]

/-- D6 + D7: after the row-minimum pass over orbit-closed rows (from the all-`-1` array), two
    nodes are in the same component iff they lie in a common row; the components are exactly
    the rows (orbits) -/
theorem foldBatches_rowMin_sameComp_iff (bs : List (List (List Nat))) (size : Nat)
    (hu : UniformBatches bs) (hoc : OrbitClosed bs.flatten)
    (hb : ∀ r ∈ bs.flatten, ∀ e ∈ r, e < size) (a b : Nat) :
    SameComp (foldBatches .rowMin bs (Array.replicate size (-1))) a b ↔
      ∃ r ∈ bs.flatten, a ∈ r ∧ b ∈ r := by
  have hsf := foldBatches_rowMin_starForest bs size hu hoc hb
  have hval : ∀ r ∈ bs.flatten, ∀ e ∈ r,
      (foldBatches .rowMin bs (Array.replicate size (-1))).getD e (-1)
        = Int.ofNat (rowRep .rowMin r) := fun r hr e her =>
    foldBatches_rowMin_star bs _ (-1) hu hoc r hr e her (by simpa using hb r hr e her)
  rw [hsf.sameComp_iff']
  constructor
  · rintro ⟨ha, hb', hm⟩
    obtain ⟨ra, hra, hara⟩ := (foldBatches_covered_iff _ bs size hu hb a).mp ha
    obtain ⟨rb, hrb, hbrb⟩ := (foldBatches_covered_iff _ bs size hu hb b).mp hb'
    simp only [hval ra hra a hara, hval rb hrb b hbrb, toNat_ofNat'] at hm
    have h1 : rowRep .rowMin ra ∈ ra := rowMin_mem ra (List.ne_nil_of_mem hara)
    have h2 : rowRep .rowMin ra ∈ rb := hm ▸ rowMin_mem rb (List.ne_nil_of_mem hbrb)
    exact ⟨ra, hra, hara, (hoc ra hra rb hrb ⟨_, h1, h2⟩ b).mpr hbrb⟩
  · rintro ⟨r, hr, har, hbr⟩
    refine ⟨(foldBatches_covered_iff _ bs size hu hb a).mpr ⟨r, hr, har⟩,
      (foldBatches_covered_iff _ bs size hu hb b).mpr ⟨r, hr, hbr⟩, ?_⟩
    simp only [hval r hr a har, hval r hr b hbr]

/-- the whole permutation stage with row-minimum representatives: if the rows of all stages are
    orbit-closed and in bounds, the components of the resulting pointer graph are exactly the
    rows -/
theorem permDecompr_rowMin_sameComp_iff {ops : CutoffOps} {c : Cell} {n : Nat}
    {stages : List Stage} {cut : Option CutoffIn} {nBatch : String → Nat} {ptr' : Array Int}
    (h : permDecompr ops c n .rowMin stages cut nBatch = some ptr')
    (hoc : OrbitClosed (allStageRows ops c n stages cut))
    (hb : ∀ r ∈ allStageRows ops c n stages cut, ∀ e ∈ r, e < c.N ^ n * 3 ^ n / c.nlp)
    (a b : Nat) :
    SameComp ptr' a b ↔ ∃ r ∈ allStageRows ops c n stages cut, a ∈ r ∧ b ∈ r := by
  obtain ⟨bs, rfl, hu, hmem⟩ := permDecompr_spec h
  rw [foldBatches_rowMin_sameComp_iff bs _ hu (hoc.of_subset (fun r => (hmem r).mp))
    (fun r hr => hb r ((hmem r).mp hr))]
  constructor
  · rintro ⟨r, hr, hab⟩; exact ⟨r, (hmem r).mp hr, hab⟩
  · rintro ⟨r, hr, hab⟩; exact ⟨r, (hmem r).mpr hr, hab⟩

/-- the whole permutation stage with row-minimum representatives does not depend on the batch
    counts -/
theorem permDecompr_rowMin_batch_indep {ops : CutoffOps} {c : Cell} {n : Nat}
    {stages : List Stage} {cut : Option CutoffIn} {nBatch nBatch' : String → Nat}
    {p1 p2 : Array Int}
    (h1 : permDecompr ops c n .rowMin stages cut nBatch = some p1)
    (h2 : permDecompr ops c n .rowMin stages cut nBatch' = some p2)
    (hoc : OrbitClosed (allStageRows ops c n stages cut)) : p1 = p2 := by
  obtain ⟨bs1, rfl, hu1, hmem1⟩ := permDecompr_spec h1
  obtain ⟨bs2, rfl, hu2, hmem2⟩ := permDecompr_spec h2
  exact foldBatches_rowMin_congr bs2 bs1 _ hu2 hu1 (hoc.of_subset (fun r => (hmem2 r).mp))
    (fun r => (hmem1 r).trans (hmem2 r).symm)

/-! ## D8 `col0` representatives (soundness only) -/

theorem rowRep_col0 (r : List Nat) (h : r ≠ []) : rowRep .col0 r = r.head h := by
  cases r with
  | nil => exact absurd rfl h
  | cons x xs => rfl

/-- D3 for `col0`: unchanged, or the head of a row containing the index -/
theorem writeBatch_col0_sound (rows : List (List Nat)) (ptr : Array Int) (e : Nat) (d : Int)
    (hlen : ∀ r ∈ rows, r.length = (rows.headD []).length) (he : e < ptr.size) :
    (writeBatch .col0 rows ptr).getD e d = ptr.getD e d ∨
      ∃ r ∈ rows, ∃ her : e ∈ r,
        (writeBatch .col0 rows ptr).getD e d = Int.ofNat (r.head (List.ne_nil_of_mem her)) := by
  rcases writeBatch_sound .col0 rows ptr e d hlen he with h | ⟨r, hr, her, hv⟩
  · exact Or.inl h
  · exact Or.inr ⟨r, hr, her, by rw [hv, rowRep_col0]⟩

/-- D3 converse for `col0`: an in-bounds index occurring in some row is overwritten by the head
    of some row containing it -/
theorem writeBatch_col0_hit (rows : List (List Nat)) (ptr : Array Int) (e : Nat) (d : Int)
    (hlen : ∀ r ∈ rows, r.length = (rows.headD []).length) (he : e < ptr.size)
    (h : ∃ r ∈ rows, e ∈ r) :
    ∃ r ∈ rows, ∃ her : e ∈ r,
      (writeBatch .col0 rows ptr).getD e d = Int.ofNat (r.head (List.ne_nil_of_mem her)) := by
  obtain ⟨r, hr, her, hv⟩ := writeBatch_hit .col0 rows ptr e d hlen he h
  exact ⟨r, hr, her, by rw [hv, rowRep_col0]⟩

/-- the two-column case used at order 2: rows `[x, y]`; the final `ptr[y]` is the head `x'` of
    some row `[x', y']` containing `y` -/
theorem writeBatch_col0_pairs (rows : List (List Nat)) (ptr : Array Int) (d : Int)
    (hpair : ∀ r ∈ rows, ∃ x y, r = [x, y]) (x y : Nat) (hxy : [x, y] ∈ rows)
    (hy : y < ptr.size) :
    ∃ x' y', [x', y'] ∈ rows ∧ (y = x' ∨ y = y') ∧
      (writeBatch .col0 rows ptr).getD y d = Int.ofNat x' := by
  have hlen : ∀ r ∈ rows, r.length = (rows.headD []).length :=
    common_length_headD (n := 2) (fun r hr => by obtain ⟨a, b, rfl⟩ := hpair r hr; rfl)
  obtain ⟨r, hr, her, hv⟩ :=
    writeBatch_hit .col0 rows ptr y d hlen hy ⟨[x, y], hxy, by simp⟩
  obtain ⟨x', y', rfl⟩ := hpair r hr
  refine ⟨x', y', hr, by simpa using her, hv⟩

/-! ## decidable sufficient check for `OrbitClosed`, and non-vacuity examples -/

/-- executable version of `OrbitClosed` -/
def orbitClosedB (rows : List (List Nat)) : Bool :=
  rows.all fun r1 => rows.all fun r2 =>
    !(r1.any fun e => r2.contains e) ||
      ((r1.all fun x => r2.contains x) && (r2.all fun x => r1.contains x))

theorem orbitClosed_of_orbitClosedB {rows : List (List Nat)} (h : orbitClosedB rows = true) :
    OrbitClosed rows := by
  intro r1 h1 r2 h2 ⟨e, he1, he2⟩ x
  simp only [orbitClosedB, List.all_eq_true, Bool.or_eq_true, Bool.not_eq_true',
    Bool.and_eq_true, List.any_eq_false, List.contains_iff_mem] at h
  rcases h r1 h1 r2 h2 with h | h
  · exact absurd he2 (by simpa using h e he1)
  · exact ⟨fun hx => by simpa using h.1 x hx, fun hx => by simpa using h.2 x hx⟩

def exRows : List (List Nat) := [[3, 5, 7], [5, 7, 3], [10, 11, 12]]
def exPtr : Array Int := Array.replicate 13 (-1)

example : ∀ r ∈ exRows, r.length = (exRows.headD []).length := by decide
example : OrbitClosed exRows := orbitClosed_of_orbitClosedB (by decide)
example : writeBatch .rowMin exRows exPtr
    = #[-1, -1, -1, 3, -1, 3, -1, 3, -1, -1, 10, 10, 10] := by decide
-- another order of the same rows gives the same array (instance of `writeBatch_rowMin_perm`)
example : writeBatch .rowMin [[10, 11, 12], [5, 7, 3], [3, 5, 7]] exPtr
    = writeBatch .rowMin exRows exPtr := by decide
example : writeBatch .rowMin [[10, 11, 12], [5, 7, 3], [3, 5, 7]] exPtr
    = writeBatch .rowMin exRows exPtr :=
  writeBatch_rowMin_perm exRows _ exPtr (by decide) (orbitClosed_of_orbitClosedB (by decide))
    (by decide)
-- splitting into two batches gives the same array (instance of `foldBatches_rowMin_congr`)
example : foldBatches .rowMin [[[10, 11, 12]], [[5, 7, 3], [3, 5, 7]]] exPtr
    = writeBatch .rowMin exRows exPtr := by decide
-- with `col0` representatives the order DOES matter (so D5 is specific to `rowMin`)
example : writeBatch .col0 [[3, 5, 7], [7, 5, 3]] exPtr
    ≠ writeBatch .col0 [[7, 5, 3], [3, 5, 7]] exPtr := by decide
-- without orbit-closedness the order matters even for `rowMin`
example : writeBatch .rowMin [[1, 2], [3, 2]] exPtr
    ≠ writeBatch .rowMin [[3, 2], [1, 2]] exPtr := by decide

theorem exRows_uniform : UniformBatches [exRows] := by unfold UniformBatches; decide

-- components of the example: 5 and 7 are linked, 5 and 10 are not (instances of D6 + D7)
example : SameComp (foldBatches .rowMin [exRows] (Array.replicate 13 (-1))) 5 7 :=
  (foldBatches_rowMin_sameComp_iff [exRows] 13 exRows_uniform (orbitClosed_of_orbitClosedB (by decide))
    (by decide) 5 7).mpr (by decide)
example : ¬ SameComp (foldBatches .rowMin [exRows] (Array.replicate 13 (-1))) 5 10 := by
  rw [foldBatches_rowMin_sameComp_iff [exRows] 13 exRows_uniform
    (orbitClosed_of_orbitClosedB (by decide)) (by decide)]
  decide

end Symfc

section AxiomAudit
open Symfc
end AxiomAudit
