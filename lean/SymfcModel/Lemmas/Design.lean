/-
  Lemmas/Design.lean — main file for (D1)–(D3): the operational design matrix / normal equations of
  the least-squares solver equal the Taylor-expansion spec; corner cases; a concrete instance.

  * `DesignSum`   finite sums (`rsum`, `lsum`), reindexing, `foldl`/`modify` accumulation
  * `DesignIdx`   `flat`/`unflat`, digit interleaving, generic chain statement `ChainOK`
  * `DesignEntry` (D1) `designBlockOp_entry`, `designBlockOp_spec`
  * `DesignMat`   `tmul`, `IMat.add`, `hcat`, accumulator invariants
  * `DesignGram`  (D2) `normalEqOp_eq_spec`, (D3) `normalEqOp_batch_indep`
-/
import SymfcModel.Lemmas.DesignGram
namespace Symfc

/-! ### D1 in the form of the task statement -/

/-- **(D1)** as stated: `od.k ∈ {2,3,4}`, `od.chain = chainFor od.k`, `N ≥ 1`, stored columns `< nx`.
    (The hypotheses `bi ≤ ei ≤ N` of the informal statement are not needed.) -/
theorem D1 (c : Cell) (od : OrderData) (hk : od.k = 2 ∨ od.k = 3 ∨ od.k = 4)
    (hch : od.chain = chainFor od.k) (hN : 1 ≤ c.N)
    (hcol : ∀ row, ∀ cv ∈ od.cc.getD row [], cv.1 < od.nx)
    (us : List (Array Int)) (bi ei : Nat) :
    (designBlockOp c od us bi ei).size = us.length * (ei - bi) * 3 ∧
    ∀ s il a, s < us.length → il < ei - bi → a < 3 →
      ((designBlockOp c od us bi ei).getD (s * ((ei - bi) * 3) + il * 3 + a) #[]).size = od.nx ∧
      ∀ x, x < od.nx →
        ((designBlockOp c od us bi ei).getD (s * ((ei - bi) * 3) + il * 3 + a) #[]).getD x 0
          = designEntrySpec c od (us.getD s #[]) (bi + il) a x :=
  designBlockOp_spec c od ⟨hk, hch, hcol⟩ us bi ei hN

/-! ### corner cases of D2/D3: no snapshots or no atoms -/

theorem normalEqOp_degenerate (c : Cell) (ods : List OrderData) (us fs : List (Array Int))
    (h : us.length = 0 ∨ c.N = 0) (atomBatch snapBatch : Nat) (hba : 0 < atomBatch)
    (hbs : 0 < snapBatch) :
    normalEqOp c ods us fs atomBatch snapBatch
      = some (IMat.zeros (ncolOf ods) (ncolOf ods), Array.replicate (ncolOf ods) 0) := by
  obtain ⟨ab, hab⟩ := batchSlice_isSome (n := c.N) hba
  obtain ⟨sb, hsb⟩ := batchSlice_isSome (n := us.length) hbs
  rw [normalEqOp_some c ods us fs atomBatch snapBatch ab sb hab hsb]
  congr 1
  rcases h with h | h
  · rw [h] at hsb
    have := batchSlice_n_zero hbs hsb
    subst this
    simp only [List.foldl_nil]
    generalize (IMat.zeros (ncolOf ods) (ncolOf ods), Array.replicate (ncolOf ods) (0 : Int)) = init
    clear hab
    induction ab with
    | nil => rfl
    | cons a ab ih => simp only [List.foldl_cons]; exact ih
  · rw [h] at hab
    have := batchSlice_n_zero hba hab
    subst this
    rfl

/-- **(D3)** batch independence without any non-emptiness hypothesis -/
theorem D3 (c : Cell) (ods : List OrderData) (hods : ∀ od ∈ ods, OrderOK c od)
    (us fs : List (Array Int)) (hfs : fs.length = us.length)
    (a1 s1 a2 s2 : Nat) (h1 : 0 < a1) (h2 : 0 < s1) (h3 : 0 < a2) (h4 : 0 < s2) :
    normalEqOp c ods us fs a1 s1 = normalEqOp c ods us fs a2 s2 := by
  by_cases h : us.length = 0 ∨ c.N = 0
  · rw [normalEqOp_degenerate c ods us fs h a1 s1 h1 h2,
      normalEqOp_degenerate c ods us fs h a2 s2 h3 h4]
  · exact normalEqOp_batch_indep c ods hods (by omega) us fs hfs (by omega) a1 s1 a2 s2 h1 h2 h3 h4

/-- the spec for an empty design matrix (no snapshots or no atoms): `tmul` of a matrix without rows
    has no rows, so the shapes differ from the operational zero matrix when `ncol > 0` … -/
theorem normalEqSpec_degenerate (c : Cell) (ods : List OrderData) (us fs : List (Array Int))
    (h : us.length = 0 ∨ c.N = 0) :
    normalEqSpec c ods us fs = (#[], Array.replicate (ncolOf ods) 0) := by
  have hr : specRows c ods us fs = [] := by
    unfold specRows
    rcases h with h | h
    · have : us = [] := List.eq_nil_of_length_eq_zero h
      subst this; rfl
    · rw [h]; simp
  rw [normalEqSpec_eq]
  have hx : specX c ods us fs = #[] := by simp [specX, hr]
  rw [hx]
  apply Prod.ext
  · simp [tmul]
  · refine array_ext_getD (n := ncolOf ods) (by simp) (by simp) ?_
    intro j hj
    simp only
    rw [getD_ofFn, dif_pos hj]
    simp [tmul, IMat.get, hj]

/-- … hence **(D2) needs `0 < us.length`** (and `0 < N`): with no snapshots and at least one column
    the two sides differ (zero `ncol × ncol` matrix vs. the empty array). -/
theorem D2_false_without_snapshots (c : Cell) (ods : List OrderData) (fs : List (Array Int))
    (hcol : 0 < ncolOf ods) (atomBatch snapBatch : Nat) (hba : 0 < atomBatch) (hbs : 0 < snapBatch) :
    normalEqOp c ods [] fs atomBatch snapBatch ≠ some (normalEqSpec c ods [] fs) := by
  rw [normalEqOp_degenerate c ods [] fs (Or.inl rfl) atomBatch snapBatch hba hbs,
    normalEqSpec_degenerate c ods [] fs (Or.inl rfl)]
  intro h
  have := congrArg (fun r => (Option.map (fun (x : IMat × Array Int) => x.1.size) r)) h
  simp [IMat.zeros] at this
  omega

/-- entrywise form of (D2) valid in all cases (also without snapshots / atoms) -/
theorem D2_entrywise (c : Cell) (ods : List OrderData) (hods : ∀ od ∈ ods, OrderOK c od)
    (us fs : List (Array Int)) (hfs : fs.length = us.length)
    (atomBatch snapBatch : Nat) (hba : 0 < atomBatch) (hbs : 0 < snapBatch) :
    ∃ r, normalEqOp c ods us fs atomBatch snapBatch = some r ∧
      (∀ p q, r.1.get p q = (normalEqSpec c ods us fs).1.get p q) ∧
      r.2 = (normalEqSpec c ods us fs).2 := by
  by_cases h : us.length = 0 ∨ c.N = 0
  · refine ⟨_, normalEqOp_degenerate c ods us fs h atomBatch snapBatch hba hbs, ?_, ?_⟩
    · intro p q
      rw [normalEqSpec_degenerate c ods us fs h, zeros_get]
      simp [IMat.get]
    · rw [normalEqSpec_degenerate c ods us fs h]
  · exact ⟨_, normalEqOp_eq_spec c ods hods (by omega) us fs hfs (by omega) atomBatch snapBatch
      hba hbs, fun _ _ => rfl, rfl⟩

/-- **(D2)** in the form of the task statement (with the additional hypothesis `0 < us.length`). -/
theorem D2 (c : Cell) (ods : List OrderData)
    (hods : ∀ od ∈ ods, (od.k = 2 ∨ od.k = 3 ∨ od.k = 4) ∧ od.chain = chainFor od.k ∧
      ∀ row, ∀ cv ∈ od.cc.getD row [], cv.1 < od.nx)
    (hN : 1 ≤ c.N) (us fs : List (Array Int)) (hfs : fs.length = us.length) (hS : 0 < us.length)
    (atomBatch snapBatch : Nat) (hba : 0 < atomBatch) (hbs : 0 < snapBatch) :
    normalEqOp c ods us fs atomBatch snapBatch = some (normalEqSpec c ods us fs) :=
  normalEqOp_eq_spec c ods (fun od h => ⟨(hods od h).1, (hods od h).2.1, (hods od h).2.2⟩) hN us fs
    hfs hS atomBatch snapBatch hba hbs

/-! ### non-vacuity: a concrete instance (N = 2, k = 2, nx = 1, one snapshot) -/

def exCell : Cell := { N := 2, tp := #[#[0, 1]] }
def exCC : SRows := ((List.range 36).map (fun r => [(0, (Int.ofNat (r % 5)) - 2)])).toArray
def exOd : OrderData := { k := 2, nx := 1, cc := exCC, const6 := -6, chain := chainFor 2 }
def exUs : List (Array Int) := [#[1, 2, -1, 3, 0, 2]]
def exFs : List (Array Int) := [#[1, 0, 2, -1, 1, 3]]

theorem exOd_ok : OrderOK exCell exOd := by
  refine ⟨Or.inl rfl, rfl, ?_⟩
  intro row cv h
  by_cases hr : row < 36
  · have key : ∀ row, row < 36 → ∀ cv ∈ exCC.getD row [], cv.1 < 1 := by decide
    exact key row hr cv h
  · have hsz : exCC.size = 36 := by decide
    have : exCC.getD row [] = [] := by
      rw [Array.getD_eq_getD_getElem?, Array.getElem?_eq_none (by omega)]; rfl
    simp [exOd, this] at h

set_option maxRecDepth 100000 in
example : designBlockOp exCell exOd exUs 0 2 = #[#[0], #[-66], #[48], #[-66], #[48], #[12]] := by
  decide
set_option maxRecDepth 100000 in
example : (List.range 2).map (fun i => (List.range 3).map (fun a =>
    designEntrySpec exCell exOd (exUs.getD 0 #[]) i a 0)) = [[0, -66, 48], [-66, 48, 12]] := by
  decide
set_option maxRecDepth 100000 in
example : normalEqSpec exCell [exOd] exUs exFs = (#[#[13464]], #[246]) := by decide
set_option maxRecDepth 100000 in
example : normalEqOp exCell [exOd] exUs exFs 1 1 = some (#[#[13464]], #[246]) := by decide

/-- the general theorem applied to the instance (its hypotheses are satisfiable) -/
example (ba bs : Nat) (h1 : 0 < ba) (h2 : 0 < bs) :
    normalEqOp exCell [exOd] exUs exFs ba bs = some (normalEqSpec exCell [exOd] exUs exFs) :=
  D2 exCell [exOd] (by
      intro od h
      simp only [List.mem_singleton] at h
      subst h
      exact ⟨exOd_ok.hk, exOd_ok.hch, exOd_ok.hcol⟩)
    (by decide) exUs exFs rfl (by decide) ba bs h1 h2

end Symfc
