/-
  Lemmas/DistBasic.lean — elementary facts for Model/Dist.lean:
    (a) `rintWrap`: residue, range, closed form, comparison with `wrapHalf`;
    (b) `minList`: it is a member and a lower bound, hence determined by the set of values;
    (c) `offsets k` = all triples with entries in [-k, k];
    (d) vectors: negation, `norm2 G (-v) = norm2 G v` (any G), shifting a trial by a lattice vector.
-/
import SymfcModel.Model.Dist
import SymfcModel.Model.SgPerm
namespace Symfc
namespace Dist

/-! ## (a) `rintWrap` -/

/-- closed form: with `r = x % S`, the result is `r` below the half, `r - S` above it, and at the half
    `+S/2` / `-S/2` according to the parity of `⌊x/S⌋` (numpy's ties-to-even) -/
theorem rintWrap_eq (S x : Int) :
    rintWrap S x =
      if 2 * (x % S) < S then x % S
      else if S < 2 * (x % S) then x % S - S
      else if (x / S) % 2 = 0 then x % S else x % S - S := by
  have hdef : x % S = x - S * (x / S) := Int.emod_def x S
  have hmul : S * (x / S + 1) = S * (x / S) + S := by rw [Int.mul_add, Int.mul_one]
  unfold rintWrap rintGrid
  simp only []
  split
  · omega
  · split
    · omega
    · split <;> omega

/-- `x - rint(x) ≡ x (mod 1)` -/
theorem rintWrap_dvd (S x : Int) : S ∣ rintWrap S x - x := by
  unfold rintWrap
  refine ⟨-rintGrid S x, ?_⟩
  rw [Int.mul_neg]; omega

/-- `|x - rint(x)| ≤ 1/2` -/
theorem rintWrap_range (S x : Int) (hS : 0 < S) : -S ≤ 2 * rintWrap S x ∧ 2 * rintWrap S x ≤ S := by
  have h0 := Int.emod_nonneg x (Int.ne_of_gt hS)
  have h1 := Int.emod_lt_of_pos x hS
  rw [rintWrap_eq]
  split
  · omega
  · split
    · omega
    · split <;> omega

/-- strictly inside `(-1/2, 1/2)` away from the boundary -/
theorem rintWrap_range_strict (S x : Int) (hS : 0 < S) (hb : 2 * (x % S) ≠ S) :
    -S < 2 * rintWrap S x ∧ 2 * rintWrap S x < S := by
  have h0 := Int.emod_nonneg x (Int.ne_of_gt hS)
  have h1 := Int.emod_lt_of_pos x hS
  rw [rintWrap_eq]
  split
  · omega
  · split
    · omega
    · omega

/-- away from the boundary the wrap only depends on the residue -/
theorem rintWrap_congr (S x y : Int) (hb : 2 * (x % S) ≠ S) (h : x % S = y % S) :
    rintWrap S y = rintWrap S x := by
  rw [rintWrap_eq, rintWrap_eq, ← h]
  split
  · rfl
  · split
    · rfl
    · omega

theorem rintWrap_add_mul (S x k : Int) (hb : 2 * (x % S) ≠ S) : rintWrap S (x + k * S) = rintWrap S x :=
  rintWrap_congr S x _ hb (by rw [Int.add_mul_emod_self_right])

/-- comparison with `wrapHalf` (Model/SgPerm.lean, `[-S/2, S/2)`): equal except at `x ≡ S/2 (mod S)` with `⌊x/S⌋` even,
    where numpy gives `+S/2` and `wrapHalf` gives `-S/2` -/
theorem rintWrap_eq_wrapHalf (S x : Int) (hS : 0 < S) (hev : S % 2 = 0) :
    rintWrap S x = if 2 * (x % S) = S ∧ (x / S) % 2 = 0 then wrapHalf S x + S else wrapHalf S x := by
  have h0 := Int.emod_nonneg x (Int.ne_of_gt hS)
  have h1 := Int.emod_lt_of_pos x hS
  have hw : wrapHalf S x = if 2 * (x % S) < S then x % S else x % S - S := by
    unfold wrapHalf
    have hdef : x % S = x - S * (x / S) := Int.emod_def x S
    have e : x + S / 2 = (x % S + S / 2) + S * (x / S) := by omega
    rw [e, Int.add_mul_emod_self_left]
    split
    · rw [Int.emod_eq_of_lt (by omega) (by omega)]; omega
    · have e2 : x % S + S / 2 = (x % S + S / 2 - S) + S * 1 := by omega
      rw [e2, Int.add_mul_emod_self_left, Int.emod_eq_of_lt (by omega) (by omega)]; omega
  rw [rintWrap_eq, hw]
  split
  · rw [if_neg (by omega)]
  · split
    · rw [if_neg (by omega)]
    · split
      · rw [if_pos ⟨by omega, by assumption⟩]; omega
      · rw [if_neg (by omega)]

/-! ## (b) `minList` -/

theorem foldl_min_spec (xs : List Int) (x : Int) :
    (xs.foldl (fun m v => if v < m then v else m) x ∈ x :: xs) ∧
    ∀ y ∈ x :: xs, xs.foldl (fun m v => if v < m then v else m) x ≤ y := by
  induction xs generalizing x with
  | nil => simp
  | cons a as ih =>
    simp only [List.foldl_cons]
    obtain ⟨h1, h2⟩ := ih (if a < x then a else x)
    constructor
    · rcases List.mem_cons.mp h1 with h | h
      · rw [h]; split <;> simp
      · simp [h]
    · intro y hy
      have hx' := h2 _ List.mem_cons_self
      have hle : (if a < x then a else x) ≤ x ∧ (if a < x then a else x) ≤ a := by split <;> omega
      rcases List.mem_cons.mp hy with rfl | hy
      · omega
      · rcases List.mem_cons.mp hy with rfl | hy
        · omega
        · exact h2 y (by simp [hy])

theorem minList_mem {l : List Int} (h : l ≠ []) : minList l ∈ l := by
  cases l with
  | nil => exact absurd rfl h
  | cons x xs => exact (foldl_min_spec xs x).1

theorem minList_le {l : List Int} {y : Int} (h : y ∈ l) : minList l ≤ y := by
  cases l with
  | nil => cases h
  | cons x xs => exact (foldl_min_spec xs x).2 y h

/-! ## (c) the window -/

theorem mem_rangeSym {k : Nat} {x : Int} : x ∈ rangeSym k ↔ -(k : Int) ≤ x ∧ x ≤ k := by
  unfold rangeSym
  simp only [List.mem_map, List.mem_range]
  constructor
  · rintro ⟨i, hi, rfl⟩; omega
  · rintro ⟨h1, h2⟩
    exact ⟨(x + k).toNat, by omega, by omega⟩

theorem mem_offsets {k : Nat} {t : List Int} :
    t ∈ offsets k ↔ ∃ a b c, t = [a, b, c] ∧ (-(k : Int) ≤ a ∧ a ≤ k) ∧ (-(k : Int) ≤ b ∧ b ≤ k) ∧
      (-(k : Int) ≤ c ∧ c ≤ k) := by
  unfold offsets
  simp only [List.mem_flatMap, List.mem_map, mem_rangeSym]
  constructor
  · rintro ⟨a, ha, b, hb, c, hc, rfl⟩; exact ⟨a, b, c, rfl, ha, hb, hc⟩
  · rintro ⟨a, b, c, rfl, ha, hb, hc⟩; exact ⟨a, ha, b, hb, c, hc, rfl⟩

theorem offsets_ne_nil (k : Nat) : offsets k ≠ [] := by
  have : [0, 0, 0] ∈ offsets k := mem_offsets.mpr ⟨0, 0, 0, rfl, by omega, by omega, by omega⟩
  intro h; rw [h] at this; cases this

theorem minOver_le {S : Int} {G : List (List Int)} {d t : List Int} {k : Nat} (ht : t ∈ offsets k) :
    minOver S G d k ≤ trial S G d t :=
  minList_le (List.mem_map.mpr ⟨t, ht, rfl⟩)

theorem minOver_mem (S : Int) (G : List (List Int)) (d : List Int) (k : Nat) :
    ∃ t, t ∈ offsets k ∧ minOver S G d k = trial S G d t := by
  have h : (offsets k).map (trial S G d) ≠ [] := by
    intro h; exact offsets_ne_nil k (List.map_eq_nil_iff.mp h)
  obtain ⟨t, ht, e⟩ := List.mem_map.mp (minList_mem h)
  exact ⟨t, ht, e.symm⟩

/-- the minimum is characterised by membership and minimality -/
theorem minOver_eq_of {S : Int} {G : List (List Int)} {d : List Int} {k : Nat} {m : Int}
    (hle : ∀ t ∈ offsets k, m ≤ trial S G d t) (hmem : ∃ t ∈ offsets k, m = trial S G d t) :
    minOver S G d k = m := by
  obtain ⟨t, ht, e⟩ := hmem
  obtain ⟨t', ht', e'⟩ := minOver_mem S G d k
  have h1 : minOver S G d k ≤ m := e ▸ minOver_le ht
  have h2 : m ≤ minOver S G d k := e' ▸ hle t' ht'
  omega

/-- a larger window can only lower the minimum -/
theorem minOver_mono {S : Int} {G : List (List Int)} {d : List Int} {k k' : Nat} (h : k ≤ k') :
    minOver S G d k' ≤ minOver S G d k := by
  obtain ⟨t, ht, e⟩ := minOver_mem S G d k
  rw [e]
  apply minOver_le
  obtain ⟨a, b, c, rfl, ha, hb, hc⟩ := mem_offsets.mp ht
  exact mem_offsets.mpr ⟨a, b, c, rfl, by omega, by omega, by omega⟩

/-! ## (d) vectors -/

def negV (v : List Int) : List Int := v.map (fun x => -x)

theorem dotI_negV_left : ∀ (u w : List Int), dotI (negV u) w = -dotI u w
  | [], _ => by simp [negV, dotI]
  | _ :: _, [] => by simp [negV, dotI]
  | a :: as, b :: bs => by
    have ih := dotI_negV_left as bs
    simp only [negV, List.map_cons, dotI] at ih ⊢
    rw [ih, Int.neg_mul]; omega

theorem dotI_negV_right : ∀ (u w : List Int), dotI u (negV w) = -dotI u w
  | [], _ => by simp [dotI]
  | _ :: _, [] => by simp [negV, dotI]
  | a :: as, b :: bs => by
    have ih := dotI_negV_right as bs
    simp only [negV, List.map_cons, dotI] at ih ⊢
    rw [ih, Int.mul_neg]; omega

/-- the quadratic form is even — no hypothesis on `G` -/
theorem norm2_negV (G : List (List Int)) (v : List Int) : norm2 G (negV v) = norm2 G v := by
  unfold norm2
  have : G.map (fun row => dotI row (negV v)) = negV (G.map (fun row => dotI row v)) := by
    simp only [negV, List.map_map]
    apply List.map_congr_left
    intro row _
    exact dotI_negV_right row v
  rw [this, dotI_negV_left, dotI_negV_right]; omega

theorem vsub_swap : ∀ (u w : List Int), vsub w u = negV (vsub u w)
  | [], [] => rfl
  | [], _ :: _ => rfl
  | _ :: _, [] => rfl
  | a :: as, b :: bs => by
    have ih := vsub_swap as bs
    simp only [vsub, negV, List.zipWith_cons_cons, List.map_cons] at ih ⊢
    rw [ih]
    congr 1; omega

theorem diffW_swap (S : Int) (p q : List Int) : diffW S q p = negV (diffW S p q) :=
  vsub_swap _ _

/-- `(-d) − S·t = −(d − S·(−t))` -/
theorem trial_negV (S : Int) (G : List (List Int)) : ∀ (d t : List Int),
    trial S G (negV d) t = trial S G d (negV t) := by
  intro d t
  unfold trial
  rw [← norm2_negV G (vsub d (smulV S (negV t)))]
  congr 1
  induction d generalizing t with
  | nil => rfl
  | cons a as ih =>
    cases t with
    | nil => rfl
    | cons b bs =>
      have := ih bs
      simp only [vsub, smulV, negV, List.map_cons, List.zipWith_cons_cons] at this ⊢
      rw [this, Int.mul_neg]
      congr 1; omega

theorem negV_mem_offsets {k : Nat} {t : List Int} (h : t ∈ offsets k) : negV t ∈ offsets k := by
  obtain ⟨a, b, c, rfl, ha, hb, hc⟩ := mem_offsets.mp h
  exact mem_offsets.mpr ⟨-a, -b, -c, rfl, by omega, by omega, by omega⟩

theorem negV_negV (v : List Int) : negV (negV v) = v := by
  simp [negV, Function.comp_def]

/-- the minimum over a symmetric window is even in the difference vector -/
theorem minOver_negV (S : Int) (G : List (List Int)) (d : List Int) (k : Nat) :
    minOver S G (negV d) k = minOver S G d k := by
  apply minOver_eq_of
  · intro t ht
    rw [trial_negV]
    exact minOver_le (negV_mem_offsets ht)
  · obtain ⟨t, ht, e⟩ := minOver_mem S G d k
    refine ⟨negV t, negV_mem_offsets ht, ?_⟩
    rw [trial_negV, negV_negV]; exact e

/-- a list of length 3 is a triple -/
theorem length3 {v : List Int} (h : v.length = 3) : ∃ a b c, v = [a, b, c] := by
  match v, h with
  | [a, b, c], _ => exact ⟨a, b, c, rfl⟩

/-- shifting the difference vector by the lattice vector `S·m` shifts the window by `m` -/
theorem trial_shift (S : Int) (G : List (List Int)) (d0 d1 d2 m0 m1 m2 t0 t1 t2 : Int) :
    trial S G [d0 + S * m0, d1 + S * m1, d2 + S * m2] [t0, t1, t2] =
      trial S G [d0, d1, d2] [t0 - m0, t1 - m1, t2 - m2] := by
  unfold trial
  congr 1
  simp only [vsub, smulV, List.map_cons, List.map_nil, List.zipWith_cons_cons, List.zipWith_nil_left]
  rw [Int.mul_sub, Int.mul_sub, Int.mul_sub]
  congr 1
  · omega
  · congr 1
    · omega
    · congr 1; omega

/-- if `d' = d + S·m` with `|m|_∞ ≤ r`, the `k`-window of `d'` lies inside the `(k+r)`-window of `d` -/
theorem minOver_shift_le (S : Int) (G : List (List Int)) (d0 d1 d2 m0 m1 m2 : Int) (k r : Nat)
    (h0 : -(r : Int) ≤ m0 ∧ m0 ≤ r) (h1 : -(r : Int) ≤ m1 ∧ m1 ≤ r) (h2 : -(r : Int) ≤ m2 ∧ m2 ≤ r) :
    minOver S G [d0, d1, d2] (k + r) ≤ minOver S G [d0 + S * m0, d1 + S * m1, d2 + S * m2] k := by
  obtain ⟨t, ht, e⟩ := minOver_mem S G [d0 + S * m0, d1 + S * m1, d2 + S * m2] k
  obtain ⟨a, b, c, rfl, ha, hb, hc⟩ := mem_offsets.mp ht
  rw [e, trial_shift]
  apply minOver_le
  refine mem_offsets.mpr ⟨_, _, _, rfl, ?_, ?_, ?_⟩ <;> omega

end Dist
end Symfc
