/- Deflation step of the block-divided eigen-solver (`_block_eigh_projector`):
   unit eigenvectors `V` found in the sub-blocks are removed (`p_block -= V Vᵀ`), the remaining problem is compressed
   with the orthonormal complement `Q` (`cmplt`) and solved; the answer is `[V, Q W]`. -/
import SymfcModel.Lemmas.LinAlg

namespace Symfc.Deflation
open Matrix LinAlg

variable {K : Type*} [Field K] [LinearOrder K] [IsStrictOrderedRing K]
variable {m k q : Type*} [Fintype m] [Fintype k] [Fintype q]

/-- L3 for a contraction that need not be idempotent: `C` with orthonormal columns, `A` symmetric with
    `xᵀAx ≤ xᵀx`; the unit eigenvectors of `CᵀAC` are exactly the `v` whose expansion is a unit eigenvector of `A`. -/
theorem compressed_contraction_unit_iff [DecidableEq m] [DecidableEq k] (C : Matrix m k K)
    (hC : Cᵀ * C = 1) (A : Matrix m m K) (hA : Aᵀ = A)
    (hle : ∀ x : m → K, x ⬝ᵥ (A *ᵥ x) ≤ x ⬝ᵥ x) (v : k → K) :
    (Cᵀ * A * C) *ᵥ v = v ↔ A *ᵥ (C *ᵥ v) = C *ᵥ v := by
  constructor
  · intro h
    apply unit_eigvec_of_quadratic A hA hle
    have h1 : (C *ᵥ v) ⬝ᵥ (A *ᵥ (C *ᵥ v)) = v ⬝ᵥ ((Cᵀ * A * C) *ᵥ v) := by
      rw [mulVec_dotProduct_adj, Matrix.mulVec_mulVec, Matrix.mulVec_mulVec]
    rw [h1, h, isometry_of_orthonormal C hC]
  · intro h
    rw [← Matrix.mulVec_mulVec, ← Matrix.mulVec_mulVec, h, Matrix.mulVec_mulVec, hC,
      Matrix.one_mulVec]

omit [LinearOrder K] [IsStrictOrderedRing K] [Fintype q] in
/-- The deflated matrix and the original agree on the complement: `(A − V Vᵀ) Q = A Q` when `Vᵀ Q = 0`. -/
theorem deflated_mul_complement [DecidableEq m] (A : Matrix m m K) (V : Matrix m k K) (Q : Matrix m q K)
    (hVQ : Vᵀ * Q = 0) : (A - V * Vᵀ) * Q = A * Q := by
  rw [Matrix.sub_mul, Matrix.mul_assoc, hVQ, Matrix.mul_zero, sub_zero]

/-- Soundness of the deflation step: every returned column — a column of `V`, or `Q w` for a unit eigenvector `w` of
    the compressed deflated matrix `Qᵀ (A − V Vᵀ) Q` — is a unit eigenvector of `A`. -/
theorem deflation_sound [DecidableEq m] [DecidableEq k] [DecidableEq q] (A : Matrix m m K) (hA : Aᵀ = A)
    (hle : ∀ x : m → K, x ⬝ᵥ (A *ᵥ x) ≤ x ⬝ᵥ x)
    (V : Matrix m k K) (hAV : A * V = V) (Q : Matrix m q K) (hQ : Qᵀ * Q = 1) (hVQ : Vᵀ * Q = 0)
    (a : k → K) (w : q → K) (hw : (Qᵀ * (A - V * Vᵀ) * Q) *ᵥ w = w) :
    A *ᵥ (V *ᵥ a + Q *ᵥ w) = V *ᵥ a + Q *ᵥ w := by
  have h1 : Qᵀ * (A - V * Vᵀ) * Q = Qᵀ * A * Q := by
    rw [Matrix.mul_assoc, deflated_mul_complement A V Q hVQ, ← Matrix.mul_assoc]
  rw [h1] at hw
  have h2 := (compressed_contraction_unit_iff Q hQ A hA hle w).mp hw
  rw [Matrix.mulVec_add, h2, Matrix.mulVec_mulVec, hAV]

omit [LinearOrder K] [IsStrictOrderedRing K] in
/-- Completeness of the deflation step: with `V Vᵀ + Q Qᵀ = 1` (the sub-block eigenvectors and the complement columns
    together form an orthogonal matrix — what `block_divided_bookkeeping_is_complete` counts) every unit eigenvector
    `x` of `A` is `V a + Q w` with `w = Qᵀ x` a unit eigenvector of the compressed deflated matrix: no unit direction
    is dropped. -/
theorem deflation_complete [DecidableEq m] [DecidableEq k] [DecidableEq q] (A : Matrix m m K) (hA : Aᵀ = A)
    (V : Matrix m k K) (hAV : A * V = V) (Q : Matrix m q K) (hVQ : Vᵀ * Q = 0)
    (hsplit : V * Vᵀ + Q * Qᵀ = 1) (x : m → K) (hx : A *ᵥ x = x) :
    x = V *ᵥ (Vᵀ *ᵥ x) + Q *ᵥ (Qᵀ *ᵥ x) ∧
      (Qᵀ * (A - V * Vᵀ) * Q) *ᵥ (Qᵀ *ᵥ x) = Qᵀ *ᵥ x := by
  have hsx : x = V *ᵥ (Vᵀ *ᵥ x) + Q *ᵥ (Qᵀ *ᵥ x) := by
    rw [Matrix.mulVec_mulVec, Matrix.mulVec_mulVec, ← Matrix.add_mulVec, hsplit, Matrix.one_mulVec]
  refine ⟨hsx, ?_⟩
  have hQV : Qᵀ * V = 0 := by
    have := congrArg Matrix.transpose hVQ
    simpa [Matrix.transpose_mul] using this
  have hVA : Vᵀ * A = Vᵀ := by
    have := congrArg Matrix.transpose hAV
    simpa [Matrix.transpose_mul, hA] using this
  have h1 : Qᵀ * (A - V * Vᵀ) * Q = Qᵀ * A * Q := by
    rw [Matrix.mul_assoc, deflated_mul_complement A V Q hVQ, ← Matrix.mul_assoc]
  -- Q Qᵀ x = x − V Vᵀ x, and A fixes both x and the columns of V
  have hQQ : Q *ᵥ (Qᵀ *ᵥ x) = x - V *ᵥ (Vᵀ *ᵥ x) := by
    rw [eq_sub_iff_add_eq, add_comm]; exact hsx.symm
  have hAVy : A *ᵥ (V *ᵥ (Vᵀ *ᵥ x)) = V *ᵥ (Vᵀ *ᵥ x) := by
    rw [Matrix.mulVec_mulVec, hAV]
  have hQVy : Qᵀ *ᵥ (V *ᵥ (Vᵀ *ᵥ x)) = 0 := by
    rw [Matrix.mulVec_mulVec, hQV, Matrix.zero_mulVec]
  rw [h1, ← Matrix.mulVec_mulVec, ← Matrix.mulVec_mulVec, hQQ, Matrix.mulVec_sub, hx, hAVy,
    Matrix.mulVec_sub, hQVy, sub_zero]

/-- The deflation step as one statement: `x` is a unit eigenvector of `A` iff it is `V a + Q w` with `w` a unit
    eigenvector of the compressed deflated matrix. -/
theorem deflation_exact [DecidableEq m] [DecidableEq k] [DecidableEq q] (A : Matrix m m K) (hA : Aᵀ = A)
    (hle : ∀ x : m → K, x ⬝ᵥ (A *ᵥ x) ≤ x ⬝ᵥ x)
    (V : Matrix m k K) (hAV : A * V = V) (Q : Matrix m q K) (hQ : Qᵀ * Q = 1) (hVQ : Vᵀ * Q = 0)
    (hsplit : V * Vᵀ + Q * Qᵀ = 1) (x : m → K) :
    A *ᵥ x = x ↔ ∃ (a : k → K) (w : q → K),
      (Qᵀ * (A - V * Vᵀ) * Q) *ᵥ w = w ∧ x = V *ᵥ a + Q *ᵥ w := by
  constructor
  · intro hx
    obtain ⟨h1, h2⟩ := deflation_complete A hA V hAV Q hVQ hsplit x hx
    exact ⟨_, _, h2, h1⟩
  · rintro ⟨a, w, hw, rfl⟩
    exact deflation_sound A hA hle V hAV Q hQ hVQ a w hw

/-! Non-vacuity: `A = diag(1, 1, 1/2)`, `V = e₀` (found in a sub-block), `Q = [e₁ e₂]`. -/
private def Ad : Matrix (Fin 3) (Fin 3) ℚ := !![1, 0, 0; 0, 1, 0; 0, 0, 1/2]
private def Vd : Matrix (Fin 3) (Fin 1) ℚ := !![1; 0; 0]
private def Qd : Matrix (Fin 3) (Fin 2) ℚ := !![0, 0; 1, 0; 0, 1]

example : Ad * Vd = Vd ∧ Qdᵀ * Qd = 1 ∧ Vdᵀ * Qd = 0 ∧ Vd * Vdᵀ + Qd * Qdᵀ = 1 := by
  refine ⟨?_, ?_, ?_, ?_⟩ <;> ext i j <;> fin_cases i <;> fin_cases j <;>
    norm_num [Ad, Vd, Qd, Matrix.mul_apply, Fin.sum_univ_succ, Matrix.one_apply, Matrix.vecMul, dotProduct]

end Symfc.Deflation
