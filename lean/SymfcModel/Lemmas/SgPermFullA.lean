/-
  Lemmas/SgPermFullA.lean — helpers for the full model of `compute_sg_permutations` (Model/SgPermFull.lean):
  pigeonhole on lists, `uniqueNat`, `allSomeL`, the congruence relation `Cong` (≡ mod S in every coordinate,
  expressed as equality of the wrapped vectors) and its link to the executable `sameSite`.
-/
import SymfcModel.Model.SgPermFull
import SymfcModel.Lemmas.SgPerm
namespace Symfc.SgPermFull
open Symfc

/-! ## pigeonhole -/

/-- a duplicate-free list contained in a list that is not longer is a permutation of it -/
theorem perm_of_nodup_subset_length {α : Type} [DecidableEq α] :
    ∀ (l₁ l₂ : List α), l₁.Nodup → l₁ ⊆ l₂ → l₂.length ≤ l₁.length → l₁.Perm l₂
  | [], l₂, _, _, hlen => by
    have : l₂ = [] := List.eq_nil_of_length_eq_zero (by simpa using hlen)
    subst this; exact List.Perm.refl _
  | a :: t, l₂, hnd, hsub, hlen => by
    rw [List.nodup_cons] at hnd
    have ha : a ∈ l₂ := hsub List.mem_cons_self
    have htsub : t ⊆ l₂.erase a := by
      intro x hx
      have hxa : x ≠ a := fun h => hnd.1 (h ▸ hx)
      exact (List.mem_erase_of_ne hxa).2 (hsub (List.mem_cons_of_mem _ hx))
    have hl : (l₂.erase a).length = l₂.length - 1 := by rw [List.length_erase]; simp [ha]
    have hpos : 1 ≤ l₂.length := List.length_pos_of_mem ha
    have ih := perm_of_nodup_subset_length t (l₂.erase a) hnd.2 htsub (by
      rw [hl]; simp only [List.length_cons] at hlen; omega)
    exact (List.Perm.cons a ih).trans (List.perm_cons_erase ha).symm

/-- a duplicate-free list of N numbers below N is a permutation of `range N` -/
theorem perm_range_of_nodup {l : List Nat} {N : Nat} (hnd : l.Nodup) (hlt : ∀ x ∈ l, x < N)
    (hlen : l.length = N) : l.Perm (List.range N) :=
  perm_of_nodup_subset_length l (List.range N) hnd (fun x hx => List.mem_range.mpr (hlt x hx)) (by simp [hlen])

/-- a list of length N containing every number below N is a permutation of `range N` -/
theorem perm_range_of_surj {l : List Nat} {N : Nat} (hsurj : ∀ x, x < N → x ∈ l)
    (hlen : l.length = N) : l.Perm (List.range N) :=
  (perm_of_nodup_subset_length (List.range N) l List.nodup_range
    (fun x hx => hsurj x (List.mem_range.mp hx)) (by simp [hlen])).symm

/-! ## `uniqueNat` -/

theorem mem_uniqueNat {l : List Nat} {x : Nat} : x ∈ uniqueNat l ↔ x ∈ l := by
  induction l with
  | nil => simp [uniqueNat]
  | cons a l ih =>
    simp only [uniqueNat]
    split
    next h =>
      have ha : a ∈ l := by simpa using h
      rw [ih, List.mem_cons]
      constructor
      · exact Or.inr
      · rintro (rfl | h')
        · exact ha
        · exact h'
    next h => simp [ih]

theorem nodup_uniqueNat (l : List Nat) : (uniqueNat l).Nodup := by
  induction l with
  | nil => simp [uniqueNat]
  | cons a l ih =>
    simp only [uniqueNat]
    split
    · exact ih
    next h =>
      have ha : a ∉ l := by simpa using h
      rw [List.nodup_cons]
      exact ⟨fun h' => ha (mem_uniqueNat.mp h'), ih⟩

theorem length_uniqueNat_le (l : List Nat) : (uniqueNat l).length ≤ l.length := by
  induction l with
  | nil => simp [uniqueNat]
  | cons a l ih =>
    simp only [uniqueNat]
    split
    · simp only [List.length_cons]; omega
    · simp only [List.length_cons]; omega

theorem uniqueNat_of_nodup {l : List Nat} (h : l.Nodup) : uniqueNat l = l := by
  induction l with
  | nil => rfl
  | cons a l ih =>
    rw [List.nodup_cons] at h
    simp only [uniqueNat]
    have : l.contains a = false := by simpa using h.1
    rw [this, ih h.2]; rfl

theorem nodup_of_length_uniqueNat {l : List Nat} (h : (uniqueNat l).length = l.length) : l.Nodup := by
  induction l with
  | nil => exact List.nodup_nil
  | cons a l ih =>
    simp only [uniqueNat] at h
    split at h
    · have := length_uniqueNat_le l
      simp only [List.length_cons] at h; omega
    next hc =>
      have ha : a ∉ l := by simpa using hc
      simp only [List.length_cons] at h
      exact List.nodup_cons.mpr ⟨ha, ih (by omega)⟩

/-- `len(np.unique(l)) == N` for a list of numbers below N: every number below N occurs -/
theorem mem_of_length_uniqueNat {l : List Nat} {N : Nat} (hlt : ∀ x ∈ l, x < N)
    (h : (uniqueNat l).length = N) (x : Nat) (hx : x < N) : x ∈ l := by
  have hp := perm_range_of_nodup (nodup_uniqueNat l) (fun y hy => hlt y (mem_uniqueNat.mp hy)) h
  exact mem_uniqueNat.mp (hp.mem_iff.mpr (List.mem_range.mpr hx))

/-! ## `allSomeL` -/

theorem allSomeL_eq_some {α : Type} : ∀ (l : List (Option α)) (r : List α),
    allSomeL l = some r ↔ l = r.map some
  | [], r => by
    cases r <;> simp [allSomeL]
  | none :: l, r => by
    cases r <;> simp [allSomeL]
  | some a :: l, r => by
    have ih := allSomeL_eq_some l
    cases r with
    | nil =>
      simp only [allSomeL, List.map_nil]
      cases h : allSomeL l <;> simp
    | cons b r =>
      simp only [allSomeL, List.map_cons, List.cons.injEq, Option.some.injEq]
      cases h : allSomeL l with
      | none =>
        constructor
        · intro h'; cases h'
        · rintro ⟨_, h2⟩
          rw [(ih r).mpr h2] at h; cases h
      | some r' =>
        simp only [Option.some.injEq, List.cons.injEq]
        constructor
        · rintro ⟨rfl, rfl⟩; exact ⟨rfl, (ih _).mp h⟩
        · rintro ⟨rfl, h2⟩
          rw [(ih r).mpr h2] at h
          cases h; exact ⟨rfl, rfl⟩

/-- if `f` succeeds on every entry with the value `g`, the loop collects `l.map g` -/
theorem allSomeL_map {α β : Type} (f : α → Option β) (g : α → β) (l : List α)
    (h : ∀ x ∈ l, f x = some (g x)) : allSomeL (l.map f) = some (l.map g) := by
  rw [allSomeL_eq_some, List.map_map]
  exact List.map_congr_left (fun x hx => by simp [h x hx])

/-! ## lists: a filter with exactly one hit, `flatMap` of singletons -/

theorem filter_range_eq_singleton (N : Nat) (P : Nat → Bool) (k : Nat) (hk : k < N) (hP : P k = true)
    (huniq : ∀ j, j < N → P j = true → j = k) : (List.range N).filter P = [k] := by
  have hnd : ((List.range N).filter P).Nodup := List.nodup_range.filter _
  have : ((List.range N).filter P).Perm [k] := by
    rw [List.perm_ext_iff_of_nodup hnd (by simp)]
    intro a
    simp only [List.mem_filter, List.mem_range, List.mem_singleton]
    constructor
    · rintro ⟨h1, h2⟩; exact huniq a h1 h2
    · rintro rfl; exact ⟨hk, hP⟩
  exact List.perm_singleton.mp this

theorem filter_range_singleton_iff (N : Nat) (P : Nat → Bool) (k : Nat) :
    (List.range N).filter P = [k] ↔ (k < N ∧ P k = true ∧ ∀ j, j < N → P j = true → j = k) := by
  constructor
  · intro h
    have hm : ∀ a, a ∈ (List.range N).filter P ↔ a = k := by intro a; rw [h]; simp
    have hk := (hm k).mpr rfl
    simp only [List.mem_filter, List.mem_range] at hk hm
    exact ⟨hk.1, hk.2, fun j hj hp => (hm j).mp ⟨hj, hp⟩⟩
  · rintro ⟨h1, h2, h3⟩; exact filter_range_eq_singleton N P k h1 h2 h3

theorem flatMap_singleton {α β : Type} (l : List α) (f : α → List β) (g : α → β)
    (h : ∀ x ∈ l, f x = [g x]) : l.flatMap f = l.map g := by
  induction l with
  | nil => rfl
  | cons a l ih =>
    rw [List.flatMap_cons, List.map_cons, h a List.mem_cons_self,
      ih (fun x hx => h x (List.mem_cons_of_mem _ hx))]
    rfl

/-- a duplicate-free list all of whose members coincide has at most one entry -/
theorem length_le_one_of_nodup {l : List Nat} (hnd : l.Nodup) (h : ∀ x ∈ l, ∀ y ∈ l, x = y) :
    l.length ≤ 1 := by
  match l, hnd, h with
  | [], _, _ => simp
  | [_], _, _ => simp
  | a :: b :: t, hnd, h =>
    have hab : a = b := h a (by simp) b (by simp)
    subst hab
    simp at hnd

/-! ## congruence of vectors modulo S -/

/-- `p ≡ q (mod S)` in every coordinate (and equal lengths), as equality of the wrapped vectors -/
def Cong (S : Int) (p q : List Int) : Prop := roundPos S p = roundPos S q

instance (S : Int) (p q : List Int) : Decidable (Cong S p q) := by unfold Cong; exact inferInstance

theorem Cong.refl (S : Int) (p : List Int) : Cong S p p := rfl
theorem Cong.symm {S : Int} {p q : List Int} (h : Cong S p q) : Cong S q p := Eq.symm h
theorem Cong.trans {S : Int} {p q r : List Int} (h1 : Cong S p q) (h2 : Cong S q r) : Cong S p r :=
  Eq.trans h1 h2

theorem Cong.length_eq {S : Int} {p q : List Int} (h : Cong S p q) : p.length = q.length := by
  have := congrArg List.length h
  simpa [roundPos] using this

/-- the coordinate-wise reading of `Cong` -/
theorem cong_iff_coord (S : Int) (p q : List Int) :
    Cong S p q ↔ p.length = q.length ∧ ∀ c, c < p.length → (p.getD c 0 - q.getD c 0) % S = 0 :=
  ⟨fun h => ⟨h.length_eq, (roundPos_eq_iff S p q h.length_eq).mp h⟩,
   fun h => (roundPos_eq_iff S p q h.1).mpr h.2⟩

theorem sameSite_iff_cong (S : Int) (p q : List Int) (hlen : p.length = q.length) :
    sameSite S p q = true ↔ Cong S p q := by
  unfold Cong
  induction p generalizing q with
  | nil =>
    cases q with
    | nil => simp [sameSite, subVec, roundPos]
    | cons b bs => simp at hlen
  | cons a as ih =>
    cases q with
    | nil => simp at hlen
    | cons b bs =>
      have ih' := ih bs (by simpa using hlen)
      simp only [sameSite, subVec, roundPos, List.zipWith_cons_cons, List.all_cons, Bool.and_eq_true,
        beq_iff_eq, List.map_cons, List.cons.injEq, wrapHalf_eq_iff] at ih' ⊢
      rw [ih']

theorem getD_length_of_forall {ps : List (List Int)} {d : Nat} (h : ∀ p ∈ ps, p.length = d) (i : Nat)
    (hi : i < ps.length) : (ps.getD i []).length = d := by
  rw [List.getD_eq_getElem?_getD, List.getElem?_eq_getElem hi, Option.getD_some]
  exact h _ (List.getElem_mem hi)

/-- `positionsDistinct`, in terms of `Cong` -/
theorem distinct_cong {S : Int} {ps : List (List Int)} (hd : positionsDistinct S ps = true) {i j : Nat}
    (hi : i < ps.length) (hj : j < ps.length) (h : Cong S (ps.getD i []) (ps.getD j [])) : i = j :=
  (positionsDistinct_iff S ps).mp hd i j hi hj h

theorem getD_map_range {α : Type} (N : Nat) (g : Nat → α) (i : Nat) (hi : i < N) (d : α) :
    ((List.range N).map g).getD i d = g i := by
  simp [List.getD_eq_getElem?_getD, hi]

end Symfc.SgPermFull
