/- Lemmas/Pipeline.lean — capstone theorems for the symfc basis-set pipeline
   (`FCBasisSetO2/O3/O4.run`):

     A   := c_pt                       (m × k₁, orthonormal columns; permutation / lattice-translation
                                        compression)
     P   := coset (space-group) projector on the m-dimensional space (symmetric, idempotent)
     W₂  := eigsh_projector(Aᵀ P A)    orthonormal basis of the eigenvalue-1 eigenspace of AᵀPA
     n_a := A * W₂
     proj:= 1 − (1/ν) • ((A W₂)ᵀ Tᵀ T (A W₂))     with T the sum-rule matrix (r × m)
     W₃  := eigsh_projector_sumrule(proj)          orthonormal basis of the eigenvalue-1 eigenspace
     B   := A * W₂ * W₃                the final basis set.

   The eigen-solvers enter only through the contract `EigBasis`. -/
import SymfcModel.Lemmas.LinAlg

namespace Symfc.Pipeline

open Matrix Symfc.LinAlg

/-! ## Definitions -/

section Defs

variable {K : Type*} [Field K]

/-- "Eigen contract": `W` has orthonormal columns and its range is exactly the eigenvalue-1
eigenspace of `M`. -/
def EigBasis {k k' : Type*} [Fintype k] [Fintype k'] [DecidableEq k']
    (M : Matrix k k K) (W : Matrix k k' K) : Prop :=
  Wᵀ * W = 1 ∧ ∀ y : k → K, M *ᵥ y = y ↔ ∃ z : k' → K, y = W *ᵥ z

/-- The sum-rule "projector" `1 − (1/ν) • (Cᵀ Tᵀ T C)` built by symfc from the compression `C`
and the sum-rule matrix `T` (same expression as in `LinAlg.sumrule_unit_iff`). -/
def sumruleProj {m k r : Type*} [Fintype m] [Fintype r] [DecidableEq k]
    (C : Matrix m k K) (T : Matrix r m K) (ν : K) : Matrix k k K :=
  1 - (1 / ν) • (Cᵀ * Tᵀ * T * C)

end Defs

/-! ## T1–T4: the pipeline -/

section Pipeline

variable {K : Type*} [Field K] [LinearOrder K] [IsStrictOrderedRing K]
variable {m k₁ k₂ k₃ r r' : Type*}
variable [Fintype m] [Fintype k₁] [Fintype k₂] [Fintype k₃] [Fintype r] [Fintype r']
variable [DecidableEq m] [DecidableEq k₁] [DecidableEq k₂] [DecidableEq k₃]

omit [LinearOrder K] [IsStrictOrderedRing K] [DecidableEq m] in
/-- T1. The final basis `B = A W₂ W₃` has orthonormal columns. -/
theorem pipeline_orthonormal (A : Matrix m k₁ K) (P : Matrix m m K) (T : Matrix r m K) (ν : K)
    (W₂ : Matrix k₁ k₂ K) (W₃ : Matrix k₂ k₃ K)
    (hA : Aᵀ * A = 1)
    (h₂ : EigBasis (Aᵀ * P * A) W₂)
    (h₃ : EigBasis (sumruleProj (A * W₂) T ν) W₃) :
    (A * W₂ * W₃)ᵀ * (A * W₂ * W₃) = 1 :=
  orthonormal_mul _ _ (orthonormal_mul _ _ hA h₂.1) h₃.1

/-- T2. The range of the final basis is exactly the set of vectors that are (i) in the range of
the compression `A`, (ii) fixed by the projector `P`, (iii) annihilated by the sum-rule
matrix `T`. -/
theorem pipeline_range (A : Matrix m k₁ K) (P : Matrix m m K) (T : Matrix r m K) (ν : K)
    (W₂ : Matrix k₁ k₂ K) (W₃ : Matrix k₂ k₃ K)
    (hA : Aᵀ * A = 1)
    (h₂ : EigBasis (Aᵀ * P * A) W₂)
    (h₃ : EigBasis (sumruleProj (A * W₂) T ν) W₃)
    (hPs : Pᵀ = P) (hPi : P * P = P) (hν : 0 < ν) (x : m → K) :
    (∃ w : k₃ → K, x = (A * W₂ * W₃) *ᵥ w) ↔
      ((∃ y : k₁ → K, x = A *ᵥ y) ∧ P *ᵥ x = x ∧ T *ᵥ x = 0) := by
  constructor
  · rintro ⟨w, rfl⟩
    have e : (A * W₂ * W₃) *ᵥ w = A *ᵥ (W₂ *ᵥ (W₃ *ᵥ w)) := by
      simp only [Matrix.mulVec_mulVec, Matrix.mul_assoc]
    have hz : sumruleProj (A * W₂) T ν *ᵥ (W₃ *ᵥ w) = W₃ *ᵥ w := (h₃.2 _).mpr ⟨w, rfl⟩
    have hT : T *ᵥ ((A * W₂) *ᵥ (W₃ *ᵥ w)) = 0 :=
      (sumrule_unit_iff (A * W₂) T ν hν _).mp hz
    have hy : (Aᵀ * P * A) *ᵥ (W₂ *ᵥ (W₃ *ᵥ w)) = W₂ *ᵥ (W₃ *ᵥ w) :=
      (h₂.2 _).mpr ⟨_, rfl⟩
    have hP := (compressed_projector_unit_iff A hA P hPs hPi _).mp hy
    rw [e]
    refine ⟨⟨_, rfl⟩, hP, ?_⟩
    rw [← Matrix.mulVec_mulVec] at hT
    exact hT
  · rintro ⟨⟨y, rfl⟩, hP, hT⟩
    obtain ⟨z, rfl⟩ :=
      (h₂.2 y).mp ((compressed_projector_unit_iff A hA P hPs hPi y).mpr hP)
    have hT' : T *ᵥ ((A * W₂) *ᵥ z) = 0 := by
      rw [← Matrix.mulVec_mulVec]; exact hT
    obtain ⟨w, rfl⟩ := (h₃.2 z).mp ((sumrule_unit_iff (A * W₂) T ν hν z).mpr hT')
    exact ⟨w, by simp only [Matrix.mulVec_mulVec, Matrix.mul_assoc]⟩

/-- T3. Completeness: every admissible `x` is reproduced by `B Bᵀ`, and its coefficient vector
with respect to `B` is unique (namely `Bᵀ x`). -/
theorem pipeline_complete (A : Matrix m k₁ K) (P : Matrix m m K) (T : Matrix r m K) (ν : K)
    (W₂ : Matrix k₁ k₂ K) (W₃ : Matrix k₂ k₃ K)
    (hA : Aᵀ * A = 1)
    (h₂ : EigBasis (Aᵀ * P * A) W₂)
    (h₃ : EigBasis (sumruleProj (A * W₂) T ν) W₃)
    (hPs : Pᵀ = P) (hPi : P * P = P) (hν : 0 < ν) (x : m → K)
    (hx : (∃ y : k₁ → K, x = A *ᵥ y) ∧ P *ᵥ x = x ∧ T *ᵥ x = 0) :
    (A * W₂ * W₃) *ᵥ ((A * W₂ * W₃)ᵀ *ᵥ x) = x ∧
      ∀ w : k₃ → K, (A * W₂ * W₃) *ᵥ w = x → w = (A * W₂ * W₃)ᵀ *ᵥ x := by
  have hB := pipeline_orthonormal A P T ν W₂ W₃ hA h₂ h₃
  have hBB : ∀ w : k₃ → K, (A * W₂ * W₃)ᵀ *ᵥ ((A * W₂ * W₃) *ᵥ w) = w := by
    intro w; rw [Matrix.mulVec_mulVec, hB, Matrix.one_mulVec]
  obtain ⟨w₀, rfl⟩ := (pipeline_range A P T ν W₂ W₃ hA h₂ h₃ hPs hPi hν x).mpr hx
  refine ⟨by rw [hBB], ?_⟩
  intro w hw
  rw [← hw, hBB]

/-- T4. Exact recovery: if the data `y = X x₀` come from an admissible `x₀` and the compressed
design matrix `X B` is injective, every solution `c` of the normal equations reproduces `x₀`. -/
theorem exact_recovery (A : Matrix m k₁ K) (P : Matrix m m K) (T : Matrix r m K) (ν : K)
    (W₂ : Matrix k₁ k₂ K) (W₃ : Matrix k₂ k₃ K)
    (hA : Aᵀ * A = 1)
    (h₂ : EigBasis (Aᵀ * P * A) W₂)
    (h₃ : EigBasis (sumruleProj (A * W₂) T ν) W₃)
    (hPs : Pᵀ = P) (hPi : P * P = P) (hν : 0 < ν)
    (X : Matrix r' m K) (x₀ : m → K)
    (hx₀ : (∃ y : k₁ → K, x₀ = A *ᵥ y) ∧ P *ᵥ x₀ = x₀ ∧ T *ᵥ x₀ = 0)
    (hinj : Function.Injective (X * (A * W₂ * W₃)).mulVec)
    (c : k₃ → K)
    (hc : ((X * (A * W₂ * W₃))ᵀ * (X * (A * W₂ * W₃))) *ᵥ c
            = (X * (A * W₂ * W₃))ᵀ *ᵥ (X *ᵥ x₀)) :
    (A * W₂ * W₃) *ᵥ c = x₀ := by
  obtain ⟨w₀, rfl⟩ := (pipeline_range A P T ν W₂ W₃ hA h₂ h₃ hPs hPi hν x₀).mpr hx₀
  have hcw : c = w₀ := by
    apply normal_eq_unique (X * (A * W₂ * W₃)) hinj
    rw [hc]
    simp only [Matrix.mulVec_mulVec, Matrix.mul_assoc]
  rw [hcw]

end Pipeline

/-! ## T5–T6: range of the normalised indicator matrix -/

section Indicator

variable {K : Type*} [Field K]
variable {n k G : Type*} [Fintype n] [Fintype k] [DecidableEq k]

omit [Fintype n] in
theorem indicator_mulVec_none (label : n → Option k) (w : k → K) (z : k → K) (i : n)
    (h : label i = none) :
    ((Matrix.of (fun i j => if label i = some j then w j else 0)) *ᵥ z) i = 0 := by
  simp [Matrix.mulVec, dotProduct, h]

omit [Fintype n] in
theorem indicator_mulVec_some (label : n → Option k) (w : k → K) (z : k → K) (i : n) (c : k)
    (h : label i = some c) :
    ((Matrix.of (fun i j => if label i = some j then w j else 0)) *ᵥ z) i = w c * z c := by
  simp [Matrix.mulVec, dotProduct, h]

/-- T5. The range of the normalised indicator matrix of a labelling (the matrix of
`LinAlg.indicator_orthonormal`, with the same weight hypothesis) consists exactly of the vectors
that vanish on unlabelled indices and are constant on each label class. -/
theorem indicator_range (label : n → Option k) (w : k → K)
    (hcount : ∀ j, (w j) ^ 2 * ((Finset.univ.filter (fun i => label i = some j)).card : K) = 1)
    (x : n → K) :
    (∃ z : k → K, x = (Matrix.of (fun i j => if label i = some j then w j else 0)) *ᵥ z) ↔
      ((∀ i, label i = none → x i = 0) ∧ (∀ i j, label i = label j → x i = x j)) := by
  constructor
  · rintro ⟨z, rfl⟩
    refine ⟨fun i h => indicator_mulVec_none label w z i h, ?_⟩
    intro i j hij
    cases h : label i with
    | none =>
      rw [indicator_mulVec_none label w z i h, indicator_mulVec_none label w z j (hij ▸ h)]
    | some c =>
      rw [indicator_mulVec_some label w z i c h, indicator_mulVec_some label w z j c (hij ▸ h)]
  · rintro ⟨h0, hc⟩
    have hw : ∀ c, w c ≠ 0 := by
      intro c hz
      have := hcount c
      rw [hz] at this
      simp at this
    have hne : ∀ c, ∃ i, label i = some c := by
      intro c
      by_contra hcon
      have hempty : Finset.univ.filter (fun i => label i = some c) = ∅ := by
        apply Finset.filter_eq_empty_iff.mpr
        intro i _ hi
        exact hcon ⟨i, hi⟩
      have := hcount c
      rw [hempty] at this
      simp at this
    choose rep hrep using hne
    refine ⟨fun c => x (rep c) / w c, ?_⟩
    ext i
    cases h : label i with
    | none => rw [indicator_mulVec_none label w _ i h, h0 i h]
    | some c =>
      rw [indicator_mulVec_some label w _ i c h, mul_div_cancel₀ _ (hw c)]
      exact hc i (rep c) (by rw [h, hrep c])

/-- T6. If the label classes are exactly the orbits of a family of permutations `g : G → Perm n`
(on labelled indices) and every `g s` maps unlabelled indices to unlabelled indices, then the
range of the indicator matrix is the set of `g`-invariant vectors that vanish on unlabelled
indices.  No closure hypothesis on `G` (identity / inverses / products) is needed. -/
theorem indicator_range_invariant (label : n → Option k) (w : k → K)
    (hcount : ∀ j, (w j) ^ 2 * ((Finset.univ.filter (fun i => label i = some j)).card : K) = 1)
    (g : G → Equiv.Perm n)
    (horbit : ∀ i j, label i ≠ none → (label i = label j ↔ ∃ s : G, g s i = j))
    (hnone : ∀ s i, label i = none → label (g s i) = none)
    (x : n → K) :
    (∃ z : k → K, x = (Matrix.of (fun i j => if label i = some j then w j else 0)) *ᵥ z) ↔
      ((∀ i, label i = none → x i = 0) ∧ (∀ s i, x (g s i) = x i)) := by
  rw [indicator_range label w hcount x]
  constructor
  · rintro ⟨h0, hc⟩
    refine ⟨h0, fun s i => ?_⟩
    by_cases hi : label i = none
    · exact (hc i (g s i) (by rw [hi, hnone s i hi])).symm
    · exact (hc i (g s i) ((horbit i (g s i) hi).mpr ⟨s, rfl⟩)).symm
  · rintro ⟨h0, hinv⟩
    refine ⟨h0, fun i j hij => ?_⟩
    by_cases hi : label i = none
    · rw [h0 i hi, h0 j (hij ▸ hi)]
    · obtain ⟨s, rfl⟩ := (horbit i j hi).mp hij
      exact (hinv s i).symm

end Indicator

/-! ## T7: non-vacuity over ℚ

`m = 3`, no compression (`A = 1`), `P = diag(1,1,0)`, sum rule `T = (4 −3 0)`, `ν = 25`.
The eigenvalue-1 eigenspace of `AᵀPA` is `span(e₀,e₁)`, that of `proj` is `span((3/5,4/5))`,
hence `B = (3/5, 4/5, 0)ᵀ`: a non-trivial basis with all hypotheses of T1–T4 satisfied. -/

section Example

private def A₀ : Matrix (Fin 3) (Fin 3) ℚ := 1
private def P₀ : Matrix (Fin 3) (Fin 3) ℚ := !![1, 0, 0; 0, 1, 0; 0, 0, 0]
private def T₀ : Matrix (Fin 1) (Fin 3) ℚ := !![4, -3, 0]
private def W₂₀ : Matrix (Fin 3) (Fin 2) ℚ := !![1, 0; 0, 1; 0, 0]
private def W₃₀ : Matrix (Fin 2) (Fin 1) ℚ := !![3/5; 4/5]

private theorem A₀_orth : A₀ᵀ * A₀ = 1 := by simp [A₀]

private theorem P₀_symm : P₀ᵀ = P₀ := by
  ext i j; fin_cases i <;> fin_cases j <;> rfl

private theorem P₀_idem : P₀ * P₀ = P₀ := by
  ext i j; fin_cases i <;> fin_cases j <;> simp [P₀, Matrix.mul_apply, Fin.sum_univ_three]

private theorem eig₂ : EigBasis (A₀ᵀ * P₀ * A₀) W₂₀ := by
  refine ⟨?_, fun y => ?_⟩
  · ext i j; fin_cases i <;> fin_cases j <;> simp [W₂₀, Matrix.mul_apply, Fin.sum_univ_three]
  · rw [compressed_projector_unit_iff A₀ A₀_orth P₀ P₀_symm P₀_idem]
    simp only [A₀, Matrix.one_mulVec]
    constructor
    · intro h
      have h2 : y 2 = 0 := by
        have := congrFun h 2
        simp [P₀, Matrix.mulVec, dotProduct, Fin.sum_univ_three] at this
        exact this.symm
      refine ⟨![y 0, y 1], ?_⟩
      ext i; fin_cases i <;> simp [W₂₀, Matrix.mulVec, dotProduct, Fin.sum_univ_two, h2]
    · rintro ⟨z, rfl⟩
      ext i; fin_cases i <;>
        simp [P₀, W₂₀, Matrix.mulVec, dotProduct, Fin.sum_univ_three, Fin.sum_univ_two]

private theorem eig₃ : EigBasis (sumruleProj (A₀ * W₂₀) T₀ 25) W₃₀ := by
  refine ⟨?_, fun y => ?_⟩
  · ext i j; fin_cases i; fin_cases j
    norm_num [W₃₀, Matrix.mul_apply, Fin.sum_univ_two]
  · unfold sumruleProj
    rw [sumrule_unit_iff (A₀ * W₂₀) T₀ 25 (by norm_num)]
    have hT : T₀ *ᵥ ((A₀ * W₂₀) *ᵥ y) = ![4 * y 0 - 3 * y 1] := by
      ext i; fin_cases i
      simp [A₀, T₀, W₂₀, Matrix.mulVec, dotProduct, Fin.sum_univ_three, Fin.sum_univ_two]
      ring
    rw [hT]
    constructor
    · intro h
      have h0 : 4 * y 0 - 3 * y 1 = 0 := by simpa using congrFun h 0
      refine ⟨![5 / 3 * y 0], ?_⟩
      ext i; fin_cases i
      · simp [W₃₀, Matrix.mulVec, dotProduct]; ring
      · simp [W₃₀, Matrix.mulVec, dotProduct]; linarith
    · rintro ⟨z, rfl⟩
      ext i; fin_cases i
      simp [W₃₀, Matrix.mulVec, dotProduct]
      ring

/-- The resulting basis is the single non-zero column `(3/5, 4/5, 0)`. -/
example : A₀ * W₂₀ * W₃₀ = !![3/5; 4/5; 0] := by
  ext i j; fin_cases i <;> fin_cases j <;>
    simp [A₀, W₂₀, W₃₀, Matrix.mul_apply, Fin.sum_univ_two]

/-- T7. All hypotheses of `pipeline_range` hold simultaneously for the concrete data, so its
conclusion holds for them. -/
example (x : Fin 3 → ℚ) :
    (∃ w : Fin 1 → ℚ, x = (A₀ * W₂₀ * W₃₀) *ᵥ w) ↔
      ((∃ y : Fin 3 → ℚ, x = A₀ *ᵥ y) ∧ P₀ *ᵥ x = x ∧ T₀ *ᵥ x = 0) :=
  pipeline_range A₀ P₀ T₀ 25 W₂₀ W₃₀ A₀_orth eig₂ eig₃ P₀_symm P₀_idem (by norm_num) x

/-- ... and the range is non-trivial: `(3, 4, 0)` is admissible, `(1, 0, 0)` is not. -/
example : (∃ w : Fin 1 → ℚ, (![3, 4, 0] : Fin 3 → ℚ) = (A₀ * W₂₀ * W₃₀) *ᵥ w) ∧
    ¬ (∃ w : Fin 1 → ℚ, (![1, 0, 0] : Fin 3 → ℚ) = (A₀ * W₂₀ * W₃₀) *ᵥ w) := by
  constructor
  · refine ⟨![5], ?_⟩
    ext i; fin_cases i <;>
      simp [A₀, W₂₀, W₃₀, Matrix.mulVec, dotProduct, Matrix.mul_apply, Fin.sum_univ_two]
  · rw [pipeline_range A₀ P₀ T₀ 25 W₂₀ W₃₀ A₀_orth eig₂ eig₃ P₀_symm P₀_idem (by norm_num)]
    rintro ⟨-, -, hT⟩
    have := congrFun hT 0
    simp [T₀, Matrix.mulVec, dotProduct, Fin.sum_univ_three] at this

end Example

end Symfc.Pipeline
