/-
  Lemmas/Col0.lean — components of the pointer graph with `col0` (first entry) representatives.

  With `.col0` the value written for a row is its FIRST entry and the final array depends on the
  order of the writes.  Nevertheless:

  E1  last-column lemma (any representative kind): the final value at `e` is the representative of
      a row having `e` in the LAST column in which `e` occurs at all.
  E2  GOAL B, easy half (any representative kind): components never exceed rows.
  E3  GOAL B, conditional converse: components = rows as soon as every row is internally
      connected (`hrow`), in particular as soon as the heads of the rows with the same elements are
      connected (`hheads`, `.col0`).
  E4  GOAL A: two-column rows (optionally preceded by a batch of one-column rows), `.col0`:
      the components are exactly the rows.
  E5  GOAL C: a fixed-point-free self-map of a set of at most three naturals has a connected
      functional graph; application to `hheads`.
-/
import SymfcModel.Lemmas.PermSound
namespace Symfc

/-! ## E1 the last column wins -/

theorem applyWrites_append (a b : List (Nat × Int)) (p : Array Int) :
    applyWrites (a ++ b) p = applyWrites b (applyWrites a p) := by
  simp [applyWrites, List.foldl_append]

/-- the assignments of one column of a batch -/
def colWrites (rk : RepKind) (rows : List (List Nat)) (col : Nat) : List (Nat × Int) :=
  rows.map (fun row => (row.getD col 0, Int.ofNat (rowRep rk row)))

theorem writesOf_eq_flatMap_colWrites (rk : RepKind) (rows : List (List Nat)) :
    writesOf rk rows = (List.range (rows.headD []).length).flatMap (colWrites rk rows) := rfl

theorem mem_colWrites {rk : RepKind} {rows : List (List Nat)} {col : Nat} {w : Nat × Int} :
    w ∈ colWrites rk rows col ↔
      ∃ row ∈ rows, w = (row.getD col 0, Int.ofNat (rowRep rk row)) := by
  simp only [colWrites, List.mem_map]
  constructor
  · rintro ⟨row, hr, rfl⟩; exact ⟨row, hr, rfl⟩
  · rintro ⟨row, hr, rfl⟩; exact ⟨row, hr, rfl⟩

/-- columns `0..n-1` written in order: if `e` occurs in column `c < n` and in no later column,
    the final value at `e` is the representative of a row having `e` in column `c` -/
theorem applyWrites_cols_last (rk : RepKind) (rows : List (List Nat)) (ptr : Array Int)
    (e c : Nat) (he : e < ptr.size) (hex : ∃ r ∈ rows, r.getD c 0 = e) :
    ∀ n, c < n → (∀ c', c < c' → c' < n → ∀ r ∈ rows, r.getD c' 0 ≠ e) →
      ∃ r ∈ rows, r.getD c 0 = e ∧
        (applyWrites ((List.range n).flatMap (colWrites rk rows)) ptr)[e]?
          = some (Int.ofNat (rowRep rk r)) := by
  intro n
  induction n with
  | zero => intro h; omega
  | succ n ih =>
    intro hcn hlater
    rw [List.range_succ, List.flatMap_append, applyWrites_append]
    simp only [List.flatMap_cons, List.flatMap_nil, List.append_nil]
    by_cases hc : c = n
    · subst hc
      obtain ⟨r0, hr0, hr0e⟩ := hex
      have hex' : ∃ w ∈ colWrites rk rows c, w.1 = e :=
        ⟨_, mem_colWrites.mpr ⟨r0, hr0, rfl⟩, hr0e⟩
      obtain ⟨w, hw, hwe, hv⟩ := applyWrites_hit (colWrites rk rows c)
        (applyWrites ((List.range c).flatMap (colWrites rk rows)) ptr) e
        (by rw [applyWrites_size]; exact he) hex'
      obtain ⟨r, hr, rfl⟩ := mem_colWrites.mp hw
      exact ⟨r, hr, hwe, hv⟩
    · have hcn' : c < n := by omega
      obtain ⟨r, hr, hre, hv⟩ := ih hcn' (fun c' h1 h2 => hlater c' h1 (by omega))
      refine ⟨r, hr, hre, ?_⟩
      rw [applyWrites_frame _ _ _ ?_, hv]
      intro w hw
      obtain ⟨r', hr', rfl⟩ := mem_colWrites.mp hw
      exact hlater n hcn' (by omega) r' hr'

/-- E1: if `e` occurs in column `c` of some row of the batch and in no later column of any row,
    the final value at `e` is the representative of a row having `e` in column `c` -/
theorem writeBatch_lastcol (rk : RepKind) (rows : List (List Nat)) (ptr : Array Int)
    (e c : Nat) (d : Int) (he : e < ptr.size) (hc : c < (rows.headD []).length)
    (hex : ∃ r ∈ rows, r.getD c 0 = e)
    (hlater : ∀ c', c < c' → c' < (rows.headD []).length → ∀ r ∈ rows, r.getD c' 0 ≠ e) :
    ∃ r ∈ rows, r.getD c 0 = e ∧
      (writeBatch rk rows ptr).getD e d = Int.ofNat (rowRep rk r) := by
  obtain ⟨r, hr, hre, hv⟩ :=
    applyWrites_cols_last rk rows ptr e c he hex _ hc hlater
  refine ⟨r, hr, hre, ?_⟩
  rw [Array.getD_eq_getD_getElem?, writeBatch_eq_applyWrites, writesOf_eq_flatMap_colWrites, hv]
  rfl

/-! ## E2 GOAL B, easy half: components never exceed rows (any representative kind) -/

/-- every edge of the final pointer graph (from the all-`-1` array) joins two elements of a row -/
theorem foldBatches_linked_within_row (rk : RepKind) (bs : List (List (List Nat))) (size : Nat)
    (hu : UniformBatches bs) {a b : Nat}
    (hl : linked (foldBatches rk bs (Array.replicate size (-1))) a b) :
    ∃ r ∈ bs.flatten, a ∈ r ∧ b ∈ r := by
  obtain ⟨ha, hv⟩ := hl
  rw [foldBatches_size] at ha
  rcases foldBatches_cases rk bs _ a (-1) hu ha with ⟨_, hv'⟩ | ⟨r, hr, har, hv'⟩
  · rw [hv', getD_replicate_neg] at hv
    exact absurd hv.symm (ofNat_ne_neg_one b)
  · rw [hv'] at hv
    have hb : rowRep rk r = b := Int.ofNat.inj hv
    exact ⟨r, hr, har, hb ▸ rowRep_mem rk r (List.ne_nil_of_mem har)⟩

/-- GOAL B (easy half), any representative kind: over orbit-closed in-bounds rows two nodes of
    one component lie in a common row -/
theorem foldBatches_sameComp_imp_row (rk : RepKind) (bs : List (List (List Nat))) (size : Nat)
    (hu : UniformBatches bs) (hoc : OrbitClosed bs.flatten)
    (hb : ∀ r ∈ bs.flatten, ∀ e ∈ r, e < size) {a b : Nat}
    (h : SameComp (foldBatches rk bs (Array.replicate size (-1))) a b) :
    ∃ r ∈ bs.flatten, a ∈ r ∧ b ∈ r := by
  induction h with
  | refl hc =>
    obtain ⟨r, hr, har⟩ := (foldBatches_covered_iff rk bs size hu hb _).mp hc
    exact ⟨r, hr, har, har⟩
  | link hl => exact foldBatches_linked_within_row rk bs size hu hl
  | symm _ ih => obtain ⟨r, hr, h1, h2⟩ := ih; exact ⟨r, hr, h2, h1⟩
  | trans _ _ ih1 ih2 =>
    obtain ⟨r1, hr1, ha1, hb1⟩ := ih1
    obtain ⟨r2, hr2, hb2, hc2⟩ := ih2
    exact ⟨r1, hr1, ha1, (hoc r1 hr1 r2 hr2 ⟨_, hb1, hb2⟩ _).mpr hc2⟩

/-- GOAL B (easy half) as stated, for `.col0` -/
theorem foldBatches_col0_sameComp_imp_row (bs : List (List (List Nat))) (size : Nat)
    (hu : UniformBatches bs) (hoc : OrbitClosed bs.flatten)
    (hb : ∀ r ∈ bs.flatten, ∀ e ∈ r, e < size) {a b : Nat}
    (h : SameComp (foldBatches .col0 bs (Array.replicate size (-1))) a b) :
    ∃ r ∈ bs.flatten, a ∈ r ∧ b ∈ r :=
  foldBatches_sameComp_imp_row .col0 bs size hu hoc hb h

/-! ## E3 GOAL B, conditional converse -/

/-- the relation "row-mates": `a` and `b` lie in a common row -/
def RowMates (rows : List (List Nat)) (a b : Nat) : Prop := ∃ r ∈ rows, a ∈ r ∧ b ∈ r

/-- components = rows as soon as every row is internally connected (any representative kind) -/
theorem foldBatches_sameComp_iff_of_rows_connected (rk : RepKind) (bs : List (List (List Nat)))
    (size : Nat) (hu : UniformBatches bs) (hoc : OrbitClosed bs.flatten)
    (hb : ∀ r ∈ bs.flatten, ∀ e ∈ r, e < size)
    (hrow : ∀ r ∈ bs.flatten, ∀ a ∈ r, ∀ b ∈ r,
      SameComp (foldBatches rk bs (Array.replicate size (-1))) a b) (a b : Nat) :
    SameComp (foldBatches rk bs (Array.replicate size (-1))) a b ↔ RowMates bs.flatten a b :=
  ⟨foldBatches_sameComp_imp_row rk bs size hu hoc hb,
    fun ⟨r, hr, har, hbr⟩ => hrow r hr a har b hbr⟩

/-- every element of a row is linked to the representative of a row with the same elements -/
theorem foldBatches_linked_rep (rk : RepKind) (bs : List (List (List Nat))) (size : Nat)
    (hu : UniformBatches bs) (hoc : OrbitClosed bs.flatten)
    (hb : ∀ r ∈ bs.flatten, ∀ e ∈ r, e < size)
    {r : List Nat} (hr : r ∈ bs.flatten) {a : Nat} (har : a ∈ r) :
    ∃ r' ∈ bs.flatten, (∀ x, x ∈ r' ↔ x ∈ r) ∧
      linked (foldBatches rk bs (Array.replicate size (-1))) a (rowRep rk r') := by
  have ha : a < size := hb r hr a har
  rcases foldBatches_cases rk bs (Array.replicate size (-1)) a (-1) hu (by simpa using ha)
    with h | ⟨r', hr', har', hv⟩
  · exact absurd har (h.1 r hr)
  · exact ⟨r', hr', hoc r' hr' r hr ⟨a, har', har⟩,
      by rw [foldBatches_size, Array.size_replicate]; exact ha, hv⟩

/-- GOAL B (conditional converse), `.col0`: if the heads of any two rows with the same elements
    are in one component, the components are exactly the rows -/
theorem foldBatches_col0_sameComp_iff_of_heads (bs : List (List (List Nat))) (size : Nat)
    (hu : UniformBatches bs) (hoc : OrbitClosed bs.flatten)
    (hb : ∀ r ∈ bs.flatten, ∀ e ∈ r, e < size)
    (hheads : ∀ r1 ∈ bs.flatten, ∀ r2 ∈ bs.flatten, r1 ≠ [] → (∀ x, x ∈ r1 ↔ x ∈ r2) →
      SameComp (foldBatches .col0 bs (Array.replicate size (-1)))
        (rowRep .col0 r1) (rowRep .col0 r2)) (a b : Nat) :
    SameComp (foldBatches .col0 bs (Array.replicate size (-1))) a b ↔
      ∃ r ∈ bs.flatten, a ∈ r ∧ b ∈ r := by
  refine foldBatches_sameComp_iff_of_rows_connected .col0 bs size hu hoc hb ?_ a b
  intro r hr a har b hbr
  obtain ⟨ra, hra, hsa, hla⟩ := foldBatches_linked_rep .col0 bs size hu hoc hb hr har
  obtain ⟨rb, hrb, hsb, hlb⟩ := foldBatches_linked_rep .col0 bs size hu hoc hb hr hbr
  have hs : ∀ x, x ∈ ra ↔ x ∈ rb := fun x => (hsa x).trans (hsb x).symm
  exact .trans (.link hla) (.trans (hheads ra hra rb hrb
    (List.ne_nil_of_mem ((hsa a).mpr har)) hs) (.symm (.link hlb)))

/-! ## E4 GOAL A: two-column rows with `.col0` representatives -/

theorem eq_pair_of_length_two {r : List Nat} (h : r.length = 2) : ∃ x y, r = [x, y] := by
  match r, h with
  | [x, y], _ => exact ⟨x, y, rfl⟩

theorem eq_singleton_of_length_one {r : List Nat} (h : r.length = 1) : ∃ x, r = [x] := by
  match r, h with
  | [x], _ => exact ⟨x, rfl⟩

/-- with `.col0`, an index that occurs in column 0 only (of a batch with at least one column)
    ends up pointing at itself -/
theorem writeBatch_col0_fixed (rows : List (List Nat)) (ptr : Array Int) (e : Nat) (d : Int)
    (he : e < ptr.size) (hc : 0 < (rows.headD []).length)
    (hex : ∃ r ∈ rows, r.getD 0 0 = e)
    (hlater : ∀ c', 0 < c' → c' < (rows.headD []).length → ∀ r ∈ rows, r.getD c' 0 ≠ e) :
    (writeBatch .col0 rows ptr).getD e d = Int.ofNat e := by
  obtain ⟨r, hr, hre, hv⟩ := writeBatch_lastcol .col0 rows ptr e 0 d he hc hex hlater
  rw [hv]
  have : rowRep .col0 r = e := by
    rw [← hre]
    cases r with
    | nil => rfl
    | cons x xs => rfl
  rw [this]

/-- key fact for two-column orbit-closed rows: whatever the order of the rows and whatever the
    array was before, the second entry of every row finally points at the first entry -/
theorem writeBatch_col0_pair_snd (rows : List (List Nat)) (ptr : Array Int) (d : Int)
    (h2 : ∀ r ∈ rows, r.length = 2) (hoc : OrbitClosed rows) {x y : Nat}
    (hxy : [x, y] ∈ rows) (hy : y < ptr.size) :
    (writeBatch .col0 rows ptr).getD y d = Int.ofNat x := by
  have hn : (rows.headD []).length = 2 := headD_length_of_common h2 hxy
  obtain ⟨r, hr, hre, hv⟩ := writeBatch_lastcol .col0 rows ptr y 1 d hy (by omega)
    ⟨[x, y], hxy, rfl⟩ (fun c' h1 h2 => by omega)
  obtain ⟨h, y', rfl⟩ := eq_pair_of_length_two (h2 r hr)
  have hy' : y' = y := hre
  subst hy'
  have hs := hoc [h, y'] hr [x, y'] hxy ⟨y', by simp, by simp⟩
  have e1 : h = x ∨ h = y' := by simpa using (hs h).mp (by simp)
  have e2 : x = h ∨ x = y' := by simpa using (hs x).mpr (by simp)
  have hhx : h = x := by omega
  rw [hv, ← hhx]; rfl

/-- if `[x, y]` is a row but `x` is the second entry of no row, `x` finally points at itself -/
theorem writeBatch_col0_pair_fst (rows : List (List Nat)) (ptr : Array Int) (d : Int)
    (h2 : ∀ r ∈ rows, r.length = 2) {x y : Nat} (hxy : [x, y] ∈ rows)
    (hno : ∀ r ∈ rows, r.getD 1 0 ≠ x) (hx : x < ptr.size) :
    (writeBatch .col0 rows ptr).getD x d = Int.ofNat x := by
  have hn : (rows.headD []).length = 2 := headD_length_of_common h2 hxy
  apply writeBatch_col0_fixed rows ptr x d hx (by omega) ⟨[x, y], hxy, rfl⟩
  intro c' h1 h2' r hr
  have : c' = 1 := by omega
  subst this
  exact hno r hr

/-- GOAL A: a batch `b1` of one-column rows followed by a batch `b2` of two-column rows, `.col0`
    representatives, from the all-`-1` array: the components are exactly the rows -/
theorem foldBatches_col0_pairs_sameComp_iff (b1 b2 : List (List Nat)) (size : Nat)
    (h1 : ∀ r ∈ b1, r.length = 1) (h2 : ∀ r ∈ b2, r.length = 2)
    (hoc : OrbitClosed (b1 ++ b2)) (hb : ∀ r ∈ b1 ++ b2, ∀ e ∈ r, e < size) (a b : Nat) :
    SameComp (foldBatches .col0 [b1, b2] (Array.replicate size (-1))) a b ↔
      ∃ r ∈ b1 ++ b2, a ∈ r ∧ b ∈ r := by
  have hfl : [b1, b2].flatten = b1 ++ b2 := by simp
  have hu : UniformBatches [b1, b2] := by
    intro b hbm
    simp only [List.mem_cons, List.not_mem_nil, or_false] at hbm
    rcases hbm with rfl | rfl
    · exact common_length_headD h1
    · exact common_length_headD h2
  have hoc' : OrbitClosed [b1, b2].flatten := hfl ▸ hoc
  have hb' : ∀ r ∈ [b1, b2].flatten, ∀ e ∈ r, e < size := hfl ▸ hb
  have key := foldBatches_sameComp_iff_of_rows_connected .col0 [b1, b2] size hu hoc' hb' ?_ a b
  · rw [key, RowMates, hfl]
  · intro r hr
    have hcov : ∀ e ∈ r, SameComp (foldBatches .col0 [b1, b2] (Array.replicate size (-1))) e e :=
      fun e her => .refl ((foldBatches_covered_iff .col0 [b1, b2] size hu hb' e).mpr ⟨r, hr, her⟩)
    rw [hfl] at hr
    rcases List.mem_append.mp hr with hr1 | hr2
    · obtain ⟨x, rfl⟩ := eq_singleton_of_length_one (h1 r hr1)
      intro a ha b hb
      rw [List.mem_singleton] at ha hb
      subst ha; subst hb
      exact hcov _ (by simp)
    · obtain ⟨x, y, rfl⟩ := eq_pair_of_length_two (h2 r hr2)
      have hysz : y < size := hb [x, y] hr y (by simp)
      have hlink : linked (foldBatches .col0 [b1, b2] (Array.replicate size (-1))) y x := by
        refine ⟨by rw [foldBatches_size, Array.size_replicate]; exact hysz, ?_⟩
        simp only [foldBatches_cons, foldBatches_nil]
        exact writeBatch_col0_pair_snd b2 _ (-1) h2
          (hoc.of_subset (fun r hr => List.mem_append_right _ hr)) hr2
          (by rw [writeBatch_size, Array.size_replicate]; exact hysz)
      intro a ha b hb
      have ha' : a = x ∨ a = y := by simpa using ha
      have hb'' : b = x ∨ b = y := by simpa using hb
      rcases ha' with rfl | rfl <;> rcases hb'' with rfl | rfl
      · exact hcov _ (by simp)
      · exact .symm (.link hlink)
      · exact .link hlink
      · exact hcov _ (by simp)

/-- GOAL A, single batch of two-column rows -/
theorem writeBatch_col0_pairs_sameComp_iff (rows : List (List Nat)) (size : Nat)
    (h2 : ∀ r ∈ rows, r.length = 2) (hoc : OrbitClosed rows)
    (hb : ∀ r ∈ rows, ∀ e ∈ r, e < size) (a b : Nat) :
    SameComp (writeBatch .col0 rows (Array.replicate size (-1))) a b ↔
      ∃ r ∈ rows, a ∈ r ∧ b ∈ r := by
  have := foldBatches_col0_pairs_sameComp_iff [] rows size (by simp) h2 (by simpa using hoc)
    (by simpa using hb) a b
  simpa [writeBatch, rowRep] using this

/-! ## E4' GOAL A generalised: any number of batches of one- and two-column rows

  (`permDecompr` splits every stage into several batches, so this is the form that applies to the
  model at tensor order 2.) -/

/-- invariant: two distinct members of a row are joined by an edge, one way or the other -/
def PairLinked (p : Array Int) (rows : List (List Nat)) : Prop :=
  ∀ r ∈ rows, ∀ a ∈ r, ∀ b ∈ r, a ≠ b → linked p a b ∨ linked p b a

theorem writeBatch_col0_pairLinked_step (seen b : List (List Nat)) (p : Array Int)
    (hlen : (∀ r ∈ b, r.length = 1) ∨ (∀ r ∈ b, r.length = 2))
    (hoc : OrbitClosed (seen ++ b)) (hb : ∀ r ∈ seen ++ b, ∀ e ∈ r, e < p.size)
    (hinv : PairLinked p seen) : PairLinked (writeBatch .col0 b p) (seen ++ b) := by
  intro r hr a ha c hc hne
  by_cases hmeet : ∃ r' ∈ b, ∃ e, e ∈ r ∧ e ∈ r'
  · obtain ⟨r', hr', e, her, her'⟩ := hmeet
    have hs := hoc r hr r' (List.mem_append_right _ hr') ⟨e, her, her'⟩
    have ha' : a ∈ r' := (hs a).mp ha
    have hc' : c ∈ r' := (hs c).mp hc
    rcases hlen with h1 | h2
    · obtain ⟨u, rfl⟩ := eq_singleton_of_length_one (h1 r' hr')
      rw [List.mem_singleton] at ha' hc'
      exact absurd (ha'.trans hc'.symm) hne
    · obtain ⟨u, v, rfl⟩ := eq_pair_of_length_two (h2 r' hr')
      have hvsz : v < p.size := hb _ (List.mem_append_right _ hr') v (by simp)
      have hval := writeBatch_col0_pair_snd b p (-1) h2
        (hoc.of_subset (fun r hr => List.mem_append_right _ hr)) hr' hvsz
      have hl : linked (writeBatch .col0 b p) v u :=
        ⟨by rw [writeBatch_size]; exact hvsz, hval⟩
      have ea : a = u ∨ a = v := by simpa using ha'
      have ec : c = u ∨ c = v := by simpa using hc'
      rcases ea with rfl | rfl <;> rcases ec with rfl | rfl
      · exact absurd rfl hne
      · exact Or.inr hl
      · exact Or.inl hl
      · exact absurd rfl hne
  · have hnot : ∀ e ∈ r, ∀ r' ∈ b, e ∉ r' := fun e her r' hr' her' =>
      hmeet ⟨r', hr', e, her, her'⟩
    have hrs : r ∈ seen := by
      rcases List.mem_append.mp hr with h | h
      · exact h
      · exact absurd ha (hnot a ha r h)
    have hframe : ∀ e ∈ r, (writeBatch .col0 b p).getD e (-1) = p.getD e (-1) := fun e her =>
      writeBatch_frame_of_not_mem .col0 b p e (-1)
        (by rcases hlen with h | h <;> exact common_length_headD h) (hnot e her)
    rcases hinv r hrs a ha c hc hne with h | h
    · exact Or.inl ⟨by rw [writeBatch_size]; exact h.1, (hframe a ha).trans h.2⟩
    · exact Or.inr ⟨by rw [writeBatch_size]; exact h.1, (hframe c hc).trans h.2⟩

theorem foldBatches_col0_pairLinked (bs : List (List (List Nat))) :
    ∀ (seen : List (List Nat)) (p : Array Int),
      (∀ b ∈ bs, (∀ r ∈ b, r.length = 1) ∨ (∀ r ∈ b, r.length = 2)) →
      OrbitClosed (seen ++ bs.flatten) → (∀ r ∈ seen ++ bs.flatten, ∀ e ∈ r, e < p.size) →
      PairLinked p seen → PairLinked (foldBatches .col0 bs p) (seen ++ bs.flatten) := by
  induction bs with
  | nil => intro seen p _ _ _ hinv; simpa using hinv
  | cons b bs ih =>
    intro seen p hlen hoc hb hinv
    rw [foldBatches_cons, List.flatten_cons, ← List.append_assoc]
    rw [List.flatten_cons, ← List.append_assoc] at hoc hb
    refine ih (seen ++ b) (writeBatch .col0 b p)
      (fun b' hb' => hlen b' (List.mem_cons_of_mem _ hb')) hoc
      (fun r hr e he => by rw [writeBatch_size]; exact hb r hr e he) ?_
    exact writeBatch_col0_pairLinked_step seen b p (hlen b List.mem_cons_self)
      (hoc.of_subset (fun r hr => List.mem_append_left _ hr))
      (fun r hr => hb r (List.mem_append_left _ hr)) hinv

/-- GOAL A, general form: any list of uniform batches whose rows have one or two columns, `.col0`
    representatives, orbit-closed in-bounds rows: the components are exactly the rows -/
theorem foldBatches_col0_le_two_sameComp_iff (bs : List (List (List Nat))) (size : Nat)
    (hu : UniformBatches bs) (hlen : ∀ r ∈ bs.flatten, r.length = 1 ∨ r.length = 2)
    (hoc : OrbitClosed bs.flatten) (hb : ∀ r ∈ bs.flatten, ∀ e ∈ r, e < size) (a b : Nat) :
    SameComp (foldBatches .col0 bs (Array.replicate size (-1))) a b ↔
      ∃ r ∈ bs.flatten, a ∈ r ∧ b ∈ r := by
  have hlen' : ∀ b ∈ bs, (∀ r ∈ b, r.length = 1) ∨ (∀ r ∈ b, r.length = 2) := by
    intro b hbm
    cases b with
    | nil => exact Or.inl (fun r hr => absurd hr List.not_mem_nil)
    | cons r0 rs =>
      have hall := hu _ hbm
      have h0 := hlen r0 (List.mem_flatten.mpr ⟨_, hbm, List.mem_cons_self⟩)
      rcases h0 with h0 | h0
      · exact Or.inl (fun r hr => (hall r hr).trans h0)
      · exact Or.inr (fun r hr => (hall r hr).trans h0)
  have hpl := foldBatches_col0_pairLinked bs [] (Array.replicate size (-1)) hlen'
    (by simpa using hoc) (by simpa using hb) (fun r hr => absurd hr List.not_mem_nil)
  rw [List.nil_append] at hpl
  refine foldBatches_sameComp_iff_of_rows_connected .col0 bs size hu hoc hb ?_ a b
  intro r hr a ha c hc
  by_cases hac : a = c
  · subst hac
    exact .refl ((foldBatches_covered_iff .col0 bs size hu hb a).mpr ⟨r, hr, ha⟩)
  · rcases hpl r hr a ha c hc hac with h | h
    · exact .link h
    · exact .symm (.link h)

/-- GOAL A for the model: the whole permutation stage with `.col0` representatives when all rows
    have one or two columns (tensor order 2), any batch counts: the components of the resulting
    pointer graph are exactly the rows -/
theorem permDecompr_col0_le_two_sameComp_iff {ops : CutoffOps} {c : Cell} {n : Nat}
    {stages : List Stage} {cut : Option CutoffIn} {nBatch : String → Nat} {ptr' : Array Int}
    (h : permDecompr ops c n .col0 stages cut nBatch = some ptr')
    (hlen : ∀ r ∈ allStageRows ops c n stages cut, r.length = 1 ∨ r.length = 2)
    (hoc : OrbitClosed (allStageRows ops c n stages cut))
    (hb : ∀ r ∈ allStageRows ops c n stages cut, ∀ e ∈ r, e < c.N ^ n * 3 ^ n / c.nlp)
    (a b : Nat) :
    SameComp ptr' a b ↔ ∃ r ∈ allStageRows ops c n stages cut, a ∈ r ∧ b ∈ r := by
  obtain ⟨bs, rfl, hu, hmem⟩ := permDecompr_spec h
  rw [foldBatches_col0_le_two_sameComp_iff bs _ hu (fun r hr => hlen r ((hmem r).mp hr))
    (hoc.of_subset (fun r => (hmem r).mp)) (fun r hr => hb r ((hmem r).mp hr))]
  constructor
  · rintro ⟨r, hr, hab⟩; exact ⟨r, (hmem r).mp hr, hab⟩
  · rintro ⟨r, hr, hab⟩; exact ⟨r, (hmem r).mpr hr, hab⟩

/-! ## E5 GOAL C: at most three heads without fixed points are connected -/

/-- abstract form: `R` is a partial equivalence relation containing the edges `h — f h` for
    `h` in the set `H`; `H` has at most three members `h1 h2 h3`, is mapped into itself by `f`,
    and `f` has no fixed point in `H` as soon as `H` has two distinct members.  Then any two
    members of `H` are `R`-related. -/
theorem conn_of_three {R : Nat → Nat → Prop} {H : Nat → Prop} (f : Nat → Nat) (h1 h2 h3 : Nat)
    (hrefl : ∀ h, H h → R h h) (hsymm : ∀ {a b}, R a b → R b a)
    (htrans : ∀ {a b c}, R a b → R b c → R a c)
    (hstep : ∀ h, H h → R h (f h))
    (hH : ∀ h, H h → h = h1 ∨ h = h2 ∨ h = h3)
    (hmap : ∀ h, H h → H (f h))
    (hnofix : ∀ a b, H a → H b → a ≠ b → ∀ h, H h → f h ≠ h)
    {a b : Nat} (ha : H a) (hb : H b) : R a b := by
  by_cases hab : a = b
  · subst hab; exact hrefl a ha
  · have hfa : f a ≠ a := hnofix a b ha hb hab a ha
    have hfb : f b ≠ b := hnofix a b ha hb hab b hb
    by_cases h1' : f a = b
    · exact h1' ▸ hstep a ha
    · by_cases h2' : f b = a
      · exact hsymm (h2' ▸ hstep b hb)
      · have ma := hH a ha
        have mb := hH b hb
        have mfa := hH (f a) (hmap a ha)
        have mfb := hH (f b) (hmap b hb)
        have : f a = f b := by omega
        exact htrans (hstep a ha) (this ▸ hsymm (hstep b hb))

/-- connectivity in the undirected graph `{h — f h}` -/
inductive FConn (f : Nat → Nat) : Nat → Nat → Prop
  | refl (a : Nat) : FConn f a a
  | step (a : Nat) : FConn f a (f a)
  | symm {a b : Nat} : FConn f a b → FConn f b a
  | trans {a b c : Nat} : FConn f a b → FConn f b c → FConn f a c

/-- GOAL C, graph form: `f` maps `H` (at most three members `h1 h2 h3`) into itself, without
    fixed points when `H` has two distinct members; then any two members of `H` are connected in
    the undirected graph `{h — f h}` -/
theorem fconn_of_three (f : Nat → Nat) (H : Nat → Prop) (h1 h2 h3 : Nat)
    (hH : ∀ h, H h → h = h1 ∨ h = h2 ∨ h = h3)
    (hmap : ∀ h, H h → H (f h))
    (hnofix : ∀ a b, H a → H b → a ≠ b → ∀ h, H h → f h ≠ h)
    {a b : Nat} (ha : H a) (hb : H b) : FConn f a b :=
  conn_of_three (R := FConn f) f h1 h2 h3 (fun h _ => .refl h) .symm .trans
    (fun h _ => .step h) hH hmap hnofix ha hb

/-- GOAL C, list form: `H` a list of at most three naturals -/
theorem fconn_of_length_le_three (f : Nat → Nat) (H : List Nat) (hlen : H.length ≤ 3)
    (hmap : ∀ h ∈ H, f h ∈ H)
    (hnofix : (∃ a ∈ H, ∃ b ∈ H, a ≠ b) → ∀ h ∈ H, f h ≠ h)
    {a b : Nat} (ha : a ∈ H) (hb : b ∈ H) : FConn f a b := by
  refine fconn_of_three f (· ∈ H) (H.getD 0 0) (H.getD 1 0) (H.getD 2 0) ?_ hmap
    (fun a b ha hb hab => hnofix ⟨a, ha, b, hb, hab⟩) ha hb
  intro h hh
  match H, hlen, hh with
  | [x], _, hh => simp at hh; simp [hh]
  | [x, y], _, hh => simp at hh; simp; omega
  | [x, y, z], _, hh => simp at hh; simp; omega

/-- GOAL C applied: for a non-empty row `r`, if the rows with the same elements as `r` have at most
    three distinct heads `h1 h2 h3` and (when there are two distinct heads) no head is a fixed
    point of the final array, then the heads of any two such rows are in one component -/
theorem foldBatches_col0_heads_of_three (bs : List (List (List Nat))) (size : Nat)
    (hu : UniformBatches bs) (hoc : OrbitClosed bs.flatten)
    (hb : ∀ r ∈ bs.flatten, ∀ e ∈ r, e < size)
    (r : List Nat) (hne : r ≠ []) (h1 h2 h3 : Nat)
    (hthree : ∀ r' ∈ bs.flatten, (∀ x, x ∈ r' ↔ x ∈ r) →
      rowRep .col0 r' = h1 ∨ rowRep .col0 r' = h2 ∨ rowRep .col0 r' = h3)
    (hnofix : ∀ ra ∈ bs.flatten, ∀ rb ∈ bs.flatten, (∀ x, x ∈ ra ↔ x ∈ r) → (∀ x, x ∈ rb ↔ x ∈ r) →
      rowRep .col0 ra ≠ rowRep .col0 rb →
      ∀ r' ∈ bs.flatten, (∀ x, x ∈ r' ↔ x ∈ r) →
        (foldBatches .col0 bs (Array.replicate size (-1))).getD (rowRep .col0 r') (-1)
          ≠ Int.ofNat (rowRep .col0 r'))
    (r1 : List Nat) (hr1 : r1 ∈ bs.flatten) (hs1 : ∀ x, x ∈ r1 ↔ x ∈ r)
    (r2 : List Nat) (hr2 : r2 ∈ bs.flatten) (hs2 : ∀ x, x ∈ r2 ↔ x ∈ r) :
    SameComp (foldBatches .col0 bs (Array.replicate size (-1)))
      (rowRep .col0 r1) (rowRep .col0 r2) := by
  -- the set of heads, and the successor function of the final array
  let H : Nat → Prop := fun h => ∃ r' ∈ bs.flatten, (∀ x, x ∈ r' ↔ x ∈ r) ∧ rowRep .col0 r' = h
  let f : Nat → Nat := fun e =>
    ((foldBatches .col0 bs (Array.replicate size (-1))).getD e (-1)).toNat
  have hnonempty : ∀ r', (∀ x, x ∈ r' ↔ x ∈ r) → r' ≠ [] := by
    intro r' hs
    cases r with
    | nil => exact absurd rfl hne
    | cons x xs => exact List.ne_nil_of_mem ((hs x).mpr List.mem_cons_self)
  -- every head is linked to a head
  have hlink : ∀ h, H h → ∃ r'' ∈ bs.flatten, (∀ x, x ∈ r'' ↔ x ∈ r) ∧
      linked (foldBatches .col0 bs (Array.replicate size (-1))) h (rowRep .col0 r'') ∧
      f h = rowRep .col0 r'' := by
    rintro h ⟨r', hr', hs', rfl⟩
    have hmem : rowRep .col0 r' ∈ r' := rowRep_mem .col0 r' (hnonempty r' hs')
    obtain ⟨r'', hr'', hs'', hl⟩ := foldBatches_linked_rep .col0 bs size hu hoc hb hr' hmem
    refine ⟨r'', hr'', fun x => (hs'' x).trans (hs' x), hl, ?_⟩
    show ((foldBatches .col0 bs (Array.replicate size (-1))).getD (rowRep .col0 r') (-1)).toNat = _
    rw [hl.2]; rfl
  refine conn_of_three (R := SameComp (foldBatches .col0 bs (Array.replicate size (-1))))
    (H := H) f h1 h2 h3 ?_ .symm .trans ?_ ?_ ?_ ?_ ⟨r1, hr1, hs1, rfl⟩ ⟨r2, hr2, hs2, rfl⟩
  · intro h hh
    obtain ⟨_, _, _, hl, _⟩ := hlink h hh
    exact .refl hl.covered
  · intro h hh
    obtain ⟨_, _, _, hl, hf⟩ := hlink h hh
    rw [hf]; exact .link hl
  · rintro h ⟨r', hr', hs', rfl⟩
    exact hthree r' hr' hs'
  · intro h hh
    obtain ⟨r'', hr'', hs'', _, hf⟩ := hlink h hh
    exact ⟨r'', hr'', hs'', hf.symm⟩
  · rintro a b ⟨ra, hra, hsa, rfl⟩ ⟨rb, hrb, hsb, rfl⟩ hab h ⟨r', hr', hs', rfl⟩ hfix
    apply hnofix ra hra rb hrb hsa hsb hab r' hr' hs'
    obtain ⟨r'', _, _, hl, hf⟩ := hlink _ ⟨r', hr', hs', rfl⟩
    rw [hl.2, ← hf, hfix]

/-- GOAL B + C: components = rows when every family of rows with the same elements has at most
    three distinct heads, none of which is a fixed point unless it is the only one -/
theorem foldBatches_col0_sameComp_iff_of_three_heads (bs : List (List (List Nat))) (size : Nat)
    (hu : UniformBatches bs) (hoc : OrbitClosed bs.flatten)
    (hb : ∀ r ∈ bs.flatten, ∀ e ∈ r, e < size)
    (hthree : ∀ r ∈ bs.flatten, ∃ h1 h2 h3, ∀ r' ∈ bs.flatten, (∀ x, x ∈ r' ↔ x ∈ r) →
      rowRep .col0 r' = h1 ∨ rowRep .col0 r' = h2 ∨ rowRep .col0 r' = h3)
    (hnofix : ∀ ra ∈ bs.flatten, ∀ rb ∈ bs.flatten, (∀ x, x ∈ ra ↔ x ∈ rb) →
      rowRep .col0 ra ≠ rowRep .col0 rb →
        (foldBatches .col0 bs (Array.replicate size (-1))).getD (rowRep .col0 ra) (-1)
          ≠ Int.ofNat (rowRep .col0 ra)) (a b : Nat) :
    SameComp (foldBatches .col0 bs (Array.replicate size (-1))) a b ↔
      ∃ r ∈ bs.flatten, a ∈ r ∧ b ∈ r := by
  refine foldBatches_col0_sameComp_iff_of_heads bs size hu hoc hb ?_ a b
  intro r1 hr1 r2 hr2 hne hs
  obtain ⟨h1, h2, h3, h3'⟩ := hthree r1 hr1
  refine foldBatches_col0_heads_of_three bs size hu hoc hb r1 hne h1 h2 h3 h3' ?_
    r1 hr1 (fun _ => Iff.rfl) r2 hr2 (fun x => (hs x).symm)
  intro ra hra rb hrb hsa hsb hab r' hr' hs'
  -- `r'` has a head different from that of `ra` or from that of `rb`
  by_cases h : rowRep .col0 r' = rowRep .col0 ra
  · exact hnofix r' hr' rb hrb (fun x => (hs' x).trans (hsb x).symm) (h ▸ hab)
  · exact hnofix r' hr' ra hra (fun x => (hs' x).trans (hsa x).symm) h

/-! ## non-vacuity examples -/

def exB1 : List (List Nat) := [[0], [3]]
def exB2 : List (List Nat) := [[1, 2], [2, 1], [5, 6]]

-- the final array of the order-2 style example
example : foldBatches .col0 [exB1, exB2] (Array.replicate 7 (-1)) = #[0, 2, 1, 3, -1, 5, 5] := by
  decide
-- another order of the rows gives another array ...
example : foldBatches .col0 [exB1, [[2, 1], [1, 2], [5, 6]]] (Array.replicate 7 (-1))
    = #[0, 2, 1, 3, -1, 5, 5] := by decide
example : foldBatches .col0 [exB1, [[1, 2], [5, 6]]] (Array.replicate 7 (-1))
    = #[0, 1, 1, 3, -1, 5, 5] := by decide

theorem exB_hyps : (∀ r ∈ exB1, r.length = 1) ∧ (∀ r ∈ exB2, r.length = 2) ∧
    OrbitClosed (exB1 ++ exB2) ∧ ∀ r ∈ exB1 ++ exB2, ∀ e ∈ r, e < 7 :=
  ⟨by decide, by decide, orbitClosed_of_orbitClosedB (by decide), by decide⟩

-- ... but the components are the rows (instances of GOAL A)
example : SameComp (foldBatches .col0 [exB1, exB2] (Array.replicate 7 (-1))) 1 2 :=
  (foldBatches_col0_pairs_sameComp_iff exB1 exB2 7 exB_hyps.1 exB_hyps.2.1 exB_hyps.2.2.1
    exB_hyps.2.2.2 1 2).mpr (by decide)
example : SameComp (foldBatches .col0 [exB1, exB2] (Array.replicate 7 (-1))) 3 3 :=
  (foldBatches_col0_pairs_sameComp_iff exB1 exB2 7 exB_hyps.1 exB_hyps.2.1 exB_hyps.2.2.1
    exB_hyps.2.2.2 3 3).mpr (by decide)
example : ¬ SameComp (foldBatches .col0 [exB1, exB2] (Array.replicate 7 (-1))) 2 5 := by
  rw [foldBatches_col0_pairs_sameComp_iff exB1 exB2 7 exB_hyps.1 exB_hyps.2.1 exB_hyps.2.2.1
    exB_hyps.2.2.2]
  decide
example : ¬ SameComp (foldBatches .col0 [exB1, exB2] (Array.replicate 7 (-1))) 4 4 := by
  rw [foldBatches_col0_pairs_sameComp_iff exB1 exB2 7 exB_hyps.1 exB_hyps.2.1 exB_hyps.2.2.1
    exB_hyps.2.2.2]
  decide
-- single batch of two-column rows
example : SameComp (writeBatch .col0 exB2 (Array.replicate 7 (-1))) 6 5 :=
  (writeBatch_col0_pairs_sameComp_iff exB2 7 exB_hyps.2.1 (orbitClosed_of_orbitClosedB (by decide))
    (by decide) 6 5).mpr (by decide)

-- several batches, one- and two-column batches interleaved (instance of the general form of GOAL A)
def exBs : List (List (List Nat)) := [[[1, 2]], [[0], [3]], [[2, 1], [5, 6]], [[6, 5]]]

example : foldBatches .col0 exBs (Array.replicate 7 (-1)) = #[0, 2, 2, 3, -1, 6, 6] := by decide

theorem exBs_sameComp_iff (a b : Nat) :
    SameComp (foldBatches .col0 exBs (Array.replicate 7 (-1))) a b ↔
      ∃ r ∈ exBs.flatten, a ∈ r ∧ b ∈ r :=
  foldBatches_col0_le_two_sameComp_iff exBs 7 (by unfold UniformBatches; decide) (by decide)
    (orbitClosed_of_orbitClosedB (by decide)) (by decide) a b

example : SameComp (foldBatches .col0 exBs (Array.replicate 7 (-1))) 5 6 :=
  (exBs_sameComp_iff 5 6).mpr (by decide)
example : ¬ SameComp (foldBatches .col0 exBs (Array.replicate 7 (-1))) 0 3 := by
  rw [exBs_sameComp_iff]; decide

/-- three columns, two heads `3` and `5`, neither a fixed point: GOAL B + C applies -/
def exB3 : List (List Nat) := [[3, 5, 7], [5, 7, 3], [1, 1, 1]]

example : foldBatches .col0 [exB3] (Array.replicate 8 (-1)) = #[-1, 1, -1, 5, -1, 3, -1, 3] := by
  decide

theorem exB3_uniform : UniformBatches [exB3] := by unfold UniformBatches; decide

theorem exB3_sameComp_iff (a b : Nat) :
    SameComp (foldBatches .col0 [exB3] (Array.replicate 8 (-1))) a b ↔
      ∃ r ∈ [exB3].flatten, a ∈ r ∧ b ∈ r := by
  have hmem : ∀ r, r ∈ [exB3].flatten → r = [3, 5, 7] ∨ r = [5, 7, 3] ∨ r = [1, 1, 1] := by
    intro r hr; simpa [exB3] using hr
  refine foldBatches_col0_sameComp_iff_of_three_heads [exB3] 8 exB3_uniform
    (orbitClosed_of_orbitClosedB (by decide)) (by decide) ?_ ?_ a b
  · intro r _
    refine ⟨3, 5, 1, fun r' hr' _ => ?_⟩
    rcases hmem r' hr' with rfl | rfl | rfl <;> decide
  · intro ra hra rb hrb hs hab
    rcases hmem ra hra with rfl | rfl | rfl <;> rcases hmem rb hrb with rfl | rfl | rfl <;>
      first
        | exact absurd rfl hab
        | decide
        | (exfalso; have := (hs 1); revert this; decide)

example : SameComp (foldBatches .col0 [exB3] (Array.replicate 8 (-1))) 3 7 :=
  (exB3_sameComp_iff 3 7).mpr (by decide)
example : ¬ SameComp (foldBatches .col0 [exB3] (Array.replicate 8 (-1))) 1 7 := by
  rw [exB3_sameComp_iff]; decide

-- GOAL C, list form, on a concrete map without fixed points: `1 ↦ 2 ↦ 1`, `3 ↦ 1`
example : FConn (fun h => if h = 1 then 2 else 1) 2 3 :=
  fconn_of_length_le_three _ [1, 2, 3] (by decide) (by decide) (fun _ => by decide)
    (by decide) (by decide)

/-- `hheads` cannot be dropped for three or more columns: the orbit-closed rows `[1,2,1]`,
    `[2,1,2]` leave both heads as fixed points, and the single row-set `{1,2}` splits into two
    components -/
example : foldBatches .col0 [[[1, 2, 1], [2, 1, 2]]] (Array.replicate 3 (-1)) = #[-1, 1, 2] := by
  decide
example : OrbitClosed [[1, 2, 1], [2, 1, 2]] := orbitClosed_of_orbitClosedB (by decide)

theorem exSplit_not_sameComp :
    ¬ SameComp (foldBatches .col0 [[[1, 2, 1], [2, 1, 2]]] (Array.replicate 3 (-1))) 1 2 := by
  have harr : foldBatches .col0 [[[1, 2, 1], [2, 1, 2]]] (Array.replicate 3 (-1)) = #[-1, 1, 2] := by
    decide
  rw [harr]
  have hsf : StarForest (#[-1, 1, 2] : Array Int) id := by
    have hcases : ∀ e, covered (#[-1, 1, 2] : Array Int) e → e = 1 ∨ e = 2 := by
      intro e ⟨he, hne⟩
      have he' : e < 3 := he
      have : e = 0 ∨ e = 1 ∨ e = 2 := by omega
      rcases this with rfl | rfl | rfl
      · exact absurd rfl hne
      · exact Or.inl rfl
      · exact Or.inr rfl
    refine ⟨fun e he => ?_, fun e he => he, fun e _ => rfl⟩
    rcases hcases e he with rfl | rfl <;> rfl
  intro h
  have := (hsf.sameComp_imp h).2.2
  exact absurd this (by decide)

end Symfc

section AxiomAudit
open Symfc
end AxiomAudit
