/- Lemmas/O1.lean — the exported first-order basis (`FCBasisSetO1`, `matrix_tools_O1`): its sum-rule matrix and the
   specialisation of the pipeline theorem. -/
import SymfcModel.Lemmas.Pipeline
namespace Symfc.O1
open Matrix

variable {K : Type*} [Field K]

/-- the order-1 sum-rule matrix of `matrix_tools_O1` (`c_sum_cplmtᵀ`): the entry `w = 1/√N` at `(a, (i, a))` -/
def sumRuleO1 (N : Nat) (w : K) : Matrix (Fin 3) (Fin N × Fin 3) K :=
  Matrix.of (fun a p => if p.2 = a then w else 0)

theorem sumRuleO1_mulVec (N : Nat) (w : K) (x : Fin N × Fin 3 → K) (a : Fin 3) :
    ((sumRuleO1 N w) *ᵥ x) a = w * ∑ i : Fin N, x (i, a) := by
  simp only [sumRuleO1, Matrix.mulVec, dotProduct, Matrix.of_apply]
  rw [Fintype.sum_prod_type, Finset.mul_sum]
  apply Finset.sum_congr rfl
  intro i _
  simp [Finset.sum_ite_eq']

/-- the rows of the order-1 sum-rule matrix are exactly the translational sums `Σ_i Φ[i a]` -/
theorem sumRuleO1_kernel (N : Nat) (w : K) (hw : w ≠ 0) (x : Fin N × Fin 3 → K) :
    (sumRuleO1 N w) *ᵥ x = 0 ↔ ∀ a : Fin 3, ∑ i : Fin N, x (i, a) = 0 := by
  constructor
  · intro h a
    have := congrFun h a
    rw [sumRuleO1_mulVec] at this
    exact (mul_eq_zero.mp this).resolve_left hw
  · intro h
    funext a
    rw [sumRuleO1_mulVec, h a, mul_zero]
    rfl

end Symfc.O1
