/-
  Lemmas/Relabel4.lean — C10, atom-ordering part, continued: the partition computed by the permutation stage
  does not depend on the ORDER in which the lattice translations are listed (rows of `tp`), only on the SET of
  translations; combined with the relabelling of atoms this gives equivariance under a full re-description
  (atoms renamed AND translation rows permuted).
-/
import SymfcModel.Lemmas.Relabel
namespace Symfc
namespace Relabel
open Relabelling OC Cov

/-- the fit of the cutoff input only depends on the set of translations -/
theorem cutOK_of_transSubset {c₁ c₂ : Cell} (hN : c₁.N = c₂.N)
    (h21 : ∀ l, l < c₂.nlp → ∃ l', l' < c₁.nlp ∧ ∀ i, i < c₁.N → c₂.img l i = c₁.img l' i)
    {x : CutoffIn} (hx : CutOK c₁ x) : CutOK c₂ x := by
  refine ⟨hx.hN.trans hN, ?_, ?_, ?_⟩
  · intro i j hi hj; exact hx.symm i j (by omega) (by omega)
  · intro i hi; exact hx.refl i (by omega)
  · intro l hl i j hi hj
    obtain ⟨l', hl', e⟩ := h21 l hl
    rw [e i (by omega), e j (by omega)]
    exact hx.inv l' hl' i j (by omega) (by omega)

/-- two translations that agree on the atoms translate valid tuples in the same way -/
theorem map_tauE_congr {c₁ c₂ : Cell} {l l' : Nat}
    (e : ∀ i, i < c₁.N → c₁.img l i = c₂.img l' i) {n : Nat} {s : List Nat}
    (hs : Valid c₁.N n s) : s.map (tauE c₁ l) = s.map (tauE c₂ l') := by
  apply List.map_congr_left
  intro a ha
  have := hs.2 a ha
  unfold tauE
  rw [e (a / 3) (by omega)]

/-- one direction of the orbit comparison -/
theorem orbit_of_transSubset {c₁ c₂ : Cell}
    (h12 : ∀ l, l < c₁.nlp → ∃ l', l' < c₂.nlp ∧ ∀ i, i < c₁.N → c₁.img l i = c₂.img l' i)
    {n : Nat} (hsn : snOK n = true) {t t' : List Nat} (ht : Valid c₁.N n t)
    (h : ∃ σ ∈ Sn n, ∃ l, l < c₁.nlp ∧ t' = (act σ t).map (tauE c₁ l)) :
    ∃ σ ∈ Sn n, ∃ l, l < c₂.nlp ∧ t' = (act σ t).map (tauE c₂ l) := by
  obtain ⟨σ, hσ, l, hl, e⟩ := h
  obtain ⟨hσl, hσlt⟩ := snOK_spec hsn hσ
  obtain ⟨l', hl', e'⟩ := h12 l hl
  exact ⟨σ, hσ, l', hl', e.trans (map_tauE_congr e' (valid_act ht hσl hσlt))⟩

/-- **The partition depends only on the SET of lattice translations**, not on the order in which they are listed:
    two well-formed supercells on the same atoms whose translation tables contain the same permutations (in any
    order) put the same pairs of tensor elements into common rows — orders 2, 3, 4, with or without a cutoff.
    (The fit `CutOK c₂ x` of the cutoff input to the second cell follows from the fit to the first one,
    `cutOK_of_transSubset`, so it is not a hypothesis.) -/
theorem partition_depends_only_on_the_set_of_translations (c₁ c₂ : Cell) (h₁ : c₁.wf = true)
    (h₂ : c₂.wf = true) (hN : c₁.N = c₂.N)
    (h12 : ∀ l, l < c₁.nlp → ∃ l', l' < c₂.nlp ∧ ∀ i, i < c₁.N → c₁.img l i = c₂.img l' i)
    (h21 : ∀ l, l < c₂.nlp → ∃ l', l' < c₁.nlp ∧ ∀ i, i < c₁.N → c₂.img l i = c₁.img l' i)
    (n : Nat) (hn : n = 2 ∨ n = 3 ∨ n = 4) (cut : Option CutoffIn)
    (hcut₁ : ∀ x, cut = some x → CutOK c₁ x)
    (t t' : List Nat) (hlen : t.length = n) (hlt : ∀ e ∈ t, e < 3 * c₁.N)
    (hlen' : t'.length = n) (hlt' : ∀ e ∈ t', e < 3 * c₁.N) :
    SameRow c₁ n cut t t' ↔ SameRow c₂ n cut t t' := by
  have ht : Valid c₁.N n t := ⟨hlen, hlt⟩
  have ht' : Valid c₁.N n t' := ⟨hlen', hlt'⟩
  have ht2 : Valid c₂.N n t := by rw [← hN]; exact ht
  have ht2' : Valid c₂.N n t' := by rw [← hN]; exact ht'
  have hsn := (stagesFor_ok hn).2.1
  have hcut₂ : ∀ x, cut = some x → CutOK c₂ x :=
    fun x hx => cutOK_of_transSubset hN h21 (hcut₁ x hx)
  rw [sameRow_iff c₁ h₁ hn cut hcut₁ ht ht', sameRow_iff c₂ h₂ hn cut hcut₂ ht2 ht2']
  refine and_congr_right fun _ => ⟨orbit_of_transSubset h12 hsn ht, ?_⟩
  have h21' : ∀ l, l < c₂.nlp → ∃ l', l' < c₁.nlp ∧ ∀ i, i < c₂.N → c₂.img l i = c₁.img l' i := by
    rw [← hN]; exact h21
  exact orbit_of_transSubset h21' hsn ht2

/-- the same for coverage: which elements are written at all only depends on the set of translations -/
theorem coverage_depends_only_on_the_set_of_translations (c₁ c₂ : Cell) (h₁ : c₁.wf = true)
    (h₂ : c₂.wf = true) (hN : c₁.N = c₂.N)
    (h21 : ∀ l, l < c₂.nlp → ∃ l', l' < c₁.nlp ∧ ∀ i, i < c₁.N → c₂.img l i = c₁.img l' i)
    (n : Nat) (hn : n = 2 ∨ n = 3 ∨ n = 4) (cut : Option CutoffIn)
    (hcut₁ : ∀ x, cut = some x → CutOK c₁ x)
    (t : List Nat) (hlen : t.length = n) (hlt : ∀ e ∈ t, e < 3 * c₁.N) :
    (∃ r ∈ allStageRows Gen.cutoffOps c₁ n (stagesFor n) cut, elemIdx c₁.N (c₁.atomicDecompr n) t ∈ r) ↔
    (∃ r ∈ allStageRows Gen.cutoffOps c₂ n (stagesFor n) cut, elemIdx c₂.N (c₂.atomicDecompr n) t ∈ r) := by
  have ht : Valid c₁.N n t := ⟨hlen, hlt⟩
  have ht2 : Valid c₂.N n t := by rw [← hN]; exact ht
  rw [mem_row_iff_covered c₁ h₁ hn cut hcut₁ ht,
    mem_row_iff_covered c₂ h₂ hn cut (fun x hx => cutOK_of_transSubset hN h21 (hcut₁ x hx)) ht2]

/-- pointer-array version: for any two batch splits, two tensor elements lie in the same connected component of
    the pointer graph computed from `c₁` IFF they do so in the pointer graph computed from `c₂` (the class
    numbering `atomicDecompr` and the pointer values may differ; the partition of tensor elements does not). -/
theorem components_depend_only_on_the_set_of_translations (c₁ c₂ : Cell) (h₁ : c₁.wf = true)
    (h₂ : c₂.wf = true) (hN : c₁.N = c₂.N)
    (h12 : ∀ l, l < c₁.nlp → ∃ l', l' < c₂.nlp ∧ ∀ i, i < c₁.N → c₁.img l i = c₂.img l' i)
    (h21 : ∀ l, l < c₂.nlp → ∃ l', l' < c₁.nlp ∧ ∀ i, i < c₁.N → c₂.img l i = c₁.img l' i)
    (n : Nat) (hn : n = 2 ∨ n = 3 ∨ n = 4) (cut : Option CutoffIn)
    (hcut₁ : ∀ x, cut = some x → CutOK c₁ x)
    (nBatch₁ nBatch₂ : String → Nat) (p₁ p₂ : Array Int)
    (hp₁ : permDecompr Gen.cutoffOps c₁ n (repFor n) (stagesFor n) cut nBatch₁ = some p₁)
    (hp₂ : permDecompr Gen.cutoffOps c₂ n (repFor n) (stagesFor n) cut nBatch₂ = some p₂)
    (t t' : List Nat) (hlen : t.length = n) (hlt : ∀ e ∈ t, e < 3 * c₁.N)
    (hlen' : t'.length = n) (hlt' : ∀ e ∈ t', e < 3 * c₁.N) :
    SameComp p₁ (elemIdx c₁.N (c₁.atomicDecompr n) t) (elemIdx c₁.N (c₁.atomicDecompr n) t') ↔
    SameComp p₂ (elemIdx c₂.N (c₂.atomicDecompr n) t) (elemIdx c₂.N (c₂.atomicDecompr n) t') := by
  have hcut₂ : ∀ x, cut = some x → CutOK c₂ x :=
    fun x hx => cutOK_of_transSubset hN h21 (hcut₁ x hx)
  rw [sameComp_iff_sameRow c₁ h₁ hn cut (fun x hx => (hcut₁ x hx).hN) nBatch₁ p₁ hp₁ t t',
    sameComp_iff_sameRow c₂ h₂ hn cut (fun x hx => (hcut₂ x hx).hN) nBatch₂ p₂ hp₂ t t']
  exact partition_depends_only_on_the_set_of_translations c₁ c₂ h₁ h₂ hN h12 h21 n hn cut hcut₁ t t'
    hlen hlt hlen' hlt'

/-! ## full re-description: atoms renamed and translation rows permuted -/

/-- **Equivariance under re-description.** Let `c₂` be a well-formed supercell with the same number of atoms and
    the same SET of lattice translations as the relabelled cell `c₁.relabel π πinv` (its rows may be listed in any
    order). Then the partition computed from `c₁` with `cut` and the partition computed from `c₂` with the
    relabelled cutoff input correspond under the relabelling of tensor elements. -/
theorem partition_equivariant_under_redescription (c₁ c₂ : Cell) (h₁ : c₁.wf = true)
    (h₂ : c₂.wf = true) (π πinv : Array Nat) (hπ : isRelabelling c₁.N π πinv = true)
    (hN : c₁.N = c₂.N)
    (h12 : ∀ l, l < (c₁.relabel π πinv).nlp → ∃ l', l' < c₂.nlp ∧
      ∀ i, i < c₁.N → (c₁.relabel π πinv).img l i = c₂.img l' i)
    (h21 : ∀ l, l < c₂.nlp → ∃ l', l' < (c₁.relabel π πinv).nlp ∧
      ∀ i, i < c₁.N → c₂.img l i = (c₁.relabel π πinv).img l' i)
    (n : Nat) (hn : n = 2 ∨ n = 3 ∨ n = 4) (cut : Option CutoffIn)
    (hcut : ∀ x, cut = some x → CutOK c₁ x)
    (t t' : List Nat) (hlen : t.length = n) (hlt : ∀ e ∈ t, e < 3 * c₁.N)
    (hlen' : t'.length = n) (hlt' : ∀ e ∈ t', e < 3 * c₁.N) :
    SameRow c₁ n cut t t' ↔
      SameRow c₂ n (relabelCut π πinv cut) (relabelTuple π t) (relabelTuple π t') := by
  have hr := isRelabelling_spec hπ
  have hv := valid_relabelTuple hr (n := n) ⟨hlen, hlt⟩
  have hv' := valid_relabelTuple hr (n := n) ⟨hlen', hlt'⟩
  exact (partition_equivariant_under_atom_relabelling c₁ h₁ π πinv hπ n hn cut hcut t t' hlen hlt
    hlen' hlt').trans
    (partition_depends_only_on_the_set_of_translations (c₁.relabel π πinv) c₂ (wf_relabel h₁ hr) h₂
      hN h12 h21 n hn (relabelCut π πinv cut) (relabelCut_ok h₁ hr hcut) _ _ hv.1 hv.2 hv'.1 hv'.2)

/-- **Pointer-array version of the re-description theorem** (analogue of Step 4 for `c₂`): run the permutation
    stage on `(c₁, cut)` and on the re-described crystal `(c₂, relabelCut π πinv cut)`, with any batch splits. Two
    tensor elements lie in the same connected component of the first pointer graph IFF the relabelled elements lie
    in the same connected component of the second. -/
theorem components_equivariant_under_redescription (c₁ c₂ : Cell) (h₁ : c₁.wf = true)
    (h₂ : c₂.wf = true) (π πinv : Array Nat) (hπ : isRelabelling c₁.N π πinv = true)
    (hN : c₁.N = c₂.N)
    (h12 : ∀ l, l < (c₁.relabel π πinv).nlp → ∃ l', l' < c₂.nlp ∧
      ∀ i, i < c₁.N → (c₁.relabel π πinv).img l i = c₂.img l' i)
    (h21 : ∀ l, l < c₂.nlp → ∃ l', l' < (c₁.relabel π πinv).nlp ∧
      ∀ i, i < c₁.N → c₂.img l i = (c₁.relabel π πinv).img l' i)
    (n : Nat) (hn : n = 2 ∨ n = 3 ∨ n = 4) (cut : Option CutoffIn)
    (hcut : ∀ x, cut = some x → CutOK c₁ x)
    (nBatch₁ nBatch₂ : String → Nat) (p₁ p₂ : Array Int)
    (hp₁ : permDecompr Gen.cutoffOps c₁ n (repFor n) (stagesFor n) cut nBatch₁ = some p₁)
    (hp₂ : permDecompr Gen.cutoffOps c₂ n (repFor n) (stagesFor n) (relabelCut π πinv cut) nBatch₂
      = some p₂)
    (t t' : List Nat) (hlen : t.length = n) (hlt : ∀ e ∈ t, e < 3 * c₁.N)
    (hlen' : t'.length = n) (hlt' : ∀ e ∈ t', e < 3 * c₁.N) :
    SameComp p₁ (elemIdx c₁.N (c₁.atomicDecompr n) t) (elemIdx c₁.N (c₁.atomicDecompr n) t') ↔
    SameComp p₂ (elemIdx c₂.N (c₂.atomicDecompr n) (relabelTuple π t))
      (elemIdx c₂.N (c₂.atomicDecompr n) (relabelTuple π t')) := by
  have hr := isRelabelling_spec hπ
  have hcut₂ : ∀ x, relabelCut π πinv cut = some x → CutOK c₂ x :=
    fun x hx => cutOK_of_transSubset (c₁ := c₁.relabel π πinv) hN h21 (relabelCut_ok h₁ hr hcut x hx)
  rw [sameComp_iff_sameRow c₁ h₁ hn cut (fun x hx => (hcut x hx).hN) nBatch₁ p₁ hp₁ t t',
    sameComp_iff_sameRow c₂ h₂ hn (relabelCut π πinv cut) (fun x hx => (hcut₂ x hx).hN) nBatch₂ p₂
      hp₂ (relabelTuple π t) (relabelTuple π t')]
  exact partition_equivariant_under_redescription c₁ c₂ h₁ h₂ π πinv hπ hN h12 h21 n hn cut hcut t t'
    hlen hlt hlen' hlt'

/-- coverage under re-description: an element is written from `(c₁, cut)` IFF its relabelling is written from the
    re-described crystal -/
theorem covered_equivariant_under_redescription (c₁ c₂ : Cell) (h₁ : c₁.wf = true)
    (h₂ : c₂.wf = true) (π πinv : Array Nat) (hπ : isRelabelling c₁.N π πinv = true)
    (hN : c₁.N = c₂.N)
    (h21 : ∀ l, l < c₂.nlp → ∃ l', l' < (c₁.relabel π πinv).nlp ∧
      ∀ i, i < c₁.N → c₂.img l i = (c₁.relabel π πinv).img l' i)
    (n : Nat) (hn : n = 2 ∨ n = 3 ∨ n = 4) (cut : Option CutoffIn)
    (hcut : ∀ x, cut = some x → CutOK c₁ x)
    (nBatch₁ nBatch₂ : String → Nat) (p₁ p₂ : Array Int)
    (hp₁ : permDecompr Gen.cutoffOps c₁ n (repFor n) (stagesFor n) cut nBatch₁ = some p₁)
    (hp₂ : permDecompr Gen.cutoffOps c₂ n (repFor n) (stagesFor n) (relabelCut π πinv cut) nBatch₂
      = some p₂)
    (t : List Nat) (hlen : t.length = n) (hlt : ∀ e ∈ t, e < 3 * c₁.N) :
    covered p₁ (elemIdx c₁.N (c₁.atomicDecompr n) t) ↔
    covered p₂ (elemIdx c₂.N (c₂.atomicDecompr n) (relabelTuple π t)) := by
  have hr := isRelabelling_spec hπ
  have hok' := relabelCut_ok h₁ hr hcut
  have hcut₂ : ∀ x, relabelCut π πinv cut = some x → CutOK c₂ x :=
    fun x hx => cutOK_of_transSubset (c₁ := c₁.relabel π πinv) hN h21 (hok' x hx)
  have hv := valid_relabelTuple hr (n := n) ⟨hlen, hlt⟩
  rw [covered_iff_mem_row h₁ hn cut (fun x hx => (hcut x hx).hN) hp₁,
    covered_iff_mem_row h₂ hn (relabelCut π πinv cut) (fun x hx => (hcut₂ x hx).hN) hp₂,
    coverage_equivariant_under_atom_relabelling c₁ h₁ π πinv hπ n hn cut hcut t hlen hlt]
  exact coverage_depends_only_on_the_set_of_translations (c₁.relabel π πinv) c₂ (wf_relabel h₁ hr) h₂
    hN h21 n hn (relabelCut π πinv cut) hok' _ hv.1 hv.2

/-! ## non-vacuity -/

/-- `Cell.exampleCell` (N = 8, nlp = 4) with its translation rows 1, 2, 3 listed in another order -/
def exampleCellReordered : Cell :=
  { N := 8, tp := #[#[0,1,2,3,4,5,6,7], #[3,2,1,0,7,6,5,4], #[2,3,0,1,6,7,4,5], #[1,0,3,2,5,4,7,6]] }

theorem exampleCellReordered_wf : exampleCellReordered.wf = true := by decide +kernel

/-- the hypotheses of `partition_depends_only_on_the_set_of_translations` hold for a concrete pair of cells with a
    genuinely different row order (and a different class numbering) -/
example : Cell.exampleCell.wf = true ∧ exampleCellReordered.wf = true ∧
    Cell.exampleCell.N = exampleCellReordered.N ∧ Cell.exampleCell.tp ≠ exampleCellReordered.tp ∧
    (∀ l, l < Cell.exampleCell.nlp → ∃ l', l' < exampleCellReordered.nlp ∧
      ∀ i, i < Cell.exampleCell.N → Cell.exampleCell.img l i = exampleCellReordered.img l' i) ∧
    (∀ l, l < exampleCellReordered.nlp → ∃ l', l' < Cell.exampleCell.nlp ∧
      ∀ i, i < Cell.exampleCell.N → exampleCellReordered.img l i = Cell.exampleCell.img l' i) ∧
    (∀ x, some covCut = some x → CutOK Cell.exampleCell x) :=
  ⟨Cell.exampleCell_wf, exampleCellReordered_wf, rfl, by decide +kernel,
    (by decide +kernel : ∀ l, l < 4 → ∃ l', l' < 4 ∧
      ∀ i, i < 8 → Cell.exampleCell.img l i = exampleCellReordered.img l' i),
    (by decide +kernel : ∀ l, l < 4 → ∃ l', l' < 4 ∧
      ∀ i, i < 8 → exampleCellReordered.img l i = Cell.exampleCell.img l' i),
    fun _ h => (by cases h; exact covCut_ok)⟩

/-- a re-description of `cell4` (N = 4, nlp = 2): atoms renamed by `pi4`; with two lattice points the only
    admissible row order is the given one, so `c₂ = cell4.relabel pi4 pi4inv` written out literally -/
def cell4Redescribed : Cell := { N := 4, tp := #[#[0, 1, 2, 3], #[2, 3, 0, 1]] }

example : cell4Redescribed.wf = true ∧ cell4.N = cell4Redescribed.N ∧
    (∀ l, l < (cell4.relabel pi4 pi4inv).nlp → ∃ l', l' < cell4Redescribed.nlp ∧
      ∀ i, i < cell4.N → (cell4.relabel pi4 pi4inv).img l i = cell4Redescribed.img l' i) ∧
    (∀ l, l < cell4Redescribed.nlp → ∃ l', l' < (cell4.relabel pi4 pi4inv).nlp ∧
      ∀ i, i < cell4.N → cell4Redescribed.img l i = (cell4.relabel pi4 pi4inv).img l' i) := by
  refine ⟨by decide +kernel, rfl, ?_, ?_⟩
  · rw [nlp_relabel]
    exact (by decide +kernel : ∀ l, l < 2 → ∃ l', l' < 2 ∧
      ∀ i, i < 4 → (cell4.relabel pi4 pi4inv).img l i = cell4Redescribed.img l' i)
  · rw [nlp_relabel]
    exact (by decide +kernel : ∀ l, l < 2 → ∃ l', l' < 2 ∧
      ∀ i, i < 4 → cell4Redescribed.img l i = (cell4.relabel pi4 pi4inv).img l' i)

end Relabel
end Symfc
