/-
  Lemmas/Cell3.lean — mixed-radix `flat`, lexicographic `tuples`, uniform `flatMap` indexing,
  and the "consistent writes" lemma for folds of `setIfInBounds`.
-/
import SymfcModel.Model.Basic
namespace Symfc

/-! ### `flat` -/

theorem flat_foldl_acc (N : Nat) : ∀ (ds : List Nat) (acc : Nat),
    ds.foldl (fun acc d => acc * N + d) acc = acc * N ^ ds.length + flat N ds := by
  intro ds
  induction ds with
  | nil => intro acc; simp [flat]
  | cons d t ih =>
    intro acc
    simp only [List.foldl_cons, List.length_cons, flat]
    rw [ih (acc * N + d), ih (0 * N + d)]
    simp only [flat, Nat.pow_succ, Nat.add_mul, Nat.zero_mul, Nat.zero_add]
    rw [Nat.mul_assoc, Nat.mul_comm N (N ^ t.length), Nat.add_assoc]

@[simp] theorem flat_nil (N : Nat) : flat N [] = 0 := rfl

theorem flat_cons (N d : Nat) (t : List Nat) : flat N (d :: t) = d * N ^ t.length + flat N t := by
  have := flat_foldl_acc N t (0 * N + d)
  simp only [Nat.zero_mul, Nat.zero_add] at this
  simpa [flat] using this

theorem flat_lt (N : Nat) : ∀ (t : List Nat), (∀ x, x ∈ t → x < N) → flat N t < N ^ t.length := by
  intro t
  induction t with
  | nil => intro _; simp
  | cons d t ih =>
    intro h
    have hd : d < N := h d (by simp)
    have ht := ih (fun x hx => h x (by simp [hx]))
    rw [flat_cons, List.length_cons, Nat.pow_succ]
    have : (d + 1) * N ^ t.length ≤ N * N ^ t.length := Nat.mul_le_mul_right _ hd
    rw [Nat.succ_mul] at this
    rw [Nat.mul_comm (N ^ t.length) N]
    omega

/-- uniqueness of quotient and remainder -/
theorem mul_add_inj {P a b r s : Nat} (hr : r < P) (hs : s < P) (e : a * P + r = b * P + s) :
    a = b ∧ r = s := by
  have hP : 0 < P := by omega
  have h1 : (a * P + r) / P = a := by
    rw [Nat.mul_comm, Nat.mul_add_div hP, Nat.div_eq_of_lt hr, Nat.add_zero]
  have h2 : (b * P + s) / P = b := by
    rw [Nat.mul_comm, Nat.mul_add_div hP, Nat.div_eq_of_lt hs, Nat.add_zero]
  have hab : a = b := by rw [← h1, ← h2, e]
  subst hab
  exact ⟨rfl, by omega⟩

theorem flat_inj (N : Nat) : ∀ (s t : List Nat), s.length = t.length →
    (∀ x, x ∈ s → x < N) → (∀ x, x ∈ t → x < N) → flat N s = flat N t → s = t := by
  intro s
  induction s with
  | nil => intro t hl; cases t <;> simp_all
  | cons a s ih =>
    intro t hl hs ht e
    cases t with
    | nil => simp at hl
    | cons b t =>
      simp only [List.length_cons, Nat.add_right_cancel_iff] at hl
      rw [flat_cons, flat_cons, hl] at e
      have hs' : ∀ x, x ∈ s → x < N := fun x hx => hs x (by simp [hx])
      have ht' : ∀ x, x ∈ t → x < N := fun x hx => ht x (by simp [hx])
      have h1 := flat_lt N s hs'
      have h2 := flat_lt N t ht'
      rw [hl] at h1
      obtain ⟨hab, hr⟩ := mul_add_inj h1 h2 e
      rw [hab, ih t hl hs' ht' hr]

theorem flat_surj (N : Nat) : ∀ (k x : Nat), x < N ^ k →
    ∃ t : List Nat, t.length = k ∧ (∀ y, y ∈ t → y < N) ∧ flat N t = x := by
  intro k
  induction k with
  | zero => intro x hx; exact ⟨[], rfl, by simp, by simp at hx; simp [hx]⟩
  | succ k ih =>
    intro x hx
    have hP : 0 < N ^ k := by
      rcases Nat.eq_zero_or_pos (N ^ k) with h | h
      · rw [Nat.pow_succ, h] at hx; omega
      · exact h
    obtain ⟨t, hl, hlt, e⟩ := ih (x % N ^ k) (Nat.mod_lt _ hP)
    refine ⟨(x / N ^ k) :: t, by simp [hl], ?_, ?_⟩
    · intro y hy
      simp only [List.mem_cons] at hy
      rcases hy with rfl | hy
      · rw [Nat.pow_succ] at hx
        exact Nat.div_lt_of_lt_mul hx
      · exact hlt y hy
    · rw [flat_cons, hl, e, Nat.mul_comm]
      exact Nat.div_add_mod x (N ^ k)

/-! ### uniform `flatMap` indexing -/

theorem getElem?_flatMap_uniform {α β} (f : α → List β) (P : Nat) :
    ∀ (xs : List α), (∀ x, x ∈ xs → (f x).length = P) →
    ∀ (m r : Nat) (hm : m < xs.length), r < P → (xs.flatMap f)[m * P + r]? = (f xs[m])[r]? := by
  intro xs
  induction xs with
  | nil => intro _ m r hm; simp at hm
  | cons x xs ih =>
    intro hlen m r hm hr
    rw [List.flatMap_cons]
    have hx : (f x).length = P := hlen x (by simp)
    cases m with
    | zero =>
      simp only [Nat.zero_mul, Nat.zero_add, List.getElem_cons_zero]
      rw [List.getElem?_append_left (by omega)]
    | succ m =>
      rw [List.getElem?_append_right (by rw [hx, Nat.succ_mul]; omega)]
      have : (m + 1) * P + r - (f x).length = m * P + r := by rw [hx, Nat.succ_mul]; omega
      rw [this]
      simp only [List.getElem_cons_succ]
      exact ih (fun y hy => hlen y (by simp [hy])) m r (by simpa using hm) hr

theorem length_flatMap_uniform {α β} (f : α → List β) (P : Nat) :
    ∀ (xs : List α), (∀ x, x ∈ xs → (f x).length = P) → (xs.flatMap f).length = xs.length * P := by
  intro xs
  induction xs with
  | nil => intro _; simp
  | cons x xs ih =>
    intro hlen
    rw [List.flatMap_cons, List.length_append, hlen x (by simp),
      ih (fun y hy => hlen y (by simp [hy])), List.length_cons, Nat.succ_mul]
    omega

/-! ### `tuples` -/

theorem length_tuples (N : Nat) : ∀ k, (tuples N k).length = N ^ k := by
  intro k
  induction k with
  | zero => simp [tuples]
  | succ k ih =>
    rw [tuples, length_flatMap_uniform _ (N ^ k) _ (fun x _ => by simp [ih]), List.length_range,
      Nat.pow_succ, Nat.mul_comm]

theorem tuples_get (N : Nat) : ∀ (k : Nat) (t : List Nat), t.length = k → (∀ x, x ∈ t → x < N) →
    (tuples N k)[flat N t]? = some t := by
  intro k
  induction k with
  | zero =>
    intro t hl _
    have : t = [] := List.eq_nil_of_length_eq_zero hl
    subst this; simp [tuples]
  | succ k ih =>
    intro t hl hlt
    cases t with
    | nil => simp at hl
    | cons d t =>
      simp only [List.length_cons, Nat.add_right_cancel_iff] at hl
      have hd : d < N := hlt d (by simp)
      have ht : ∀ x, x ∈ t → x < N := fun x hx => hlt x (by simp [hx])
      have hr := flat_lt N t ht
      rw [hl] at hr
      rw [flat_cons, hl, tuples,
        getElem?_flatMap_uniform _ (N ^ k) _ (fun x _ => by simp [length_tuples]) d _
          (by simpa using hd) hr]
      simp only [List.getElem_range, List.getElem?_map, ih t hl ht, Option.map_some]

theorem tuples_get_inv (N : Nat) : ∀ (k r : Nat) (t : List Nat), (tuples N k)[r]? = some t →
    t.length = k ∧ (∀ x, x ∈ t → x < N) ∧ flat N t = r := by
  intro k
  induction k with
  | zero =>
    intro r t h
    simp only [tuples] at h
    cases r with
    | zero => simp at h; subst h; simp
    | succ r => simp at h
  | succ k ih =>
    intro r t h
    have hr : r < N ^ (k + 1) := by
      have := (List.getElem?_eq_some_iff.mp h).1
      rwa [length_tuples] at this
    have hP : 0 < N ^ k := by
      rcases Nat.eq_zero_or_pos (N ^ k) with h | h
      · rw [Nat.pow_succ, h] at hr; omega
      · exact h
    have hd : r / N ^ k < N := by
      rw [Nat.pow_succ] at hr
      exact Nat.div_lt_of_lt_mul hr
    have hr' : r % N ^ k < N ^ k := Nat.mod_lt _ hP
    have hsplit : r = (r / N ^ k) * N ^ k + r % N ^ k := by
      rw [Nat.mul_comm]; exact (Nat.div_add_mod r (N ^ k)).symm
    rw [hsplit, tuples,
      getElem?_flatMap_uniform _ (N ^ k) _ (fun x _ => by simp [length_tuples]) (r / N ^ k) _
        (by simpa using hd) hr'] at h
    simp only [List.getElem_range, List.getElem?_map, Option.map_eq_some_iff] at h
    obtain ⟨t', ht', e⟩ := h
    obtain ⟨h1, h2, h3⟩ := ih _ _ ht'
    subst e
    refine ⟨by simp [h1], ?_, ?_⟩
    · intro x hx
      simp only [List.mem_cons] at hx
      rcases hx with rfl | hx
      · exact hd
      · exact h2 x hx
    · rw [flat_cons, h1, h3]; exact hsplit.symm

/-! ### folds of `setIfInBounds` with consistent writes -/

/-- If all writes to index `i` in the write list `W` carry the value `v`, and either such a write
    exists or the array already holds `v` at `i`, then the final array holds `v` at `i`. -/
theorem foldl_set_consistent (W : List (Nat × Nat)) (i v : Nat) :
    ∀ (arr : Array Nat), i < arr.size → (∀ p, p ∈ W → p.1 = i → p.2 = v) →
    ((i, v) ∈ W ∨ arr.getD i 0 = v) →
    (W.foldl (fun out p => out.setIfInBounds p.1 p.2) arr).getD i 0 = v := by
  induction W with
  | nil =>
    intro arr _ _ h
    rcases h with h | h
    · simp at h
    · simpa using h
  | cons p W ih =>
    intro arr hi hcons h
    rw [List.foldl_cons]
    have hcons' : ∀ q, q ∈ W → q.1 = i → q.2 = v := fun q hq => hcons q (by simp [hq])
    apply ih _ (by simpa using hi) hcons'
    by_cases hmem : (i, v) ∈ W
    · exact Or.inl hmem
    · right
      by_cases hp : p.1 = i
      · have hv := hcons p (by simp) hp
        subst hp; subst hv
        simp [hi]
      · have hold : arr.getD i 0 = v := by
          rcases h with h | h
          · simp only [List.mem_cons] at h
            rcases h with h | h
            · exact absurd (by rw [← h]) hp
            · exact absurd h hmem
          · exact h
        rw [← hold]
        rw [Array.getD_eq_getD_getElem?, Array.getD_eq_getD_getElem?,
          Array.getElem?_setIfInBounds_ne hp]

theorem size_foldl_set (W : List (Nat × Nat)) : ∀ (arr : Array Nat),
    (W.foldl (fun out p => out.setIfInBounds p.1 p.2) arr).size = arr.size := by
  induction W with
  | nil => intro arr; rfl
  | cons p W ih => intro arr; rw [List.foldl_cons, ih]; simp

end Symfc
