/-
  Lemmas/Chunk.lean — `chunkedSum` (`cosets[i % n_cosets] += mat_i; sum(cosets)`) equals the plain
  sum for a commutative monoid, for every `n_cosets ≥ 1`.
-/
import SymfcModel.Model.Coset
namespace Symfc

section
variable {α : Type _} (add : α → α → α) (zero : α)
  (hassoc : ∀ a b c, add (add a b) c = add a (add b c))
  (hcomm : ∀ a b, add a b = add b a)
  (hzero : ∀ a, add zero a = a)
include hassoc hcomm hzero

theorem foldl_add_start (xs : List α) (s : α) :
    xs.foldl add s = add s (xs.foldl add zero) := by
  induction xs generalizing s with
  | nil => simp only [List.foldl_nil]; rw [hcomm, hzero]
  | cons x xs ih =>
    simp only [List.foldl_cons]
    rw [ih (add s x), ih (add zero x), hzero, hassoc]

theorem foldl_add_cons (x : α) (xs : List α) :
    (x :: xs).foldl add zero = add x (xs.foldl add zero) := by
  simp only [List.foldl_cons]
  rw [foldl_add_start add zero hassoc hcomm hzero, hzero]

theorem foldl_add_modify (l : List α) (k : Nat) (m : α) (hk : k < l.length) :
    (l.modify k (fun s => add s m)).foldl add zero = add (l.foldl add zero) m := by
  induction l generalizing k with
  | nil => simp at hk
  | cons x xs ih =>
    cases k with
    | zero =>
      rw [List.modify_zero_cons, foldl_add_cons add zero hassoc hcomm hzero,
        foldl_add_cons add zero hassoc hcomm hzero, hassoc, hassoc, hcomm m]
    | succ k =>
      have hk' : k < xs.length := by simpa using hk
      rw [List.modify_succ_cons, foldl_add_cons add zero hassoc hcomm hzero,
        foldl_add_cons add zero hassoc hcomm hzero, ih k hk', hassoc]

theorem foldl_add_replicate_zero (n : Nat) : (List.replicate n zero).foldl add zero = zero := by
  induction n with
  | zero => rfl
  | succ n ih => rw [List.replicate_succ, foldl_add_cons add zero hassoc hcomm hzero, ih, hzero]

theorem chunked_loop (nCosets : Nat) (hn : 1 ≤ nCosets) (mats : List α) :
    ∀ (acc : List α) (s : Nat), acc.length = nCosets →
      ((mats.zipIdx s).foldl (fun acc (p : α × Nat) =>
          acc.modify (p.2 % nCosets) (fun t => add t p.1)) acc).foldl add zero
        = mats.foldl add (acc.foldl add zero) := by
  induction mats with
  | nil => intro acc s _; rfl
  | cons m ms ih =>
    intro acc s hlen
    rw [List.zipIdx_cons, List.foldl_cons, List.foldl_cons]
    have hk : s % nCosets < acc.length := by rw [hlen]; exact Nat.mod_lt _ (by omega)
    rw [ih _ (s + 1) (by rw [List.length_modify]; exact hlen),
      foldl_add_modify add zero hassoc hcomm hzero acc _ m hk]

/-- `cosets[i % n_cosets] += mat_i ; sum(cosets)` is the plain sum, for every `n_cosets ≥ 1`. -/
theorem chunkedSum_eq_foldl (nCosets : Nat) (hn : 1 ≤ nCosets) (mats : List α) :
    chunkedSum add zero nCosets mats = mats.foldl add zero := by
  have h := chunked_loop add zero hassoc hcomm hzero nCosets hn mats
    (List.replicate nCosets zero) 0 (by simp)
  rw [foldl_add_replicate_zero add zero hassoc hcomm hzero] at h
  exact h

/-- in particular the result does not depend on the number of cosets -/
theorem chunkedSum_indep (n₁ n₂ : Nat) (h₁ : 1 ≤ n₁) (h₂ : 1 ≤ n₂) (mats : List α) :
    chunkedSum add zero n₁ mats = chunkedSum add zero n₂ mats := by
  rw [chunkedSum_eq_foldl add zero hassoc hcomm hzero n₁ h₁,
    chunkedSum_eq_foldl add zero hassoc hcomm hzero n₂ h₂]

end

/-- the model's value at `nCosets = 0` (Python would raise `ZeroDivisionError`) -/
theorem chunkedSum_zero_cosets {α} (add : α → α → α) (zero : α) (mats : List α) :
    chunkedSum add zero 0 mats = zero := by
  unfold chunkedSum
  simp only [List.replicate_zero]
  have : ∀ (l : List (α × Nat)), l.foldl (fun acc (x : α × Nat) =>
      match x with | (m, i) => List.modify acc (i % 0) (fun s => add s m)) ([] : List α) = [] := by
    intro l; induction l with
    | nil => rfl
    | cons x xs ih => obtain ⟨m, i⟩ := x; simpa using ih
  rw [this]; rfl


end Symfc
