/-
  Lemmas/Batch.lean — `batchSlice n b` (= `get_batch_slice(n_data, batch_size)`) tiles `[0, n)`
  by consecutive non-empty slices of length ≤ b; sums over batches are batch independent.
-/
import SymfcModel.Model.Basic
namespace Symfc

/-- closed form of the slices -/
def batchClosed (n b : Nat) : List (Nat × Nat) :=
  (List.range ((n + b - 1) / b)).map (fun i => (i * b, min ((i + 1) * b) n))

/-! ### arithmetic of `m = (n + b - 1) / b` -/

theorem ceil_mul_ge {n b : Nat} (hb : 0 < b) : n ≤ (n + b - 1) / b * b := by
  have h := Nat.lt_div_mul_add (a := n + b - 1) hb
  omega

theorem ceil_pred_mul_lt {n b i : Nat} (hi : i < (n + b - 1) / b) : i * b < n := by
  have h1 : (i + 1) * b ≤ (n + b - 1) / b * b := Nat.mul_le_mul_right b hi
  have h2 := Nat.div_mul_le_self (n + b - 1) b
  have hb : 0 < b := by
    rcases Nat.eq_zero_or_pos b with h | h
    · subst h; simp at hi
    · exact h
  rw [Nat.add_mul] at h1
  omega

theorem ceil_le_of_mul_lt {n b i : Nat} (hb : 0 < b) (hi : i * b < n) : i < (n + b - 1) / b := by
  rw [Nat.lt_iff_add_one_le, Nat.le_div_iff_mul_le hb, Nat.add_mul]
  omega

/-! ### (a) definedness -/

theorem batchSlice_zero (n : Nat) : batchSlice n 0 = none := by
  simp [batchSlice]

theorem batchSlice_eq_some {n b : Nat} (hb : 0 < b) :
    batchSlice n b = some ((batchBegins n b).zip ((batchBegins n b).tail ++ [n])) := by
  have : b ≠ 0 := by omega
  simp [batchSlice, this]

theorem batchSlice_isSome {n b : Nat} (hb : 0 < b) : ∃ sl, batchSlice n b = some sl :=
  ⟨_, batchSlice_eq_some hb⟩

theorem batchSlice_isSome_iff (n b : Nat) : (batchSlice n b).isSome ↔ 0 < b := by
  rcases Nat.eq_zero_or_pos b with h | h
  · subst h; simp [batchSlice_zero]
  · simp [batchSlice_eq_some h, h]

/-! ### (e) closed form -/

theorem batchSlice_closed {n b : Nat} (hb : 0 < b) : batchSlice n b = some (batchClosed n b) := by
  rw [batchSlice_eq_some hb]
  congr 1
  unfold batchBegins batchClosed
  generalize hm : (n + b - 1) / b = m
  apply List.ext_getElem
  · simp [List.length_zip]; omega
  · intro i h1 h2
    have him : i < m := by simpa using h2
    rw [List.getElem_zip]
    simp only [List.getElem_map, List.getElem_range]
    congr 1
    rw [List.getElem_append]
    by_cases h : i + 1 < m
    · have hlt : i < ((List.range m).map (· * b)).tail.length := by simp; omega
      rw [dif_pos hlt, List.getElem_tail]
      simp only [List.getElem_map, List.getElem_range]
      have := ceil_pred_mul_lt (n := n) (b := b) (i := i + 1) (by omega)
      omega
    · have hnlt : ¬ i < ((List.range m).map (· * b)).tail.length := by simp; omega
      rw [dif_neg hnlt]
      simp only [List.getElem_singleton]
      have hi : i + 1 = m := by omega
      have := ceil_mul_ge (n := n) (b := b) hb
      rw [hm, ← hi] at this
      omega

theorem batchSlice_eq_closed {n b : Nat} {sl : List (Nat × Nat)} (hb : 0 < b)
    (h : batchSlice n b = some sl) :
    sl = (List.range ((n + b - 1) / b)).map (fun i => (i * b, min ((i + 1) * b) n)) := by
  rw [batchSlice_closed hb] at h
  exact (Option.some.inj h).symm

/-! ### (d) number of slices -/

theorem batchSlice_length {n b : Nat} {sl : List (Nat × Nat)} (hb : 0 < b)
    (h : batchSlice n b = some sl) : sl.length = (n + b - 1) / b := by
  rw [batchSlice_eq_closed hb h]; simp

theorem batchSlice_single {n b : Nat} {sl : List (Nat × Nat)} (hn : 0 < n) (hbn : n ≤ b)
    (h : batchSlice n b = some sl) : sl = [(0, n)] := by
  have hb : 0 < b := by omega
  rw [batchSlice_eq_closed hb h]
  have hm : (n + b - 1) / b = 1 := by
    apply Nat.div_eq_of_lt_le <;> omega
  rw [hm]
  simp [List.range_succ]
  omega

theorem batchSlice_n_zero {b : Nat} {sl : List (Nat × Nat)} (hb : 0 < b)
    (h : batchSlice 0 b = some sl) : sl = [] := by
  rw [batchSlice_eq_closed hb h]
  have hm : (0 + b - 1) / b = 0 := by
    apply Nat.div_eq_of_lt; omega
  rw [hm]; rfl

/-! ### (c) shape of every slice -/

theorem batchSlice_mem {n b : Nat} {sl : List (Nat × Nat)} (hb : 0 < b)
    (h : batchSlice n b = some sl) :
    ∀ p ∈ sl, p.1 < p.2 ∧ p.2 - p.1 ≤ b ∧ p.2 ≤ n := by
  rw [batchSlice_eq_closed hb h]
  intro p hp
  simp only [List.mem_map, List.mem_range] at hp
  obtain ⟨i, hi, rfl⟩ := hp
  have h1 := ceil_pred_mul_lt hi
  simp only [Nat.add_mul, Nat.one_mul]
  omega

/-- every slice begins at a multiple of `b` -/
theorem batchSlice_mem_begin {n b : Nat} {sl : List (Nat × Nat)} (hb : 0 < b)
    (h : batchSlice n b = some sl) : ∀ p ∈ sl, b ∣ p.1 := by
  rw [batchSlice_eq_closed hb h]
  intro p hp
  simp only [List.mem_map, List.mem_range] at hp
  obtain ⟨i, _, rfl⟩ := hp
  exact Nat.dvd_mul_left b i

/-! ### (b) partition -/

theorem closed_prefix_flatMap (n b : Nat) :
    ∀ k, k ≤ (n + b - 1) / b →
      ((List.range k).map (fun i => (i * b, min ((i + 1) * b) n))).flatMap
          (fun p => List.range' p.1 (p.2 - p.1)) = List.range (min (k * b) n) := by
  intro k
  induction k with
  | zero => intro _; simp
  | succ k ih =>
    intro hk
    have hlt := ceil_pred_mul_lt (n := n) (b := b) (i := k) (by omega)
    rw [List.range_succ, List.map_append, List.flatMap_append, ih (by omega)]
    simp only [List.map_cons, List.map_nil, List.flatMap_cons, List.flatMap_nil, List.append_nil]
    rw [List.range_eq_range', List.range_eq_range']
    have e1 : min (k * b) n = k * b := by omega
    rw [e1]
    have := List.range'_append (s := 0) (m := k * b) (n := min ((k + 1) * b) n - k * b) (step := 1)
    simp only [Nat.zero_add, Nat.one_mul] at this
    rw [this]
    congr 1
    simp only [Nat.add_mul, Nat.one_mul]
    omega

theorem batchSlice_partition {n b : Nat} {sl : List (Nat × Nat)} (hb : 0 < b)
    (h : batchSlice n b = some sl) :
    sl.flatMap (fun p => List.range' p.1 (p.2 - p.1)) = List.range n := by
  rw [batchSlice_eq_closed hb h, closed_prefix_flatMap n b _ (Nat.le_refl _)]
  have := ceil_mul_ge (n := n) (b := b) hb
  congr 1
  omega

/-! ### (f) batch independence of sums -/

theorem sum_map_flatMap_int {α β} (l : List α) (g : α → List β) (f : β → Int) :
    ((l.flatMap g).map f).sum = (l.map (fun a => ((g a).map f).sum)).sum := by
  induction l with
  | nil => simp
  | cons a l ih => simp [List.flatMap_cons, List.sum_append, ih]

theorem batchSlice_sum {n b : Nat} {sl : List (Nat × Nat)} (hb : 0 < b)
    (h : batchSlice n b = some sl) (f : Nat → Int) :
    (sl.map (fun p => ((List.range' p.1 (p.2 - p.1)).map f).sum)).sum
      = ((List.range n).map f).sum := by
  rw [← batchSlice_partition hb h, sum_map_flatMap_int]

/-- the same for any commutative-monoid-like fold: `foldl add zero` over the concatenated batches
    equals folding batch results (associativity + left identity suffice). -/
theorem foldl_flatMap_assoc {α β} (add : β → β → β) (zero : β)
    (hassoc : ∀ a b c, add (add a b) c = add a (add b c)) (hzero : ∀ a, add zero a = a)
    (hzero' : ∀ a, add a zero = a)
    (l : List α) (g : α → List β) :
    (l.flatMap g).foldl add zero = (l.map (fun a => (g a).foldl add zero)).foldl add zero := by
  have key : ∀ (xs : List β) (s : β), xs.foldl add s = add s (xs.foldl add zero) := by
    intro xs
    induction xs with
    | nil => intro s; simp [hzero']
    | cons x xs ih => intro s; simp only [List.foldl_cons]; rw [ih (add s x), ih (add zero x), hzero, hassoc]
  have gen : ∀ s, (l.flatMap g).foldl add s
      = (l.map (fun a => (g a).foldl add zero)).foldl add s := by
    induction l with
    | nil => intro s; simp
    | cons a l ih =>
      intro s
      simp only [List.flatMap_cons, List.foldl_append, List.map_cons, List.foldl_cons]
      rw [ih, key (g a) s]
  exact gen zero

theorem batchSlice_foldl {β} {n b : Nat} {sl : List (Nat × Nat)} (hb : 0 < b)
    (h : batchSlice n b = some sl) (add : β → β → β) (zero : β)
    (hassoc : ∀ a b c, add (add a b) c = add a (add b c)) (hzero : ∀ a, add zero a = a)
    (hzero' : ∀ a, add a zero = a) (f : Nat → β) :
    (sl.map (fun p => ((List.range' p.1 (p.2 - p.1)).map f).foldl add zero)).foldl add zero
      = ((List.range n).map f).foldl add zero := by
  rw [← batchSlice_partition hb h, List.map_flatMap,
    foldl_flatMap_assoc add zero hassoc hzero hzero']

/-! ### (g) the batch sizes used by the code are positive -/

theorem batch_div_pos {N nb : Nat} (h1 : 1 ≤ nb) (h2 : nb ≤ N) : 1 ≤ N / nb :=
  (Nat.le_div_iff_mul_le (by omega)).2 (by omega)

theorem batch_div_min_pos {N k : Nat} (hN : 1 ≤ N) (hk : 1 ≤ k) : 1 ≤ N / min N k :=
  batch_div_pos (by omega) (Nat.min_le_left N k)

theorem batch_pow_dvd {N nb p : Nat} (hp : 1 ≤ p) : N ∣ N ^ p * (N / nb) := by
  obtain ⟨q, rfl⟩ : ∃ q, p = q + 1 := ⟨p - 1, by omega⟩
  rw [Nat.pow_succ, Nat.mul_comm (N ^ q) N, Nat.mul_assoc]
  exact Nat.dvd_mul_right _ _

theorem batch_pow_pos {N nb p : Nat} (h1 : 1 ≤ nb) (h2 : nb ≤ N) : 0 < N ^ p * (N / nb) :=
  Nat.mul_pos (Nat.pow_pos (by omega)) (batch_div_pos h1 h2)


end Symfc
