/-
  Lemmas/ApiMulti.lean — several `Symfc` objects sharing basis-set dictionaries (`Model/ApiMulti.lean`):
  simulation by the single-object model, and what sharing does / does not change.
-/
import SymfcModel.Lemmas.Api
import SymfcModel.Model.ApiMulti
namespace Symfc.ApiMulti
open Symfc

/-! ### single-object facts used below -/

theorem computeStep_fst (cfg : ApiCfg) (v : ApiState) (m : Option Nat) (o : Option (List Nat)) :
    (computeStep cfg v m o).1 = { v with basis := (computeStep cfg v m o).1.basis } := by
  unfold computeStep
  split <;> rfl

theorem solveStep_fst (cfg : ApiCfg) (v : ApiState) (m : Option Nat) (o : Option (List Nat)) (c : Bool) :
    (solveStep cfg v m o c).1 = { v with fc := (solveStep cfg v m o c).1.fc } := by
  rcases solveStep_cases cfg v m o c with h | ⟨_, _, _, _, _, _, _, _, _, _, _, _, h⟩
  · rw [h]
  · rw [h]

theorem solveStep_basis (cfg : ApiCfg) (v : ApiState) (m : Option Nat) (o : Option (List Nat)) (c : Bool) :
    (solveStep cfg v m o c).1.basis = v.basis := by
  rw [solveStep_fst]

/-- `run` without pattern matching on the pair -/
theorem step_run (cfg : ApiCfg) (v : ApiState) (m : Option Nat) (o : Option (List Nat)) (c : Bool) :
    step cfg v (.run m o c) =
      if cfg.runGuarded && (v.disp.isNone || v.forces.isNone) then (v, none)
      else match (computeStep cfg v m o).2 with
        | some e => ((computeStep cfg v m o).1, some e)
        | none => solveStep cfg (computeStep cfg v m o).1 m o c := by
  show (if cfg.runGuarded && (v.disp.isNone || v.forces.isNone) then (v, none)
      else match computeStep cfg v m o with
        | (s', some e) => (s', some e)
        | (s', none) => solveStep cfg s' m o c) = _
  split
  · rfl
  · cases computeStep cfg v m o with
    | mk s' e => cases e <;> rfl

/-- a single-object step (other than the `basis_set` setter) never touches supercell, operations, cutoffs -/
theorem step_keeps_configuration (cfg : ApiCfg) (v : ApiState) (aop : ApiOp) (hset : ∀ d, aop ≠ .setBasis d) :
    (step cfg v aop).1.natom = v.natom ∧ (step cfg v aop).1.cfgId = v.cfgId ∧
    (step cfg v aop).1.cutoff = v.cutoff := by
  cases aop with
  | setDisp a => exact ⟨rfl, rfl, rfl⟩
  | setForces a => exact ⟨rfl, rfl, rfl⟩
  | setBasis d => exact absurd rfl (hset d)
  | computeBasis m o =>
    show (computeStep cfg v m o).1.natom = _ ∧ (computeStep cfg v m o).1.cfgId = _ ∧ (computeStep cfg v m o).1.cutoff = _
    rw [computeStep_fst]; exact ⟨rfl, rfl, rfl⟩
  | solve m o c =>
    show (solveStep cfg v m o c).1.natom = _ ∧ (solveStep cfg v m o c).1.cfgId = _ ∧ (solveStep cfg v m o c).1.cutoff = _
    rw [solveStep_fst]; exact ⟨rfl, rfl, rfl⟩
  | run m o c =>
    rw [step_run]
    split
    · exact ⟨rfl, rfl, rfl⟩
    · split
      · show (computeStep cfg v m o).1.natom = _ ∧ (computeStep cfg v m o).1.cfgId = _ ∧ (computeStep cfg v m o).1.cutoff = _
        rw [computeStep_fst]; exact ⟨rfl, rfl, rfl⟩
      · rw [solveStep_fst, computeStep_fst]; exact ⟨rfl, rfl, rfl⟩

/-! ### views -/

theorem view_eq_some {s : MState} {i : Nat} {v : ApiState} :
    view s i = some v ↔ ∃ o, s.objs[i]? = some o ∧ v = viewOf s o := by
  unfold view
  cases h : s.objs[i]? with
  | none => simp
  | some o => simp [eq_comm]

/-- the heap cell an object refers to -/
def refOf (s : MState) (i : Nat) : Option Nat := (s.objs[i]?).map (·.dictRef)

theorem heapGet_set (s : MState) (objs : List MObj) (r r' : Nat) (d : List (Nat × Basis)) :
    heapGet { objs := objs, dicts := s.dicts.set r d } r' =
      if r' = r ∧ r < s.dicts.length then d else heapGet s r' := by
  unfold heapGet
  simp only [List.getElem?_set]
  by_cases h : r = r'
  · subst h
    by_cases h2 : r < s.dicts.length
    · simp [h2]
    · simp [h2]
  · have h' : ¬ r' = r := fun e => h e.symm
    simp [h, h']

theorem mem_of_get {s : MState} {i : Nat} {o : MObj} (h : s.objs[i]? = some o) : o ∈ s.objs :=
  List.mem_of_getElem? h

theorem lt_of_get {s : MState} {i : Nat} {o : MObj} (h : s.objs[i]? = some o) : i < s.objs.length := by
  rcases Nat.lt_or_ge i s.objs.length with h1 | h1
  · exact h1
  · rw [List.getElem?_eq_none h1] at h; cases h

/-! ### the three building blocks: set a field of object `i`, `mCompute`, `mSolve` -/

theorem view_setObj_self (s : MState) (i : Nat) (o o' : MObj) (h : s.objs[i]? = some o) :
    view { s with objs := s.objs.set i o' } i = some (viewOf s o') := by
  unfold view
  simp only [List.getElem?_set, lt_of_get h]
  rfl

theorem view_setObj_other (s : MState) (i j : Nat) (o' : MObj) (h : j ≠ i) :
    view { s with objs := s.objs.set i o' } j = view s j := by
  unfold view
  have h' : ¬ i = j := fun e => h e.symm
  simp only [List.getElem?_set, h', if_false]
  rfl

theorem mCompute_eq (cfg : ApiCfg) (s : MState) (i : Nat) (o : MObj) (h : s.objs[i]? = some o)
    (m : Option Nat) (os : Option (List Nat)) :
    mCompute cfg s i m os =
      ({ s with dicts := s.dicts.set o.dictRef (computeStep cfg (viewOf s o) m os).1.basis },
        liftErr (computeStep cfg (viewOf s o) m os).2) := by
  unfold mCompute; rw [h]

theorem mSolve_eq (cfg : ApiCfg) (s : MState) (i : Nat) (o : MObj) (h : s.objs[i]? = some o)
    (m : Option Nat) (os : Option (List Nat)) (c : Bool) :
    mSolve cfg s i m os c =
      ({ s with objs := s.objs.set i { o with fc := (solveStep cfg (viewOf s o) m os c).1.fc } },
        liftErr (solveStep cfg (viewOf s o) m os c).2) := by
  unfold mSolve; rw [h]

/-- `compute_basis_set` on object `i`, seen from ANY object `j` (`j = i` included): the `basis` component is
    replaced iff `j` holds the same reference; nothing else changes -/
theorem mCompute_view (cfg : ApiCfg) (s : MState) (hwf : WF s) (i j : Nat) (oi oj : MObj)
    (hi : s.objs[i]? = some oi) (hj : s.objs[j]? = some oj) (m : Option Nat) (os : Option (List Nat)) :
    view (mCompute cfg s i m os).1 j =
      some { viewOf s oj with
        basis := if oj.dictRef = oi.dictRef then (computeStep cfg (viewOf s oi) m os).1.basis
                 else (viewOf s oj).basis } := by
  rw [mCompute_eq cfg s i oi hi]
  unfold view
  simp only [hj, Option.map_some]
  have hlt : oi.dictRef < s.dicts.length := hwf oi (mem_of_get hi)
  unfold viewOf
  simp only [heapGet_set, hlt, and_true]

theorem mCompute_objs (cfg : ApiCfg) (s : MState) (i : Nat) (m : Option Nat) (os : Option (List Nat)) :
    (mCompute cfg s i m os).1.objs = s.objs ∧ (mCompute cfg s i m os).1.dicts.length = s.dicts.length := by
  unfold mCompute
  split
  · exact ⟨rfl, rfl⟩
  · simp

theorem mSolve_view_self (cfg : ApiCfg) (s : MState) (i : Nat) (o : MObj) (h : s.objs[i]? = some o)
    (m : Option Nat) (os : Option (List Nat)) (c : Bool) :
    view (mSolve cfg s i m os c).1 i = some (solveStep cfg (viewOf s o) m os c).1 ∧
    (mSolve cfg s i m os c).2 = liftErr (solveStep cfg (viewOf s o) m os c).2 := by
  rw [mSolve_eq cfg s i o h]
  refine ⟨?_, rfl⟩
  rw [view_setObj_self s i o _ h, solveStep_fst]
  rfl

theorem mSolve_view_other (cfg : ApiCfg) (s : MState) (i j : Nat) (hne : j ≠ i)
    (m : Option Nat) (os : Option (List Nat)) (c : Bool) :
    view (mSolve cfg s i m os c).1 j = view s j := by
  unfold mSolve
  split
  · rfl
  · exact view_setObj_other s i j _ hne

theorem mstep_run (cfg : ApiCfg) (s : MState) (i : Nat) (o : MObj) (h : s.objs[i]? = some o)
    (m : Option Nat) (os : Option (List Nat)) (c : Bool) :
    mstep cfg s (.run i m os c) =
      if cfg.runGuarded && (o.disp.isNone || o.forces.isNone) then (s, none)
      else match (mCompute cfg s i m os).2 with
        | some e => ((mCompute cfg s i m os).1, some e)
        | none => mSolve cfg (mCompute cfg s i m os).1 i m os c := by
  show (match s.objs[i]? with
    | none => (s, some MErr.noObject)
    | some o =>
      if cfg.runGuarded && (o.disp.isNone || o.forces.isNone) then (s, none)
      else match mCompute cfg s i m os with
        | (s', some e) => (s', some e)
        | (s', none) => mSolve cfg s' i m os c) = _
  rw [h]
  simp only
  split
  · rfl
  · cases mCompute cfg s i m os with
    | mk s' e => cases e <;> rfl

theorem mCompute_self (cfg : ApiCfg) (s : MState) (hwf : WF s) (i : Nat) (o : MObj) (h : s.objs[i]? = some o)
    (m : Option Nat) (os : Option (List Nat)) :
    view (mCompute cfg s i m os).1 i = some (computeStep cfg (viewOf s o) m os).1 ∧
    (mCompute cfg s i m os).2 = liftErr (computeStep cfg (viewOf s o) m os).2 ∧
    (mCompute cfg s i m os).1.objs[i]? = some o ∧
    viewOf (mCompute cfg s i m os).1 o = (computeStep cfg (viewOf s o) m os).1 := by
  have h1 := mCompute_view cfg s hwf i i o o h h m os
  simp only [if_true] at h1
  rw [← computeStep_fst] at h1
  have h3 : (mCompute cfg s i m os).1.objs[i]? = some o := by rw [(mCompute_objs cfg s i m os).1]; exact h
  refine ⟨h1, ?_, h3, ?_⟩
  · rw [mCompute_eq cfg s i o h]
  · have h4 : view (mCompute cfg s i m os).1 i = some (viewOf (mCompute cfg s i m os).1 o) := by
      unfold view; rw [h3]; rfl
    rw [h4] at h1
    exact Option.some.inj h1

theorem ite_basis_same (w : ApiState) (c : Prop) [Decidable c] (x : List (Nat × Basis)) (h : c → x = w.basis) :
    { w with basis := if c then x else w.basis } = w := by
  by_cases hc : c
  · simp only [hc, if_true]; rw [h hc]
  · simp only [hc, if_false]

/-! ### the simulation -/

/-- SIMULATION (acting object). For every operation other than `new` / `handOver`, the multi-object step on
    object `i` acts on what `i` sees exactly as the single-object `step` does, and reports the same error. -/
theorem mstep_simulates_step (cfg : ApiCfg) (s : MState) (hwf : WF s) (op : MOp) (i : Nat) (aop : ApiOp)
    (hop : op.onObject = some (i, aop)) (v : ApiState) (hv : view s i = some v) :
    view (mstep cfg s op).1 i = some (step cfg v aop).1 ∧ (mstep cfg s op).2 = liftErr (step cfg v aop).2 := by
  obtain ⟨o, ho, rfl⟩ := view_eq_some.mp hv
  cases op with
  | new n c cut => simp [MOp.onObject] at hop
  | handOver d sr => simp [MOp.onObject] at hop
  | setDisp i' a =>
    simp only [MOp.onObject, Option.some.injEq, Prod.mk.injEq] at hop
    obtain ⟨rfl, rfl⟩ := hop
    have e : mstep cfg s (.setDisp i' a) = ({ s with objs := s.objs.set i' { o with disp := some a } }, none) := by
      show (match s.objs[i']? with
        | none => (s, some MErr.noObject)
        | some o => ({ s with objs := s.objs.set i' { o with disp := some a } }, none)) = _
      rw [ho]
    rw [e]; exact ⟨view_setObj_self s i' o _ ho, rfl⟩
  | setForces i' a =>
    simp only [MOp.onObject, Option.some.injEq, Prod.mk.injEq] at hop
    obtain ⟨rfl, rfl⟩ := hop
    have e : mstep cfg s (.setForces i' a) = ({ s with objs := s.objs.set i' { o with forces := some a } }, none) := by
      show (match s.objs[i']? with
        | none => (s, some MErr.noObject)
        | some o => ({ s with objs := s.objs.set i' { o with forces := some a } }, none)) = _
      rw [ho]
    rw [e]; exact ⟨view_setObj_self s i' o _ ho, rfl⟩
  | computeBasis i' m os =>
    simp only [MOp.onObject, Option.some.injEq, Prod.mk.injEq] at hop
    obtain ⟨rfl, rfl⟩ := hop
    have h := mCompute_self cfg s hwf i' o ho m os
    exact ⟨h.1, h.2.1⟩
  | solve i' m os c =>
    simp only [MOp.onObject, Option.some.injEq, Prod.mk.injEq] at hop
    obtain ⟨rfl, rfl⟩ := hop
    exact mSolve_view_self cfg s i' o ho m os c
  | run i' m os c =>
    simp only [MOp.onObject, Option.some.injEq, Prod.mk.injEq] at hop
    obtain ⟨rfl, rfl⟩ := hop
    rw [mstep_run cfg s i' o ho, step_run]
    have hg : (cfg.runGuarded && ((viewOf s o).disp.isNone || (viewOf s o).forces.isNone)) =
        (cfg.runGuarded && (o.disp.isNone || o.forces.isNone)) := rfl
    rw [hg]
    obtain ⟨h1, h2, h3, h4⟩ := mCompute_self cfg s hwf i' o ho m os
    by_cases hgd : (cfg.runGuarded && (o.disp.isNone || o.forces.isNone)) = true
    · simp only [hgd, if_true]
      exact ⟨by unfold view; rw [ho]; rfl, rfl⟩
    · simp only [hgd, Bool.false_eq_true, if_false]
      rw [h2]
      cases he : (computeStep cfg (viewOf s o) m os).2 with
      | some e => exact ⟨h1, rfl⟩
      | none =>
        simp only [liftErr, Option.map_none]
        have h5 := mSolve_view_self cfg (mCompute cfg s i' m os).1 i' o h3 m os c
        rw [h4] at h5
        exact h5

/-- SIMULATION (the other objects). The same step, seen from another object `j`: nothing changes, except that
    `j` sees the acting object's new `basis` when — and only when — both hold the same dict. -/
theorem mstep_frame (cfg : ApiCfg) (s : MState) (hwf : WF s) (op : MOp) (i : Nat) (aop : ApiOp)
    (hop : op.onObject = some (i, aop)) (v : ApiState) (hv : view s i = some v)
    (j : Nat) (hne : j ≠ i) (w : ApiState) (hw : view s j = some w) :
    view (mstep cfg s op).1 j =
      some { w with basis := if refOf s j = refOf s i then (step cfg v aop).1.basis else w.basis } := by
  obtain ⟨oi, hi, rfl⟩ := view_eq_some.mp hv
  obtain ⟨oj, hj, rfl⟩ := view_eq_some.mp hw
  have href : (refOf s j = refOf s i) ↔ (oj.dictRef = oi.dictRef) := by
    unfold refOf; rw [hi, hj]; simp
  have hsame : ∀ x : List (Nat × Basis), (oj.dictRef = oi.dictRef → x = (viewOf s oi).basis) →
      some { viewOf s oj with basis := if refOf s j = refOf s i then x else (viewOf s oj).basis } =
        some (viewOf s oj) := by
    intro x hx
    rw [ite_basis_same]
    intro hc
    rw [hx (href.mp hc)]
    show heapGet s oi.dictRef = heapGet s oj.dictRef
    rw [href.mp hc]
  have hcomp : ∀ m os, view (mCompute cfg s i m os).1 j =
      some { viewOf s oj with basis := if refOf s j = refOf s i then (computeStep cfg (viewOf s oi) m os).1.basis
                                       else (viewOf s oj).basis } := by
    intro m os
    rw [mCompute_view cfg s hwf i j oi oj hi hj m os]
    simp only [href]
  cases op with
  | new n c cut => simp [MOp.onObject] at hop
  | handOver d sr => simp [MOp.onObject] at hop
  | setDisp i' a =>
    simp only [MOp.onObject, Option.some.injEq, Prod.mk.injEq] at hop
    obtain ⟨rfl, rfl⟩ := hop
    have e : mstep cfg s (.setDisp i' a) = ({ s with objs := s.objs.set i' { oi with disp := some a } }, none) := by
      show (match s.objs[i']? with
        | none => (s, some MErr.noObject)
        | some o => ({ s with objs := s.objs.set i' { o with disp := some a } }, none)) = _
      rw [hi]
    refine Eq.trans ?_ (hsame (step cfg (viewOf s oi) (.setDisp a)).1.basis (fun _ => rfl)).symm
    rw [e]
    show view { s with objs := s.objs.set i' { oi with disp := some a } } j = _
    rw [view_setObj_other s i' j _ hne, hw]
  | setForces i' a =>
    simp only [MOp.onObject, Option.some.injEq, Prod.mk.injEq] at hop
    obtain ⟨rfl, rfl⟩ := hop
    have e : mstep cfg s (.setForces i' a) = ({ s with objs := s.objs.set i' { oi with forces := some a } }, none) := by
      show (match s.objs[i']? with
        | none => (s, some MErr.noObject)
        | some o => ({ s with objs := s.objs.set i' { o with forces := some a } }, none)) = _
      rw [hi]
    refine Eq.trans ?_ (hsame (step cfg (viewOf s oi) (.setForces a)).1.basis (fun _ => rfl)).symm
    rw [e]
    show view { s with objs := s.objs.set i' { oi with forces := some a } } j = _
    rw [view_setObj_other s i' j _ hne, hw]
  | computeBasis i' m os =>
    simp only [MOp.onObject, Option.some.injEq, Prod.mk.injEq] at hop
    obtain ⟨rfl, rfl⟩ := hop
    exact hcomp m os
  | solve i' m os c =>
    simp only [MOp.onObject, Option.some.injEq, Prod.mk.injEq] at hop
    obtain ⟨rfl, rfl⟩ := hop
    refine Eq.trans ?_ (hsame (step cfg (viewOf s oi) (.solve m os c)).1.basis
      (fun _ => solveStep_basis cfg _ m os c)).symm
    show view (mSolve cfg s i' m os c).1 j = _
    rw [mSolve_view_other cfg s i' j hne, hw]
  | run i' m os c =>
    simp only [MOp.onObject, Option.some.injEq, Prod.mk.injEq] at hop
    obtain ⟨rfl, rfl⟩ := hop
    rw [mstep_run cfg s i' oi hi, step_run]
    have hg : (cfg.runGuarded && ((viewOf s oi).disp.isNone || (viewOf s oi).forces.isNone)) =
        (cfg.runGuarded && (oi.disp.isNone || oi.forces.isNone)) := rfl
    rw [hg]
    obtain ⟨_, h2, _, _⟩ := mCompute_self cfg s hwf i' oi hi m os
    by_cases hgd : (cfg.runGuarded && (oi.disp.isNone || oi.forces.isNone)) = true
    · simp only [hgd, if_true]
      exact Eq.trans hw (hsame (viewOf s oi).basis (fun _ => rfl)).symm
    · simp only [hgd, Bool.false_eq_true, if_false]
      rw [h2]
      cases he : (computeStep cfg (viewOf s oi) m os).2 with
      | some e => exact hcomp m os
      | none =>
        simp only [liftErr, Option.map_none]
        rw [mSolve_view_other cfg _ i' j hne, solveStep_basis]
        exact hcomp m os

/-! ### `new` and `handOver` seen through the views -/

theorem heapGet_append (s : MState) (objs : List MObj) (d : List (Nat × Basis)) (r : Nat)
    (h : r < s.dicts.length) : heapGet { objs := objs, dicts := s.dicts ++ [d] } r = heapGet s r := by
  unfold heapGet
  simp only [List.getElem?_append_left h]

theorem heapGet_append_new (s : MState) (objs : List MObj) (d : List (Nat × Basis)) :
    heapGet { objs := objs, dicts := s.dicts ++ [d] } s.dicts.length = d := by
  unfold heapGet
  simp

/-- a new object sees an empty dict and no data; nobody else notices -/
theorem new_views (cfg : ApiCfg) (s : MState) (hwf : WF s) (n c : Nat) (cut : List (Nat × Option Nat)) :
    (mstep cfg s (.new n c cut)).2 = none ∧
    view (mstep cfg s (.new n c cut)).1 s.objs.length =
      some { natom := n, cfgId := c, cutoff := cut, disp := none, forces := none, basis := [], fc := [] } ∧
    ∀ j w, view s j = some w → view (mstep cfg s (.new n c cut)).1 j = some w := by
  refine ⟨rfl, ?_, ?_⟩
  · show view { objs := s.objs ++ [_], dicts := s.dicts ++ [[]] } s.objs.length = _
    unfold view
    simp only [List.getElem?_concat_length, Option.map_some]
    unfold viewOf
    simp only [heapGet_append_new]
  · intro j w hw
    obtain ⟨oj, hj, rfl⟩ := view_eq_some.mp hw
    show view { objs := s.objs ++ [_], dicts := s.dicts ++ [[]] } j = _
    unfold view
    rw [List.getElem?_append_left (lt_of_get hj), hj]
    simp only [Option.map_some]
    unfold viewOf
    rw [heapGet_append s _ [] oj.dictRef (hwf oj (mem_of_get hj))]

/-- `dst.basis_set = src.basis_set`: `dst` now sees `src`'s dict; nobody else notices -/
theorem handOver_views (cfg : ApiCfg) (s : MState) (dst src : Nat) (vd vs : ApiState)
    (hd : view s dst = some vd) (hs : view s src = some vs) :
    (mstep cfg s (.handOver dst src)).2 = none ∧
    view (mstep cfg s (.handOver dst src)).1 dst = some { vd with basis := vs.basis } ∧
    refOf (mstep cfg s (.handOver dst src)).1 dst = refOf s src ∧
    ∀ j, j ≠ dst → view (mstep cfg s (.handOver dst src)).1 j = view s j ∧
                   refOf (mstep cfg s (.handOver dst src)).1 j = refOf s j := by
  obtain ⟨od, hod, rfl⟩ := view_eq_some.mp hd
  obtain ⟨osr, hos, rfl⟩ := view_eq_some.mp hs
  have e : mstep cfg s (.handOver dst src) =
      ({ s with objs := s.objs.set dst { od with dictRef := osr.dictRef } }, none) := by
    simp only [mstep, hod, hos]
  rw [e]
  refine ⟨rfl, ?_, ?_, ?_⟩
  · exact view_setObj_self s dst od _ hod
  · unfold refOf
    simp only [List.getElem?_set, lt_of_get hod, hos]
    simp
  · intro j hj
    refine ⟨view_setObj_other s dst j _ hj, ?_⟩
    unfold refOf
    have h' : ¬ dst = j := fun e => hj e.symm
    simp only [List.getElem?_set, h', if_false]

/-! ### what a step does to the list of objects and to the heap -/

/-- same supercell / operations / cutoffs -/
def cfgEq (o' o : MObj) : Prop := o'.natom = o.natom ∧ o'.cfgId = o.cfgId ∧ o'.cutoff = o.cutoff

theorem cfgEq_refl (o : MObj) : cfgEq o o := ⟨rfl, rfl, rfl⟩

theorem mSolve_dicts (cfg : ApiCfg) (s : MState) (i : Nat) (m : Option Nat) (os : Option (List Nat)) (c : Bool) :
    (mSolve cfg s i m os c).1.dicts = s.dicts := by
  unfold mSolve
  split <;> rfl

/-- every object after a step is an old object with the same configuration whose reference is that of some old
    object — or the object just created by `new` -/
theorem mstep_objs (cfg : ApiCfg) (s : MState) (op : MOp) :
    ∀ o' ∈ (mstep cfg s op).1.objs,
      (∃ o ∈ s.objs, cfgEq o' o ∧ ∃ o2 ∈ s.objs, o'.dictRef = o2.dictRef) ∨
      (∃ n c cut, op = .new n c cut ∧ o'.natom = n ∧ o'.cfgId = c ∧ o'.cutoff = cut ∧
        o'.dictRef = s.dicts.length) := by
  have hold : ∀ o' ∈ s.objs, (∃ o ∈ s.objs, cfgEq o' o ∧ ∃ o2 ∈ s.objs, o'.dictRef = o2.dictRef) ∨
      (∃ n c cut, op = .new n c cut ∧ o'.natom = n ∧ o'.cfgId = c ∧ o'.cutoff = cut ∧
        o'.dictRef = s.dicts.length) :=
    fun o' h => Or.inl ⟨o', h, cfgEq_refl o', o', h, rfl⟩
  have hset : ∀ (i : Nat) (o o2 on : MObj), o ∈ s.objs → o2 ∈ s.objs → cfgEq on o → on.dictRef = o2.dictRef →
      ∀ o' ∈ s.objs.set i on, (∃ o ∈ s.objs, cfgEq o' o ∧ ∃ o2 ∈ s.objs, o'.dictRef = o2.dictRef) ∨
      (∃ n c cut, op = .new n c cut ∧ o'.natom = n ∧ o'.cfgId = c ∧ o'.cutoff = cut ∧
        o'.dictRef = s.dicts.length) := by
    intro i o o2 on ho ho2 hc hr o' h'
    rcases List.mem_or_eq_of_mem_set h' with h1 | h1
    · exact hold o' h1
    · subst h1; exact Or.inl ⟨o, ho, hc, o2, ho2, hr⟩
  have hsolve : ∀ (s1 : MState) (i : Nat) m os c, s1.objs = s.objs →
      ∀ o' ∈ (mSolve cfg s1 i m os c).1.objs,
      (∃ o ∈ s.objs, cfgEq o' o ∧ ∃ o2 ∈ s.objs, o'.dictRef = o2.dictRef) ∨
      (∃ n c cut, op = .new n c cut ∧ o'.natom = n ∧ o'.cfgId = c ∧ o'.cutoff = cut ∧
        o'.dictRef = s.dicts.length) := by
    intro s1 i m os c h1
    unfold mSolve
    split
    · rw [h1]; exact hold
    · next o ho =>
      simp only [h1]
      rw [h1] at ho
      exact hset i o o _ (List.mem_of_getElem? ho) (List.mem_of_getElem? ho) ⟨rfl, rfl, rfl⟩ rfl
  cases op with
  | new n c cut =>
    intro o' h'
    have h' : o' ∈ s.objs ++ [(⟨n, c, cut, none, none, s.dicts.length, []⟩ : MObj)] := h'
    rcases List.mem_append.mp h' with h1 | h1
    · exact hold o' h1
    · rw [List.mem_singleton] at h1
      subst h1
      exact Or.inr ⟨n, c, cut, rfl, rfl, rfl, rfl, rfl⟩
  | setDisp i a =>
    cases ho : s.objs[i]? with
    | none => simp only [mstep, ho]; exact hold
    | some o =>
      simp only [mstep, ho]
      exact hset i o o _ (mem_of_get ho) (mem_of_get ho) ⟨rfl, rfl, rfl⟩ rfl
  | setForces i a =>
    cases ho : s.objs[i]? with
    | none => simp only [mstep, ho]; exact hold
    | some o =>
      simp only [mstep, ho]
      exact hset i o o _ (mem_of_get ho) (mem_of_get ho) ⟨rfl, rfl, rfl⟩ rfl
  | handOver dst src =>
    cases hd : s.objs[dst]? with
    | none => simp only [mstep, hd]; exact hold
    | some od =>
      cases hs : s.objs[src]? with
      | none => simp only [mstep, hd, hs]; exact hold
      | some osr =>
        simp only [mstep, hd, hs]
        exact hset dst od osr _ (mem_of_get hd) (mem_of_get hs) ⟨rfl, rfl, rfl⟩ rfl
  | computeBasis i m os =>
    show ∀ o' ∈ (mCompute cfg s i m os).1.objs, _
    rw [(mCompute_objs cfg s i m os).1]; exact hold
  | solve i m os c => exact hsolve s i m os c rfl
  | run i m os c =>
    cases ho : s.objs[i]? with
    | none => simp only [mstep, ho]; exact hold
    | some o =>
      rw [mstep_run cfg s i o ho]
      split
      · exact hold
      · split
        · rw [(mCompute_objs cfg s i m os).1]; exact hold
        · exact hsolve _ i m os c (mCompute_objs cfg s i m os).1

theorem mstep_dicts_length (cfg : ApiCfg) (s : MState) (op : MOp) :
    s.dicts.length ≤ (mstep cfg s op).1.dicts.length ∧
    ∀ n c cut, op = .new n c cut → (mstep cfg s op).1.dicts.length = s.dicts.length + 1 := by
  cases op with
  | new n c cut =>
    refine ⟨?_, fun _ _ _ _ => ?_⟩
    · show s.dicts.length ≤ (s.dicts ++ [[]]).length
      simp
    · show (s.dicts ++ [[]]).length = _
      simp
  | setDisp i a =>
    refine ⟨?_, fun _ _ _ h => by cases h⟩
    cases ho : s.objs[i]? <;> simp [mstep, ho]
  | setForces i a =>
    refine ⟨?_, fun _ _ _ h => by cases h⟩
    cases ho : s.objs[i]? <;> simp [mstep, ho]
  | handOver dst src =>
    refine ⟨?_, fun _ _ _ h => by cases h⟩
    cases hd : s.objs[dst]? <;> cases hs : s.objs[src]? <;> simp [mstep, hd, hs]
  | computeBasis i m os =>
    refine ⟨?_, fun _ _ _ h => by cases h⟩
    show _ ≤ (mCompute cfg s i m os).1.dicts.length
    rw [(mCompute_objs cfg s i m os).2]; exact Nat.le_refl _
  | solve i m os c =>
    refine ⟨?_, fun _ _ _ h => by cases h⟩
    show _ ≤ (mSolve cfg s i m os c).1.dicts.length
    rw [mSolve_dicts]; exact Nat.le_refl _
  | run i m os c =>
    refine ⟨?_, fun _ _ _ h => by cases h⟩
    cases ho : s.objs[i]? with
    | none => simp [mstep, ho]
    | some o =>
      rw [mstep_run cfg s i o ho]
      split
      · exact Nat.le_refl _
      · split
        · rw [(mCompute_objs cfg s i m os).2]; exact Nat.le_refl _
        · rw [mSolve_dicts, (mCompute_objs cfg s i m os).2]; exact Nat.le_refl _

/-- references stay inside the heap -/
theorem mstep_WF (cfg : ApiCfg) (s : MState) (hwf : WF s) (op : MOp) : WF (mstep cfg s op).1 := by
  intro o' h'
  obtain ⟨hle, hnew⟩ := mstep_dicts_length cfg s op
  rcases mstep_objs cfg s op o' h' with ⟨_, _, _, o2, ho2, hr⟩ | ⟨n, c, cut, hop, _, _, _, hr⟩
  · rw [hr]; exact Nat.lt_of_lt_of_le (hwf o2 ho2) hle
  · rw [hr, hnew n c cut hop]; exact Nat.lt_succ_self _

theorem WF_empty : WF MState.empty := by
  intro o h; cases h

theorem runM_WF (cfg : ApiCfg) (s : MState) (hwf : WF s) (ops : List MOp) : WF (runM cfg s ops) := by
  induction ops generalizing s with
  | nil => exact hwf
  | cons op ops ih => exact ih _ (mstep_WF cfg s hwf op)

/-! ### M1 — a solve on an object depends only on what that object sees -/

/-- M1. The outcome of `solve` on object `i` of a multi-object state — the error reported and the state the
    object sees afterwards — is the single-object outcome on `view s i`. No well-formedness, no assumption on the
    other objects or on who shares what. -/
theorem solve_on_object_depends_only_on_its_view (cfg : ApiCfg) (s : MState) (i : Nat) (v : ApiState)
    (hv : view s i = some v) (m : Option Nat) (o : Option (List Nat)) (c : Bool) :
    (mstep cfg s (.solve i m o c)).2 = liftErr (solveStep cfg v m o c).2 ∧
    view (mstep cfg s (.solve i m o c)).1 i = some (solveStep cfg v m o c).1 := by
  obtain ⟨ob, ho, rfl⟩ := view_eq_some.mp hv
  have h := mSolve_view_self cfg s i ob ho m o c
  exact ⟨h.2, h.1⟩

/-- M1, two-state form: two objects (of the same or of different multi-object states, after any histories) that
    see the same single-object state get the same outcome -/
theorem solve_same_view_same_outcome (cfg : ApiCfg) (s t : MState) (i j : Nat) (v : ApiState)
    (hs : view s i = some v) (ht : view t j = some v) (m : Option Nat) (o : Option (List Nat)) (c : Bool) :
    (mstep cfg s (.solve i m o c)).2 = (mstep cfg t (.solve j m o c)).2 ∧
    view (mstep cfg s (.solve i m o c)).1 i = view (mstep cfg t (.solve j m o c)).1 j := by
  obtain ⟨h1, h2⟩ := solve_on_object_depends_only_on_its_view cfg s i v hs m o c
  obtain ⟨h3, h4⟩ := solve_on_object_depends_only_on_its_view cfg t j v ht m o c
  exact ⟨h1.trans h3.symm, h2.trans h4.symm⟩

/-- a solve on one object is invisible to every other object -/
theorem solve_is_invisible_to_the_others (cfg : ApiCfg) (s : MState) (i j : Nat) (hne : j ≠ i)
    (m : Option Nat) (o : Option (List Nat)) (c : Bool) :
    view (mstep cfg s (.solve i m o c)).1 j = view s j :=
  mSolve_view_other cfg s i j hne m o c

/-! ### M2 — sharing between objects of one configuration -/

/-- all objects were built for the supercell / operations `(natom, cfgId)` with the cutoff table `cut` -/
def ConsistentWith (n c : Nat) (cut : List (Nat × Option Nat)) (s : MState) : Prop :=
  ∀ o ∈ s.objs, o.natom = n ∧ o.cfgId = c ∧ o.cutoff = cut

/-- all objects have the same `natom`, `cfgId` and cutoff table -/
def Consistent (s : MState) : Prop := ∃ n c cut, ConsistentWith n c cut s

/-- the operation creates no object of another configuration: `new` only with the common configuration,
    every other operation unrestricted -/
def Respects (n c : Nat) (cut : List (Nat × Option Nat)) : MOp → Prop
  | .new n' c' cut' => n' = n ∧ c' = c ∧ cut' = cut
  | _ => True

/-- M2.a — `ConsistentWith` is preserved by `new` with the common configuration and by every other operation -/
theorem consistent_preserved (cfg : ApiCfg) (n c : Nat) (cut : List (Nat × Option Nat)) (s : MState)
    (hc : ConsistentWith n c cut s) (op : MOp) (hop : Respects n c cut op) :
    ConsistentWith n c cut (mstep cfg s op).1 := by
  intro o' h'
  rcases mstep_objs cfg s op o' h' with ⟨o, ho, ⟨h1, h2, h3⟩, _⟩ | ⟨n', c', cut', e, h1, h2, h3, _⟩
  · obtain ⟨g1, g2, g3⟩ := hc o ho
    exact ⟨h1.trans g1, h2.trans g2, h3.trans g3⟩
  · subst e
    obtain ⟨g1, g2, g3⟩ := hop
    exact ⟨h1.trans g1, h2.trans g2, h3.trans g3⟩

/-- the basis set `compute_basis_set` stores under key `k` for an object of configuration `(c, cut)` -/
def basisFor (cfg : ApiCfg) (c : Nat) (cut : List (Nat × Option Nat)) (k : Nat) : Option Basis :=
  (dictGet cfg.cutoffKeys k).map (fun ck => { order := k, cfgId := c, cutoff := (dictGet cut ck).getD none })

/-- every entry of the dict is the basis set of the configuration `(c, cut)` for its key -/
def CanonDict (cfg : ApiCfg) (c : Nat) (cut : List (Nat × Option Nat)) (d : List (Nat × Basis)) : Prop :=
  ∀ p ∈ d, basisFor cfg c cut p.1 = some p.2

def Canon (cfg : ApiCfg) (c : Nat) (cut : List (Nat × Option Nat)) (s : MState) : Prop :=
  ∀ d ∈ s.dicts, CanonDict cfg c cut d

theorem mem_dictSet {β} (d : List (Nat × β)) (k : Nat) (v : β) (p : Nat × β) (h : p ∈ dictSet d k v) :
    p ∈ d ∨ p = (k, v) := by
  unfold dictSet at h
  rcases List.mem_append.mp h with h1 | h1
  · exact Or.inl (List.mem_filter.mp h1).1
  · exact Or.inr (List.mem_singleton.mp h1)

theorem dictGet_mem {β} (d : List (Nat × β)) (k : Nat) (v : β) (h : dictGet d k = some v) : (k, v) ∈ d := by
  unfold dictGet at h
  cases hf : d.find? (fun p => p.1 == k) with
  | none => rw [hf] at h; cases h
  | some p =>
    rw [hf] at h
    have h1 : p.2 = v := by simpa using h
    have h2 : p.1 = k := by simpa using List.find?_some hf
    have h3 : p ∈ d := List.mem_of_find?_eq_some hf
    rw [← h1, ← h2]; exact h3

/-- the fold of `compute_basis_set` -/
def computeFold (cfg : ApiCfg) (c : Nat) (cut : List (Nat × Option Nat)) (bs : List (Nat × Basis)) (k : Nat) :
    List (Nat × Basis) :=
  match dictGet cfg.cutoffKeys k with
  | some ck => dictSet bs k { order := k, cfgId := c, cutoff := (dictGet cut ck).getD none }
  | none => bs

theorem computeStep_basis (cfg : ApiCfg) (v : ApiState) (m : Option Nat) (o : Option (List Nat)) (os : List Nat)
    (ho : checkOrders cfg m o = .ok os) :
    (computeStep cfg v m o).1.basis = os.foldl (computeFold cfg v.cfgId v.cutoff) v.basis ∧
    (computeStep cfg v m o).2 = none := by
  unfold computeStep
  rw [ho]
  exact ⟨rfl, rfl⟩

theorem computeStep_err (cfg : ApiCfg) (v : ApiState) (m : Option Nat) (o : Option (List Nat)) (e : ApiErr)
    (ho : checkOrders cfg m o = .error e) : computeStep cfg v m o = (v, some e) := by
  unfold computeStep
  rw [ho]

theorem computeFold_canon (cfg : ApiCfg) (c : Nat) (cut : List (Nat × Option Nat)) (bs : List (Nat × Basis))
    (k : Nat) (h : CanonDict cfg c cut bs) : CanonDict cfg c cut (computeFold cfg c cut bs k) := by
  unfold computeFold
  cases hk : dictGet cfg.cutoffKeys k with
  | none => exact h
  | some ck =>
    intro p hp
    rcases mem_dictSet _ _ _ _ hp with h1 | h1
    · exact h p h1
    · subst h1
      simp only [basisFor, hk, Option.map_some]

theorem foldl_computeFold_canon (cfg : ApiCfg) (c : Nat) (cut : List (Nat × Option Nat)) (os : List Nat)
    (bs : List (Nat × Basis)) (h : CanonDict cfg c cut bs) :
    CanonDict cfg c cut (os.foldl (computeFold cfg c cut) bs) := by
  induction os generalizing bs with
  | nil => exact h
  | cons k ks ih => exact ih _ (computeFold_canon cfg c cut bs k h)

/-- `compute_basis_set` keeps a canonical dict canonical -/
theorem computeStep_canon (cfg : ApiCfg) (v : ApiState) (m : Option Nat) (o : Option (List Nat))
    (h : CanonDict cfg v.cfgId v.cutoff v.basis) :
    CanonDict cfg v.cfgId v.cutoff (computeStep cfg v m o).1.basis := by
  cases ho : checkOrders cfg m o with
  | error e => rw [computeStep_err cfg v m o e ho]; exact h
  | ok os =>
    rw [(computeStep_basis cfg v m o os ho).1]
    exact foldl_computeFold_canon cfg _ _ os _ h

theorem heapGet_canon (cfg : ApiCfg) (c : Nat) (cut : List (Nat × Option Nat)) (s : MState)
    (h : Canon cfg c cut s) (r : Nat) : CanonDict cfg c cut (heapGet s r) := by
  unfold heapGet
  cases hr : s.dicts[r]? with
  | none => intro p hp; cases hp
  | some d => exact h d (List.mem_of_getElem? hr)

theorem mCompute_canon (cfg : ApiCfg) (n c : Nat) (cut : List (Nat × Option Nat)) (s : MState)
    (hc : ConsistentWith n c cut s) (hk : Canon cfg c cut s) (i : Nat) (m : Option Nat) (os : Option (List Nat)) :
    Canon cfg c cut (mCompute cfg s i m os).1 := by
  unfold mCompute
  split
  · exact hk
  · next o ho =>
    intro d hd
    rcases List.mem_or_eq_of_mem_set hd with h1 | h1
    · exact hk d h1
    · subst h1
      obtain ⟨_, g2, g3⟩ := hc o (mem_of_get ho)
      have := computeStep_canon cfg (viewOf s o) m os (by
        show CanonDict cfg o.cfgId o.cutoff (heapGet s o.dictRef)
        rw [g2, g3]; exact heapGet_canon cfg c cut s hk _)
      rw [← g2, ← g3]; exact this

/-- M2.b — in a consistent state, canonical dicts stay canonical under every operation -/
theorem canon_preserved (cfg : ApiCfg) (n c : Nat) (cut : List (Nat × Option Nat)) (s : MState)
    (hc : ConsistentWith n c cut s) (hk : Canon cfg c cut s) (op : MOp) :
    Canon cfg c cut (mstep cfg s op).1 := by
  cases op with
  | new n' c' cut' =>
    intro d hd
    have hd : d ∈ s.dicts ++ [[]] := hd
    rcases List.mem_append.mp hd with h1 | h1
    · exact hk d h1
    · rw [List.mem_singleton.mp h1]; intro p hp; cases hp
  | setDisp i a => cases ho : s.objs[i]? <;> simp only [mstep, ho] <;> exact hk
  | setForces i a => cases ho : s.objs[i]? <;> simp only [mstep, ho] <;> exact hk
  | handOver dst src =>
    cases hd : s.objs[dst]? <;> cases hs : s.objs[src]? <;> simp only [mstep, hd, hs] <;> exact hk
  | computeBasis i m os => exact mCompute_canon cfg n c cut s hc hk i m os
  | solve i m os cc =>
    show Canon cfg c cut (mSolve cfg s i m os cc).1
    unfold Canon; rw [mSolve_dicts]; exact hk
  | run i m os cc =>
    cases ho : s.objs[i]? with
    | none => simp only [mstep, ho]; exact hk
    | some o =>
      rw [mstep_run cfg s i o ho]
      split
      · exact hk
      · split
        · exact mCompute_canon cfg n c cut s hc hk i m os
        · unfold Canon; rw [mSolve_dicts]; exact mCompute_canon cfg n c cut s hc hk i m os

/-- M2.c — after ANY history from the empty state in which `new` is only called with the common configuration:
    the state is well-formed, consistent, and every heap dict is canonical -/
theorem reachable_invariants (cfg : ApiCfg) (n c : Nat) (cut : List (Nat × Option Nat)) (ops : List MOp)
    (hops : ∀ op ∈ ops, Respects n c cut op) :
    WF (runM cfg .empty ops) ∧ ConsistentWith n c cut (runM cfg .empty ops) ∧
    Canon cfg c cut (runM cfg .empty ops) := by
  have gen : ∀ (ops : List MOp) (s : MState), (∀ op ∈ ops, Respects n c cut op) →
      WF s → ConsistentWith n c cut s → Canon cfg c cut s →
      WF (runM cfg s ops) ∧ ConsistentWith n c cut (runM cfg s ops) ∧ Canon cfg c cut (runM cfg s ops) := by
    intro ops
    induction ops with
    | nil => intro s _ h1 h2 h3; exact ⟨h1, h2, h3⟩
    | cons op ops ih =>
      intro s hr h1 h2 h3
      exact ih (mstep cfg s op).1 (fun op' h => hr op' (List.mem_cons_of_mem _ h))
        (mstep_WF cfg s h1 op)
        (consistent_preserved cfg n c cut s h2 op (hr op List.mem_cons_self))
        (canon_preserved cfg n c cut s h2 h3 op)
  exact gen ops .empty hops WF_empty (fun o h => by cases h) (fun d h => by cases h)

/-- M2.c, as a statement about what is STORED: under key `k`, in any dict of the heap (hence in what any object
    sees), there is exactly the basis set of the common configuration for `k` -/
theorem reachable_dicts_hold_the_common_basis (cfg : ApiCfg) (n c : Nat) (cut : List (Nat × Option Nat))
    (ops : List MOp) (hops : ∀ op ∈ ops, Respects n c cut op) :
    (∀ d ∈ (runM cfg .empty ops).dicts, ∀ k b, dictGet d k = some b → basisFor cfg c cut k = some b) ∧
    (∀ i v, view (runM cfg .empty ops) i = some v →
      ∀ k b, dictGet v.basis k = some b → basisFor cfg c cut k = some b) := by
  obtain ⟨_, _, hk⟩ := reachable_invariants cfg n c cut ops hops
  refine ⟨fun d hd k b h => hk d hd (k, b) (dictGet_mem d k b h), ?_⟩
  intro i v hv k b h
  obtain ⟨o, _, rfl⟩ := view_eq_some.mp hv
  exact heapGet_canon cfg c cut _ hk o.dictRef (k, b) (dictGet_mem _ k b h)

/-! ### M2 — the solve of any object of a consistent family equals the solve of a fresh object -/

theorem checkDataset_congr (cfg : ApiCfg) (s t : ApiState) (hn : s.natom = t.natom) (hd : s.disp = t.disp)
    (hf : s.forces = t.forces) : checkDataset cfg s = checkDataset cfg t := by
  unfold checkDataset
  congr 1
  funext g
  cases g <;> simp [guardFails, hn, hd, hf]

/-- the result of a solve whose checks all pass -/
theorem solveStep_of_data (cfg : ApiCfg) (t : ApiState) (m : Option Nat) (o : Option (List Nat)) (c : Bool)
    (os : List Nat) (b : SolveBranch) (bases : List Basis) (d f : Arr)
    (h1 : checkDataset cfg t = none) (h2 : checkOrders cfg m o = .ok os)
    (h3 : cfg.branches.find? (fun b => b.orders == os) = some b)
    (h4 : allSome (b.basisKeys.map (dictGet t.basis)) = some bases)
    (h5 : t.disp = some d) (h6 : t.forces = some f) :
    solveStep cfg t m o c =
      ({ t with fc := b.fcKeys.foldl (fun fc k => dictSet fc k (solvedVal b bases d f c k)) t.fc }, none) := by
  unfold solveStep
  simp only [h1, h2, h3, h4, h5, h6, solvedVal]

/-- a solve that raises nothing although a dispatch branch exists passed every check -/
theorem solveStep_success (cfg : ApiCfg) (s : ApiState) (m : Option Nat) (o : Option (List Nat)) (c : Bool)
    (os : List Nat) (b : SolveBranch) (h2 : checkOrders cfg m o = .ok os)
    (h3 : cfg.branches.find? (fun b => b.orders == os) = some b)
    (hok : (solveStep cfg s m o c).2 = none) :
    ∃ bases d f, checkDataset cfg s = none ∧ allSome (b.basisKeys.map (dictGet s.basis)) = some bases ∧
      s.disp = some d ∧ s.forces = some f := by
  unfold solveStep at hok
  cases h1 : checkDataset cfg s with
  | some e => simp [h1] at hok
  | none =>
    simp only [h1, h2, h3] at hok
    cases h4 : allSome (b.basisKeys.map (dictGet s.basis)) with
    | none => simp [h4] at hok
    | some bases =>
      simp only [h4] at hok
      cases h5 : s.disp with
      | none => simp [h5] at hok
      | some d =>
        cases h6 : s.forces with
        | none => simp [h5, h6] at hok
        | some f => exact ⟨bases, d, f, rfl, rfl, rfl, rfl⟩

theorem allSome_some {α} (l : List (Option α)) (r : List α) (h : allSome l = some r) :
    ∀ x ∈ l, ∃ a, x = some a := by
  induction l generalizing r with
  | nil => intro x hx; cases hx
  | cons y ys ih =>
    cases y with
    | none => simp [allSome] at h
    | some a =>
      cases hr : allSome ys with
      | none => simp [allSome, hr] at h
      | some r' =>
        intro x hx
        rcases List.mem_cons.mp hx with h1 | h1
        · exact ⟨a, h1⟩
        · exact ih r' hr x h1

theorem dictGet_computeFold_other (cfg : ApiCfg) (c : Nat) (cut : List (Nat × Option Nat))
    (bs : List (Nat × Basis)) (x k : Nat) (h : k ≠ x) :
    dictGet (computeFold cfg c cut bs x) k = dictGet bs k := by
  unfold computeFold
  cases dictGet cfg.cutoffKeys x with
  | none => rfl
  | some ck => exact dictGet_dictSet_other bs x k _ h

theorem dictGet_computeFold_same (cfg : ApiCfg) (c : Nat) (cut : List (Nat × Option Nat))
    (bs : List (Nat × Basis)) (k : Nat) (b : Basis) (hb : basisFor cfg c cut k = some b) :
    dictGet (computeFold cfg c cut bs k) k = some b := by
  unfold computeFold
  unfold basisFor at hb
  cases hck : dictGet cfg.cutoffKeys k with
  | none => rw [hck] at hb; cases hb
  | some ck =>
    rw [hck] at hb
    simp only [Option.map_some, Option.some.injEq] at hb
    rw [← hb]
    exact dictGet_dictSet_same bs k _

theorem dictGet_foldl_computeFold_notin (cfg : ApiCfg) (c : Nat) (cut : List (Nat × Option Nat)) (os : List Nat)
    (bs : List (Nat × Basis)) (k : Nat) (h : k ∉ os) :
    dictGet (os.foldl (computeFold cfg c cut) bs) k = dictGet bs k := by
  induction os generalizing bs with
  | nil => rfl
  | cons x xs ih =>
    rw [List.foldl_cons, ih _ (fun hx => h (List.mem_cons_of_mem _ hx))]
    exact dictGet_computeFold_other cfg c cut bs x k (fun e => h (e ▸ List.mem_cons_self))

/-- after `compute_basis_set(orders)` the dict holds, under every requested key, the basis set of the object's
    own configuration — whatever was there before -/
theorem dictGet_foldl_computeFold_in (cfg : ApiCfg) (c : Nat) (cut : List (Nat × Option Nat)) (os : List Nat)
    (bs : List (Nat × Basis)) (k : Nat) (b : Basis) (h : k ∈ os) (hb : basisFor cfg c cut k = some b) :
    dictGet (os.foldl (computeFold cfg c cut) bs) k = some b := by
  induction os generalizing bs with
  | nil => cases h
  | cons x xs ih =>
    rw [List.foldl_cons]
    by_cases hk : k ∈ xs
    · exact ih _ hk
    · have hx : k = x := by
        rcases List.mem_cons.mp h with h1 | h1
        · exact h1
        · exact absurd h1 hk
      subst hx
      rw [dictGet_foldl_computeFold_notin cfg c cut xs _ k hk]
      exact dictGet_computeFold_same cfg c cut bs k b hb

/-- the requests `_check_orders` can accept -/
def acceptable (cfg : ApiCfg) : List (List Nat) :=
  cfg.maxOrderWhitelist.map (fun m => (List.range (m + 1)).drop 2) ++ cfg.ordersWhitelist

/-- decidable facts about the dispatch of `solve` (hold for the extracted `genApiCfg` by `decide`): every
    acceptable request has a branch, and each branch reads the basis sets and writes the results of its orders -/
def dispatchOK (cfg : ApiCfg) : Bool :=
  (acceptable cfg).all (fun os => (cfg.branches.find? (fun b => b.orders == os)).isSome) &&
  cfg.branches.all (fun b => b.basisKeys == b.orders && b.fcKeys == b.orders)

theorem checkOrders_ok_mem (cfg : ApiCfg) (m : Option Nat) (o : Option (List Nat)) (os : List Nat)
    (h : checkOrders cfg m o = .ok os) : os ∈ acceptable cfg := by
  unfold checkOrders at h
  unfold acceptable
  cases m with
  | some mm =>
    simp only at h
    by_cases hc : cfg.maxOrderWhitelist.contains mm = true
    · simp only [hc, if_true] at h
      cases h
      exact List.mem_append_left _ (List.mem_map.mpr ⟨mm, by simpa using hc, rfl⟩)
    · simp only [hc] at h
      cases h
  | none =>
    cases o with
    | none => cases h
    | some l =>
      simp only at h
      by_cases hc : cfg.ordersWhitelist.contains (sortNat l) = true
      · simp only [hc, if_true] at h
        cases h
        exact List.mem_append_right _ (by simpa using hc)
      · simp only [hc] at h
        cases h

/-- a freshly created object of the common configuration holding the given dataset -/
def freshObj (n c : Nat) (cut : List (Nat × Option Nat)) (d f : Option Arr) : ApiState :=
  { natom := n, cfgId := c, cutoff := cut, disp := d, forces := f, basis := [], fc := [] }

/-- what that fresh object returns for the request: `compute_basis_set(request)` then `solve(request)` -/
def freshSolve (cfg : ApiCfg) (n c : Nat) (cut : List (Nat × Option Nat)) (d f : Option Arr)
    (m : Option Nat) (o : Option (List Nat)) (compact : Bool) : ApiState × Option ApiErr :=
  solveStep cfg (computeStep cfg (freshObj n c cut d f) m o).1 m o compact

/-- M2. Objects of ONE configuration may hand their basis-set dicts to each other in any way: after any history
    (from nothing) in which `new` is only called with the common configuration `(n, c, cut)`, a `solve` that
    raises nothing on ANY object `i` stores, under every requested order `k`, exactly
    `{k, request, [basis sets of the common configuration], dataset of i, compact}` —
    which is what a fresh object with that configuration and the same dataset returns for the same request
    after computing the requested basis sets itself. -/
theorem sharing_is_harmless_for_consistent_objects (cfg : ApiCfg) (hdisp : dispatchOK cfg = true)
    (n c : Nat) (cut : List (Nat × Option Nat)) (ops : List MOp) (hops : ∀ op ∈ ops, Respects n c cut op)
    (i : Nat) (v : ApiState) (hv : view (runM cfg .empty ops) i = some v)
    (m : Option Nat) (o : Option (List Nat)) (compact : Bool) (os : List Nat)
    (ho : checkOrders cfg m o = .ok os)
    (hok : (mstep cfg (runM cfg .empty ops) (.solve i m o compact)).2 = none) :
    ∃ v' bases d f,
      view (mstep cfg (runM cfg .empty ops) (.solve i m o compact)).1 i = some v' ∧
      v.disp = some d ∧ v.forces = some f ∧
      allSome (os.map (basisFor cfg c cut)) = some bases ∧
      (freshSolve cfg n c cut v.disp v.forces m o compact).2 = none ∧
      ∀ k ∈ os,
        dictGet v'.fc k = some { order := k, orders := os, bases := bases, disp := d.id, forces := f.id,
                                 compact := compact } ∧
        dictGet v'.fc k = dictGet (freshSolve cfg n c cut v.disp v.forces m o compact).1.fc k := by
  obtain ⟨_, hcons, hcanon⟩ := reachable_invariants cfg n c cut ops hops
  obtain ⟨hcanonv, hnat⟩ : CanonDict cfg c cut v.basis ∧ v.natom = n := by
    obtain ⟨ob, hob, rfl⟩ := view_eq_some.mp hv
    exact ⟨heapGet_canon cfg c cut _ hcanon ob.dictRef, (hcons ob (mem_of_get hob)).1⟩
  obtain ⟨he, hview⟩ := solve_on_object_depends_only_on_its_view cfg _ i v hv m o compact
  rw [he] at hok
  have hok' : (solveStep cfg v m o compact).2 = none := by
    cases h : (solveStep cfg v m o compact).2 with
    | none => rfl
    | some e => rw [h] at hok; cases hok
  -- the dispatch branch
  unfold dispatchOK at hdisp
  rw [Bool.and_eq_true] at hdisp
  obtain ⟨hcov, hkeys⟩ := hdisp
  have hbr := List.all_eq_true.mp hcov os (checkOrders_ok_mem cfg m o os ho)
  obtain ⟨b, hb⟩ := Option.isSome_iff_exists.mp hbr
  have hbo : b.orders = os := by
    have := List.find?_some hb; simpa using this
  have hbk := List.all_eq_true.mp hkeys b (List.mem_of_find?_eq_some hb)
  rw [Bool.and_eq_true] at hbk
  have hbasisKeys : b.basisKeys = os := by
    have : b.basisKeys = b.orders := by simpa using hbk.1
    rw [this, hbo]
  have hfcKeys : b.fcKeys = os := by
    have : b.fcKeys = b.orders := by simpa using hbk.2
    rw [this, hbo]
  -- the solve on what object `i` sees
  obtain ⟨bases, d, f, h1, h4, h5, h6⟩ := solveStep_success cfg v m o compact os b ho hb hok'
  have hres := solveStep_of_data cfg v m o compact os b bases d f h1 ho hb h4 h5 h6
  -- what `i` sees under the requested keys is the common basis
  have hsee : ∀ k ∈ os, dictGet v.basis k = basisFor cfg c cut k := by
    intro k hk
    obtain ⟨bk, hbk'⟩ := allSome_some _ _ h4 (dictGet v.basis k)
      (List.mem_map.mpr ⟨k, by rw [hbasisKeys]; exact hk, rfl⟩)
    rw [hbk']
    exact (hcanonv (k, bk) (dictGet_mem _ k bk hbk')).symm
  have hmap : os.map (dictGet v.basis) = os.map (basisFor cfg c cut) := List.map_congr_left hsee
  -- the fresh object
  have hfc := computeStep_fst cfg (freshObj n c cut v.disp v.forces) m o
  have hfb := (computeStep_basis cfg (freshObj n c cut v.disp v.forces) m o os ho).1
  have hsee' : ∀ k ∈ os, dictGet (computeStep cfg (freshObj n c cut v.disp v.forces) m o).1.basis k =
      basisFor cfg c cut k := by
    intro k hk
    obtain ⟨bk, hbk'⟩ := allSome_some _ _ h4 (dictGet v.basis k)
      (List.mem_map.mpr ⟨k, by rw [hbasisKeys]; exact hk, rfl⟩)
    have hbf : basisFor cfg c cut k = some bk := by rw [← hsee k hk]; exact hbk'
    rw [hfb, hbf]
    exact dictGet_foldl_computeFold_in cfg c cut os [] k bk hk hbf
  have hmap' : os.map (dictGet (computeStep cfg (freshObj n c cut v.disp v.forces) m o).1.basis) =
      os.map (basisFor cfg c cut) := List.map_congr_left hsee'
  have h1' : checkDataset cfg (computeStep cfg (freshObj n c cut v.disp v.forces) m o).1 = none := by
    rw [← h1]
    apply checkDataset_congr
    · rw [hfc]; exact hnat.symm
    · rw [hfc]; rfl
    · rw [hfc]; rfl
  have h4' : allSome (b.basisKeys.map (dictGet (computeStep cfg (freshObj n c cut v.disp v.forces) m o).1.basis)) =
      some bases := by
    rw [hbasisKeys, hmap', ← hmap, ← hbasisKeys]; exact h4
  have h5' : (computeStep cfg (freshObj n c cut v.disp v.forces) m o).1.disp = some d := by
    rw [hfc]; exact h5
  have h6' : (computeStep cfg (freshObj n c cut v.disp v.forces) m o).1.forces = some f := by
    rw [hfc]; exact h6
  have hres' := solveStep_of_data cfg _ m o compact os b bases d f h1' ho hb h4' h5' h6'
  refine ⟨(solveStep cfg v m o compact).1, bases, d, f, hview, h5, h6, ?_, ?_, ?_⟩
  · rw [← hmap, ← hbasisKeys]; exact h4
  · unfold freshSolve; rw [hres']
  · intro k hk
    have hkf : k ∈ b.fcKeys := by rw [hfcKeys]; exact hk
    have hval : dictGet (solveStep cfg v m o compact).1.fc k = some (solvedVal b bases d f compact k) := by
      rw [hres]
      simp only
      rw [dictGet_foldl_dictSet]
      simp only [hkf, if_true]
    refine ⟨?_, ?_⟩
    · rw [hval, solvedVal, hbo]
    · unfold freshSolve
      rw [hval, hres']
      simp only
      rw [dictGet_foldl_dictSet]
      simp only [hkf, if_true]

/-! ### M3 — sharing between objects of DIFFERENT configurations: the observation as a theorem -/

/-- A (object 0, cutoff token 5 for order 2) gets a dataset and computes order 2; B (object 1, same supercell,
    cutoff token 7) is created, is handed A's dict (`B.basis_set = A.basis_set`) … -/
def m3Before : List MOp :=
  [ .new 2 1 [(2, some 5)],
    .new 2 1 [(2, some 7)],
    .setDisp 0 ⟨10, [5, 2, 3]⟩,
    .setForces 0 ⟨11, [5, 2, 3]⟩,
    .computeBasis 0 none (some [2]),
    .handOver 1 0 ]

/-- … and recomputes order 2 -/
def m3History : List MOp := m3Before ++ [ .computeBasis 1 none (some [2]) ]

/-- the order-2 entry of `force_constants` of object `i` after `solve(orders=[2])` in state `s` -/
def fc2After (s : MState) (i : Nat) : Option (Option FcVal) :=
  (view (mstep genApiCfg s (.solve i none (some [2]) true)).1 i).map (fun v => dictGet v.fc 2)

/-- M3. After B — an object with ANOTHER cutoff — has taken A's dict and recomputed order 2, A's own solve of
    order 2 succeeds but was computed from a basis set with B's cutoff (token 7), whereas a fresh object with A's
    configuration and dataset (and A itself right after the hand-over, before B recomputed) uses A's cutoff
    (token 5). The two objects hold the same dict, and B wrote into it. -/
theorem sharing_with_another_cutoff_changes_the_giver :
    -- A and B hold the same dict
    refOf (runM genApiCfg .empty m3History) 0 = refOf (runM genApiCfg .empty m3History) 1 ∧
    -- A's solve raises nothing …
    (mstep genApiCfg (runM genApiCfg .empty m3History) (.solve 0 none (some [2]) true)).2 = none ∧
    -- … and used B's basis set
    fc2After (runM genApiCfg .empty m3History) 0 =
      some (some { order := 2, orders := [2], bases := [{ order := 2, cfgId := 1, cutoff := some 7 }],
                   disp := 10, forces := 11, compact := true }) ∧
    -- a fresh object with A's configuration and dataset
    dictGet (freshSolve genApiCfg 2 1 [(2, some 5)] (some ⟨10, [5, 2, 3]⟩) (some ⟨11, [5, 2, 3]⟩)
              none (some [2]) true).1.fc 2 =
      some { order := 2, orders := [2], bases := [{ order := 2, cfgId := 1, cutoff := some 5 }],
             disp := 10, forces := 11, compact := true } ∧
    -- A itself before B recomputed
    fc2After (runM genApiCfg .empty m3Before) 0 =
      some (some { order := 2, orders := [2], bases := [{ order := 2, cfgId := 1, cutoff := some 5 }],
                   disp := 10, forces := 11, compact := true }) := by
  decide

/-! ### M4 — what a copying setter would give -/

/-- M4. If the setter stored a COPY (`handOverCopy`), `dst` would see the same basis sets as `src` right after the
    hand-over, and a later `compute_basis_set` on `dst` would leave everything `src` sees unchanged. -/
theorem handover_of_a_copy_is_isolated (cfg : ApiCfg) (s : MState) (hwf : WF s) (dst src : Nat)
    (hne : dst ≠ src) (vd vs : ApiState) (hd : view s dst = some vd) (hs : view s src = some vs)
    (m : Option Nat) (os : Option (List Nat)) :
    (handOverCopy s dst src).2 = none ∧
    view (handOverCopy s dst src).1 dst = some { vd with basis := vs.basis } ∧
    view (handOverCopy s dst src).1 src = some vs ∧
    view (mstep cfg (handOverCopy s dst src).1 (.computeBasis dst m os)).1 src = some vs := by
  obtain ⟨od, hod, rfl⟩ := view_eq_some.mp hd
  obtain ⟨osr, hos, rfl⟩ := view_eq_some.mp hs
  have hlt : osr.dictRef < s.dicts.length := hwf osr (mem_of_get hos)
  have e : handOverCopy s dst src =
      ({ objs := s.objs.set dst { od with dictRef := s.dicts.length },
         dicts := s.dicts ++ [heapGet s osr.dictRef] }, none) := by
    simp only [handOverCopy, hod, hos]
  have hsrc1 : (MState.mk (s.objs.set dst { od with dictRef := s.dicts.length })
      (s.dicts ++ [heapGet s osr.dictRef])).objs[src]? = some osr := by
    show (s.objs.set dst _)[src]? = some osr
    rw [List.getElem?_set_ne hne]; exact hos
  have hdst1 : (MState.mk (s.objs.set dst { od with dictRef := s.dicts.length })
      (s.dicts ++ [heapGet s osr.dictRef])).objs[dst]? = some { od with dictRef := s.dicts.length } := by
    show (s.objs.set dst _)[dst]? = _
    simp only [List.getElem?_set, lt_of_get hod, if_true]
  rw [e]
  refine ⟨rfl, ?_, ?_, ?_⟩
  · unfold view
    rw [hdst1]
    simp only [Option.map_some]
    unfold viewOf
    simp only [heapGet_append_new]
  · unfold view
    rw [hsrc1]
    simp only [Option.map_some]
    unfold viewOf
    rw [heapGet_append s _ _ osr.dictRef hlt]
  · show view (mCompute cfg _ dst m os).1 src = _
    rw [mCompute_eq cfg _ dst _ hdst1]
    unfold view
    simp only [hsrc1, Option.map_some]
    unfold viewOf
    have hne' : ¬ osr.dictRef = s.dicts.length := Nat.ne_of_lt hlt
    have hg : ∀ (objs : List MObj) (x : List (Nat × Basis)),
        heapGet { objs := objs, dicts := (s.dicts ++ [heapGet s osr.dictRef]).set s.dicts.length x } osr.dictRef =
          heapGet s osr.dictRef := by
      intro objs x
      unfold heapGet
      have hne'' : ¬ s.dicts.length = osr.dictRef := fun e => hne' e.symm
      simp only [List.getElem?_set, hne'', if_false, List.getElem?_append_left hlt]
    simp only [hg]

/-- … on the M3 history: with a copying setter A keeps its own basis set after B recomputed -/
theorem handover_of_a_copy_is_isolated_example :
    fc2After (mstep genApiCfg (handOverCopy (runM genApiCfg .empty (m3Before.take 5)) 1 0).1
                (.computeBasis 1 none (some [2]))).1 0 =
      some (some { order := 2, orders := [2], bases := [{ order := 2, cfgId := 1, cutoff := some 5 }],
                   disp := 10, forces := 11, compact := true }) := by
  decide

end Symfc.ApiMulti
