/- Lemmas/Corollaries.lean — capstone corollaries K1–K5 for the symfc basis-set pipeline
   (`FCBasisSetO2/O3/O4.run`), obtained by composing

     * `Pipeline.pipeline_range`            (range B = range A ∩ Fix P ∩ ker T),
     * `Pipeline.indicator_range_invariant` (range of the normalised indicator matrix A = c_pt),
     * `LinAlg.indicator_orthonormal`       (Aᵀ A = 1 for that matrix — DERIVED here, not assumed),
     * `GroupAvg.G2 / G3 / G6`              (P = avg ρ is the orthogonal projector onto the invariants).

   Symbols:  A = c_pt (normalised indicator matrix of the component labelling of the permutation
   stage), P = avg ρ (coset projector), W₂ = eigsh_projector(Aᵀ P A), T = sum-rule matrix,
   W₃ = eigsh_projector_sumrule(1 − (1/ν)(A W₂)ᵀ Tᵀ T (A W₂)), B = A W₂ W₃.

   K1–K3 are stated with the hypotheses they actually need (each is a statement about ONE stage of
   the pipeline, the other stages may be arbitrary matrices); K4 needs all of them. -/
import SymfcModel.Lemmas.Pipeline
import SymfcModel.Lemmas.GroupAvg

namespace Symfc.Corollaries

open Matrix Symfc.LinAlg Symfc.Pipeline Symfc.GroupAvg

section Capstone

variable {K : Type*} [Field K] [LinearOrder K] [IsStrictOrderedRing K]
variable {n k k₂ k₃ r G H : Type*}
variable [Fintype n] [Fintype k] [Fintype k₂] [Fintype k₃] [Fintype r]
variable [DecidableEq n] [DecidableEq k] [DecidableEq k₂] [DecidableEq k₃]
variable [Group H] [Fintype H]

omit [LinearOrder K] [IsStrictOrderedRing K] [DecidableEq n] [DecidableEq k₂] [DecidableEq k₃] in
/-- **K1.** Every vector produced from the basis `B = A W₂ W₃`, with `A` the normalised indicator
matrix of a labelling whose classes are the orbits of the permutations `g s`, is invariant under
every `g s` and vanishes on unlabelled (eliminated) indices — WHATEVER the later stages `W₂`, `W₃`
are (no eigen contract, no hypothesis on `P`, `T`, `ν` is needed: `B c = A (W₂ (W₃ c))`). -/
theorem basis_vectors_are_invariant_under_the_permutations
    (label : n → Option k) (w : k → K)
    (hcount : ∀ j, (w j) ^ 2 * ((Finset.univ.filter (fun i => label i = some j)).card : K) = 1)
    (g : G → Equiv.Perm n)
    (horbit : ∀ i j, label i ≠ none → (label i = label j ↔ ∃ s : G, g s i = j))
    (hnone : ∀ s i, label i = none → label (g s i) = none)
    (A : Matrix n k K) (hAdef : A = Matrix.of (fun i j => if label i = some j then w j else 0))
    (W₂ : Matrix k k₂ K) (W₃ : Matrix k₂ k₃ K) (c : k₃ → K) :
    (∀ s i, ((A * W₂ * W₃) *ᵥ c) (g s i) = ((A * W₂ * W₃) *ᵥ c) i) ∧
      (∀ i, label i = none → ((A * W₂ * W₃) *ᵥ c) i = 0) := by
  subst hAdef
  have e : ∀ A : Matrix n k K, (A * W₂ * W₃) *ᵥ c = A *ᵥ (W₂ *ᵥ (W₃ *ᵥ c)) := fun A => by
    simp only [Matrix.mulVec_mulVec, Matrix.mul_assoc]
  have h := (indicator_range_invariant label w hcount g horbit hnone _).mp ⟨_, e _⟩
  exact ⟨h.2, h.1⟩

omit [DecidableEq k₃] in
/-- **K2.** With `P = avg ρ` the group average of an orthogonal representation `ρ` (symmetric and
idempotent by `GroupAvg.G2` — derived, not assumed), `A` with orthonormal columns and `W₂`
satisfying the eigen contract for `Aᵀ P A`, every vector produced from `B = A W₂ W₃` is invariant
under EVERY operation `ρ h` — whatever `W₃` is. -/
theorem basis_vectors_are_invariant_under_the_group
    {ρ : H → Matrix n n K} (hρ : OrthRep ρ)
    (A : Matrix n k K) (hA : Aᵀ * A = 1)
    (W₂ : Matrix k k₂ K) (W₃ : Matrix k₂ k₃ K)
    (h₂ : EigBasis (Aᵀ * avg ρ * A) W₂) (c : k₃ → K) :
    ∀ h, ρ h *ᵥ ((A * W₂ * W₃) *ᵥ c) = (A * W₂ * W₃) *ᵥ c := by
  have e : (A * W₂ * W₃) *ᵥ c = A *ᵥ (W₂ *ᵥ (W₃ *ᵥ c)) := by
    simp only [Matrix.mulVec_mulVec, Matrix.mul_assoc]
  rw [e]
  exact (G6 hρ A hA _).mp ((h₂.2 _).mpr ⟨_, rfl⟩)

omit [DecidableEq n] [DecidableEq k] in
/-- **K3.** With `W₃` satisfying the eigen contract for the sum-rule matrix
`1 − (1/ν)(A W₂)ᵀ Tᵀ T (A W₂)` and `ν > 0`, every vector produced from `B = A W₂ W₃` obeys the sum
rule `T x = 0` — whatever `A` and `W₂` are. -/
theorem basis_vectors_obey_the_sum_rule
    (A : Matrix n k K) (T : Matrix r n K) (ν : K)
    (W₂ : Matrix k k₂ K) (W₃ : Matrix k₂ k₃ K)
    (h₃ : EigBasis (sumruleProj (A * W₂) T ν) W₃) (hν : 0 < ν) (c : k₃ → K) :
    T *ᵥ ((A * W₂ * W₃) *ᵥ c) = 0 := by
  have hz : sumruleProj (A * W₂) T ν *ᵥ (W₃ *ᵥ c) = W₃ *ᵥ c := (h₃.2 _).mpr ⟨c, rfl⟩
  have hT := (sumrule_unit_iff (A * W₂) T ν hν _).mp hz
  simpa only [Matrix.mulVec_mulVec, Matrix.mul_assoc] using hT

/-- **K4.** The basis `B = A W₂ W₃` spans EXACTLY the admissible space: a vector is a combination
of basis vectors iff it vanishes on eliminated indices, is invariant under every permutation `g s`,
is invariant under every group operation `ρ h`, and obeys the sum rule.  `Aᵀ A = 1` is derived from
`LinAlg.indicator_orthonormal` (same `hcount`), `P = avg ρ` symmetric idempotent from
`GroupAvg.G2`. -/
theorem basis_is_exactly_the_admissible_space
    (label : n → Option k) (w : k → K)
    (hcount : ∀ j, (w j) ^ 2 * ((Finset.univ.filter (fun i => label i = some j)).card : K) = 1)
    (g : G → Equiv.Perm n)
    (horbit : ∀ i j, label i ≠ none → (label i = label j ↔ ∃ s : G, g s i = j))
    (hnone : ∀ s i, label i = none → label (g s i) = none)
    (A : Matrix n k K) (hAdef : A = Matrix.of (fun i j => if label i = some j then w j else 0))
    {ρ : H → Matrix n n K} (hρ : OrthRep ρ)
    (T : Matrix r n K) (ν : K) (hν : 0 < ν)
    (W₂ : Matrix k k₂ K) (W₃ : Matrix k₂ k₃ K)
    (h₂ : EigBasis (Aᵀ * avg ρ * A) W₂)
    (h₃ : EigBasis (sumruleProj (A * W₂) T ν) W₃)
    (x : n → K) :
    (∃ c : k₃ → K, x = (A * W₂ * W₃) *ᵥ c) ↔
      ((∀ i, label i = none → x i = 0) ∧ (∀ s i, x (g s i) = x i) ∧
        (∀ h, ρ h *ᵥ x = x) ∧ T *ᵥ x = 0) := by
  have hA : Aᵀ * A = 1 := by
    subst hAdef; exact indicator_orthonormal label w hcount
  rw [pipeline_range A (avg ρ) T ν W₂ W₃ hA h₂ h₃ (G2 hρ).2 (G2 hρ).1 hν x, G3 hρ x, hAdef,
    indicator_range_invariant label w hcount g horbit hnone x, and_assoc]

end Capstone

/-! ## K5: non-vacuity over ℚ

Example 1. Class space `Fin 4`; index 3 is eliminated (unlabelled), indices 0, 1, 2 are three
singleton classes (weights 1, permutation family = the identity); the group `ℤˣ = {1, -1}` acts by
`u ↦ diag(1, 1, u, 1)` (so invariance forces `x 2 = 0`); sum rule `T = (4 −3 0 0)`, `ν = 25`.
Then `W₂ = (e₀ e₁)`, `W₃ = (3/5, 4/5)ᵀ` and `B = (3/5, 4/5, 0, 0)ᵀ`: every hypothesis of K1–K4
holds, the basis is non-empty, and the admissible space is a proper non-zero subspace. -/

section Example1

private def lab₁ : Fin 4 → Option (Fin 3) := ![some 0, some 1, some 2, none]
private def w₁ : Fin 3 → ℚ := fun _ => 1
private def g₁ : Unit → Equiv.Perm (Fin 4) := fun _ => 1
private def A₁ : Matrix (Fin 4) (Fin 3) ℚ := !![1, 0, 0; 0, 1, 0; 0, 0, 1; 0, 0, 0]
private def ρ₁ (u : ℤˣ) : Matrix (Fin 4) (Fin 4) ℚ :=
  !![1, 0, 0, 0; 0, 1, 0, 0; 0, 0, ((u : ℤ) : ℚ), 0; 0, 0, 0, 1]
private def T₁ : Matrix (Fin 1) (Fin 4) ℚ := !![4, -3, 0, 0]
private def W₂₁ : Matrix (Fin 3) (Fin 2) ℚ := !![1, 0; 0, 1; 0, 0]
private def W₃₁ : Matrix (Fin 2) (Fin 1) ℚ := !![3/5; 4/5]

private theorem hcount₁ :
    ∀ j, (w₁ j) ^ 2 * ((Finset.univ.filter (fun i => lab₁ i = some j)).card : ℚ) = 1 := by
  have h : ∀ j : Fin 3, (Finset.univ.filter (fun i : Fin 4 => lab₁ i = some j)).card = 1 := by
    decide
  intro j
  rw [h j]; simp [w₁]

private theorem horbit₁ :
    ∀ i j, lab₁ i ≠ none → (lab₁ i = lab₁ j ↔ ∃ s : Unit, g₁ s i = j) := by
  decide

private theorem hnone₁ : ∀ s i, lab₁ i = none → lab₁ (g₁ s i) = none := fun _ _ h => h

private theorem A₁_def :
    A₁ = Matrix.of (fun i j => if lab₁ i = some j then w₁ j else 0) := by
  ext i j; fin_cases i <;> fin_cases j <;> simp [A₁, lab₁, w₁]

private theorem A₁_orth : A₁ᵀ * A₁ = 1 := by
  rw [A₁_def]; exact indicator_orthonormal lab₁ w₁ hcount₁

private theorem ρ₁_rep : OrthRep ρ₁ where
  mul g h := by
    ext i j; fin_cases i <;> fin_cases j <;> simp [ρ₁, Matrix.mul_apply, Fin.sum_univ_four]
  one := by ext i j; fin_cases i <;> fin_cases j <;> simp [ρ₁]
  orth g := by
    rw [Int.units_inv_eq_self]
    ext i j; fin_cases i <;> fin_cases j <;> simp [ρ₁]

private theorem A₁_mulVec (y : Fin 3 → ℚ) : A₁ *ᵥ y = ![y 0, y 1, y 2, 0] := by
  ext i; fin_cases i <;> simp [A₁, Matrix.mulVec, dotProduct, Fin.sum_univ_three]

private theorem eig₂₁ : EigBasis (A₁ᵀ * avg ρ₁ * A₁) W₂₁ := by
  refine ⟨?_, fun y => ?_⟩
  · ext i j; fin_cases i <;> fin_cases j <;> simp [W₂₁, Matrix.mul_apply, Fin.sum_univ_three]
  · rw [G6 ρ₁_rep A₁ A₁_orth, A₁_mulVec]
    constructor
    · intro h
      have h2 : y 2 = 0 := by
        have := congrFun (h (-1)) 2
        simp [ρ₁, Matrix.mulVec, dotProduct, Fin.sum_univ_four] at this
        linarith
      refine ⟨![y 0, y 1], ?_⟩
      ext i; fin_cases i <;> simp [W₂₁, Matrix.mulVec, dotProduct, Fin.sum_univ_two, h2]
    · rintro ⟨z, rfl⟩ u
      ext i; fin_cases i <;>
        simp [ρ₁, W₂₁, Matrix.mulVec, dotProduct, Fin.sum_univ_four, Fin.sum_univ_two]

private theorem eig₃₁ : EigBasis (sumruleProj (A₁ * W₂₁) T₁ 25) W₃₁ := by
  refine ⟨?_, fun y => ?_⟩
  · ext i j; fin_cases i; fin_cases j
    norm_num [W₃₁, Matrix.mul_apply, Fin.sum_univ_two]
  · unfold sumruleProj
    rw [sumrule_unit_iff (A₁ * W₂₁) T₁ 25 (by norm_num)]
    have hT : T₁ *ᵥ ((A₁ * W₂₁) *ᵥ y) = ![4 * y 0 - 3 * y 1] := by
      rw [← Matrix.mulVec_mulVec, A₁_mulVec]
      ext i; fin_cases i
      simp [T₁, W₂₁, Matrix.mulVec, dotProduct, Fin.sum_univ_four, Fin.sum_univ_two]
      ring
    rw [hT]
    constructor
    · intro h
      have h0 : 4 * y 0 - 3 * y 1 = 0 := by simpa using congrFun h 0
      refine ⟨![5 / 3 * y 0], ?_⟩
      ext i; fin_cases i
      · simp [W₃₁, Matrix.mulVec, dotProduct]; ring
      · simp [W₃₁, Matrix.mulVec, dotProduct]; linarith
    · rintro ⟨z, rfl⟩
      ext i; fin_cases i
      simp [W₃₁, Matrix.mulVec, dotProduct]
      ring

/-- The resulting basis is the single non-zero column `(3/5, 4/5, 0, 0)`. -/
example : A₁ * W₂₁ * W₃₁ = !![3/5; 4/5; 0; 0] := by
  ext i j; fin_cases i <;> fin_cases j <;>
    simp [A₁, W₂₁, W₃₁, Matrix.mul_apply, Fin.sum_univ_two]

/-- K4 instantiated: all its hypotheses hold simultaneously for the concrete data. -/
example (x : Fin 4 → ℚ) :
    (∃ c : Fin 1 → ℚ, x = (A₁ * W₂₁ * W₃₁) *ᵥ c) ↔
      ((∀ i, lab₁ i = none → x i = 0) ∧ (∀ s i, x (g₁ s i) = x i) ∧
        (∀ h, ρ₁ h *ᵥ x = x) ∧ T₁ *ᵥ x = 0) :=
  basis_is_exactly_the_admissible_space lab₁ w₁ hcount₁ g₁ horbit₁ hnone₁ A₁ A₁_def ρ₁_rep
    T₁ 25 (by norm_num) W₂₁ W₃₁ eig₂₁ eig₃₁ x

/-- K1–K3 instantiated on the basis vector. -/
example (c : Fin 1 → ℚ) :
    ((∀ s i, ((A₁ * W₂₁ * W₃₁) *ᵥ c) (g₁ s i) = ((A₁ * W₂₁ * W₃₁) *ᵥ c) i) ∧
      (∀ i, lab₁ i = none → ((A₁ * W₂₁ * W₃₁) *ᵥ c) i = 0)) ∧
    (∀ h, ρ₁ h *ᵥ ((A₁ * W₂₁ * W₃₁) *ᵥ c) = (A₁ * W₂₁ * W₃₁) *ᵥ c) ∧
    T₁ *ᵥ ((A₁ * W₂₁ * W₃₁) *ᵥ c) = 0 :=
  ⟨basis_vectors_are_invariant_under_the_permutations lab₁ w₁ hcount₁ g₁ horbit₁ hnone₁ A₁ A₁_def
      W₂₁ W₃₁ c,
   basis_vectors_are_invariant_under_the_group ρ₁_rep A₁ A₁_orth W₂₁ W₃₁ eig₂₁ c,
   basis_vectors_obey_the_sum_rule A₁ T₁ 25 W₂₁ W₃₁ eig₃₁ (by norm_num) c⟩

/-- The admissible space is non-trivial: `(3, 4, 0, 0)` is admissible; `(3, 4, 0, 1)` (non-zero on
the eliminated index), `(3, 4, 1, 0)` (not group invariant) and `(1, 0, 0, 0)` (violates the sum
rule) are not. -/
example :
    (∃ c : Fin 1 → ℚ, (![3, 4, 0, 0] : Fin 4 → ℚ) = (A₁ * W₂₁ * W₃₁) *ᵥ c) ∧
    ¬ (∃ c : Fin 1 → ℚ, (![3, 4, 0, 1] : Fin 4 → ℚ) = (A₁ * W₂₁ * W₃₁) *ᵥ c) ∧
    ¬ (∃ c : Fin 1 → ℚ, (![3, 4, 1, 0] : Fin 4 → ℚ) = (A₁ * W₂₁ * W₃₁) *ᵥ c) ∧
    ¬ (∃ c : Fin 1 → ℚ, (![1, 0, 0, 0] : Fin 4 → ℚ) = (A₁ * W₂₁ * W₃₁) *ᵥ c) := by
  have K4 := basis_is_exactly_the_admissible_space lab₁ w₁ hcount₁ g₁ horbit₁ hnone₁ A₁ A₁_def
    ρ₁_rep T₁ 25 (by norm_num) W₂₁ W₃₁ eig₂₁ eig₃₁
  refine ⟨⟨![5], ?_⟩, ?_, ?_, ?_⟩
  · ext i; fin_cases i <;>
      simp [A₁, W₂₁, W₃₁, Matrix.mulVec, dotProduct, Matrix.mul_apply, Fin.sum_univ_two]
  · rw [K4]
    rintro ⟨h0, -, -, -⟩
    have := h0 3 rfl
    simp at this
  · rw [K4]
    rintro ⟨-, -, hG, -⟩
    have := congrFun (hG (-1)) 2
    simp [ρ₁, Matrix.mulVec, dotProduct, Fin.sum_univ_four] at this
    norm_num at this
  · rw [K4]
    rintro ⟨-, -, -, hT⟩
    have := congrFun hT 0
    simp [T₁, Matrix.mulVec, dotProduct, Fin.sum_univ_four] at this

end Example1

/-! Example 2 (non-trivial permutations and weights). Class space `Fin 6`; the permutation family
is `s ↦ cyc ^ s` (`s : Fin 4`) with `cyc = (0 1 2 3)`, so the classes are `{0,1,2,3}` (weight
`1/2`), `{4}`, `{5}` (weight 1); the group `ℤˣ` acts by `u ↦ diag(1,1,1,1,1,u)` (forces `x 5 = 0`);
sum rule `T = (2 2 2 2 −3 0)`, `ν = 25`.  Then `B = (3/10, 3/10, 3/10, 3/10, 4/5, 0)ᵀ`. -/

section Example2

private def lab₂ : Fin 6 → Option (Fin 3) := ![some 0, some 0, some 0, some 0, some 1, some 2]
private def w₂ : Fin 3 → ℚ := ![1/2, 1, 1]
private def cyc : Equiv.Perm (Fin 6) :=
  ⟨![1, 2, 3, 0, 4, 5], ![3, 0, 1, 2, 4, 5], by decide, by decide⟩
private def g₂ : Fin 4 → Equiv.Perm (Fin 6) := fun s => cyc ^ (s : ℕ)
private def A₂ : Matrix (Fin 6) (Fin 3) ℚ :=
  !![1/2, 0, 0; 1/2, 0, 0; 1/2, 0, 0; 1/2, 0, 0; 0, 1, 0; 0, 0, 1]
private def ρ₂ (u : ℤˣ) : Matrix (Fin 6) (Fin 6) ℚ :=
  Matrix.diagonal ![1, 1, 1, 1, 1, ((u : ℤ) : ℚ)]
private def T₂ : Matrix (Fin 1) (Fin 6) ℚ := !![2, 2, 2, 2, -3, 0]

private theorem hcount₂ :
    ∀ j, (w₂ j) ^ 2 * ((Finset.univ.filter (fun i => lab₂ i = some j)).card : ℚ) = 1 := by
  have h : ∀ j : Fin 3, (Finset.univ.filter (fun i : Fin 6 => lab₂ i = some j)).card
      = (![4, 1, 1] : Fin 3 → ℕ) j := by
    decide
  intro j
  rw [h j]; fin_cases j <;> norm_num [w₂]

private theorem horbit₂ :
    ∀ i j, lab₂ i ≠ none → (lab₂ i = lab₂ j ↔ ∃ s : Fin 4, g₂ s i = j) := by
  decide

private theorem hnone₂ : ∀ s i, lab₂ i = none → lab₂ (g₂ s i) = none := by
  decide

private theorem A₂_def :
    A₂ = Matrix.of (fun i j => if lab₂ i = some j then w₂ j else 0) := by
  ext i j; fin_cases i <;> fin_cases j <;> simp [A₂, lab₂, w₂]

private theorem A₂_orth : A₂ᵀ * A₂ = 1 := by
  rw [A₂_def]; exact indicator_orthonormal lab₂ w₂ hcount₂

private theorem ρ₂_rep : OrthRep ρ₂ where
  mul g h := by
    unfold ρ₂
    rw [Matrix.diagonal_mul_diagonal]
    congr 1
    ext i; fin_cases i <;> simp
  one := by
    unfold ρ₂
    rw [← Matrix.diagonal_one]
    congr 1
    ext i; fin_cases i <;> simp
  orth g := by
    rw [Int.units_inv_eq_self]
    exact Matrix.diagonal_transpose _

private theorem A₂_mulVec (y : Fin 3 → ℚ) :
    A₂ *ᵥ y = ![y 0 / 2, y 0 / 2, y 0 / 2, y 0 / 2, y 1, y 2] := by
  ext i; fin_cases i <;> simp [A₂, Matrix.mulVec, dotProduct, Fin.sum_univ_three] <;> ring

private theorem eig₂₂ : EigBasis (A₂ᵀ * avg ρ₂ * A₂) W₂₁ := by
  refine ⟨?_, fun y => ?_⟩
  · ext i j; fin_cases i <;> fin_cases j <;> simp [W₂₁, Matrix.mul_apply, Fin.sum_univ_three]
  · rw [G6 ρ₂_rep A₂ A₂_orth, A₂_mulVec]
    constructor
    · intro h
      have h2 : y 2 = 0 := by
        have := congrFun (h (-1)) 5
        simp [ρ₂, Matrix.mulVec_diagonal] at this
        linarith
      refine ⟨![y 0, y 1], ?_⟩
      ext i; fin_cases i <;> simp [W₂₁, Matrix.mulVec, dotProduct, Fin.sum_univ_two, h2]
    · rintro ⟨z, rfl⟩ u
      ext i
      rw [ρ₂, Matrix.mulVec_diagonal]
      fin_cases i <;> simp [W₂₁, Matrix.mulVec, dotProduct, Fin.sum_univ_two]

private theorem eig₃₂ : EigBasis (sumruleProj (A₂ * W₂₁) T₂ 25) W₃₁ := by
  refine ⟨?_, fun y => ?_⟩
  · ext i j; fin_cases i; fin_cases j
    norm_num [W₃₁, Matrix.mul_apply, Fin.sum_univ_two]
  · unfold sumruleProj
    rw [sumrule_unit_iff (A₂ * W₂₁) T₂ 25 (by norm_num)]
    have hT : T₂ *ᵥ ((A₂ * W₂₁) *ᵥ y) = ![4 * y 0 - 3 * y 1] := by
      rw [← Matrix.mulVec_mulVec, A₂_mulVec]
      ext i; fin_cases i
      simp [T₂, W₂₁, Matrix.mulVec, dotProduct, Fin.sum_univ_six, Fin.sum_univ_two]
      ring
    rw [hT]
    constructor
    · intro h
      have h0 : 4 * y 0 - 3 * y 1 = 0 := by simpa using congrFun h 0
      refine ⟨![5 / 3 * y 0], ?_⟩
      ext i; fin_cases i
      · simp [W₃₁, Matrix.mulVec, dotProduct]; ring
      · simp [W₃₁, Matrix.mulVec, dotProduct]; linarith
    · rintro ⟨z, rfl⟩
      ext i; fin_cases i
      simp [W₃₁, Matrix.mulVec, dotProduct]
      ring

/-- The resulting basis is the single column `(3/10, 3/10, 3/10, 3/10, 4/5, 0)`. -/
example : A₂ * W₂₁ * W₃₁ = !![3/10; 3/10; 3/10; 3/10; 4/5; 0] := by
  ext i j; fin_cases i <;> fin_cases j <;>
    simp [A₂, W₂₁, W₃₁, Matrix.mul_apply, Fin.sum_univ_two] <;> norm_num

/-- K4 instantiated with a non-trivial permutation family, a class of four elements (weight 1/2),
a non-trivial group and a non-trivial sum rule. -/
example (x : Fin 6 → ℚ) :
    (∃ c : Fin 1 → ℚ, x = (A₂ * W₂₁ * W₃₁) *ᵥ c) ↔
      ((∀ i, lab₂ i = none → x i = 0) ∧ (∀ s i, x (g₂ s i) = x i) ∧
        (∀ h, ρ₂ h *ᵥ x = x) ∧ T₂ *ᵥ x = 0) :=
  basis_is_exactly_the_admissible_space lab₂ w₂ hcount₂ g₂ horbit₂ hnone₂ A₂ A₂_def ρ₂_rep
    T₂ 25 (by norm_num) W₂₁ W₃₁ eig₂₂ eig₃₂ x

/-- `(3, 3, 3, 3, 8, 0)` is admissible; `(8, 3, 3, 3, 8, 0)` is not (it is not invariant under the
cyclic permutation, although it is group invariant). -/
example :
    (∃ c : Fin 1 → ℚ, (![3, 3, 3, 3, 8, 0] : Fin 6 → ℚ) = (A₂ * W₂₁ * W₃₁) *ᵥ c) ∧
    ¬ (∃ c : Fin 1 → ℚ, (![8, 3, 3, 3, 8, 0] : Fin 6 → ℚ) = (A₂ * W₂₁ * W₃₁) *ᵥ c) := by
  have K4 := basis_is_exactly_the_admissible_space lab₂ w₂ hcount₂ g₂ horbit₂ hnone₂ A₂ A₂_def
    ρ₂_rep T₂ 25 (by norm_num) W₂₁ W₃₁ eig₂₂ eig₃₂
  refine ⟨⟨![10], ?_⟩, ?_⟩
  · ext i; fin_cases i <;>
      simp [A₂, W₂₁, W₃₁, Matrix.mulVec, dotProduct, Matrix.mul_apply, Fin.sum_univ_two] <;>
      norm_num
  · rw [K4]
    rintro ⟨-, hS, -, -⟩
    have := hS 1 0
    have e : g₂ 1 0 = 1 := by decide
    rw [e] at this
    simp at this

end Example2

end Symfc.Corollaries
