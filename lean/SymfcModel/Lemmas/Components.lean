/-
  Lemmas/Components.lean — correctness of the executable component labelling
  (`relaxOnce`, `relaxFix`, `componentLabels` of Model/Perm.lean) against the spec `SameComp`.

  K1 invariant (size, frame, labels are members of the own component, `≤` own index)
  K2 fixed point ⇒ constant on components
  K3 equal labels ⇒ same component
  K4 `ptr.size` sweeps reach a fixed point
  K5 main theorem for `componentLabels`
  K6 well-formedness of the arrays produced by the model
-/
import SymfcModel.Lemmas.PermSound
namespace Symfc

/-! ## generic array helpers -/

theorem getD_setIfInBounds (a : Array Int) (i x : Nat) (v d : Int) :
    (a.setIfInBounds i v).getD x d = if x = i ∧ i < a.size then v else a.getD x d := by
  rw [Array.getD_eq_getD_getElem?, Array.getD_eq_getD_getElem?, Array.getElem?_setIfInBounds]
  by_cases hx : i = x
  · subst hx
    by_cases hi : i < a.size
    · simp [hi]
    · simp [hi]
  · have hx' : ¬ x = i := fun h => hx h.symm
    simp [hx, hx']

theorem array_ext_getD_comp {a b : Array Int} (hs : a.size = b.size)
    (h : ∀ x, a.getD x (-1) = b.getD x (-1)) : a = b := by
  apply Array.ext hs
  intro i h1 h2
  rw [getElem_eq_getD h1 (-1), getElem_eq_getD h2 (-1)]
  exact h i

theorem getD_neg_of_not_lt {a : Array Int} {x : Nat} (h : ¬ x < a.size) : a.getD x (-1) = -1 := by
  simp [Array.getD, h]

/-! ## one step of a sweep -/

/-- the body of the fold in `relaxOnce` -/
def relaxStep (ptr : Array Int) (lab : Array Int) (e : Nat) : Array Int :=
  let p := ptr.getD e (-1)
  if p == -1 then lab else
  let le := lab.getD e (-1)
  let lp := lab.getD p.toNat (-1)
  if lp == -1 then lab else
  let m := min le lp
  (lab.setIfInBounds e m).setIfInBounds p.toNat m

/-- a partial sweep over an arbitrary list of edges -/
def sweep (ptr : Array Int) (l : List Nat) (lab : Array Int) : Array Int :=
  l.foldl (relaxStep ptr) lab

theorem relaxOnce_eq_sweep (ptr lab : Array Int) :
    relaxOnce ptr lab = sweep ptr (List.range ptr.size) lab := rfl

@[simp] theorem sweep_nil (ptr lab : Array Int) : sweep ptr [] lab = lab := rfl

@[simp] theorem sweep_cons (ptr lab : Array Int) (e : Nat) (l : List Nat) :
    sweep ptr (e :: l) lab = sweep ptr l (relaxStep ptr lab e) := rfl

theorem sweep_append (ptr lab : Array Int) (l1 l2 : List Nat) :
    sweep ptr (l1 ++ l2) lab = sweep ptr l2 (sweep ptr l1 lab) := by
  simp [sweep, List.foldl_append]

theorem relaxStep_skip {ptr lab : Array Int} {e : Nat} (h : ptr.getD e (-1) = -1) :
    relaxStep ptr lab e = lab := by
  unfold relaxStep
  simp only [beq_iff_eq]
  rw [if_pos h]

theorem relaxStep_skip' {ptr lab : Array Int} {e : Nat}
    (h : lab.getD (ptr.getD e (-1)).toNat (-1) = -1) : relaxStep ptr lab e = lab := by
  unfold relaxStep
  simp only [beq_iff_eq]
  rw [if_pos h]
  split <;> rfl

theorem relaxStep_do {ptr lab : Array Int} {e : Nat} (h1 : ptr.getD e (-1) ≠ -1)
    (h2 : lab.getD (ptr.getD e (-1)).toNat (-1) ≠ -1) :
    relaxStep ptr lab e =
      (lab.setIfInBounds e (min (lab.getD e (-1)) (lab.getD (ptr.getD e (-1)).toNat (-1)))).setIfInBounds
        (ptr.getD e (-1)).toNat (min (lab.getD e (-1)) (lab.getD (ptr.getD e (-1)).toNat (-1))) := by
  unfold relaxStep
  simp only [beq_iff_eq]
  rw [if_neg h1, if_neg h2]

@[simp] theorem relaxStep_size (ptr lab : Array Int) (e : Nat) :
    (relaxStep ptr lab e).size = lab.size := by
  unfold relaxStep
  simp only
  split
  · rfl
  · split
    · rfl
    · simp

@[simp] theorem sweep_size (ptr lab : Array Int) (l : List Nat) :
    (sweep ptr l lab).size = lab.size := by
  induction l generalizing lab with
  | nil => rfl
  | cons e l ih => rw [sweep_cons, ih, relaxStep_size]

@[simp] theorem relaxOnce_size (ptr lab : Array Int) : (relaxOnce ptr lab).size = lab.size := by
  rw [relaxOnce_eq_sweep, sweep_size]

/-- labels never increase in a step (no hypotheses needed) -/
theorem relaxStep_le (ptr lab : Array Int) (e x : Nat) :
    (relaxStep ptr lab e).getD x (-1) ≤ lab.getD x (-1) := by
  by_cases h1 : ptr.getD e (-1) = -1
  · rw [relaxStep_skip h1]; exact Int.le_refl _
  · by_cases h2 : lab.getD (ptr.getD e (-1)).toNat (-1) = -1
    · rw [relaxStep_skip' h2]; exact Int.le_refl _
    · rw [relaxStep_do h1 h2, getD_setIfInBounds, getD_setIfInBounds]
      split
      · rename_i h; rw [h.1]; exact Int.min_le_right _ _
      · split
        · rename_i h; rw [h.1]; exact Int.min_le_left _ _
        · exact Int.le_refl _

theorem sweep_le (ptr lab : Array Int) (l : List Nat) (x : Nat) :
    (sweep ptr l lab).getD x (-1) ≤ lab.getD x (-1) := by
  induction l generalizing lab with
  | nil => exact Int.le_refl _
  | cons e l ih => rw [sweep_cons]; exact Int.le_trans (ih _) (relaxStep_le ptr lab e x)

/-! ## well-formed pointer arrays and the labelling invariant (K1) -/

/-- every edge points to a covered (hence in-range) node; values are `≥ 0` or `-1` -/
def WFPtr (ptr : Array Int) : Prop :=
  ∀ e, covered ptr e → ∃ p, ptr.getD e (-1) = Int.ofNat p ∧ covered ptr p

theorem WFPtr.linked_covered {ptr : Array Int} (h : WFPtr ptr) {a b : Nat} (hl : linked ptr a b) :
    covered ptr b := by
  obtain ⟨p, hp, hc⟩ := h a hl.covered
  have : p = b := Int.ofNat.inj (hp.symm.trans hl.2)
  exact this ▸ hc

theorem WFPtr.sameComp_covered {ptr : Array Int} (h : WFPtr ptr) {a b : Nat}
    (hab : SameComp ptr a b) : covered ptr a ∧ covered ptr b := by
  induction hab with
  | refl hc => exact ⟨hc, hc⟩
  | link hl => exact ⟨hl.covered, h.linked_covered hl⟩
  | symm _ ih => exact ⟨ih.2, ih.1⟩
  | trans _ _ ih1 ih2 => exact ⟨ih1.1, ih2.2⟩

/-- the invariant of the labelling: right size, `-1` exactly off the covered nodes, and every
    covered node holds the index of a member of its own component that is `≤` its own index -/
structure LabInv (ptr lab : Array Int) : Prop where
  size_eq : lab.size = ptr.size
  uncov : ∀ e, ¬ covered ptr e → lab.getD e (-1) = -1
  cov : ∀ e, covered ptr e → ∃ r, lab.getD e (-1) = Int.ofNat r ∧ r ≤ e ∧ SameComp ptr e r

theorem covered_of_getD_ne {ptr : Array Int} {e : Nat} (h : ptr.getD e (-1) ≠ -1) :
    covered ptr e := by
  refine ⟨?_, h⟩
  apply Classical.byContradiction
  intro hlt
  exact h (getD_neg_of_not_lt hlt)

/-- exact effect of a step at a covered edge `e → q` -/
theorem relaxStep_getD {ptr lab : Array Int} (hi : LabInv ptr lab) {e q : Nat}
    (hq : ptr.getD e (-1) = Int.ofNat q) (hcq : covered ptr q) (x : Nat) :
    (relaxStep ptr lab e).getD x (-1) =
      if x = q ∨ x = e then min (lab.getD e (-1)) (lab.getD q (-1)) else lab.getD x (-1) := by
  have h1 : ptr.getD e (-1) ≠ -1 := by rw [hq]; exact ofNat_ne_neg_one q
  have he : covered ptr e := covered_of_getD_ne h1
  obtain ⟨r2, hr2, -, -⟩ := hi.cov q hcq
  have h2 : lab.getD (ptr.getD e (-1)).toNat (-1) ≠ -1 := by
    rw [hq, toNat_ofNat', hr2]; exact ofNat_ne_neg_one r2
  rw [relaxStep_do h1 h2, hq, toNat_ofNat', getD_setIfInBounds, getD_setIfInBounds]
  have hes : e < lab.size := by rw [hi.size_eq]; exact he.1
  have hqs : q < lab.size := by rw [hi.size_eq]; exact hcq.1
  by_cases hxq : x = q
  · simp [hxq, hqs]
  · by_cases hxe : x = e
    · simp [hxe, hes]
    · simp [hxq, hxe]

theorem relaxStep_inv {ptr lab : Array Int} (hw : WFPtr ptr) (hi : LabInv ptr lab) (e : Nat) :
    LabInv ptr (relaxStep ptr lab e) := by
  by_cases h1 : ptr.getD e (-1) = -1
  · rw [relaxStep_skip h1]; exact hi
  · have he : covered ptr e := covered_of_getD_ne h1
    obtain ⟨q, hq, hcq⟩ := hw e he
    have hl : linked ptr e q := ⟨he.1, hq⟩
    obtain ⟨r1, hr1, hle1, hs1⟩ := hi.cov e he
    obtain ⟨r2, hr2, hle2, hs2⟩ := hi.cov q hcq
    refine ⟨by rw [relaxStep_size]; exact hi.size_eq, fun x hx => ?_, fun x hx => ?_⟩
    · rw [relaxStep_getD hi hq hcq, if_neg]
      · exact hi.uncov x hx
      · rintro (rfl | rfl)
        · exact hx hcq
        · exact hx he
    · rw [relaxStep_getD hi hq hcq]
      split
      · rename_i hxx
        rw [hr1, hr2]
        rcases Nat.le_total r1 r2 with h12 | h21
        · refine ⟨r1, ?_, ?_, ?_⟩
          · exact Int.min_eq_left (Int.ofNat_le.mpr h12)
          · rcases hxx with rfl | rfl
            · omega
            · exact hle1
          · rcases hxx with rfl | rfl
            · exact .trans (.symm (.link hl)) hs1
            · exact hs1
        · refine ⟨r2, ?_, ?_, ?_⟩
          · exact Int.min_eq_right (Int.ofNat_le.mpr h21)
          · rcases hxx with rfl | rfl
            · exact hle2
            · omega
          · rcases hxx with rfl | rfl
            · exact hs2
            · exact .trans (.link hl) hs2
      · exact hi.cov x hx

theorem sweep_inv {ptr lab : Array Int} (hw : WFPtr ptr) (hi : LabInv ptr lab) (l : List Nat) :
    LabInv ptr (sweep ptr l lab) := by
  induction l generalizing lab with
  | nil => exact hi
  | cons e l ih => rw [sweep_cons]; exact ih (relaxStep_inv hw hi e)

theorem relaxOnce_inv {ptr lab : Array Int} (hw : WFPtr ptr) (hi : LabInv ptr lab) :
    LabInv ptr (relaxOnce ptr lab) := sweep_inv hw hi _

theorem relaxFix_inv {ptr : Array Int} (hw : WFPtr ptr) (fuel : Nat) {lab : Array Int}
    (hi : LabInv ptr lab) : LabInv ptr (relaxFix ptr fuel lab) := by
  induction fuel generalizing lab with
  | zero => exact hi
  | succ n ih =>
    unfold relaxFix
    simp only
    split
    · exact hi
    · exact ih (relaxOnce_inv hw hi)

/-- the initial labelling of `componentLabels` -/
def initLabels (ptr : Array Int) : Array Int :=
  Array.ofFn (n := ptr.size) (fun i => if ptr.getD i.val (-1) == -1 then -1 else Int.ofNat i.val)

theorem componentLabels_eq (ptr : Array Int) :
    componentLabels ptr = relaxFix ptr ptr.size (initLabels ptr) := rfl

theorem initLabels_getD (ptr : Array Int) (x : Nat) :
    (initLabels ptr).getD x (-1) = if ptr.getD x (-1) = -1 then -1 else Int.ofNat x := by
  unfold initLabels
  rw [Array.getD_eq_getD_getElem?]
  by_cases hx : x < ptr.size
  · rw [Array.getElem?_ofFn]
    simp [hx]
  · rw [Array.getElem?_ofFn]
    simp [hx, getD_neg_of_not_lt hx]

theorem initLabels_inv (ptr : Array Int) : LabInv ptr (initLabels ptr) := by
  refine ⟨by simp [initLabels], fun x hx => ?_, fun x hx => ?_⟩
  · rw [initLabels_getD, if_pos]
    apply Classical.byContradiction
    intro h
    exact hx (covered_of_getD_ne h)
  · rw [initLabels_getD, if_neg hx.2]
    exact ⟨x, rfl, Nat.le_refl x, .refl hx⟩

/-- K1: the result of `componentLabels` satisfies the invariant -/
theorem componentLabels_inv {ptr : Array Int} (hw : WFPtr ptr) :
    LabInv ptr (componentLabels ptr) :=
  relaxFix_inv hw _ (initLabels_inv ptr)


/-! ## K2: a fixed point of `relaxOnce` is constant on components -/

theorem sweep_fix_edge {ptr lab : Array Int} (hw : WFPtr ptr) (hi : LabInv ptr lab) {l : List Nat}
    (hfix : sweep ptr l lab = lab) {a b : Nat} (ha : a ∈ l) (hl : linked ptr a b) :
    lab.getD a (-1) = lab.getD b (-1) := by
  obtain ⟨l1, l2, rfl⟩ := List.append_of_mem ha
  rw [sweep_append, sweep_cons] at hfix
  have hi1 := sweep_inv hw hi l1
  have hcb := hw.linked_covered hl
  have e2 : ∀ x, (relaxStep ptr (sweep ptr l1 lab) a).getD x (-1) = lab.getD x (-1) := by
    intro x
    apply Int.le_antisymm
    · exact Int.le_trans (relaxStep_le ..) (sweep_le ..)
    · have := sweep_le ptr (relaxStep ptr (sweep ptr l1 lab) a) l2 x
      rw [hfix] at this
      exact this
  have h3 := relaxStep_getD hi1 hl.2 hcb
  have ha' := h3 a
  have hb' := h3 b
  rw [if_pos (Or.inr rfl)] at ha'
  rw [if_pos (Or.inl rfl)] at hb'
  rw [← e2 a, ← e2 b, ha', hb']

/-- executable fixed-point test, for validating a fixed-point hypothesis per input -/
def isFixedB (ptr lab : Array Int) : Bool := relaxOnce ptr lab == lab

theorem isFixedB_iff (ptr lab : Array Int) : isFixedB ptr lab = true ↔ relaxOnce ptr lab = lab := by
  unfold isFixedB
  exact beq_iff_eq

/-- K2, edges -/
theorem fix_linked {ptr lab : Array Int} (hw : WFPtr ptr) (hi : LabInv ptr lab)
    (hfix : relaxOnce ptr lab = lab) {a b : Nat} (hl : linked ptr a b) :
    lab.getD a (-1) = lab.getD b (-1) :=
  sweep_fix_edge hw hi hfix (List.mem_range.mpr hl.1) hl

/-- K2, components -/
theorem fix_sameComp {ptr lab : Array Int} (hw : WFPtr ptr) (hi : LabInv ptr lab)
    (hfix : relaxOnce ptr lab = lab) {a b : Nat} (hab : SameComp ptr a b) :
    lab.getD a (-1) = lab.getD b (-1) := by
  induction hab with
  | refl _ => rfl
  | link hl => exact fix_linked hw hi hfix hl
  | symm _ ih => exact ih.symm
  | trans _ _ ih1 ih2 => exact ih1.trans ih2

/-! ## K3: equal labels ⇒ same component -/

theorem LabInv.sameComp_of_eq {ptr lab : Array Int} (hi : LabInv ptr lab) {a b : Nat}
    (ha : covered ptr a) (hb : covered ptr b) (h : lab.getD a (-1) = lab.getD b (-1)) :
    SameComp ptr a b := by
  obtain ⟨r1, hr1, -, hs1⟩ := hi.cov a ha
  obtain ⟨r2, hr2, -, hs2⟩ := hi.cov b hb
  have : r1 = r2 := Int.ofNat.inj (hr1.symm.trans (h.trans hr2))
  subst this
  exact .trans hs1 (.symm hs2)

/-! ## K5 for an arbitrary fixed point satisfying the invariant -/

theorem fix_eq_iff_sameComp {ptr lab : Array Int} (hw : WFPtr ptr) (hi : LabInv ptr lab)
    (hfix : relaxOnce ptr lab = lab) {a b : Nat} (ha : covered ptr a) (hb : covered ptr b) :
    lab.getD a (-1) = lab.getD b (-1) ↔ SameComp ptr a b :=
  ⟨hi.sameComp_of_eq ha hb, fix_sameComp hw hi hfix⟩

/-- the label of a covered node is the smallest index of its component -/
theorem fix_label_min {ptr lab : Array Int} (hw : WFPtr ptr) (hi : LabInv ptr lab)
    (hfix : relaxOnce ptr lab = lab) {a : Nat} (ha : covered ptr a) :
    ∃ r, lab.getD a (-1) = Int.ofNat r ∧ SameComp ptr a r ∧ ∀ b, SameComp ptr a b → r ≤ b := by
  obtain ⟨r, hr, -, hs⟩ := hi.cov a ha
  refine ⟨r, hr, hs, fun b hab => ?_⟩
  obtain ⟨r', hr', hle', -⟩ := hi.cov b (hw.sameComp_covered hab).2
  have : r = r' := Int.ofNat.inj (hr.symm.trans ((fix_sameComp hw hi hfix hab).trans hr'))
  omega


/-! ## K4: `ptr.size` sweeps reach a fixed point -/

/-- `m` is the smallest index in the component of `a` -/
def IsMin (ptr : Array Int) (a m : Nat) : Prop :=
  SameComp ptr a m ∧ ∀ b, SameComp ptr a b → m ≤ b

theorem exists_least (P : Nat → Prop) (n : Nat) (h : P n) : ∃ m, P m ∧ ∀ b, P b → m ≤ b := by
  induction n using Nat.strongRecOn with
  | _ n ih =>
    by_cases hex : ∃ k, k < n ∧ P k
    · obtain ⟨k, hk, hpk⟩ := hex; exact ih k hk hpk
    · exact ⟨n, h, fun b hb => Nat.le_of_not_lt (fun hlt => hex ⟨b, hlt, hb⟩)⟩

theorem exists_isMin {ptr : Array Int} {a : Nat} (ha : covered ptr a) : ∃ m, IsMin ptr a m :=
  exists_least _ a (.refl ha)

theorem IsMin.congr {ptr : Array Int} {a b m : Nat} (h : IsMin ptr a m) (hab : SameComp ptr a b) :
    IsMin ptr b m :=
  ⟨.trans (.symm hab) h.1, fun c hc => h.2 c (.trans hab hc)⟩

theorem IsMin.unique {ptr : Array Int} {a m m' : Nat} (h1 : IsMin ptr a m) (h2 : IsMin ptr a m') :
    m = m' :=
  Nat.le_antisymm (h1.2 _ h2.1) (h2.2 _ h1.1)

theorem IsMin.covered {ptr : Array Int} (hw : WFPtr ptr) {a m : Nat} (h : IsMin ptr a m) :
    covered ptr a := (hw.sameComp_covered h.1).1

theorem LabInv.ge_min {ptr lab : Array Int} (hw : WFPtr ptr) (hi : LabInv ptr lab) {a m : Nat}
    (hm : IsMin ptr a m) : Int.ofNat m ≤ lab.getD a (-1) := by
  obtain ⟨r, hr, -, hs⟩ := hi.cov a (hm.covered hw)
  rw [hr]
  exact Int.ofNat_le.mpr (hm.2 r hs)

/-- a node already holding the minimum of its component keeps it -/
theorem sweep_keep {ptr lab : Array Int} (hw : WFPtr ptr) (hi : LabInv ptr lab) {x m : Nat}
    (hm : IsMin ptr x m) (h : lab.getD x (-1) = Int.ofNat m) (l : List Nat) :
    (sweep ptr l lab).getD x (-1) = Int.ofNat m := by
  apply Int.le_antisymm
  · rw [← h]; exact sweep_le ..
  · exact (sweep_inv hw hi l).ge_min hw hm

/-- `x` holds its final label -/
def Final (ptr lab : Array Int) (x : Nat) : Prop :=
  ∀ m, IsMin ptr x m → lab.getD x (-1) = Int.ofNat m

theorem min_eq_of_ge {A B M : Int} (h1 : M ≤ A) (h2 : M ≤ B) (h3 : A = M ∨ B = M) :
    min A B = M := by
  omega

/-- if one end point of an edge processed by the sweep holds the component minimum before the
    sweep, both end points hold it afterwards -/
theorem sweep_finalize {ptr lab : Array Int} (hw : WFPtr ptr) (hi : LabInv ptr lab) {l : List Nat}
    {u v m : Nat} (hu : u ∈ l) (hl : linked ptr u v) (hm : IsMin ptr u m)
    (h : lab.getD u (-1) = Int.ofNat m ∨ lab.getD v (-1) = Int.ofNat m) :
    (sweep ptr l lab).getD u (-1) = Int.ofNat m ∧ (sweep ptr l lab).getD v (-1) = Int.ofNat m := by
  obtain ⟨l1, l2, rfl⟩ := List.append_of_mem hu
  rw [sweep_append, sweep_cons]
  have hmv : IsMin ptr v m := hm.congr (.link hl)
  have hi1 := sweep_inv hw hi l1
  have hi2 := relaxStep_inv hw hi1 u
  have hcv := hw.linked_covered hl
  have hmin : min ((sweep ptr l1 lab).getD u (-1)) ((sweep ptr l1 lab).getD v (-1)) = Int.ofNat m := by
    apply min_eq_of_ge (hi1.ge_min hw hm) (hi1.ge_min hw hmv)
    rcases h with h | h
    · exact Or.inl (sweep_keep hw hi hm h l1)
    · exact Or.inr (sweep_keep hw hi hmv h l1)
  have h3 := relaxStep_getD hi1 hl.2 hcv
  have hu' := h3 u
  have hv' := h3 v
  rw [if_pos (Or.inr rfl), hmin] at hu'
  rw [if_pos (Or.inl rfl), hmin] at hv'
  exact ⟨sweep_keep hw hi2 hm hu' l2, sweep_keep hw hi2 hmv hv' l2⟩

theorem Final.sweep {ptr lab : Array Int} (hw : WFPtr ptr) (hi : LabInv ptr lab) {x : Nat}
    (h : Final ptr lab x) (l : List Nat) : Final ptr (sweep ptr l lab) x :=
  fun m hm => sweep_keep hw hi hm (h m hm) l

/-- a labelling in which every node is final is a fixed point -/
theorem relaxStep_of_final {ptr lab : Array Int} (hw : WFPtr ptr) (hi : LabInv ptr lab)
    (hf : ∀ x, Final ptr lab x) (e : Nat) : relaxStep ptr lab e = lab := by
  by_cases h1 : ptr.getD e (-1) = -1
  · exact relaxStep_skip h1
  · have he : covered ptr e := covered_of_getD_ne h1
    obtain ⟨q, hq, hcq⟩ := hw e he
    have hl : linked ptr e q := ⟨he.1, hq⟩
    obtain ⟨m, hm⟩ := exists_isMin he
    have h1 := hf e m hm
    have h2 := hf q m (hm.congr (.link hl))
    apply array_ext_getD_comp (relaxStep_size ..)
    intro x
    rw [relaxStep_getD hi hq hcq, h1, h2, Int.min_self]
    split
    · rename_i hx
      rcases hx with rfl | rfl
      · exact h2.symm
      · exact h1.symm
    · rfl

theorem sweep_of_final {ptr lab : Array Int} (hw : WFPtr ptr) (hi : LabInv ptr lab)
    (hf : ∀ x, Final ptr lab x) (l : List Nat) : sweep ptr l lab = lab := by
  induction l with
  | nil => rfl
  | cons e l ih => rw [sweep_cons, relaxStep_of_final hw hi hf e, ih]

theorem relaxOnce_of_final {ptr lab : Array Int} (hw : WFPtr ptr) (hi : LabInv ptr lab)
    (hf : ∀ x, Final ptr lab x) : relaxOnce ptr lab = lab :=
  sweep_of_final hw hi hf _

/-- a set of nodes that is not a union of components is crossed by an edge -/
theorem sameComp_crossing {ptr : Array Int} (S : Nat → Prop) {x y : Nat} (hxy : SameComp ptr x y)
    (hne : ¬ (S x ↔ S y)) : ∃ u v, linked ptr u v ∧ ¬ (S u ↔ S v) := by
  induction hxy with
  | refl _ => exact absurd Iff.rfl hne
  | link hl => exact ⟨_, _, hl, hne⟩
  | symm _ ih => exact ih (fun h => hne h.symm)
  | trans _ _ ih1 ih2 =>
    rename_i a b c _ _
    by_cases h1 : S a ↔ S b
    · by_cases h2 : S b ↔ S c
      · exact absurd (h1.trans h2) hne
      · exact ih2 h2
    · exact ih1 h1

/-- progress: unless every node is final, a sweep makes at least one more node final -/
theorem relaxOnce_progress {ptr lab : Array Int} (hw : WFPtr ptr) (hi : LabInv ptr lab)
    (hn : ¬ ∀ x, Final ptr lab x) :
    ∃ x, x < ptr.size ∧ ¬ Final ptr lab x ∧ Final ptr (relaxOnce ptr lab) x := by
  obtain ⟨a, ha⟩ := Classical.not_forall.mp hn
  obtain ⟨m, hna⟩ := Classical.not_forall.mp ha
  obtain ⟨hm, hna⟩ := Classical.not_imp.mp hna
  have hcm : covered ptr m := (hw.sameComp_covered hm.1).2
  -- the minimum node itself holds `m`
  have hSm : lab.getD m (-1) = Int.ofNat m := by
    obtain ⟨r, hr, hle, hs⟩ := hi.cov m hcm
    have := hm.2 r (.trans hm.1 hs)
    have : r = m := by omega
    rw [hr, this]
  obtain ⟨u, v, hl, hcross⟩ := sameComp_crossing (fun x => lab.getD x (-1) = Int.ofNat m)
    (.symm hm.1) (fun h => hna (h.mp hSm))
  have hcu := hl.covered
  have hcv := hw.linked_covered hl
  -- anything labelled `m` lies in the component of `a`
  have hin : ∀ x, covered ptr x → lab.getD x (-1) = Int.ofNat m → SameComp ptr a x := by
    intro x hcx hx
    obtain ⟨r, hr, -, hs⟩ := hi.cov x hcx
    have : r = m := Int.ofNat.inj (hr.symm.trans hx)
    subst this
    exact .trans hm.1 (.symm hs)
  have hau : SameComp ptr a u := by
    by_cases hu : lab.getD u (-1) = Int.ofNat m
    · exact hin u hcu hu
    · have hv : lab.getD v (-1) = Int.ofNat m := by
        apply Classical.byContradiction
        intro hv
        exact hcross ⟨fun h => absurd h hu, fun h => absurd h hv⟩
      exact .trans (hin v hcv hv) (.symm (.link hl))
  have hmu : IsMin ptr u m := hm.congr hau
  have hmv : IsMin ptr v m := hmu.congr (.link hl)
  have hor : lab.getD u (-1) = Int.ofNat m ∨ lab.getD v (-1) = Int.ofNat m := by
    apply Classical.byContradiction
    intro hno
    exact hcross ⟨fun h => absurd (Or.inl h) hno, fun h => absurd (Or.inr h) hno⟩
  have hfin := sweep_finalize hw hi (List.mem_range.mpr hl.1) hl hmu hor
  rw [← relaxOnce_eq_sweep] at hfin
  by_cases hu : lab.getD u (-1) = Int.ofNat m
  · have hv : lab.getD v (-1) ≠ Int.ofNat m := fun hv => hcross ⟨fun _ => hv, fun _ => hu⟩
    exact ⟨v, hcv.1, fun hf => hv (hf m hmv), fun m' hm' => by rw [hfin.2, hmv.unique hm']⟩
  · exact ⟨u, hcu.1, fun hf => hu (hf m hmu), fun m' hm' => by rw [hfin.1, hmu.unique hm']⟩

theorem countP_lt_of {l : List Nat} {p q : Nat → Bool} (hqp : ∀ x ∈ l, q x = true → p x = true)
    (hx : ∃ x ∈ l, p x = true ∧ q x = false) : l.countP q < l.countP p := by
  induction l with
  | nil => obtain ⟨x, hx, _⟩ := hx; cases hx
  | cons y ys ih =>
    have hle : ys.countP q ≤ ys.countP p :=
      List.countP_mono_left (fun x hx => hqp x (List.mem_cons_of_mem _ hx))
    rw [List.countP_cons, List.countP_cons]
    by_cases hy : p y = true ∧ q y = false
    · simp [hy.1, hy.2]; omega
    · have hlt : ys.countP q < ys.countP p := by
        apply ih (fun x hx => hqp x (List.mem_cons_of_mem _ hx))
        obtain ⟨x, hxm, hxp⟩ := hx
        rcases List.mem_cons.mp hxm with rfl | hxm
        · exact absurd hxp hy
        · exact ⟨x, hxm, hxp⟩
      have := hqp y List.mem_cons_self
      cases hq : q y <;> cases hp : p y <;> simp_all <;> omega

open Classical in
/-- number of nodes not yet holding their final label -/
noncomputable def unfinal (ptr lab : Array Int) : Nat :=
  (List.range ptr.size).countP (fun x => decide (¬ Final ptr lab x))

theorem unfinal_le (ptr lab : Array Int) : unfinal ptr lab ≤ ptr.size := by
  unfold unfinal
  exact Nat.le_trans List.countP_le_length (by simp)

theorem final_of_unfinal_zero {ptr lab : Array Int} (hw : WFPtr ptr) (h : unfinal ptr lab = 0) :
    ∀ x, Final ptr lab x := by
  intro x
  by_cases hx : x < ptr.size
  · unfold unfinal at h
    rw [List.countP_eq_zero] at h
    have := h x (List.mem_range.mpr hx)
    simpa using this
  · intro m hm
    exact absurd (hm.covered hw).1 hx

theorem unfinal_lt {ptr lab : Array Int} (hw : WFPtr ptr) (hi : LabInv ptr lab)
    (hn : ¬ ∀ x, Final ptr lab x) : unfinal ptr (relaxOnce ptr lab) < unfinal ptr lab := by
  obtain ⟨x, hx, hx1, hx2⟩ := relaxOnce_progress hw hi hn
  unfold unfinal
  apply countP_lt_of
  · intro y _ hy
    simp only [decide_eq_true_eq] at hy ⊢
    intro hf
    rw [relaxOnce_eq_sweep] at hy
    exact hy (hf.sweep hw hi _)
  · exact ⟨x, List.mem_range.mpr hx, by simpa using hx1, by simpa using hx2⟩

/-- `relaxFix` returns a fixed point as soon as the fuel is at least the number of non-final nodes -/
theorem relaxFix_fixed_of_unfinal_le {ptr : Array Int} (hw : WFPtr ptr) (fuel : Nat)
    {lab : Array Int} (hi : LabInv ptr lab) (hf : unfinal ptr lab ≤ fuel) :
    relaxOnce ptr (relaxFix ptr fuel lab) = relaxFix ptr fuel lab := by
  induction fuel generalizing lab with
  | zero =>
    show relaxOnce ptr lab = lab
    exact relaxOnce_of_final hw hi (final_of_unfinal_zero hw (by omega))
  | succ n ih =>
    unfold relaxFix
    simp only
    split
    · rename_i h
      exact beq_iff_eq.mp h
    · rename_i h
      apply ih (relaxOnce_inv hw hi)
      by_cases hall : ∀ x, Final ptr lab x
      · exact absurd (beq_iff_eq.mpr (relaxOnce_of_final hw hi hall)) h
      · have := unfinal_lt hw hi hall
        omega

/-- K4: `componentLabels` is a fixed point of `relaxOnce` -/
theorem componentLabels_fixed {ptr : Array Int} (hw : WFPtr ptr) :
    relaxOnce ptr (componentLabels ptr) = componentLabels ptr :=
  relaxFix_fixed_of_unfinal_le hw _ (initLabels_inv ptr) (unfinal_le ptr _)


/-! ## K1 / K5: the main theorems for `componentLabels` -/

@[simp] theorem relaxFix_size (ptr : Array Int) (fuel : Nat) (lab : Array Int) :
    (relaxFix ptr fuel lab).size = lab.size := by
  induction fuel generalizing lab with
  | zero => rfl
  | succ n ih =>
    unfold relaxFix
    simp only
    split
    · rfl
    · rw [ih, relaxOnce_size]

/-- K1 (size), unconditional -/
@[simp] theorem componentLabels_size (ptr : Array Int) : (componentLabels ptr).size = ptr.size := by
  rw [componentLabels_eq, relaxFix_size]
  simp [initLabels]

/-- K1 (frame): entries that are not covered hold `-1` -/
theorem componentLabels_uncovered {ptr : Array Int} (hw : WFPtr ptr) {e : Nat}
    (he : ¬ covered ptr e) : (componentLabels ptr).getD e (-1) = -1 :=
  (componentLabels_inv hw).uncov e he

/-- K1 (labels): a covered entry `e` holds the index `r ≤ e` of a node of its own component -/
theorem componentLabels_covered {ptr : Array Int} (hw : WFPtr ptr) {e : Nat} (he : covered ptr e) :
    ∃ r, (componentLabels ptr).getD e (-1) = Int.ofNat r ∧ r ≤ e ∧ SameComp ptr e r :=
  (componentLabels_inv hw).cov e he

/-- K1 (bounds, as integers) -/
theorem componentLabels_bounds {ptr : Array Int} (hw : WFPtr ptr) {e : Nat} (he : covered ptr e) :
    0 ≤ (componentLabels ptr).getD e (-1) ∧ (componentLabels ptr).getD e (-1) ≤ Int.ofNat e := by
  obtain ⟨r, hr, hle, -⟩ := componentLabels_covered hw he
  rw [hr]
  exact ⟨Int.natCast_nonneg r, Int.ofNat_le.mpr hle⟩

/-- K5: two covered nodes get the same label iff they are in the same component -/
theorem componentLabels_eq_iff_sameComp {ptr : Array Int} (hw : WFPtr ptr) {a b : Nat}
    (ha : covered ptr a) (hb : covered ptr b) :
    (componentLabels ptr).getD a (-1) = (componentLabels ptr).getD b (-1) ↔ SameComp ptr a b :=
  fix_eq_iff_sameComp hw (componentLabels_inv hw) (componentLabels_fixed hw) ha hb

/-- K5: the label of a covered node is the smallest index of its component -/
theorem componentLabels_min {ptr : Array Int} (hw : WFPtr ptr) {a : Nat} (ha : covered ptr a) :
    ∃ r, (componentLabels ptr).getD a (-1) = Int.ofNat r ∧ SameComp ptr a r ∧
      ∀ b, SameComp ptr a b → r ≤ b :=
  fix_label_min hw (componentLabels_inv hw) (componentLabels_fixed hw) ha

/-- K5 without side conditions on `a b`: `SameComp` is exactly "covered, with equal labels" -/
theorem sameComp_iff_componentLabels {ptr : Array Int} (hw : WFPtr ptr) {a b : Nat} :
    SameComp ptr a b ↔ covered ptr a ∧ covered ptr b ∧
      (componentLabels ptr).getD a (-1) = (componentLabels ptr).getD b (-1) :=
  ⟨fun h => ⟨(hw.sameComp_covered h).1, (hw.sameComp_covered h).2,
      (componentLabels_eq_iff_sameComp hw (hw.sameComp_covered h).1 (hw.sameComp_covered h).2).mpr h⟩,
    fun ⟨ha, hb, h⟩ => (componentLabels_eq_iff_sameComp hw ha hb).mp h⟩

/-- the same statements for any fuel, conditional on the executable fixed-point test -/
theorem relaxFix_eq_iff_sameComp_of_isFixedB {ptr : Array Int} (hw : WFPtr ptr) (fuel : Nat)
    (hfix : isFixedB ptr (relaxFix ptr fuel (initLabels ptr)) = true) {a b : Nat}
    (ha : covered ptr a) (hb : covered ptr b) :
    (relaxFix ptr fuel (initLabels ptr)).getD a (-1) = (relaxFix ptr fuel (initLabels ptr)).getD b (-1)
      ↔ SameComp ptr a b :=
  fix_eq_iff_sameComp hw (relaxFix_inv hw fuel (initLabels_inv ptr)) ((isFixedB_iff _ _).mp hfix) ha hb

theorem relaxFix_min_of_isFixedB {ptr : Array Int} (hw : WFPtr ptr) (fuel : Nat)
    (hfix : isFixedB ptr (relaxFix ptr fuel (initLabels ptr)) = true) {a : Nat}
    (ha : covered ptr a) :
    ∃ r, (relaxFix ptr fuel (initLabels ptr)).getD a (-1) = Int.ofNat r ∧ SameComp ptr a r ∧
      ∀ b, SameComp ptr a b → r ≤ b :=
  fix_label_min hw (relaxFix_inv hw fuel (initLabels_inv ptr)) ((isFixedB_iff _ _).mp hfix) ha

/-- the fixed-point test always succeeds on `componentLabels` (K4 restated) -/
theorem isFixedB_componentLabels {ptr : Array Int} (hw : WFPtr ptr) :
    isFixedB ptr (componentLabels ptr) = true :=
  (isFixedB_iff _ _).mpr (componentLabels_fixed hw)

/-! ## K6: the arrays produced by the model are well formed -/

/-- executable version of `WFPtr` -/
def wfPtrB (ptr : Array Int) : Bool :=
  (List.range ptr.size).all fun e =>
    let p := ptr.getD e (-1)
    p == -1 || (decide (0 ≤ p) && decide (p.toNat < ptr.size) && ptr.getD p.toNat (-1) != -1)

theorem wfPtr_of_wfPtrB {ptr : Array Int} (h : wfPtrB ptr = true) : WFPtr ptr := by
  intro e he
  simp only [wfPtrB, List.all_eq_true, List.mem_range, Bool.or_eq_true, beq_iff_eq,
    Bool.and_eq_true, decide_eq_true_eq, bne_iff_ne] at h
  rcases h e he.1 with h | ⟨⟨h0, h1⟩, h2⟩
  · exact absurd h he.2
  · refine ⟨(ptr.getD e (-1)).toNat, ?_, h1, h2⟩
    show ptr.getD e (-1) = ((ptr.getD e (-1)).toNat : Int)
    omega

theorem wfPtr_foldBatches (rk : RepKind) (bs : List (List (List Nat))) (size : Nat)
    (hu : UniformBatches bs) (hb : ∀ r ∈ bs.flatten, ∀ e ∈ r, e < size) :
    WFPtr (foldBatches rk bs (Array.replicate size (-1))) := by
  intro e he
  have hes : e < (Array.replicate size (-1 : Int)).size := by
    have := he.1
    rwa [foldBatches_size] at this
  rcases foldBatches_cases rk bs (Array.replicate size (-1)) e (-1) hu hes with ⟨_, hv⟩ | ⟨r, hr, her, hv⟩
  · exact absurd (hv.trans (getD_replicate_neg size e)) he.2
  · exact ⟨rowRep rk r, hv, (foldBatches_covered_iff rk bs size hu hb _).mpr
      ⟨r, hr, rowRep_mem rk r (List.ne_nil_of_mem her)⟩⟩

/-- the pointer array of the whole permutation stage is well formed (any representative kind,
    any batch counts) as soon as all rows are in range -/
theorem wfPtr_permDecompr {ops : CutoffOps} {c : Cell} {n : Nat} {rk : RepKind}
    {stages : List Stage} {cut : Option CutoffIn} {nBatch : String → Nat} {ptr' : Array Int}
    (h : permDecompr ops c n rk stages cut nBatch = some ptr')
    (hb : ∀ r ∈ allStageRows ops c n stages cut, ∀ e ∈ r, e < c.N ^ n * 3 ^ n / c.nlp) :
    WFPtr ptr' := by
  obtain ⟨bs, rfl, hu, hmem⟩ := permDecompr_spec h
  exact wfPtr_foldBatches rk bs _ hu (fun r hr => hb r ((hmem r).mp hr))

/-- K5 + K6 for the model: labels of the pointer array of `permDecompr` decide `SameComp` -/
theorem permDecompr_componentLabels_iff {ops : CutoffOps} {c : Cell} {n : Nat} {rk : RepKind}
    {stages : List Stage} {cut : Option CutoffIn} {nBatch : String → Nat} {ptr' : Array Int}
    (h : permDecompr ops c n rk stages cut nBatch = some ptr')
    (hb : ∀ r ∈ allStageRows ops c n stages cut, ∀ e ∈ r, e < c.N ^ n * 3 ^ n / c.nlp)
    {a b : Nat} (ha : covered ptr' a) (hb' : covered ptr' b) :
    (componentLabels ptr').getD a (-1) = (componentLabels ptr').getD b (-1) ↔ SameComp ptr' a b :=
  componentLabels_eq_iff_sameComp (wfPtr_permDecompr h hb) ha hb'

/-! ## non-vacuity examples -/

instance (ptr : Array Int) (e : Nat) : Decidable (covered ptr e) := by
  unfold covered; infer_instance

def exPtr2 : Array Int := #[1, 0, -1, 3, 3, 4]

example : wfPtrB exPtr2 = true := by decide
example : WFPtr exPtr2 := wfPtr_of_wfPtrB (by decide)
example : componentLabels exPtr2 = #[0, 0, -1, 3, 3, 3] := by decide
example : isFixedB exPtr2 (componentLabels exPtr2) = true := by decide
-- propagation against the processing order needs several sweeps: with too little fuel the result is
-- not a fixed point, and the executable test detects it; `componentLabels` (fuel `size`) is fine
example : relaxFix #[0, 2, 3, 0] 1 (initLabels #[0, 2, 3, 0]) = #[0, 1, 1, 0] := by decide
example : isFixedB #[0, 2, 3, 0] (relaxFix #[0, 2, 3, 0] 1 (initLabels #[0, 2, 3, 0])) = false := by
  decide
example : isFixedB #[0, 2, 3, 0] (relaxFix #[0, 2, 3, 0] 2 (initLabels #[0, 2, 3, 0])) = false := by
  decide
example : componentLabels #[0, 2, 3, 0] = #[0, 0, 0, 0] := by decide
example : isFixedB #[0, 2, 3, 0] (componentLabels #[0, 2, 3, 0]) = true := by decide
-- instances of the main theorem
example : SameComp exPtr2 5 3 :=
  (componentLabels_eq_iff_sameComp (wfPtr_of_wfPtrB (by decide)) (by decide) (by decide)).mp (by decide)
example : ¬ SameComp exPtr2 0 3 := fun h =>
  absurd ((componentLabels_eq_iff_sameComp (wfPtr_of_wfPtrB (by decide)) (by decide) (by decide)).mpr h)
    (by decide)
-- an ill-formed array (edge into an uncovered node) is rejected by the check
example : wfPtrB #[1, -1] = false := by decide
-- `WFPtr` is needed: with an entry `< -1` the nodes 0 and 1 get one label although no edge joins them
example : componentLabels #[0, -2] = #[0, 0] := by decide
example : wfPtrB #[0, -2] = false := by decide
-- K6 on the example of Lemmas/Perm.lean
example : WFPtr (foldBatches .col0 [exRows] (Array.replicate 13 (-1))) :=
  wfPtr_foldBatches .col0 [exRows] 13 exRows_uniform (by decide)


end Symfc

section AxiomAudit
open Symfc
end AxiomAudit
