/-
  Lemmas/Homogeneous.lean — the order-`k` design block is HOMOGENEOUS of degree `k − 1` in the
  displacements.  This is the model-level fact the scaling clause of C13 rests on:
  `(u, f) ↦ (s·u, s^(k−1)·f)` multiplies design matrix and right-hand side by the same factor.

  * (H1) `dispPow_scale`          displacement monomials of degree `deg` scale by `s ^ deg`
  * (H2) `designEntrySpec_scale`  Taylor-spec entries of order `k` scale by `s ^ (k − 1)`
  * (H3) `designBlockOp_scale`    the same for the entries the code builds (via D1)
  * (H4) `specRows_scale` / `designBlockOp_rows_scale`   matrix (row-list) form
  * (H5) concrete instances by `decide`
-/
import SymfcModel.Lemmas.Design
namespace Symfc.Homogeneous
open Symfc

/-- the scaled snapshot `s·u` -/
abbrev scaleDisp (s : Int) (u : Array Int) : Array Int := u.map (s * ·)

/-! ### (H1) displacement monomials -/

/-- reading an entry of the scaled snapshot; out-of-range reads give `0 = s * 0`, so no bound is needed -/
theorem getD_scale (u : Array Int) (s : Int) (p : Nat) :
    (u.map (s * ·)).getD p 0 = s * u.getD p 0 := by
  simp only [Array.getD_eq_getD_getElem?, Array.getElem?_map]
  cases u[p]? <;> simp

theorem foldl_mul_init (g : Nat → Int) (ps : List Nat) (a : Int) :
    ps.foldl (fun acc p => acc * g p) a = a * ps.foldl (fun acc p => acc * g p) 1 := by
  induction ps generalizing a with
  | nil => simp
  | cons p ps ih =>
    simp only [List.foldl_cons]
    rw [ih (a * g p), ih (1 * g p), Int.one_mul, Int.mul_assoc]

theorem foldl_mul_scale (g : Nat → Int) (s : Int) (ps : List Nat) (a : Int) :
    ps.foldl (fun acc p => acc * (s * g p)) a
      = s ^ ps.length * ps.foldl (fun acc p => acc * g p) a := by
  induction ps generalizing a with
  | nil => simp
  | cons p ps ih =>
    simp only [List.foldl_cons, List.length_cons]
    rw [ih (a * (s * g p)), foldl_mul_init g ps (a * (s * g p)), foldl_mul_init g ps (a * g p),
      Int.pow_succ]
    simp only [Int.mul_assoc, Int.mul_left_comm s]

/-- **(H1)** a degree-`deg` displacement monomial of the scaled snapshot is `s ^ deg` times the monomial
    of the original snapshot — for every `u`, `s`, `N3`, `deg`, `idx` (no range hypothesis: entries read
    out of range are `0` on both sides). -/
theorem dispPow_scale (u : Array Int) (s : Int) (N3 deg idx : Nat) :
    dispPow (u.map (s * ·)) N3 deg idx = s ^ deg * dispPow u N3 deg idx := by
  unfold dispPow
  simp only [getD_scale]
  rw [foldl_mul_scale (fun p => u.getD p 0) s, unflat_length]

/-! ### (H2) Taylor-spec entries -/

/-- **(H2)** the order-`k` Taylor entry is homogeneous of degree `k − 1` in the displacements — for every
    cell, every `OrderData` (no hypothesis on `k`, `cc`, `chain`), every snapshot and every index. -/
theorem designEntrySpec_scale (c : Cell) (od : OrderData) (u : Array Int) (s : Int) (i a x : Nat) :
    designEntrySpec c od (u.map (s * ·)) i a x = s ^ (od.k - 1) * designEntrySpec c od u i a x := by
  unfold designEntrySpec
  simp only [dispPow_scale]
  rw [foldl_add_eq_lsum, foldl_add_eq_lsum, Int.zero_add, Int.zero_add, ← lsum_mul_left]
  apply lsum_congr
  intro idx _
  simp only [Int.mul_assoc, Int.mul_left_comm (s ^ (od.k - 1))]

/-! ### (H3) operational entries -/

/-- **(H3)** the entries of the matrix the code builds (`designBlockOp`) for the scaled snapshots are
    `s ^ (k − 1)` times those for the original snapshots (hypotheses = those of D1 /
    `C05.design_matrix_is_the_taylor_expansion`). -/
theorem designBlockOp_scale (c : Cell) (od : OrderData) (hod : OrderOK c od) (hN : 0 < c.N)
    (us : List (Array Int)) (s : Int) (bi ei : Nat)
    (t il a x : Nat) (ht : t < us.length) (hil : il < ei - bi) (ha : a < 3) (hx : x < od.nx) :
    ((designBlockOp c od (us.map (scaleDisp s)) bi ei).getD (t * ((ei - bi) * 3) + il * 3 + a) #[]).getD x 0
      = s ^ (od.k - 1) *
        ((designBlockOp c od us bi ei).getD (t * ((ei - bi) * 3) + il * 3 + a) #[]).getD x 0 := by
  have ht' : t < (us.map (scaleDisp s)).length := by simpa using ht
  rw [designBlockOp_entry c od hod _ bi ei hN t il a x ht' hil ha hx,
    designBlockOp_entry c od hod us bi ei hN t il a x ht hil ha hx]
  have e : (us.map (scaleDisp s)).getD t #[] = (us.getD t #[]).map (s * ·) := by
    simp [List.getD_eq_getElem?_getD, List.getElem?_map, List.getElem?_eq_getElem ht, scaleDisp]
  rw [e, designEntrySpec_scale]

/-! ### (H4) matrix form -/

/-- the rows `(i, a)` of the order-`od.k` Taylor design block `6·X_k` for ONE snapshot `u`
    (atoms `i < N`, components `a < 3`, columns `x < nx`) — the single-order case of the row of `normalEqSpec` -/
def specRows (c : Cell) (od : OrderData) (u : Array Int) : List (List Int) :=
  (List.range c.N).flatMap (fun i => (List.range 3).map (fun a =>
    (List.range od.nx).map (fun x => designEntrySpec c od u i a x)))

/-- `t • M` on a matrix given as a list of rows -/
def smulRows (t : Int) (M : List (List Int)) : List (List Int) := M.map (·.map (t * ·))

/-- **(H4)** MATRIX FORM: the design rows of the scaled snapshot are `s ^ (k − 1) •` the design rows of the
    original snapshot, i.e. `X_k(s·u) = s^(k−1) • X_k(u)`.  With `y ↦ s^(k−1) • y` this is exactly the pair
    `(t • X, t • y)`, `t = s ^ (n − 1)`, of `C13.scaling_irrelevant`. -/
theorem specRows_scale (c : Cell) (od : OrderData) (u : Array Int) (s : Int) :
    specRows c od (u.map (s * ·)) = smulRows (s ^ (od.k - 1)) (specRows c od u) := by
  unfold specRows smulRows
  simp only [List.map_flatMap, List.map_map, Function.comp_def, designEntrySpec_scale]

/-- a block-sized matrix read entrywise through `IMat.get` -/
def blockEntries (m : IMat) (rows cols : Nat) : List (List Int) :=
  (List.range rows).map (fun r => (List.range cols).map (fun x => m.get r x))

/-- **(H4, operational)** the whole block the code builds for the scaled snapshot list, read entrywise, is
    `s ^ (k − 1) •` the block for the original list. -/
theorem designBlockOp_rows_scale (c : Cell) (od : OrderData) (hod : OrderOK c od) (hN : 0 < c.N)
    (us : List (Array Int)) (s : Int) (bi ei : Nat) :
    blockEntries (designBlockOp c od (us.map (scaleDisp s)) bi ei) (us.length * ((ei - bi) * 3)) od.nx
      = smulRows (s ^ (od.k - 1))
          (blockEntries (designBlockOp c od us bi ei) (us.length * ((ei - bi) * 3)) od.nx) := by
  unfold blockEntries smulRows
  simp only [List.map_map, Function.comp_def]
  apply List.map_congr_left
  intro r hr
  apply List.map_congr_left
  intro x hx
  have hr' := List.mem_range.1 hr
  have hx' := List.mem_range.1 hx
  have hpos : 0 < (ei - bi) * 3 := by
    rcases Nat.eq_zero_or_pos ((ei - bi) * 3) with h | h
    · rw [h, Nat.mul_zero] at hr'; omega
    · exact h
  have ht : r / ((ei - bi) * 3) < us.length := by
    apply (Nat.div_lt_iff_lt_mul hpos).2; exact hr'
  have hm : r % ((ei - bi) * 3) < (ei - bi) * 3 := Nat.mod_lt _ hpos
  have hrr : r = (r / ((ei - bi) * 3)) * ((ei - bi) * 3) + (r % ((ei - bi) * 3)) / 3 * 3
      + (r % ((ei - bi) * 3)) % 3 := by
    have h1 := Nat.div_add_mod r ((ei - bi) * 3)
    have h2 := Nat.div_add_mod (r % ((ei - bi) * 3)) 3
    rw [Nat.mul_comm] at h1
    omega
  have key := designBlockOp_scale c od hod hN us s bi ei (r / ((ei - bi) * 3))
    ((r % ((ei - bi) * 3)) / 3) ((r % ((ei - bi) * 3)) % 3) x ht (by omega) (Nat.mod_lt _ (by omega)) hx'
  rw [← hrr] at key
  exact key

/-! ### (H5) non-vacuity on the concrete instance of `Lemmas/Design.lean` (N = 2, k = 2) and an order-3 one -/

/-- order 3 on the same cell: 2·2·2·27 = 216 stored rows, one column -/
def exCC3 : SRows := ((List.range 216).map (fun r => [(0, (Int.ofNat (r % 7)) - 3)])).toArray
def exOd3 : OrderData := { k := 3, nx := 1, cc := exCC3, const6 := -3, chain := chainFor 3 }

/-- the snapshot of `exUs` and its multiples as literals (`Array.map` does not reduce under `decide`) -/
def exU : Array Int := #[1, 2, -1, 3, 0, 2]
theorem exUs_eq : exUs = [exU] := rfl
theorem exU_scale3 : scaleDisp 3 exU = #[3, 6, -3, 9, 0, 6] := by simp [scaleDisp, exU]
theorem exU_scale2 : scaleDisp 2 exU = #[2, 4, -2, 6, 0, 4] := by simp [scaleDisp, exU]

set_option maxRecDepth 100000 in
/-- order 2, `s = 3`: every entry is multiplied by `3 = 3 ^ (2 − 1)`, and the entries are not all zero -/
example : specRows exCell exOd (scaleDisp 3 exU) = [[0], [-198], [144], [-198], [144], [36]]
    ∧ specRows exCell exOd exU = [[0], [-66], [48], [-66], [48], [12]] := by
  rw [exU_scale3]; decide

set_option maxRecDepth 100000 in
/-- order 2, operational block, `s = 3` -/
example : designBlockOp exCell exOd (exUs.map (scaleDisp 3)) 0 2
    = #[#[0], #[-198], #[144], #[-198], #[144], #[36]] := by
  rw [exUs_eq, List.map_cons, List.map_nil, exU_scale3]; decide

set_option maxRecDepth 100000 in
/-- order 3, `s = 2`: the factor is `4 = 2 ^ (3 − 1)`, NOT `2` and NOT `8 = 2 ^ 3` (entry is nonzero) -/
example : (List.range 2).flatMap (fun i => (List.range 3).map (fun a =>
      (designEntrySpec exCell exOd3 (scaleDisp 2 exU) i a 0, designEntrySpec exCell exOd3 exU i a 0)))
    = [(-840, -210), (-504, -126), (588, 147), (504, 126), (420, 105), (-840, -210)] := by
  rw [exU_scale2]; decide

/-- the general theorems applied to the instance -/
example : specRows exCell exOd (scaleDisp 3 exU) = smulRows (3 ^ (2 - 1)) (specRows exCell exOd exU) :=
  specRows_scale exCell exOd exU 3

end Symfc.Homogeneous
