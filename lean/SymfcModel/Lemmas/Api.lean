/- Lemmas/Api.lean — helper lemmas for the API state machine -/
import SymfcModel.Lemmas.Dict
import SymfcModel.Model.Inst
namespace Symfc

theorem insertSorted_perm (x : Nat) (l : List Nat) : (insertSorted x l).Perm (x :: l) := by
  induction l with
  | nil => exact List.Perm.refl _
  | cons y ys ih =>
    unfold insertSorted
    split
    · exact List.Perm.refl _
    · exact (List.Perm.cons y ih).trans (List.Perm.swap x y ys)

theorem sortNat_perm (l : List Nat) : (sortNat l).Perm l := by
  induction l with
  | nil => exact List.Perm.refl _
  | cons x xs ih =>
    show (insertSorted x (sortNat xs)).Perm (x :: xs)
    exact (insertSorted_perm x _).trans (List.Perm.cons x ih)

/-- the value written by a successful `solve` for every key of the branch -/
def solvedVal (b : SolveBranch) (bases : List Basis) (d f : Arr) (compact : Bool) (k : Nat) : FcVal :=
  { order := k, orders := b.orders, bases := bases, disp := d.id, forces := f.id, compact := compact }

/-- complete case analysis of `solveStep` -/
theorem solveStep_cases (cfg : ApiCfg) (s : ApiState) (m : Option Nat) (o : Option (List Nat)) (c : Bool) :
    ((solveStep cfg s m o c).1 = s) ∨
    (∃ os b bases d f,
      checkDataset cfg s = none ∧ checkOrders cfg m o = .ok os ∧
      cfg.branches.find? (fun b => b.orders == os) = some b ∧
      allSome (b.basisKeys.map (dictGet s.basis)) = some bases ∧
      s.disp = some d ∧ s.forces = some f ∧
      (solveStep cfg s m o c).2 = none ∧
      (solveStep cfg s m o c).1 =
        { s with fc := b.fcKeys.foldl (fun fc k => dictSet fc k (solvedVal b bases d f c k)) s.fc }) := by
  unfold solveStep
  cases h1 : checkDataset cfg s with
  | some e => left; rfl
  | none =>
    cases h2 : checkOrders cfg m o with
    | error e => left; rfl
    | ok os =>
      cases h3 : cfg.branches.find? (fun b => b.orders == os) with
      | none => left; simp [h3]
      | some b =>
        cases h4 : allSome (b.basisKeys.map (dictGet s.basis)) with
        | none => left; simp [h3, h4]
        | some bases =>
          cases h5 : s.disp with
          | none => left; simp [h3, h4, h5]
          | some d =>
            cases h6 : s.forces with
            | none => left; simp [h3, h4, h5, h6]
            | some f =>
              right
              refine ⟨os, b, bases, d, f, rfl, rfl, h3, h4, rfl, rfl, ?_, ?_⟩
              · simp [h3, h4, h5, h6]
              · simp [h3, h4, h5, h6, solvedVal]

theorem solveStep_err_unchanged (cfg : ApiCfg) (s : ApiState) (m : Option Nat) (o : Option (List Nat)) (c : Bool)
    (e : ApiErr) (h : (solveStep cfg s m o c).2 = some e) : (solveStep cfg s m o c).1 = s := by
  rcases solveStep_cases cfg s m o c with h1 | ⟨os, b, bases, d, f, _, _, _, _, _, _, h7, _⟩
  · exact h1
  · rw [h7] at h; cases h

end Symfc
