/-
  Lemmas/CutoffBasic.lean — combinations and mixed-radix lemmas that do NOT depend on generated data
-/
import SymfcModel.Model.Cutoff
namespace Symfc

/-! ## E1. `combsFrom` / `entireCombinations` -/

theorem mem_combsFrom {n r lo : Nat} {c : List Nat} :
    c ∈ combsFrom n r lo ↔
      c.length = r ∧ c.Pairwise (· < ·) ∧ (∀ e ∈ c, e < n) ∧ (∀ e ∈ c, lo ≤ e) := by
  induction r generalizing lo c with
  | zero =>
    simp only [combsFrom, List.mem_singleton]
    constructor
    · rintro rfl; simp
    · rintro ⟨h, -⟩; exact List.length_eq_zero_iff.mp h
  | succ r ih =>
    simp only [combsFrom, List.mem_flatMap, List.mem_range]
    constructor
    · rintro ⟨d, hd, hc⟩
      split at hc
      · rename_i hlo
        obtain ⟨t, ht, rfl⟩ := List.mem_map.mp hc
        obtain ⟨h1, h2, h3, h4⟩ := ih.mp ht
        refine ⟨by simp [h1], ?_, ?_, ?_⟩
        · exact List.pairwise_cons.mpr ⟨fun a ha => h4 a ha, h2⟩
        · intro e he
          rcases List.mem_cons.mp he with rfl | he
          · exact hd
          · exact h3 e he
        · intro e he
          rcases List.mem_cons.mp he with rfl | he
          · exact hlo
          · have := h4 e he; omega
      · simp at hc
    · rintro ⟨h1, h2, h3, h4⟩
      match c, h1 with
      | d :: t, h1 =>
        refine ⟨d, h3 d (by simp), ?_⟩
        rw [if_pos (h4 d (by simp))]
        refine List.mem_map.mpr ⟨t, ih.mpr ⟨by simpa using h1, ?_, ?_, ?_⟩, rfl⟩
        · exact (List.pairwise_cons.mp h2).2
        · intro e he; exact h3 e (by simp [he])
        · intro e he; exact (List.pairwise_cons.mp h2).1 e he

theorem mem_entireCombinations {n r : Nat} {c : List Nat} :
    c ∈ entireCombinations n r ↔ c.length = r ∧ c.Pairwise (· < ·) ∧ ∀ e ∈ c, e < n := by
  unfold entireCombinations
  rw [mem_combsFrom]
  simp

/-- `combsFrom` is strictly increasing in the lexicographic order on `List Nat`. -/
theorem combsFrom_sorted (n r lo : Nat) : (combsFrom n r lo).Pairwise (· < ·) := by
  induction r generalizing lo with
  | zero => simp [combsFrom]
  | succ r ih =>
    simp only [combsFrom]
    rw [List.pairwise_flatMap]
    refine ⟨?_, ?_⟩
    · intro d _
      split
      · exact (ih (d + 1)).map _ (fun a b h => List.cons_lt_cons_iff.mpr (Or.inr ⟨rfl, h⟩))
      · simp
    · refine List.pairwise_lt_range.imp ?_
      intro a b hab x hx y hy
      split at hx <;> split at hy <;> try simp at hx <;> try simp at hy
      obtain ⟨t, _, rfl⟩ := hx
      obtain ⟨u, _, rfl⟩ := hy
      exact List.cons_lt_cons_iff.mpr (Or.inl hab)

theorem entireCombinations_sorted (n r : Nat) : (entireCombinations n r).Pairwise (· < ·) :=
  combsFrom_sorted n r 0

theorem nodup_of_pairwise_lt {l : List (List Nat)} (h : l.Pairwise (· < ·)) : l.Nodup :=
  h.imp (fun {a b} hab heq => by subst heq; exact List.lt_irrefl _ hab)

theorem combsFrom_nodup (n r lo : Nat) : (combsFrom n r lo).Nodup :=
  nodup_of_pairwise_lt (combsFrom_sorted n r lo)

theorem entireCombinations_nodup (n r : Nat) : (entireCombinations n r).Nodup :=
  combsFrom_nodup n r 0

/-! ## `flat` / `unflat` -/


theorem flat_snoc (base : Nat) (ds : List Nat) (d : Nat) :
    flat base (ds ++ [d]) = flat base ds * base + d := by
  simp [flat, List.foldl_append]

theorem unflat_succ (base k x : Nat) :
    unflat base (k + 1) x = unflat base k (x / base) ++ [x % base] := by
  unfold unflat
  rw [List.range_succ_eq_map, List.reverse_cons, List.map_append, ← List.map_reverse, List.map_map]
  congr 1
  · apply List.map_congr_left
    intro p _
    simp [Function.comp, Nat.pow_succ, Nat.div_div_eq_div_mul, Nat.mul_comm]
  · simp

theorem flat_unflat_aux (base : Nat) : ∀ (k : Nat) (ds : List Nat), ds.length = k →
    (∀ d ∈ ds, d < base) → unflat base k (flat base ds) = ds ∧ flat base ds < base ^ k := by
  intro k
  induction k with
  | zero =>
    intro ds h _
    have := List.length_eq_zero_iff.mp h; subst this
    simp [unflat, flat]
  | succ k ih =>
    intro ds h hlt
    have hne : ds ≠ [] := by rintro rfl; simp at h
    rw [← List.dropLast_concat_getLast hne]
    have hd : ds.getLast hne < base := hlt _ (List.getLast_mem hne)
    obtain ⟨ih1, ih2⟩ := ih ds.dropLast (by simp [h])
      (fun d hd => hlt d (List.dropLast_subset _ hd))
    rw [flat_snoc, unflat_succ]
    have hb : 0 < base := by omega
    have e1 : (flat base ds.dropLast * base + ds.getLast hne) / base = flat base ds.dropLast := by
      rw [Nat.mul_comm, Nat.mul_add_div hb, Nat.div_eq_of_lt hd]; omega
    have e2 : (flat base ds.dropLast * base + ds.getLast hne) % base = ds.getLast hne := by
      rw [Nat.mul_comm, Nat.mul_add_mod, Nat.mod_eq_of_lt hd]
    rw [e1, e2, ih1]
    refine ⟨rfl, ?_⟩
    have : (flat base ds.dropLast + 1) * base ≤ base ^ k * base := Nat.mul_le_mul_right _ ih2
    rw [Nat.add_mul] at this
    rw [Nat.pow_succ]; omega


theorem unflat_flat {base : Nat} {ds : List Nat} (h : ∀ d ∈ ds, d < base) :
    unflat base ds.length (flat base ds) = ds :=
  (flat_unflat_aux base ds.length ds rfl h).1

theorem flat_lt_pow {base : Nat} {ds : List Nat} (h : ∀ d ∈ ds, d < base) :
    flat base ds < base ^ ds.length :=
  (flat_unflat_aux base ds.length ds rfl h).2

end Symfc
