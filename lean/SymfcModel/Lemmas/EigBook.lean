/-
  Lemmas/EigBook.lean — column bookkeeping of `_block_eigh_projector`, `target_size` bounds and
  Python `round` (half to even) on non-negative rationals.
-/
import SymfcModel.Model.Eig
namespace Symfc

/-! ### `blockBookkeeping` -/

/-- the loop body of `blockBookkeeping` -/
def bookStep (skipped : Bool) (acc : Nat × Nat) (t : Nat × Bool × Nat) : Nat × Nat :=
  if t.2.1 then (acc.1 + t.2.2, acc.2 + (t.1 - t.2.2))
  else if skipped then (acc.1, acc.2 + t.1) else acc

theorem blockBookkeeping_eq (skipped : Bool) (sizes : List Nat) (solved : List Bool)
    (found : List Nat) :
    blockBookkeeping skipped sizes solved found
      = (sizes.zip (solved.zip found)).foldl (bookStep skipped) (0, 0) := rfl

/-- general loop invariant over the zipped triples -/
theorem bookStep_foldl (skipped : Bool) (l : List (Nat × Bool × Nat)) (acc : Nat × Nat) :
    l.foldl (bookStep skipped) acc =
      (acc.1 + (l.map (fun t => if t.2.1 then t.2.2 else 0)).sum,
       acc.2 + (l.map (fun t => if t.2.1 then t.1 - t.2.2 else if skipped then t.1 else 0)).sum) := by
  induction l generalizing acc with
  | nil => simp
  | cons t ts ih =>
    rw [List.foldl_cons, ih]
    obtain ⟨sz, sv, k⟩ := t
    cases sv <;> cases skipped <;> simp [bookStep] <;> omega

theorem book_total (skipped : Bool) (l : List (Nat × Bool × Nat)) (hle : ∀ t ∈ l, t.2.2 ≤ t.1) :
    (l.map (fun t => if t.2.1 then t.2.2 else 0)).sum
      + (l.map (fun t => if t.2.1 then t.1 - t.2.2 else if skipped then t.1 else 0)).sum
      = (l.map (fun t => if t.2.1 || skipped then t.1 else 0)).sum := by
  induction l with
  | nil => simp
  | cons t ts ih =>
    have h1 := hle t (List.mem_cons_self ..)
    have h2 := ih (fun t ht => hle t (List.mem_cons_of_mem _ ht))
    obtain ⟨sz, sv, k⟩ := t
    simp only [List.map_cons, List.sum_cons]
    cases sv <;> cases skipped <;> simp at h1 h2 ⊢ <;> omega

theorem zip3_mem_le {sizes : List Nat} {solved : List Bool} {found : List Nat}
    (hle : ∀ i (h1 : i < sizes.length) (h2 : i < found.length), found[i] ≤ sizes[i]) :
    ∀ t ∈ sizes.zip (solved.zip found), t.2.2 ≤ t.1 := by
  intro t ht
  obtain ⟨i, hi, rfl⟩ := List.mem_iff_getElem.mp ht
  simp only [List.length_zip] at hi
  simp only [List.getElem_zip]
  exact hle i (by omega) (by omega)

/-- eigenvector columns = number of unit eigenvectors found in the SOLVED sub-blocks
    (independent of the `skipped` flag, no hypotheses needed) -/
theorem blockBookkeeping_fst (skipped : Bool) (sizes : List Nat) (solved : List Bool)
    (found : List Nat) (h1 : sizes.length = solved.length) (h2 : solved.length = found.length) :
    (blockBookkeeping skipped sizes solved found).1
      = ((solved.zip found).map (fun p => if p.1 then p.2 else 0)).sum := by
  rw [blockBookkeeping_eq, bookStep_foldl]
  simp only [Nat.zero_add]
  have : (solved.zip found) = (sizes.zip (solved.zip found)).map Prod.snd := by
    rw [List.map_snd_zip]; simp [List.length_zip]; omega
  conv => rhs; rw [this, List.map_map]
  rfl

/-- `skipped = true` (skipped sub-blocks are put into the complement): the eigenvector and
    complement columns together exhaust the block. -/
theorem blockBookkeeping_skipped_total (sizes : List Nat) (solved : List Bool) (found : List Nat)
    (h1 : sizes.length = solved.length) (h2 : solved.length = found.length)
    (hle : ∀ i (h1 : i < sizes.length) (h2 : i < found.length), found[i] ≤ sizes[i]) :
    (blockBookkeeping true sizes solved found).1 + (blockBookkeeping true sizes solved found).2
      = sizes.sum := by
  rw [blockBookkeeping_eq, bookStep_foldl]
  have ht := book_total true _ (zip3_mem_le (solved := solved) hle)
  have hs : (sizes.zip (solved.zip found)).map (fun t => t.1) = sizes := by
    apply List.map_fst_zip; simp [List.length_zip]; omega
  simp only [Bool.or_true, if_true, hs] at ht
  simp only [Nat.zero_add]
  exact ht

/-- `skipped = false` (the code as written): only the SOLVED sub-blocks are counted. -/
theorem blockBookkeeping_unskipped_total (sizes : List Nat) (solved : List Bool) (found : List Nat)
    (_h1 : sizes.length = solved.length) (h2 : solved.length = found.length)
    (hle : ∀ i (h1 : i < sizes.length) (h2 : i < found.length), found[i] ≤ sizes[i]) :
    (blockBookkeeping false sizes solved found).1 + (blockBookkeeping false sizes solved found).2
      = ((sizes.zip solved).map (fun p => if p.2 then p.1 else 0)).sum := by
  rw [blockBookkeeping_eq, bookStep_foldl]
  simp only [Nat.zero_add]
  rw [book_total false _ (zip3_mem_le hle)]
  have : sizes.zip solved = (sizes.zip (solved.zip found)).map (Prod.map id Prod.fst) := by
    rw [← List.zip_map_right, List.map_fst_zip (by omega)]
  rw [this, List.map_map]
  simp only [Bool.or_false]
  rfl

/-- sums over solved sub-blocks never exceed the total … -/
theorem solvedSizes_le (sizes : List Nat) (solved : List Bool) :
    ((sizes.zip solved).map (fun p => if p.2 then p.1 else 0)).sum ≤ sizes.sum := by
  induction sizes generalizing solved with
  | nil => simp
  | cons s ss ih =>
    cases solved with
    | nil => simp
    | cons b bs =>
      have := ih bs
      simp only [List.zip_cons_cons, List.map_cons, List.sum_cons]
      cases b <;> simp <;> omega

/-- … and are strictly smaller as soon as one skipped sub-block has positive size. -/
theorem solvedSizes_lt (sizes : List Nat) (solved : List Bool)
    (i : Nat) (hi : i < sizes.length) (hi' : i < solved.length)
    (hskip : solved[i] = false) (hpos : 0 < sizes[i]) :
    ((sizes.zip solved).map (fun p => if p.2 then p.1 else 0)).sum < sizes.sum := by
  induction sizes generalizing solved i with
  | nil => simp at hi
  | cons s ss ih =>
    cases solved with
    | nil => simp at hi'
    | cons b bs =>
      simp only [List.zip_cons_cons, List.map_cons, List.sum_cons]
      cases i with
      | zero =>
        simp only [List.getElem_cons_zero] at hskip hpos
        subst hskip
        have := solvedSizes_le ss bs
        simp; omega
      | succ i =>
        simp only [List.getElem_cons_succ] at hskip hpos
        have := ih bs i (by simpa using hi) (by simpa using hi') hskip hpos
        cases b <;> simp <;> omega

/-- with `skipped = false`, columns are lost as soon as a skipped sub-block has positive size -/
theorem blockBookkeeping_unskipped_lt (sizes : List Nat) (solved : List Bool) (found : List Nat)
    (h1 : sizes.length = solved.length) (h2 : solved.length = found.length)
    (hle : ∀ i (h1 : i < sizes.length) (h2 : i < found.length), found[i] ≤ sizes[i])
    (i : Nat) (hi : i < sizes.length) (hi' : i < solved.length)
    (hskip : solved[i] = false) (hpos : 0 < sizes[i]) :
    (blockBookkeeping false sizes solved found).1 + (blockBookkeeping false sizes solved found).2
      < sizes.sum := by
  rw [blockBookkeeping_unskipped_total sizes solved found h1 h2 hle]
  exact solvedSizes_lt sizes solved i hi hi' hskip hpos

/-- concrete witness: sizes `[2,1]`, first sub-block solved with no unit eigenvector, second
    skipped: the un-skipped bookkeeping yields `(0, 2)` although the block has 3 columns. -/
theorem blockBookkeeping_witness :
    blockBookkeeping false [2, 1] [true, false] [0, 0] = (0, 2) ∧
    blockBookkeeping true [2, 1] [true, false] [0, 0] = (0, 3) ∧
    [2, 1].sum = 3 := by decide

/-! ### `target_size` -/

theorem targetSize_bounds (p : Nat) :
    1000 ≤ targetSize 10 1000 3000 p ∧ targetSize 10 1000 3000 p ≤ 3000 := by
  unfold targetSize; omega

theorem targetSize_pos (p : Nat) : 0 < targetSize 10 1000 3000 p := by
  have := targetSize_bounds p; omega

/-- general form: `lo ≤ hi` gives `lo ≤ targetSize div lo hi p ≤ hi` -/
theorem targetSize_bounds_gen (div lo hi p : Nat) (h : lo ≤ hi) :
    lo ≤ targetSize div lo hi p ∧ targetSize div lo hi p ≤ hi := by
  unfold targetSize; omega

/-! ### `roundHalfEven` -/

theorem roundHalfEven_cases (t den : Int) :
    (roundHalfEven t den = t / den ∧ 2 * (t % den) ≤ den) ∨
    (roundHalfEven t den = t / den + 1 ∧ den ≤ 2 * (t % den)) := by
  unfold roundHalfEven
  simp only []
  split
  · left; exact ⟨rfl, by omega⟩
  · split
    · right; exact ⟨rfl, by omega⟩
    · split
      · left; exact ⟨rfl, by omega⟩
      · right; exact ⟨rfl, by omega⟩

/-- nearest integer: `|2t − 2·r·den| ≤ den` (i.e. `|t/den − r| ≤ 1/2`) -/
theorem roundHalfEven_nearest (t den : Int) (hden : 0 < den) :
    -den ≤ 2 * t - 2 * (roundHalfEven t den * den) ∧
    2 * t - 2 * (roundHalfEven t den * den) ≤ den := by
  have hq := Int.ediv_mul_add_emod t den
  have h0 := Int.emod_nonneg t (b := den) (by omega)
  have h1 := Int.emod_lt_of_pos t hden
  rcases roundHalfEven_cases t den with ⟨e, h⟩ | ⟨e, h⟩
  · rw [e]; omega
  · rw [e, Int.add_mul]; omega

theorem roundHalfEven_nonneg (t den : Int) (ht : 0 ≤ t) (hden : 0 < den) :
    0 ≤ roundHalfEven t den := by
  have := Int.ediv_nonneg ht (Int.le_of_lt hden)
  rcases roundHalfEven_cases t den with ⟨e, _⟩ | ⟨e, _⟩ <;> omega

/-- the rank short-cut `round(trace) = 0` fires exactly when `trace ≤ 1/2` -/
theorem roundHalfEven_eq_zero_iff (t den : Int) (ht : 0 ≤ t) (hden : 0 < den) :
    roundHalfEven t den = 0 ↔ 2 * t ≤ den := by
  constructor
  · intro h
    have := (roundHalfEven_nearest t den hden).2
    rw [h] at this; omega
  · intro h
    have hlt : t < den := by omega
    have hq : t / den = 0 := Int.ediv_eq_zero_of_lt ht hlt
    have hr : t % den = t := Int.emod_eq_of_lt ht hlt
    unfold roundHalfEven
    simp only [hq, hr]
    split
    · rfl
    · split
      · omega
      · rfl

/-- the direction used by C-properties: shortcut fired ⇒ trace ≤ 1/2 < 1 -/
theorem roundHalfEven_zero_imp (t den : Int) (ht : 0 ≤ t) (hden : 0 < den)
    (h : roundHalfEven t den = 0) : 2 * t ≤ den :=
  (roundHalfEven_eq_zero_iff t den ht hden).1 h

/-- a unit eigenvector forces `trace ≥ 1`, hence `round(trace) ≥ 1`: the dense solver is called -/
theorem roundHalfEven_pos_of_ge (t den : Int) (hden : 0 < den) (h : den ≤ t) :
    0 < roundHalfEven t den := by
  have ht : 0 ≤ t := by omega
  have h0 := roundHalfEven_nonneg t den ht hden
  have hne : roundHalfEven t den ≠ 0 := by
    intro h'
    have := (roundHalfEven_eq_zero_iff t den ht hden).1 h'
    omega
  omega

/-- contrapositive: rank 0 ⇒ trace < 1 ⇒ no unit eigenvector -/
theorem roundHalfEven_zero_lt_one (t den : Int) (ht : 0 ≤ t) (hden : 0 < den)
    (h : roundHalfEven t den = 0) : t < den := by
  have := roundHalfEven_zero_imp t den ht hden h; omega


end Symfc
