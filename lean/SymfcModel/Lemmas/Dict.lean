/- Lemmas/Dict.lean — association-list dictionary used by the API model -/
import SymfcModel.Model.Api
namespace Symfc

theorem dictGet_dictSet_same {β} (d : List (Nat × β)) (k : Nat) (v : β) :
    dictGet (dictSet d k v) k = some v := by
  unfold dictGet dictSet
  rw [List.find?_append]
  have h : List.find? (fun p => p.1 == k) (List.filter (fun p => p.1 != k) d) = none := by
    rw [List.find?_eq_none]
    intro x hx
    have := (List.mem_filter.mp hx).2
    simp at this ⊢
    exact this
  simp [h]

theorem dictGet_dictSet_other {β} (d : List (Nat × β)) (k k' : Nat) (v : β) (h : k' ≠ k) :
    dictGet (dictSet d k v) k' = dictGet d k' := by
  unfold dictGet dictSet
  rw [List.find?_append]
  have h2 : List.find? (fun p => p.1 == k') [(k, v)] = none := by
    have hk : (k == k') = false := by
      simp; intro hh; exact h hh.symm
    simp [List.find?, hk]
  rw [h2, Option.or_none]
  congr 1
  induction d with
  | nil => rfl
  | cons x xs ih =>
    by_cases hx : x.1 = k
    · have : (x.1 != k) = false := by simp [hx]
      rw [List.filter_cons, this]
      simp only [Bool.false_eq_true, ↓reduceIte]
      rw [ih, List.find?_cons]
      have : (x.1 == k') = false := by
        simp [hx]; intro hh; exact h hh.symm
      simp [this]
    · have : (x.1 != k) = true := by simp [hx]
      rw [List.filter_cons, this]
      simp only [↓reduceIte]
      rw [List.find?_cons, List.find?_cons, ih]

end Symfc

namespace Symfc

theorem dictGet_foldl_dictSet {β} (keys : List Nat) (f : Nat → β) (d : List (Nat × β)) (k : Nat) :
    dictGet (keys.foldl (fun fc k' => dictSet fc k' (f k')) d) k =
      if k ∈ keys then some (f k) else dictGet d k := by
  induction keys generalizing d with
  | nil => simp
  | cons x xs ih =>
    rw [List.foldl_cons, ih]
    by_cases hk : k ∈ xs
    · simp [hk]
    · by_cases hx : k = x
      · subst hx; simp [hk, dictGet_dictSet_same]
      · have : k ∉ x :: xs := by simp [hx, hk]
        simp only [hk, this, if_false]
        exact dictGet_dictSet_other d x k (f x) hx

end Symfc
