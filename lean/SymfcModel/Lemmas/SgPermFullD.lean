/-
  Lemmas/SgPermFullD.lean — ingredients of B4: coordinates of `applyOp`, compatibility of `applyOp` with ≡ mod S,
  the identity rotation, the composition "rotation of the first operation, then lattice translation", the
  permutation realising a map of the position set onto itself, membership in `pureTranslations`.
-/
import SymfcModel.Lemmas.SgPermFullB
import SymfcModel.Lemmas.SgPermFullC
namespace Symfc.SgPermFull
open Symfc

/-! ## `applyOp`, `subVec` coordinate-wise -/

theorem applyOp_length (S : Int) (R : List (List Int)) (t x : List Int) :
    (applyOp S R t x).length = min R.length t.length := by
  simp [applyOp]

theorem applyOp_getD (S : Int) (R : List (List Int)) (t x : List Int) (c : Nat)
    (h1 : c < R.length) (h2 : c < t.length) :
    (applyOp S R t x).getD c 0 = dotInt (R.getD c []) x + t.getD c 0 := by
  have hz : c < (R.zip t).length := by rw [List.length_zip]; omega
  simp [applyOp, List.getD_eq_getElem?_getD, List.getElem?_eq_getElem hz, h1, h2]

theorem subVec_length (t u : List Int) : (subVec t u).length = min t.length u.length := by
  simp [subVec]

theorem subVec_getD (t u : List Int) (c : Nat) (h1 : c < t.length) (h2 : c < u.length) :
    (subVec t u).getD c 0 = t.getD c 0 - u.getD c 0 := by
  simp [subVec, List.getD_eq_getElem?_getD, List.getElem?_zipWith, h1, h2]

/-! ## `applyOp` respects ≡ mod S -/

theorem dotInt_cong (S : Int) (r : List Int) : ∀ (y y' : List Int), Cong S y y' →
    (dotInt r y - dotInt r y') % S = 0 := by
  induction r with
  | nil => intro y y' _; simp [dotInt]
  | cons a r ih =>
    intro y y' h
    cases y with
    | nil =>
      have := h.length_eq
      cases y' with
      | nil => simp [dotInt]
      | cons b' y' => simp at this
    | cons b y =>
      cases y' with
      | nil => have := h.length_eq; simp at this
      | cons b' y' =>
        have h' : wrapHalf S b = wrapHalf S b' ∧ roundPos S y = roundPos S y' := by
          simpa [Cong, roundPos] using h
        have h1 := (wrapHalf_eq_iff S b b').mp h'.1
        have h2 := ih y y' h'.2
        have e : dotInt (a :: r) (b :: y) - dotInt (a :: r) (b' :: y') =
            a * (b - b') + (dotInt r y - dotInt r y') := by
          simp only [dotInt, List.zip_cons_cons, List.map_cons, List.sum_cons]
          rw [Int.mul_sub]; omega
        rw [e]
        have d1 : S ∣ a * (b - b') := Int.dvd_trans (Int.dvd_of_emod_eq_zero h1) (Int.dvd_mul_left _ _)
        have d2 : S ∣ dotInt r y - dotInt r y' := Int.dvd_of_emod_eq_zero h2
        exact Int.emod_eq_zero_of_dvd (Int.dvd_add d1 d2)

/-- congruent points have congruent images -/
theorem applyOp_cong (S : Int) (R : List (List Int)) (t y y' : List Int) (h : Cong S y y') :
    Cong S (applyOp S R t y) (applyOp S R t y') := by
  rw [cong_iff_coord]
  refine ⟨by rw [applyOp_length, applyOp_length], ?_⟩
  intro c hc
  rw [applyOp_length] at hc
  have h1 : c < R.length := by omega
  have h2 : c < t.length := by omega
  rw [applyOp_getD S R t y c h1 h2, applyOp_getD S R t y' c h1 h2]
  have := dotInt_cong S (R.getD c []) y y' h
  have e : dotInt (R.getD c []) y + t.getD c 0 - (dotInt (R.getD c []) y' + t.getD c 0) =
      dotInt (R.getD c []) y - dotInt (R.getD c []) y' := by omega
  rw [e]; exact this

/-! ## the identity rotation is the plain translation -/

theorem applyOp_identity (S : Int) (R : List (List Int)) (t x : List Int) (hR : isIdentity R = true)
    (ht : t.length = 3) (hx : x.length = 3) : applyOp S R t x = transPos t x := by
  have hR' : R = [[1, 0, 0], [0, 1, 0], [0, 0, 1]] := by simpa [isIdentity] using hR
  subst hR'
  match t, ht, x, hx with
  | [t0, t1, t2], _, [x0, x1, x2], _ =>
    simp [applyOp, dotInt, transPos]

/-! ## rotation of the first operation followed by the lattice translation -/

theorem transPos_cong_right (S : Int) (T y y' : List Int) (h : Cong S y y') :
    Cong S (transPos T y) (transPos T y') := by
  unfold Cong at *
  rw [← roundPos_transPos_roundPos S T y, h, roundPos_transPos_roundPos]

theorem cong_compose (S : Int) (R : List (List Int)) (tf ti T x y z : List Int)
    (hR : R.length = 3) (htf : tf.length = 3) (hti : ti.length = 3)
    (hT : Cong S T (subVec ti tf))
    (h1 : Cong S y (applyOp S R tf x))
    (h2 : Cong S z (transPos T y)) :
    Cong S z (applyOp S R ti x) := by
  refine h2.trans ((transPos_cong_right S T _ _ h1).trans ?_)
  have hTlen : T.length = 3 := by rw [hT.length_eq, subVec_length, hti, htf]; rfl
  have hal : (applyOp S R tf x).length = 3 := by rw [applyOp_length, hR, htf]; rfl
  rw [cong_iff_coord]
  have hl : (transPos T (applyOp S R tf x)).length = 3 := by
    rw [transPos_length T _ (hal.trans hTlen.symm), hal]
  refine ⟨by rw [hl, applyOp_length, hR, hti]; rfl, ?_⟩
  intro c hc
  rw [hl] at hc
  rw [transPos_getD T _ c (hal.trans hTlen.symm) (by omega),
    applyOp_getD S R tf x c (by omega) (by omega), applyOp_getD S R ti x c (by omega) (by omega)]
  have hTc := ((cong_iff_coord S _ _).mp hT).2 c (by omega)
  rw [subVec_getD ti tf c (by omega) (by omega)] at hTc
  have e : dotInt (R.getD c []) x + tf.getD c 0 + T.getD c 0 - (dotInt (R.getD c []) x + ti.getD c 0) =
      T.getD c 0 - (ti.getD c 0 - tf.getD c 0) := by omega
  rw [e]; exact hTc

/-! ## a map of the (pairwise distinct) position set onto itself is realised by a permutation -/

theorem exists_perm_of_into_onto (S : Int) (ps : List (List Int)) (g : List Int → List Int)
    (hd : positionsDistinct S ps = true)
    (hinto : ∀ a, a < ps.length → ∃ b, b < ps.length ∧ Cong S (ps.getD b []) (g (ps.getD a [])))
    (honto : ∀ b, b < ps.length → ∃ a, a < ps.length ∧ Cong S (ps.getD b []) (g (ps.getD a []))) :
    ∃ σ : List Nat, σ.Perm (List.range ps.length) ∧
      ∀ a, a < ps.length → Cong S (ps.getD (σ.getD a 0) []) (g (ps.getD a [])) := by
  have h1 : ∀ a, ∃ b, a < ps.length → (b < ps.length ∧ Cong S (ps.getD b []) (g (ps.getD a []))) := by
    intro a
    by_cases ha : a < ps.length
    · obtain ⟨b, hb⟩ := hinto a ha
      exact ⟨b, fun _ => hb⟩
    · exact ⟨0, fun h => absurd h ha⟩
  obtain ⟨f, hf⟩ := Classical.axiomOfChoice h1
  refine ⟨(List.range ps.length).map f, ?_, ?_⟩
  · apply perm_range_of_surj _ (by simp)
    intro b hb
    obtain ⟨a, ha, hc⟩ := honto b hb
    have h2 := hf a ha
    have : b = f a := distinct_cong hd hb h2.1 (hc.trans h2.2.symm)
    rw [List.mem_map]
    exact ⟨a, List.mem_range.mpr ha, this.symm⟩
  · intro a ha
    rw [getD_map_range _ _ a ha]
    exact (hf a ha).2

/-! ## membership in `pure_trans` -/

theorem mem_pureTranslations (rots : List (List (List Int))) (trans : List (List Int)) (t : List Int)
    (h : t ∈ pureTranslations rots trans) :
    ∃ k, k < rots.length ∧ k < trans.length ∧ isIdentity (rots.getD k []) = true ∧ trans.getD k [] = t := by
  unfold pureTranslations at h
  rw [List.mem_map] at h
  obtain ⟨⟨r, t'⟩, hm, rfl⟩ := h
  rw [List.mem_filter] at hm
  obtain ⟨hz, hid⟩ := hm
  obtain ⟨k, hk, hke⟩ := List.getElem_of_mem hz
  have hk' : k < rots.length ∧ k < trans.length := by
    rw [List.length_zip] at hk; omega
  rw [List.getElem_zip] at hke
  simp only [Prod.mk.injEq] at hke
  refine ⟨k, hk'.1, hk'.2, ?_, ?_⟩
  · simpa [List.getD_eq_getElem?_getD, hk'.1, hke.1] using hid
  · simp [List.getD_eq_getElem?_getD, hk'.2, hke.2]

theorem allSomeL_map_of_exists {α β : Type} (f : α → Option β) (d : β) (l : List α)
    (h : ∀ x ∈ l, ∃ y, f x = some y) :
    allSomeL (l.map f) = some (l.map (fun x => (f x).getD d)) := by
  apply allSomeL_map
  intro x hx
  obtain ⟨y, hy⟩ := h x hx
  rw [hy]; rfl

theorem getD_map_lt {α β : Type} (l : List α) (g : α → β) (i : Nat) (hi : i < l.length) (d : α) (e : β) :
    (l.map g).getD i e = g (l.getD i d) := by
  simp [List.getD_eq_getElem?_getD, hi]

theorem getD_zip_lt {α β : Type} (l₁ : List α) (l₂ : List β) (i : Nat) (h1 : i < l₁.length)
    (h2 : i < l₂.length) (d₁ : α) (d₂ : β) :
    (l₁.zip l₂).getD i (d₁, d₂) = (l₁.getD i d₁, l₂.getD i d₂) := by
  have hz : i < (l₁.zip l₂).length := by rw [List.length_zip]; omega
  simp [List.getD_eq_getElem?_getD, List.getElem?_eq_getElem hz, h1, h2]

end Symfc.SgPermFull
