/-
  Lemmas/Cell2.lean — Part 2 (C14.a): `indepAtoms` = the increasing list of orbit minima.
-/
import SymfcModel.Lemmas.Cell1
namespace Symfc
namespace Cell

/-- `a` is the lowest atom of its orbit -/
def isOrbitMin (c : Cell) (a : Nat) : Prop := ∀ l, l < c.nlp → a ≤ c.img l a

/-- every atom has an orbit minimum in its orbit -/
theorem WF.exists_orbitMin {c : Cell} (h : WF c) {i : Nat} (hi : i < c.N) :
    ∃ l, l < c.nlp ∧ isOrbitMin c (c.img l i) ∧ c.img l i ≤ i := by
  obtain ⟨l, hl, hmin⟩ := exists_min_lt (fun l => c.img l i) c.nlp h.nlp_pos
  refine ⟨l, hl, ?_, ?_⟩
  · intro m hm
    obtain ⟨p, hp, hc⟩ := h.closure m l hm hl
    rw [← hc i hi]
    exact hmin p hp
  · have := hmin 0 h.nlp_pos
    simp only [h.img_zero i hi] at this
    exact this

/-- one step of the `indepAtoms` scan -/
def indepStep (c : Cell) (acc : List Nat) (i : Nat) : List Nat :=
  if acc.any (fun j => (List.range c.nlp).any (fun l => c.img l i == j)) then acc else acc ++ [i]

theorem indepAtoms_eq (c : Cell) : c.indepAtoms = (List.range c.N).foldl (indepStep c) [] := rfl

theorem WF.indep_inv {c : Cell} (h : WF c) : ∀ k, k ≤ c.N →
    ((List.range k).foldl (indepStep c) []).Pairwise (· < ·) ∧
    ∀ a, a ∈ (List.range k).foldl (indepStep c) [] ↔ a < k ∧ isOrbitMin c a := by
  intro k
  induction k with
  | zero => intro _; simp
  | succ k ih =>
    intro hk
    obtain ⟨hpw, hmem⟩ := ih (by omega)
    rw [List.range_succ, List.foldl_append]
    simp only [List.foldl_cons, List.foldl_nil]
    generalize (List.range k).foldl (indepStep c) [] = acc at hpw hmem
    unfold indepStep
    split
    · next hany =>
      simp only [List.any_eq_true, List.mem_range, beq_iff_eq] at hany
      obtain ⟨j, hj, l, hl, e⟩ := hany
      refine ⟨hpw, fun a => ?_⟩
      rw [hmem a]
      constructor
      · intro ⟨h1, h2⟩; exact ⟨by omega, h2⟩
      · intro ⟨h1, h2⟩
        refine ⟨?_, h2⟩
        by_cases hak : a = k
        · subst hak
          have := h2 l hl
          have := ((hmem j).mp hj).1
          omega
        · omega
    · next hany =>
      have hkmin : isOrbitMin c k := by
        refine Classical.byContradiction fun hnot => hany ?_
        obtain ⟨l, hl, hmin, hle⟩ := h.exists_orbitMin (i := k) (by omega)
        simp only [List.any_eq_true, List.mem_range, beq_iff_eq]
        refine ⟨c.img l k, (hmem _).mpr ⟨?_, hmin⟩, l, hl, rfl⟩
        by_cases hlt : c.img l k < k
        · exact hlt
        · have : c.img l k = k := by omega
          rw [this] at hmin
          exact absurd hmin hnot
      refine ⟨?_, fun a => ?_⟩
      · rw [List.pairwise_append]
        refine ⟨hpw, by simp, ?_⟩
        intro a ha b hb
        simp only [List.mem_singleton] at hb
        subst hb
        exact ((hmem a).mp ha).1
      · simp only [List.mem_append, List.mem_singleton, hmem a]
        constructor
        · rintro (⟨h1, h2⟩ | rfl)
          · exact ⟨by omega, h2⟩
          · exact ⟨by omega, hkmin⟩
        · intro ⟨h1, h2⟩
          by_cases hak : a = k
          · exact Or.inr hak
          · exact Or.inl ⟨by omega, h2⟩

theorem WF.indep_pairwise {c : Cell} (h : WF c) : c.indepAtoms.Pairwise (· < ·) :=
  (h.indep_inv c.N (Nat.le_refl _)).1

theorem WF.mem_indep {c : Cell} (h : WF c) (a : Nat) :
    a ∈ c.indepAtoms ↔ a < c.N ∧ isOrbitMin c a :=
  (h.indep_inv c.N (Nat.le_refl _)).2 a

theorem WF.indep_nodup {c : Cell} (h : WF c) : c.indepAtoms.Nodup :=
  h.indep_pairwise.imp (fun hab => Nat.ne_of_lt hab)

/-- existence of the independent representative, with the translation that reaches `i` from it -/
theorem WF.exists_indep {c : Cell} (h : WF c) {i : Nat} (hi : i < c.N) :
    ∃ a, a ∈ c.indepAtoms ∧ sameOrbit c a i := by
  obtain ⟨l, hl, hmin, _⟩ := h.exists_orbitMin hi
  have hlt := h.img_lt l i hl hi
  exact ⟨c.img l i, (h.mem_indep _).mpr ⟨hlt, hmin⟩, h.sameOrbit_symm hi ⟨l, hl, rfl⟩⟩

/-- two independent atoms in the same orbit coincide -/
theorem WF.indep_unique {c : Cell} (h : WF c) {a b : Nat} (ha : a ∈ c.indepAtoms)
    (hb : b ∈ c.indepAtoms) (hab : sameOrbit c a b) : a = b := by
  obtain ⟨ha1, ha2⟩ := (h.mem_indep a).mp ha
  obtain ⟨hb1, hb2⟩ := (h.mem_indep b).mp hb
  obtain ⟨l, hl, e⟩ := hab
  obtain ⟨k, hk, e'⟩ := h.sameOrbit_symm ha1 ⟨l, hl, e⟩
  have h1 := ha2 l hl
  have h2 := hb2 k hk
  omega

/-- the orbits of the independent atoms tile `range N` -/
theorem WF.orbits_perm {c : Cell} (h : WF c) :
    (c.indepAtoms.flatMap (orbitList c)).Perm (List.range c.N) := by
  have hnd : (c.indepAtoms.flatMap (orbitList c)).Nodup := by
    rw [List.Nodup, List.pairwise_flatMap]
    constructor
    · intro a ha
      exact h.nodup_orbitList ((h.mem_indep a).mp ha).1
    · refine List.Pairwise.imp_of_mem ?_ h.indep_nodup
      intro a b ha hb hne x hx y hy exy
      subst exy
      have ha1 := ((h.mem_indep a).mp ha).1
      have hb1 := ((h.mem_indep b).mp hb).1
      rw [mem_orbitList] at hx hy
      exact hne (h.indep_unique ha hb (h.sameOrbit_trans ha1 hx (h.sameOrbit_symm hb1 hy)))
  rw [List.perm_ext_iff_of_nodup hnd List.nodup_range]
  intro x
  simp only [List.mem_flatMap, mem_orbitList, List.mem_range]
  constructor
  · rintro ⟨a, ha, hax⟩
    exact h.sameOrbit_lt ((h.mem_indep a).mp ha).1 hax
  · intro hx
    exact h.exists_indep hx

theorem WF.N_eq {c : Cell} (h : WF c) : c.N = c.indepAtoms.length * c.nlp := by
  have := h.orbits_perm.length_eq
  rw [List.length_range, List.length_flatMap] at this
  rw [← this]
  have : ∀ (xs : List Nat), (xs.map (fun a => (orbitList c a).length)).sum = xs.length * c.nlp := by
    intro xs
    simp only [length_orbitList]
    induction xs with
    | nil => simp
    | cons x xs ih => simp only [List.map_cons, List.sum_cons, ih,
        List.length_cons, Nat.succ_mul]; omega
  exact this _

/-- **C14.a** — `indepAtoms` is the strictly increasing list containing exactly the lowest atom
    of every translation orbit; there are `N / nlp` of them. -/
theorem indepAtoms_spec (c : Cell) (hwf : c.wf = true) :
    (c.indepAtoms.Pairwise (· < ·) ∧ ∀ a, a ∈ c.indepAtoms → a < c.N) ∧
    (∀ i, i < c.N → ∃ a, (a ∈ c.indepAtoms ∧ sameOrbit c a i) ∧
        ∀ b, (b ∈ c.indepAtoms ∧ sameOrbit c b i) → b = a) ∧
    (∀ a, a ∈ c.indepAtoms → ∀ l, l < c.nlp → a ≤ c.img l a) ∧
    c.N = c.indepAtoms.length * c.nlp := by
  have h := wf_WF c hwf
  refine ⟨⟨h.indep_pairwise, fun a ha => ((h.mem_indep a).mp ha).1⟩, ?_, ?_, h.N_eq⟩
  · intro i hi
    obtain ⟨a, ha, hai⟩ := h.exists_indep hi
    refine ⟨a, ⟨ha, hai⟩, fun b ⟨hb, hbi⟩ => ?_⟩
    have ha1 := ((h.mem_indep a).mp ha).1
    have hb1 := ((h.mem_indep b).mp hb).1
    exact h.indep_unique hb ha (h.sameOrbit_trans hb1 hbi (h.sameOrbit_symm ha1 hai))
  · intro a ha
    exact ((h.mem_indep a).mp ha).2

/-- the same statement with `∃!` -/
theorem indepAtoms_existsUnique (c : Cell) (hwf : c.wf = true) (i : Nat) (hi : i < c.N) :
    ∃ a, (a ∈ c.indepAtoms ∧ sameOrbit c a i) ∧
      ∀ b, (b ∈ c.indepAtoms ∧ sameOrbit c b i) → b = a :=
  (indepAtoms_spec c hwf).2.1 i hi

end Cell
end Symfc
