/-
  Lemmas/HomogeneousMat.lean — (H4, Mathlib matrix form) the bridge from the model-level homogeneity
  (`Homogeneous.designEntrySpec_scale`, core only) to the abstract matrix statement
  `C13.scaling_irrelevant` / `LinAlg.normal_eq_smul_iff`.
-/
import SymfcModel.Lemmas.Homogeneous
import SymfcModel.Lemmas.LinAlg
namespace Symfc.Homogeneous
open Symfc Matrix

variable {K : Type*} [Field K]

/-- the order-`od.k` Taylor design block `6·X_k` of ONE snapshot `u`, as a matrix over `K`:
    rows `(atom i, component a)`, columns `x < nx`, entries `designEntrySpec` cast to `K` -/
def designMatrix (K : Type*) [Field K] (c : Cell) (od : OrderData) (u : Array Int) :
    Matrix (Fin c.N × Fin 3) (Fin od.nx) K :=
  Matrix.of (fun p x => ((designEntrySpec c od u p.1.val p.2.val x.val : Int) : K))

/-- **(H4)** `X_k(s·u) = s^(k−1) • X_k(u)` as Mathlib matrices -/
theorem designMatrix_scale (c : Cell) (od : OrderData) (u : Array Int) (s : Int) :
    designMatrix K c od (u.map (s * ·)) = ((s : K) ^ (od.k - 1)) • designMatrix K c od u := by
  ext p x
  simp only [designMatrix, Matrix.of_apply, Matrix.smul_apply, smul_eq_mul, designEntrySpec_scale,
    Int.cast_mul, Int.cast_pow]

/-- **(H4)** the scaled dataset `(s·u, s^(k−1)·f)` has exactly the fits of `(u, f)` (single order `k`, `s ≠ 0`):
    model-level homogeneity plugged into `LinAlg.normal_eq_smul_iff` -/
theorem scaled_dataset_same_fits (c : Cell) (od : OrderData) (u : Array Int) (s : Int) (hs : (s : K) ≠ 0)
    (y : Fin c.N × Fin 3 → K) (cf : Fin od.nx → K) :
    ((designMatrix K c od (u.map (s * ·)))ᵀ * designMatrix K c od (u.map (s * ·))) *ᵥ cf
        = (designMatrix K c od (u.map (s * ·)))ᵀ *ᵥ (((s : K) ^ (od.k - 1)) • y)
      ↔ ((designMatrix K c od u)ᵀ * designMatrix K c od u) *ᵥ cf = (designMatrix K c od u)ᵀ *ᵥ y := by
  rw [designMatrix_scale]
  exact LinAlg.normal_eq_smul_iff _ y _ (pow_ne_zero _ hs) cf

end Symfc.Homogeneous
