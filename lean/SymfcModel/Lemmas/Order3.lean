/-
  Lemmas/Order3.lean — C01 at tensor order 3.

  `compr_permutation_lat_trans_O3` writes, stage by stage and batch by batch,
  `for col: for row: ptr[row[col]] := row[0]` (first-column representatives, later writes win).
  Main theorem `C01_order3`: for every well-formed cell, every cutoff input and EVERY batch-count
  function, the connected components of the resulting pointer graph are exactly the rows
  (= orbits of index permutations × lattice translations) of the three stages.

  Structure of the proof (files `Order3a` … `Order3d`):
    * `last_family_batch` (Order3a): for a row `r`, the final values at the elements of `r` are
      decided by the LAST batch `B` containing a row with the same elements ("family" of `r`),
      through the "last column wins" rule `LastCol B`.
    * abstract one-batch connectivity lemmas (Order3a): `conn_one_col`, `conn_three_cols`,
      `conn_six_distinct` (at most three heads, none a fixed point ⇒ `conn_of_three`),
      `conn_two_vals`.
    * `elemIdx` at order 3 (Order3b): translation, separation, freeness, independent first atom.
    * stages 1, 2 (Order3c) and 3 (Order3d, trivial / cyclic stabiliser): `stage{1,2,3}_conn`.
-/
import SymfcModel.Lemmas.Order3d
namespace Symfc
namespace O3
open OC

/-- one batch of any stage of `Gen.stagesO3`: if the final values at the elements of a row `r` of
    the batch obey the "last column wins" rule of that batch, all of `r` is in one component -/
theorem batch_conn (c : Cell) (hwf : c.wf = true) (cut : Option CutoffIn)
    (hcut : ∀ x, cut = some x → x.N = c.N) {B : List (List Nat)}
    (hB : IsStageBatch c.N (c.atomicDecompr 3) Gen.stagesO3
      (fun st => stageCombs Gen.cutoffOps c 3 cut st) B)
    (hoc : OrbitClosed B) {r : List Nat} (hr : r ∈ B) {q : Array Int}
    (hsz : ∀ e ∈ r, e < q.size) (hq : ∀ e ∈ r, LastCol B q e) :
    ∀ a ∈ r, ∀ b ∈ r, SameComp q a b := by
  obtain ⟨st, hst, cs, hcs, rfl⟩ := hB
  rw [stagesO3_eq] at hst
  simp only [List.mem_cons, List.not_mem_nil, or_false] at hst
  rcases hst with rfl | rfl | rfl
  · exact stage1_conn c hr hsz hq
  · exact stage2_conn c hwf cut hcut hcs hoc hr hsz hq
  · exact stage3_conn c hwf cut hcut hcs hoc hr hsz hq

/-- every row of every stage is internally connected in the final pointer graph -/
theorem C01_order3_rows_connected (c : Cell) (hwf : c.wf = true) (cut : Option CutoffIn)
    (hcut : ∀ x, cut = some x → x.N = c.N) (nBatch : String → Nat) (ptr' : Array Int)
    (h : permDecompr Gen.cutoffOps c 3 Gen.repKindO3 Gen.stagesO3 cut nBatch = some ptr')
    (r : List Nat) (hr : r ∈ allStageRows Gen.cutoffOps c 3 Gen.stagesO3 cut) :
    ∀ a ∈ r, ∀ b ∈ r, SameComp ptr' a b := by
  have hk : Gen.repKindO3 = RepKind.col0 := rfl
  rw [hk] at h
  obtain ⟨bs, rfl, hu, hmem, hbatch⟩ := permDecompr_spec' h
  have hn : (3 : Nat) = 2 ∨ (3 : Nat) = 3 ∨ (3 : Nat) = 4 := Or.inr (Or.inl rfl)
  have hs : stagesFor 3 = Gen.stagesO3 := rfl
  have hoc0 := allStageRows_orbitClosed c hwf hn cut hcut
  have hb0 := allStageRows_lt c hwf hn cut hcut
  rw [hs] at hoc0 hb0
  have hoc : OrbitClosed bs.flatten := hoc0.of_subset (fun r => (hmem r).mp)
  have hb : ∀ r ∈ bs.flatten, ∀ e ∈ r, e < c.N ^ 3 * 3 ^ 3 / c.nlp :=
    fun r hr => hb0 r ((hmem r).mp hr)
  intro a ha b hb'
  have hr' : r ∈ bs.flatten := (hmem r).mpr hr
  obtain ⟨B, hBm, ⟨R, hR, hRs⟩, hlast⟩ := last_family_batch bs hu hoc
    (Array.replicate (c.N ^ 3 * 3 ^ 3 / c.nlp) (-1)) r hr' (List.ne_nil_of_mem ha)
    (fun e he => by rw [Array.size_replicate]; exact hb r hr' e he)
  have hocB : OrbitClosed B :=
    hoc.of_subset (fun x hx => List.mem_flatten.mpr ⟨B, hBm, hx⟩)
  exact batch_conn c hwf cut hcut (hbatch B hBm) hocB hR
    (fun e he => by
      rw [foldBatches_size, Array.size_replicate]; exact hb r hr' e ((hRs e).mp he))
    (fun e he => hlast e ((hRs e).mp he)) a ((hRs a).mpr ha) b ((hRs b).mpr hb')

/-- **C01 at order 3.**  For every well-formed cell, every cutoff input and every batch-count
    function: two class-space indices are in the same connected component of the pointer graph
    built by `compr_permutation_lat_trans_O3` iff they lie in a common row of some stage. -/
theorem C01_order3 (c : Cell) (hwf : c.wf = true) (cut : Option CutoffIn)
    (hcut : ∀ x, cut = some x → x.N = c.N) (nBatch : String → Nat) (ptr' : Array Int)
    (h : permDecompr Gen.cutoffOps c 3 Gen.repKindO3 Gen.stagesO3 cut nBatch = some ptr')
    (a b : Nat) :
    SameComp ptr' a b ↔
      ∃ r ∈ allStageRows Gen.cutoffOps c 3 Gen.stagesO3 cut, a ∈ r ∧ b ∈ r := by
  constructor
  · intro hab
    have hk : Gen.repKindO3 = RepKind.col0 := rfl
    have h' := h
    rw [hk] at h'
    obtain ⟨bs, rfl, hu, hmem⟩ := permDecompr_spec h'
    have hn : (3 : Nat) = 2 ∨ (3 : Nat) = 3 ∨ (3 : Nat) = 4 := Or.inr (Or.inl rfl)
    have hs : stagesFor 3 = Gen.stagesO3 := rfl
    have hoc0 := allStageRows_orbitClosed c hwf hn cut hcut
    have hb0 := allStageRows_lt c hwf hn cut hcut
    rw [hs] at hoc0 hb0
    obtain ⟨r, hr, hab'⟩ := foldBatches_sameComp_imp_row .col0 bs _ hu
      (hoc0.of_subset (fun r => (hmem r).mp)) (fun r hr => hb0 r ((hmem r).mp hr)) hab
    exact ⟨r, (hmem r).mp hr, hab'⟩
  · rintro ⟨r, hr, ha, hb⟩
    exact C01_order3_rows_connected c hwf cut hcut nBatch ptr' h r hr a ha b hb

/-- corollary: the partition into components does not depend on the batch counts (although the
    pointer array itself does, see the examples below) -/
theorem C01_order3_batch_indep (c : Cell) (hwf : c.wf = true) (cut : Option CutoffIn)
    (hcut : ∀ x, cut = some x → x.N = c.N) (nBatch nBatch' : String → Nat) (p1 p2 : Array Int)
    (h1 : permDecompr Gen.cutoffOps c 3 Gen.repKindO3 Gen.stagesO3 cut nBatch = some p1)
    (h2 : permDecompr Gen.cutoffOps c 3 Gen.repKindO3 Gen.stagesO3 cut nBatch' = some p2)
    (a b : Nat) : SameComp p1 a b ↔ SameComp p2 a b :=
  (C01_order3 c hwf cut hcut nBatch p1 h1 a b).trans
    (C01_order3 c hwf cut hcut nBatch' p2 h2 a b).symm

/-! ## non-vacuity -/

/-- three atoms permuted cyclically by the three lattice translations: the combination
    `[0, 3, 6]` (same Cartesian index on the three atoms) has a cyclic stabiliser -/
def cellZ3 : Cell := { N := 3, tp := #[#[0, 1, 2], #[1, 2, 0], #[2, 0, 1]] }

theorem cellZ3_wf : cellZ3.wf = true := by decide +kernel

/-- both kinds of stage-3 rows occur for `cellZ3`: a row with cyclic stabiliser (two values in the
    pattern `[x,y,y,x,x,y]`) and a family of three rows with trivial stabiliser and three different
    heads `142, 146, 156` -/
example :
    [135, 189, 189, 135, 135, 189] ∈ allStageRows Gen.cutoffOps cellZ3 3 Gen.stagesO3 none ∧
    [142, 194, 208, 156, 146, 204] ∈ allStageRows Gen.cutoffOps cellZ3 3 Gen.stagesO3 none ∧
    [146, 204, 194, 142, 156, 208] ∈ allStageRows Gen.cutoffOps cellZ3 3 Gen.stagesO3 none ∧
    [156, 208, 204, 146, 142, 194] ∈ allStageRows Gen.cutoffOps cellZ3 3 Gen.stagesO3 none := by
  decide +kernel

/-- the model succeeds for one batch per stage and for four batches per stage -/
example :
    (permDecompr Gen.cutoffOps cellZ3 3 Gen.repKindO3 Gen.stagesO3 none (fun _ => 1)).isSome = true ∧
    (permDecompr Gen.cutoffOps cellZ3 3 Gen.repKindO3 Gen.stagesO3 none (fun _ => 4)).isSome = true := by
  decide +kernel

/-- the three rows of the family above written in ONE batch leave the 3-cycle
    `146 → 142 → 156 → 146` among the heads; written in three batches they leave a star centred at
    `156`: the pointer array depends on the batching (`#eval` of `permDecompr … cellZ3 …` with
    `fun _ => 1` resp. `fun _ => 4` shows exactly these values) -/
example :
    [146, 142, 156].map (fun e => (foldBatches .col0
      [[[142, 194, 208, 156, 146, 204], [146, 204, 194, 142, 156, 208],
        [156, 208, 204, 146, 142, 194]]] (Array.replicate 243 (-1))).getD e (-1))
      = [142, 156, 146] ∧
    [146, 142, 156].map (fun e => (foldBatches .col0
      [[[142, 194, 208, 156, 146, 204]], [[146, 204, 194, 142, 156, 208]],
        [[156, 208, 204, 146, 142, 194]]] (Array.replicate 243 (-1))).getD e (-1))
      = [156, 156, 156] := by
  decide +kernel

/-- ... nevertheless the components are the rows, for every batch-count function -/
example (nBatch : String → Nat) (ptr' : Array Int)
    (h : permDecompr Gen.cutoffOps cellZ3 3 Gen.repKindO3 Gen.stagesO3 none nBatch = some ptr') :
    SameComp ptr' 135 189 ∧ SameComp ptr' 146 208 ∧ SameComp ptr' 142 204 ∧
      ¬ SameComp ptr' 135 146 := by
  have key := C01_order3 cellZ3 cellZ3_wf none (fun _ h => nomatch h) nBatch ptr' h
  refine ⟨(key _ _).mpr ⟨[135, 189, 189, 135, 135, 189], by decide +kernel, by decide, by decide⟩,
    (key _ _).mpr ⟨[146, 204, 194, 142, 156, 208], by decide +kernel, by decide, by decide⟩,
    (key _ _).mpr ⟨[146, 204, 194, 142, 156, 208], by decide +kernel, by decide, by decide⟩, ?_⟩
  rw [key]
  decide +kernel

/-- the hypotheses hold for `Cell.exampleCell` (N = 8, nlp = 4) with the cutoff `OC.exampleCut`,
    and the model succeeds (236 rows, 3456 class-space indices) -/
example : Cell.exampleCell.wf = true ∧
    (∀ x, some exampleCut = some x → x.N = Cell.exampleCell.N) ∧
    (permDecompr Gen.cutoffOps Cell.exampleCell 3 Gen.repKindO3 Gen.stagesO3 (some exampleCut)
      (fun _ => 3)).isSome = true ∧
    (allStageRows Gen.cutoffOps Cell.exampleCell 3 Gen.stagesO3 (some exampleCut)).length = 236 :=
  ⟨Cell.exampleCell_wf, fun _ h => by cases h; rfl, by decide +kernel, by decide +kernel⟩

example (nBatch : String → Nat) (ptr' : Array Int)
    (h : permDecompr Gen.cutoffOps Cell.exampleCell 3 Gen.repKindO3 Gen.stagesO3 (some exampleCut)
      nBatch = some ptr') (a b : Nat) :
    SameComp ptr' a b ↔
      ∃ r ∈ allStageRows Gen.cutoffOps Cell.exampleCell 3 Gen.stagesO3 (some exampleCut),
        a ∈ r ∧ b ∈ r :=
  C01_order3 _ Cell.exampleCell_wf _ (fun _ h => by cases h; rfl) nBatch ptr' h a b

end O3
end Symfc

section AxiomAudit
open Symfc O3
end AxiomAudit
