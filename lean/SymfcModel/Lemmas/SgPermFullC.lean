/-
  Lemmas/SgPermFullC.lean — B3: the unique-rotation scan (`unique_r`, `unique_t`, `r2ur`) of
  `compute_sg_permutations`: first occurrence wins.
-/
import SymfcModel.Lemmas.SgPermFullA
namespace Symfc.SgPermFull
open Symfc

abbrev Op := List (List Int) × List Int
abbrev ScanState := List (List (List Int)) × List (List Int) × List Nat

/-! ## list helpers -/

theorem getD_append_lt {α : Type} (l : List α) (a d : α) (i : Nat) (hi : i < l.length) :
    (l ++ [a]).getD i d = l.getD i d := by
  simp [List.getD_eq_getElem?_getD, List.getElem?_append_left hi]

theorem getD_append_length {α : Type} (l : List α) (a d : α) : (l ++ [a]).getD l.length d = a := by
  simp [List.getD_eq_getElem?_getD]

theorem getD_mem {α : Type} (l : List α) (d : α) (i : Nat) (hi : i < l.length) : l.getD i d ∈ l := by
  rw [List.getD_eq_getElem?_getD, List.getElem?_eq_getElem hi, Option.getD_some]
  exact List.getElem_mem hi

theorem getD_idxOf {α : Type} [BEq α] [LawfulBEq α] (l : List α) (x d : α) (h : x ∈ l) :
    l.getD (l.idxOf x) d = x := by
  have hlt := List.idxOf_lt_length_of_mem h
  rw [List.getD_eq_getElem?_getD, List.getElem?_eq_getElem hlt, Option.getD_some]
  exact List.getElem_idxOf hlt

theorem idxOf_append_of_mem {α : Type} [BEq α] [LawfulBEq α] (l : List α) (a x : α) (h : x ∈ l) :
    (l ++ [a]).idxOf x = l.idxOf x := by
  rw [List.idxOf_append, if_pos h]

theorem idxOf_append_self {α : Type} [BEq α] [LawfulBEq α] (l : List α) (a : α) (h : a ∉ l) :
    (l ++ [a]).idxOf a = l.length := by
  rw [List.idxOf_append, if_neg h]; simp

/-- no earlier entry equals the entry at `idxOf` -/
theorem ne_of_lt_idxOf {α : Type} [BEq α] [LawfulBEq α] (l : List α) (x d : α) (k : Nat)
    (hk : k < l.idxOf x) : l.getD k d ≠ x := by
  induction l generalizing k with
  | nil => simp at hk
  | cons a l ih =>
    rw [List.idxOf_cons] at hk
    cases hax : a == x with
    | true => rw [hax] at hk; simp at hk
    | false =>
      rw [hax] at hk
      simp only [cond_false] at hk
      cases k with
      | zero => simpa using hax
      | succ k =>
        have := ih k (by omega)
        simpa using this

/-! ## the invariant of the scan -/

/-- state of the scan after the operations `pre` have been processed -/
structure ScanInv (pre : List Op) (s : ScanState) : Prop where
  lenT : s.2.1.length = s.1.length
  nodup : s.1.Nodup
  mem : ∀ r, r ∈ s.1 ↔ r ∈ pre.map (·.1)
  src : ∀ u, u < s.1.length → ∃ f, f < pre.length ∧
      (pre.map (·.1)).idxOf ((pre.map (·.1)).getD f []) = f ∧
      s.1.getD u [] = (pre.map (·.1)).getD f [] ∧ s.2.1.getD u [] = (pre.map (·.2)).getD f []
  lenM : s.2.2.length = pre.length
  idx : ∀ i, i < pre.length → s.2.2.getD i 0 = s.1.idxOf ((pre.map (·.1)).getD i [])

theorem scanInv_nil : ScanInv [] ([], [], []) :=
  ⟨rfl, List.nodup_nil, fun r => by simp, fun u hu => by simp at hu, rfl, fun i hi => by simp at hi⟩

theorem scanInv_step (pre : List Op) (s : ScanState) (op : Op) (h : ScanInv pre s) :
    ScanInv (pre ++ [op]) (rotScanStep s op) := by
  obtain ⟨ur, ut, m⟩ := s
  obtain ⟨r, t⟩ := op
  obtain ⟨hlenT, hnd, hmem, hsrc, hlenM, hidx⟩ := h
  simp only at hlenT hnd hmem hsrc hlenM hidx
  have hR : (pre ++ [(r, t)]).map (·.1) = pre.map (·.1) ++ [r] := by simp
  have hT : (pre ++ [(r, t)]).map (·.2) = pre.map (·.2) ++ [t] := by simp
  have hRlen : (pre.map (·.1)).length = pre.length := by simp
  have hTlen : (pre.map (·.2)).length = pre.length := by simp
  -- the old sources stay valid
  have hsrc' : ∀ u, u < ur.length → ∃ f, f < (pre ++ [(r, t)]).length ∧
      ((pre ++ [(r, t)]).map (·.1)).idxOf (((pre ++ [(r, t)]).map (·.1)).getD f []) = f ∧
      ur.getD u [] = ((pre ++ [(r, t)]).map (·.1)).getD f [] ∧
      ut.getD u [] = ((pre ++ [(r, t)]).map (·.2)).getD f [] := by
    intro u hu
    obtain ⟨f, hf, h1, h2, h3⟩ := hsrc u hu
    refine ⟨f, by simp; omega, ?_, ?_, ?_⟩
    · rw [hR, getD_append_lt _ _ _ _ (hRlen ▸ hf),
        idxOf_append_of_mem _ _ _ (getD_mem _ _ _ (hRlen ▸ hf)), h1]
    · rw [hR, getD_append_lt _ _ _ _ (hRlen ▸ hf), h2]
    · rw [hT, getD_append_lt _ _ _ _ (hTlen ▸ hf), h3]
  unfold rotScanStep
  simp only
  split
  next hlt =>
    -- the rotation is already known
    have hrmem : r ∈ ur := List.idxOf_lt_length_iff.mp hlt
    refine ⟨hlenT, hnd, ?_, hsrc', ?_, ?_⟩
    · intro r'
      simp only
      rw [hR, List.mem_append, List.mem_singleton, hmem r']
      constructor
      · exact Or.inl
      · rintro (h | rfl)
        · exact h
        · exact (hmem _).mp hrmem
    · simp [hlenM]
    · intro i hi
      simp only [List.length_append, List.length_cons, List.length_nil] at hi
      simp only
      by_cases hip : i < pre.length
      · rw [getD_append_lt _ _ _ _ (hlenM ▸ hip), hR, getD_append_lt _ _ _ _ (hRlen ▸ hip)]
        exact hidx i hip
      · have hie : i = pre.length := by omega
        subst hie
        rw [hR]
        have e1 := getD_append_length m (List.idxOf r ur) 0
        rw [hlenM] at e1
        have e2 := getD_append_length (pre.map (·.1)) r []
        rw [hRlen] at e2
        rw [e1, e2]
  next hlt =>
    -- a new rotation
    have hrmem : r ∉ ur := fun h => hlt (List.idxOf_lt_length_iff.mpr h)
    have hrpre : r ∉ pre.map (·.1) := fun h => hrmem ((hmem r).mpr h)
    refine ⟨by simp [hlenT], ?_, ?_, ?_, by simp [hlenM], ?_⟩
    · simp only
      rw [List.nodup_append]
      refine ⟨hnd, by simp, ?_⟩
      intro a ha b hb
      rw [List.mem_singleton] at hb
      subst hb
      exact fun h => hrmem (h ▸ ha)
    · intro r'
      simp only
      rw [hR, List.mem_append, List.mem_append, hmem r']
    · intro u hu
      simp only [List.length_append, List.length_cons, List.length_nil] at hu
      simp only
      by_cases hup : u < ur.length
      · rw [getD_append_lt _ _ _ _ hup, getD_append_lt _ _ _ _ (hlenT ▸ hup)]
        exact hsrc' u hup
      · have hue : u = ur.length := by omega
        subst hue
        refine ⟨pre.length, by simp, ?_, ?_, ?_⟩
        · rw [hR]
          have e2 := getD_append_length (pre.map (·.1)) r []
          rw [hRlen] at e2
          rw [e2, idxOf_append_self _ _ hrpre, hRlen]
        · rw [hR]
          have e2 := getD_append_length (pre.map (·.1)) r []
          rw [hRlen] at e2
          rw [e2, getD_append_length]
        · rw [hT]
          have e2 := getD_append_length (pre.map (·.2)) t []
          rw [hTlen] at e2
          have e3 := getD_append_length ut t []
          rw [hlenT] at e3
          rw [e2, e3]
    · intro i hi
      simp only [List.length_append, List.length_cons, List.length_nil] at hi
      simp only
      by_cases hip : i < pre.length
      · rw [getD_append_lt _ _ _ _ (hlenM ▸ hip), hR, getD_append_lt _ _ _ _ (hRlen ▸ hip),
          idxOf_append_of_mem _ _ _ ((hmem _).mpr (getD_mem _ _ _ (hRlen ▸ hip)))]
        exact hidx i hip
      · have hie : i = pre.length := by omega
        subst hie
        rw [hR]
        have e1 := getD_append_length m ur.length 0
        rw [hlenM] at e1
        have e2 := getD_append_length (pre.map (·.1)) r []
        rw [hRlen] at e2
        rw [e1, e2, idxOf_append_self _ _ hrmem]

theorem scanInv_foldl (ops pre : List Op) (s : ScanState) (h : ScanInv pre s) :
    ScanInv (pre ++ ops) (ops.foldl rotScanStep s) := by
  induction ops generalizing pre s with
  | nil => simpa using h
  | cons op ops ih =>
    have := ih (pre ++ [op]) (rotScanStep s op) (scanInv_step pre s op h)
    simpa using this

theorem scanInv_rotScan (ops : List Op) : ScanInv ops (rotScan ops) := by
  have := scanInv_foldl ops [] ([], [], []) scanInv_nil
  simpa [rotScan] using this

/-! ## B3 -/

/-- index of the FIRST operation with the same rotation matrix as operation i -/
def firstOp (rots : List (List (List Int))) (i : Nat) : Nat := rots.idxOf (rots.getD i [])

theorem firstOp_spec (rots : List (List (List Int))) (i : Nat) (hi : i < rots.length) :
    firstOp rots i ≤ i ∧ rots.getD (firstOp rots i) [] = rots.getD i [] ∧
    (∀ k, k < firstOp rots i → rots.getD k [] ≠ rots.getD i []) ∧
    firstOp rots (firstOp rots i) = firstOp rots i := by
  have hm := getD_mem rots [] i hi
  have h2 := getD_idxOf rots _ [] hm
  refine ⟨?_, h2, fun k hk => ne_of_lt_idxOf rots _ [] k hk, ?_⟩
  · apply Nat.le_of_not_lt
    intro hlt
    exact ne_of_lt_idxOf rots _ [] i hlt rfl
  · unfold firstOp at h2 ⊢
    rw [h2]

/-- B3. The unique-rotation scan: `unique_r` has no repetition; `r2ur[i]` is the index in `unique_r` of the rotation
    of operation i, which is the rotation of the FIRST operation `firstOp rots i` with that matrix, and
    `unique_t[r2ur[i]]` is the translation of that first operation; every entry of `(unique_r, unique_t)` is such a
    first operation. -/
theorem unique_rotation_scan (rots : List (List (List Int))) (trans : List (List Int))
    (hn : rots.length = trans.length) :
    (rotScan (rots.zip trans)).1.Nodup ∧
    (rotScan (rots.zip trans)).2.1.length = (rotScan (rots.zip trans)).1.length ∧
    (rotScan (rots.zip trans)).2.2.length = rots.length ∧
    (∀ i, i < rots.length →
      (rotScan (rots.zip trans)).2.2.getD i 0 < (rotScan (rots.zip trans)).1.length ∧
      (rotScan (rots.zip trans)).2.2.getD i 0 = (rotScan (rots.zip trans)).1.idxOf (rots.getD i []) ∧
      (rotScan (rots.zip trans)).1.getD ((rotScan (rots.zip trans)).2.2.getD i 0) [] = rots.getD i [] ∧
      (rotScan (rots.zip trans)).1.getD ((rotScan (rots.zip trans)).2.2.getD i 0) [] =
        rots.getD (firstOp rots i) [] ∧
      (rotScan (rots.zip trans)).2.1.getD ((rotScan (rots.zip trans)).2.2.getD i 0) [] =
        trans.getD (firstOp rots i) []) ∧
    (∀ u, u < (rotScan (rots.zip trans)).1.length → ∃ f, f < rots.length ∧ firstOp rots f = f ∧
      (rotScan (rots.zip trans)).1.getD u [] = rots.getD f [] ∧
      (rotScan (rots.zip trans)).2.1.getD u [] = trans.getD f []) := by
  have hinv := scanInv_rotScan (rots.zip trans)
  have hR : (rots.zip trans).map (·.1) = rots := List.map_fst_zip (by omega)
  have hT : (rots.zip trans).map (·.2) = trans := List.map_snd_zip (by omega)
  have hlen : (rots.zip trans).length = rots.length := by simp [List.length_zip]; omega
  generalize rotScan (rots.zip trans) = s at hinv ⊢
  obtain ⟨ur, ut, m⟩ := s
  obtain ⟨hlenT, hnd, hmem, hsrc, hlenM, hidx⟩ := hinv
  simp only [hR, hT, hlen] at hlenT hnd hmem hsrc hlenM hidx ⊢
  have hsrc' : ∀ u, u < ur.length → ∃ f, f < rots.length ∧ firstOp rots f = f ∧
      ur.getD u [] = rots.getD f [] ∧ ut.getD u [] = trans.getD f [] := hsrc
  refine ⟨hnd, hlenT, hlenM, ?_, hsrc'⟩
  intro i hi
  have hm : rots.getD i [] ∈ ur := (hmem _).mpr (getD_mem rots [] i hi)
  have hlt : ur.idxOf (rots.getD i []) < ur.length := List.idxOf_lt_length_of_mem hm
  have hu := hidx i hi
  have hget : ur.getD (ur.idxOf (rots.getD i [])) [] = rots.getD i [] := getD_idxOf ur _ [] hm
  rw [hu]
  refine ⟨hlt, rfl, hget, ?_, ?_⟩
  · rw [hget, (firstOp_spec rots i hi).2.1]
  · obtain ⟨f, hf, h1, h2, h3⟩ := hsrc' _ hlt
    rw [h3]
    rw [hget] at h2
    have : firstOp rots i = f := by
      unfold firstOp at h1 ⊢
      rw [h2, h1]
    rw [this]

end Symfc.SgPermFull
