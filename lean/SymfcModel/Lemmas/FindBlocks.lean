/-
  Lemmas/FindBlocks.lean — correctness of the model's block finder `findBlocks` (Model/Eig.lean, the
  model of `_find_projector_blocks` = scipy `connected_components` on the non-zero pattern).
  Final statements; the work is in FindBlocksLoop (the `do` loops as folds), FindBlocksInv (invariants)
  and FindBlocksConv (`n` sweeps reach the fixed point).

  F1 `findBlocks_partition`      the blocks are a partition of `range n` into non-empty ascending
                                 lists ordered by their smallest element
  F2 `findBlocks_block_diagonal` entries joining different blocks vanish (both `m[i][j]` and `m[j][i]`)
  F3 `findBlocks_connected`      two indices of one block are joined by a path of non-zero entries that
                                 stays inside the block
  The model is unchanged; all three hold for ANY `m : IMat` with `n = m.size` (entries outside the
  leading `n × n` part are never read by `findBlocks`); for a square matrix F2 extends to all index
  pairs (`findBlocks_block_diagonal_square`).
-/
import SymfcModel.Lemmas.FindBlocksConv
namespace Symfc.FindBlocks

/-! ## the blocks in terms of the labels -/

/-- the label (= smallest index of the component) of index `i` -/
def blockLabel (m : IMat) (i : Nat) : Nat := (labels m).getD i 0

theorem mem_blocksOf {n : Nat} {lab : Array Nat} {b : List Nat} :
    b ∈ blocksOf n lab ↔
      ∃ r, r < n ∧ lab.getD r 0 = r ∧ b = (List.range n).filter (fun i => lab.getD i 0 == r) := by
  unfold blocksOf
  simp only [List.mem_map, List.mem_filter, List.mem_range, beq_iff_eq]
  constructor
  · rintro ⟨r, ⟨h1, h2⟩, rfl⟩; exact ⟨r, h1, h2, rfl⟩
  · rintro ⟨r, h1, h2, rfl⟩; exact ⟨r, ⟨h1, h2⟩, rfl⟩

theorem mem_block {n : Nat} {f : Nat → Nat} {r x : Nat} :
    x ∈ (List.range n).filter (fun i => f i == r) ↔ x < n ∧ f x = r := by
  simp [List.mem_filter]

/-- `b` is a block iff it is the list of all indices carrying the label `r` of a representative -/
theorem mem_findBlocks {m : IMat} {b : List Nat} :
    b ∈ findBlocks m ↔
      ∃ r, r < m.size ∧ blockLabel m r = r ∧
        b = (List.range m.size).filter (fun i => blockLabel m i == r) := by
  rw [findBlocks_eq, mem_blocksOf]; rfl

theorem blockLabel_le (m : IMat) {x : Nat} (hx : x < m.size) : blockLabel m x ≤ x :=
  ((labels_inv m).cov x hx).1

theorem blockLabel_lt (m : IMat) {x : Nat} (hx : x < m.size) : blockLabel m x < m.size :=
  Nat.lt_of_le_of_lt (blockLabel_le m hx) hx

/-- the label of an index is a representative -/
theorem blockLabel_idem (m : IMat) {x : Nat} (hx : x < m.size) :
    blockLabel m (blockLabel m x) = blockLabel m x := by
  have h := labels_isMin m hx
  exact labels_final m _ _ (h.congr h.1)

/-- membership in a block, given one of its members -/
theorem mem_of_mem_findBlocks {m : IMat} {b : List Nat} (hb : b ∈ findBlocks m) {i : Nat}
    (hi : i ∈ b) (j : Nat) : j ∈ b ↔ j < m.size ∧ blockLabel m j = blockLabel m i := by
  obtain ⟨r, _, _, rfl⟩ := mem_findBlocks.mp hb
  rw [mem_block] at hi
  rw [mem_block, hi.2]

theorem lt_of_mem_findBlocks {m : IMat} {b : List Nat} (hb : b ∈ findBlocks m) {i : Nat}
    (hi : i ∈ b) : i < m.size := ((mem_of_mem_findBlocks hb hi i).mp hi).1

/-- every index `< n` lies in the block of its label -/
theorem exists_block (m : IMat) {x : Nat} (hx : x < m.size) : ∃ b ∈ findBlocks m, x ∈ b :=
  ⟨_, mem_findBlocks.mpr ⟨blockLabel m x, blockLabel_lt m hx, blockLabel_idem m hx, rfl⟩,
    mem_block.mpr ⟨hx, rfl⟩⟩

/-- two indices share a block iff they are in range and carry the same label -/
theorem same_block_iff (m : IMat) (i j : Nat) :
    (∃ b ∈ findBlocks m, i ∈ b ∧ j ∈ b) ↔
      i < m.size ∧ j < m.size ∧ blockLabel m i = blockLabel m j := by
  constructor
  · rintro ⟨b, hb, hi, hj⟩
    have := (mem_of_mem_findBlocks hb hi j).mp hj
    exact ⟨lt_of_mem_findBlocks hb hi, this.1, this.2.symm⟩
  · rintro ⟨hi, hj, h⟩
    obtain ⟨b, hb, hib⟩ := exists_block m hi
    exact ⟨b, hb, hib, (mem_of_mem_findBlocks hb hib j).mpr ⟨hj, h.symm⟩⟩

/-- two indices share a block iff they are connected in the non-zero pattern -/
theorem same_block_iff_conn (m : IMat) (i j : Nat) :
    (∃ b ∈ findBlocks m, i ∈ b ∧ j ∈ b) ↔ Conn m m.size i j := by
  rw [same_block_iff]
  constructor
  · rintro ⟨hi, hj, h⟩; exact (labels_eq_iff_conn m hi hj).mp h
  · intro h; exact ⟨h.lt_left, h.lt_right, (labels_eq_iff_conn m h.lt_left h.lt_right).mpr h⟩

/-! ## F1 -/

theorem headD_of_sorted {l : List Nat} {r : Nat} (hs : l.Pairwise (· < ·)) (hr : r ∈ l)
    (hle : ∀ x ∈ l, r ≤ x) : l.headD 0 = r := by
  cases l with
  | nil => cases hr
  | cons h t =>
    show h = r
    have h1 := hle h List.mem_cons_self
    rcases List.mem_cons.mp hr with rfl | hrt
    · rfl
    · have := (List.pairwise_cons.mp hs).1 r hrt
      omega

/-- the smallest element (and head) of a block is its representative -/
theorem block_headD {m : IMat} {r : Nat} (hr : r < m.size) (hrr : blockLabel m r = r) :
    ((List.range m.size).filter (fun i => blockLabel m i == r)).headD 0 = r := by
  apply headD_of_sorted (List.pairwise_lt_range.filter _) (mem_block.mpr ⟨hr, hrr⟩)
  intro x hx
  obtain ⟨hx1, hx2⟩ := mem_block.mp hx
  rw [← hx2]; exact blockLabel_le m hx1

/-- F1: `findBlocks m` is a partition of `range n` (`n = m.size`) into non-empty, strictly ascending,
    pairwise disjoint lists; the head of a block is its smallest element and the blocks are listed in
    increasing order of that element -/
theorem findBlocks_partition (m : IMat) :
    (∀ b ∈ findBlocks m, b ≠ []) ∧
    (∀ b ∈ findBlocks m, b.Pairwise (· < ·)) ∧
    (findBlocks m).Pairwise (fun b c => ∀ x, x ∈ b → x ∉ c) ∧
    (∀ x, x < m.size ↔ ∃ b ∈ findBlocks m, x ∈ b) ∧
    (findBlocks m).flatten.Nodup ∧
    (∀ b ∈ findBlocks m, ∀ x ∈ b, b.headD 0 ≤ x) ∧
    (findBlocks m).Pairwise (fun b c => b.headD 0 < c.headD 0) := by
  refine ⟨?_, ?_, ?_, ?_, findBlocks_flatten_nodup m, ?_, ?_⟩
  · intro b hb
    obtain ⟨r, hr, hrr, rfl⟩ := mem_findBlocks.mp hb
    exact List.ne_nil_of_mem (mem_block.mpr ⟨hr, hrr⟩)
  · intro b hb
    obtain ⟨r, _, _, rfl⟩ := mem_findBlocks.mp hb
    exact List.pairwise_lt_range.filter _
  · have h := (List.pairwise_flatten.mp (findBlocks_flatten_nodup m)).2
    exact h.imp (fun hbc x hx hx' => hbc x hx x hx' rfl)
  · intro x
    constructor
    · exact exists_block m
    · rintro ⟨b, hb, hx⟩; exact lt_of_mem_findBlocks hb hx
  · intro b hb x hx
    obtain ⟨r, hr, hrr, rfl⟩ := mem_findBlocks.mp hb
    rw [block_headD hr hrr]
    obtain ⟨hx1, hx2⟩ := mem_block.mp hx
    rw [← hx2]; exact blockLabel_le m hx1
  · have hform : findBlocks m =
        ((List.range m.size).filter (fun i => blockLabel m i == i)).map
          (fun r => (List.range m.size).filter (fun i => blockLabel m i == r)) := findBlocks_eq m
    rw [hform, List.pairwise_map]
    have hs : ((List.range m.size).filter (fun i => blockLabel m i == i)).Pairwise (· < ·) :=
      List.pairwise_lt_range.filter _
    refine hs.imp_of_mem ?_
    intro r r' hr hr' hlt
    simp only [List.mem_filter, List.mem_range, beq_iff_eq] at hr hr'
    rw [block_headD hr.1 hr.2, block_headD hr'.1 hr'.2]
    exact hlt

/-! ## F2 -/

/-- indices (in range) with different labels are joined by no entry -/
theorem blockLabel_block_diagonal (m : IMat) {i j : Nat} (hi : i < m.size) (hj : j < m.size)
    (h : blockLabel m i ≠ blockLabel m j) : m.get i j = 0 ∧ m.get j i = 0 := by
  apply (edgeB_false_iff m i j).mp
  cases he : edgeB m i j
  · rfl
  · exact absurd (allEq_of_final (labels_final m) i j hi hj he) h

/-- F2: the matrix is block diagonal with respect to the blocks found: for indices `i`, `j` lying in
    DIFFERENT blocks both `m[i][j]` and `m[j][i]` are zero -/
theorem findBlocks_block_diagonal (m : IMat) :
    ∀ b ∈ findBlocks m, ∀ c ∈ findBlocks m, b ≠ c → ∀ i ∈ b, ∀ j ∈ c,
      m.get i j = 0 ∧ m.get j i = 0 := by
  intro b hb c hc hne i hi j hj
  apply blockLabel_block_diagonal m (lt_of_mem_findBlocks hb hi) (lt_of_mem_findBlocks hc hj)
  intro h
  apply hne
  obtain ⟨r, _, _, rfl⟩ := mem_findBlocks.mp hb
  obtain ⟨r', _, _, rfl⟩ := mem_findBlocks.mp hc
  have h1 := (mem_block.mp hi).2
  have h2 := (mem_block.mp hj).2
  have : r = r' := by
    have e1 : blockLabel m i = r := h1
    have e2 : blockLabel m j = r' := h2
    rw [← e1, ← e2]; exact h
  rw [this]

/-- F2 by block position (the form used by `placement`): blocks at different positions -/
theorem findBlocks_block_diagonal_idx (m : IMat) (p q : Nat) (hpq : p ≠ q) :
    ∀ i ∈ (findBlocks m).getD p [], ∀ j ∈ (findBlocks m).getD q [],
      m.get i j = 0 ∧ m.get j i = 0 := by
  intro i hi j hj
  have hp : p < (findBlocks m).length := by
    apply Classical.byContradiction; intro h
    rw [List.getD_eq_getElem?_getD, List.getElem?_eq_none (by omega)] at hi
    cases hi
  have hq : q < (findBlocks m).length := by
    apply Classical.byContradiction; intro h
    rw [List.getD_eq_getElem?_getD, List.getElem?_eq_none (by omega)] at hj
    cases hj
  rw [List.getD_eq_getElem?_getD, List.getElem?_eq_getElem hp] at hi
  rw [List.getD_eq_getElem?_getD, List.getElem?_eq_getElem hq] at hj
  simp only [Option.getD_some] at hi hj
  refine findBlocks_block_diagonal m _ (List.getElem_mem hp) _ (List.getElem_mem hq) ?_ i hi j hj
  intro heq
  have hdis := (findBlocks_partition m).2.2.1
  rcases Nat.lt_or_gt_of_ne hpq with h | h
  · have := List.pairwise_iff_getElem.mp hdis p q hp hq h i hi
    rw [← heq] at this
    exact this hi
  · have := List.pairwise_iff_getElem.mp hdis q p hq hp h j hj
    rw [heq] at this
    exact this hj

/-- in a square matrix entries outside the leading `n × n` part do not exist -/
theorem get_eq_zero_of_square {m : IMat} (hsq : m.square = true) {i j : Nat}
    (h : ¬ (i < m.size ∧ j < m.size)) : m.get i j = 0 := by
  unfold IMat.get
  by_cases hi : i < m.size
  · have hj : ¬ j < m.size := fun hj => h ⟨hi, hj⟩
    have hrow : (m.getD i #[]).size = m.size := by
      have := List.all_eq_true.mp hsq m[i] (Array.mem_toList_iff.mpr (Array.getElem_mem hi))
      rw [Array.getD_eq_getD_getElem?, Array.getElem?_eq_getElem hi]
      simpa using this
    rw [Array.getD_eq_getD_getElem?, Array.getElem?_eq_none (by omega)]
    rfl
  · have : m.getD i #[] = #[] := by simp [Array.getD, hi]
    rw [this]
    rfl

/-- F2 for a square matrix, all index pairs: an entry whose row and column index do not share a block
    is zero (in particular every entry with an index `≥ n`) -/
theorem findBlocks_block_diagonal_square (m : IMat) (hsq : m.square = true) (i j : Nat)
    (h : ¬ ∃ b ∈ findBlocks m, i ∈ b ∧ j ∈ b) : m.get i j = 0 ∧ m.get j i = 0 := by
  by_cases hij : i < m.size ∧ j < m.size
  · apply blockLabel_block_diagonal m hij.1 hij.2
    intro hl
    exact h ((same_block_iff m i j).mpr ⟨hij.1, hij.2, hl⟩)
  · exact ⟨get_eq_zero_of_square hsq hij, get_eq_zero_of_square hsq (fun h' => hij ⟨h'.2, h'.1⟩)⟩

/-! ## F3 -/

/-- a `Conn` derivation yields an explicit path; every index on it is connected to the end point -/
theorem Conn.path {m : IMat} {n i j : Nat} (h : Conn m n i j) :
    ∃ l : List Nat, l.head? = some i ∧ l.getLast? = some j ∧ (∀ k ∈ l, Conn m n k j) ∧
      ∀ s (hs : s + 1 < l.length), edgeB m l[s] l[s + 1] = true := by
  induction h with
  | refl ha =>
    rename_i a
    refine ⟨[a], rfl, rfl, fun k hk => ?_, fun s hs => ?_⟩
    · rw [List.mem_singleton.mp hk]; exact .refl ha
    · simp at hs
  | step ha hb he t ih =>
    rename_i a b c
    obtain ⟨l, h1, h2, h3, h4⟩ := ih
    cases l with
    | nil => cases h1
    | cons b' l' =>
      have hb' : b' = b := by simpa using h1
      subst hb'
      refine ⟨a :: b' :: l', rfl, by rw [List.getLast?_cons_cons]; exact h2, fun k hk => ?_,
        fun s hs => ?_⟩
      · rcases List.mem_cons.mp hk with rfl | hk
        · exact .step ha hb he t
        · exact h3 k hk
      · cases s with
        | zero => exact he
        | succ s =>
          have := h4 s (by simpa using hs)
          simpa using this

/-- F3 (minimality): two indices of the same block are joined by a path `k₀ = i, …, k_r = j` of
    indices of that block such that consecutive indices are joined by a non-zero entry -/
theorem findBlocks_connected (m : IMat) :
    ∀ b ∈ findBlocks m, ∀ i ∈ b, ∀ j ∈ b,
      ∃ l : List Nat, l.head? = some i ∧ l.getLast? = some j ∧ (∀ k ∈ l, k ∈ b) ∧
        ∀ s (hs : s + 1 < l.length), m.get l[s] l[s + 1] ≠ 0 ∨ m.get l[s + 1] l[s] ≠ 0 := by
  intro b hb i hi j hj
  have hc : Conn m m.size i j := (same_block_iff_conn m i j).mp ⟨b, hb, hi, hj⟩
  obtain ⟨l, h1, h2, h3, h4⟩ := hc.path
  refine ⟨l, h1, h2, fun k hk => ?_, fun s hs => (edgeB_iff m _ _).mp (h4 s hs)⟩
  have hkj := h3 k hk
  apply (mem_of_mem_findBlocks hb hj k).mpr
  exact ⟨hkj.lt_left, (labels_eq_iff_conn m hkj.lt_left hkj.lt_right).mpr hkj⟩

/-- converse of F3 (completeness): indices joined by a path of non-zero entries share a block -/
theorem findBlocks_complete (m : IMat) {i j : Nat} (h : Conn m m.size i j) :
    ∃ b ∈ findBlocks m, i ∈ b ∧ j ∈ b := (same_block_iff_conn m i j).mpr h

/-! ## regression checks of the executable model (the model is unchanged) -/

/-- 5 × 5: path 0–4, 4–2, 2–3 (symmetric storage), index 1 isolated -/
def exPath : IMat :=
  #[#[1, 0, 0, 0, 1], #[0, 1, 0, 0, 0], #[0, 0, 1, 1, 1], #[0, 0, 1, 1, 0], #[1, 0, 1, 0, 1]]

/-- 6 × 6: descending chain 0–5, 5–4, 4–3, 3–2 stored in ONE triangle only, index 1 isolated (with a
    diagonal entry); the minimum travels one edge per sweep: three changing sweeps + a confirming one -/
def exChain : IMat :=
  #[#[0, 0, 0, 0, 0, 1], #[0, 1, 0, 0, 0, 0], #[0, 0, 0, 0, 0, 0], #[0, 0, 1, 0, 0, 0],
    #[0, 0, 0, 1, 0, 0], #[0, 0, 0, 0, 1, 0]]

example : exPath.square = true := by decide
example : findBlocks exPath = [[0, 2, 3, 4], [1]] := by decide
set_option maxRecDepth 8000 in
example : labels exPath = #[0, 1, 0, 0, 0] := by decide
example : exChain.square = true := by decide
example : findBlocks exChain = [[0, 2, 3, 4, 5], [1]] := by decide
set_option maxRecDepth 8000 in
example : labels exChain = #[0, 1, 0, 0, 0, 0] := by decide
set_option maxRecDepth 8000 in
example : sweep exChain 6 (initLab 6) = (#[0, 1, 2, 2, 0, 0], true) := by decide
set_option maxRecDepth 8000 in
example : sweep exChain 6 #[0, 1, 2, 2, 0, 0] = (#[0, 1, 2, 0, 0, 0], true) := by decide
set_option maxRecDepth 8000 in
example : sweep exChain 6 #[0, 1, 2, 0, 0, 0] = (#[0, 1, 0, 0, 0, 0], true) := by decide
set_option maxRecDepth 8000 in
example : sweep exChain 6 #[0, 1, 0, 0, 0, 0] = (#[0, 1, 0, 0, 0, 0], false) := by decide
-- with too little fuel the result would differ: the fuel `n` of the model is needed and sufficient here
set_option maxRecDepth 8000 in
example : iter exChain 6 2 (initLab 6) = #[0, 1, 2, 0, 0, 0] := by decide
-- a 5-chain 0–4, 4–3, 3–2, 2–1: three changing sweeps
example : findBlocks #[#[0, 0, 0, 0, 1], #[0, 0, 0, 0, 0], #[0, 1, 0, 0, 0], #[0, 0, 1, 0, 0],
    #[0, 0, 0, 1, 0]] = [[0, 1, 2, 3, 4]] := by decide
-- only one direction of an entry needs to be non-zero (weak connectivity)
example : findBlocks #[#[0, 0, 0], #[0, 0, 0], #[7, 0, 0]] = [[0, 2], [1]] := by decide
example : findBlocks #[#[1, 0, 1], #[0, 1, 0], #[1, 0, 1]] = [[0, 2], [1]] := by decide
example : findBlocks #[#[0, 0], #[0, 0]] = [[0], [1]] := by decide
example : findBlocks #[] = [] := by decide
example : findBlocks #[#[0, 1, 0, 0], #[0, 0, 1, 0], #[0, 0, 0, 1], #[0, 0, 0, 0]] = [[0, 1, 2, 3]] := by
  decide
-- rows longer / shorter than `n`: only the leading `n × n` part is read
example : findBlocks #[#[0, 0, 5], #[0]] = [[0], [1]] := by decide
example : IMat.square #[#[0, 0, 5], #[0]] = false := by decide
-- instances of F2 / F3 on the example
example : exChain.get 3 1 = 0 ∧ exChain.get 1 3 = 0 :=
  findBlocks_block_diagonal exChain [0, 2, 3, 4, 5] (by decide) [1] (by decide) (by decide) 3
    (by decide) 1 (by decide)

end Symfc.FindBlocks
