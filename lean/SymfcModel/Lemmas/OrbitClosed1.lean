/-
  Lemmas/OrbitClosed1.lean — ingredients for the orbit-closure theorems:
    (a) `elemIdx` separates entry tuples exactly up to lattice translations (`tauE`),
    (b) index permutations (`act`) commute with entry-wise maps,
    (c) Boolean table checks (`stageOK`, `snOK`) and their `Prop` readings,
    (d) the rows of a stage are images of S_n-orbits of entry tuples (`row_structure`).
-/
import SymfcModel.Lemmas.Cell
import SymfcModel.Lemmas.Cutoff
import SymfcModel.Lemmas.Perm
import SymfcModel.Model.Tables
import SymfcModel.Model.Inst
namespace Symfc
namespace OC

/-- action of a list of positions `σ` (an index permutation, or an arrangement of a stage table)
    on a tuple `t`: position `k` of the result holds `t[σ[k]]` -/
def act (σ t : List Nat) : List Nat := σ.map (fun i => t.getD i 0)

/-- all index permutations of `n` positions -/
def Sn (n : Nat) : List (List Nat) := permsOf (List.range n)

/-- lattice translation `l` acting on an entry `3 * atom + cart` -/
def tauE (c : Cell) (l e : Nat) : Nat := 3 * c.img l (e / 3) + e % 3

/-- an entry tuple of order `n`: `n` entries `3 * atom + cart < 3 * N` -/
def Valid (N n : Nat) (t : List Nat) : Prop := t.length = n ∧ ∀ e ∈ t, e < 3 * N

/-! ## (b) `act` commutes with entry-wise maps -/

theorem getD_map_of_lt (f : Nat → Nat) {t : List Nat} {i : Nat} (h : i < t.length) :
    (t.map f).getD i 0 = f (t.getD i 0) := by
  rw [List.getD_eq_getElem?_getD, List.getD_eq_getElem?_getD, List.getElem?_map,
    List.getElem?_eq_getElem h]
  rfl

theorem act_map (f : Nat → Nat) {σ t : List Nat} (h : ∀ i ∈ σ, i < t.length) :
    act σ (t.map f) = (act σ t).map f := by
  unfold act
  rw [List.map_map]
  apply List.map_congr_left
  intro i hi
  simp only [Function.comp]
  exact getD_map_of_lt f (h i hi)

theorem act_act {σ p : List Nat} (comb : List Nat) (h : ∀ i ∈ σ, i < p.length) :
    act (act σ p) comb = act σ (act p comb) := by
  have := act_map (fun pos => comb.getD pos 0) h
  exact this.symm

theorem act_length (σ t : List Nat) : (act σ t).length = σ.length := by
  simp [act]

theorem getD_mem_of_lt {t : List Nat} {i : Nat} (h : i < t.length) : t.getD i 0 ∈ t := by
  rw [← List.getElem_eq_getD (h := h)]; exact List.getElem_mem h

theorem valid_act {N n : Nat} {σ t : List Nat} (ht : Valid N n t) (hl : σ.length = n)
    (hlt : ∀ i ∈ σ, i < n) : Valid N n (act σ t) := by
  refine ⟨by rw [act_length, hl], ?_⟩
  intro e he
  simp only [act, List.mem_map] at he
  obtain ⟨i, hi, rfl⟩ := he
  exact ht.2 _ (getD_mem_of_lt (by rw [ht.1]; exact hlt i hi))

/-! ## (a) `elemIdx` and lattice translations -/

theorem valid_atoms {N n : Nat} {t : List Nat} (ht : Valid N n t) :
    (t.map (· / 3)).length = n ∧ ∀ x, x ∈ t.map (· / 3) → x < N := by
  refine ⟨by rw [List.length_map, ht.1], ?_⟩
  intro x hx
  obtain ⟨e, he, rfl⟩ := List.mem_map.mp hx
  have := ht.2 e he
  omega

theorem carts_lt (t : List Nat) : ∀ x, x ∈ t.map (· % 3) → x < 3 := by
  intro x hx
  obtain ⟨e, _, rfl⟩ := List.mem_map.mp hx
  omega

theorem map_tauE_atoms (c : Cell) (l : Nat) (t : List Nat) :
    (t.map (tauE c l)).map (· / 3) = (t.map (· / 3)).map (c.img l) := by
  rw [List.map_map, List.map_map]
  apply List.map_congr_left
  intro e _
  simp only [Function.comp, tauE]
  omega

theorem map_tauE_carts (c : Cell) (l : Nat) (t : List Nat) :
    (t.map (tauE c l)).map (· % 3) = t.map (· % 3) := by
  rw [List.map_map]
  apply List.map_congr_left
  intro e _
  simp only [Function.comp, tauE]
  omega

/-- (a, ⇐) a lattice translation of all entries does not change the class-space index -/
theorem elemIdx_translate (c : Cell) (hwf : c.wf = true) {n : Nat} (hn : 1 ≤ n) {t : List Nat}
    (ht : Valid c.N n t) {l : Nat} (hl : l < c.nlp) :
    elemIdx c.N (c.atomicDecompr n) (t.map (tauE c l)) = elemIdx c.N (c.atomicDecompr n) t := by
  unfold elemIdx
  rw [map_tauE_atoms, map_tauE_carts, List.length_map,
    Cell.atomicDecompr_translate c hwf n hn _ (valid_atoms ht).1 (valid_atoms ht).2 l hl]

theorem reassemble (f : Nat → Nat) : ∀ (t t' : List Nat),
    t'.map (· / 3) = (t.map (· / 3)).map f → t'.map (· % 3) = t.map (· % 3) →
    t' = t.map (fun e => 3 * f (e / 3) + e % 3) := by
  intro t
  induction t with
  | nil =>
    intro t' h _
    cases t' with
    | nil => rfl
    | cons a as => simp at h
  | cons e t ih =>
    intro t' h1 h2
    cases t' with
    | nil => simp at h1
    | cons a as =>
      simp only [List.map_cons, List.cons.injEq] at h1 h2 ⊢
      refine ⟨?_, ih as h1.2 h2.2⟩
      have := h1.1
      have := h2.1
      omega

/-- (a, ⇒) two entry tuples with the same class-space index are lattice translates -/
theorem elemIdx_separate (c : Cell) (hwf : c.wf = true) {n : Nat} (hn : 1 ≤ n) {t t' : List Nat}
    (ht : Valid c.N n t) (ht' : Valid c.N n t')
    (h : elemIdx c.N (c.atomicDecompr n) t = elemIdx c.N (c.atomicDecompr n) t') :
    ∃ l, l < c.nlp ∧ t' = t.map (tauE c l) := by
  unfold elemIdx at h
  rw [ht.1, ht'.1] at h
  have hc : flat 3 (t.map (· % 3)) < 3 ^ n := by
    have := flat_lt 3 (t.map (· % 3)) (carts_lt t)
    rwa [List.length_map, ht.1] at this
  have hc' : flat 3 (t'.map (· % 3)) < 3 ^ n := by
    have := flat_lt 3 (t'.map (· % 3)) (carts_lt t')
    rwa [List.length_map, ht'.1] at this
  obtain ⟨ha, hf⟩ := mul_add_inj hc hc' h
  have hcart := flat_inj 3 _ _ (by rw [List.length_map, List.length_map, ht.1, ht'.1])
    (carts_lt t) (carts_lt t') hf
  obtain ⟨l, hl, hat⟩ := (Cell.atomicDecompr_eq_iff c hwf n hn _ _ (valid_atoms ht).1
    (valid_atoms ht).2 (valid_atoms ht').1 (valid_atoms ht').2).mp ha
  exact ⟨l, hl, reassemble (c.img l) t t' hat hcart.symm⟩

/-- (a) `elemIdx` identifies exactly the lattice translates -/
theorem elemIdx_eq_iff (c : Cell) (hwf : c.wf = true) {n : Nat} (hn : 1 ≤ n) {t t' : List Nat}
    (ht : Valid c.N n t) (ht' : Valid c.N n t') :
    elemIdx c.N (c.atomicDecompr n) t = elemIdx c.N (c.atomicDecompr n) t' ↔
      ∃ l, l < c.nlp ∧ t' = t.map (tauE c l) := by
  constructor
  · exact elemIdx_separate c hwf hn ht ht'
  · rintro ⟨l, hl, rfl⟩
    exact (elemIdx_translate c hwf hn ht hl).symm

/-- (a)+(b): an index permutation of a translate has the index of the permuted tuple -/
theorem elemIdx_act_translate (c : Cell) (hwf : c.wf = true) {n : Nat} (hn : 1 ≤ n)
    {t σ : List Nat} (ht : Valid c.N n t) (hσl : σ.length = n) (hσ : ∀ i ∈ σ, i < n)
    {l : Nat} (hl : l < c.nlp) :
    elemIdx c.N (c.atomicDecompr n) (act σ (t.map (tauE c l))) =
      elemIdx c.N (c.atomicDecompr n) (act σ t) := by
  rw [act_map (tauE c l) (by rw [ht.1]; exact hσ)]
  exact elemIdx_translate c hwf hn (valid_act ht hσl hσ) hl

/-- bound of the class-space index -/
theorem elemIdx_lt (c : Cell) (hwf : c.wf = true) {n : Nat} (hn : 1 ≤ n) {t : List Nat}
    (ht : Valid c.N n t) :
    elemIdx c.N (c.atomicDecompr n) t < c.N ^ n * 3 ^ n / c.nlp := by
  unfold elemIdx
  rw [ht.1]
  have hc : flat 3 (t.map (· % 3)) < 3 ^ n := by
    have := flat_lt 3 (t.map (· % 3)) (carts_lt t)
    rwa [List.length_map, ht.1] at this
  have ha := Cell.atomicDecompr_lt c hwf n hn _ (valid_atoms ht).1 (valid_atoms ht).2
  rw [Cell.num_classes_eq c hwf n hn] at ha
  have hpos : 0 < c.nlp := (Cell.wf_group_facts c hwf).1
  generalize (c.atomicDecompr n).getD (flat c.N (t.map (· / 3))) 0 = v at ha
  generalize flat 3 (t.map (· % 3)) = w at hc
  -- v + 1 ≤ N^n / nlp, so (v + 1) * 3^n * nlp ≤ N^n * 3^n
  have h1 : (v + 1) * c.nlp ≤ c.N ^ n := (Nat.le_div_iff_mul_le hpos).mp ha
  have h2 : (v + 1) * 3 ^ n * c.nlp ≤ c.N ^ n * 3 ^ n := by
    calc (v + 1) * 3 ^ n * c.nlp = (v + 1) * c.nlp * 3 ^ n := by
          rw [Nat.mul_assoc, Nat.mul_comm (3 ^ n), ← Nat.mul_assoc]
      _ ≤ c.N ^ n * 3 ^ n := Nat.mul_le_mul_right _ h1
  have h3 : (v + 1) * 3 ^ n ≤ c.N ^ n * 3 ^ n / c.nlp := (Nat.le_div_iff_mul_le hpos).mpr h2
  rw [Nat.add_mul, Nat.one_mul] at h3
  omega

/-! ## (c) table checks -/

/-- any two arrangements of a group differ by an index permutation -/
def groupTransitive (n : Nat) (g : List (List Nat)) : Bool :=
  g.all (fun p => g.all (fun q => (Sn n).any (fun σ => q == act σ p)))

/-- everything the orbit-closure proof needs from one stage table -/
def stageOK (n : Nat) (st : Stage) : Bool :=
  decide (1 ≤ st.combOrder) && decide (st.combOrder ≤ 4) &&
  (stageGroups st).all (fun g =>
    g.all (fun p => p.length == n && p.all (· < st.combOrder)) &&
    groupIsFullOrbit n g && groupTransitive n g)

/-- index permutations of `n` positions are lists of `n` positions `< n` -/
def snOK (n : Nat) : Bool := (Sn n).all (fun σ => σ.length == n && σ.all (· < n))

theorem snOK_2 : snOK 2 = true := by decide
theorem snOK_3 : snOK 3 = true := by decide
theorem snOK_4 : snOK 4 = true := by decide +kernel

theorem stagesO2_ok : Gen.stagesO2.all (stageOK 2) = true := by decide +kernel
theorem stagesO3_ok : Gen.stagesO3.all (stageOK 3) = true := by decide +kernel
theorem stagesO4_ok : Gen.stagesO4.all (stageOK 4) = true := by decide +kernel

theorem snOK_spec {n : Nat} (h : snOK n = true) {σ : List Nat} (hσ : σ ∈ Sn n) :
    σ.length = n ∧ ∀ i ∈ σ, i < n := by
  simp only [snOK, List.all_eq_true, Bool.and_eq_true, beq_iff_eq, decide_eq_true_eq] at h
  exact h σ hσ

theorem stageOK_spec {n : Nat} {st : Stage} (h : stageOK n st = true) :
    1 ≤ st.combOrder ∧ st.combOrder ≤ 4 ∧
    ∀ g ∈ stageGroups st,
      (∀ p ∈ g, p.length = n ∧ ∀ i ∈ p, i < st.combOrder) ∧
      (∀ p ∈ g, ∀ σ ∈ Sn n, act σ p ∈ g) ∧
      (∀ p ∈ g, ∀ q ∈ g, ∃ σ ∈ Sn n, q = act σ p) := by
  simp only [stageOK, Bool.and_eq_true, decide_eq_true_eq, List.all_eq_true] at h
  obtain ⟨⟨h1, h2⟩, h3⟩ := h
  refine ⟨h1, h2, fun g hg => ?_⟩
  obtain ⟨⟨ha, hb⟩, hc⟩ := h3 g hg
  refine ⟨?_, ?_, ?_⟩
  · intro p hp
    have := ha p hp
    simp only [beq_iff_eq] at this
    exact this
  · intro p hp σ hσ
    simp only [groupIsFullOrbit, List.all_eq_true, List.contains_iff_mem] at hb
    exact hb σ hσ p hp
  · intro p hp q hq
    simp only [groupTransitive, List.all_eq_true, List.any_eq_true, beq_iff_eq] at hc
    exact hc p hp q hq

/-! ## (d) rows as images of orbits of entry tuples -/

theorem stageRowsOf_eq (N : Nat) (ad : Array Nat) (st : Stage) (comb : List Nat) :
    stageRowsOf N ad st comb =
      (stageGroups st).map (fun g => g.map (fun p => elemIdx N ad (act p comb))) := by
  simp only [stageRowsOf, stageGroups, List.map_map]
  apply List.map_congr_left
  intro g _
  simp only [Function.comp, List.map_take, List.map_drop]
  rfl

/-- every position `< combOrder` of a combination fed to a stage holds an entry `< 3N` -/
theorem stageCombs_getD_lt (c : Cell) {n : Nat} (hn : 1 ≤ n) (cut : Option CutoffIn)
    (hcut : ∀ x, cut = some x → x.N = c.N) {st : Stage} (h1 : 1 ≤ st.combOrder)
    (h4 : st.combOrder ≤ 4) {comb : List Nat}
    (hcomb : comb ∈ stageCombs Gen.cutoffOps c n cut st) {pos : Nat} (hpos : pos < st.combOrder) :
    comb.getD pos 0 < 3 * c.N := by
  unfold stageCombs at hcomb
  split at hcomb
  · next hle =>
    simp only [List.mem_map, List.mem_range] at hcomb
    obtain ⟨i, hi, rfl⟩ := hcomb
    have hp0 : pos = 0 := by omega
    subst hp0
    obtain ⟨m, rfl⟩ : ∃ m, n = m + 1 := ⟨n - 1, by omega⟩
    simpa [List.replicate_succ] using hi
  · next hgt =>
    have hk : st.combOrder = 2 ∨ st.combOrder = 3 ∨ st.combOrder = 4 := by omega
    have hmem := (mem_getCombinations_some.mp hcomb).1
    have key : comb.length = st.combOrder ∧ ∀ e ∈ comb, e < 3 * c.N := by
      cases cut with
      | none =>
        rw [getCombinations_none_none] at hmem
        obtain ⟨hl, _, hlt⟩ := mem_entireCombinations.mp hmem
        exact ⟨hl, hlt⟩
      | some x =>
        rw [getCombinations_some_none] at hmem
        obtain ⟨hl, _, hlt, _⟩ := (mem_combinations_raw hk).mp hmem
        rw [hcut x rfl] at hlt
        exact ⟨hl, hlt⟩
    exact key.2 _ (getD_mem_of_lt (by rw [key.1]; exact hpos))

/-- (d) every row of every stage is the `elemIdx`-image of a list `T` of entry tuples that is
    closed under all index permutations and on which the index permutations act transitively -/
theorem row_structure (c : Cell) {n : Nat} (hn : 1 ≤ n) (hsn : snOK n = true)
    {stages : List Stage} (hst : stages.all (stageOK n) = true) (cut : Option CutoffIn)
    (hcut : ∀ x, cut = some x → x.N = c.N) {r : List Nat}
    (hr : r ∈ allStageRows Gen.cutoffOps c n stages cut) :
    ∃ T : List (List Nat), r = T.map (elemIdx c.N (c.atomicDecompr n)) ∧
      (∀ t ∈ T, Valid c.N n t) ∧
      (∀ t ∈ T, ∀ σ ∈ Sn n, act σ t ∈ T) ∧
      (∀ t ∈ T, ∀ t' ∈ T, ∃ σ ∈ Sn n, t' = act σ t) := by
  simp only [allStageRows, stageRows, List.mem_flatMap] at hr
  obtain ⟨st, hstm, comb, hcomb, hr⟩ := hr
  rw [stageRowsOf_eq, List.mem_map] at hr
  obtain ⟨g, hg, rfl⟩ := hr
  obtain ⟨h1, h4, hgs⟩ := stageOK_spec (List.all_eq_true.mp hst st hstm)
  obtain ⟨hlen, hclosed, htrans⟩ := hgs g hg
  refine ⟨g.map (fun p => act p comb), by rw [List.map_map]; rfl, ?_, ?_, ?_⟩
  · intro t ht
    obtain ⟨p, hp, rfl⟩ := List.mem_map.mp ht
    refine ⟨by rw [act_length]; exact (hlen p hp).1, ?_⟩
    intro e he
    simp only [act, List.mem_map] at he
    obtain ⟨pos, hpos, rfl⟩ := he
    exact stageCombs_getD_lt c hn cut hcut h1 h4 hcomb ((hlen p hp).2 pos hpos)
  · intro t ht σ hσ
    obtain ⟨p, hp, rfl⟩ := List.mem_map.mp ht
    have hσ' := snOK_spec hsn hσ
    rw [← act_act comb (by rw [(hlen p hp).1]; exact hσ'.2)]
    exact List.mem_map.mpr ⟨_, hclosed p hp σ hσ, rfl⟩
  · intro t ht t' ht'
    obtain ⟨p, hp, rfl⟩ := List.mem_map.mp ht
    obtain ⟨q, hq, rfl⟩ := List.mem_map.mp ht'
    obtain ⟨σ, hσ, rfl⟩ := htrans p hp q hq
    have hσ' := snOK_spec hsn hσ
    exact ⟨σ, hσ, act_act comb (by rw [(hlen p hp).1]; exact hσ'.2)⟩

end OC
end Symfc
