/-
  Lemmas/Relabel2.lean — Step 2 of C10 (atom ordering): the relabelled supercell and cutoff input.
    * Prop reading `IsRel` of the Boolean `isRelabelling`,
    * `img`/`nlp`/`N` of `Cell.relabel`, distances of `CutoffIn.relabel`,
    * `Cell.relabel` preserves `Cell.wf`, `CutoffIn.relabel` preserves `Cov.CutOK`.
-/
import SymfcModel.Model.Relabel
import SymfcModel.Lemmas.Cell
import SymfcModel.Lemmas.Coverage
namespace Symfc
namespace Relabel
open Relabelling OC Cov

/-- Prop reading of `isRelabelling`: `π` and `πinv` are mutually inverse maps of `{0..N-1}` -/
structure IsRel (N : Nat) (π πinv : Array Nat) : Prop where
  lt : ∀ i, i < N → ap π i < N
  inv_lt : ∀ j, j < N → ap πinv j < N
  left : ∀ i, i < N → ap πinv (ap π i) = i
  right : ∀ j, j < N → ap π (ap πinv j) = j

theorem isRelabelling_spec {N : Nat} {π πinv : Array Nat} (h : isRelabelling N π πinv = true) :
    IsRel N π πinv := by
  simp only [isRelabelling, Bool.and_eq_true, List.all_eq_true, List.mem_range,
    decide_eq_true_eq, beq_iff_eq] at h
  obtain ⟨⟨_, h1⟩, h2⟩ := h
  exact ⟨fun i hi => (h1 i hi).1, fun j hj => (h2 j hj).1, fun i hi => (h1 i hi).2,
    fun j hj => (h2 j hj).2⟩

/-- the inverse relabelling is a relabelling -/
theorem IsRel.symm {N : Nat} {π πinv : Array Nat} (h : IsRel N π πinv) : IsRel N πinv π :=
  ⟨h.inv_lt, h.lt, h.right, h.left⟩

theorem IsRel.inj {N : Nat} {π πinv : Array Nat} (h : IsRel N π πinv) {i j : Nat} (hi : i < N)
    (hj : j < N) (e : ap π i = ap π j) : i = j := by
  rw [← h.left i hi, ← h.left j hj, e]

/-! ## the relabelled cell -/

@[simp] theorem N_relabel (π πinv : Array Nat) (c : Cell) : (c.relabel π πinv).N = c.N := rfl

@[simp] theorem nlp_relabel (π πinv : Array Nat) (c : Cell) : (c.relabel π πinv).nlp = c.nlp := by
  simp [Cell.nlp, Cell.relabel]

/-- `tp'[l][j] = π (tp[l][πinv j])` -/
theorem img_relabel (π πinv : Array Nat) (c : Cell) {l j : Nat} (hl : l < c.nlp) (hj : j < c.N) :
    (c.relabel π πinv).img l j = ap π (c.img l (ap πinv j)) := by
  have hl' : l < c.tp.size := hl
  have e : c.tp.getD l #[] = c.tp[l] := by simp [hl']
  simp only [Cell.img, Cell.relabel, e]
  simp [Array.getD, hl', hj]

/-- `tp'[l][π i] = π (tp[l][i])` — the defining equation of the relabelled translations -/
theorem img_relabel_ap {π πinv : Array Nat} {c : Cell} (hπ : IsRel c.N π πinv) {l i : Nat}
    (hl : l < c.nlp) (hi : i < c.N) :
    (c.relabel π πinv).img l (ap π i) = ap π (c.img l i) := by
  rw [img_relabel π πinv c hl (hπ.lt i hi), hπ.left i hi]

/-- a list `g 0, …, g (N-1)` with `g` bijective on `range N` is a permutation row -/
theorem isPermRow_map_range (N : Nat) (g : Nat → Nat)
    (hinj : ∀ i j, i < N → j < N → g i = g j → i = j)
    (hsurj : ∀ y, y < N → ∃ i, i < N ∧ g i = y) :
    Cell.isPermRow N ((List.range N).map g).toArray = true := by
  simp only [Cell.isPermRow, Bool.and_eq_true, beq_iff_eq, List.all_eq_true, List.mem_range]
  refine ⟨by simp, fun y hy => ?_⟩
  have hnd := Cell.nodup_map_range g N hinj
  rw [hnd.count, if_pos]
  obtain ⟨i, hi, rfl⟩ := hsurj y hy
  exact List.mem_map.mpr ⟨i, List.mem_range.mpr hi, rfl⟩

/-- converse of `Cell.wf_iff_aux`: the Boolean `wf` from its Prop-level content -/
theorem wf_of_props (c : Cell) (h0 : 0 < c.nlp)
    (hrow : ∀ l, (h : l < c.tp.size) → Cell.isPermRow c.N (c.tp[l]'h) = true)
    (hz : ∀ i, i < c.N → c.img 0 i = i)
    (hcl : ∀ l m, l < c.nlp → m < c.nlp →
      ∃ k, k < c.nlp ∧ ∀ i, i < c.N → c.img k i = c.img l (c.img m i))
    (hfree : ∀ l m, l < c.nlp → m < c.nlp → l ≠ m → ∀ i, i < c.N → c.img l i ≠ c.img m i) :
    c.wf = true := by
  simp only [Cell.wf, Bool.and_eq_true, decide_eq_true_eq, List.all_eq_true, List.mem_range,
    beq_iff_eq, List.any_eq_true, Bool.or_eq_true, bne_iff_ne, ne_eq, Array.all_eq_true]
  refine ⟨⟨⟨⟨h0, hrow⟩, hz⟩, fun l hl m hm => ?_⟩, fun l hl m hm => ?_⟩
  · obtain ⟨k, hk, hki⟩ := hcl l m hl hm
    exact ⟨k, hk, hki⟩
  · by_cases hlm : l = m
    · exact Or.inl hlm
    · exact Or.inr (fun i hi => hfree l m hl hm hlm i hi)

/-- **Step 2**: relabelling the atoms of a well-formed supercell gives a well-formed supercell -/
theorem wf_relabel {π πinv : Array Nat} {c : Cell} (hwf : c.wf = true) (hπ : IsRel c.N π πinv) :
    (c.relabel π πinv).wf = true := by
  have h := Cell.wf_WF c hwf
  have himg := fun {l j : Nat} (hl : l < c.nlp) (hj : j < c.N) => img_relabel π πinv c hl hj
  have hlt : ∀ {l j : Nat}, l < c.nlp → j < c.N → c.img l (ap πinv j) < c.N :=
    fun hl hj => h.img_lt _ _ hl (hπ.inv_lt _ hj)
  apply wf_of_props
  · rw [nlp_relabel]; exact h.nlp_pos
  · intro l hl
    have hl' : l < c.tp.size := by simpa [Cell.relabel] using hl
    have e : (c.relabel π πinv).tp[l] =
        ((List.range c.N).map (fun j => ap π (c.img l (ap πinv j)))).toArray := by
      simp only [Cell.relabel, Array.getElem_map]
      congr 1
      apply List.map_congr_left
      intro j _
      rw [Cell.img_eq_getD c l hl']
    rw [e]
    apply isPermRow_map_range
    · intro i j hi hj e
      have e1 := hπ.inj (hlt hl' hi) (hlt hl' hj) e
      have e2 := h.img_inj l _ _ hl' (hπ.inv_lt _ hi) (hπ.inv_lt _ hj) e1
      exact hπ.symm.inj hi hj e2
    · intro y hy
      obtain ⟨i, hi, ei⟩ := h.img_surj l (ap πinv y) hl' (hπ.inv_lt _ hy)
      exact ⟨ap π i, hπ.lt i hi, by rw [hπ.left i hi, ei, hπ.right y hy]⟩
  · intro j hj
    rw [N_relabel] at hj
    rw [himg h.nlp_pos hj, h.img_zero _ (hπ.inv_lt _ hj), hπ.right j hj]
  · intro l m hl hm
    rw [nlp_relabel] at hl hm
    obtain ⟨k, hk, hc⟩ := h.closure l m hl hm
    refine ⟨k, by rw [nlp_relabel]; exact hk, fun j hj => ?_⟩
    rw [N_relabel] at hj
    rw [himg hk hj, himg hm hj, himg hl (hπ.lt _ (hlt hm hj)), hπ.left _ (hlt hm hj),
      hc _ (hπ.inv_lt _ hj)]
  · intro l m hl hm hne j hj e
    rw [nlp_relabel] at hl hm
    rw [N_relabel] at hj
    rw [himg hl hj, himg hm hj] at e
    exact h.free l m hl hm hne _ (hπ.inv_lt _ hj) (hπ.inj (hlt hl hj) (hlt hm hj) e)

/-! ## the relabelled cutoff input -/

@[simp] theorem cutN_relabel (π πinv : Array Nat) (x : CutoffIn) : (x.relabel π πinv).N = x.N := rfl

@[simp] theorem cutoff_relabel (π πinv : Array Nat) (x : CutoffIn) :
    (x.relabel π πinv).cutoff = x.cutoff := rfl

/-- `D'[i][j] = D[πinv i][πinv j]` -/
theorem d_relabel (π πinv : Array Nat) (x : CutoffIn) {i j : Nat} (hi : i < x.N) (hj : j < x.N) :
    (x.relabel π πinv).d i j = x.d (ap πinv i) (ap πinv j) := by
  simp [CutoffIn.d, CutoffIn.relabel, Array.getD, hi, hj]

theorem near_relabel (π πinv : Array Nat) (x : CutoffIn) {i j : Nat} (hi : i < x.N) (hj : j < x.N) :
    near (x.relabel π πinv) i j ↔ near x (ap πinv i) (ap πinv j) := by
  unfold near
  rw [d_relabel π πinv x hi hj, cutoff_relabel]

/-- `D'[π i][π j] = D[i][j]`, as a statement about nearness -/
theorem near_relabel_ap {N : Nat} {π πinv : Array Nat} (hπ : IsRel N π πinv) (x : CutoffIn)
    (hN : x.N = N) {i j : Nat} (hi : i < N) (hj : j < N) :
    near (x.relabel π πinv) (ap π i) (ap π j) ↔ near x i j := by
  rw [near_relabel π πinv x (by rw [hN]; exact hπ.lt i hi) (by rw [hN]; exact hπ.lt j hj),
    hπ.left i hi, hπ.left j hj]

/-- **Step 2**: the relabelled cutoff input fits the relabelled cell -/
theorem cutOK_relabel {π πinv : Array Nat} {c : Cell} (hwf : c.wf = true) (hπ : IsRel c.N π πinv)
    {x : CutoffIn} (hx : CutOK c x) : CutOK (c.relabel π πinv) (x.relabel π πinv) := by
  have h := Cell.wf_WF c hwf
  have hxN := hx.hN
  refine ⟨hxN, ?_, ?_, ?_⟩
  · intro i j hi hj
    rw [N_relabel] at hi hj
    rw [near_relabel π πinv x (by omega) (by omega), near_relabel π πinv x (by omega) (by omega)]
    exact hx.symm _ _ (hπ.inv_lt _ hi) (hπ.inv_lt _ hj)
  · intro i hi
    rw [N_relabel] at hi
    rw [near_relabel π πinv x (by omega) (by omega)]
    exact hx.refl _ (hπ.inv_lt _ hi)
  · intro l hl i j hi hj
    rw [nlp_relabel] at hl
    rw [N_relabel] at hi hj
    have hi' := hπ.inv_lt _ hi
    have hj' := hπ.inv_lt _ hj
    rw [img_relabel π πinv c hl hi, img_relabel π πinv c hl hj,
      near_relabel_ap hπ x hxN (h.img_lt _ _ hl hi') (h.img_lt _ _ hl hj'),
      near_relabel π πinv x (by omega) (by omega)]
    exact hx.inv l hl _ _ hi' hj'

end Relabel
end Symfc
