/-
  Lemmas/Cell4.lean — Part 3 (C08.a): `atomicDecompr` assigns lattice-translation class indices.
-/
import SymfcModel.Lemmas.Cell2
import SymfcModel.Lemmas.Cell3
namespace Symfc
namespace Cell

/-- `t` is a length-`k` tuple of atoms of `c` -/
def IsTuple (c : Cell) (k : Nat) (t : List Nat) : Prop := t.length = k ∧ ∀ x, x ∈ t → x < c.N

/-! ### translating tuples -/

theorem WF.map_img_tuple {c : Cell} (h : WF c) {k l : Nat} {t : List Nat} (hl : l < c.nlp)
    (ht : IsTuple c k t) : IsTuple c k (t.map (c.img l)) := by
  refine ⟨by simp [ht.1], fun x hx => ?_⟩
  simp only [List.mem_map] at hx
  obtain ⟨y, hy, rfl⟩ := hx
  exact h.img_lt l y hl (ht.2 y hy)

theorem WF.map_img_zero {c : Cell} (h : WF c) {k : Nat} {t : List Nat} (ht : IsTuple c k t) :
    t.map (c.img 0) = t := by
  have : ∀ x, x ∈ t → c.img 0 x = id x := fun x hx => h.img_zero x (ht.2 x hx)
  rw [List.map_congr_left this, List.map_id]

theorem map_img_comp {c : Cell} {k l m p : Nat} {t : List Nat} (ht : IsTuple c k t)
    (hc : ∀ i, i < c.N → c.img p i = c.img l (c.img m i)) :
    (t.map (c.img m)).map (c.img l) = t.map (c.img p) := by
  rw [List.map_map]
  exact List.map_congr_left fun x hx => (hc x (ht.2 x hx)).symm

theorem WF.map_img_inj {c : Cell} (h : WF c) {k l : Nat} (hl : l < c.nlp) :
    ∀ {s t : List Nat}, IsTuple c k s → IsTuple c k t → s.map (c.img l) = t.map (c.img l) → s = t := by
  intro s
  induction s generalizing k with
  | nil => intro t _ _ e; cases t <;> simp_all
  | cons a s ih =>
    intro t hs ht e
    cases t with
    | nil => simp at e
    | cons b t =>
      simp only [List.map_cons, List.cons.injEq] at e
      have hab := h.img_inj l a b hl (hs.2 a (by simp)) (ht.2 b (by simp)) e.1
      have := ih (k := s.length) (t := t) ⟨rfl, fun x hx => hs.2 x (by simp [hx])⟩
        ⟨by have := congrArg List.length e.2; simpa using this.symm,
         fun x hx => ht.2 x (by simp [hx])⟩ e.2
      rw [hab, this]

/-! ### the loop keys and their positions -/

theorem decomprKeys_get {c : Cell} (n m : Nat) (rest : List Nat) (hm : m < c.indepAtoms.length)
    (hr : IsTuple c (n - 1) rest) :
    (c.decomprKeys n)[m * c.N ^ (n - 1) + flat c.N rest]? = some (c.indepAtoms[m] :: rest) := by
  have hlt := flat_lt c.N rest hr.2
  rw [hr.1] at hlt
  rw [decomprKeys, getElem?_flatMap_uniform _ (c.N ^ (n - 1)) _
    (fun x _ => by simp [length_tuples]) m _ hm hlt]
  simp only [List.getElem?_map, tuples_get c.N (n - 1) rest hr.1 hr.2, Option.map_some]

theorem length_decomprKeys (c : Cell) (n : Nat) :
    (c.decomprKeys n).length = c.indepAtoms.length * c.N ^ (n - 1) := by
  rw [decomprKeys, length_flatMap_uniform _ (c.N ^ (n - 1)) _ (fun x _ => by simp [length_tuples])]

theorem decomprKeys_get_inv {c : Cell} (n x : Nat) (key : List Nat)
    (hx : (c.decomprKeys n)[x]? = some key) :
    ∃ (m : Nat) (hm : m < c.indepAtoms.length) (rest : List Nat), IsTuple c (n - 1) rest ∧
      key = c.indepAtoms[m] :: rest ∧ x = m * c.N ^ (n - 1) + flat c.N rest := by
  have hlt : x < c.indepAtoms.length * c.N ^ (n - 1) := by
    have := (List.getElem?_eq_some_iff.mp hx).1
    rwa [length_decomprKeys] at this
  have hP : 0 < c.N ^ (n - 1) := by
    rcases Nat.eq_zero_or_pos (c.N ^ (n - 1)) with h | h
    · rw [h] at hlt; omega
    · exact h
  have hm : x / c.N ^ (n - 1) < c.indepAtoms.length :=
    Nat.div_lt_of_lt_mul (by rw [Nat.mul_comm]; exact hlt)
  have hr' : x % c.N ^ (n - 1) < c.N ^ (n - 1) := Nat.mod_lt _ hP
  have hsplit : x = (x / c.N ^ (n - 1)) * c.N ^ (n - 1) + x % c.N ^ (n - 1) := by
    rw [Nat.mul_comm]; exact (Nat.div_add_mod x _).symm
  rw [hsplit, decomprKeys, getElem?_flatMap_uniform _ (c.N ^ (n - 1)) _
    (fun x _ => by simp [length_tuples]) _ _ hm hr'] at hx
  simp only [List.getElem?_map, Option.map_eq_some_iff] at hx
  obtain ⟨rest, hrest, e⟩ := hx
  obtain ⟨h1, h2, h3⟩ := tuples_get_inv _ _ _ _ hrest
  exact ⟨_, hm, rest, ⟨h1, h2⟩, e.symm, by rw [h3]; exact hsplit⟩

/-! ### `atomicDecompr` as a single fold over a write list -/

/-- all `(target index, value)` writes of the Python loops, in order -/
def writes (c : Cell) (n : Nat) : List (Nat × Nat) :=
  (c.decomprKeys n).zipIdx.flatMap (fun kc =>
    (List.range c.nlp).map (fun l => (flat c.N (kc.1.map (c.img l)), kc.2)))

theorem atomicDecompr_eq_writes (c : Cell) (n : Nat) :
    c.atomicDecompr n =
      (writes c n).foldl (fun out p => out.setIfInBounds p.1 p.2) (Array.replicate (c.N ^ n) 0) := by
  rw [atomicDecompr, writes, List.foldl_flatMap]
  congr 1
  funext out kc
  obtain ⟨key, cnt⟩ := kc
  simp only [List.foldl_map]

theorem size_atomicDecompr (c : Cell) (n : Nat) : (c.atomicDecompr n).size = c.N ^ n := by
  rw [atomicDecompr_eq_writes, size_foldl_set, Array.size_replicate]

theorem mem_writes (c : Cell) (n : Nat) (p : Nat × Nat) :
    p ∈ writes c n ↔ ∃ key l, (c.decomprKeys n)[p.2]? = some key ∧ l < c.nlp ∧
      p.1 = flat c.N (key.map (c.img l)) := by
  simp only [writes, List.mem_flatMap, List.mem_map, List.mem_range, Prod.exists,
    List.mem_zipIdx_iff_getElem?]
  constructor
  · rintro ⟨key, cnt, hk, l, hl, rfl⟩
    exact ⟨key, l, hk, hl, rfl⟩
  · rintro ⟨key, l, hk, hl, e⟩
    exact ⟨key, p.2, hk, l, hl, by rw [← e]⟩

/-- the translated keys are pairwise distinct: a tuple determines `(m, rest, l)` -/
theorem WF.key_unique {c : Cell} (h : WF c) {k m m' l l' : Nat} {rest rest' : List Nat}
    (hm : m < c.indepAtoms.length) (hm' : m' < c.indepAtoms.length)
    (hl : l < c.nlp) (hl' : l' < c.nlp) (hr : IsTuple c k rest) (hr' : IsTuple c k rest')
    (e : (c.indepAtoms[m] :: rest).map (c.img l) = (c.indepAtoms[m'] :: rest').map (c.img l')) :
    m = m' ∧ l = l' ∧ rest = rest' := by
  simp only [List.map_cons, List.cons.injEq] at e
  obtain ⟨e1, e2⟩ := e
  have ha := List.getElem_mem hm
  have ha' := List.getElem_mem hm'
  have haN := ((h.mem_indep _).mp ha).1
  have haN' := ((h.mem_indep _).mp ha').1
  have hso : sameOrbit c c.indepAtoms[m] c.indepAtoms[m'] :=
    h.sameOrbit_trans haN ⟨l, hl, e1⟩ (h.sameOrbit_symm haN' ⟨l', hl', rfl⟩)
  have haa := h.indep_unique ha ha' hso
  have hmm : m = m' := (List.getElem_inj h.indep_nodup).mp haa
  subst hmm
  have hll : l = l' := h.free' hl hl' haN e1
  subst hll
  exact ⟨rfl, rfl, h.map_img_inj hl hr hr' e2⟩

/-- **main lemma**: value of `atomicDecompr` at a translated key -/
theorem WF.atomicDecompr_key {c : Cell} (h : WF c) {n : Nat} (hn : 1 ≤ n) {m l : Nat}
    {rest : List Nat} (hm : m < c.indepAtoms.length) (hl : l < c.nlp)
    (hr : IsTuple c (n - 1) rest) :
    (c.atomicDecompr n).getD (flat c.N ((c.indepAtoms[m] :: rest).map (c.img l))) 0
      = m * c.N ^ (n - 1) + flat c.N rest := by
  have haN := ((h.mem_indep _).mp (List.getElem_mem hm)).1
  have hkey : IsTuple c n (c.indepAtoms[m] :: rest) := by
    refine ⟨by simp [hr.1]; omega, fun x hx => ?_⟩
    simp only [List.mem_cons] at hx
    rcases hx with rfl | hx
    · exact haN
    · exact hr.2 x hx
  have hkl := h.map_img_tuple hl hkey
  rw [atomicDecompr_eq_writes]
  apply foldl_set_consistent
  · rw [Array.size_replicate]
    have := flat_lt c.N _ hkl.2
    rwa [hkl.1] at this
  · -- consistency
    intro p hp e
    rw [mem_writes] at hp
    obtain ⟨key', l', hk', hl', e'⟩ := hp
    obtain ⟨m', hm', rest', hr', rfl, hcnt⟩ := decomprKeys_get_inv _ _ _ hk'
    have hkey' : IsTuple c n (c.indepAtoms[m'] :: rest') := by
      have haN' := ((h.mem_indep _).mp (List.getElem_mem hm')).1
      refine ⟨by simp [hr'.1]; omega, fun x hx => ?_⟩
      simp only [List.mem_cons] at hx
      rcases hx with rfl | hx
      · exact haN'
      · exact hr'.2 x hx
    have hkl' := h.map_img_tuple hl' hkey'
    rw [e'] at e
    have := flat_inj c.N _ _ (by rw [hkl'.1, hkl.1]) hkl'.2 hkl.2 e
    obtain ⟨h1, _, h3⟩ := h.key_unique hm' hm hl' hl hr' hr this
    rw [hcnt, h1, h3]
  · left
    rw [mem_writes]
    exact ⟨_, l, decomprKeys_get n m rest hm hr, hl, rfl⟩

/-- every atom tuple is a translate of exactly one key -/
theorem WF.exists_key {c : Cell} (h : WF c) {n : Nat} (hn : 1 ≤ n) {t : List Nat}
    (ht : IsTuple c n t) :
    ∃ (m : Nat) (hm : m < c.indepAtoms.length) (rest : List Nat) (l : Nat),
      IsTuple c (n - 1) rest ∧ l < c.nlp ∧ t = (c.indepAtoms[m] :: rest).map (c.img l) := by
  cases t with
  | nil => have := ht.1; simp at this; omega
  | cons i tl =>
    have hi : i < c.N := ht.2 i (by simp)
    obtain ⟨a, ha, l, hl, e⟩ := h.exists_indep hi
    obtain ⟨m, hm, rfl⟩ := List.mem_iff_getElem.mp ha
    obtain ⟨k, hk, hinv⟩ := h.inverse l hl
    have htl : IsTuple c (n - 1) tl :=
      ⟨by have := ht.1; simp at this; omega, fun x hx => ht.2 x (by simp [hx])⟩
    refine ⟨m, hm, tl.map (c.img k), l, h.map_img_tuple hk htl, hl, ?_⟩
    simp only [List.map_cons, List.map_map, e, List.cons.injEq, true_and]
    have : ∀ x, x ∈ tl → (c.img l ∘ c.img k) x = id x := fun x hx => (hinv x (htl.2 x hx)).2
    rw [List.map_congr_left this, List.map_id]

end Cell
end Symfc
