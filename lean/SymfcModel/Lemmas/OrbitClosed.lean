/-
  Lemmas/OrbitClosed.lean — the rows written by `compr_permutation_lat_trans_O{2,3,4}` are
  orbits of (index permutations) × (lattice translations):

    G1 `allStageRows_lt`            all row elements are in bounds,
    G2 `allStageRows_orbitClosed`   two rows sharing an element have the same elements,
    G3 `allStageRows_perm_closed`   rows are closed under all index permutations,
    G4 `o4_components_perm_closed`  order 4: the connected components of the pointer graph are
                                    closed under all index permutations, for every batch split.

  Generic versions (`*_of_ok`) hold for any stage list passing the Boolean table check `stageOK`.
-/
import SymfcModel.Lemmas.OrbitClosed1
namespace Symfc
namespace OC

/-! ## generic in the stage list -/

section generic
variable (c : Cell) (hwf : c.wf = true) {n : Nat} (hn : 1 ≤ n) (hsn : snOK n = true)
  {stages : List Stage} (hst : stages.all (stageOK n) = true) (cut : Option CutoffIn)
  (hcut : ∀ x, cut = some x → x.N = c.N)
include hwf hn hsn hst hcut

/-- G1, generic -/
theorem allStageRows_lt_of_ok :
    ∀ r ∈ allStageRows Gen.cutoffOps c n stages cut, ∀ e ∈ r, e < c.N ^ n * 3 ^ n / c.nlp := by
  intro r hr e he
  obtain ⟨T, rfl, hval, _, _⟩ := row_structure c hn hsn hst cut hcut hr
  obtain ⟨t, ht, rfl⟩ := List.mem_map.mp he
  exact elemIdx_lt c hwf hn (hval t ht)

/-- G3, generic -/
theorem allStageRows_perm_closed_of_ok {r : List Nat}
    (hr : r ∈ allStageRows Gen.cutoffOps c n stages cut) {t : List Nat} (ht : Valid c.N n t)
    (hmem : elemIdx c.N (c.atomicDecompr n) t ∈ r) {σ : List Nat} (hσ : σ ∈ Sn n) :
    elemIdx c.N (c.atomicDecompr n) (act σ t) ∈ r := by
  obtain ⟨T, rfl, hval, hclosed, _⟩ := row_structure c hn hsn hst cut hcut hr
  obtain ⟨t', ht', he⟩ := List.mem_map.mp hmem
  obtain ⟨l, hl, rfl⟩ := elemIdx_separate c hwf hn (hval t' ht') ht he
  obtain ⟨hσl, hσlt⟩ := snOK_spec hsn hσ
  rw [elemIdx_act_translate c hwf hn (hval t' ht') hσl hσlt hl]
  exact List.mem_map.mpr ⟨_, hclosed t' ht' σ hσ, rfl⟩

/-- one inclusion of G2 -/
theorem row_subset_of_common {r1 r2 : List Nat}
    (h1 : r1 ∈ allStageRows Gen.cutoffOps c n stages cut)
    (h2 : r2 ∈ allStageRows Gen.cutoffOps c n stages cut) {e : Nat} (he1 : e ∈ r1)
    (he2 : e ∈ r2) : ∀ x, x ∈ r2 → x ∈ r1 := by
  intro x hx
  obtain ⟨T2, rfl, hval2, _, htrans2⟩ := row_structure c hn hsn hst cut hcut h2
  obtain ⟨t2, ht2, rfl⟩ := List.mem_map.mp he2
  obtain ⟨t2', ht2', rfl⟩ := List.mem_map.mp hx
  obtain ⟨σ, hσ, rfl⟩ := htrans2 t2 ht2 t2' ht2'
  exact allStageRows_perm_closed_of_ok c hwf hn hsn hst cut hcut h1 (hval2 t2 ht2) he1 hσ

/-- G2, generic -/
theorem allStageRows_orbitClosed_of_ok :
    OrbitClosed (allStageRows Gen.cutoffOps c n stages cut) := by
  rintro r1 h1 r2 h2 ⟨e, he1, he2⟩ x
  exact ⟨row_subset_of_common c hwf hn hsn hst cut hcut h2 h1 he2 he1 x,
    row_subset_of_common c hwf hn hsn hst cut hcut h1 h2 he1 he2 x⟩

end generic

/-! ## the generated tables -/

theorem stagesFor_ok {n : Nat} (hn : n = 2 ∨ n = 3 ∨ n = 4) :
    1 ≤ n ∧ snOK n = true ∧ (stagesFor n).all (stageOK n) = true := by
  rcases hn with rfl | rfl | rfl
  · exact ⟨by omega, snOK_2, stagesO2_ok⟩
  · exact ⟨by omega, snOK_3, stagesO3_ok⟩
  · exact ⟨by omega, snOK_4, stagesO4_ok⟩

/-- **G1** (bounds): every element of every row of every stage is a valid class-space index. -/
theorem allStageRows_lt (c : Cell) (hwf : c.wf = true) {n : Nat} (hn : n = 2 ∨ n = 3 ∨ n = 4)
    (cut : Option CutoffIn) (hcut : ∀ x, cut = some x → x.N = c.N) :
    ∀ r ∈ allStageRows Gen.cutoffOps c n (stagesFor n) cut, ∀ e ∈ r,
      e < c.N ^ n * 3 ^ n / c.nlp :=
  let ⟨h1, h2, h3⟩ := stagesFor_ok hn
  allStageRows_lt_of_ok c hwf h1 h2 h3 cut hcut

/-- **G2** (orbit closure): two rows (of any stages, groups, combinations) that share an element
    have exactly the same elements. -/
theorem allStageRows_orbitClosed (c : Cell) (hwf : c.wf = true) {n : Nat}
    (hn : n = 2 ∨ n = 3 ∨ n = 4) (cut : Option CutoffIn)
    (hcut : ∀ x, cut = some x → x.N = c.N) :
    OrbitClosed (allStageRows Gen.cutoffOps c n (stagesFor n) cut) :=
  let ⟨h1, h2, h3⟩ := stagesFor_ok hn
  allStageRows_orbitClosed_of_ok c hwf h1 h2 h3 cut hcut

/-- **G3** (rows are closed under index permutations): if the class-space index of an entry tuple
    `t` (length `n`, entries `< 3N`) lies in a row, so does the index of every index permutation
    `σ·t = σ.map (fun i => t.getD i 0)` of it. -/
theorem allStageRows_perm_closed (c : Cell) (hwf : c.wf = true) {n : Nat}
    (hn : n = 2 ∨ n = 3 ∨ n = 4) (cut : Option CutoffIn)
    (hcut : ∀ x, cut = some x → x.N = c.N)
    (r : List Nat) (hr : r ∈ allStageRows Gen.cutoffOps c n (stagesFor n) cut)
    (t : List Nat) (hlen : t.length = n) (hlt : ∀ e ∈ t, e < 3 * c.N)
    (hmem : elemIdx c.N (c.atomicDecompr n) t ∈ r)
    (σ : List Nat) (hσ : σ ∈ permsOf (List.range n)) :
    elemIdx c.N (c.atomicDecompr n) (σ.map (fun i => t.getD i 0)) ∈ r :=
  let ⟨h1, h2, h3⟩ := stagesFor_ok hn
  allStageRows_perm_closed_of_ok c hwf h1 h2 h3 cut hcut hr ⟨hlen, hlt⟩ hmem hσ

/-- **G4** (order 4, row-minimum representatives): for every batch split, every connected
    component of the pointer graph is closed under all index permutations: an entry tuple of a
    row and each of its index permutations end up in the same component. -/
theorem o4_components_perm_closed (c : Cell) (hwf : c.wf = true) (cut : Option CutoffIn)
    (hcut : ∀ x, cut = some x → x.N = c.N) (nBatch : String → Nat) (ptr' : Array Int)
    (h : permDecompr Gen.cutoffOps c 4 Gen.repKindO4 Gen.stagesO4 cut nBatch = some ptr')
    (r : List Nat) (hr : r ∈ allStageRows Gen.cutoffOps c 4 Gen.stagesO4 cut)
    (t : List Nat) (hlen : t.length = 4) (hlt : ∀ e ∈ t, e < 3 * c.N)
    (hmem : elemIdx c.N (c.atomicDecompr 4) t ∈ r)
    (σ : List Nat) (hσ : σ ∈ permsOf (List.range 4)) :
    SameComp ptr' (elemIdx c.N (c.atomicDecompr 4) t)
      (elemIdx c.N (c.atomicDecompr 4) (σ.map (fun i => t.getD i 0))) := by
  have hk : Gen.repKindO4 = RepKind.rowMin := by decide
  rw [hk] at h
  have hn : (4 : Nat) = 2 ∨ (4 : Nat) = 3 ∨ (4 : Nat) = 4 := Or.inr (Or.inr rfl)
  have hs : stagesFor 4 = Gen.stagesO4 := rfl
  have hoc := allStageRows_orbitClosed c hwf hn cut hcut
  have hb := allStageRows_lt c hwf hn cut hcut
  rw [hs] at hoc hb
  refine (permDecompr_rowMin_sameComp_iff h hoc hb _ _).mpr ⟨r, hr, hmem, ?_⟩
  exact allStageRows_perm_closed c hwf hn cut hcut r (by rw [hs]; exact hr) t hlen hlt hmem σ hσ

/-- G4, second form: the components of the order-4 pointer graph are exactly the rows, with no
    remaining hypothesis on the rows (cf. `C01.o4_components_are_exactly_the_rows`). -/
theorem o4_components_are_rows (c : Cell) (hwf : c.wf = true) (cut : Option CutoffIn)
    (hcut : ∀ x, cut = some x → x.N = c.N) (nBatch : String → Nat) (ptr' : Array Int)
    (h : permDecompr Gen.cutoffOps c 4 Gen.repKindO4 Gen.stagesO4 cut nBatch = some ptr')
    (a b : Nat) :
    SameComp ptr' a b ↔ ∃ r ∈ allStageRows Gen.cutoffOps c 4 Gen.stagesO4 cut, a ∈ r ∧ b ∈ r := by
  have hk : Gen.repKindO4 = RepKind.rowMin := by decide
  rw [hk] at h
  have hn : (4 : Nat) = 2 ∨ (4 : Nat) = 3 ∨ (4 : Nat) = 4 := Or.inr (Or.inr rfl)
  have hs : stagesFor 4 = Gen.stagesO4 := rfl
  have hoc := allStageRows_orbitClosed c hwf hn cut hcut
  have hb := allStageRows_lt c hwf hn cut hcut
  rw [hs] at hoc hb
  exact permDecompr_rowMin_sameComp_iff h hoc hb a b

/-! ## non-vacuity -/

/-- a cutoff input on the 8 atoms of `exampleCell` (deliberately non-symmetric distances) -/
def exampleCut : CutoffIn :=
  { N := 8, cutoff := 3,
    dist := #[#[0,1,2,3,4,5,6,7], #[1,0,1,2,3,4,5,6], #[2,1,0,1,2,3,4,5], #[9,2,1,0,1,2,3,4],
              #[4,3,2,1,0,1,2,3], #[5,4,3,2,1,0,1,2], #[6,5,4,3,2,1,0,1], #[7,6,5,4,3,2,1,0]] }

/-- the hypotheses of G1–G4 hold for `exampleCell` (N = 8, nlp = 4), without and with a cutoff -/
example : Cell.exampleCell.wf = true ∧ Cell.exampleCell.N = 8 ∧ Cell.exampleCell.nlp = 4 ∧
    (∀ x, (none : Option CutoffIn) = some x → x.N = Cell.exampleCell.N) ∧
    (∀ x, some exampleCut = some x → x.N = Cell.exampleCell.N) :=
  ⟨Cell.exampleCell_wf, rfl, rfl, fun _ h => (nomatch h), fun _ h => by cases h; rfl⟩

example : OrbitClosed (allStageRows Gen.cutoffOps Cell.exampleCell 4 (stagesFor 4) none) :=
  allStageRows_orbitClosed _ Cell.exampleCell_wf (Or.inr (Or.inr rfl)) none (fun _ h => nomatch h)

example : OrbitClosed
    (allStageRows Gen.cutoffOps Cell.exampleCell 3 (stagesFor 3) (some exampleCut)) :=
  allStageRows_orbitClosed _ Cell.exampleCell_wf (Or.inr (Or.inl rfl)) (some exampleCut)
    (fun _ h => by cases h; rfl)

/-- the rows are really there (the statements are not vacuous): with the cutoff the order-2 stage
    list of `exampleCell` writes 66 rows, the order-4 one 714; `[9, 9]` is a row whose two index
    permutations are lattice translates of one another -/
example : (allStageRows Gen.cutoffOps Cell.exampleCell 2 (stagesFor 2) (some exampleCut)).length = 66 ∧
    [9, 9] ∈ allStageRows Gen.cutoffOps Cell.exampleCell 2 (stagesFor 2) (some exampleCut) := by
  decide +kernel

example :
    (allStageRows Gen.cutoffOps Cell.exampleCell 4 (stagesFor 4) (some exampleCut)).length = 714 := by
  decide +kernel

end OC
end Symfc
