/-
  Lemmas/DesignGram.lean — (D2) the Gram accumulation of `normalEqOp` over atom batches × snapshot
  batches equals the Gram matrix of the spec design matrix; (D3) batch independence.
-/
import SymfcModel.Lemmas.DesignEntry
import SymfcModel.Lemmas.DesignMat
namespace Symfc

/-! ### extensionality helpers -/

theorem getD_of_lt {α} {a : Array α} {x : Nat} {d : α} (h : x < a.size) : a.getD x d = a[x] := by
  simp [Array.getD_eq_getD_getElem?, h]

theorem array_ext_getD {a b : Array Int} {n : Nat} (ha : a.size = n) (hb : b.size = n)
    (h : ∀ j, j < n → a.getD j 0 = b.getD j 0) : a = b := by
  apply Array.ext (by rw [ha, hb])
  intro j h1 h2
  have := h j (by omega)
  simpa [Array.getD_eq_getD_getElem?, h1, h2] using this

theorem imat_ext {a b : IMat} {n m : Nat} (ha : a.size = n) (hb : b.size = n)
    (har : ∀ i, i < n → (a.getD i #[]).size = m) (hbr : ∀ i, i < n → (b.getD i #[]).size = m)
    (h : ∀ i j, i < n → j < m → a.get i j = b.get i j) : a = b := by
  apply Array.ext (by rw [ha, hb])
  intro i h1 h2
  have e1 : a.getD i #[] = a[i] := by simp [Array.getD_eq_getD_getElem?, h1]
  have e2 : b.getD i #[] = b[i] := by simp [Array.getD_eq_getD_getElem?, h2]
  rw [← e1, ← e2]
  exact array_ext_getD (har i (by omega)) (hbr i (by omega)) (fun j hj => h i j (by omega) hj)

/-! ### the spec design matrix -/

def ncolOf (ods : List OrderData) : Nat := ods.foldl (fun s od => s + od.nx) 0

/-- row `(u, i, a)` of the joint spec design matrix `[X_k1 | X_k2 | …]` -/
def specRow (c : Cell) (ods : List OrderData) (u : Array Int) (i a : Nat) : Array Int :=
  ods.foldl (fun (acc : Array Int) od =>
    acc ++ Array.ofFn (n := od.nx) (fun x => designEntrySpec c od u i a x.val)) #[]

theorem specRow_size (c : Cell) (ods : List OrderData) (u : Array Int) (i a : Nat) :
    (specRow c ods u i a).size = ncolOf ods := by
  have gen : ∀ (init : Array Int), (ods.foldl (fun (acc : Array Int) od =>
      acc ++ Array.ofFn (n := od.nx) (fun x => designEntrySpec c od u i a x.val)) init).size
        = ods.foldl (fun s od => s + od.nx) init.size := by
    induction ods with
    | nil => intro init; rfl
    | cons od ods ih => intro init; simp only [List.foldl_cons]; rw [ih]; simp
  exact gen #[]

def specRows (c : Cell) (ods : List OrderData) (us fs : List (Array Int)) :
    List (Array Int × Int) :=
  (us.zip fs).flatMap (fun (u, f) =>
    (List.range c.N).flatMap (fun i => (List.range 3).map (fun a =>
      (specRow c ods u i a, f.getD (3 * i + a) 0))))

def specX (c : Cell) (ods : List OrderData) (us fs : List (Array Int)) : IMat :=
  ((specRows c ods us fs).map (·.1)).toArray
def specY (c : Cell) (ods : List OrderData) (us fs : List (Array Int)) : IMat :=
  ((specRows c ods us fs).map (fun r => #[r.2])).toArray

theorem normalEqSpec_eq (c : Cell) (ods : List OrderData) (us fs : List (Array Int)) :
    normalEqSpec c ods us fs =
      (tmul (specX c ods us fs) (specX c ods us fs),
       Array.ofFn (n := ncolOf ods) (fun j => (tmul (specX c ods us fs) (specY c ods us fs)).get j 0)) :=
  rfl

theorem specRows_length (c : Cell) (ods : List OrderData) (us fs : List (Array Int))
    (hfs : fs.length = us.length) : (specRows c ods us fs).length = us.length * (c.N * 3) := by
  unfold specRows
  rw [length_flatMap_uniform _ (c.N * 3)]
  · simp [hfs]
  · rintro ⟨u, f⟩ _
    simp only
    rw [length_flatMap_uniform _ 3 _ (by intro i _; simp)]; simp

theorem specRows_get (c : Cell) (ods : List OrderData) (us fs : List (Array Int))
    (hfs : fs.length = us.length) (s i a : Nat) (hs : s < us.length) (hi : i < c.N) (ha : a < 3) :
    (specRows c ods us fs)[s * (c.N * 3) + (i * 3 + a)]?
      = some (specRow c ods (us.getD s #[]) i a, (fs.getD s #[]).getD (3 * i + a) 0) := by
  unfold specRows
  have hz : s < (us.zip fs).length := by simp [hfs]; omega
  rw [getElem?_flatMap_uniform _ (c.N * 3) _ _ s (i * 3 + a) hz (by omega)]
  · rw [List.getElem_zip]
    simp only
    rw [getElem?_flatMap_uniform _ 3 _ (by intro i _; simp) i a (by simpa using hi) ha]
    have hs' : s < fs.length := by omega
    simp [ha, hs, hs']
  · rintro ⟨u, f⟩ _
    simp only
    rw [length_flatMap_uniform _ 3 _ (by intro i _; simp)]; simp

theorem specX_size (c : Cell) (ods : List OrderData) (us fs : List (Array Int))
    (hfs : fs.length = us.length) : (specX c ods us fs).size = us.length * (c.N * 3) := by
  simp [specX, specRows_length c ods us fs hfs]

theorem specX_row (c : Cell) (ods : List OrderData) (us fs : List (Array Int))
    (hfs : fs.length = us.length) (s i a : Nat) (hs : s < us.length) (hi : i < c.N) (ha : a < 3) :
    (specX c ods us fs).getD (s * (c.N * 3) + (i * 3 + a)) #[]
      = specRow c ods (us.getD s #[]) i a := by
  unfold specX
  rw [Array.getD_eq_getD_getElem?, List.getElem?_toArray, List.getElem?_map,
    specRows_get c ods us fs hfs s i a hs hi ha]
  rfl

theorem specY_row (c : Cell) (ods : List OrderData) (us fs : List (Array Int))
    (hfs : fs.length = us.length) (s i a : Nat) (hs : s < us.length) (hi : i < c.N) (ha : a < 3) :
    (specY c ods us fs).getD (s * (c.N * 3) + (i * 3 + a)) #[]
      = #[(fs.getD s #[]).getD (3 * i + a) 0] := by
  unfold specY
  rw [Array.getD_eq_getD_getElem?, List.getElem?_toArray, List.getElem?_map,
    specRows_get c ods us fs hfs s i a hs hi ha]
  rfl

/-! ### one batch of the operational loop -/

def batchX (c : Cell) (ods : List OrderData) (us : List (Array Int)) (bi ei b e : Nat) : IMat :=
  hcat (ods.map (fun od => designBlockOp c od ((us.drop b).take (e - b)) bi ei))

def batchY (fs : List (Array Int)) (bi ei b e : Nat) : IMat :=
  (((fs.drop b).take (e - b)).flatMap (fun f =>
    (List.range ((ei - bi) * 3)).map (fun m => #[f.getD (bi * 3 + m) 0]))).toArray

def batchG (c : Cell) (ods : List OrderData) (us fs : List (Array Int)) (bi ei b e : Nat) :
    IMat × IMat :=
  (tmul (batchX c ods us bi ei b e) (batchX c ods us bi ei b e),
   tmul (batchX c ods us bi ei b e) (batchY fs bi ei b e))

theorem normalEqOp_some (c : Cell) (ods : List OrderData) (us fs : List (Array Int))
    (atomBatch snapBatch : Nat) (ab sb : List (Nat × Nat))
    (hab : batchSlice c.N atomBatch = some ab) (hsb : batchSlice us.length snapBatch = some sb) :
    normalEqOp c ods us fs atomBatch snapBatch =
      some (ab.foldl (fun acc be => sb.foldl (fun acc se =>
          accStep (ncolOf ods) acc (batchG c ods us fs be.1 be.2 se.1 se.2)) acc)
        (IMat.zeros (ncolOf ods) (ncolOf ods), Array.replicate (ncolOf ods) 0)) := by
  unfold normalEqOp
  rw [hab, hsb]
  rfl

theorem take_drop_length {α} (l : List α) (b e : Nat) (he : e ≤ l.length) :
    ((l.drop b).take (e - b)).length = e - b := by
  simp; omega

theorem take_drop_getD {α} (l : List α) (b e s : Nat) (d : α) (hs : s < e - b) :
    ((l.drop b).take (e - b)).getD s d = l.getD (b + s) d := by
  simp [List.getD_eq_getElem?_getD, List.getElem?_drop, hs]

theorem batchX_size (c : Cell) (od0 : OrderData) (ods : List OrderData) (us : List (Array Int))
    (bi ei b e : Nat) (he : e ≤ us.length) :
    (batchX c (od0 :: ods) us bi ei b e).size = (e - b) * ((ei - bi) * 3) := by
  unfold batchX
  rw [List.map_cons, hcat_cons_size, designBlockOp_size, take_drop_length us b e he, Nat.mul_assoc]

theorem batchX_row (c : Cell) (ods : List OrderData) (hods : ∀ od ∈ ods, OrderOK c od)
    (hne : ods ≠ []) (hN : 0 < c.N)
    (us : List (Array Int)) (bi ei b e : Nat) (he : e ≤ us.length) (s il a : Nat) (hs : s < e - b)
    (hil : il < ei - bi) (ha : a < 3) :
    (batchX c ods us bi ei b e).getD (s * ((ei - bi) * 3) + (il * 3 + a)) #[]
      = specRow c ods (us.getD (b + s) #[]) (bi + il) a := by
  have hlen := take_drop_length us b e he
  have hidx : s * ((ei - bi) * 3) + (il * 3 + a) < (e - b) * ((ei - bi) * 3) :=
    digit_lt hs (by omega)
  match ods, hne with
  | od0 :: ods', _ =>
    have hrow : (batchX c (od0 :: ods') us bi ei b e).getD
          (s * ((ei - bi) * 3) + (il * 3 + a)) #[]
        = ((od0 :: ods').map (fun od => designBlockOp c od ((us.drop b).take (e - b)) bi ei)).foldl
            (fun acc mm => acc ++ mm.getD (s * ((ei - bi) * 3) + (il * 3 + a)) #[]) #[] :=
      hcat_cons_row _ _ _ (by rw [designBlockOp_size, hlen, Nat.mul_assoc]; exact hidx)
    rw [hrow, List.foldl_map]
    unfold specRow
    apply foldl_congr_mem
    intro od hod acc
    congr 1
    have hs' : s < ((us.drop b).take (e - b)).length := by rw [hlen]; exact hs
    have hsz := designBlockOp_row_size c od ((us.drop b).take (e - b)) bi ei s (il * 3 + a) hs'
      (by omega)
    apply Array.ext
    · rw [hsz]; simp
    · intro x h1 h2
      have hx : x < od.nx := by rw [hsz] at h1; exact h1
      have := designBlockOp_entry c od (hods od hod) ((us.drop b).take (e - b)) bi ei hN
        s il a x hs' hil ha hx
      rw [Nat.add_assoc, take_drop_getD us b e s #[] hs] at this
      simp only [Array.getElem_ofFn]
      rw [← this, getD_of_lt h1]

theorem batchY_size (fs : List (Array Int)) (bi ei b e : Nat) (he : e ≤ fs.length) :
    (batchY fs bi ei b e).size = (e - b) * ((ei - bi) * 3) := by
  unfold batchY
  rw [List.size_toArray, length_flatMap_uniform _ ((ei - bi) * 3) _ (by intro u _; simp),
    take_drop_length fs b e he]

theorem batchY_row (fs : List (Array Int)) (bi ei b e : Nat) (he : e ≤ fs.length) (s il a : Nat)
    (hs : s < e - b) (hil : il < ei - bi) (ha : a < 3) :
    (batchY fs bi ei b e).getD (s * ((ei - bi) * 3) + (il * 3 + a)) #[]
      = #[(fs.getD (b + s) #[]).getD (3 * (bi + il) + a) 0] := by
  have hlen := take_drop_length fs b e he
  have hs' : s < ((fs.drop b).take (e - b)).length := by rw [hlen]; exact hs
  have hm : il * 3 + a < (ei - bi) * 3 := by omega
  unfold batchY
  rw [Array.getD_eq_getD_getElem?, List.getElem?_toArray,
    getElem?_flatMap_uniform _ ((ei - bi) * 3) _ (by intro u _; simp) s (il * 3 + a) hs' hm]
  have e1 : ((fs.drop b).take (e - b))[s] = fs.getD (b + s) #[] := by
    have := take_drop_getD fs b e s #[] hs
    rw [List.getD_eq_getElem?_getD, List.getElem?_eq_getElem hs'] at this
    simpa using this
  have e2 : bi * 3 + (il * 3 + a) = 3 * (bi + il) + a := by omega
  simp [hm, e1, e2]

/-! ### entries of the Gram blocks as sums over `(s, i, a)` -/

def rowF (c : Cell) (ods : List OrderData) (us : List (Array Int)) (p q s i : Nat) : Int :=
  rsum 3 (fun a => (specRow c ods (us.getD s #[]) i a).getD p 0 *
    (specRow c ods (us.getD s #[]) i a).getD q 0)

def rowH (c : Cell) (ods : List OrderData) (us fs : List (Array Int)) (j s i : Nat) : Int :=
  rsum 3 (fun a => (specRow c ods (us.getD s #[]) i a).getD j 0 *
    (fs.getD s #[]).getD (3 * i + a) 0)

theorem rsum_rows3 (S n : Nat) (f : Nat → Int) :
    rsum (S * (n * 3)) f
      = rsum S (fun s => rsum n (fun i => rsum 3 (fun a => f (s * (n * 3) + (i * 3 + a))))) := by
  rw [rsum_mul]
  apply rsum_congr
  intro s _
  rw [rsum_mul]

theorem ods_ne_nil_of_lt {ods : List OrderData} {p : Nat} (hp : p < ncolOf ods) : ods ≠ [] := by
  rintro rfl
  simp [ncolOf] at hp

theorem batchX_row0 (c : Cell) (ods : List OrderData) (hods : ∀ od ∈ ods, OrderOK c od)
    (hne : ods ≠ []) (hN : 0 < c.N)
    (us : List (Array Int)) (bi ei b e : Nat) (he : e ≤ us.length) (hb : b < e) (hbi : bi < ei) :
    ((batchX c ods us bi ei b e).getD 0 #[]).size = ncolOf ods := by
  have := batchX_row c ods hods hne hN us bi ei b e he 0 0 0 (by omega) (by omega) (by omega)
  simp only [Nat.zero_mul, Nat.zero_add] at this
  rw [this, specRow_size]

theorem batchG_get1 (c : Cell) (ods : List OrderData) (hods : ∀ od ∈ ods, OrderOK c od)
    (hN : 0 < c.N) (us fs : List (Array Int)) (bi ei b e : Nat) (he : e ≤ us.length)
    (hb : b < e) (hbi : bi < ei) (p q : Nat) (hp : p < ncolOf ods) (hq : q < ncolOf ods) :
    (batchG c ods us fs bi ei b e).1.get p q
      = rsum (e - b) (fun s => rsum (ei - bi) (fun il => rowF c ods us p q (b + s) (bi + il))) := by
  have hne := ods_ne_nil_of_lt hp
  have h0 := batchX_row0 c ods hods hne hN us bi ei b e he hb hbi
  have hsz : (batchX c ods us bi ei b e).size = (e - b) * ((ei - bi) * 3) := by
    match ods, hne with
    | od0 :: ods', _ => exact batchX_size c od0 ods' us bi ei b e he
  unfold batchG
  simp only
  rw [tmul_get _ _ p q (by rw [h0]; exact hp) (by rw [h0]; exact hq), hsz, rsum_rows3]
  apply rsum_congr; intro s hs
  apply rsum_congr; intro il hil
  unfold rowF
  apply rsum_congr; intro a ha
  unfold IMat.get
  rw [batchX_row c ods hods hne hN us bi ei b e he s il a hs hil ha]

theorem batchG_get2 (c : Cell) (ods : List OrderData) (hods : ∀ od ∈ ods, OrderOK c od)
    (hN : 0 < c.N) (us fs : List (Array Int)) (bi ei b e : Nat) (he : e ≤ us.length)
    (hfs : fs.length = us.length)
    (hb : b < e) (hbi : bi < ei) (j : Nat) (hj : j < ncolOf ods) :
    (batchG c ods us fs bi ei b e).2.get j 0
      = rsum (e - b) (fun s => rsum (ei - bi) (fun il => rowH c ods us fs j (b + s) (bi + il))) := by
  have hne := ods_ne_nil_of_lt hj
  have h0 := batchX_row0 c ods hods hne hN us bi ei b e he hb hbi
  have hsz : (batchX c ods us bi ei b e).size = (e - b) * ((ei - bi) * 3) := by
    match ods, hne with
    | od0 :: ods', _ => exact batchX_size c od0 ods' us bi ei b e he
  have hy0 : ((batchY fs bi ei b e).getD 0 #[]).size = 1 := by
    have := batchY_row fs bi ei b e (by omega) 0 0 0 (by omega) (by omega) (by omega)
    simp only [Nat.zero_mul, Nat.zero_add] at this
    rw [this]; rfl
  unfold batchG
  simp only
  rw [tmul_get _ _ j 0 (by rw [h0]; exact hj) (by rw [hy0]; omega), hsz, rsum_rows3]
  apply rsum_congr; intro s hs
  apply rsum_congr; intro il hil
  unfold rowH
  apply rsum_congr; intro a ha
  unfold IMat.get
  rw [batchX_row c ods hods hne hN us bi ei b e he s il a hs hil ha,
    batchY_row fs bi ei b e (by omega) s il a hs hil ha]
  rfl

theorem specX_row0 (c : Cell) (ods : List OrderData) (us fs : List (Array Int))
    (hfs : fs.length = us.length) (hS : 0 < us.length) (hN : 0 < c.N) :
    ((specX c ods us fs).getD 0 #[]).size = ncolOf ods := by
  have := specX_row c ods us fs hfs 0 0 0 hS hN (by omega)
  simp only [Nat.zero_mul, Nat.zero_add] at this
  rw [this, specRow_size]

theorem spec_get1 (c : Cell) (ods : List OrderData) (us fs : List (Array Int))
    (hfs : fs.length = us.length) (hS : 0 < us.length) (hN : 0 < c.N)
    (p q : Nat) (hp : p < ncolOf ods) (hq : q < ncolOf ods) :
    (tmul (specX c ods us fs) (specX c ods us fs)).get p q
      = rsum us.length (fun s => rsum c.N (fun i => rowF c ods us p q s i)) := by
  have h0 := specX_row0 c ods us fs hfs hS hN
  rw [tmul_get _ _ p q (by rw [h0]; exact hp) (by rw [h0]; exact hq), specX_size c ods us fs hfs,
    rsum_rows3]
  apply rsum_congr; intro s hs
  apply rsum_congr; intro i hi
  unfold rowF
  apply rsum_congr; intro a ha
  unfold IMat.get
  rw [specX_row c ods us fs hfs s i a hs hi ha]

theorem spec_get2 (c : Cell) (ods : List OrderData) (us fs : List (Array Int))
    (hfs : fs.length = us.length) (hS : 0 < us.length) (hN : 0 < c.N)
    (j : Nat) (hj : j < ncolOf ods) :
    (tmul (specX c ods us fs) (specY c ods us fs)).get j 0
      = rsum us.length (fun s => rsum c.N (fun i => rowH c ods us fs j s i)) := by
  have h0 := specX_row0 c ods us fs hfs hS hN
  have hy0 : ((specY c ods us fs).getD 0 #[]).size = 1 := by
    have := specY_row c ods us fs hfs 0 0 0 hS hN (by omega)
    simp only [Nat.zero_mul, Nat.zero_add] at this
    rw [this]; rfl
  rw [tmul_get _ _ j 0 (by rw [h0]; exact hj) (by rw [hy0]; omega), specX_size c ods us fs hfs,
    rsum_rows3]
  apply rsum_congr; intro s hs
  apply rsum_congr; intro i hi
  unfold rowH
  apply rsum_congr; intro a ha
  unfold IMat.get
  rw [specX_row c ods us fs hfs s i a hs hi ha, specY_row c ods us fs hfs s i a hs hi ha]
  rfl

/-! ### sums over batches -/

theorem batchSlice_lsum {n b : Nat} {sl : List (Nat × Nat)} (hb : 0 < b)
    (h : batchSlice n b = some sl) (f : Nat → Int) :
    lsum sl (fun p => rsum (p.2 - p.1) (fun j => f (p.1 + j))) = rsum n f := by
  unfold rsum
  rw [← batchSlice_partition hb h, lsum_flatMap]
  apply lsum_congr
  intro p _
  exact (lsum_range' p.1 (p.2 - p.1) f).symm

theorem batch_double {N S ba bs : Nat} {ab sb : List (Nat × Nat)} (hba : 0 < ba) (hbs : 0 < bs)
    (hab : batchSlice N ba = some ab) (hsb : batchSlice S bs = some sb) (F : Nat → Nat → Int) :
    lsum ab (fun be => lsum sb (fun se =>
        rsum (se.2 - se.1) (fun s => rsum (be.2 - be.1) (fun il => F (se.1 + s) (be.1 + il)))))
      = rsum S (fun s => rsum N (fun i => F s i)) := by
  have e1 : ∀ be ∈ ab, lsum sb (fun se =>
        rsum (se.2 - se.1) (fun s => rsum (be.2 - be.1) (fun il => F (se.1 + s) (be.1 + il))))
      = rsum S (fun s => rsum (be.2 - be.1) (fun il => F s (be.1 + il))) := by
    intro be _
    exact batchSlice_lsum hbs hsb (fun s => rsum (be.2 - be.1) (fun il => F s (be.1 + il)))
  rw [lsum_congr e1]
  unfold rsum
  rw [lsum_swap]
  apply lsum_congr
  intro s _
  exact batchSlice_lsum hba hab (fun i => F s i)

/-! ### (D2) and (D3) -/

/-- **(D2)** for any positive batch sizes the operational normal equations are the Gram matrix and
    right-hand side of the spec design matrix. -/
theorem normalEqOp_eq_spec (c : Cell) (ods : List OrderData) (hods : ∀ od ∈ ods, OrderOK c od)
    (hN : 0 < c.N) (us fs : List (Array Int)) (hfs : fs.length = us.length) (hS : 0 < us.length)
    (atomBatch snapBatch : Nat) (hba : 0 < atomBatch) (hbs : 0 < snapBatch) :
    normalEqOp c ods us fs atomBatch snapBatch = some (normalEqSpec c ods us fs) := by
  obtain ⟨ab, hab⟩ := batchSlice_isSome (n := c.N) hba
  obtain ⟨sb, hsb⟩ := batchSlice_isSome (n := us.length) hbs
  rw [normalEqOp_some c ods us fs atomBatch snapBatch ab sb hab hsb, normalEqSpec_eq]
  congr 1
  have hflat : ab.foldl (fun acc be => sb.foldl (fun acc se =>
          accStep (ncolOf ods) acc (batchG c ods us fs be.1 be.2 se.1 se.2)) acc)
        (IMat.zeros (ncolOf ods) (ncolOf ods), Array.replicate (ncolOf ods) 0)
      = (ab.flatMap (fun be => sb.map (fun se => batchG c ods us fs be.1 be.2 se.1 se.2))).foldl
          (accStep (ncolOf ods))
          (IMat.zeros (ncolOf ods) (ncolOf ods), Array.replicate (ncolOf ods) 0) := by
    rw [List.foldl_flatMap]
    simp only [List.foldl_map]
  rw [hflat]
  obtain ⟨sh, g1, g2⟩ := accFold (ncolOf ods)
    (ab.flatMap (fun be => sb.map (fun se => batchG c ods us fs be.1 be.2 se.1 se.2)))
    _ (zeros_shape (ncolOf ods))
  have h0 := specX_row0 c ods us fs hfs hS hN
  have mab := batchSlice_mem hba hab
  have msb := batchSlice_mem hbs hsb
  apply Prod.ext
  · refine imat_ext sh.h1 (by rw [tmul_size, h0]) sh.h2
      (fun i hi => by rw [tmul_row_size _ _ i (by rw [h0]; exact hi), h0]) ?_
    intro p q hp hq
    rw [g1 p q hp hq, zeros_get, Int.zero_add, lsum_flatMap, spec_get1 c ods us fs hfs hS hN p q hp hq,
      ← batch_double hba hbs hab hsb (rowF c ods us p q)]
    apply lsum_congr
    intro be hbe
    rw [lsum_map]
    apply lsum_congr
    intro se hse
    exact batchG_get1 c ods hods hN us fs be.1 be.2 se.1 se.2 (msb se hse).2.2 (msb se hse).1
      (mab be hbe).1 p q hp hq
  · refine array_ext_getD sh.h3 (by simp) ?_
    intro j hj
    simp only
    rw [g2 j hj, getD_ofFn, dif_pos hj, lsum_flatMap, spec_get2 c ods us fs hfs hS hN j hj,
      ← batch_double hba hbs hab hsb (rowH c ods us fs j)]
    have hz : (Array.replicate (ncolOf ods) (0 : Int)).getD j 0 = 0 := by
      simp [Array.getD_eq_getD_getElem?, hj]
    rw [hz, Int.zero_add]
    apply lsum_congr
    intro be hbe
    rw [lsum_map]
    apply lsum_congr
    intro se hse
    exact batchG_get2 c ods hods hN us fs be.1 be.2 se.1 se.2 (msb se hse).2.2 hfs (msb se hse).1
      (mab be hbe).1 j hj

/-- **(D3)** batch independence (C11) -/
theorem normalEqOp_batch_indep (c : Cell) (ods : List OrderData) (hods : ∀ od ∈ ods, OrderOK c od)
    (hN : 0 < c.N) (us fs : List (Array Int)) (hfs : fs.length = us.length) (hS : 0 < us.length)
    (a1 s1 a2 s2 : Nat) (h1 : 0 < a1) (h2 : 0 < s1) (h3 : 0 < a2) (h4 : 0 < s2) :
    normalEqOp c ods us fs a1 s1 = normalEqOp c ods us fs a2 s2 := by
  rw [normalEqOp_eq_spec c ods hods hN us fs hfs hS a1 s1 h1 h2,
    normalEqOp_eq_spec c ods hods hN us fs hfs hS a2 s2 h3 h4]

end Symfc
