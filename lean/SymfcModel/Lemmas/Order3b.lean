/-
  Lemmas/Order3b.lean — order-3 class-space indices `T c x y z = elemIdx [x, y, z]`:
  translations of entries, separation, the six arrangements of a combination, and the
  combinations fed to the stages of `Gen.stagesO3`.
-/
import SymfcModel.Lemmas.Order3a
namespace Symfc
namespace O3
open OC

/-! ## lattice translations of entries -/

section tau
variable {c : Cell} (h : Cell.WF c)
include h

omit h in
theorem tauE_div (l e : Nat) : tauE c l e / 3 = c.img l (e / 3) := by
  unfold tauE; omega

omit h in
theorem tauE_mod (l e : Nat) : tauE c l e % 3 = e % 3 := by
  unfold tauE; omega

theorem tauE_lt {l e : Nat} (hl : l < c.nlp) (he : e < 3 * c.N) : tauE c l e < 3 * c.N := by
  have := h.img_lt l (e / 3) hl (by omega)
  unfold tauE; omega

theorem tauE_inj {l x y : Nat} (hl : l < c.nlp) (hx : x < 3 * c.N) (hy : y < 3 * c.N)
    (e : tauE c l x = tauE c l y) : x = y := by
  have h1 : c.img l (x / 3) = c.img l (y / 3) := by
    have := tauE_div (c := c) l x; have := tauE_div (c := c) l y; rw [e] at *; omega
  have h2 : x % 3 = y % 3 := by
    have := tauE_mod (c := c) l x; have := tauE_mod (c := c) l y; rw [e] at *; omega
  have := h.img_inj l _ _ hl (by omega) (by omega) h1
  omega

theorem tauE_ne {l x y : Nat} (hl : l < c.nlp) (hx : x < 3 * c.N) (hy : y < 3 * c.N)
    (hne : x ≠ y) : tauE c l x ≠ tauE c l y := fun e => hne (tauE_inj h hl hx hy e)

theorem tauE_zero {y : Nat} (hy : y < 3 * c.N) : tauE c 0 y = y := by
  unfold tauE
  rw [h.img_zero (y / 3) (by omega)]
  omega

/-- a translation fixing one entry is the identity translation -/
theorem tauE_fix {l x : Nat} (hl : l < c.nlp) (hx : x < 3 * c.N) (e : tauE c l x = x) : l = 0 := by
  have h1 : c.img l (x / 3) = x / 3 := by
    have := tauE_div (c := c) l x; rw [e] at this; exact this.symm
  have h0 : c.img 0 (x / 3) = x / 3 := h.img_zero _ (by omega)
  exact h.free' hl h.nlp_pos (by omega) (h1.trans h0.symm)

/-- only one translation moves the atom of an entry onto an independent atom -/
theorem indep_same {l l' x : Nat} (hl : l < c.nlp) (hl' : l' < c.nlp) (hx : x < 3 * c.N)
    (h1 : tauE c l x / 3 ∈ c.indepAtoms) (h2 : tauE c l' x / 3 ∈ c.indepAtoms) : l = l' := by
  rw [tauE_div] at h1 h2
  have ha : x / 3 < c.N := by omega
  have o1 : Cell.sameOrbit c (x / 3) (c.img l (x / 3)) := ⟨l, hl, rfl⟩
  have o2 : Cell.sameOrbit c (x / 3) (c.img l' (x / 3)) := ⟨l', hl', rfl⟩
  have o3 := h.sameOrbit_trans (h.img_lt l _ hl ha) (h.sameOrbit_symm ha o1) o2
  exact h.free' hl hl' ha (h.indep_unique h1 h2 o3)

end tau

/-! ## the order-3 class-space index -/

/-- class-space index of the entry triple `(x, y, z)` -/
def T (c : Cell) (x y z : Nat) : Nat := elemIdx c.N (c.atomicDecompr 3) [x, y, z]

theorem valid3 {N x y z : Nat} (hx : x < 3 * N) (hy : y < 3 * N) (hz : z < 3 * N) :
    Valid N 3 [x, y, z] := by
  refine ⟨rfl, fun e he => ?_⟩
  simp only [List.mem_cons, List.not_mem_nil, or_false] at he
  rcases he with rfl | rfl | rfl <;> assumption

section T
variable {c : Cell} (hwf : c.wf = true)
include hwf

theorem T_translate {x y z l : Nat} (hx : x < 3 * c.N) (hy : y < 3 * c.N) (hz : z < 3 * c.N)
    (hl : l < c.nlp) : T c (tauE c l x) (tauE c l y) (tauE c l z) = T c x y z :=
  elemIdx_translate c hwf (n := 3) (by omega) (valid3 hx hy hz) hl

theorem T_sep {x y z x' y' z' : Nat} (hx : x < 3 * c.N) (hy : y < 3 * c.N) (hz : z < 3 * c.N)
    (hx' : x' < 3 * c.N) (hy' : y' < 3 * c.N) (hz' : z' < 3 * c.N)
    (e : T c x y z = T c x' y' z') :
    ∃ l, l < c.nlp ∧ x' = tauE c l x ∧ y' = tauE c l y ∧ z' = tauE c l z := by
  obtain ⟨l, hl, h'⟩ := elemIdx_separate c hwf (n := 3) (by omega) (valid3 hx hy hz)
    (valid3 hx' hy' hz') e
  simp only [List.map_cons, List.map_nil, List.cons.injEq, and_true] at h'
  exact ⟨l, hl, h'⟩

theorem T_lt {x y z : Nat} (hx : x < 3 * c.N) (hy : y < 3 * c.N) (hz : z < 3 * c.N) :
    T c x y z < c.N ^ 3 * 3 ^ 3 / c.nlp :=
  elemIdx_lt c hwf (n := 3) (by omega) (valid3 hx hy hz)

/-- two triples with the same index that agree in one position are equal -/
theorem T_fix {x y z x' y' z' : Nat} (hx : x < 3 * c.N) (hy : y < 3 * c.N) (hz : z < 3 * c.N)
    (hx' : x' < 3 * c.N) (hy' : y' < 3 * c.N) (hz' : z' < 3 * c.N)
    (e : T c x y z = T c x' y' z') (hfix : x = x' ∨ y = y' ∨ z = z') :
    x = x' ∧ y = y' ∧ z = z' := by
  have h := Cell.wf_WF c hwf
  obtain ⟨l, hl, rfl, rfl, rfl⟩ := T_sep hwf hx hy hz hx' hy' hz' e
  have hl0 : l = 0 := by
    rcases hfix with h1 | h1 | h1
    · exact tauE_fix h hl hx h1.symm
    · exact tauE_fix h hl hy h1.symm
    · exact tauE_fix h hl hz h1.symm
  subst hl0
  exact ⟨(tauE_zero h hx).symm, (tauE_zero h hy).symm, (tauE_zero h hz).symm⟩

/-- index permutations respect equality of indices -/
theorem T_perm {x y z x' y' z' : Nat} (hx : x < 3 * c.N) (hy : y < 3 * c.N) (hz : z < 3 * c.N)
    (hx' : x' < 3 * c.N) (hy' : y' < 3 * c.N) (hz' : z' < 3 * c.N)
    (e : T c x y z = T c x' y' z') :
    T c y z x = T c y' z' x' ∧ T c z x y = T c z' x' y' ∧ T c x z y = T c x' z' y' ∧
      T c y x z = T c y' x' z' ∧ T c z y x = T c z' y' x' := by
  obtain ⟨l, hl, rfl, rfl, rfl⟩ := T_sep hwf hx hy hz hx' hy' hz' e
  exact ⟨(T_translate hwf hy hz hx hl).symm, (T_translate hwf hz hx hy hl).symm,
    (T_translate hwf hx hz hy hl).symm, (T_translate hwf hy hx hz hl).symm,
    (T_translate hwf hz hy hx hl).symm⟩

end T

/-! ## the stages of `Gen.stagesO3` and their combinations -/

def st1 : Stage := { combOrder := 1, perms := [[0, 0, 0]], nPermsGroup := 1, batchKey := "1" }
def st2 : Stage :=
  { combOrder := 2, perms := [[0, 0, 1], [0, 1, 0], [1, 0, 0], [0, 1, 1], [1, 0, 1], [1, 1, 0]],
    nPermsGroup := 2, batchKey := "1" }
def st3 : Stage :=
  { combOrder := 3, perms := [[0, 1, 2], [0, 2, 1], [1, 0, 2], [1, 2, 0], [2, 0, 1], [2, 1, 0]],
    nPermsGroup := 1, batchKey := "n_batch" }

theorem stagesO3_eq : Gen.stagesO3 = [st1, st2, st3] := rfl

/-- the combinations fed to the stages 2 and 3: strictly increasing entry tuples whose first atom
    is an independent atom -/
theorem stageCombs_spec (c : Cell) (cut : Option CutoffIn)
    (hcut : ∀ x, cut = some x → x.N = c.N) {st : Stage}
    (hk : st.combOrder = 2 ∨ st.combOrder = 3) {comb : List Nat}
    (hcomb : comb ∈ stageCombs Gen.cutoffOps c 3 cut st) :
    comb.length = st.combOrder ∧ comb.Pairwise (· < ·) ∧ (∀ e ∈ comb, e < 3 * c.N) ∧
      comb.headD 0 / 3 ∈ c.indepAtoms := by
  unfold stageCombs at hcomb
  rw [if_neg (by omega)] at hcomb
  obtain ⟨hmem, hind⟩ := mem_getCombinations_some.mp hcomb
  have hk' : st.combOrder = 2 ∨ st.combOrder = 3 ∨ st.combOrder = 4 := by omega
  cases cut with
  | none =>
    rw [getCombinations_none_none] at hmem
    obtain ⟨hl, hp, hlt⟩ := mem_entireCombinations.mp hmem
    exact ⟨hl, hp, hlt, hind⟩
  | some x =>
    rw [getCombinations_some_none] at hmem
    obtain ⟨hl, hp, hlt, _⟩ := (mem_combinations_raw hk').mp hmem
    rw [hcut x rfl] at hlt
    exact ⟨hl, hp, hlt, hind⟩

theorem eq_triple_of_length_three {r : List Nat} (h : r.length = 3) : ∃ x y z, r = [x, y, z] := by
  match r, h with
  | [x, y, z], _ => exact ⟨x, y, z, rfl⟩

theorem comb3_cases (c : Cell) (cut : Option CutoffIn) (hcut : ∀ x, cut = some x → x.N = c.N)
    {cu : List Nat} (hcu : cu ∈ stageCombs Gen.cutoffOps c 3 cut st3) :
    ∃ a b d, cu = [a, b, d] ∧ a < b ∧ b < d ∧ d < 3 * c.N ∧ a / 3 ∈ c.indepAtoms := by
  obtain ⟨hl, hp, hlt, hind⟩ := stageCombs_spec c cut hcut (st := st3) (Or.inr rfl) hcu
  obtain ⟨a, b, d, rfl⟩ := eq_triple_of_length_three hl
  have h1 := List.pairwise_cons.mp hp
  have h2 := List.pairwise_cons.mp h1.2
  exact ⟨a, b, d, rfl, h1.1 b (by simp), h2.1 d (by simp), hlt d (by simp), hind⟩

theorem comb2_cases (c : Cell) (cut : Option CutoffIn) (hcut : ∀ x, cut = some x → x.N = c.N)
    {cu : List Nat} (hcu : cu ∈ stageCombs Gen.cutoffOps c 3 cut st2) :
    ∃ p q, cu = [p, q] ∧ p < q ∧ q < 3 * c.N := by
  obtain ⟨hl, hp, hlt, _⟩ := stageCombs_spec c cut hcut (st := st2) (Or.inl rfl) hcu
  obtain ⟨p, q, rfl⟩ := eq_pair_of_length_two hl
  have h1 := List.pairwise_cons.mp hp
  exact ⟨p, q, rfl, h1.1 q (by simp), hlt q (by simp)⟩

end O3
end Symfc
