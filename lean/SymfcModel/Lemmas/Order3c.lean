/-
  Lemmas/Order3c.lean — one batch of a stage of `Gen.stagesO3`: every row ends up in one
  component (stages 1 and 2).
-/
import SymfcModel.Lemmas.Order3b
namespace Symfc
namespace O3
open OC

/-- the rows written for the combinations `cs` of stage `st` (one batch) -/
abbrev rowsOf (c : Cell) (st : Stage) (cs : List (List Nat)) : List (List Nat) :=
  cs.flatMap (stageRowsOf c.N (c.atomicDecompr 3) st)

theorem rowsOf_length (c : Cell) {st : Stage} {cs : List (List Nat)} {R : List Nat}
    (hR : R ∈ rowsOf c st cs) : R.length = st.perms.length / st.nPermsGroup := by
  obtain ⟨cu, _, h⟩ := List.mem_flatMap.mp hR
  exact stageRowsOf_length h

theorem rowsOf_ncol (c : Cell) {st : Stage} {cs : List (List Nat)} {R : List Nat}
    (hR : R ∈ rowsOf c st cs) :
    ((rowsOf c st cs).headD []).length = st.perms.length / st.nPermsGroup :=
  headD_length_of_common (fun _ hr => rowsOf_length c hr) hR

/-! ## stage 1 -/

theorem stage1_conn (c : Cell) {cs : List (List Nat)} {r : List Nat} (hr : r ∈ rowsOf c st1 cs)
    {q : Array Int} (hsz : ∀ e ∈ r, e < q.size) (hq : ∀ e ∈ r, LastCol (rowsOf c st1 cs) q e) :
    ∀ a ∈ r, ∀ b ∈ r, SameComp q a b :=
  conn_one_col (rowsOf_ncol c hr) (fun _ hR => rowsOf_length c hR) hr hsz hq

/-! ## stage 2 -/

/-- first row of the combination `[p, q]` at stage 2 -/
def g0 (c : Cell) (p q : Nat) : List Nat := [T c p p q, T c p q p, T c q p p]
/-- second row of the combination `[p, q]` at stage 2 -/
def g1 (c : Cell) (p q : Nat) : List Nat := [T c p q q, T c q p q, T c q q p]

theorem rows2_eq (c : Cell) (p q : Nat) :
    stageRowsOf c.N (c.atomicDecompr 3) st2 [p, q] = [g0 c p q, g1 c p q] := rfl

section stage2
variable {c : Cell} (hwf : c.wf = true) {p q p' q' : Nat} (hp : p < 3 * c.N) (hq : q < 3 * c.N)
  (hpq : p ≠ q) (hp' : p' < 3 * c.N) (hq' : q' < 3 * c.N)
include hwf hp hq hpq

theorem g0_distinct : T c p p q ≠ T c p q p ∧ T c p p q ≠ T c q p p ∧ T c p q p ≠ T c q p p := by
  refine ⟨fun e => ?_, fun e => ?_, fun e => ?_⟩
  · exact hpq (T_fix hwf hp hp hq hp hq hp e (Or.inl rfl)).2.1
  · exact hpq (T_fix hwf hp hp hq hq hp hp e (Or.inr (Or.inl rfl))).1
  · exact hpq (T_fix hwf hp hq hp hq hp hp e (Or.inr (Or.inr rfl))).1

theorem g1_distinct : T c p q q ≠ T c q p q ∧ T c p q q ≠ T c q q p ∧ T c q p q ≠ T c q q p := by
  refine ⟨fun e => ?_, fun e => ?_, fun e => ?_⟩
  · exact hpq (T_fix hwf hp hq hq hq hp hq e (Or.inr (Or.inr rfl))).1
  · exact hpq (T_fix hwf hp hq hq hq hq hp e (Or.inr (Or.inl rfl))).1
  · exact hpq (T_fix hwf hq hp hq hq hq hp e (Or.inl rfl)).2.1

include hp' hq'

theorem g0_g0 (hm : T c p' p' q' ∈ g0 c p q) : g0 c p' q' = g0 c p q := by
  have h := Cell.wf_WF c hwf
  simp only [g0, List.mem_cons, List.not_mem_nil, or_false] at hm
  rcases hm with e | e | e
  · obtain ⟨l, hl, h1, _, h3⟩ := T_sep hwf hp hp hq hp' hp' hq' e.symm
    subst h1; subst h3
    simp only [g0, T_translate hwf hp hp hq hl, T_translate hwf hp hq hp hl,
      T_translate hwf hq hp hp hl]
  · obtain ⟨l, hl, h1, h2, _⟩ := T_sep hwf hp hq hp hp' hp' hq' e.symm
    exact absurd (h1.symm.trans h2) (tauE_ne h hl hp hq hpq)
  · obtain ⟨l, hl, h1, h2, _⟩ := T_sep hwf hq hp hp hp' hp' hq' e.symm
    exact absurd (h2.symm.trans h1) (tauE_ne h hl hp hq hpq)

theorem g1_g0 (hm : T c p' q' q' ∈ g0 c p q) :
    g1 c p' q' = [T c q p p, T c p q p, T c p p q] := by
  have h := Cell.wf_WF c hwf
  simp only [g0, List.mem_cons, List.not_mem_nil, or_false] at hm
  rcases hm with e | e | e
  · obtain ⟨l, hl, _, h2, h3⟩ := T_sep hwf hp hp hq hp' hq' hq' e.symm
    exact absurd (h2.symm.trans h3) (tauE_ne h hl hp hq hpq)
  · obtain ⟨l, hl, _, h2, h3⟩ := T_sep hwf hp hq hp hp' hq' hq' e.symm
    exact absurd (h3.symm.trans h2) (tauE_ne h hl hp hq hpq)
  · obtain ⟨l, hl, h1, h2, _⟩ := T_sep hwf hq hp hp hp' hq' hq' e.symm
    subst h1; subst h2
    simp only [g1, T_translate hwf hp hp hq hl, T_translate hwf hp hq hp hl,
      T_translate hwf hq hp hp hl]

theorem g0_g1 (hm : T c p' p' q' ∈ g1 c p q) :
    g0 c p' q' = [T c q q p, T c q p q, T c p q q] := by
  have h := Cell.wf_WF c hwf
  simp only [g1, List.mem_cons, List.not_mem_nil, or_false] at hm
  rcases hm with e | e | e
  · obtain ⟨l, hl, h1, h2, _⟩ := T_sep hwf hp hq hq hp' hp' hq' e.symm
    exact absurd (h1.symm.trans h2) (tauE_ne h hl hp hq hpq)
  · obtain ⟨l, hl, h1, h2, _⟩ := T_sep hwf hq hp hq hp' hp' hq' e.symm
    exact absurd (h2.symm.trans h1) (tauE_ne h hl hp hq hpq)
  · obtain ⟨l, hl, h1, _, h3⟩ := T_sep hwf hq hq hp hp' hp' hq' e.symm
    subst h1; subst h3
    simp only [g0, T_translate hwf hq hq hp hl, T_translate hwf hq hp hq hl,
      T_translate hwf hp hq hq hl]

theorem g1_g1 (hm : T c p' q' q' ∈ g1 c p q) : g1 c p' q' = g1 c p q := by
  have h := Cell.wf_WF c hwf
  simp only [g1, List.mem_cons, List.not_mem_nil, or_false] at hm
  rcases hm with e | e | e
  · obtain ⟨l, hl, h1, h2, _⟩ := T_sep hwf hp hq hq hp' hq' hq' e.symm
    subst h1; subst h2
    simp only [g1, T_translate hwf hp hq hq hl, T_translate hwf hq hp hq hl,
      T_translate hwf hq hq hp hl]
  · obtain ⟨l, hl, _, h2, h3⟩ := T_sep hwf hq hp hq hp' hq' hq' e.symm
    exact absurd (h2.symm.trans h3) (tauE_ne h hl hp hq hpq)
  · obtain ⟨l, hl, _, h2, h3⟩ := T_sep hwf hq hq hp hp' hq' hq' e.symm
    exact absurd (h3.symm.trans h2) (tauE_ne h hl hp hq hpq)

end stage2

/-- (A) stage 2: in one batch of stage 2 (any sub-list `cs` of its combinations) all elements of
    every row end up in one component -/
theorem stage2_conn (c : Cell) (hwf : c.wf = true) (cut : Option CutoffIn)
    (hcut : ∀ x, cut = some x → x.N = c.N) {cs : List (List Nat)}
    (hcs : ∀ x ∈ cs, x ∈ stageCombs Gen.cutoffOps c 3 cut st2)
    (hoc : OrbitClosed (rowsOf c st2 cs)) {r : List Nat} (hr : r ∈ rowsOf c st2 cs)
    {q : Array Int} (hsz : ∀ e ∈ r, e < q.size) (hq : ∀ e ∈ r, LastCol (rowsOf c st2 cs) q e) :
    ∀ a ∈ r, ∀ b ∈ r, SameComp q a b := by
  have hn : ((rowsOf c st2 cs).headD []).length = 3 := rowsOf_ncol c hr
  have hlen : ∀ R ∈ rowsOf c st2 cs, R.length = 3 := fun _ hR => rowsOf_length c hR
  -- the rows of the batch
  have hB : ∀ R ∈ rowsOf c st2 cs, ∃ p q, p < q ∧ q < 3 * c.N ∧ (R = g0 c p q ∨ R = g1 c p q) := by
    intro R hR
    obtain ⟨cu, hcu, hRcu⟩ := List.mem_flatMap.mp hR
    obtain ⟨p, q, rfl, hpq, hq3⟩ := comb2_cases c cut hcut (hcs cu hcu)
    rw [rows2_eq] at hRcu
    simp only [List.mem_cons, List.not_mem_nil, or_false] at hRcu
    exact ⟨p, q, hpq, hq3, hRcu⟩
  obtain ⟨p, q', hpq, hq3, hr01⟩ := hB r hr
  have hp3 : p < 3 * c.N := by omega
  have hne : p ≠ q' := by omega
  -- every row meeting `r` is `r` or its reverse
  rcases hr01 with rfl | rfl
  · obtain ⟨d1, d2, d3⟩ := g0_distinct hwf hp3 hq3 hne
    refine conn_three_cols d1 d2 d3 hn hlen ?_ (Or.inl hr)
      ⟨hsz _ (by simp [g0]), hsz _ (by simp [g0]), hsz _ (by simp [g0])⟩
      ⟨hq _ (by simp [g0]), hq _ (by simp [g0]), hq _ (by simp [g0])⟩
    intro R hR hmeet
    have hshare : ∃ e, e ∈ g0 c p q' ∧ e ∈ R := by
      rcases hmeet with h | h | h
      · exact ⟨_, by simp [g0], h⟩
      · exact ⟨_, by simp [g0], h⟩
      · exact ⟨_, by simp [g0], h⟩
    have hs := hoc _ hr R hR hshare
    obtain ⟨p2, q2, hpq2, hq23, hR01⟩ := hB R hR
    have hp23 : p2 < 3 * c.N := by omega
    rcases hR01 with rfl | rfl
    · exact Or.inl (g0_g0 hwf hp3 hq3 hne hp23 hq23 ((hs _).mpr (by simp [g0])))
    · exact Or.inr (g1_g0 hwf hp3 hq3 hne hp23 hq23 ((hs _).mpr (by simp [g1])))
  · obtain ⟨d1, d2, d3⟩ := g1_distinct hwf hp3 hq3 hne
    refine conn_three_cols d1 d2 d3 hn hlen ?_ (Or.inl hr)
      ⟨hsz _ (by simp [g1]), hsz _ (by simp [g1]), hsz _ (by simp [g1])⟩
      ⟨hq _ (by simp [g1]), hq _ (by simp [g1]), hq _ (by simp [g1])⟩
    intro R hR hmeet
    have hshare : ∃ e, e ∈ g1 c p q' ∧ e ∈ R := by
      rcases hmeet with h | h | h
      · exact ⟨_, by simp [g1], h⟩
      · exact ⟨_, by simp [g1], h⟩
      · exact ⟨_, by simp [g1], h⟩
    have hs := hoc _ hr R hR hshare
    obtain ⟨p2, q2, hpq2, hq23, hR01⟩ := hB R hR
    have hp23 : p2 < 3 * c.N := by omega
    rcases hR01 with rfl | rfl
    · exact Or.inr (g0_g1 hwf hp3 hq3 hne hp23 hq23 ((hs _).mpr (by simp [g0])))
    · exact Or.inl (g1_g1 hwf hp3 hq3 hne hp23 hq23 ((hs _).mpr (by simp [g1])))

end O3
end Symfc
