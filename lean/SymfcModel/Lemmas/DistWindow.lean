/-
  Lemmas/DistWindow.lean — when does the 27-image minimum only depend on the positions modulo the lattice?
    * `minOver_congr`       two difference vectors that differ by `S·m`, `|m|_∞ ≤ r`, have the same 27-image minimum
                            provided both minima are already minima over the window `{-(1+r)..(1+r)}³`;
    * `minImage2_congr`     pairs whose differences agree mod S: r = 2, i.e. the 7³ window (always applicable);
    * `minImage2_congr_nb`  the same with r = 1, i.e. the 5³ window, when no coordinate is on the rint boundary;
    * `wrapPos_congr_nb`    away from the boundary the wrapped position itself only depends on the residues.
-/
import SymfcModel.Lemmas.DistBasic
namespace Symfc
namespace Dist

/-! ## integer shifts between congruent differences -/

theorem exists_shift2 {S x y : Int} (hS : 0 < S) (hd : S ∣ y - x) (hx : -S ≤ x ∧ x ≤ S)
    (hy : -S ≤ y ∧ y ≤ S) : ∃ m : Int, y = x + S * m ∧ -((2 : Nat) : Int) ≤ m ∧ m ≤ ((2 : Nat) : Int) := by
  obtain ⟨m, hm⟩ := hd
  refine ⟨m, by omega, ?_, ?_⟩
  · have h : S * (-2) ≤ S * m := by omega
    have := Int.le_of_mul_le_mul_left h hS
    omega
  · have h : S * m ≤ S * 2 := by omega
    have := Int.le_of_mul_le_mul_left h hS
    omega

theorem exists_shift1 {S x y : Int} (hS : 0 < S) (hd : S ∣ y - x) (hx : -S < x ∧ x < S)
    (hy : -S < y ∧ y < S) : ∃ m : Int, y = x + S * m ∧ -((1 : Nat) : Int) ≤ m ∧ m ≤ ((1 : Nat) : Int) := by
  obtain ⟨m, hm⟩ := hd
  refine ⟨m, by omega, ?_, ?_⟩
  · have h : S * (-2) < S * m := by omega
    have := Int.lt_of_mul_lt_mul_left h (Int.le_of_lt hS)
    omega
  · have h : S * m < S * 2 := by omega
    have := Int.lt_of_mul_lt_mul_left h (Int.le_of_lt hS)
    omega

/-- the wrapped differences of two pairs are congruent when the raw differences are -/
theorem wrap_diff_dvd {S x y x' y' : Int} (h : S ∣ (x' - y') - (x - y)) :
    S ∣ (rintWrap S x' - rintWrap S y') - (rintWrap S x - rintWrap S y) := by
  have e : (rintWrap S x' - rintWrap S y') - (rintWrap S x - rintWrap S y) =
      (rintWrap S x' - x') - (rintWrap S y' - y') - (rintWrap S x - x) + (rintWrap S y - y) +
        ((x' - y') - (x - y)) := by omega
  rw [e]
  exact Int.dvd_add (Int.dvd_add (Int.dvd_sub (Int.dvd_sub (rintWrap_dvd S x') (rintWrap_dvd S y'))
    (rintWrap_dvd S x)) (rintWrap_dvd S y)) h

/-! ## the congruence lemma -/

/-- `d' = d + S·m`, `|m|_∞ ≤ r`, and for both vectors the 27-image minimum is the minimum over `{-(1+r)..(1+r)}³`:
    then the two 27-image minima coincide -/
theorem minOver_congr (S : Int) (G : List (List Int)) (d0 d1 d2 m0 m1 m2 : Int) (r : Nat)
    (h0 : -(r : Int) ≤ m0 ∧ m0 ≤ r) (h1 : -(r : Int) ≤ m1 ∧ m1 ≤ r) (h2 : -(r : Int) ≤ m2 ∧ m2 ≤ r)
    (hw : minOver S G [d0, d1, d2] 1 = minOver S G [d0, d1, d2] (1 + r))
    (hw' : minOver S G [d0 + S * m0, d1 + S * m1, d2 + S * m2] 1 =
      minOver S G [d0 + S * m0, d1 + S * m1, d2 + S * m2] (1 + r)) :
    minOver S G [d0 + S * m0, d1 + S * m1, d2 + S * m2] 1 = minOver S G [d0, d1, d2] 1 := by
  have a := minOver_shift_le S G d0 d1 d2 m0 m1 m2 1 r h0 h1 h2
  have b := minOver_shift_le S G (d0 + S * m0) (d1 + S * m1) (d2 + S * m2) (-m0) (-m1) (-m2) 1 r
    (by omega) (by omega) (by omega)
  have e0 : d0 + S * m0 + S * -m0 = d0 := by rw [Int.mul_neg]; omega
  have e1 : d1 + S * m1 + S * -m1 = d1 := by rw [Int.mul_neg]; omega
  have e2 : d2 + S * m2 + S * -m2 = d2 := by rw [Int.mul_neg]; omega
  rw [e0, e1, e2] at b
  omega

theorem pairWindowOK_iff {S : Int} {G : List (List Int)} {k : Nat} {p q : List Int} :
    pairWindowOK S G k p q = true ↔ minOver S G (diffW S p q) 1 = minOver S G (diffW S p q) k := by
  simp [pairWindowOK]

theorem diffW_triple (S p0 p1 p2 q0 q1 q2 : Int) :
    diffW S [p0, p1, p2] [q0, q1, q2] =
      [rintWrap S p0 - rintWrap S q0, rintWrap S p1 - rintWrap S q1, rintWrap S p2 - rintWrap S q2] := rfl

/-- **7³ window.**  Two pairs of positions whose differences agree modulo the lattice (coordinatewise mod S)
    have the same computed distance, provided that for BOTH pairs the 27-image minimum equals the 7³ minimum.
    No condition on the rint boundary. -/
theorem minImage2_congr {S : Int} (hS : 0 < S) (G : List (List Int)) {p q p' q' : List Int}
    (hp : p.length = 3) (hq : q.length = 3) (hp' : p'.length = 3) (hq' : q'.length = 3)
    (h : ∀ c, c < 3 → S ∣ (p'.getD c 0 - q'.getD c 0) - (p.getD c 0 - q.getD c 0))
    (hw : pairWindowOK S G 3 p q = true) (hw' : pairWindowOK S G 3 p' q' = true) :
    minImage2 S G p' q' = minImage2 S G p q := by
  obtain ⟨p0, p1, p2, rfl⟩ := length3 hp
  obtain ⟨q0, q1, q2, rfl⟩ := length3 hq
  obtain ⟨p0', p1', p2', rfl⟩ := length3 hp'
  obtain ⟨q0', q1', q2', rfl⟩ := length3 hq'
  have g0 := wrap_diff_dvd (h 0 (by omega))
  have g1 := wrap_diff_dvd (h 1 (by omega))
  have g2 := wrap_diff_dvd (h 2 (by omega))
  simp only [List.getD_cons_zero, List.getD_cons_succ] at g0 g1 g2
  rw [pairWindowOK_iff, diffW_triple] at hw hw'
  unfold minImage2
  rw [diffW_triple, diffW_triple]
  have r := fun x => rintWrap_range S x hS
  obtain ⟨m0, e0, b0⟩ := exists_shift2 hS g0 (by have := r p0; have := r q0; omega)
    (by have := r p0'; have := r q0'; omega)
  obtain ⟨m1, e1, b1⟩ := exists_shift2 hS g1 (by have := r p1; have := r q1; omega)
    (by have := r p1'; have := r q1'; omega)
  obtain ⟨m2, e2, b2⟩ := exists_shift2 hS g2 (by have := r p2; have := r q2; omega)
    (by have := r p2'; have := r q2'; omega)
  rw [e0, e1, e2] at hw' ⊢
  exact minOver_congr S G _ _ _ m0 m1 m2 2 b0 b1 b2 hw hw'

/-- **5³ window, off the boundary.**  If no coordinate of the four positions is `≡ S/2 (mod S)`, equality with the
    5³ window suffices. -/
theorem minImage2_congr_nb {S : Int} (hS : 0 < S) (G : List (List Int)) {p q p' q' : List Int}
    (hp : p.length = 3) (hq : q.length = 3) (hp' : p'.length = 3) (hq' : q'.length = 3)
    (nbp : ∀ x ∈ p, 2 * (x % S) ≠ S) (nbq : ∀ x ∈ q, 2 * (x % S) ≠ S)
    (nbp' : ∀ x ∈ p', 2 * (x % S) ≠ S) (nbq' : ∀ x ∈ q', 2 * (x % S) ≠ S)
    (h : ∀ c, c < 3 → S ∣ (p'.getD c 0 - q'.getD c 0) - (p.getD c 0 - q.getD c 0))
    (hw : pairWindowOK S G 2 p q = true) (hw' : pairWindowOK S G 2 p' q' = true) :
    minImage2 S G p' q' = minImage2 S G p q := by
  obtain ⟨p0, p1, p2, rfl⟩ := length3 hp
  obtain ⟨q0, q1, q2, rfl⟩ := length3 hq
  obtain ⟨p0', p1', p2', rfl⟩ := length3 hp'
  obtain ⟨q0', q1', q2', rfl⟩ := length3 hq'
  have g0 := wrap_diff_dvd (h 0 (by omega))
  have g1 := wrap_diff_dvd (h 1 (by omega))
  have g2 := wrap_diff_dvd (h 2 (by omega))
  simp only [List.getD_cons_zero, List.getD_cons_succ] at g0 g1 g2
  rw [pairWindowOK_iff, diffW_triple] at hw hw'
  unfold minImage2
  rw [diffW_triple, diffW_triple]
  have r := fun x hx => rintWrap_range_strict S x hS hx
  have a0 := r p0 (nbp _ (by simp)); have a1 := r p1 (nbp _ (by simp)); have a2 := r p2 (nbp _ (by simp))
  have b0 := r q0 (nbq _ (by simp)); have b1 := r q1 (nbq _ (by simp)); have b2 := r q2 (nbq _ (by simp))
  have a0' := r p0' (nbp' _ (by simp)); have a1' := r p1' (nbp' _ (by simp))
  have a2' := r p2' (nbp' _ (by simp))
  have b0' := r q0' (nbq' _ (by simp)); have b1' := r q1' (nbq' _ (by simp))
  have b2' := r q2' (nbq' _ (by simp))
  obtain ⟨m0, e0, c0⟩ := exists_shift1 hS g0 (by omega) (by omega)
  obtain ⟨m1, e1, c1⟩ := exists_shift1 hS g1 (by omega) (by omega)
  obtain ⟨m2, e2, c2⟩ := exists_shift1 hS g2 (by omega) (by omega)
  rw [e0, e1, e2] at hw' ⊢
  exact minOver_congr S G _ _ _ m0 m1 m2 1 c0 c1 c2 hw hw'

/-! ## off the boundary the wrapped position depends on the residues only -/

/-- `p` with the integer multiples `m_c · S` added to its coordinates -/
def shiftBy (S : Int) (p m : List Int) : List Int := List.zipWith (fun x k => x + k * S) p m

theorem shiftBy_length (S : Int) (p m : List Int) (h : m.length = p.length) :
    (shiftBy S p m).length = p.length := by
  simp [shiftBy, h]

theorem wrapPos_shiftBy_nb (S : Int) : ∀ (p m : List Int), m.length = p.length →
    (∀ x ∈ p, 2 * (x % S) ≠ S) → wrapPos S (shiftBy S p m) = wrapPos S p
  | [], [], _, _ => rfl
  | [], _ :: _, h, _ => by simp at h
  | _ :: _, [], h, _ => by simp at h
  | x :: xs, k :: ks, h, nb => by
    have ih := wrapPos_shiftBy_nb S xs ks (by simpa using h) (fun y hy => nb y (by simp [hy]))
    simp only [wrapPos, shiftBy, List.zipWith_cons_cons, List.map_cons] at ih ⊢
    rw [ih, rintWrap_add_mul S x k (nb x (by simp))]

theorem getD_shiftBy3 (S p0 p1 p2 k0 k1 k2 : Int) (c : Nat) (hc : c < 3) :
    (shiftBy S [p0, p1, p2] [k0, k1, k2]).getD c 0 = [p0, p1, p2].getD c 0 + [k0, k1, k2].getD c 0 * S := by
  match c, hc with
  | 0, _ => rfl
  | 1, _ => rfl
  | 2, _ => rfl

end Dist
end Symfc
