/-
  Lemmas/SgPermFull.lean — final statements about the full model of `compute_sg_permutations`
  (Model/SgPermFull.lean, exact integer arithmetic on grid inputs).

  `Cong S p q` (SgPermFullA.lean) is "p ≡ q modulo S in every coordinate, equal lengths", stated as equality of the
  wrapped vectors `roundPos S p = roundPos S q`; `cong_iff_coord` is the coordinate-wise reading.
  Distinctness of positions is the existing decidable `positionsDistinct S ps` (pairwise distinct wrapped positions).

  B1  `B1_exactMatch_sound`      (= `exactMatch_sound`, SgPermFullB.lean)
  B2  `B2_exactMatch_complete`   (= `exactMatch_complete`, SgPermFullB.lean)
      also `transPerm_sound`, `transPerm_complete` for the body of the pure-translation loop
  B3  `B3_unique_rotation_scan`  (= `unique_rotation_scan`, SgPermFullC.lean)
  B4  `sgPermutations_represents_every_operation` (core form `sgPermutations_core`, SgPermFullE.lean);
      `sgPermutations_represents_every_operation_ops`: the same with the lattice-translation hypothesis stated on
      the operations of the list instead of on `pure_trans`
  B5  `homomorphism` (3×3 matrix form), `homomorphism_of_map` (composition given as a map identity mod S)
  B6  `demo_eval`, `demo_hypotheses`, `demo_conclusion`
-/
import SymfcModel.Lemmas.SgPermFullE
import SymfcModel.Lemmas.SgPermFullF
namespace Symfc.SgPermFull
open Symfc

/-! ## B1–B3 (restated) -/

/-- B1 -/
theorem B1_exactMatch_sound (S : Int) (d : Nat) (ps qs : List (List Int)) (p : List Nat)
    (hps : ∀ x ∈ ps, x.length = d) (hqs : ∀ x ∈ qs, x.length = d) (hlen : qs.length = ps.length)
    (hd : positionsDistinct S ps = true) (h : exactMatch S ps qs = some p) :
    p.length = ps.length ∧ p.Perm (List.range ps.length) ∧
    (∀ i, i < ps.length → Cong S (ps.getD (p.getD i 0) []) (qs.getD i [])) ∧
    (∀ i j, i < ps.length → j < ps.length → Cong S (ps.getD j []) (qs.getD i []) → j = p.getD i 0) :=
  exactMatch_sound S d ps qs p hps hqs hlen hd h

/-- B2 -/
theorem B2_exactMatch_complete (S : Int) (d : Nat) (ps qs : List (List Int)) (σ : List Nat)
    (hps : ∀ x ∈ ps, x.length = d) (hlen : qs.length = ps.length)
    (hd : positionsDistinct S ps = true) (hσ : σ.Perm (List.range ps.length))
    (hsym : ∀ i, i < ps.length → Cong S (ps.getD (σ.getD i 0) []) (qs.getD i [])) :
    exactMatch S ps qs = some σ :=
  exactMatch_complete S d ps qs σ hps hlen hd hσ hsym

/-- B3 (`firstOp rots i = rots.idxOf (rots.getD i [])` is the index of the FIRST operation whose rotation matrix
    equals that of operation i, see `firstOp_spec`) -/
theorem B3_unique_rotation_scan (rots : List (List (List Int))) (trans : List (List Int))
    (hn : rots.length = trans.length) :
    (rotScan (rots.zip trans)).1.Nodup ∧
    (rotScan (rots.zip trans)).2.1.length = (rotScan (rots.zip trans)).1.length ∧
    (rotScan (rots.zip trans)).2.2.length = rots.length ∧
    (∀ i, i < rots.length →
      (rotScan (rots.zip trans)).2.2.getD i 0 < (rotScan (rots.zip trans)).1.length ∧
      (rotScan (rots.zip trans)).2.2.getD i 0 = (rotScan (rots.zip trans)).1.idxOf (rots.getD i []) ∧
      (rotScan (rots.zip trans)).1.getD ((rotScan (rots.zip trans)).2.2.getD i 0) [] = rots.getD i [] ∧
      (rotScan (rots.zip trans)).1.getD ((rotScan (rots.zip trans)).2.2.getD i 0) [] =
        rots.getD (firstOp rots i) [] ∧
      (rotScan (rots.zip trans)).2.1.getD ((rotScan (rots.zip trans)).2.2.getD i 0) [] =
        trans.getD (firstOp rots i) []) ∧
    (∀ u, u < (rotScan (rots.zip trans)).1.length → ∃ f, f < rots.length ∧ firstOp rots f = f ∧
      (rotScan (rots.zip trans)).1.getD u [] = rots.getD f [] ∧
      (rotScan (rots.zip trans)).2.1.getD u [] = trans.getD f []) :=
  unique_rotation_scan rots trans hn

/-! ## B4 -/

theorem pureTranslations_length (rots : List (List (List Int))) (trans : List (List Int))
    (htrans : ∀ t ∈ trans, t.length = 3) (l : Nat) (hl : l < (pureTranslations rots trans).length) :
    ((pureTranslations rots trans).getD l []).length = 3 := by
  obtain ⟨k, _, hk, _, he⟩ := mem_pureTranslations rots trans _ (getD_mem _ [] l hl)
  rw [← he]; exact htrans _ (getD_mem _ _ _ hk)

/-- B4 (MAIN). Hypotheses:
    * shapes: positions (N,3), rotations (n,3,·), translations (n,3);
    * `hd`: the positions are pairwise distinct mod S;
    * `hinto`/`honto`: every operation `x ↦ R_i x + t_i` maps the position set onto itself mod S;
    * `hlat`: for every i, with `f = firstOp rots i` the first operation having the rotation of operation i, the
      translation `t_i − t_f` is ≡ (mod S) to EXACTLY ONE entry of `pure_trans` (the translations of the
      identity-rotation operations of the list, in order).  For a list of operations that is a group without
      repetitions mod S this holds: `(R_i,t_i)∘(R_f,t_f)⁻¹ = (1, t_i − t_f)`.
    Conclusion: the call succeeds, the result has one row per operation, every row is a permutation of `range N`
    and row i sends atom a to THE atom at `R_i x_a + t_i` (mod S). -/
theorem sgPermutations_represents_every_operation (S : Int) (ps : List (List Int))
    (rots : List (List (List Int))) (trans : List (List Int))
    (hps : ∀ p ∈ ps, p.length = 3) (hrots : ∀ R ∈ rots, R.length = 3) (htrans : ∀ t ∈ trans, t.length = 3)
    (hn : rots.length = trans.length)
    (hd : positionsDistinct S ps = true)
    (hinto : ∀ i, i < rots.length → ∀ a, a < ps.length → ∃ b, b < ps.length ∧
      Cong S (ps.getD b []) (applyOp S (rots.getD i []) (trans.getD i []) (ps.getD a [])))
    (honto : ∀ i, i < rots.length → ∀ b, b < ps.length → ∃ a, a < ps.length ∧
      Cong S (ps.getD b []) (applyOp S (rots.getD i []) (trans.getD i []) (ps.getD a [])))
    (hlat : ∀ i, i < rots.length → ∃ l, l < (pureTranslations rots trans).length ∧
      Cong S ((pureTranslations rots trans).getD l [])
        (subVec (trans.getD i []) (trans.getD (firstOp rots i) [])) ∧
      ∀ l', l' < (pureTranslations rots trans).length →
        Cong S ((pureTranslations rots trans).getD l' [])
          (subVec (trans.getD i []) (trans.getD (firstOp rots i) [])) → l' = l) :
    ∃ out, sgPermutations S ps rots trans = some out ∧ out.length = rots.length ∧
      ∀ i, i < rots.length → (out.getD i []).Perm (List.range ps.length) ∧
        ∀ a, a < ps.length → Cong S (ps.getD ((out.getD i []).getD a 0) [])
          (applyOp S (rots.getD i []) (trans.getD i []) (ps.getD a [])) := by
  apply sgPermutations_core S ps rots trans hps hrots htrans hn hd
  · intro i hi
    exact exists_perm_of_into_onto S ps (applyOp S (rots.getD i []) (trans.getD i [])) hd (hinto i hi) (honto i hi)
  · intro i hi
    obtain ⟨l, hl, hc, hu⟩ := hlat i hi
    have hfi := (firstOp_spec rots i hi).1
    have hsl : (subVec (trans.getD i []) (trans.getD (firstOp rots i) [])).length = 3 := by
      rw [subVec_length, htrans _ (getD_mem _ _ _ (hn ▸ hi)),
        htrans _ (getD_mem _ _ _ (by omega))]; rfl
    refine ⟨l, filter_range_eq_singleton _ _ l hl ?_ ?_⟩
    · exact (sameSite_iff_cong S _ _ ((pureTranslations_length rots trans htrans l hl).trans hsl.symm)).mpr hc
    · intro l' hl' hs
      exact hu l' hl'
        ((sameSite_iff_cong S _ _ ((pureTranslations_length rots trans htrans l' hl').trans hsl.symm)).mp hs)

/-- B4 with the lattice-translation hypothesis stated on the operations themselves: for every i there is EXACTLY ONE
    operation k of the list with identity rotation and `t_k ≡ t_i − t_first(i)` (mod S). -/
theorem sgPermutations_represents_every_operation_ops (S : Int) (ps : List (List Int))
    (rots : List (List (List Int))) (trans : List (List Int))
    (hps : ∀ p ∈ ps, p.length = 3) (hrots : ∀ R ∈ rots, R.length = 3) (htrans : ∀ t ∈ trans, t.length = 3)
    (hn : rots.length = trans.length)
    (hd : positionsDistinct S ps = true)
    (hinto : ∀ i, i < rots.length → ∀ a, a < ps.length → ∃ b, b < ps.length ∧
      Cong S (ps.getD b []) (applyOp S (rots.getD i []) (trans.getD i []) (ps.getD a [])))
    (honto : ∀ i, i < rots.length → ∀ b, b < ps.length → ∃ a, a < ps.length ∧
      Cong S (ps.getD b []) (applyOp S (rots.getD i []) (trans.getD i []) (ps.getD a [])))
    (hlat : ∀ i, i < rots.length → ∃ k, k < rots.length ∧ isIdentity (rots.getD k []) = true ∧
      Cong S (trans.getD k []) (subVec (trans.getD i []) (trans.getD (firstOp rots i) [])) ∧
      ∀ k', k' < rots.length → isIdentity (rots.getD k' []) = true →
        Cong S (trans.getD k' []) (subVec (trans.getD i []) (trans.getD (firstOp rots i) [])) → k' = k) :
    ∃ out, sgPermutations S ps rots trans = some out ∧ out.length = rots.length ∧
      ∀ i, i < rots.length → (out.getD i []).Perm (List.range ps.length) ∧
        ∀ a, a < ps.length → Cong S (ps.getD ((out.getD i []).getD a 0) [])
          (applyOp S (rots.getD i []) (trans.getD i []) (ps.getD a [])) := by
  apply sgPermutations_represents_every_operation S ps rots trans hps hrots htrans hn hd hinto honto
  intro i hi
  have hfi := (firstOp_spec rots i hi).1
  apply unique_pure_of_unique_op S rots trans htrans hn _ _ (hlat i hi)
  rw [subVec_length, htrans _ (getD_mem _ _ _ (hn ▸ hi)), htrans _ (getD_mem _ _ _ (by omega))]; rfl

/-! ## B5 -/

/-- B5, with the composition given as an identity of maps on the positions (mod S) -/
theorem homomorphism_of_map (S : Int) (ps : List (List Int))
    (rots : List (List (List Int))) (trans : List (List Int))
    (hps : ∀ p ∈ ps, p.length = 3) (hrots : ∀ R ∈ rots, R.length = 3) (htrans : ∀ t ∈ trans, t.length = 3)
    (hn : rots.length = trans.length)
    (hd : positionsDistinct S ps = true)
    (hinto : ∀ i, i < rots.length → ∀ a, a < ps.length → ∃ b, b < ps.length ∧
      Cong S (ps.getD b []) (applyOp S (rots.getD i []) (trans.getD i []) (ps.getD a [])))
    (honto : ∀ i, i < rots.length → ∀ b, b < ps.length → ∃ a, a < ps.length ∧
      Cong S (ps.getD b []) (applyOp S (rots.getD i []) (trans.getD i []) (ps.getD a [])))
    (hlat : ∀ i, i < rots.length → ∃ l, l < (pureTranslations rots trans).length ∧
      Cong S ((pureTranslations rots trans).getD l [])
        (subVec (trans.getD i []) (trans.getD (firstOp rots i) [])) ∧
      ∀ l', l' < (pureTranslations rots trans).length →
        Cong S ((pureTranslations rots trans).getD l' [])
          (subVec (trans.getD i []) (trans.getD (firstOp rots i) [])) → l' = l)
    (out : List (List Nat)) (hout : sgPermutations S ps rots trans = some out)
    (i j k : Nat) (hi : i < rots.length) (hj : j < rots.length) (hk : k < rots.length)
    (hcomp : ∀ a, a < ps.length →
      Cong S (applyOp S (rots.getD k []) (trans.getD k []) (ps.getD a []))
        (applyOp S (rots.getD i []) (trans.getD i [])
          (applyOp S (rots.getD j []) (trans.getD j []) (ps.getD a [])))) :
    ∀ a, a < ps.length → (out.getD k []).getD a 0 = (out.getD i []).getD ((out.getD j []).getD a 0) 0 := by
  obtain ⟨out', h1, _, h3⟩ :=
    sgPermutations_represents_every_operation S ps rots trans hps hrots htrans hn hd hinto honto hlat
  rw [hout] at h1
  cases h1
  intro a ha
  obtain ⟨pk, ck⟩ := h3 k hk
  obtain ⟨pi, ci⟩ := h3 i hi
  obtain ⟨pj, cj⟩ := h3 j hj
  have hb := getD_lt_of_perm pj a ha
  have hc := getD_lt_of_perm pi _ hb
  apply distinct_cong hd (getD_lt_of_perm pk a ha) hc
  refine (ck a ha).trans ((hcomp a ha).trans ?_)
  exact ((ci _ hb).trans (applyOp_cong S _ _ _ _ (cj a ha))).symm

/-- product of two 3×3 integer matrices given as lists of rows -/
def matMul3 (A B : List (List Int)) : List (List Int) :=
  A.map (fun row => (List.range 3).map (fun c => dotInt row (B.map (fun brow => brow.getD c 0))))

theorem vec3 (x : List Int) (h : x.length = 3) : ∃ a b c, x = [a, b, c] := by
  match x, h with
  | [a, b, c], _ => exact ⟨a, b, c, rfl⟩

theorem mat3 (R : List (List Int)) (h : R.length = 3) (hr : ∀ row ∈ R, row.length = 3) :
    ∃ a b c d e f g h i : Int, R = [[a, b, c], [d, e, f], [g, h, i]] := by
  match R, h with
  | [r0, r1, r2], _ =>
    obtain ⟨a, b, c, rfl⟩ := vec3 r0 (hr _ (by simp))
    obtain ⟨d, e, f, rfl⟩ := vec3 r1 (hr _ (by simp))
    obtain ⟨g, h, i, rfl⟩ := vec3 r2 (hr _ (by simp))
    exact ⟨a, b, c, d, e, f, g, h, i, rfl⟩

/-- `(R_i, t_i) ∘ (R_j, t_j) = (R_i R_j, R_i t_j + t_i)` for 3×3 matrices, modulo S in the translation -/
theorem applyOp_comp (S : Int) (Ri Rj : List (List Int)) (ti tj tk x : List Int)
    (hRi : Ri.length = 3) (hRi' : ∀ row ∈ Ri, row.length = 3)
    (hRj : Rj.length = 3) (hRj' : ∀ row ∈ Rj, row.length = 3)
    (hti : ti.length = 3) (htj : tj.length = 3) (hx : x.length = 3)
    (ht : Cong S tk (applyOp S Ri ti tj)) :
    Cong S (applyOp S (matMul3 Ri Rj) tk x) (applyOp S Ri ti (applyOp S Rj tj x)) := by
  obtain ⟨a0, a1, a2, a3, a4, a5, a6, a7, a8, rfl⟩ := mat3 Ri hRi hRi'
  obtain ⟨b0, b1, b2, b3, b4, b5, b6, b7, b8, rfl⟩ := mat3 Rj hRj hRj'
  obtain ⟨u0, u1, u2, rfl⟩ := vec3 ti hti
  obtain ⟨v0, v1, v2, rfl⟩ := vec3 tj htj
  obtain ⟨x0, x1, x2, rfl⟩ := vec3 x hx
  have htk : tk.length = 3 := by rw [ht.length_eq]; simp [applyOp]
  obtain ⟨w0, w1, w2, rfl⟩ := vec3 tk htk
  simp only [Cong, applyOp, dotInt, roundPos, matMul3, List.zip_cons_cons, List.zip_nil_right, List.map_cons,
    List.map_nil, List.sum_cons, List.sum_nil, List.cons.injEq, and_true, wrapHalf_eq_iff,
    List.range_succ, List.range_zero, List.nil_append, List.cons_append, List.getD_cons_zero,
    List.getD_cons_succ] at ht ⊢
  obtain ⟨h0, h1, h2⟩ := ht
  refine ⟨?_, ?_, ?_⟩
  · rw [← h0]; congr 1; grind
  · rw [← h1]; congr 1; grind
  · rw [← h2]; congr 1; grind

/-- B5. Under the hypotheses of B4 (plus: rows of the rotation matrices have length 3), if operation k is the
    composition of operations i and j, `R_k = R_i R_j` and `t_k ≡ R_i t_j + t_i (mod S)`, then
    `out[k][a] = out[i][out[j][a]]` for every atom a. -/
theorem homomorphism (S : Int) (ps : List (List Int))
    (rots : List (List (List Int))) (trans : List (List Int))
    (hps : ∀ p ∈ ps, p.length = 3) (hrots : ∀ R ∈ rots, R.length = 3)
    (hrows : ∀ R ∈ rots, ∀ row ∈ R, row.length = 3) (htrans : ∀ t ∈ trans, t.length = 3)
    (hn : rots.length = trans.length)
    (hd : positionsDistinct S ps = true)
    (hinto : ∀ i, i < rots.length → ∀ a, a < ps.length → ∃ b, b < ps.length ∧
      Cong S (ps.getD b []) (applyOp S (rots.getD i []) (trans.getD i []) (ps.getD a [])))
    (honto : ∀ i, i < rots.length → ∀ b, b < ps.length → ∃ a, a < ps.length ∧
      Cong S (ps.getD b []) (applyOp S (rots.getD i []) (trans.getD i []) (ps.getD a [])))
    (hlat : ∀ i, i < rots.length → ∃ l, l < (pureTranslations rots trans).length ∧
      Cong S ((pureTranslations rots trans).getD l [])
        (subVec (trans.getD i []) (trans.getD (firstOp rots i) [])) ∧
      ∀ l', l' < (pureTranslations rots trans).length →
        Cong S ((pureTranslations rots trans).getD l' [])
          (subVec (trans.getD i []) (trans.getD (firstOp rots i) [])) → l' = l)
    (out : List (List Nat)) (hout : sgPermutations S ps rots trans = some out)
    (i j k : Nat) (hi : i < rots.length) (hj : j < rots.length) (hk : k < rots.length)
    (hR : rots.getD k [] = matMul3 (rots.getD i []) (rots.getD j []))
    (ht : Cong S (trans.getD k []) (applyOp S (rots.getD i []) (trans.getD i []) (trans.getD j []))) :
    ∀ a, a < ps.length → (out.getD k []).getD a 0 = (out.getD i []).getD ((out.getD j []).getD a 0) 0 := by
  apply homomorphism_of_map S ps rots trans hps hrots htrans hn hd hinto honto hlat out hout i j k hi hj hk
  intro a ha
  rw [hR]
  have hmi := getD_mem rots [] i hi
  have hmj := getD_mem rots [] j hj
  exact applyOp_comp S _ _ _ _ _ _ (hrots _ hmi) (hrows _ hmi) (hrots _ hmj) (hrows _ hmj)
    (htrans _ (getD_mem _ _ _ (hn ▸ hi))) (htrans _ (getD_mem _ _ _ (hn ▸ hj)))
    (getD_length_of_forall hps a ha) ht

/-! ## B6: non-vacuity (N = 4, S = 8: two lattice points (0,0,0), (1/2,0,0) × two basis atoms (0,0,0), (1/8,1/4,3/8);
    operations: identity, the lattice translation (1/2,0,0), the inversion through the midpoint of the two basis
    atoms `x ↦ −x + (1/8,1/4,3/8)`, and its product with the translation) -/

def demoPs : List (List Int) := [[0, 0, 0], [4, 0, 0], [1, 2, 3], [5, 2, 3]]
def demoRots : List (List (List Int)) :=
  [[[1, 0, 0], [0, 1, 0], [0, 0, 1]], [[1, 0, 0], [0, 1, 0], [0, 0, 1]],
   [[-1, 0, 0], [0, -1, 0], [0, 0, -1]], [[-1, 0, 0], [0, -1, 0], [0, 0, -1]]]
def demoTrans : List (List Int) := [[0, 0, 0], [4, 0, 0], [1, 2, 3], [5, 2, 3]]

theorem demo_eval :
    sgPermutations 8 demoPs demoRots demoTrans = some [[0, 1, 2, 3], [1, 0, 3, 2], [2, 3, 0, 1], [3, 2, 1, 0]] := by
  decide +kernel

/-- all hypotheses of B4 (and the extra row-length hypothesis of B5) hold for the demo structure -/
theorem demo_hypotheses :
    (∀ p ∈ demoPs, p.length = 3) ∧ (∀ R ∈ demoRots, R.length = 3) ∧
    (∀ R ∈ demoRots, ∀ row ∈ R, row.length = 3) ∧ (∀ t ∈ demoTrans, t.length = 3) ∧
    demoRots.length = demoTrans.length ∧
    positionsDistinct 8 demoPs = true ∧
    (∀ i, i < demoRots.length → ∀ a, a < demoPs.length → ∃ b, b < demoPs.length ∧
      Cong 8 (demoPs.getD b []) (applyOp 8 (demoRots.getD i []) (demoTrans.getD i []) (demoPs.getD a []))) ∧
    (∀ i, i < demoRots.length → ∀ b, b < demoPs.length → ∃ a, a < demoPs.length ∧
      Cong 8 (demoPs.getD b []) (applyOp 8 (demoRots.getD i []) (demoTrans.getD i []) (demoPs.getD a []))) ∧
    (∀ i, i < demoRots.length → ∃ l, l < (pureTranslations demoRots demoTrans).length ∧
      Cong 8 ((pureTranslations demoRots demoTrans).getD l [])
        (subVec (demoTrans.getD i []) (demoTrans.getD (firstOp demoRots i) [])) ∧
      ∀ l', l' < (pureTranslations demoRots demoTrans).length →
        Cong 8 ((pureTranslations demoRots demoTrans).getD l' [])
          (subVec (demoTrans.getD i []) (demoTrans.getD (firstOp demoRots i) [])) → l' = l) := by
  refine ⟨by decide, by decide, by decide, by decide, by decide, by decide +kernel, ?_, ?_, ?_⟩
  · decide +kernel
  · decide +kernel
  · decide +kernel

/-- B4 and B5 applied to the demo: the conclusion is not vacuous -/
theorem demo_conclusion :
    ∃ out, sgPermutations 8 demoPs demoRots demoTrans = some out ∧ out.length = 4 ∧
      (∀ i, i < 4 → (out.getD i []).Perm (List.range 4) ∧
        ∀ a, a < 4 → Cong 8 (demoPs.getD ((out.getD i []).getD a 0) [])
          (applyOp 8 (demoRots.getD i []) (demoTrans.getD i []) (demoPs.getD a []))) ∧
      -- operation 3 = operation 1 ∘ operation 2
      ∀ a, a < 4 → (out.getD 3 []).getD a 0 = (out.getD 1 []).getD ((out.getD 2 []).getD a 0) 0 := by
  obtain ⟨h1, h2, h2', h3, h4, h5, h6, h7, h8⟩ := demo_hypotheses
  obtain ⟨out, ho, hl, hc⟩ :=
    sgPermutations_represents_every_operation 8 demoPs demoRots demoTrans h1 h2 h3 h4 h5 h6 h7 h8
  refine ⟨out, ho, hl, hc, ?_⟩
  exact homomorphism 8 demoPs demoRots demoTrans h1 h2 h2' h3 h4 h5 h6 h7 h8 out ho 1 2 3
    (by decide) (by decide) (by decide) (by decide) (by decide +kernel)

/-! ## the vacuous `assert len(lat_trans_idx) == 1`: what happens when `hlat` fails (checked against the real code) -/

/-- a duplicated pure translation (two matches, N = 4): the fancy indexing raises IndexError, model `none` -/
example : sgPermutations 8 demoPs
    [[[1, 0, 0], [0, 1, 0], [0, 0, 1]], [[1, 0, 0], [0, 1, 0], [0, 0, 1]]] [[0, 0, 0], [8, 0, 0]] = none := by
  decide +kernel

/-- FINDING: with exactly N matches (here N = 2 atoms, the identity listed twice mod S) numpy zips the two index
    arrays and the real code returns a well-formed table — the model follows it (`outRow`, second branch) -/
example : sgPermutations 8 [[0, 0, 0], [4, 0, 0]]
    [[[1, 0, 0], [0, 1, 0], [0, 0, 1]], [[1, 0, 0], [0, 1, 0], [0, 0, 1]]] [[0, 0, 0], [8, 0, 0]] =
    some [[0, 1], [0, 1]] := by
  decide +kernel

/-- no pure translation ≡ t_i − t_first(i) (the identity is missing): IndexError, model `none` -/
example : sgPermutations 8 [[0, 0, 0], [4, 0, 0]]
    [[[1, 0, 0], [0, 1, 0], [0, 0, 1]], [[1, 0, 0], [0, 1, 0], [0, 0, 1]]] [[4, 0, 0], [12, 0, 0]] = none := by
  decide +kernel

end Symfc.SgPermFull
