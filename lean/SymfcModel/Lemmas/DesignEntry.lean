/-
  Lemmas/DesignEntry.lean — (D1) the operational design block equals the Taylor-expansion spec.
-/
import SymfcModel.Lemmas.DesignSum
import SymfcModel.Lemmas.DesignIdx
namespace Symfc

/-- coefficient of column `x` in a sparse row (as written in `designEntrySpec`) -/
def coefOf (L : List (Nat × Int)) (x : Nat) : Int :=
  L.foldl (fun s (col, v) => if col == x then s + v else s) 0

theorem coefOf_eq_lsum (L : List (Nat × Int)) (x : Nat) :
    coefOf L x = lsum L (fun cv => if cv.1 = x then cv.2 else 0) := by
  have gen : ∀ z : Int, L.foldl (fun s (cv : Nat × Int) => if cv.1 == x then s + cv.2 else s) z
      = z + lsum L (fun cv => if cv.1 = x then cv.2 else 0) := by
    induction L with
    | nil => intro z; simp
    | cons a L ih =>
      intro z
      simp only [List.foldl_cons, lsum_cons, ih]
      by_cases e : a.1 = x
      · simp [e]; omega
      · simp [e]
  have := gen 0
  simp only [Int.zero_add] at this
  exact this

theorem lsum_coef (L : List (Nat × Int)) (x : Nat) (d c6 : Int) :
    lsum L (fun cv => if cv.1 = x then d * (c6 * cv.2) else 0) = c6 * coefOf L x * d := by
  rw [coefOf_eq_lsum, Int.mul_comm (c6 * _) d, ← Int.mul_assoc, ← lsum_mul_left]
  apply lsum_congr
  intro cv _
  by_cases e : cv.1 = x
  · simp [e, Int.mul_assoc]
  · simp [e]

/-- the COO entries in explicit (projection) form -/
theorem comprEntries_eq (c : Cell) (od : OrderData) (bi ei : Nat) :
    comprEntries c od bi ei =
      (List.range ((ei - bi) * c.N ^ (od.k - 1))).flatMap (fun q =>
        (List.range (3 ^ od.k)).flatMap (fun x =>
          (od.cc.getD ((c.atomicDecompr od.k).getD (bi * c.N ^ (od.k - 1) + q) 0 * 3 ^ od.k + x) []).map
            (fun cv => ((od.chain.run c.N od.nx (q * 3 ^ od.k + x) cv.1).1,
                        (od.chain.run c.N od.nx (q * 3 ^ od.k + x) cv.1).2, od.const6 * cv.2)))) := rfl

/-- pure summation step: a sum over compact rows `(il', rest | a', xr)` whose terms vanish outside
    the block `(il, a)` collapses to the sum over `(rest, xr)` -/
theorem rsum_collapse (n nk d3 il a : Nat) (hil : il < n) (ha : a < 3) (G : Nat → Int)
    (inner : Nat → Nat → Int)
    (key : ∀ il', il' < n → ∀ rest, rest < nk → ∀ a', a' < 3 → ∀ xr, xr < d3 →
      inner (il' * nk + rest) (a' * d3 + xr) = if il' = il ∧ a' = a then G (rest * d3 + xr) else 0) :
    rsum (n * nk) (fun q => rsum (3 * d3) (fun xx => inner q xx)) = rsum (nk * d3) G := by
  rw [rsum_mul, rsum_mul nk d3]
  rw [rsum_single il hil]
  · apply rsum_congr
    intro rest hrest
    rw [rsum_mul, rsum_single a ha]
    · apply rsum_congr
      intro xr hxr
      rw [key il hil rest hrest a ha xr hxr]; simp
    · intro a' ha' hne
      apply rsum_eq_zero
      intro xr hxr
      rw [key il hil rest hrest a' ha' xr hxr]; simp [hne]
  · intro il' hil' hne
    apply rsum_eq_zero
    intro rest hrest
    rw [rsum_mul]
    apply rsum_eq_zero
    intro a' ha'
    apply rsum_eq_zero
    intro xr hxr
    rw [key il' hil' rest hrest a' ha' xr hxr]; simp [hne]

/-- Taylor term of the compact entries `t = rest · 3^deg + xr` for atom `i`, component `a`, column `x` -/
def opTerm (c : Cell) (od : OrderData) (u : Array Int) (i a x deg t : Nat) : Int :=
  od.const6 *
    coefOf (od.cc.getD ((c.atomicDecompr od.k).getD (i * c.N ^ deg + t / 3 ^ deg) 0 * 3 ^ od.k
      + (a * 3 ^ deg + t % 3 ^ deg)) []) x *
    dispPow u (3 * c.N) deg (hIdx c.N deg t)

theorem designEntrySpec_eq_rsum (c : Cell) (od : OrderData) (u : Array Int) (i a x deg : Nat)
    (hk : od.k = deg + 1) (hN : 0 < c.N) :
    designEntrySpec c od u i a x
      = rsum ((3 * c.N) ^ deg) (fun idx => opTerm c od u i a x deg (gIdx c.N deg idx)) := by
  have hd : od.k - 1 = deg := by omega
  unfold designEntrySpec
  simp only [hd]
  rw [foldl_add_eq_lsum, Int.zero_add]
  apply rsum_congr
  intro idx hidx
  obtain ⟨h1, h2⟩ := gIdx_parts (N := c.N) (deg := deg) (idx := idx) hN
  have e := divmod_of_lt (q := flat c.N ((unflat (3 * c.N) deg idx).map (· / 3))) h2
  unfold opTerm
  rw [hIdx_gIdx hN hidx]
  unfold gIdx
  rw [e.1, e.2, flat_cons, flat_cons]
  simp only [List.length_map, unflat_length]
  rfl

/-- hypotheses on one order shared by D1–D3 -/
structure OrderOK (c : Cell) (od : OrderData) : Prop where
  hk   : od.k = 2 ∨ od.k = 3 ∨ od.k = 4
  hch  : od.chain = chainFor od.k
  hcol : ∀ row, ∀ cv ∈ od.cc.getD row [], cv.1 < od.nx

/-- the dense row accumulated by `designBlockOp` for one snapshot -/
def denseRow (c : Cell) (od : OrderData) (u : Array Int) (bi ei : Nat) : Array Int :=
  (comprEntries c od bi ei).foldl (fun (acc : Array Int) (r', c', v) =>
      acc.modify c' (· + dispPow u (3 * c.N) (od.k - 1) r' * v))
    (Array.replicate ((ei - bi) * 3 * od.nx) 0)

theorem denseRow_size (c : Cell) (od : OrderData) (u : Array Int) (bi ei : Nat) :
    (denseRow c od u bi ei).size = (ei - bi) * 3 * od.nx := by
  unfold denseRow
  rw [show (fun (acc : Array Int) (x : Nat × Nat × Int) =>
        match x with
        | (r', c', v) => acc.modify c' (· + dispPow u (3 * c.N) (od.k - 1) r' * v))
      = (fun acc e => acc.modify e.2.1 (· + dispPow u (3 * c.N) (od.k - 1) e.1 * e.2.2)) from rfl]
  rw [foldl_modify_size]; simp

theorem block_col_iff {nx il il' a a' col x : Nat} (ha : a < 3) (ha' : a' < 3) (hcol : col < nx)
    (hx : x < nx) :
    col + (3 * il' + a') * nx = (il * 3 + a) * nx + x ↔ (il' = il ∧ a' = a) ∧ col = x := by
  constructor
  · intro h
    have := mul_add_inj (P := nx) (a := 3 * il' + a') (b := il * 3 + a) hcol hx (by omega)
    omega
  · rintro ⟨⟨rfl, rfl⟩, rfl⟩
    rw [Nat.mul_comm 3 il']; omega

theorem denseRow_getD (c : Cell) (od : OrderData) (hod : OrderOK c od) (u : Array Int)
    (bi ei il a x : Nat) (hN : 0 < c.N) (hil : il < ei - bi) (ha : a < 3) (hx : x < od.nx) :
    (denseRow c od u bi ei).getD ((il * 3 + a) * od.nx + x) 0
      = designEntrySpec c od u (bi + il) a x := by
  obtain ⟨deg, hk⟩ : ∃ deg, od.k = deg + 1 := ⟨od.k - 1, by have := hod.hk; omega⟩
  have hd : od.k - 1 = deg := by omega
  have hch : ChainOK od.chain od.k := by rw [hod.hch]; exact chainOK_for hod.hk
  have hM : (il * 3 + a) * od.nx + x < (ei - bi) * 3 * od.nx :=
    digit_lt (j := il * 3 + a) (N := (ei - bi) * 3) (by omega) hx
  unfold denseRow
  rw [show (fun (acc : Array Int) (x : Nat × Nat × Int) =>
        match x with
        | (r', c', v) => acc.modify c' (· + dispPow u (3 * c.N) (od.k - 1) r' * v))
      = (fun acc e => acc.modify e.2.1 (· + dispPow u (3 * c.N) (od.k - 1) e.1 * e.2.2)) from rfl]
  rw [foldl_modify_getD _ _ _ _ _ (by simpa using hM)]
  have h0 : (Array.replicate ((ei - bi) * 3 * od.nx) (0 : Int)).getD ((il * 3 + a) * od.nx + x) 0 = 0 := by
    simp [Array.getD_eq_getD_getElem?, hM]
  rw [h0, Int.zero_add, comprEntries_eq, lsum_flatMap]
  simp only [lsum_flatMap, lsum_map, hd]
  rw [designEntrySpec_eq_rsum c od u (bi + il) a x deg hk hN,
    rsum_bij (gIdx c.N deg) (hIdx c.N deg) _ (fun _ _ => gIdx_lt hN) (fun _ _ => hIdx_lt hN)
      (fun _ h => hIdx_gIdx hN h) (fun _ h => gIdx_hIdx hN h)]
  have h3k : 3 ^ od.k = 3 * 3 ^ deg := by rw [hk, Nat.pow_succ, Nat.mul_comm]
  rw [h3k]
  apply rsum_collapse (ei - bi) (c.N ^ deg) (3 ^ deg) il a hil ha
  intro il' hil' rest hrest a' ha' xr hxr
  have hrun : ∀ col, od.chain.run c.N od.nx
      ((il' * c.N ^ deg + rest) * (3 * 3 ^ deg) + (a' * 3 ^ deg + xr)) col
        = (hIdx c.N deg (rest * 3 ^ deg + xr), col + (3 * il' + a') * od.nx) := by
    intro col
    rw [← h3k]
    exact chain_apply hch hk hN od.nx il' a' col rest xr hrest hxr ha'
  have e := divmod_of_lt (q := rest) hxr
  by_cases hb : il' = il ∧ a' = a
  · obtain ⟨rfl, rfl⟩ := hb
    simp only [and_self, if_true]
    unfold opTerm
    rw [e.1, e.2, ← lsum_coef, h3k]
    have hidx : bi * c.N ^ deg + (il' * c.N ^ deg + rest) = (bi + il') * c.N ^ deg + rest := by
      rw [Nat.add_mul]; omega
    rw [hidx]
    apply lsum_congr
    intro cv hcv
    have hc := hod.hcol _ cv hcv
    rw [hrun]
    simp only [block_col_iff ha ha hc hx, and_self, true_and]
  · rw [if_neg hb]
    apply lsum_eq_zero
    intro cv hcv
    have hc := hod.hcol _ cv hcv
    rw [hrun]
    simp only [block_col_iff ha ha' hc hx, hb, false_and, if_false]

/-! ### the block as a list of rows -/

theorem designBlockOp_eq (c : Cell) (od : OrderData) (us : List (Array Int)) (bi ei : Nat) :
    designBlockOp c od us bi ei = (us.flatMap (fun u => (List.range ((ei - bi) * 3)).map (fun m =>
      (denseRow c od u bi ei).extract (m * od.nx) ((m + 1) * od.nx)))).toArray := rfl

theorem designBlockOp_size (c : Cell) (od : OrderData) (us : List (Array Int)) (bi ei : Nat) :
    (designBlockOp c od us bi ei).size = us.length * (ei - bi) * 3 := by
  rw [designBlockOp_eq, List.size_toArray,
    length_flatMap_uniform _ ((ei - bi) * 3) us (by intro u _; simp), Nat.mul_assoc]

theorem designBlockOp_row (c : Cell) (od : OrderData) (us : List (Array Int)) (bi ei s m : Nat)
    (hs : s < us.length) (hm : m < (ei - bi) * 3) :
    (designBlockOp c od us bi ei).getD (s * ((ei - bi) * 3) + m) #[]
      = (denseRow c od (us.getD s #[]) bi ei).extract (m * od.nx) ((m + 1) * od.nx) := by
  rw [designBlockOp_eq, Array.getD_eq_getD_getElem?, List.getElem?_toArray,
    getElem?_flatMap_uniform _ ((ei - bi) * 3) us (by intro u _; simp) s m hs hm]
  simp [hm, hs]

theorem designBlockOp_row_size (c : Cell) (od : OrderData) (us : List (Array Int))
    (bi ei s m : Nat) (hs : s < us.length) (hm : m < (ei - bi) * 3) :
    ((designBlockOp c od us bi ei).getD (s * ((ei - bi) * 3) + m) #[]).size = od.nx := by
  rw [designBlockOp_row c od us bi ei s m hs hm, Array.size_extract, denseRow_size]
  have : (m + 1) * od.nx ≤ (ei - bi) * 3 * od.nx := Nat.mul_le_mul_right _ hm
  rw [Nat.min_eq_left this, Nat.add_mul]; omega

/-- **(D1)** entry-level equality of the operational design block and the Taylor spec. -/
theorem designBlockOp_entry (c : Cell) (od : OrderData) (hod : OrderOK c od)
    (us : List (Array Int)) (bi ei : Nat) (hN : 0 < c.N)
    (s il a x : Nat) (hs : s < us.length) (hil : il < ei - bi) (ha : a < 3) (hx : x < od.nx) :
    ((designBlockOp c od us bi ei).getD (s * ((ei - bi) * 3) + il * 3 + a) #[]).getD x 0
      = designEntrySpec c od (us.getD s #[]) (bi + il) a x := by
  have hm : il * 3 + a < (ei - bi) * 3 := by omega
  rw [Nat.add_assoc, designBlockOp_row c od us bi ei s _ hs hm,
    ← denseRow_getD c od hod (us.getD s #[]) bi ei il a x hN hil ha hx]
  have : (il * 3 + a + 1) * od.nx ≤ (ei - bi) * 3 * od.nx := Nat.mul_le_mul_right _ hm
  simp only [Array.getD_eq_getD_getElem?, Array.getElem?_extract, denseRow_size]
  have h1 : x < min ((il * 3 + a + 1) * od.nx) ((ei - bi) * 3 * od.nx) - (il * 3 + a) * od.nx := by
    rw [Nat.min_eq_left this, Nat.add_mul]; omega
  rw [if_pos h1]

/-- **(D1)** packaged with the shape of the block -/
theorem designBlockOp_spec (c : Cell) (od : OrderData) (hod : OrderOK c od)
    (us : List (Array Int)) (bi ei : Nat) (hN : 0 < c.N) :
    (designBlockOp c od us bi ei).size = us.length * (ei - bi) * 3 ∧
    ∀ s il a, s < us.length → il < ei - bi → a < 3 →
      ((designBlockOp c od us bi ei).getD (s * ((ei - bi) * 3) + il * 3 + a) #[]).size = od.nx ∧
      ∀ x, x < od.nx →
        ((designBlockOp c od us bi ei).getD (s * ((ei - bi) * 3) + il * 3 + a) #[]).getD x 0
          = designEntrySpec c od (us.getD s #[]) (bi + il) a x := by
  refine ⟨designBlockOp_size c od us bi ei, ?_⟩
  intro s il a hs hil ha
  refine ⟨?_, fun x hx => designBlockOp_entry c od hod us bi ei hN s il a x hs hil ha hx⟩
  rw [Nat.add_assoc]
  exact designBlockOp_row_size c od us bi ei s _ hs (by omega)

end Symfc
