/-
  Lemmas/SgPerm.lean — the fast path of `compute_sg_permutations` (Model/SgPerm.lean).
  (P1 wrapHalf, P2 lexLt, P3 argsortBy are in Lemmas/SgPermOrder.lean.)

  P4  `fastTransPerm_perm` (length N, permutation of range N), `fastTransPerm_spec` (atom i goes to an atom at the
      wrapped translated position) — both WITHOUT any hypothesis on S, lengths or distinctness;
      `fastTransPerm_unique` (with `positionsDistinct`: it is THE atom); `fastTransPerm_correct` = the task's form;
      `fastTransPerm_spec_coord` coordinate-wise residues (needs the common length).
  P5  `sorted_keys_eq_of_symmetry`, `fastTransPerm_complete` (= some σ), `fastTransPerm_complete_coord`.
  P6  `composeOut_represents`, `composeOut_perm`, `composeOut_fastTransPerm`.
  Finding: the model's `argsortBy` is anti-stable, not stable (`argsortBy_antistable` in SgPermOrder.lean);
  harmless for the fast path, whose theorems do not use stability.
-/
import SymfcModel.Lemmas.SgPermOrder
namespace Symfc

/-! ## list helpers -/

/-- looking up the k-th entry of a duplicate-free list in a zip returns the k-th pair -/
theorem find_zip_nodup (l m : List Nat) (hlen : l.length = m.length) (hnd : l.Nodup)
    (k : Nat) (hk : k < l.length) :
    (l.zip m).find? (fun (a, _) => a == l[k]) = some (l[k], m[k]'(hlen ▸ hk)) := by
  induction l generalizing m k with
  | nil => simp at hk
  | cons a as ih =>
    cases m with
    | nil => simp at hlen
    | cons b bs =>
      rw [List.nodup_cons] at hnd
      cases k with
      | zero => simp
      | succ k =>
        have hk' : k < as.length := by simpa using hk
        have hne : a ≠ as[k] := fun h => hnd.1 (h ▸ List.getElem_mem hk')
        simp only [List.zip_cons_cons, List.find?, List.getElem_cons_succ]
        have : (a == as[k]) = false := by simpa using hne
        rw [this]
        exact ih bs (by simpa using hlen) hnd.2 k hk'

theorem map_getD_range (l : List Nat) (d : Nat) :
    (List.range l.length).map (fun i => l.getD i d) = l := by
  apply List.ext_getElem
  · simp
  · intro i h1 h2
    simp [List.getD_eq_getElem?_getD, List.getElem?_eq_getElem h2]

/-! ## the fast path, unfolded -/

/-- the translated position `p + t` (as the code computes it; `zip` truncates to the shorter list) -/
def transPos (t p : List Int) : List Int := (p.zip t).map (fun (a, b) => a + b)

/-- sort key of atom i -/
def keyOf (S : Int) (ps : List (List Int)) (i : Nat) : List Int := roundPos S (ps.getD i [])

/-- the assignment loop `tp[tids[k]] = ids[k]` -/
def assignPerm (ids tids : List Nat) (N : Nat) : List Nat :=
  (List.range N).map (fun i =>
    match (tids.zip ids).find? (fun (a, _) => a == i) with
    | some (_, b) => b
    | none => N)

theorem fastTransPerm_eq (S : Int) (ps : List (List Int)) (t : List Int) :
    fastTransPerm S ps t =
      if (argsortPos S ps).map (keyOf S ps) == (argsortPos S (ps.map (transPos t))).map (keyOf S (ps.map (transPos t)))
      then some (assignPerm (argsortPos S ps) (argsortPos S (ps.map (transPos t))) ps.length)
      else none := rfl

theorem keyOf_trans (S : Int) (ps : List (List Int)) (t : List Int) (i : Nat) (hi : i < ps.length) :
    keyOf S (ps.map (transPos t)) i = roundPos S (transPos t (ps.getD i [])) := by
  simp [keyOf, List.getD_eq_getElem?_getD, List.getElem?_eq_getElem hi]

theorem assignPerm_length (ids tids : List Nat) (N : Nat) : (assignPerm ids tids N).length = N := by
  simp [assignPerm]

theorem assignPerm_getD (ids tids : List Nat) (N : Nat) (hlen : tids.length = ids.length)
    (hnd : tids.Nodup) (hmem : ∀ x ∈ tids, x < N) (k : Nat) (hk : k < tids.length) (d : Nat) :
    (assignPerm ids tids N).getD (tids[k]) d = ids[k]'(hlen ▸ hk) := by
  have hlt : tids[k] < N := hmem _ (List.getElem_mem hk)
  unfold assignPerm
  rw [List.getD_eq_getElem?_getD, List.getElem?_map, List.getElem?_range hlt]
  simp only [Option.map_some, Option.getD_some]
  rw [find_zip_nodup tids ids hlen hnd k hk]

/-- `tp ∘ tids = ids` -/
theorem assignPerm_comp (ids tids : List Nat) (N : Nat) (hlen : tids.length = ids.length)
    (hnd : tids.Nodup) (hmem : ∀ x ∈ tids, x < N) (d : Nat) :
    tids.map (fun i => (assignPerm ids tids N).getD i d) = ids := by
  apply List.ext_getElem
  · simpa using hlen
  · intro k h1 h2
    have hk : k < tids.length := by simpa using h1
    rw [List.getElem_map]
    exact assignPerm_getD ids tids N hlen hnd hmem k hk d

/-- P4 (i), in general: the assignment of two index sorts is a permutation -/
theorem assignPerm_perm (ids tids : List Nat) (N : Nat)
    (hids : ids.Perm (List.range N)) (htids : tids.Perm (List.range N)) :
    (assignPerm ids tids N).Perm (List.range N) := by
  have hlen : tids.length = ids.length := by rw [hids.length_eq, htids.length_eq]
  have hnd : tids.Nodup := htids.nodup_iff.mpr List.nodup_range
  have hmem : ∀ x ∈ tids, x < N := fun x hx => List.mem_range.mp (htids.mem_iff.mp hx)
  have h1 := assignPerm_comp ids tids N hlen hnd hmem 0
  have h2 : (tids.map (fun i => (assignPerm ids tids N).getD i 0)).Perm
      ((List.range N).map (fun i => (assignPerm ids tids N).getD i 0)) := htids.map _
  have h3 := map_getD_range (assignPerm ids tids N) 0
  rw [assignPerm_length] at h3
  rw [h1, h3] at h2
  exact h2.symm.trans hids

/-! ## P4: fast-path correctness -/

theorem argsortPos_perm (S : Int) (ps : List (List Int)) :
    (argsortPos S ps).Perm (List.range ps.length) := argsortBy_perm _ _

theorem argsortPos_sorted (S : Int) (ps : List (List Int)) :
    (argsortPos S ps).Pairwise (fun i j => lexLt (keyOf S ps j) (keyOf S ps i) = false) :=
  argsortBy_sorted _ _

/-- P4 (i): the result has length N and is a permutation of `range N`
    (no hypothesis on lengths or distinctness is needed) -/
theorem fastTransPerm_perm (S : Int) (ps : List (List Int)) (t : List Int) (tp : List Nat)
    (h : fastTransPerm S ps t = some tp) :
    tp.length = ps.length ∧ tp.Perm (List.range ps.length) := by
  rw [fastTransPerm_eq] at h
  split at h
  · cases h
    refine ⟨assignPerm_length _ _ _, assignPerm_perm _ _ _ (argsortPos_perm S ps) ?_⟩
    have := argsortPos_perm S (ps.map (transPos t))
    simpa using this
  · cases h

/-- P4 (ii): atom i is sent to an atom whose wrapped position is the wrapped translated position of atom i -/
theorem fastTransPerm_spec (S : Int) (ps : List (List Int)) (t : List Int) (tp : List Nat)
    (h : fastTransPerm S ps t = some tp) (i : Nat) (hi : i < ps.length) :
    roundPos S (ps.getD (tp.getD i 0) []) =
      roundPos S (((ps.getD i []).zip t).map (fun (a, b) => a + b)) := by
  rw [fastTransPerm_eq] at h
  split at h
  next heq =>
    cases h
    have heq := eq_of_beq heq
    have htids : (argsortPos S (ps.map (transPos t))).Perm (List.range ps.length) := by
      simpa using argsortPos_perm S (ps.map (transPos t))
    have hids := argsortPos_perm S ps
    generalize argsortPos S (ps.map (transPos t)) = tids at *
    generalize argsortPos S ps = ids at *
    have hlen : tids.length = ids.length := by rw [hids.length_eq, htids.length_eq]
    have hnd : tids.Nodup := htids.nodup_iff.mpr List.nodup_range
    have hmem : ∀ x ∈ tids, x < ps.length := fun x hx => List.mem_range.mp (htids.mem_iff.mp hx)
    obtain ⟨k, hk, rfl⟩ := List.getElem_of_mem (htids.mem_iff.mpr (List.mem_range.mpr hi))
    rw [assignPerm_getD ids tids ps.length hlen hnd hmem k hk 0]
    have h1 : (ids.map (keyOf S ps))[k]'(by simpa using hlen ▸ hk) =
        (tids.map (keyOf S (ps.map (transPos t))))[k]'(by simpa using hk) := by
      simp only [heq]
    rw [List.getElem_map, List.getElem_map, keyOf_trans S ps t _ hi] at h1
    exact h1
  · cases h

/-! ## distinct positions: the target atom is unique -/

theorem positionsDistinct_iff (S : Int) (ps : List (List Int)) :
    positionsDistinct S ps = true ↔
      ∀ i j, i < ps.length → j < ps.length → keyOf S ps i = keyOf S ps j → i = j := by
  unfold positionsDistinct keyOf
  simp only [List.all_eq_true, List.mem_range, Bool.or_eq_true, beq_iff_eq, bne_iff_ne, ne_eq]
  constructor
  · intro h i j hi hj he
    rcases h i hi j hj with h | h
    · exact h
    · exact absurd he h
  · intro h i hi j hj
    by_cases he : roundPos S (ps.getD i []) = roundPos S (ps.getD j [])
    · exact Or.inl (h i j hi hj he)
    · exact Or.inr he

theorem getD_lt_of_perm {l : List Nat} {N : Nat} (h : l.Perm (List.range N)) (i : Nat) (hi : i < N) :
    l.getD i 0 < N := by
  have hl : i < l.length := by rw [h.length_eq, List.length_range]; exact hi
  rw [List.getD_eq_getElem?_getD, List.getElem?_eq_getElem hl, Option.getD_some]
  exact List.mem_range.mp (h.mem_iff.mp (List.getElem_mem hl))

/-- P4, uniqueness: with pairwise distinct wrapped positions, `tp[i]` is THE atom at the wrapped translated
    position of atom i -/
theorem fastTransPerm_unique (S : Int) (ps : List (List Int)) (t : List Int) (tp : List Nat)
    (hd : positionsDistinct S ps = true)
    (h : fastTransPerm S ps t = some tp) (i : Nat) (hi : i < ps.length) (j : Nat) (hj : j < ps.length)
    (hij : roundPos S (ps.getD j []) = roundPos S (((ps.getD i []).zip t).map (fun (a, b) => a + b))) :
    j = tp.getD i 0 := by
  have h1 := fastTransPerm_spec S ps t tp h i hi
  have h2 := getD_lt_of_perm (fastTransPerm_perm S ps t tp h).2 i hi
  exact (positionsDistinct_iff S ps).mp hd j _ hj h2 (hij.trans h1.symm)

/-- P4 as stated in the task (the hypotheses on lengths and distinctness are not needed for (i), (ii)) -/
theorem fastTransPerm_correct (S : Int) (ps : List (List Int)) (t : List Int) (tp : List Nat)
    (_hlen : t.length = 3 ∧ ∀ p ∈ ps, p.length = 3) (_hd : positionsDistinct S ps = true)
    (h : fastTransPerm S ps t = some tp) :
    tp.length = ps.length ∧ tp.Perm (List.range ps.length) ∧
    ∀ i, i < ps.length →
      roundPos S (ps.getD (tp.getD i 0) []) =
        roundPos S (((ps.getD i []).zip t).map (fun (a, b) => a + b)) :=
  ⟨(fastTransPerm_perm S ps t tp h).1, (fastTransPerm_perm S ps t tp h).2, fastTransPerm_spec S ps t tp h⟩

/-! ## P5: completeness -/

/-- if some permutation σ carries every atom to an atom at the wrapped translated position, the two sorted
    coordinate lists coincide (no distinctness needed: `lexLt` is a total order) -/
theorem sorted_keys_eq_of_symmetry (S : Int) (ps : List (List Int)) (t : List Int) (σ : List Nat)
    (hσ : σ.Perm (List.range ps.length))
    (hsym : ∀ i, i < ps.length →
      roundPos S (ps.getD (σ.getD i 0) []) = roundPos S (((ps.getD i []).zip t).map (fun (a, b) => a + b))) :
    (argsortPos S ps).map (keyOf S ps) =
      (argsortPos S (ps.map (transPos t))).map (keyOf S (ps.map (transPos t))) := by
  have htids : (argsortPos S (ps.map (transPos t))).Perm (List.range ps.length) := by
    simpa using argsortPos_perm S (ps.map (transPos t))
  have hids := argsortPos_perm S ps
  have hs1 := argsortPos_sorted S ps
  have hs2 := argsortPos_sorted S (ps.map (transPos t))
  generalize argsortPos S (ps.map (transPos t)) = tids at *
  generalize argsortPos S ps = ids at *
  have hmem : ∀ x ∈ tids, x < ps.length := fun x hx => List.mem_range.mp (htids.mem_iff.mp hx)
  have hk : ∀ x, x < ps.length → keyOf S (ps.map (transPos t)) x = keyOf S ps (σ.getD x 0) := by
    intro x hx
    rw [keyOf_trans S ps t x hx]; exact (hsym x hx).symm
  have e2 : tids.map (keyOf S (ps.map (transPos t))) =
      (tids.map (fun i => σ.getD i 0)).map (keyOf S ps) := by
    rw [List.map_map]
    apply List.map_congr_left
    intro x hx
    exact hk x (hmem x hx)
  rw [e2]
  apply List.Perm.eq_of_pairwise (le := fun a b => lexLt b a = false)
  · intro a b _ _ h1 h2
    exact lexLt_antisymm h2 h1
  · rw [List.pairwise_map]; exact hs1
  · rw [List.pairwise_map, List.pairwise_map]
    refine hs2.imp_of_mem ?_
    intro a b ha hb hab
    rw [hk a (hmem a ha), hk b (hmem b hb)] at hab
    exact hab
  · apply List.Perm.map
    have h3 : (tids.map (fun i => σ.getD i 0)).Perm ((List.range ps.length).map (fun i => σ.getD i 0)) :=
      htids.map _
    have h4 := map_getD_range σ 0
    rw [hσ.length_eq, List.length_range] at h4
    rw [h4] at h3
    exact hids.trans (hσ.symm.trans h3.symm)

/-- P5: if the translation is a symmetry of the set of (pairwise distinct) wrapped positions, realised by the
    permutation σ, the fast path succeeds and returns exactly σ -/
theorem fastTransPerm_complete (S : Int) (ps : List (List Int)) (t : List Int) (σ : List Nat)
    (hd : positionsDistinct S ps = true)
    (hσ : σ.Perm (List.range ps.length))
    (hsym : ∀ i, i < ps.length →
      roundPos S (ps.getD (σ.getD i 0) []) = roundPos S (((ps.getD i []).zip t).map (fun (a, b) => a + b))) :
    fastTransPerm S ps t = some σ := by
  have hkeys := sorted_keys_eq_of_symmetry S ps t σ hσ hsym
  have hsome : fastTransPerm S ps t =
      some (assignPerm (argsortPos S ps) (argsortPos S (ps.map (transPos t))) ps.length) := by
    rw [fastTransPerm_eq, hkeys]; simp
  rw [hsome]
  congr 1
  have hp := fastTransPerm_perm S ps t _ hsome
  apply List.ext_getElem
  · rw [hp.1, hσ.length_eq, List.length_range]
  · intro i h1 h2
    have hi : i < ps.length := by rw [← hp.1]; exact h1
    have h3 := fastTransPerm_unique S ps t _ hd hsome i hi (σ.getD i 0) (getD_lt_of_perm hσ i hi) (hsym i hi)
    rw [List.getD_eq_getElem?_getD, List.getElem?_eq_getElem h2, Option.getD_some,
      List.getD_eq_getElem?_getD, List.getElem?_eq_getElem h1, Option.getD_some] at h3
    exact h3.symm

/-- P5, pointwise form -/
theorem fastTransPerm_complete_getD (S : Int) (ps : List (List Int)) (t : List Int) (σ : List Nat)
    (hd : positionsDistinct S ps = true)
    (hσ : σ.Perm (List.range ps.length))
    (hsym : ∀ i, i < ps.length →
      roundPos S (ps.getD (σ.getD i 0) []) = roundPos S (((ps.getD i []).zip t).map (fun (a, b) => a + b))) :
    ∃ tp, fastTransPerm S ps t = some tp ∧ ∀ i, tp.getD i 0 = σ.getD i 0 :=
  ⟨σ, fastTransPerm_complete S ps t σ hd hσ hsym, fun _ => rfl⟩

/-! ## P6: composition `trans_perms[l][perm]` -/

theorem composeOut_length (tp perm : List Nat) : (composeOut tp perm).length = perm.length := by
  simp [composeOut]

theorem composeOut_getD (tp perm : List Nat) (j : Nat) (hj : j < perm.length)
    (hr : perm.getD j 0 < tp.length) :
    (composeOut tp perm).getD j 0 = tp.getD (perm.getD j 0) 0 := by
  unfold composeOut
  rw [List.getD_eq_getElem?_getD, List.getElem?_map, List.getElem?_eq_getElem hj]
  simp only [Option.map_some, Option.getD_some]
  have e : perm.getD j 0 = perm[j] := by simp [List.getD_eq_getElem?_getD, hj]
  rw [e] at hr ⊢
  simp [List.getD_eq_getElem?_getD, hr]

/-- P6: if `perm` represents g and `tp` represents τ (on the atom locations `loc`), the composed array
    represents "first g, then τ" -/
theorem composeOut_represents {α : Type} (loc : Nat → α) (g τ : α → α) (tp perm : List Nat) (N : Nat)
    (hperm : perm.length = N) (htp : tp.length = N)
    (hrange : ∀ j, j < N → perm.getD j 0 < N)
    (hg : ∀ j, j < N → loc (perm.getD j 0) = g (loc j))
    (hτ : ∀ j, j < N → loc (tp.getD j 0) = τ (loc j)) :
    ∀ j, j < N → loc ((composeOut tp perm).getD j 0) = τ (g (loc j)) := by
  intro j hj
  rw [composeOut_getD tp perm j (hperm ▸ hj) (htp ▸ hrange j hj), hτ _ (hrange j hj), hg j hj]

/-- the composition of two permutations of `range N` is a permutation of `range N` -/
theorem composeOut_perm (tp perm : List Nat) (N : Nat)
    (htp : tp.Perm (List.range N)) (hperm : perm.Perm (List.range N)) :
    (composeOut tp perm).Perm (List.range N) := by
  unfold composeOut
  have h1 : (perm.map (fun j => tp.getD j tp.length)).Perm
      ((List.range N).map (fun j => tp.getD j tp.length)) := hperm.map _
  have hl : tp.length = N := by rw [htp.length_eq, List.length_range]
  subst hl
  rw [map_getD_range tp tp.length] at h1
  exact h1.trans htp

/-! ## coordinate-wise reading (this is where the common length of positions and `t` matters) -/

theorem roundPos_eq_iff (S : Int) (p q : List Int) (hlen : p.length = q.length) :
    roundPos S p = roundPos S q ↔ ∀ c, c < p.length → (p.getD c 0 - q.getD c 0) % S = 0 := by
  induction p generalizing q with
  | nil =>
    cases q with
    | nil => simp [roundPos]
    | cons b bs => simp at hlen
  | cons a as ih =>
    cases q with
    | nil => simp at hlen
    | cons b bs =>
      have hl : as.length = bs.length := by simpa using hlen
      have ih' := ih bs hl
      simp only [roundPos, List.map_cons, List.cons.injEq, wrapHalf_eq_iff] at ih' ⊢
      rw [ih']
      constructor
      · rintro ⟨h0, h1⟩ c hc
        cases c with
        | zero => simpa using h0
        | succ c => simpa using h1 c (by simpa using hc)
      · intro h
        refine ⟨by simpa using h 0 (by simp), fun c hc => ?_⟩
        simpa using h (c + 1) (by simpa using hc)

theorem transPos_length (t p : List Int) (h : p.length = t.length) : (transPos t p).length = p.length := by
  simp [transPos, h]

theorem transPos_getD (t p : List Int) (c : Nat) (h : p.length = t.length) (hc : c < p.length) :
    (transPos t p).getD c 0 = p.getD c 0 + t.getD c 0 := by
  have hct : c < t.length := h ▸ hc
  have hz : c < (p.zip t).length := by rw [List.length_zip]; omega
  simp [transPos, List.getD_eq_getElem?_getD, hc, hct, List.getElem?_eq_getElem hz]

/-- wrapping before translating does not change the wrapped result (for all lists, also ragged ones) -/
theorem roundPos_transPos_roundPos (S : Int) (t p : List Int) :
    roundPos S (transPos t (roundPos S p)) = roundPos S (transPos t p) := by
  induction p generalizing t with
  | nil => simp [roundPos, transPos]
  | cons a as ih =>
    cases t with
    | nil => simp [roundPos, transPos]
    | cons b bs =>
      have ih' := ih bs
      simp only [roundPos, transPos, List.map_cons, List.zip_cons_cons, List.cons.injEq] at ih' ⊢
      exact ⟨wrapHalf_add_wrap S a b, ih'⟩

/-- P4 (ii) read coordinate-wise: atom `tp[i]` sits at `x_i + t` modulo lattice vectors -/
theorem fastTransPerm_spec_coord (S : Int) (ps : List (List Int)) (t : List Int) (tp : List Nat)
    (hlen : ∀ p ∈ ps, p.length = t.length)
    (h : fastTransPerm S ps t = some tp) (i : Nat) (hi : i < ps.length) (c : Nat) (hc : c < t.length) :
    ((ps.getD (tp.getD i 0) []).getD c 0 - ((ps.getD i []).getD c 0 + t.getD c 0)) % S = 0 := by
  have h1 := fastTransPerm_spec S ps t tp h i hi
  have hj := getD_lt_of_perm (fastTransPerm_perm S ps t tp h).2 i hi
  have hget : ∀ k, k < ps.length → (ps.getD k []).length = t.length := by
    intro k hk
    rw [List.getD_eq_getElem?_getD, List.getElem?_eq_getElem hk, Option.getD_some]
    exact hlen _ (List.getElem_mem hk)
  have hl1 := hget _ hj
  have hl2 := hget i hi
  have h2 := (roundPos_eq_iff S _ _ (by
    show _ = (transPos t (ps.getD i [])).length
    rw [transPos_length t _ hl2, hl1, hl2])).mp h1 c (by rw [hl1]; exact hc)
  have h3 := transPos_getD t (ps.getD i []) c hl2 (by rw [hl2]; exact hc)
  unfold transPos at h3
  rw [h3] at h2
  exact h2

/-- P5 with the symmetry hypothesis read coordinate-wise (positions and t of one common length) -/
theorem fastTransPerm_complete_coord (S : Int) (ps : List (List Int)) (t : List Int) (σ : List Nat)
    (hlen : ∀ p ∈ ps, p.length = t.length)
    (hd : positionsDistinct S ps = true)
    (hσ : σ.Perm (List.range ps.length))
    (hsym : ∀ i, i < ps.length → ∀ c, c < t.length →
      ((ps.getD (σ.getD i 0) []).getD c 0 - ((ps.getD i []).getD c 0 + t.getD c 0)) % S = 0) :
    fastTransPerm S ps t = some σ := by
  refine fastTransPerm_complete S ps t σ hd hσ ?_
  intro i hi
  have hj := getD_lt_of_perm hσ i hi
  have hget : ∀ k, k < ps.length → (ps.getD k []).length = t.length := by
    intro k hk
    rw [List.getD_eq_getElem?_getD, List.getElem?_eq_getElem hk, Option.getD_some]
    exact hlen _ (List.getElem_mem hk)
  have hl1 := hget _ hj
  have hl2 := hget i hi
  show _ = roundPos S (transPos t (ps.getD i []))
  rw [roundPos_eq_iff S _ _ (by rw [transPos_length t _ hl2, hl1, hl2])]
  intro c hc
  rw [hl1] at hc
  rw [transPos_getD t (ps.getD i []) c hl2 (by rw [hl2]; exact hc)]
  exact hsym i hi c hc

/-! ## P6 instantiated: rotation permutation composed with a fast-path translation permutation -/

/-- if `perm` represents the map g on wrapped positions, `composeOut tp perm` (tp from the fast path for t)
    represents "g, then translate by t, then wrap" -/
theorem composeOut_fastTransPerm (S : Int) (ps : List (List Int)) (t : List Int) (tp perm : List Nat)
    (g : List Int → List Int)
    (h : fastTransPerm S ps t = some tp)
    (hperm : perm.length = ps.length)
    (hrange : ∀ j, j < ps.length → perm.getD j 0 < ps.length)
    (hg : ∀ j, j < ps.length → keyOf S ps (perm.getD j 0) = g (keyOf S ps j)) :
    ∀ j, j < ps.length →
      keyOf S ps ((composeOut tp perm).getD j 0) = roundPos S (transPos t (g (keyOf S ps j))) := by
  refine composeOut_represents (keyOf S ps) g (fun x => roundPos S (transPos t x)) tp perm ps.length
    hperm (fastTransPerm_perm S ps t tp h).1 hrange hg ?_
  intro j hj
  show keyOf S ps (tp.getD j 0) = roundPos S (transPos t (roundPos S (ps.getD j [])))
  rw [roundPos_transPos_roundPos]
  exact fastTransPerm_spec S ps t tp h j hj

/-! ## concrete instances (kernel `decide`) -/

example : fastTransPerm 1000 [[0,0,0],[500,0,0],[0,500,250],[500,500,250]] [500,0,0] = some [1,0,3,2] := by
  decide
example : positionsDistinct 1000 [[0,0,0],[500,0,0],[0,500,250],[500,500,250]] = true := by decide
example : fastTransPerm 1000 [[0,0,0],[500,0,0],[0,500,250],[500,500,250]] [0,500,250] = none := by decide
example : fastTransPerm 1000 [[0,0,0],[500,0,0],[0,500,250],[500,500,250]] [1000,-2000,0] = some [0,1,2,3] := by
  decide
example : argsortPos 1000 [[0,0,0],[500,0,0],[0,500,250],[500,500,250]] = [3,1,2,0] := by decide
example : wrapHalf 1000 500 = -500 ∧ wrapHalf 1000 499 = 499 ∧ wrapHalf 1000 (-501) = 499 := by decide
example : composeOut [1,0,3,2] [2,3,0,1] = [3,2,1,0] := by decide
/-- odd S: the upper bound of P1 fails -/
example : ¬ (wrapHalf 3 1 < 3 / 2) := by decide

end Symfc
