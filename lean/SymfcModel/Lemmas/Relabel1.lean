/-
  Lemmas/Relabel1.lean — Step 1 of C10 (atom ordering): two tensor elements are written in one row of the
  permutation stage IFF the first is covered and the second lies in its (S_n × T)-orbit.

  Notions reused from the existing lemma files:
    `OC.act σ t`      index permutation / arrangement `σ` applied to the tuple `t`,
    `OC.Sn n`         `= permsOf (List.range n)`,
    `OC.tauE c l`     lattice translation `l` on an entry `3 * atom + cart`; translating a tuple is
                      `t.map (OC.tauE c l)`,
    `OC.Valid N n t`  `t.length = n ∧ ∀ e ∈ t, e < 3 * N`,
    `Cov.admissible`, `Cov.ppqq`, `Cov.CutOK`.
-/
import SymfcModel.Lemmas.OrbitClosed
import SymfcModel.Lemmas.Coverage
namespace Symfc
namespace Relabel
open OC Cov

/-- the index pattern that the tables of order `n` do not list: `(p,p,q,q)` at order 4 (finding F1),
    nothing at the other orders -/
def exclFor (n : Nat) : List Nat → Bool := if n = 4 then ppqq else noExcl

/-- the coverage condition of the coverage theorems (C04.b / C07): the atoms of the tuple are pairwise
    within the cutoff (if there is one) and, at order 4, the pattern is not `(p,p,q,q)` -/
def Covered (n : Nat) (cut : Option CutoffIn) (t : List Nat) : Prop :=
  exclFor n t = false ∧ admissible cut t

/-- the class-space elements of the tuples `t` and `t'` are written in one row by the permutation stage -/
def SameRow (c : Cell) (n : Nat) (cut : Option CutoffIn) (t t' : List Nat) : Prop :=
  ∃ r ∈ allStageRows Gen.cutoffOps c n (stagesFor n) cut,
    elemIdx c.N (c.atomicDecompr n) t ∈ r ∧ elemIdx c.N (c.atomicDecompr n) t' ∈ r

theorem exclFor_2 : exclFor 2 = noExcl := rfl
theorem exclFor_3 : exclFor 3 = noExcl := rfl
theorem exclFor_4 : exclFor 4 = ppqq := rfl

theorem exclFor_invariant {n : Nat} : PatternInvariant (exclFor n) := by
  unfold exclFor
  split
  · exact ppqq_invariant
  · exact noExcl_invariant

theorem tablesCover_exclFor {n : Nat} (hn : n = 2 ∨ n = 3 ∨ n = 4) :
    tablesCover n (stagesFor n) (exclFor n) = true := by
  rcases hn with rfl | rfl | rfl
  · exact tablesCover_O2
  · exact tablesCover_O3
  · exact tablesCover_O4

theorem tablesAvoid_exclFor {n : Nat} (hn : n = 2 ∨ n = 3 ∨ n = 4) :
    tablesAvoid (stagesFor n) (exclFor n) = true := by
  rcases hn with rfl | rfl | rfl
  · simp [tablesAvoid, exclFor_2, noExcl]
  · simp [tablesAvoid, exclFor_3, noExcl]
  · exact tablesAvoid_O4

/-- coverage theorems V1/V2/V3 in one statement: the element of a valid tuple lies in a row iff the tuple
    is `Covered` -/
theorem mem_row_iff_covered (c : Cell) (hwf : c.wf = true) {n : Nat} (hn : n = 2 ∨ n = 3 ∨ n = 4)
    (cut : Option CutoffIn) (hcut : ∀ x, cut = some x → CutOK c x) {t : List Nat}
    (ht : Valid c.N n t) :
    (∃ r ∈ allStageRows Gen.cutoffOps c n (stagesFor n) cut,
      elemIdx c.N (c.atomicDecompr n) t ∈ r) ↔ Covered n cut t := by
  obtain ⟨h1, _, hok⟩ := stagesFor_ok hn
  have hn4 : n ≤ 4 := by omega
  have hcutN : ∀ x, cut = some x → x.N = c.N := fun x hx => (hcut x hx).hN
  constructor
  · rintro ⟨r, hr, hmem⟩
    refine ⟨?_, admissible_of_mem_row hwf h1 hok cut hcut ht hr hmem⟩
    cases hp : exclFor n t with
    | false => rfl
    | true =>
      exact absurd hmem (not_mem_row_of_excl hwf h1 hok cut hcutN exclFor_invariant
        (tablesAvoid_exclFor hn) ht hp r hr)
  · rintro ⟨hp, hadm⟩
    exact exists_row hwf h1 hn4 exclFor_invariant (tablesCover_exclFor hn) cut hcut ht hp hadm

/-- composing two lattice translations of a valid tuple -/
theorem map_tauE_comp {c : Cell} {k l m n : Nat} {t : List Nat} (ht : Valid c.N n t)
    (hc : ∀ i, i < c.N → c.img k i = c.img l (c.img m i)) :
    (t.map (tauE c m)).map (tauE c l) = t.map (tauE c k) := by
  rw [List.map_map]
  apply List.map_congr_left
  intro e he
  exact (tauE_comp hc (ht.2 e he)).symm

/-- **Step 1** (orders 2, 3, 4; at order 4 with the `(p,p,q,q)` exclusion inside `Covered`):
    same row ⇔ covered and same (S_n × T)-orbit. -/
theorem sameRow_iff (c : Cell) (hwf : c.wf = true) {n : Nat} (hn : n = 2 ∨ n = 3 ∨ n = 4)
    (cut : Option CutoffIn) (hcut : ∀ x, cut = some x → CutOK c x) {t t' : List Nat}
    (ht : Valid c.N n t) (ht' : Valid c.N n t') :
    SameRow c n cut t t' ↔
      Covered n cut t ∧ ∃ σ ∈ Sn n, ∃ l, l < c.nlp ∧ t' = (act σ t).map (tauE c l) := by
  obtain ⟨h1, hsn, hok⟩ := stagesFor_ok hn
  have h := Cell.wf_WF c hwf
  have hcutN : ∀ x, cut = some x → x.N = c.N := fun x hx => (hcut x hx).hN
  constructor
  · rintro ⟨r, hr, hm, hm'⟩
    refine ⟨(mem_row_iff_covered c hwf hn cut hcut ht).mp ⟨r, hr, hm⟩, ?_⟩
    obtain ⟨T, rfl, hval, _, htrans⟩ := row_structure c h1 hsn hok cut hcutN hr
    obtain ⟨t1, ht1, he1⟩ := List.mem_map.mp hm
    obtain ⟨t2, ht2, he2⟩ := List.mem_map.mp hm'
    obtain ⟨σ, hσ, rfl⟩ := htrans t1 ht1 t2 ht2
    obtain ⟨hσl, hσlt⟩ := snOK_spec hsn hσ
    -- t1 is a translate of t, t' is a translate of σ·t1
    obtain ⟨k, hk, rfl⟩ := elemIdx_separate c hwf h1 ht (hval t1 ht1) he1.symm
    obtain ⟨m, hm2, rfl⟩ := elemIdx_separate c hwf h1 (hval _ ht2) ht' he2
    obtain ⟨p, hp, hc⟩ := h.closure m k hm2 hk
    refine ⟨σ, hσ, p, hp, ?_⟩
    rw [act_map (tauE c k) (by rw [ht.1]; exact hσlt), map_tauE_comp (valid_act ht hσl hσlt) hc]
  · rintro ⟨hcov, σ, hσ, l, hl, rfl⟩
    obtain ⟨r, hr, hm⟩ := (mem_row_iff_covered c hwf hn cut hcut ht).mpr hcov
    obtain ⟨hσl, hσlt⟩ := snOK_spec hsn hσ
    refine ⟨r, hr, hm, ?_⟩
    rw [elemIdx_translate c hwf h1 (valid_act ht hσl hσlt) hl]
    exact allStageRows_perm_closed_of_ok c hwf h1 hsn hok cut hcutN hr ht hm hσ

end Relabel
end Symfc
