/-
  Lemmas/FindBlocksLoop.lean — the `Id.run do` loops of `findBlocks` (Model/Eig.lean) rewritten as
  structurally recursive functions: `step` (one pair `(i, j)`), `sweep` (all pairs, row-major, a fold),
  `iter` (up to `fuel` sweeps, stopping after the first sweep that changed nothing).
  `findBlocks_eq` proves that the model — exactly the function the driver runs — equals
  `blocksOf n (iter m n n (initLab n))`. The model itself is NOT changed.
-/
import SymfcModel.Lemmas.EigAssemble
namespace Symfc

/-- every row of the matrix has as many entries as the matrix has rows -/
def IMat.square (m : IMat) : Bool := m.toList.all (fun r => r.size == m.size)

namespace FindBlocks

/-- the body of the innermost loop: relax the pair `(i, j)`; state = (labels, changed) -/
def step (m : IMat) (i : Nat) (s : Array Nat × Bool) (j : Nat) : Array Nat × Bool :=
  if (m.get i j != 0 || m.get j i != 0) = true then
    if (s.1.getD i 0 != s.1.getD j 0) = true then
      ((s.1.setIfInBounds i (min (s.1.getD i 0) (s.1.getD j 0))).setIfInBounds j
        (min (s.1.getD i 0) (s.1.getD j 0)), true)
    else s
  else s

/-- all pairs `(i, j)`, `i, j < n`, in the order of the two nested loops -/
def pairs (n : Nat) : List (Nat × Nat) :=
  (List.range n).flatMap (fun i => (List.range n).map (fun j => (i, j)))

/-- relax a list of pairs in order -/
def sweepL (m : IMat) (l : List (Nat × Nat)) (s : Array Nat × Bool) : Array Nat × Bool :=
  l.foldl (fun s p => step m p.1 s p.2) s

/-- one sweep of the outer loop body (with `changed` reset to `false`) -/
def sweep (m : IMat) (n : Nat) (lab : Array Nat) : Array Nat × Bool :=
  sweepL m (pairs n) (lab, false)

/-- up to `fuel` sweeps; stop after the first sweep that changed nothing -/
def iter (m : IMat) (n : Nat) : Nat → Array Nat → Array Nat
  | 0, lab => lab
  | k + 1, lab => if (sweep m n lab).2 then iter m n k (sweep m n lab).1 else (sweep m n lab).1

/-- the initial labelling `lab[i] = i` -/
def initLab (n : Nat) : Array Nat := Array.ofFn (n := n) (fun i => i.val)

/-- the label array computed by `findBlocks` -/
def labels (m : IMat) : Array Nat := iter m m.size m.size (initLab m.size)

theorem sweep_eq_nested (m : IMat) (n : Nat) (s : Array Nat × Bool) :
    sweepL m (pairs n) s =
      (List.range n).foldl (fun s i => (List.range n).foldl (fun s j => step m i s j) s) s := by
  unfold sweepL pairs
  rw [List.foldl_flatMap]
  congr 1
  funext s i
  rw [List.foldl_map]

/-- the outer `for _ in l` loop with `break`, for any list `l` (only its length matters) -/
theorem outer_loop (m : IMat) (n : Nat) (l : List Nat) (lab : Array Nat) :
    (forIn (m := Id) l lab fun _ r =>
      if (!(sweep m n r).2) = true then pure (ForInStep.done (sweep m n r).1)
      else pure (ForInStep.yield (sweep m n r).1)).run = iter m n l.length lab := by
  induction l generalizing lab with
  | nil => rfl
  | cons a l ih =>
    rw [List.forIn_cons, List.length_cons, iter]
    cases h : (sweep m n lab).2
    · simp
    · simp only [Bool.not_true, Bool.false_eq_true, if_false, if_true]
      exact ih _

/-- the body of the innermost loop as the `do` block elaborates it -/
def innerBody (m : IMat) (i j : Nat) (s : Array Nat × Bool) : Id (ForInStep (Array Nat × Bool)) :=
  if (m.get i j != 0 || m.get j i != 0) = true then
    if (s.1.getD i 0 != s.1.getD j 0) = true then
      pure (ForInStep.yield ((s.1.setIfInBounds i (min (s.1.getD i 0) (s.1.getD j 0))).setIfInBounds j
        (min (s.1.getD i 0) (s.1.getD j 0)), true))
    else pure (ForInStep.yield (s.1, s.2))
  else pure (ForInStep.yield (s.1, s.2))

theorem innerBody_eq (m : IMat) (i j : Nat) (s : Array Nat × Bool) :
    innerBody m i j s = pure (ForInStep.yield (step m i s j)) := by
  unfold innerBody step
  split
  · split <;> rfl
  · rfl

/-- the three nested loops of the model, verbatim -/
theorem findBlocks_unfold (m : IMat) :
    findBlocks m = blocksOf m.size
      (forIn (m := Id) (List.range m.size) (initLab m.size) fun _ r => do
        let s ← forIn (List.range m.size) (r, false) fun i s => do
          let s' ← forIn (List.range m.size) (s.1, s.2) fun j s => innerBody m i j s
          pure (ForInStep.yield (s'.1, s'.2))
        if (!s.2) = true then pure (ForInStep.done s.1) else pure (ForInStep.yield s.1)).run := rfl

/-- the model's `findBlocks` is `blocksOf` of the labels computed by `iter` with fuel `n` -/
theorem findBlocks_eq (m : IMat) : findBlocks m = blocksOf m.size (labels m) := by
  have h := outer_loop m m.size (List.range m.size) (initLab m.size)
  rw [List.length_range] at h
  rw [findBlocks_unfold]
  unfold labels
  rw [← h]
  congr 3
  funext _ r
  have hin : ∀ (i : Nat) (s : Array Nat × Bool),
      (forIn (m := Id) (List.range m.size) (s.1, s.2) fun j s => innerBody m i j s) =
        pure ((List.range m.size).foldl (fun s j => step m i s j) s) := by
    intro i s
    simp only [innerBody_eq]
    exact List.forIn_pure_yield_eq_foldl (m := Id) (fun j s => step m i s j) s
  have hmid : (forIn (m := Id) (List.range m.size) (r, false) fun i s => do
        let s' ← forIn (List.range m.size) (s.1, s.2) fun j s => innerBody m i j s
        pure (ForInStep.yield (s'.1, s'.2))) = pure (sweep m m.size r) := by
    simp only [hin, pure_bind, sweep, sweep_eq_nested]
    exact List.forIn_pure_yield_eq_foldl (m := Id)
      (fun i s => (List.range m.size).foldl (fun s j => step m i s j) s) (r, false)
  rw [hmid]
  rfl

end FindBlocks
end Symfc
