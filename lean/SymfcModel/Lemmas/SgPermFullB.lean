/-
  Lemmas/SgPermFullB.lean — B1/B2: soundness and completeness of `exactMatch` (the distance fall-back and the
  rotation matching of `compute_sg_permutations` in exact arithmetic), and of the loop body `transPerm`.
  Distinctness of the positions is the existing `positionsDistinct` (pairwise distinct wrapped positions).
-/
import SymfcModel.Lemmas.SgPermFullA
namespace Symfc.SgPermFull
open Symfc

/-- the columns matching row i -/
def matchRow (S : Int) (ps qs : List (List Int)) (i : Nat) : List Nat :=
  (List.range ps.length).filter (fun j => sameSite S (ps.getD j []) (qs.getD i []))

theorem matchPairs_eq (S : Int) (ps qs : List (List Int)) :
    matchPairs S ps qs = (List.range qs.length).flatMap (fun i => (matchRow S ps qs i).map (fun j => (i, j))) := rfl

theorem cols_eq (S : Int) (ps qs : List (List Int)) :
    (matchPairs S ps qs).map (·.2) = (List.range qs.length).flatMap (matchRow S ps qs) := by
  rw [matchPairs_eq, List.map_flatMap]
  congr 1
  funext i
  rw [List.map_map]
  exact List.map_id' _

theorem mem_rows (S : Int) (ps qs : List (List Int)) (i : Nat) :
    i ∈ (matchPairs S ps qs).map (·.1) ↔ i < qs.length ∧ matchRow S ps qs i ≠ [] := by
  rw [matchPairs_eq]
  simp only [List.mem_map, List.mem_flatMap, List.mem_range, Prod.exists]
  constructor
  · rintro ⟨a, b, ⟨i', hi', j, hj, heq⟩, rfl⟩
    simp only [Prod.mk.injEq] at heq
    obtain ⟨rfl, rfl⟩ := heq
    exact ⟨hi', List.ne_nil_of_mem hj⟩
  · rintro ⟨hi, hne⟩
    obtain ⟨j, hj⟩ := List.exists_mem_of_ne_nil _ hne
    exact ⟨i, j, ⟨i, hi, j, hj, rfl⟩, rfl⟩

theorem mem_matchRow {S : Int} {ps qs : List (List Int)} {i j : Nat} :
    j ∈ matchRow S ps qs i ↔ j < ps.length ∧ sameSite S (ps.getD j []) (qs.getD i []) = true := by
  simp [matchRow]

/-- with pairwise distinct positions a row matches at most one column -/
theorem matchRow_length_le_one (S : Int) (d : Nat) (ps qs : List (List Int))
    (hps : ∀ x ∈ ps, x.length = d) (hqs : ∀ x ∈ qs, x.length = d)
    (hd : positionsDistinct S ps = true) (i : Nat) (hi : i < qs.length) :
    (matchRow S ps qs i).length ≤ 1 := by
  apply length_le_one_of_nodup (show (matchRow S ps qs i).Nodup from List.nodup_range.filter _)
  intro x hx y hy
  rw [mem_matchRow] at hx hy
  have hq := getD_length_of_forall hqs i hi
  have h1 := (sameSite_iff_cong S _ _ ((getD_length_of_forall hps x hx.1).trans hq.symm)).mp hx.2
  have h2 := (sameSite_iff_cong S _ _ ((getD_length_of_forall hps y hy.1).trans hq.symm)).mp hy.2
  exact distinct_cong hd hx.1 hy.1 (h1.trans h2.symm)

theorem exactMatch_some_iff (S : Int) (ps qs : List (List Int)) (p : List Nat) :
    exactMatch S ps qs = some p ↔
      (ps.length = (uniqueNat ((matchPairs S ps qs).map (·.1))).length ∧
       ps.length = (uniqueNat ((matchPairs S ps qs).map (·.2))).length) ∧
      (matchPairs S ps qs).map (·.2) = p := by
  unfold exactMatch
  simp only [Bool.and_eq_true, beq_iff_eq]
  split
  next h => simp only [Option.some.injEq]; exact ⟨fun h' => ⟨h, h'⟩, fun h' => h'.2⟩
  next h => constructor
            · intro h'; cases h'
            · intro h'; exact absurd h'.1 h

/-- B1. Soundness of `exactMatch` for pairwise distinct positions (`positionsDistinct`): the result is a
    permutation of `range N`, atom `p[i]` of `ps` sits at `qs[i]` modulo S in every coordinate, and it is the only
    such atom. -/
theorem exactMatch_sound (S : Int) (d : Nat) (ps qs : List (List Int)) (p : List Nat)
    (hps : ∀ x ∈ ps, x.length = d) (hqs : ∀ x ∈ qs, x.length = d) (hlen : qs.length = ps.length)
    (hd : positionsDistinct S ps = true) (h : exactMatch S ps qs = some p) :
    p.length = ps.length ∧ p.Perm (List.range ps.length) ∧
    (∀ i, i < ps.length → Cong S (ps.getD (p.getD i 0) []) (qs.getD i [])) ∧
    (∀ i j, i < ps.length → j < ps.length → Cong S (ps.getD j []) (qs.getD i []) → j = p.getD i 0) := by
  rw [exactMatch_some_iff] at h
  obtain ⟨⟨hrows, hcols⟩, hp⟩ := h
  -- every row occurs
  have hrowmem : ∀ i, i < ps.length → matchRow S ps qs i ≠ [] := by
    intro i hi
    have := mem_of_length_uniqueNat (l := (matchPairs S ps qs).map (·.1)) (N := ps.length)
      (fun x hx => by rw [mem_rows] at hx; exact hlen ▸ hx.1) hrows.symm i hi
    exact ((mem_rows S ps qs i).mp this).2
  -- so every row is a singleton
  have hsing : ∀ i ∈ List.range qs.length,
      matchRow S ps qs i = [(matchRow S ps qs i).headD 0] := by
    intro i hi
    have hi' : i < qs.length := List.mem_range.mp hi
    have h1 := matchRow_length_le_one S d ps qs hps hqs hd i hi'
    have h2 := hrowmem i (hlen ▸ hi')
    match hm : matchRow S ps qs i, h1, h2 with
    | [], _, h2 => exact absurd rfl h2
    | [a], _, _ => rfl
    | a :: b :: t, h1, _ => simp at h1
  have hcolsEq : (matchPairs S ps qs).map (·.2) =
      (List.range ps.length).map (fun i => (matchRow S ps qs i).headD 0) := by
    rw [cols_eq, flatMap_singleton _ _ _ hsing, hlen]
  rw [hcolsEq] at hp hcols
  subst hp
  have hg : ∀ i, i < ps.length → (matchRow S ps qs i).headD 0 ∈ matchRow S ps qs i := by
    intro i hi
    have := hsing i (List.mem_range.mpr (hlen.symm ▸ hi))
    rw [this]; simp
  have hlenp : ((List.range ps.length).map (fun i => (matchRow S ps qs i).headD 0)).length = ps.length := by simp
  refine ⟨hlenp, ?_, ?_, ?_⟩
  · apply perm_range_of_nodup _ _ hlenp
    · exact nodup_of_length_uniqueNat (by rw [← hcols, hlenp])
    · intro x hx
      rw [List.mem_map] at hx
      obtain ⟨i, hi, rfl⟩ := hx
      exact (mem_matchRow.mp (hg i (List.mem_range.mp hi))).1
  · intro i hi
    rw [getD_map_range _ _ i hi]
    have hm := mem_matchRow.mp (hg i hi)
    exact (sameSite_iff_cong S _ _ ((getD_length_of_forall hps _ hm.1).trans
      (getD_length_of_forall hqs i (hlen.symm ▸ hi)).symm)).mp hm.2
  · intro i j hi hj hc
    rw [getD_map_range _ _ i hi]
    have hm := mem_matchRow.mp (hg i hi)
    have h1 := (sameSite_iff_cong S _ _ ((getD_length_of_forall hps _ hm.1).trans
      (getD_length_of_forall hqs i (hlen.symm ▸ hi)).symm)).mp hm.2
    exact distinct_cong hd hj hm.1 (hc.trans h1.symm)

/-- B2. Completeness of `exactMatch`: if some permutation σ satisfies `ps[σ i] ≡ qs[i]` (mod S) for all i and the
    positions are pairwise distinct, `exactMatch` returns exactly σ. -/
theorem exactMatch_complete (S : Int) (d : Nat) (ps qs : List (List Int)) (σ : List Nat)
    (hps : ∀ x ∈ ps, x.length = d) (hlen : qs.length = ps.length)
    (hd : positionsDistinct S ps = true) (hσ : σ.Perm (List.range ps.length))
    (hsym : ∀ i, i < ps.length → Cong S (ps.getD (σ.getD i 0) []) (qs.getD i [])) :
    exactMatch S ps qs = some σ := by
  have hσlt : ∀ i, i < ps.length → σ.getD i 0 < ps.length := fun i hi => getD_lt_of_perm hσ i hi
  have hqlen : ∀ i, i < ps.length → (qs.getD i []).length = d := by
    intro i hi
    rw [← (hsym i hi).length_eq]; exact getD_length_of_forall hps _ (hσlt i hi)
  have hrow : ∀ i ∈ List.range qs.length, matchRow S ps qs i = [σ.getD i 0] := by
    intro i hi
    have hi' : i < ps.length := hlen ▸ List.mem_range.mp hi
    apply filter_range_eq_singleton _ _ _ (hσlt i hi')
    · exact (sameSite_iff_cong S _ _ ((getD_length_of_forall hps _ (hσlt i hi')).trans (hqlen i hi').symm)).mpr
        (hsym i hi')
    · intro j hj hs
      have := (sameSite_iff_cong S _ _ ((getD_length_of_forall hps _ hj).trans (hqlen i hi').symm)).mp hs
      exact distinct_cong hd hj (hσlt i hi') (this.trans (hsym i hi').symm)
  have hσlen : σ.length = ps.length := by rw [hσ.length_eq, List.length_range]
  have hcolsEq : (matchPairs S ps qs).map (·.2) = σ := by
    rw [cols_eq, flatMap_singleton _ _ _ hrow, hlen, ← hσlen]
    exact map_getD_range σ 0
  have hrowsEq : (matchPairs S ps qs).map (·.1) = List.range ps.length := by
    rw [matchPairs_eq, List.map_flatMap]
    have : ∀ i ∈ List.range qs.length,
        ((matchRow S ps qs i).map (fun j => (i, j))).map (·.1) = [i] := by
      intro i hi; rw [hrow i hi]; rfl
    rw [flatMap_singleton _ _ _ this, hlen]
    exact List.map_id' _
  rw [exactMatch_some_iff, hcolsEq, hrowsEq, uniqueNat_of_nodup List.nodup_range,
    uniqueNat_of_nodup (hσ.nodup_iff.mpr List.nodup_range)]
  simp [hσlen]

/-! ## the body of the pure-translation loop -/

theorem addVec_eq_transPos (p t : List Int) : addVec p t = transPos t p := rfl

theorem transPerm_eq (S : Int) (ps : List (List Int)) (t : List Int) :
    transPerm S ps t = match fastTransPerm S ps t with
      | some tp => some tp
      | none => exactMatch S ps (ps.map (transPos t)) := rfl

/-- soundness of one iteration of the pure-translation loop, whichever path (fast path / fall-back) is taken -/
theorem transPerm_sound (S : Int) (d : Nat) (ps : List (List Int)) (t : List Int) (tp : List Nat)
    (hps : ∀ x ∈ ps, x.length = d) (ht : t.length = d)
    (hd : positionsDistinct S ps = true) (h : transPerm S ps t = some tp) :
    tp.length = ps.length ∧ tp.Perm (List.range ps.length) ∧
    (∀ i, i < ps.length → Cong S (ps.getD (tp.getD i 0) []) (transPos t (ps.getD i []))) := by
  rw [transPerm_eq] at h
  split at h
  next tp' hf =>
    cases h
    exact ⟨(fastTransPerm_perm S ps t tp hf).1, (fastTransPerm_perm S ps t tp hf).2,
      fun i hi => fastTransPerm_spec S ps t tp hf i hi⟩
  next hf =>
    have hq : ∀ x ∈ ps.map (transPos t), x.length = d := by
      intro x hx
      rw [List.mem_map] at hx
      obtain ⟨y, hy, rfl⟩ := hx
      rw [transPos_length t y ((hps y hy).trans ht.symm)]; exact hps y hy
    have := exactMatch_sound S d ps (ps.map (transPos t)) tp hps hq (by simp) hd h
    refine ⟨this.1, this.2.1, fun i hi => ?_⟩
    have h3 := this.2.2.1 i hi
    simpa [List.getD_eq_getElem?_getD, hi] using h3

/-- completeness of one iteration: a translation that is a symmetry, realised by σ, yields σ -/
theorem transPerm_complete (S : Int) (ps : List (List Int)) (t : List Int) (σ : List Nat)
    (hd : positionsDistinct S ps = true) (hσ : σ.Perm (List.range ps.length))
    (hsym : ∀ i, i < ps.length → Cong S (ps.getD (σ.getD i 0) []) (transPos t (ps.getD i []))) :
    transPerm S ps t = some σ := by
  rw [transPerm_eq, fastTransPerm_complete S ps t σ hd hσ hsym]

end Symfc.SgPermFull
