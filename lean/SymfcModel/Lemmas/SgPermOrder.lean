/-
  Lemmas/SgPermOrder.lean — P1 (`wrapHalf`), P2 (`lexLt` is a strict total order on ALL integer lists),
  P3 (`insertByKey` / `argsortBy`: permutation of the indices, sorted).
-/
import SymfcModel.Model.SgPerm
namespace Symfc

/-! ## P1: `wrapHalf` -/

theorem wrapHalf_range (S x : Int) (hS : 0 < S) (hev : S % 2 = 0) :
    -(S / 2) ≤ wrapHalf S x ∧ wrapHalf S x < S / 2 := by
  unfold wrapHalf
  have h1 := Int.emod_nonneg (x + S / 2) (Int.ne_of_gt hS)
  have h2 := Int.emod_lt_of_pos (x + S / 2) hS
  omega

/-- the lower bound needs neither evenness nor more than `S ≠ 0` -/
theorem wrapHalf_lower (S x : Int) (hS : 0 < S) : -(S / 2) ≤ wrapHalf S x := by
  unfold wrapHalf
  have h1 := Int.emod_nonneg (x + S / 2) (Int.ne_of_gt hS)
  omega

theorem wrapHalf_add_mul (S x k : Int) : wrapHalf S (x + k * S) = wrapHalf S x := by
  unfold wrapHalf
  have : x + k * S + S / 2 = (x + S / 2) + k * S := by omega
  rw [this, Int.add_mul_emod_self_right]

theorem wrapHalf_sub_emod (S x : Int) : (wrapHalf S x - x) % S = 0 := by
  unfold wrapHalf
  have : (x + S / 2) % S - S / 2 - x = -(S * ((x + S / 2) / S)) := by
    have := Int.emod_def (x + S / 2) S
    omega
  rw [this]
  exact Int.emod_eq_zero_of_dvd (Int.dvd_neg.mpr (Int.dvd_mul_right _ _))

theorem wrapHalf_eq_iff (S x y : Int) : wrapHalf S x = wrapHalf S y ↔ (x - y) % S = 0 := by
  unfold wrapHalf
  have : x - y = (x + S / 2) - (y + S / 2) := by omega
  rw [this, ← Int.emod_eq_emod_iff_emod_sub_eq_zero]
  omega

theorem wrapHalf_idem (S x : Int) : wrapHalf S (wrapHalf S x) = wrapHalf S x := by
  rw [wrapHalf_eq_iff]; exact wrapHalf_sub_emod S x

/-- `wrapHalf` of a sum only depends on the wrapped summand -/
theorem wrapHalf_add_wrap (S x t : Int) : wrapHalf S (wrapHalf S x + t) = wrapHalf S (x + t) := by
  rw [wrapHalf_eq_iff]
  have : wrapHalf S x + t - (x + t) = wrapHalf S x - x := by omega
  rw [this]; exact wrapHalf_sub_emod S x

/-- a value already in the window is fixed -/
theorem wrapHalf_of_range (S x : Int) (hev : S % 2 = 0) (h1 : -(S / 2) ≤ x) (h2 : x < S / 2) :
    wrapHalf S x = x := by
  unfold wrapHalf
  rw [Int.emod_eq_of_lt (by omega) (by omega)]; omega

theorem roundPos_length (S : Int) (p : List Int) : (roundPos S p).length = p.length := by
  simp [roundPos]

theorem roundPos_idem (S : Int) (p : List Int) : roundPos S (roundPos S p) = roundPos S p := by
  simp [roundPos, wrapHalf_idem]

/-! ## P2: `lexLt` is a strict total order (on all lists, also ragged ones: a proper prefix is smaller) -/

theorem lexLt_irrefl (a : List Int) : lexLt a a = false := by
  induction a with
  | nil => rfl
  | cons x xs ih => simp [lexLt, ih]

theorem lexLt_trans {a b c : List Int} (h1 : lexLt a b = true) (h2 : lexLt b c = true) :
    lexLt a c = true := by
  induction a generalizing b c with
  | nil =>
    cases b with
    | nil => simp [lexLt] at h1
    | cons y ys =>
      cases c with
      | nil => simp [lexLt] at h2
      | cons z zs => simp [lexLt]
  | cons x xs ih =>
    cases b with
    | nil => simp [lexLt] at h1
    | cons y ys =>
      cases c with
      | nil => simp [lexLt] at h2
      | cons z zs =>
        simp only [lexLt] at h1 h2 ⊢
        split at h1
        · split at h2
          · rw [if_pos (by omega)]
          · split at h2
            · cases h2
            · rw [if_pos (by omega)]
        · split at h1
          · cases h1
          · split at h2
            · rw [if_pos (by omega)]
            · split at h2
              · cases h2
              · have hxz : x = z := by omega
                subst hxz
                simp only [Int.lt_irrefl, if_false]
                exact ih h1 h2

/-- totality + antisymmetry in one statement -/
theorem lexLt_antisymm {a b : List Int} (h1 : lexLt a b = false) (h2 : lexLt b a = false) : a = b := by
  induction a generalizing b with
  | nil =>
    cases b with
    | nil => rfl
    | cons y ys => simp [lexLt] at h1
  | cons x xs ih =>
    cases b with
    | nil => simp [lexLt] at h2
    | cons y ys =>
      simp only [lexLt] at h1 h2
      split at h1
      · cases h1
      · split at h1
        · rw [if_pos (by assumption)] at h2; cases h2
        · have hxy : x = y := by omega
          subst hxy
          simp only [Int.lt_irrefl, if_false] at h2
          rw [ih h1 h2]

theorem lexLt_total {a b : List Int} (h : a ≠ b) : lexLt a b = true ∨ lexLt b a = true := by
  cases h1 : lexLt a b with
  | true => exact Or.inl rfl
  | false =>
    cases h2 : lexLt b a with
    | true => exact Or.inr rfl
    | false => exact absurd (lexLt_antisymm h1 h2) h

theorem lexLt_asymm {a b : List Int} (h : lexLt a b = true) : lexLt b a = false := by
  cases h2 : lexLt b a with
  | false => rfl
  | true => have := lexLt_trans h h2; rw [lexLt_irrefl] at this; cases this

/-- the forms asked for, with the (superfluous) equal-length hypothesis -/
theorem lexLt_total_of_length {a b : List Int} (_ : a.length = b.length) (h : a ≠ b) :
    lexLt a b = true ∨ lexLt b a = true := lexLt_total h

theorem lexLt_eq_of_not_lt_of_length {a b : List Int} (_ : a.length = b.length)
    (h : lexLt a b = false ∧ lexLt b a = false) : a = b := lexLt_antisymm h.1 h.2

/-- `≤` (i.e. `¬ >`) is transitive -/
theorem lexLe_trans {a b c : List Int} (h1 : lexLt b a = false) (h2 : lexLt c b = false) :
    lexLt c a = false := by
  cases h : lexLt c a with
  | false => rfl
  | true =>
    -- c < a, ¬ b < a, so a ≤ b hence c < b
    by_cases hab : a = b
    · subst hab; rw [h] at h2; cases h2
    · rcases lexLt_total hab with h3 | h3
      · rw [lexLt_trans h h3] at h2; cases h2
      · rw [h3] at h1; cases h1

/-! ## P3: `insertByKey`, `argsortBy` -/

theorem insertByKey_perm (key : Nat → List Int) (i : Nat) (l : List Nat) :
    (insertByKey key i l).Perm (i :: l) := by
  induction l with
  | nil => exact List.Perm.refl _
  | cons j js ih =>
    simp only [insertByKey]
    split
    · exact List.Perm.refl _
    · exact (List.Perm.cons j ih).trans (List.Perm.swap i j js)

theorem mem_insertByKey {key : Nat → List Int} {i x : Nat} {l : List Nat} :
    x ∈ insertByKey key i l ↔ x = i ∨ x ∈ l := by
  rw [(insertByKey_perm key i l).mem_iff]; simp

/-- sortedness predicate: no later key is strictly smaller than an earlier one -/
def SortedBy (key : Nat → List Int) (l : List Nat) : Prop :=
  l.Pairwise (fun i j => lexLt (key j) (key i) = false)

theorem insertByKey_sorted (key : Nat → List Int) (i : Nat) (l : List Nat) (h : SortedBy key l) :
    SortedBy key (insertByKey key i l) := by
  unfold SortedBy at *
  induction l with
  | nil => simp [insertByKey]
  | cons j js ih =>
    rw [List.pairwise_cons] at h
    simp only [insertByKey]
    split
    next hlt =>
      rw [List.pairwise_cons]
      refine ⟨?_, List.pairwise_cons.mpr h⟩
      intro x hx
      rcases List.mem_cons.mp hx with rfl | hx
      · exact lexLt_asymm hlt
      · exact lexLe_trans (lexLt_asymm hlt) (h.1 x hx)
    next hlt =>
      rw [List.pairwise_cons]
      refine ⟨?_, ih h.2⟩
      intro x hx
      rcases mem_insertByKey.mp hx with rfl | hx
      · simpa using hlt
      · exact h.1 x hx

theorem argsortBy_eq_foldr (key : Nat → List Int) (n : Nat) :
    argsortBy key n = (List.range n).foldr (fun i acc => insertByKey key i acc) [] := by
  unfold argsortBy; rw [List.foldl_reverse]

theorem foldr_insertByKey_perm (key : Nat → List Int) (l : List Nat) :
    (l.foldr (fun i acc => insertByKey key i acc) []).Perm l := by
  induction l with
  | nil => exact List.Perm.refl _
  | cons a l ih => exact (insertByKey_perm key a _).trans (List.Perm.cons a ih)

theorem foldr_insertByKey_sorted (key : Nat → List Int) (l : List Nat) :
    SortedBy key (l.foldr (fun i acc => insertByKey key i acc) []) := by
  induction l with
  | nil => exact List.Pairwise.nil
  | cons a l ih => exact insertByKey_sorted key a _ ih

theorem argsortBy_perm (key : Nat → List Int) (n : Nat) : (argsortBy key n).Perm (List.range n) := by
  rw [argsortBy_eq_foldr]; exact foldr_insertByKey_perm key _

theorem argsortBy_sorted (key : Nat → List Int) (n : Nat) :
    (argsortBy key n).Pairwise (fun i j => lexLt (key j) (key i) = false) := by
  rw [argsortBy_eq_foldr]; exact foldr_insertByKey_sorted key _

theorem argsortBy_length (key : Nat → List Int) (n : Nat) : (argsortBy key n).length = n := by
  rw [(argsortBy_perm key n).length_eq, List.length_range]

theorem argsortBy_nodup (key : Nat → List Int) (n : Nat) : (argsortBy key n).Nodup :=
  (argsortBy_perm key n).nodup_iff.mpr List.nodup_range

theorem mem_argsortBy {key : Nat → List Int} {n i : Nat} : i ∈ argsortBy key n ↔ i < n := by
  rw [(argsortBy_perm key n).mem_iff, List.mem_range]

/-! ## stability: the model's `argsortBy` is ANTI-stable (ties come out in DESCENDING index order),
    contrary to its doc-comment; Python's `sorted` is stable (ascending). Irrelevant when keys are distinct. -/

theorem insertByKey_antistable (key : Nat → List Int) (i : Nat) (l : List Nat)
    (hs : SortedBy key l) (hgt : ∀ x ∈ l, i < x)
    (hq : l.Pairwise (fun a b => lexLt (key a) (key b) = false → b < a)) :
    (insertByKey key i l).Pairwise (fun a b => lexLt (key a) (key b) = false → b < a) := by
  unfold SortedBy at hs
  induction l with
  | nil => simp [insertByKey]
  | cons j js ih =>
    rw [List.pairwise_cons] at hs hq
    simp only [insertByKey]
    split
    next hlt =>
      rw [List.pairwise_cons]
      refine ⟨?_, List.pairwise_cons.mpr hq⟩
      intro x hx hfalse
      exfalso
      rcases List.mem_cons.mp hx with rfl | hx
      · rw [hlt] at hfalse; cases hfalse
      · have := lexLe_trans (hs.1 x hx) hfalse
        rw [hlt] at this; cases this
    next hlt =>
      rw [List.pairwise_cons]
      refine ⟨?_, ih hs.2 (fun x hx => hgt x (List.mem_cons_of_mem _ hx)) hq.2⟩
      intro x hx
      rcases mem_insertByKey.mp hx with rfl | hx
      · intro _; exact hgt j List.mem_cons_self
      · exact hq.1 x hx

theorem argsortBy_antistable (key : Nat → List Int) (n : Nat) :
    (argsortBy key n).Pairwise (fun a b => lexLt (key a) (key b) = false → b < a) := by
  rw [argsortBy_eq_foldr]
  have hlt : (List.range n).Pairwise (· < ·) := List.pairwise_lt_range
  generalize List.range n = l at hlt
  induction l with
  | nil => exact List.Pairwise.nil
  | cons a l ih =>
    rw [List.pairwise_cons] at hlt
    refine insertByKey_antistable key a _ (foldr_insertByKey_sorted key l) ?_ (ih hlt.2)
    intro x hx
    exact hlt.1 x ((foldr_insertByKey_perm key l).mem_iff.mp hx)

/-- witness: three equal keys come out as [2,1,0]; a stable sort would give [0,1,2] -/
example : argsortBy (fun _ => []) 3 = [2, 1, 0] := by decide

end Symfc
