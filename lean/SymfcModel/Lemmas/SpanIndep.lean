/- Lemmas/SpanIndep.lean — everything a user sees depends only on the SPAN of the basis.

   Different evaluation paths of symfc (standard vs block-divided eigen-solver, different batchings,
   re-runs) return different orthonormal bases `B`, `B'` of the SAME subspace: eigenvectors of the unit
   eigenspace are only determined up to an orthogonal change of basis inside that eigenspace.  This file
   proves that the quantities that reach the user are invariant under that freedom:

     P1  the projector `B Bᵀ`                          (`same_range_same_projector`)
     P2  `B = B' Q` with `Q` orthogonal                 (`same_range_change_of_basis`)
     P3  the fitted force constants `B c`               (`fit_depends_only_on_the_span`)
     P4  the eigen contract / the whole pipeline        (`eigen_paths_agree`, `pipeline_paths_agree`)
     P5  a non-vacuity example over ℚ. -/
import SymfcModel.Lemmas.LinAlg
import SymfcModel.Lemmas.Pipeline

namespace Symfc.SpanIndep

open Matrix Symfc.LinAlg Symfc.Pipeline

/-! ## P1, P2: same range ⇒ orthogonal change of basis ⇒ same projector (any field) -/

section Algebra

variable {K : Type*} [Field K]
variable {m k k' : Type*} [Fintype m] [Fintype k] [Fintype k'] [DecidableEq k] [DecidableEq k']

omit [DecidableEq k] in
/-- If `range B ⊆ range B'` and `B'` has orthonormal columns then `B' B'ᵀ` fixes `B`. -/
theorem projector_fixes_of_range_le (B : Matrix m k K) (B' : Matrix m k' K) (hB' : B'ᵀ * B' = 1)
    (hle : ∀ c : k → K, ∃ c' : k' → K, B *ᵥ c = B' *ᵥ c') : B' * B'ᵀ * B = B := by
  rw [Matrix.ext_iff_mulVec]
  intro c
  obtain ⟨c', hc'⟩ := hle c
  rw [← Matrix.mulVec_mulVec, hc', Matrix.mulVec_mulVec, Matrix.mul_assoc, hB', Matrix.mul_one]

/-- P2. Two orthonormal bases of the same subspace differ by an orthogonal matrix
(`Q = B'ᵀ B`; if `k`, `k'` are finite types with both `Qᵀ Q = 1` and `Q Qᵀ = 1` the two index types are
in particular equinumerous). -/
theorem same_range_change_of_basis (B : Matrix m k K) (B' : Matrix m k' K)
    (hB : Bᵀ * B = 1) (hB' : B'ᵀ * B' = 1)
    (hrange : ∀ x : m → K, (∃ c : k → K, x = B *ᵥ c) ↔ (∃ c' : k' → K, x = B' *ᵥ c')) :
    ∃ Q : Matrix k' k K, B = B' * Q ∧ Qᵀ * Q = 1 ∧ Q * Qᵀ = 1 := by
  have h1 : B' * B'ᵀ * B = B :=
    projector_fixes_of_range_le B B' hB' (fun c => (hrange _).mp ⟨c, rfl⟩)
  have h2 : B * Bᵀ * B' = B' :=
    projector_fixes_of_range_le B' B hB (fun c' => (hrange _).mpr ⟨c', rfl⟩)
  refine ⟨B'ᵀ * B, ?_, ?_, ?_⟩
  · rw [← Matrix.mul_assoc, h1]
  · rw [Matrix.transpose_mul, Matrix.transpose_transpose, Matrix.mul_assoc, ← Matrix.mul_assoc B',
      h1, hB]
  · rw [Matrix.transpose_mul, Matrix.transpose_transpose, Matrix.mul_assoc, ← Matrix.mul_assoc B,
      h2, hB']

/-- P1. Two matrices with orthonormal columns and the same range define the same orthogonal
projector. -/
theorem same_range_same_projector (B : Matrix m k K) (B' : Matrix m k' K)
    (hB : Bᵀ * B = 1) (hB' : B'ᵀ * B' = 1)
    (hrange : ∀ x : m → K, (∃ c : k → K, x = B *ᵥ c) ↔ (∃ c' : k' → K, x = B' *ᵥ c')) :
    B * Bᵀ = B' * B'ᵀ := by
  obtain ⟨Q, hBQ, -, hQQ⟩ := same_range_change_of_basis B B' hB hB' hrange
  rw [hBQ, Matrix.transpose_mul, Matrix.mul_assoc, ← Matrix.mul_assoc Q, hQQ, Matrix.one_mul]

/-- Consequence of P1 the way a user sees it: projecting any vector onto the span gives the same
result with either basis. -/
theorem same_range_same_projection (B : Matrix m k K) (B' : Matrix m k' K)
    (hB : Bᵀ * B = 1) (hB' : B'ᵀ * B' = 1)
    (hrange : ∀ x : m → K, (∃ c : k → K, x = B *ᵥ c) ↔ (∃ c' : k' → K, x = B' *ᵥ c'))
    (x : m → K) : B *ᵥ (Bᵀ *ᵥ x) = B' *ᵥ (B'ᵀ *ᵥ x) := by
  rw [Matrix.mulVec_mulVec, Matrix.mulVec_mulVec, same_range_same_projector B B' hB hB' hrange]

end Algebra

/-! ## P3: the fit depends only on the span (ordered field) -/

section Fit

variable {K : Type*} [Field K] [LinearOrder K] [IsStrictOrderedRing K]
variable {m k k' r : Type*} [Fintype m] [Fintype k] [Fintype k'] [Fintype r]
variable [DecidableEq k] [DecidableEq k']

omit [LinearOrder K] [IsStrictOrderedRing K] [Fintype r] in
/-- Injectivity of the compressed design matrix is itself a property of the span: it transfers from
`X B` to `X B'`. -/
theorem injective_transfers (B : Matrix m k K) (B' : Matrix m k' K)
    (hB : Bᵀ * B = 1) (hB' : B'ᵀ * B' = 1)
    (hrange : ∀ x : m → K, (∃ c : k → K, x = B *ᵥ c) ↔ (∃ c' : k' → K, x = B' *ᵥ c'))
    (X : Matrix r m K) (hinj : Function.Injective (X * B).mulVec) :
    Function.Injective (X * B').mulVec := by
  obtain ⟨Q, hBQ, hQtQ, hQQt⟩ := same_range_change_of_basis B B' hB hB' hrange
  have hB'Q : B' = B * Qᵀ := by
    rw [hBQ, Matrix.mul_assoc, hQQt, Matrix.mul_one]
  intro v w h
  have h' : (X * B) *ᵥ (Qᵀ *ᵥ v) = (X * B) *ᵥ (Qᵀ *ᵥ w) := by
    have e : ∀ u : k' → K, (X * B) *ᵥ (Qᵀ *ᵥ u) = (X * B') *ᵥ u := by
      intro u; rw [Matrix.mulVec_mulVec, Matrix.mul_assoc, ← hB'Q]
    rw [e, e]; exact h
  have h'' : Qᵀ *ᵥ v = Qᵀ *ᵥ w := hinj h'
  have h3 : Q *ᵥ (Qᵀ *ᵥ v) = Q *ᵥ (Qᵀ *ᵥ w) := congrArg (Q *ᵥ ·) h''
  simpa [Matrix.mulVec_mulVec, hQQt] using h3

/-- P3. The fitted force constants `B c` are the same whichever orthonormal basis of the admissible
space the eigen-solver returned.  Injectivity is ASSUMED for `X B` only; for `X B'` it is PROVED
(`injective_transfers`). -/
theorem fit_depends_only_on_the_span (B : Matrix m k K) (B' : Matrix m k' K)
    (hB : Bᵀ * B = 1) (hB' : B'ᵀ * B' = 1)
    (hrange : ∀ x : m → K, (∃ c : k → K, x = B *ᵥ c) ↔ (∃ c' : k' → K, x = B' *ᵥ c'))
    (X : Matrix r m K) (y : r → K) (c : k → K) (c' : k' → K)
    (hc : ((X * B)ᵀ * (X * B)) *ᵥ c = (X * B)ᵀ *ᵥ y)
    (hc' : ((X * B')ᵀ * (X * B')) *ᵥ c' = (X * B')ᵀ *ᵥ y)
    (hinj : Function.Injective (X * B).mulVec) :
    B *ᵥ c = B' *ᵥ c' := by
  have hinj' := injective_transfers B B' hB hB' hrange X hinj
  obtain ⟨Q, hBQ, hQtQ, hQQt⟩ := same_range_change_of_basis B B' hB hB' hrange
  have hB'Q : B' = B * Qᵀ := by
    rw [hBQ, Matrix.mul_assoc, hQQt, Matrix.mul_one]
  -- `Q c` solves the primed normal equations
  have hXB : X * B = (X * B') * Q := by rw [Matrix.mul_assoc, ← hBQ]
  have hXB't : (X * B')ᵀ = Q * (X * B)ᵀ := by
    rw [hB'Q, ← Matrix.mul_assoc, Matrix.transpose_mul, Matrix.transpose_transpose]
  have hQc : ((X * B')ᵀ * (X * B')) *ᵥ (Q *ᵥ c) = (X * B')ᵀ *ᵥ y := by
    calc ((X * B')ᵀ * (X * B')) *ᵥ (Q *ᵥ c)
        = (X * B')ᵀ *ᵥ ((X * B) *ᵥ c) := by
          rw [Matrix.mulVec_mulVec, Matrix.mul_assoc, ← hXB, ← Matrix.mulVec_mulVec]
      _ = Q *ᵥ (((X * B)ᵀ * (X * B)) *ᵥ c) := by
          rw [hXB't]; simp only [Matrix.mulVec_mulVec, Matrix.mul_assoc]
      _ = (X * B')ᵀ *ᵥ y := by
          rw [hc, hXB't, Matrix.mulVec_mulVec]
  have hcc : c' = Q *ᵥ c :=
    normal_eq_unique (X * B') hinj' c' (Q *ᵥ c) (by rw [hc', hQc])
  rw [hcc, Matrix.mulVec_mulVec, ← hBQ]

/-- P3, residual form: the fitted forces `X (B c)` (and hence the residual) agree as well. -/
theorem fitted_forces_depend_only_on_the_span (B : Matrix m k K) (B' : Matrix m k' K)
    (hB : Bᵀ * B = 1) (hB' : B'ᵀ * B' = 1)
    (hrange : ∀ x : m → K, (∃ c : k → K, x = B *ᵥ c) ↔ (∃ c' : k' → K, x = B' *ᵥ c'))
    (X : Matrix r m K) (y : r → K) (c : k → K) (c' : k' → K)
    (hc : ((X * B)ᵀ * (X * B)) *ᵥ c = (X * B)ᵀ *ᵥ y)
    (hc' : ((X * B')ᵀ * (X * B')) *ᵥ c' = (X * B')ᵀ *ᵥ y)
    (hinj : Function.Injective (X * B).mulVec) :
    (X * B) *ᵥ c = (X * B') *ᵥ c' := by
  rw [← Matrix.mulVec_mulVec, ← Matrix.mulVec_mulVec,
    fit_depends_only_on_the_span B B' hB hB' hrange X y c c' hc hc' hinj]

end Fit

/-! ## P4: the eigen contract and the pipeline -/

section Eigen

variable {K : Type*} [Field K]
variable {k k' k'' : Type*} [Fintype k] [Fintype k'] [Fintype k''] [DecidableEq k'] [DecidableEq k'']

/-- Two matrices satisfying the eigen contract for the same `M` have the same range. -/
theorem eigBasis_same_range (M : Matrix k k K) (W : Matrix k k' K) (W' : Matrix k k'' K)
    (h : EigBasis M W) (h' : EigBasis M W') (y : k → K) :
    (∃ z : k' → K, y = W *ᵥ z) ↔ (∃ z' : k'' → K, y = W' *ᵥ z') :=
  (h.2 y).symm.trans (h'.2 y)

/-- P4 (eigen contract). Whatever path the eigen-solver takes, if both results satisfy the contract
`EigBasis M ·` for the same matrix `M`, they define the same projector. -/
theorem eigen_paths_agree (M : Matrix k k K) (W : Matrix k k' K) (W' : Matrix k k'' K)
    (h : EigBasis M W) (h' : EigBasis M W') : W * Wᵀ = W' * W'ᵀ :=
  same_range_same_projector W W' h.1 h'.1 (eigBasis_same_range M W W' h h')

end Eigen

section PipelinePaths

variable {K : Type*} [Field K] [LinearOrder K] [IsStrictOrderedRing K]
variable {m k₁ k₂ k₃ k₂' k₃' r r' : Type*}
variable [Fintype m] [Fintype k₁] [Fintype k₂] [Fintype k₃] [Fintype k₂'] [Fintype k₃'] [Fintype r]
variable [Fintype r']
variable [DecidableEq m] [DecidableEq k₁] [DecidableEq k₂] [DecidableEq k₃] [DecidableEq k₂']
variable [DecidableEq k₃']

/-- Two runs of the pipeline (same `A`, `P`, `T`, `ν`; arbitrary eigen bases) span the same space. -/
theorem pipeline_paths_same_range (A : Matrix m k₁ K) (P : Matrix m m K) (T : Matrix r m K) (ν : K)
    (W₂ : Matrix k₁ k₂ K) (W₃ : Matrix k₂ k₃ K) (W₂' : Matrix k₁ k₂' K) (W₃' : Matrix k₂' k₃' K)
    (hA : Aᵀ * A = 1)
    (h₂ : EigBasis (Aᵀ * P * A) W₂) (h₃ : EigBasis (sumruleProj (A * W₂) T ν) W₃)
    (h₂' : EigBasis (Aᵀ * P * A) W₂') (h₃' : EigBasis (sumruleProj (A * W₂') T ν) W₃')
    (hPs : Pᵀ = P) (hPi : P * P = P) (hν : 0 < ν) (x : m → K) :
    (∃ w : k₃ → K, x = (A * W₂ * W₃) *ᵥ w) ↔ (∃ w' : k₃' → K, x = (A * W₂' * W₃') *ᵥ w') :=
  (pipeline_range A P T ν W₂ W₃ hA h₂ h₃ hPs hPi hν x).trans
    (pipeline_range A P T ν W₂' W₃' hA h₂' h₃' hPs hPi hν x).symm

/-- P4 (pipeline). Two runs with eigen bases `(W₂, W₃)` and `(W₂', W₃')` give the same projector
`B Bᵀ`, `B = A W₂ W₃`. -/
theorem pipeline_paths_agree (A : Matrix m k₁ K) (P : Matrix m m K) (T : Matrix r m K) (ν : K)
    (W₂ : Matrix k₁ k₂ K) (W₃ : Matrix k₂ k₃ K) (W₂' : Matrix k₁ k₂' K) (W₃' : Matrix k₂' k₃' K)
    (hA : Aᵀ * A = 1)
    (h₂ : EigBasis (Aᵀ * P * A) W₂) (h₃ : EigBasis (sumruleProj (A * W₂) T ν) W₃)
    (h₂' : EigBasis (Aᵀ * P * A) W₂') (h₃' : EigBasis (sumruleProj (A * W₂') T ν) W₃')
    (hPs : Pᵀ = P) (hPi : P * P = P) (hν : 0 < ν) :
    (A * W₂ * W₃) * (A * W₂ * W₃)ᵀ = (A * W₂' * W₃') * (A * W₂' * W₃')ᵀ :=
  same_range_same_projector _ _
    (pipeline_orthonormal A P T ν W₂ W₃ hA h₂ h₃)
    (pipeline_orthonormal A P T ν W₂' W₃' hA h₂' h₃')
    (pipeline_paths_same_range A P T ν W₂ W₃ W₂' W₃' hA h₂ h₃ h₂' h₃' hPs hPi hν)

/-- P4 + P3 (pipeline). Two runs of the pipeline followed by the fit return the same force
constants. -/
theorem pipeline_paths_same_fit (A : Matrix m k₁ K) (P : Matrix m m K) (T : Matrix r m K) (ν : K)
    (W₂ : Matrix k₁ k₂ K) (W₃ : Matrix k₂ k₃ K) (W₂' : Matrix k₁ k₂' K) (W₃' : Matrix k₂' k₃' K)
    (hA : Aᵀ * A = 1)
    (h₂ : EigBasis (Aᵀ * P * A) W₂) (h₃ : EigBasis (sumruleProj (A * W₂) T ν) W₃)
    (h₂' : EigBasis (Aᵀ * P * A) W₂') (h₃' : EigBasis (sumruleProj (A * W₂') T ν) W₃')
    (hPs : Pᵀ = P) (hPi : P * P = P) (hν : 0 < ν)
    (X : Matrix r' m K) (y : r' → K) (c : k₃ → K) (c' : k₃' → K)
    (hc : ((X * (A * W₂ * W₃))ᵀ * (X * (A * W₂ * W₃))) *ᵥ c = (X * (A * W₂ * W₃))ᵀ *ᵥ y)
    (hc' : ((X * (A * W₂' * W₃'))ᵀ * (X * (A * W₂' * W₃'))) *ᵥ c' = (X * (A * W₂' * W₃'))ᵀ *ᵥ y)
    (hinj : Function.Injective (X * (A * W₂ * W₃)).mulVec) :
    (A * W₂ * W₃) *ᵥ c = (A * W₂' * W₃') *ᵥ c' :=
  fit_depends_only_on_the_span _ _
    (pipeline_orthonormal A P T ν W₂ W₃ hA h₂ h₃)
    (pipeline_orthonormal A P T ν W₂' W₃' hA h₂' h₃')
    (pipeline_paths_same_range A P T ν W₂ W₃ W₂' W₃' hA h₂ h₃ h₂' h₃' hPs hPi hν)
    X y c c' hc hc' hinj

end PipelinePaths

/-! ## P5: non-vacuity over ℚ

The plane `z = 0` of `ℚ³` with the standard basis `B₀ = (e₀ e₁)` and the rotated basis
`B₁ = (3/5 e₀ + 4/5 e₁, −4/5 e₀ + 3/5 e₁)`.  The two matrices are different, both have orthonormal
columns and the same range; hence all hypotheses of P1–P3 are simultaneously satisfiable. -/

section Example

private def B₀ : Matrix (Fin 3) (Fin 2) ℚ := !![1, 0; 0, 1; 0, 0]
private def B₁ : Matrix (Fin 3) (Fin 2) ℚ := !![3/5, -4/5; 4/5, 3/5; 0, 0]

private theorem B₀_orth : B₀ᵀ * B₀ = 1 := by
  ext i j; fin_cases i <;> fin_cases j <;> simp [B₀, Matrix.mul_apply, Fin.sum_univ_three]

private theorem B₁_orth : B₁ᵀ * B₁ = 1 := by
  ext i j; fin_cases i <;> fin_cases j <;>
    norm_num [B₁, Matrix.mul_apply, Fin.sum_univ_three, Matrix.cons_val_two, Matrix.tail_cons,
      Matrix.head_cons]

private theorem B₀₁_range (x : Fin 3 → ℚ) :
    (∃ c : Fin 2 → ℚ, x = B₀ *ᵥ c) ↔ (∃ c' : Fin 2 → ℚ, x = B₁ *ᵥ c') := by
  constructor
  · rintro ⟨c, rfl⟩
    refine ⟨![3/5 * c 0 + 4/5 * c 1, -4/5 * c 0 + 3/5 * c 1], ?_⟩
    ext i; fin_cases i <;>
      simp [B₀, B₁, Matrix.mulVec, dotProduct, Fin.sum_univ_two]
    all_goals ring
  · rintro ⟨c, rfl⟩
    refine ⟨![3/5 * c 0 - 4/5 * c 1, 4/5 * c 0 + 3/5 * c 1], ?_⟩
    ext i; fin_cases i <;>
      simp [B₀, B₁, Matrix.mulVec, dotProduct, Fin.sum_univ_two]
    all_goals ring

/-- the two bases are different matrices … -/
example : B₀ ≠ B₁ := by
  intro h
  have := congrFun (congrFun h 0) 0
  norm_num [B₀, B₁] at this

/-- … but define the same projector (P1 applied to concrete data) … -/
example : B₀ * B₀ᵀ = B₁ * B₁ᵀ :=
  same_range_same_projector B₀ B₁ B₀_orth B₁_orth B₀₁_range

/-- … which is `diag(1,1,0)`. -/
example : B₁ * B₁ᵀ = !![1, 0, 0; 0, 1, 0; 0, 0, 0] := by
  ext i j; fin_cases i <;> fin_cases j <;>
    norm_num [B₁, Matrix.mul_apply, Fin.sum_univ_two]

/-- P2 on the concrete data. -/
example : ∃ Q : Matrix (Fin 2) (Fin 2) ℚ, B₀ = B₁ * Q ∧ Qᵀ * Q = 1 ∧ Q * Qᵀ = 1 :=
  same_range_change_of_basis B₀ B₁ B₀_orth B₁_orth B₀₁_range

/-- P3 on the concrete data: `X = 1`, `y = (1, 2, 7)`; the fit with `B₀` has coefficients `(1, 2)`,
the fit with `B₁` has the different coefficients `(11/5, 2/5)`, and both give the force constants
`(1, 2, 0)`. -/
example : B₀ *ᵥ ![1, 2] = B₁ *ᵥ ![11/5, 2/5] := by
  refine fit_depends_only_on_the_span B₀ B₁ B₀_orth B₁_orth B₀₁_range 1 ![1, 2, 7] _ _ ?_ ?_ ?_
  · rw [Matrix.one_mul, B₀_orth, Matrix.one_mulVec]
    ext i; fin_cases i <;>
      simp [B₀, Matrix.mulVec, dotProduct, Fin.sum_univ_three, Matrix.cons_val_two,
        Matrix.tail_cons, Matrix.head_cons]
  · rw [Matrix.one_mul, B₁_orth, Matrix.one_mulVec]
    ext i; fin_cases i <;>
      norm_num [B₁, Matrix.mulVec, dotProduct, Fin.sum_univ_three, Matrix.cons_val_two,
        Matrix.tail_cons, Matrix.head_cons]
  · rw [Matrix.one_mul]
    exact injective_of_orthonormal B₀ B₀_orth

example : B₀ *ᵥ ![1, 2] = ![1, 2, 0] := by
  ext i; fin_cases i <;> simp [B₀, Matrix.mulVec, dotProduct, Fin.sum_univ_two]

end Example

end Symfc.SpanIndep
