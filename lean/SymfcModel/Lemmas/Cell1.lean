/-
  Lemmas/Cell1.lean — Part 1: Prop-level group facts extracted from the Bool `Cell.wf`.
-/
import SymfcModel.Model.Cell
namespace Symfc

/-! ### Pigeonhole -/

/-- An injective self-map of `{0,..,n-1}` is surjective. -/
theorem surj_of_inj_lt : ∀ (n : Nat) (f : Nat → Nat), (∀ i, i < n → f i < n) →
    (∀ i j, i < n → j < n → f i = f j → i = j) → ∀ j, j < n → ∃ i, i < n ∧ f i = j := by
  intro n
  induction n with
  | zero => intro f _ _ j hj; omega
  | succ n ih =>
    intro f hlt hinj j hj
    -- g swaps the value `n` for `f n`
    let g : Nat → Nat := fun i => if f i = n then f n else f i
    have hg_lt : ∀ i, i < n → g i < n := by
      intro i hi
      simp only [g]
      split
      · next h =>
        have h1 := hlt n (by omega)
        have h2 : f n ≠ n := by
          intro h3
          have := hinj i n (by omega) (by omega) (by omega)
          omega
        omega
      · next h =>
        have h1 := hlt i (by omega)
        omega
    have hg_inj : ∀ i j, i < n → j < n → g i = g j → i = j := by
      intro i j hi hj'
      simp only [g]
      split <;> split
      · next h1 h2 => intro _; exact hinj i j (by omega) (by omega) (by omega)
      · next h1 h2 =>
        intro h3
        have := hinj n j (by omega) (by omega) h3
        omega
      · next h1 h2 =>
        intro h3
        have := hinj i n (by omega) (by omega) h3
        omega
      · next h1 h2 => intro h3; exact hinj i j (by omega) (by omega) h3
    have hsurj := ih g hg_lt hg_inj
    by_cases hjn : j = n
    · subst hjn
      by_cases hfn : f j = j
      · exact ⟨j, by omega, hfn⟩
      · have h1 := hlt j (by omega)
        obtain ⟨i, hi, hgi⟩ := hsurj (f j) (by omega)
        simp only [g] at hgi
        split at hgi
        · next h => exact ⟨i, by omega, h⟩
        · next h =>
          have := hinj i j (by omega) (by omega) hgi
          omega
    · obtain ⟨i, hi, hgi⟩ := hsurj j (by omega)
      simp only [g] at hgi
      split at hgi
      · next h => exact ⟨n, by omega, hgi⟩
      · next h => exact ⟨i, by omega, hgi⟩

/-- A map `g` on `{0,..,n-1}` that hits every `j < n` maps into `{0,..,n-1}` and is injective. -/
theorem into_inj_of_surj (n : Nat) (g : Nat → Nat)
    (hs : ∀ j, j < n → ∃ i, i < n ∧ g i = j) :
    (∀ i, i < n → g i < n) ∧ (∀ i j, i < n → j < n → g i = g j → i = j) := by
  -- a right inverse
  let h : Nat → Nat := fun j => if hj : j < n then Classical.choose (hs j hj) else 0
  have hh : ∀ j, j < n → h j < n ∧ g (h j) = j := by
    intro j hj
    simp only [h, hj, dite_true]
    exact Classical.choose_spec (hs j hj)
  have hinj : ∀ i j, i < n → j < n → h i = h j → i = j := by
    intro i j hi hj e
    have h1 := (hh i hi).2
    have h2 := (hh j hj).2
    rw [e] at h1
    omega
  have hsurj := surj_of_inj_lt n h (fun j hj => (hh j hj).1) hinj
  constructor
  · intro i hi
    obtain ⟨j, hj, e⟩ := hsurj i hi
    rw [← e, (hh j hj).2]; exact hj
  · intro i i' hi hi' e
    obtain ⟨j, hj, ej⟩ := hsurj i hi
    obtain ⟨j', hj', ej'⟩ := hsurj i' hi'
    rw [← ej, ← ej', (hh j hj).2, (hh j' hj').2] at e
    rw [← ej, ← ej', e]

/-- Minimum of a function on a nonempty initial segment. -/
theorem exists_min_lt (f : Nat → Nat) : ∀ n, 0 < n → ∃ l, l < n ∧ ∀ m, m < n → f l ≤ f m := by
  intro n
  induction n with
  | zero => intro h; omega
  | succ n ih =>
    intro _
    by_cases hn : n = 0
    · subst hn
      refine ⟨0, by omega, fun m hm => ?_⟩
      have : m = 0 := by omega
      subst this; exact Nat.le_refl _
    · obtain ⟨l, hl, hmin⟩ := ih (by omega)
      by_cases hc : f n < f l
      · refine ⟨n, by omega, fun m hm => ?_⟩
        by_cases hmn : m = n
        · subst hmn; exact Nat.le_refl _
        · have := hmin m (by omega); omega
      · refine ⟨l, by omega, fun m hm => ?_⟩
        by_cases hmn : m = n
        · subst hmn; omega
        · exact hmin m (by omega)

namespace Cell

/-! ### Prop-level well-formedness -/

/-- Prop-level content of `Cell.wf`. -/
structure WF (c : Cell) : Prop where
  nlp_pos : 0 < c.nlp
  img_lt : ∀ l i, l < c.nlp → i < c.N → c.img l i < c.N
  img_zero : ∀ i, i < c.N → c.img 0 i = i
  img_inj : ∀ l i j, l < c.nlp → i < c.N → j < c.N → c.img l i = c.img l j → i = j
  img_surj : ∀ l j, l < c.nlp → j < c.N → ∃ i, i < c.N ∧ c.img l i = j
  closure : ∀ l m, l < c.nlp → m < c.nlp →
    ∃ k, k < c.nlp ∧ ∀ i, i < c.N → c.img k i = c.img l (c.img m i)
  free : ∀ l m, l < c.nlp → m < c.nlp → l ≠ m → ∀ i, i < c.N → c.img l i ≠ c.img m i

theorem isPermRow_surj (N : Nat) (row : Array Nat) (h : isPermRow N row = true) :
    ∀ j, j < N → ∃ i, i < N ∧ row.getD i N = j := by
  simp only [isPermRow, Bool.and_eq_true, beq_iff_eq, List.all_eq_true, List.mem_range] at h
  obtain ⟨hsz, hcnt⟩ := h
  intro j hj
  have h1 := hcnt j hj
  have hmem : j ∈ row.toList := by
    apply List.count_pos_iff.mp
    omega
  obtain ⟨i, hi, e⟩ := List.mem_iff_getElem.mp hmem
  simp only [Array.length_toList] at hi
  refine ⟨i, by omega, ?_⟩
  simp only [Array.getD, hi, dite_true]
  simpa using e

theorem wf_iff_aux (c : Cell) (hwf : c.wf = true) :
    0 < c.nlp ∧ (∀ l, (h : l < c.nlp) → isPermRow c.N (c.tp[l]'h) = true) ∧
    (∀ i, i < c.N → c.img 0 i = i) ∧
    (∀ l m, l < c.nlp → m < c.nlp →
      ∃ k, k < c.nlp ∧ ∀ i, i < c.N → c.img k i = c.img l (c.img m i)) ∧
    (∀ l m, l < c.nlp → m < c.nlp → l ≠ m → ∀ i, i < c.N → c.img l i ≠ c.img m i) := by
  simp only [wf, Bool.and_eq_true, decide_eq_true_eq, List.all_eq_true, List.mem_range,
    beq_iff_eq, List.any_eq_true, Bool.or_eq_true, bne_iff_ne, ne_eq, Array.all_eq_true] at hwf
  obtain ⟨⟨⟨⟨h0, hperm⟩, hz⟩, hcl⟩, hfree⟩ := hwf
  refine ⟨h0, ?_, hz, ?_, ?_⟩
  · intro l hl; exact hperm l hl
  · intro l m hl hm
    obtain ⟨k, hk, hki⟩ := hcl l hl m hm
    exact ⟨k, hk, hki⟩
  · intro l m hl hm hne i hi
    rcases hfree l hl m hm with h | h
    · exact absurd h hne
    · exact h i hi

theorem img_eq_getD (c : Cell) (l : Nat) (hl : l < c.nlp) (i : Nat) :
    c.img l i = (c.tp[l]'hl).getD i c.N := by
  have : l < c.tp.size := hl
  have e : c.tp.getD l #[] = c.tp[l]'hl := by simp [this]; rfl
  simp only [img, e]

theorem wf_WF (c : Cell) (hwf : c.wf = true) : WF c := by
  obtain ⟨h0, hperm, hz, hcl, hfree⟩ := wf_iff_aux c hwf
  have hs : ∀ l, l < c.nlp → ∀ j, j < c.N → ∃ i, i < c.N ∧ c.img l i = j := by
    intro l hl j hj
    obtain ⟨i, hi, e⟩ := isPermRow_surj c.N _ (hperm l hl) j hj
    exact ⟨i, hi, by rw [img_eq_getD c l hl]; exact e⟩
  refine ⟨h0, ?_, hz, ?_, ?_, hcl, hfree⟩
  · intro l i hl hi
    exact (into_inj_of_surj c.N (c.img l) (hs l hl)).1 i hi
  · intro l i j hl hi hj
    exact (into_inj_of_surj c.N (c.img l) (hs l hl)).2 i j hi hj
  · intro l j hl hj; exact hs l hl j hj

/-! ### Group facts -/

theorem WF.img_zero_lt {c : Cell} (h : WF c) (i : Nat) (hi : i < c.N) : c.img 0 i = i :=
  h.img_zero i hi

/-- freeness in the contrapositive form -/
theorem WF.free' {c : Cell} (h : WF c) {l m i : Nat} (hl : l < c.nlp) (hm : m < c.nlp)
    (hi : i < c.N) (e : c.img l i = c.img m i) : l = m :=
  Classical.byContradiction fun hne => h.free l m hl hm hne i hi e

/-- every translation has an inverse translation -/
theorem WF.inverse {c : Cell} (h : WF c) (l : Nat) (hl : l < c.nlp) :
    ∃ k, k < c.nlp ∧ ∀ i, i < c.N → c.img k (c.img l i) = i ∧ c.img l (c.img k i) = i := by
  by_cases hN : c.N = 0
  · exact ⟨0, h.nlp_pos, fun i hi => by omega⟩
  · -- φ m = index of (l ∘ m)
    let φ : Nat → Nat := fun m => if hm : m < c.nlp then Classical.choose (h.closure l m hl hm) else 0
    have hφ : ∀ m, m < c.nlp → φ m < c.nlp ∧ ∀ i, i < c.N → c.img (φ m) i = c.img l (c.img m i) := by
      intro m hm
      simp only [φ, hm, dite_true]
      exact Classical.choose_spec (h.closure l m hl hm)
    have hinj : ∀ m m', m < c.nlp → m' < c.nlp → φ m = φ m' → m = m' := by
      intro m m' hm hm' e
      have h1 := (hφ m hm).2 0 (by omega)
      have h2 := (hφ m' hm').2 0 (by omega)
      rw [e] at h1
      have h3 := h.img_inj l _ _ hl (h.img_lt m 0 hm (by omega)) (h.img_lt m' 0 hm' (by omega))
        (h1.symm.trans h2)
      exact h.free' hm hm' (by omega) h3
    obtain ⟨k, hk, ek⟩ := surj_of_inj_lt c.nlp φ (fun m hm => (hφ m hm).1) hinj 0 h.nlp_pos
    refine ⟨k, hk, fun i hi => ?_⟩
    have hr : ∀ i, i < c.N → c.img l (c.img k i) = i := by
      intro i hi
      have := (hφ k hk).2 i hi
      rw [ek, h.img_zero i hi] at this
      exact this.symm
    refine ⟨?_, hr i hi⟩
    have hli := h.img_lt l i hl hi
    exact h.img_inj l _ _ hl (h.img_lt k _ hk hli) hi (hr _ hli)

/-- `i` and `j` are related by a lattice translation -/
def sameOrbit (c : Cell) (i j : Nat) : Prop := ∃ l, l < c.nlp ∧ c.img l i = j

theorem WF.sameOrbit_refl {c : Cell} (h : WF c) {i : Nat} (hi : i < c.N) : sameOrbit c i i :=
  ⟨0, h.nlp_pos, h.img_zero i hi⟩

theorem WF.sameOrbit_symm {c : Cell} (h : WF c) {i j : Nat} (hi : i < c.N)
    (hij : sameOrbit c i j) : sameOrbit c j i := by
  obtain ⟨l, hl, e⟩ := hij
  obtain ⟨k, hk, hinv⟩ := h.inverse l hl
  exact ⟨k, hk, by rw [← e]; exact (hinv i hi).1⟩

theorem WF.sameOrbit_trans {c : Cell} (h : WF c) {i j k : Nat} (hi : i < c.N)
    (hij : sameOrbit c i j) (hjk : sameOrbit c j k) : sameOrbit c i k := by
  obtain ⟨l, hl, e⟩ := hij
  obtain ⟨m, hm, e'⟩ := hjk
  obtain ⟨p, hp, hc⟩ := h.closure m l hm hl
  exact ⟨p, hp, by rw [hc i hi, e, e']⟩

theorem WF.sameOrbit_lt {c : Cell} (h : WF c) {i j : Nat} (hi : i < c.N)
    (hij : sameOrbit c i j) : j < c.N := by
  obtain ⟨l, hl, e⟩ := hij
  rw [← e]; exact h.img_lt l i hl hi

/-- the orbit of atom `i`, listed by translation index -/
def orbitList (c : Cell) (i : Nat) : List Nat := (List.range c.nlp).map (fun l => c.img l i)

theorem mem_orbitList (c : Cell) (i j : Nat) : j ∈ orbitList c i ↔ sameOrbit c i j := by
  simp only [orbitList, List.mem_map, List.mem_range, sameOrbit]

theorem length_orbitList (c : Cell) (i : Nat) : (orbitList c i).length = c.nlp := by
  simp [orbitList]

theorem nodup_map_range {α} (f : Nat → α) (n : Nat)
    (hinj : ∀ i j, i < n → j < n → f i = f j → i = j) : ((List.range n).map f).Nodup := by
  rw [List.Nodup, List.pairwise_map]
  refine List.Pairwise.imp_of_mem ?_ (List.nodup_range (n := n))
  intro a b ha hb hne e
  exact hne (hinj a b (List.mem_range.mp ha) (List.mem_range.mp hb) e)

/-- each orbit has exactly `nlp` members: `orbitList` has length `nlp` and no duplicates -/
theorem WF.nodup_orbitList {c : Cell} (h : WF c) {i : Nat} (hi : i < c.N) :
    (orbitList c i).Nodup :=
  nodup_map_range _ _ fun _ _ hl hm e => h.free' hl hm hi e

/-- counting form: exactly `nlp` atoms of `range N` are in the orbit of `i` -/
theorem WF.orbit_card {c : Cell} (h : WF c) {i : Nat} (hi : i < c.N) :
    ((List.range c.N).filter (fun j => decide (j ∈ orbitList c i))).length = c.nlp := by
  have hp : ((List.range c.N).filter (fun j => decide (j ∈ orbitList c i))).Perm (orbitList c i) := by
    rw [List.perm_ext_iff_of_nodup (List.nodup_range.filter _) (h.nodup_orbitList hi)]
    intro a
    simp only [List.mem_filter, List.mem_range, decide_eq_true_eq]
    constructor
    · exact fun x => x.2
    · intro ha
      exact ⟨h.sameOrbit_lt hi ((mem_orbitList c i a).mp ha), ha⟩
  rw [hp.length_eq, length_orbitList]

end Cell
end Symfc
