/-
  Lemmas/EigAssemble.lean — the column placement of `_recover_eigvecs_from_uniq_eigvecs`
  (`Symfc.placement`): closed form, total number of columns, source of every written entry,
  no double writes, column ownership by blocks and completeness.  Core Lean only.
-/
import SymfcModel.Model.Eig
namespace Symfc

/-! ### the loop body and the closed form -/

/-- output tuple type `(row, col, ei, r, c)` -/
abbrev PlEntry := Nat × Nat × Nat × Nat × Nat

/-- the entries written for unique entry `e` (index `ei`, `nc` eigenvectors, first column `colId`) -/
def entryOut (blocks : List (List Nat)) (ei nc colId : Nat) (e : UniqEntry) : List PlEntry :=
  (e.labels.zipIdx).flatMap (fun (p : Nat × Nat) =>
    ((blocks.getD p.1 []).zipIdx).flatMap (fun (q : Nat × Nat) =>
      (List.range nc).map (fun c => (q.1, colId + p.2 * nc + c, ei, q.2, c))))

/-- the loop body of `placement` -/
def placeStep (blocks : List (List Nat)) (ncols : List Nat) (acc : List PlEntry × Nat)
    (p : UniqEntry × Nat) : List PlEntry × Nat :=
  if ncols.getD p.2 0 == 0 then acc
  else (acc.1 ++ entryOut blocks p.2 (ncols.getD p.2 0) acc.2 p.1,
        acc.2 + ncols.getD p.2 0 * p.1.labels.length)

theorem placement_eq (blocks : List (List Nat)) (ents : List UniqEntry) (ncols : List Nat) :
    placement blocks ents ncols = (ents.zipIdx).foldl (placeStep blocks ncols) ([], 0) := rfl

/-- number of columns contributed by the entry `p = (e, ei)` -/
def entW (ncols : List Nat) (p : UniqEntry × Nat) : Nat := ncols.getD p.2 0 * p.1.labels.length

/-- first column of entry `k`: `Σ_{e < k} ncols[e] * ents[e].labels.length` -/
def colBase (ents : List UniqEntry) (ncols : List Nat) (k : Nat) : Nat :=
  (((ents.zipIdx).take k).map (entW ncols)).sum

theorem entryOut_zero (blocks : List (List Nat)) (ei colId : Nat) (e : UniqEntry) :
    entryOut blocks ei 0 colId e = [] := by
  simp [entryOut]

theorem colBase_zero (ents : List UniqEntry) (ncols : List Nat) : colBase ents ncols 0 = 0 := by
  simp [colBase]

theorem colBase_succ (ents : List UniqEntry) (ncols : List Nat) {k : Nat} (hk : k < ents.length) :
    colBase ents ncols (k + 1) = colBase ents ncols k + ncols.getD k 0 * ents[k].labels.length := by
  unfold colBase
  rw [List.take_succ_eq_append_getElem (by simpa using hk), List.map_append, List.sum_append_nat]
  simp [entW]

/-- the generator of the closed form -/
def placeGen (blocks : List (List Nat)) (ents : List UniqEntry) (ncols : List Nat)
    (p : UniqEntry × Nat) : List PlEntry :=
  entryOut blocks p.2 (ncols.getD p.2 0) (colBase ents ncols p.2) p.1

theorem placement_prefix (blocks : List (List Nat)) (ents : List UniqEntry) (ncols : List Nat)
    (k : Nat) (hk : k ≤ ents.length) :
    ((ents.zipIdx).take k).foldl (placeStep blocks ncols) ([], 0)
      = (((ents.zipIdx).take k).flatMap (placeGen blocks ents ncols), colBase ents ncols k) := by
  induction k with
  | zero => simp [colBase]
  | succ k ih =>
    have hk' : k < ents.length := hk
    have hkz : k < (ents.zipIdx).length := by simpa using hk'
    rw [List.take_succ_eq_append_getElem hkz, List.foldl_append, ih (Nat.le_of_lt hk'),
      List.flatMap_append, colBase_succ ents ncols hk']
    simp only [List.foldl_cons, List.foldl_nil, List.getElem_zipIdx, Nat.zero_add,
      List.flatMap_cons, List.flatMap_nil, List.append_nil]
    unfold placeStep placeGen
    generalize ncols.getD k 0 = nc
    by_cases h0 : nc = 0
    · subst h0; simp [entryOut_zero]
    · simp [h0]

/-- **closed form** of `placement` -/
theorem placement_closed (blocks : List (List Nat)) (ents : List UniqEntry) (ncols : List Nat) :
    placement blocks ents ncols
      = ((ents.zipIdx).flatMap (placeGen blocks ents ncols), colBase ents ncols ents.length) := by
  have h := placement_prefix blocks ents ncols ents.length (Nat.le_refl _)
  have hl : (ents.zipIdx).take ents.length = ents.zipIdx :=
    List.take_of_length_le (by simp)
  rw [hl] at h
  rw [placement_eq, h]

/-! ### A1: total number of columns -/

/-- **A1** `total = Σ_e ncols[e] * ents[e].labels.length` (no hypotheses needed) -/
theorem placement_total (blocks : List (List Nat)) (ents : List UniqEntry) (ncols : List Nat) :
    (placement blocks ents ncols).2
      = ((ents.zipIdx).map (fun p => ncols.getD p.2 0 * p.1.labels.length)).sum := by
  rw [placement_closed]
  show colBase ents ncols ents.length = _
  unfold colBase
  rw [List.take_of_length_le (by simp)]
  rfl

theorem placement_total_eq_colBase (blocks : List (List Nat)) (ents : List UniqEntry)
    (ncols : List Nat) : (placement blocks ents ncols).2 = colBase ents ncols ents.length := by
  rw [placement_closed]

/-! ### arithmetic of the column layout -/

theorem colBase_mono (ents : List UniqEntry) (ncols : List Nat) {k k' : Nat} (h : k ≤ k')
    (hk' : k' ≤ ents.length) : colBase ents ncols k ≤ colBase ents ncols k' := by
  induction k' with
  | zero =>
    have : k = 0 := by omega
    subst this; exact Nat.le_refl _
  | succ j ih =>
    by_cases hj : k = j + 1
    · subst hj; exact Nat.le_refl _
    · have h1 := ih (by omega) (by omega)
      rw [colBase_succ ents ncols (show j < ents.length by omega)]
      omega

theorem colBase_next_le (ents : List UniqEntry) (ncols : List Nat) {k k' : Nat} (h : k < k')
    (hk' : k' ≤ ents.length) :
    colBase ents ncols k + ncols.getD k 0 * (ents[k]'(by omega)).labels.length
      ≤ colBase ents ncols k' := by
  rw [← colBase_succ ents ncols (show k < ents.length by omega)]
  exact colBase_mono ents ncols h hk'

theorem seq_col_lt {seq len c nc : Nat} (hs : seq < len) (hc : c < nc) :
    seq * nc + c < nc * len := by
  have h1 : (seq + 1) * nc ≤ len * nc := Nat.mul_le_mul_right nc hs
  rw [Nat.succ_mul, Nat.mul_comm len nc] at h1
  omega

theorem seq_col_unique {seq seq' c c' nc : Nat} (hc : c < nc) (hc' : c' < nc)
    (h : seq * nc + c = seq' * nc + c') : seq = seq' ∧ c = c' := by
  have key : ∀ {a b x y : Nat}, x < nc → y < nc → a * nc + x = b * nc + y → ¬ a < b := by
    intro a b x y hx hy he hab
    have h1 : (a + 1) * nc ≤ b * nc := Nat.mul_le_mul_right nc hab
    rw [Nat.succ_mul] at h1
    omega
  have h1 := key hc hc' h
  have h2 := key hc' hc h.symm
  have hs : seq = seq' := by omega
  subst hs
  exact ⟨rfl, by omega⟩

/-! ### membership -/

theorem mem_entryOut {blocks : List (List Nat)} {ei nc colId : Nat} {e : UniqEntry} {t : PlEntry} :
    t ∈ entryOut blocks ei nc colId e ↔
      ∃ seq r c, ∃ (hs : seq < e.labels.length) (hr : r < (blocks.getD e.labels[seq] []).length),
        c < nc ∧ t = ((blocks.getD e.labels[seq] [])[r], colId + seq * nc + c, ei, r, c) := by
  simp only [entryOut, List.mem_flatMap, List.mem_map, List.mem_range, Prod.exists,
    List.mk_mem_zipIdx_iff_getElem?, List.getElem?_eq_some_iff]
  constructor
  · rintro ⟨bl, seq, ⟨hs, rfl⟩, row, r, ⟨hr, rfl⟩, c, hc, rfl⟩
    exact ⟨seq, r, c, hs, hr, hc, rfl⟩
  · rintro ⟨seq, r, c, hs, hr, hc, rfl⟩
    exact ⟨_, seq, ⟨hs, rfl⟩, _, r, ⟨hr, rfl⟩, c, hc, rfl⟩

/-- **A2 + A5 as one equivalence**: the written entries are exactly the tuples
    `(block[r], base(ei) + seq * nc + c, ei, r, c)` -/
theorem mem_placement {blocks : List (List Nat)} {ents : List UniqEntry} {ncols : List Nat}
    {t : PlEntry} :
    t ∈ (placement blocks ents ncols).1 ↔
      ∃ ei seq r c, ∃ (he : ei < ents.length) (hs : seq < ents[ei].labels.length)
        (hr : r < (blocks.getD ents[ei].labels[seq] []).length),
        c < ncols.getD ei 0 ∧
        t = ((blocks.getD ents[ei].labels[seq] [])[r],
              colBase ents ncols ei + seq * ncols.getD ei 0 + c, ei, r, c) := by
  rw [placement_closed]
  simp only [List.mem_flatMap, Prod.exists, List.mk_mem_zipIdx_iff_getElem?,
    List.getElem?_eq_some_iff, placeGen, mem_entryOut]
  constructor
  · rintro ⟨e, ei, ⟨he, rfl⟩, seq, r, c, hs, hr, hc, rfl⟩
    exact ⟨ei, seq, r, c, he, hs, hr, hc, rfl⟩
  · rintro ⟨ei, seq, r, c, he, hs, hr, hc, rfl⟩
    exact ⟨_, ei, ⟨he, rfl⟩, seq, r, c, hs, hr, hc, rfl⟩

/-- **A2** every written entry comes from a valid source and lands inside the output -/
theorem placement_sound {blocks : List (List Nat)} {ents : List UniqEntry} {ncols : List Nat}
    {row col ei r c : Nat} (h : (row, col, ei, r, c) ∈ (placement blocks ents ncols).1) :
    ∃ (he : ei < ents.length), c < ncols.getD ei 0 ∧ col < (placement blocks ents ncols).2 ∧
      ∃ seq, ∃ (hs : seq < ents[ei].labels.length)
        (hr : r < (blocks.getD ents[ei].labels[seq] []).length),
        row = (blocks.getD ents[ei].labels[seq] [])[r] ∧
        col = colBase ents ncols ei + seq * ncols.getD ei 0 + c := by
  obtain ⟨ei', seq, r', c', he, hs, hr, hc, heq⟩ := mem_placement.mp h
  simp only [Prod.mk.injEq] at heq
  obtain ⟨rfl, rfl, rfl, rfl, rfl⟩ := heq
  refine ⟨he, hc, ?_, seq, hs, hr, rfl, rfl⟩
  rw [placement_total_eq_colBase]
  have h1 := colBase_next_le ents ncols he (Nat.le_refl _)
  have h2 := seq_col_lt hs hc
  omega

/-- the column determines the entry, the label position and the eigenvector index -/
theorem col_decode {ents : List UniqEntry} {ncols : List Nat} {ei ei' seq seq' c c' : Nat}
    (he : ei < ents.length) (he' : ei' < ents.length)
    (hs : seq < ents[ei].labels.length) (hs' : seq' < ents[ei'].labels.length)
    (hc : c < ncols.getD ei 0) (hc' : c' < ncols.getD ei' 0)
    (h : colBase ents ncols ei + seq * ncols.getD ei 0 + c
        = colBase ents ncols ei' + seq' * ncols.getD ei' 0 + c') :
    ei = ei' ∧ seq = seq' ∧ c = c' := by
  have key : ∀ {a b s s' x y : Nat} (ha : a < ents.length) (hb : b < ents.length),
      s < ents[a].labels.length → x < ncols.getD a 0 →
      colBase ents ncols a + s * ncols.getD a 0 + x = colBase ents ncols b + s' * ncols.getD b 0 + y →
      ¬ a < b := by
    intro a b s s' x y ha hb hs hx he hab
    have h1 := colBase_next_le ents ncols hab (Nat.le_of_lt hb)
    have h2 := seq_col_lt hs hx
    omega
  have h1 := key he he' hs hc h
  have h2 := key he' he hs' hc' h.symm
  have hee : ei = ei' := by omega
  subst hee
  have := seq_col_unique hc hc' (by omega : seq * ncols.getD ei 0 + c = seq' * ncols.getD ei 0 + c')
  exact ⟨rfl, this.1, this.2⟩

/-! ### A3: no position is written twice -/

theorem zipIdx_pairwise_snd_lt {α} (l : List α) (k : Nat) :
    (l.zipIdx k).Pairwise (fun p q => p.2 < q.2) := by
  have h : ((l.zipIdx k).map Prod.snd).Pairwise (· < ·) := by
    rw [List.zipIdx_map_snd]; exact List.pairwise_lt_range'
  exact List.pairwise_map.mp h

theorem entryOut_nodup (blocks : List (List Nat)) (ei nc colId : Nat) (e : UniqEntry) :
    (entryOut blocks ei nc colId e).Nodup := by
  unfold entryOut
  rw [List.Nodup, List.pairwise_flatMap]
  constructor
  · intro p _
    rw [List.pairwise_flatMap]
    constructor
    · intro q _
      rw [List.pairwise_map]
      refine List.Pairwise.imp ?_ (List.nodup_range (n := nc))
      intro a b hab heq
      simp only [Prod.mk.injEq] at heq
      exact hab heq.2.2.2.2
    · refine List.Pairwise.imp ?_ (zipIdx_pairwise_snd_lt _ 0)
      intro q q' hlt x hx y hy heq
      simp only [List.mem_map, List.mem_range] at hx hy
      obtain ⟨a, _, rfl⟩ := hx
      obtain ⟨b, _, rfl⟩ := hy
      simp only [Prod.mk.injEq] at heq
      omega
  · refine List.Pairwise.imp ?_ (zipIdx_pairwise_snd_lt _ 0)
    intro p p' hlt x hx y hy heq
    simp only [List.mem_flatMap, List.mem_map, List.mem_range] at hx hy
    obtain ⟨q, _, a, ha, rfl⟩ := hx
    obtain ⟨q', _, b, hb, rfl⟩ := hy
    simp only [Prod.mk.injEq] at heq
    have := seq_col_unique ha hb (by omega : p.2 * nc + a = p'.2 * nc + b)
    omega

/-- the list of written entries has no duplicates (no hypotheses needed) -/
theorem placement_nodup (blocks : List (List Nat)) (ents : List UniqEntry) (ncols : List Nat) :
    (placement blocks ents ncols).1.Nodup := by
  rw [placement_closed]
  show ((ents.zipIdx).flatMap (placeGen blocks ents ncols)).Nodup
  rw [List.Nodup, List.pairwise_flatMap]
  constructor
  · intro p _; exact entryOut_nodup ..
  · refine List.Pairwise.imp ?_ (zipIdx_pairwise_snd_lt _ 0)
    intro p p' hlt x hx y hy heq
    simp only [placeGen, mem_entryOut] at hx hy
    obtain ⟨_, _, _, _, _, _, rfl⟩ := hx
    obtain ⟨_, _, _, _, _, _, rfl⟩ := hy
    simp only [Prod.mk.injEq] at heq
    omega

/-- **A3** no output position `(row, col)` is written twice; only "each block has no duplicate
    row" is needed -/
theorem placement_pos_nodup {blocks : List (List Nat)} {ents : List UniqEntry} {ncols : List Nat}
    (hnd : ∀ bl ∈ blocks, bl.Nodup) :
    ((placement blocks ents ncols).1.map (fun t => (t.1, t.2.1))).Nodup := by
  rw [List.Nodup, List.pairwise_map]
  refine List.Pairwise.imp_of_mem ?_ (placement_nodup blocks ents ncols)
  intro x y hx hy hne heq
  apply hne
  obtain ⟨ei, seq, r, c, he, hs, hr, hc, rfl⟩ := mem_placement.mp hx
  obtain ⟨ei', seq', r', c', he', hs', hr', hc', rfl⟩ := mem_placement.mp hy
  simp only [Prod.mk.injEq] at heq
  obtain ⟨hrow, hcol⟩ := heq
  obtain ⟨rfl, rfl, rfl⟩ := col_decode he he' hs hs' hc hc' hcol
  have hbn : (blocks.getD ents[ei].labels[seq] []).Nodup := by
    rw [List.getD_eq_getElem?_getD]
    cases hb : blocks[ents[ei].labels[seq]]? with
    | none => simp
    | some bl => exact hnd bl (List.mem_of_getElem? hb)
  have : r = r' := (List.getElem_inj hbn).mp hrow
  subst this
  rfl

/-! ### A5: completeness -/

/-- **A5** every eigenvector entry of the unique solve is copied into every block sharing it -/
theorem placement_complete (blocks : List (List Nat)) (ents : List UniqEntry) (ncols : List Nat)
    {ei seq r c : Nat} (he : ei < ents.length) (hs : seq < ents[ei].labels.length)
    (hr : r < (blocks.getD ents[ei].labels[seq] []).length) (hc : c < ncols.getD ei 0) :
    ((blocks.getD ents[ei].labels[seq] [])[r],
      colBase ents ncols ei + seq * ncols.getD ei 0 + c, ei, r, c)
      ∈ (placement blocks ents ncols).1 :=
  mem_placement.mpr ⟨ei, seq, r, c, he, hs, hr, hc, rfl⟩

/-! ### A4: column ownership -/

/-- blocks are pairwise disjoint as lists of rows (index form; out-of-range blocks are empty) -/
def BlocksDisjoint (blocks : List (List Nat)) : Prop :=
  ∀ b b' row, row ∈ blocks.getD b [] → row ∈ blocks.getD b' [] → b = b'

/-- labels are pairwise distinct across and within entries (index form) -/
def LabelsDistinct (ents : List UniqEntry) : Prop :=
  ∀ i j (hi : i < ents.length) (hj : j < ents.length) s s'
    (hs : s < ents[i].labels.length) (hs' : s' < ents[j].labels.length),
    ents[i].labels[s] = ents[j].labels[s'] → i = j ∧ s = s'

theorem mem_getD_iff {blocks : List (List Nat)} {b row : Nat} :
    row ∈ blocks.getD b [] ↔ ∃ hb : b < blocks.length, row ∈ blocks[b] := by
  rw [List.getD_eq_getElem?_getD]
  by_cases hb : b < blocks.length
  · simp [hb]
  · simp [hb]

theorem blocksDisjoint_of_pairwise {blocks : List (List Nat)}
    (h : blocks.Pairwise (fun l₁ l₂ => ∀ x ∈ l₁, ∀ y ∈ l₂, x ≠ y)) : BlocksDisjoint blocks := by
  rw [List.pairwise_iff_getElem] at h
  intro b b' row hr hr'
  obtain ⟨hb, hr⟩ := mem_getD_iff.mp hr
  obtain ⟨hb', hr'⟩ := mem_getD_iff.mp hr'
  by_cases h1 : b < b'
  · exact absurd rfl (h b b' hb hb' h1 row hr row hr')
  · by_cases h2 : b' < b
    · exact absurd rfl (h b' b hb' hb h2 row hr' row hr)
    · omega

/-- "no row occurs twice in the concatenation of all blocks" gives both block hypotheses -/
theorem blocks_of_flatten_nodup {blocks : List (List Nat)} (h : blocks.flatten.Nodup) :
    (∀ bl ∈ blocks, bl.Nodup) ∧ BlocksDisjoint blocks := by
  rw [List.Nodup, List.pairwise_flatten] at h
  exact ⟨h.1, blocksDisjoint_of_pairwise h.2⟩

theorem labelsDistinct_of_nodup {ents : List UniqEntry}
    (h : (ents.flatMap (·.labels)).Nodup) : LabelsDistinct ents := by
  rw [List.Nodup, List.pairwise_flatMap] at h
  obtain ⟨h1, h2⟩ := h
  rw [List.pairwise_iff_getElem] at h2
  intro i j hi hj s s' hs hs' heq
  by_cases hij : i = j
  · subst hij
    exact ⟨rfl, (List.getElem_inj (h1 _ (List.getElem_mem hi))).mp heq⟩
  · exfalso
    by_cases hlt : i < j
    · exact h2 i j hi hj hlt _ (List.getElem_mem hs) _ (List.getElem_mem hs') heq
    · exact h2 j i hj hi (by omega) _ (List.getElem_mem hs') _ (List.getElem_mem hs) heq.symm

/-- **A4a** two written entries in the same column come from the same entry `ei`, the same label
    position `seq` and the same eigenvector `c`; their rows lie in the same block. -/
theorem placement_same_col {blocks : List (List Nat)} {ents : List UniqEntry} {ncols : List Nat}
    {t t' : PlEntry} (ht : t ∈ (placement blocks ents ncols).1)
    (ht' : t' ∈ (placement blocks ents ncols).1) (hcol : t.2.1 = t'.2.1) :
    t.2.2.1 = t'.2.2.1 ∧ t.2.2.2.2 = t'.2.2.2.2 ∧
    ∃ (he : t.2.2.1 < ents.length) (seq : Nat) (hs : seq < ents[t.2.2.1].labels.length),
      t.2.1 = colBase ents ncols t.2.2.1 + seq * ncols.getD t.2.2.1 0 + t.2.2.2.2 ∧
      t.1 ∈ blocks.getD ents[t.2.2.1].labels[seq] [] ∧
      t'.1 ∈ blocks.getD ents[t.2.2.1].labels[seq] [] := by
  obtain ⟨ei, seq, r, c, he, hs, hr, hc, rfl⟩ := mem_placement.mp ht
  obtain ⟨ei', seq', r', c', he', hs', hr', hc', rfl⟩ := mem_placement.mp ht'
  obtain ⟨rfl, rfl, rfl⟩ := col_decode he he' hs hs' hc hc' hcol
  exact ⟨rfl, rfl, he, seq, hs, rfl, List.getElem_mem _, List.getElem_mem _⟩

/-- **A4b** written entries whose rows lie in different blocks are in different columns:
    every output column is supported inside one block. -/
theorem placement_col_ne_of_block_ne {blocks : List (List Nat)} {ents : List UniqEntry}
    {ncols : List Nat} (hdisj : BlocksDisjoint blocks)
    {t t' : PlEntry} (ht : t ∈ (placement blocks ents ncols).1)
    (ht' : t' ∈ (placement blocks ents ncols).1) {b b' : Nat}
    (hb : t.1 ∈ blocks.getD b []) (hb' : t'.1 ∈ blocks.getD b' []) (hne : b ≠ b') :
    t.2.1 ≠ t'.2.1 := by
  intro hcol
  obtain ⟨_, _, he, seq, hs, _, h1, h2⟩ := placement_same_col ht ht' hcol
  exact hne ((hdisj _ _ _ hb h1).trans (hdisj _ _ _ hb' h2).symm)

/-- **A4c** the columns owned by block `b = ents[e].labels[seq]` are exactly
    `base(e) + seq * ncols[e] + [0, ncols[e])`: a written entry has its row in block `b`
    iff its column lies in that range. -/
theorem placement_block_cols {blocks : List (List Nat)} {ents : List UniqEntry}
    {ncols : List Nat} (hdisj : BlocksDisjoint blocks) (hlab : LabelsDistinct ents)
    {e seq : Nat} (he : e < ents.length) (hs : seq < ents[e].labels.length)
    {t : PlEntry} (ht : t ∈ (placement blocks ents ncols).1) :
    t.1 ∈ blocks.getD ents[e].labels[seq] [] ↔
      colBase ents ncols e + seq * ncols.getD e 0 ≤ t.2.1 ∧
      t.2.1 < colBase ents ncols e + seq * ncols.getD e 0 + ncols.getD e 0 := by
  obtain ⟨ei', seq', r', c', he', hs', hr', hc', rfl⟩ := mem_placement.mp ht
  constructor
  · intro hrow
    have hb := hdisj _ _ _ hrow (List.getElem_mem hr')
    obtain ⟨rfl, rfl⟩ := hlab e ei' he he' seq seq' hs hs' hb
    exact ⟨by simp only; omega, by simp only; omega⟩
  · rintro ⟨h1, h2⟩
    simp only at h1 h2
    have hc : c' + (colBase ents ncols ei' + seq' * ncols.getD ei' 0)
        - (colBase ents ncols e + seq * ncols.getD e 0) < ncols.getD e 0 := by omega
    obtain ⟨rfl, rfl, _⟩ := col_decode he he' hs hs' hc hc' (by omega)
    exact List.getElem_mem _

/-- **A4d** every column of the range owned by a non-empty block is actually written, in every
    row of the block. -/
theorem placement_block_cols_written (blocks : List (List Nat)) (ents : List UniqEntry)
    (ncols : List Nat) {e seq r col : Nat} (he : e < ents.length)
    (hs : seq < ents[e].labels.length) (hr : r < (blocks.getD ents[e].labels[seq] []).length)
    (h1 : colBase ents ncols e + seq * ncols.getD e 0 ≤ col)
    (h2 : col < colBase ents ncols e + seq * ncols.getD e 0 + ncols.getD e 0) :
    ((blocks.getD ents[e].labels[seq] [])[r], col, e, r,
      col - (colBase ents ncols e + seq * ncols.getD e 0)) ∈ (placement blocks ents ncols).1 := by
  have h := placement_complete blocks ents ncols he hs hr
    (c := col - (colBase ents ncols e + seq * ncols.getD e 0)) (by omega)
  have e1 : colBase ents ncols e + seq * ncols.getD e 0
      + (col - (colBase ents ncols e + seq * ncols.getD e 0)) = col := by omega
  rw [e1] at h
  exact h

/-! ### versions with `ents.zip ncols` / `blocks[b]` under the length and range hypotheses -/

/-- **A1'** `total = Σ_e ncols[e] * ents[e].labels.length` as a sum over `ents.zip ncols` -/
theorem placement_total_zip (blocks : List (List Nat)) (ents : List UniqEntry) (ncols : List Nat)
    (hlen : ents.length = ncols.length) :
    (placement blocks ents ncols).2
      = ((ents.zip ncols).map (fun p => p.2 * p.1.labels.length)).sum := by
  rw [placement_total]
  congr 1
  apply List.ext_getElem
  · simp [hlen]
  · intro i h1 h2
    simp only [List.length_map, List.length_zipIdx] at h1
    simp [List.getD_eq_getElem?_getD, List.getElem?_eq_getElem (show i < ncols.length by omega)]

theorem colBase_eq_zip (ents : List UniqEntry) (ncols : List Nat)
    (hlen : ents.length = ncols.length) (k : Nat) :
    colBase ents ncols k
      = (((ents.zip ncols).take k).map (fun p => p.2 * p.1.labels.length)).sum := by
  unfold colBase
  rw [List.map_take, List.map_take]
  congr 2
  apply List.ext_getElem
  · simp [hlen]
  · intro i h1 h2
    simp only [List.length_map, List.length_zipIdx] at h1
    simp [entW, List.getD_eq_getElem?_getD,
      List.getElem?_eq_getElem (show i < ncols.length by omega)]

/-- **A2'** `placement_sound` with `blocks[b]`, `ncols[ei]` under the hypotheses of the task -/
theorem placement_sound' {blocks : List (List Nat)} {ents : List UniqEntry} {ncols : List Nat}
    (hlen : ents.length = ncols.length)
    (hlab : ∀ e ∈ ents, ∀ b ∈ e.labels, b < blocks.length)
    {row col ei r c : Nat} (h : (row, col, ei, r, c) ∈ (placement blocks ents ncols).1) :
    ∃ (he : ei < ents.length), c < ncols[ei]'(hlen ▸ he) ∧ col < (placement blocks ents ncols).2 ∧
      ∃ seq, ∃ (hs : seq < ents[ei].labels.length),
        ∃ (hr : r < (blocks[ents[ei].labels[seq]]'(hlab _ (List.getElem_mem he) _
                  (List.getElem_mem hs))).length),
        row = (blocks[ents[ei].labels[seq]]'(hlab _ (List.getElem_mem he) _
                  (List.getElem_mem hs)))[r] ∧
        col = colBase ents ncols ei + seq * ncols[ei]'(hlen ▸ he) + c := by
  obtain ⟨he, hc, hcol, seq, hs, hr, hrow, hcc⟩ := placement_sound h
  have hb : ents[ei].labels[seq] < blocks.length :=
    hlab _ (List.getElem_mem he) _ (List.getElem_mem hs)
  have e1 : ncols.getD ei 0 = ncols[ei]'(hlen ▸ he) := by
    rw [List.getD_eq_getElem?_getD, List.getElem?_eq_getElem (hlen ▸ he)]; rfl
  have e2 : blocks.getD ents[ei].labels[seq] [] = blocks[ents[ei].labels[seq]] := by
    rw [List.getD_eq_getElem?_getD, List.getElem?_eq_getElem hb]; rfl
  rw [e1] at hc hcc
  simp only [e2] at hr hrow
  exact ⟨he, hc, hcol, seq, hs, hr, hrow, hcc⟩

/-! ### a small instance: three blocks, the first two share one dense solve -/

example :
    placement [[0, 1], [2, 3], [4]]
        [{ kind := .solve, labels := [0, 1] }, { kind := .one, labels := [2] }] [2, 1]
      = ([(0, 0, 0, 0, 0), (0, 1, 0, 0, 1), (1, 0, 0, 1, 0), (1, 1, 0, 1, 1),
          (2, 2, 0, 0, 0), (2, 3, 0, 0, 1), (3, 2, 0, 1, 0), (3, 3, 0, 1, 1),
          (4, 4, 1, 0, 0)], 5) := by decide

example :
    ((placement [[0, 1], [2, 3], [4]]
        [{ kind := .solve, labels := [0, 1] }, { kind := .one, labels := [2] }] [2, 1]).1.map
      (fun t => (t.1, t.2.1))).Nodup := by decide

/-- an entry whose dense solve returned nothing (`ncols = 0`) writes nothing and owns no column -/
example :
    placement [[0, 1], [2, 3], [4]]
        [{ kind := .solve, labels := [0, 1] }, { kind := .one, labels := [2] }] [0, 1]
      = ([(4, 0, 1, 0, 0)], 1) := by decide

/-! ### the plan built by `eigshPlan` satisfies the label hypotheses -/

/-- labels of a plan: pairwise distinct and all `< k` -/
def PlanInv (ents : List UniqEntry) (k : Nat) : Prop :=
  (ents.flatMap (·.labels)).Nodup ∧ ∀ b ∈ ents.flatMap (·.labels), b < k

theorem foldl_zipIdx_inv {α β} (f : β → α × Nat → β) (I : β → Nat → Prop)
    (hstep : ∀ acc a k, I acc k → I (f acc (a, k)) (k + 1)) :
    ∀ (l : List α) (k : Nat) (acc : β), I acc k → I ((l.zipIdx k).foldl f acc) (k + l.length) := by
  intro l
  induction l with
  | nil => intro k acc h; exact h
  | cons a l ih =>
    intro k acc h
    rw [List.zipIdx_cons, List.foldl_cons, List.length_cons,
      show k + (l.length + 1) = (k + 1) + l.length by omega]
    exact ih (k + 1) _ (hstep acc a k h)

theorem foldl_zipIdx_inv0 {α β} (f : β → α × Nat → β) (I : β → Nat → Prop)
    (hstep : ∀ acc a k, I acc k → I (f acc (a, k)) (k + 1)) (l : List α) (acc : β)
    (h0 : I acc 0) : I ((l.zipIdx).foldl f acc) l.length := by
  have h := foldl_zipIdx_inv f I hstep l 0 acc h0
  rwa [Nat.zero_add] at h

theorem flatMap_modify_perm (ents : List UniqEntry) (pos bi : Nat) (h : pos < ents.length) :
    ((ents.modify pos (fun e => { e with labels := e.labels ++ [bi] })).flatMap (·.labels)).Perm
      (bi :: ents.flatMap (·.labels)) := by
  induction ents generalizing pos with
  | nil => simp at h
  | cons a l ih =>
    cases pos with
    | zero =>
      simp only [List.modify_zero_cons, List.flatMap_cons, List.append_assoc, List.singleton_append]
      exact List.perm_middle
    | succ p =>
      simp only [List.modify_succ_cons, List.flatMap_cons]
      have h1 := ih p (by simpa using h)
      exact (List.Perm.append_left a.labels h1).trans List.perm_middle

theorem PlanInv.same {ents : List UniqEntry} {k : Nat} (h : PlanInv ents k) :
    PlanInv ents (k + 1) :=
  ⟨h.1, fun b hb => Nat.lt_succ_of_lt (h.2 b hb)⟩

theorem PlanInv.cons_perm {ents ents' : List UniqEntry} {k : Nat} (h : PlanInv ents k)
    (hp : (ents'.flatMap (·.labels)).Perm (k :: ents.flatMap (·.labels))) :
    PlanInv ents' (k + 1) := by
  constructor
  · rw [hp.nodup_iff, List.nodup_cons]
    exact ⟨fun hk => Nat.lt_irrefl _ (h.2 k hk), h.1⟩
  · intro b hb
    rw [hp.mem_iff, List.mem_cons] at hb
    rcases hb with rfl | hb
    · exact Nat.lt_succ_self _
    · exact Nat.lt_succ_of_lt (h.2 b hb)

theorem PlanInv.modify {ents : List UniqEntry} {k : Nat} (h : PlanInv ents k) (pos : Nat) :
    PlanInv (ents.modify pos (fun e => { e with labels := e.labels ++ [k] })) (k + 1) := by
  by_cases hp : pos < ents.length
  · exact h.cons_perm (flatMap_modify_perm ents pos k hp)
  · rw [List.modify_eq_self (by omega)]
    exact h.same

theorem PlanInv.append {ents : List UniqEntry} {k : Nat} (h : PlanInv ents k) (kind : UniqKind) :
    PlanInv (ents ++ [{ kind := kind, labels := [k] }]) (k + 1) := by
  apply h.cons_perm
  simp only [List.flatMap_append, List.flatMap_cons, List.flatMap_nil, List.append_nil]
  exact List.perm_append_comm

/-- the plan of `eigsh_projector`: every block index occurs in at most one entry and at most once,
    and every label is a valid block index -/
theorem eigshPlan_inv (rule : OneByOneRule) (m : IMat) (den : Int) (blocks : List (List Nat)) :
    PlanInv (eigshPlan rule m den blocks).1 blocks.length := by
  unfold eigshPlan
  refine foldl_zipIdx_inv0 (α := List Nat) _
    (fun (acc : List UniqEntry × List IMat) k => PlanInv acc.1 k) ?_ blocks ([], []) ?_
  · intro acc ids k hI
    obtain ⟨ents, keys⟩ := acc
    simp only
    split
    · split
      · exact hI.modify _
      · exact hI.append _
    · split
      · split
        · exact hI.modify _
        · exact hI.append _
      · exact hI.same
  · exact ⟨List.nodup_nil, fun b hb => by simp at hb⟩

theorem eigshPlan_labelsDistinct (rule : OneByOneRule) (m : IMat) (den : Int)
    (blocks : List (List Nat)) : LabelsDistinct (eigshPlan rule m den blocks).1 :=
  labelsDistinct_of_nodup (eigshPlan_inv rule m den blocks).1

theorem eigshPlan_label_lt (rule : OneByOneRule) (m : IMat) (den : Int)
    (blocks : List (List Nat)) :
    ∀ e ∈ (eigshPlan rule m den blocks).1, ∀ b ∈ e.labels, b < blocks.length := by
  intro e he b hb
  exact (eigshPlan_inv rule m den blocks).2 b (List.mem_flatMap.mpr ⟨e, he, hb⟩)

/-! ### the blocks built by `findBlocks` satisfy the block hypotheses -/

/-- the final expression of `findBlocks` for a given label array -/
def blocksOf (n : Nat) (lab : Array Nat) : List (List Nat) :=
  ((List.range n).filter (fun i => lab.getD i 0 == i)).map
    (fun r => (List.range n).filter (fun i => lab.getD i 0 == r))

theorem findBlocks_form (m : IMat) : ∃ lab : Array Nat, findBlocks m = blocksOf m.size lab := by
  unfold findBlocks blocksOf
  simp only [Id.run, bind, pure]
  exact ⟨_, rfl⟩

theorem blocksOf_flatten_nodup (n : Nat) (lab : Array Nat) : (blocksOf n lab).flatten.Nodup := by
  unfold blocksOf
  rw [List.Nodup, List.pairwise_flatten]
  constructor
  · intro l hl
    obtain ⟨r, _, rfl⟩ := List.mem_map.mp hl
    exact List.nodup_range.filter _
  · rw [List.pairwise_map]
    refine List.Pairwise.imp ?_ (List.nodup_range.filter _)
    intro r r' hne x hx y hy hxy
    subst hxy
    simp only [List.mem_filter, beq_iff_eq] at hx hy
    exact hne (hx.2.symm.trans hy.2)

/-- whatever the label propagation computes, the blocks returned by `findBlocks` are duplicate
    free and pairwise disjoint -/
theorem findBlocks_flatten_nodup (m : IMat) : (findBlocks m).flatten.Nodup := by
  obtain ⟨lab, h⟩ := findBlocks_form m
  rw [h]; exact blocksOf_flatten_nodup _ _

/-! ### the structural pipeline of `eigsh_projector`: all hypotheses discharged -/

/-- for `blocks = findBlocks m`, `ents = eigshPlan …` and ANY `ncols`: no position is written
    twice, rows of different blocks never share a column, and the columns whose entries have rows
    in block `ents[e].labels[seq]` are exactly `base(e) + seq * ncols[e] + [0, ncols[e])`. -/
theorem eigsh_placement (rule : OneByOneRule) (m : IMat) (den : Int) (ncols : List Nat) :
    let blocks := findBlocks m
    let ents := (eigshPlan rule m den blocks).1
    let out := (placement blocks ents ncols).1
    (out.map (fun t => (t.1, t.2.1))).Nodup ∧
    (∀ t ∈ out, ∀ t' ∈ out, ∀ b b', t.1 ∈ blocks.getD b [] → t'.1 ∈ blocks.getD b' [] → b ≠ b' →
      t.2.1 ≠ t'.2.1) ∧
    (∀ e seq (he : e < ents.length) (hs : seq < ents[e].labels.length), ∀ t ∈ out,
      (t.1 ∈ blocks.getD ents[e].labels[seq] [] ↔
        colBase ents ncols e + seq * ncols.getD e 0 ≤ t.2.1 ∧
        t.2.1 < colBase ents ncols e + seq * ncols.getD e 0 + ncols.getD e 0)) := by
  intro blocks ents out
  obtain ⟨hnd, hdisj⟩ := blocks_of_flatten_nodup (findBlocks_flatten_nodup m)
  have hlab : LabelsDistinct ents := eigshPlan_labelsDistinct rule m den blocks
  exact ⟨placement_pos_nodup hnd,
    fun t ht t' ht' b b' hb hb' hne => placement_col_ne_of_block_ne hdisj ht ht' hb hb' hne,
    fun e seq he hs t ht => placement_block_cols hdisj hlab he hs ht⟩

section axioms
end axioms

end Symfc
