/- Lemmas/TensorSym.lean — from "sum rule on the first index, second atom independent" to
   "sum rule on every index, for every atom" (S1–S3). -/
import Mathlib.Algebra.BigOperators.Group.Finset.Basic
import Mathlib.Logic.Equiv.Basic
import Mathlib.Logic.Equiv.Fin.Basic
import Mathlib.Data.Fintype.Perm
import Mathlib.Data.Fintype.Prod
import Mathlib.Data.Fintype.Pi
import Mathlib.Tactic.FinCases

namespace Symfc.TensorSym

/-! ## General formulation

Index positions `ι`, atoms `A`, Cartesian components `C`; an index tuple is
`x : ι → A × C` and a tensor is `Φ : (ι → A × C) → M`. -/

section General

variable {ι A C M : Type*} [DecidableEq ι] [Fintype A] [AddCommMonoid M]

/-- Replace the atom at position `k` by `i`, keeping the Cartesian component. -/
def setAtom (x : ι → A × C) (k : ι) (i : A) : ι → A × C :=
  Function.update x k (i, (x k).2)

/-- Relabel the atoms of an index tuple by `τ`. -/
def relabel (τ : Equiv.Perm A) (x : ι → A × C) : ι → A × C :=
  fun k => (τ (x k).1, (x k).2)

omit [Fintype A] in
theorem relabel_setAtom (τ : Equiv.Perm A) (x : ι → A × C) (k : ι) (i : A) :
    relabel τ (setAtom x k i) = setAtom (relabel τ x) k (τ i) := by
  funext p
  unfold relabel setAtom
  by_cases hp : p = k
  · subst hp; simp
  · simp [Function.update_of_ne hp]

omit [Fintype A] [DecidableEq ι] in
theorem relabel_symm_relabel (τ : Equiv.Perm A) (x : ι → A × C) :
    relabel τ (relabel τ.symm x) = x := by
  funext p; simp [relabel]

omit [Fintype A] in
theorem setAtom_comp_equiv (σ : Equiv.Perm ι) (x : ι → A × C) (k : ι) (i : A) :
    setAtom x k i ∘ σ = setAtom (x ∘ σ) (σ.symm k) i := by
  unfold setAtom
  rw [Function.update_comp_equiv]
  simp

/-- The sum rule at position `k` for the tuple `x`. -/
def SumRuleAt (Φ : (ι → A × C) → M) (k : ι) (x : ι → A × C) : Prop :=
  ∑ i : A, Φ (setAtom x k i) = 0

/-- **S1 (general).** If the sum rule at position `k₀` holds whenever the atom at some
position `k₁` (in the application `k₁ ≠ k₀`; the proof does not need this) is independent, and every atom is the `T`-image of an independent atom, then it
holds for every tuple. -/
theorem sumRule_of_indep (Φ : (ι → A × C) → M) (T : Finset (Equiv.Perm A)) (indep : Finset A)
    (htr : ∀ τ ∈ T, ∀ x, Φ (relabel τ x) = Φ x)
    (hcover : ∀ j, ∃ τ ∈ T, ∃ j₀ ∈ indep, τ j₀ = j)
    (k₀ k₁ : ι)
    (h : ∀ x, (x k₁).1 ∈ indep → SumRuleAt Φ k₀ x) :
    ∀ x, SumRuleAt Φ k₀ x := by
  intro x
  obtain ⟨τ, hτ, j₀, hj₀, hj⟩ := hcover (x k₁).1
  have hy : ((relabel τ.symm x) k₁).1 ∈ indep := by
    have : τ.symm (x k₁).1 = j₀ := by rw [← hj]; simp
    simpa [relabel, this] using hj₀
  have h0 := h (relabel τ.symm x) hy
  unfold SumRuleAt at h0 ⊢
  rw [← h0]
  symm
  refine Fintype.sum_equiv τ _ _ (fun i => ?_)
  rw [← htr τ hτ (setAtom (relabel τ.symm x) k₀ i), relabel_setAtom, relabel_symm_relabel]

/-- **S2 (general).** Under full index-permutation symmetry, the sum rule at one position
implies the sum rule at every position. -/
theorem sumRule_all_positions (Φ : (ι → A × C) → M)
    (hsym : ∀ (σ : Equiv.Perm ι) x, Φ (x ∘ σ) = Φ x) (k₀ : ι)
    (h : ∀ x, SumRuleAt Φ k₀ x) : ∀ k x, SumRuleAt Φ k x := by
  intro k x
  have h0 := h (x ∘ Equiv.swap k₀ k)
  unfold SumRuleAt at h0 ⊢
  rw [← h0]
  refine Finset.sum_congr rfl (fun i _ => ?_)
  rw [← hsym (Equiv.swap k₀ k) (setAtom x k i), setAtom_comp_equiv]
  simp

/-- **S3 (general).** -/
theorem sumRule_everywhere (Φ : (ι → A × C) → M) (T : Finset (Equiv.Perm A)) (indep : Finset A)
    (hsym : ∀ (σ : Equiv.Perm ι) x, Φ (x ∘ σ) = Φ x)
    (htr : ∀ τ ∈ T, ∀ x, Φ (relabel τ x) = Φ x)
    (hcover : ∀ j, ∃ τ ∈ T, ∃ j₀ ∈ indep, τ j₀ = j)
    (k₀ k₁ : ι)
    (h : ∀ x, (x k₁).1 ∈ indep → SumRuleAt Φ k₀ x) :
    ∀ k x, SumRuleAt Φ k x :=
  sumRule_all_positions Φ hsym k₀ (sumRule_of_indep Φ T indep htr hcover k₀ k₁ h)

end General

/-! ## The concrete statements: order `n = m + 2`, atoms `Fin N`, components `Fin 3` -/

section Concrete

variable {K : Type*} [AddCommMonoid K] {m N : ℕ}

/-- **S1.** First index, second atom independent ⇒ first index, any second atom. -/
theorem S1 (Φ : (Fin (m + 2) → Fin N × Fin 3) → K)
    (T : Finset (Equiv.Perm (Fin N))) (indep : Finset (Fin N))
    (htr : ∀ τ ∈ T, ∀ x : Fin (m + 2) → Fin N × Fin 3,
      Φ (fun k => (τ (x k).1, (x k).2)) = Φ x)
    (hcover : ∀ j, ∃ τ ∈ T, ∃ j₀ ∈ indep, τ j₀ = j)
    (h : ∀ x : Fin (m + 2) → Fin N × Fin 3, (x 1).1 ∈ indep →
      ∑ i : Fin N, Φ (Function.update x 0 (i, (x 0).2)) = 0) :
    ∀ x : Fin (m + 2) → Fin N × Fin 3,
      ∑ i : Fin N, Φ (Function.update x 0 (i, (x 0).2)) = 0 :=
  sumRule_of_indep Φ T indep htr hcover 0 1 h

/-- **S2.** First index ⇒ every index position, under permutation symmetry. -/
theorem S2 (Φ : (Fin (m + 2) → Fin N × Fin 3) → K)
    (hsym : ∀ (σ : Equiv.Perm (Fin (m + 2))) x, Φ (x ∘ σ) = Φ x)
    (h : ∀ x : Fin (m + 2) → Fin N × Fin 3,
      ∑ i : Fin N, Φ (Function.update x 0 (i, (x 0).2)) = 0) :
    ∀ (k : Fin (m + 2)) (x : Fin (m + 2) → Fin N × Fin 3),
      ∑ i : Fin N, Φ (Function.update x k (i, (x k).2)) = 0 :=
  sumRule_all_positions Φ hsym 0 h

/-- **S3.** Sum rule on the first index for independent second atom ⇒ sum rule on every index
for every tuple. -/
theorem S3 (Φ : (Fin (m + 2) → Fin N × Fin 3) → K)
    (T : Finset (Equiv.Perm (Fin N))) (indep : Finset (Fin N))
    (hsym : ∀ (σ : Equiv.Perm (Fin (m + 2))) x, Φ (x ∘ σ) = Φ x)
    (htr : ∀ τ ∈ T, ∀ x : Fin (m + 2) → Fin N × Fin 3,
      Φ (fun k => (τ (x k).1, (x k).2)) = Φ x)
    (hcover : ∀ j, ∃ τ ∈ T, ∃ j₀ ∈ indep, τ j₀ = j)
    (h : ∀ x : Fin (m + 2) → Fin N × Fin 3, (x 1).1 ∈ indep →
      ∑ i : Fin N, Φ (Function.update x 0 (i, (x 0).2)) = 0) :
    ∀ (k : Fin (m + 2)) (x : Fin (m + 2) → Fin N × Fin 3),
      ∑ i : Fin N, Φ (Function.update x k (i, (x k).2)) = 0 :=
  S2 Φ hsym (S1 Φ T indep htr hcover h)

end Concrete

/-! ## Non-vacuity: a 2-atom, order-2 tensor over `ℤ` -/

section Example

/-- `Φ x = +1` if both atoms coincide, `-1` otherwise (the 1D diatomic "spring"). -/
private def Φex : (Fin 2 → Fin 2 × Fin 3) → ℤ :=
  fun x => if (x 0).1 = (x 1).1 then 1 else -1

private theorem Φex_sym (σ : Equiv.Perm (Fin 2)) (x : Fin 2 → Fin 2 × Fin 3) :
    Φex (x ∘ σ) = Φex x := by
  decide +revert

private theorem Φex_tr : ∀ τ ∈ ({1, Equiv.swap 0 1} : Finset (Equiv.Perm (Fin 2))),
    ∀ x : Fin 2 → Fin 2 × Fin 3, Φex (fun k => (τ (x k).1, (x k).2)) = Φex x := by
  decide

/-- All hypotheses of `S3` are simultaneously satisfiable with a non-zero tensor, and the
conclusion is the full acoustic sum rule. -/
example : ∀ (k : Fin 2) (x : Fin 2 → Fin 2 × Fin 3),
    ∑ i : Fin 2, Φex (Function.update x k (i, (x k).2)) = 0 :=
  S3 (m := 0) Φex {1, Equiv.swap 0 1} {0} Φex_sym Φex_tr (by decide) (by decide)

example : Φex ![(0, 0), (1, 0)] = -1 := by decide

end Example


end Symfc.TensorSym
