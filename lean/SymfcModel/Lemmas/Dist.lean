/-
  Lemmas/Dist.lean — final statements about the minimum-image distances of `FCCutoff._calc_distances`
  (Model/Dist.lean; helpers in Lemmas/DistBasic.lean, Lemmas/DistWindow.lean).

  D1  `minImage2_symm`            — unconditional (no hypothesis on S, G or the lengths).
  D2  `minImage2_self`, `minImage2_nonneg` — for a positive semidefinite G.
  D3  `minImage2_offsets`         — adding multiples of S to coordinates, when NO coordinate is ≡ S/2 (mod S);
      `minImage2_offsets_window`  — … or, on the boundary too, when both pairs pass the 7³ window check;
      `minImage2_offsets_false`   — the unrestricted statement is FALSE (rint rounds half to even).
  D4  `window_sufficient`         — 7³ window (`WindowOK3`): invariance under translation permutations;
      `window5_sufficient_noBoundary` — the 5³ window (`WindowOK`) suffices when no coordinate is on the boundary;
      `window5_insufficient`      — … and does NOT suffice in general (a 4-atom structure, distinct atoms).
  D5  `nearD_is_CutOK` (relational), `cutOK_of_dist` (the literal `Cov.CutOK c x`).
  D6  `example8_*`                — S = 8, sheared Gram matrix, 4 atoms with coordinates on the boundary.

  Hypotheses actually needed: `0 < S` (evenness of S is never used: for odd S there is no boundary); nothing on G
  except positive semidefiniteness for D2 / reflexivity (symmetry and the 3×3 shape of G are never used).
-/
import SymfcModel.Lemmas.DistWindow
import SymfcModel.Lemmas.Coverage
namespace Symfc
namespace Dist

/-- positive semidefinite on integer vectors -/
def PSD (G : List (List Int)) : Prop := ∀ v : List Int, v.length = 3 → 0 ≤ norm2 G v

/-- coordinate `c` of atom `i` -/
def coord (ps : List (List Int)) (i c : Nat) : Int := (ps.getD i []).getD c 0

/-- `τ` is the permutation of the atoms induced by the translation `a` (grid units):
    `ps[τ i] ≡ ps[i] + a (mod S)` in every coordinate -/
def TransPerm (S : Int) (ps : List (List Int)) (τ : Nat → Nat) (a : List Int) : Prop :=
  ∀ i, i < ps.length → τ i < ps.length ∧
    ∀ c, c < 3 → (coord ps (τ i) c - (coord ps i c + a.getD c 0)) % S = 0

/-! ## D1 -/

/-- D1. The computed distance matrix is symmetric — for any S, G, p, q. -/
theorem minImage2_symm (S : Int) (G : List (List Int)) (p q : List Int) :
    minImage2 S G p q = minImage2 S G q p := by
  unfold minImage2
  rw [diffW_swap S p q, minOver_negV]

/-! ## D2 -/

theorem trial_nonneg {G : List (List Int)} (hG : PSD G) (S : Int) {d t : List Int} (hd : d.length = 3)
    (ht : t.length = 3) : 0 ≤ trial S G d t := by
  apply hG
  simp [vsub, smulV, hd, ht]

theorem diffW_length {S : Int} {p q : List Int} (hp : p.length = 3) (hq : q.length = 3) :
    (diffW S p q).length = 3 := by
  simp [diffW, vsub, wrapPos, hp, hq]

theorem length_of_mem_offsets {k : Nat} {t : List Int} (h : t ∈ offsets k) : t.length = 3 := by
  obtain ⟨a, b, c, rfl, -⟩ := mem_offsets.mp h; rfl

/-- D2a. Squared distances are non-negative for a positive semidefinite Gram matrix. -/
theorem minImage2_nonneg {G : List (List Int)} (hG : PSD G) (S : Int) {p q : List Int}
    (hp : p.length = 3) (hq : q.length = 3) : 0 ≤ minImage2 S G p q := by
  obtain ⟨t, ht, e⟩ := minOver_mem S G (diffW S p q) 1
  unfold minImage2
  rw [e]
  exact trial_nonneg hG S (diffW_length hp hq) (length_of_mem_offsets ht)

theorem dotI_zero3 (w : List Int) : dotI [0, 0, 0] w = 0 := by
  rcases w with _ | ⟨a, _ | ⟨b, _ | ⟨c, w⟩⟩⟩ <;> simp [dotI]

/-- D2b. The diagonal of the distance matrix is zero. -/
theorem minImage2_self {G : List (List Int)} (hG : PSD G) (S : Int) {p : List Int} (hp : p.length = 3) :
    minImage2 S G p p = 0 := by
  unfold minImage2
  apply minOver_eq_of
  · intro t ht
    exact trial_nonneg hG S (diffW_length hp hp) (length_of_mem_offsets ht)
  · refine ⟨[0, 0, 0], mem_offsets.mpr ⟨0, 0, 0, rfl, by omega, by omega, by omega⟩, ?_⟩
    obtain ⟨a, b, c, rfl⟩ := length3 hp
    rw [diffW_triple]
    simp only [trial, vsub, smulV, List.map_cons, List.map_nil, List.zipWith_cons_cons,
      List.zipWith_nil_left, Int.mul_zero, Int.sub_self]
    unfold norm2
    rw [dotI_zero3]

/-! ## D3 -/

/-
  The GENERAL statement — FALSE:
      theorem minImage2_offsets_general (hS : 0 < S) (hev : S % 2 = 0) (hG : PSD G) (hp : p.length = 3) …
          (hmp : mp.length = 3) (hmq : mq.length = 3) :
          minImage2 S G (shiftBy S p mp) (shiftBy S q mq) = minImage2 S G p q
  At a coordinate x ≡ S/2 (mod S), `np.rint` (half to even) gives x − rint(x) = +S/2 when ⌊x/S⌋ is even and −S/2 when
  it is odd, so adding an ODD multiple of S flips the wrapped coordinate; the difference vector moves by a lattice
  vector and the 27-image window moves with it.  See `minImage2_offsets_false`.
-/

/-- the Gram matrix `B·Bᵀ` of an integer basis (rows of B) -/
def gram (b00 b01 b02 b10 b11 b12 b20 b21 b22 : Int) : List (List Int) :=
  [[b00*b00+b01*b01+b02*b02, b00*b10+b01*b11+b02*b12, b00*b20+b01*b21+b02*b22],
   [b10*b00+b11*b01+b12*b02, b10*b10+b11*b11+b12*b12, b10*b20+b11*b21+b12*b22],
   [b20*b00+b21*b01+b22*b02, b20*b10+b21*b11+b22*b12, b20*b20+b21*b21+b22*b22]]

theorem sq_nonneg' (a : Int) : 0 ≤ a * a := by
  rcases Int.le_total 0 a with h | h
  · exact Int.mul_nonneg h h
  · have := Int.mul_nonneg (Int.neg_nonneg_of_nonpos h) (Int.neg_nonneg_of_nonpos h)
    rwa [Int.neg_mul_neg] at this

/-- every Gram matrix of an integer basis is positive semidefinite (used for the examples) -/
theorem PSD_gram (b00 b01 b02 b10 b11 b12 b20 b21 b22 : Int) :
    PSD (gram b00 b01 b02 b10 b11 b12 b20 b21 b22) := by
  intro v hv
  obtain ⟨x, y, z, rfl⟩ := length3 hv
  have e : norm2 (gram b00 b01 b02 b10 b11 b12 b20 b21 b22) [x, y, z] =
      (x*b00+y*b10+z*b20)*(x*b00+y*b10+z*b20) + (x*b01+y*b11+z*b21)*(x*b01+y*b11+z*b21) +
        (x*b02+y*b12+z*b22)*(x*b02+y*b12+z*b22) := by
    simp only [gram, norm2, dotI, List.map_cons, List.map_nil]
    grind
  rw [e]
  have h1 := sq_nonneg' (x*b00+y*b10+z*b20)
  have h2 := sq_nonneg' (x*b01+y*b11+z*b21)
  have h3 := sq_nonneg' (x*b02+y*b12+z*b22)
  omega

/-- D3 is FALSE without a side condition: S = 2 (coordinates in halves), the symmetric positive definite Gram matrix
    of the basis (−2,−1,0), (−1,0,1), (0,0,1); p = (0, 1/2, 1/2), q = (1/2, 1/2, 1/2).  Adding the lattice vector
    (0,1,1) to p changes the computed squared distance from 1 to 5 (units 1/S²). -/
theorem minImage2_offsets_false :
    let S : Int := 2
    let G : List (List Int) := [[5, 2, 0], [2, 2, 1], [0, 1, 1]]
    0 < S ∧ S % 2 = 0 ∧ G = gram (-2) (-1) 0 (-1) 0 1 0 0 1 ∧ PSD G ∧
    shiftBy S [0, 1, 1] [0, 1, 1] = [0, 3, 3] ∧
    minImage2 S G [0, 1, 1] [1, 1, 1] = 1 ∧ minImage2 S G [0, 3, 3] [1, 1, 1] = 5 ∧
    pairWindowOK S G 3 [0, 3, 3] [1, 1, 1] = false := by
  refine ⟨by decide, by decide, by decide, ?_, by decide, by decide +kernel, by decide +kernel,
    by decide +kernel⟩
  have : ([[5, 2, 0], [2, 2, 1], [0, 1, 1]] : List (List Int)) = gram (-2) (-1) 0 (-1) 0 1 0 0 1 := by decide
  rw [this]; exact PSD_gram _ _ _ _ _ _ _ _ _

/-- D3 (side condition "no coordinate of p or q is ≡ S/2 mod S"): adding arbitrary integer multiples of S to the
    coordinates of p and of q does not change the computed distance.  Any S, G, any common length. -/
theorem minImage2_offsets (S : Int) (G : List (List Int)) {p q mp mq : List Int}
    (hmp : mp.length = p.length) (hmq : mq.length = q.length)
    (nbp : ∀ x ∈ p, 2 * (x % S) ≠ S) (nbq : ∀ x ∈ q, 2 * (x % S) ≠ S) :
    minImage2 S G (shiftBy S p mp) (shiftBy S q mq) = minImage2 S G p q := by
  unfold minImage2 diffW
  rw [wrapPos_shiftBy_nb S p mp hmp nbp, wrapPos_shiftBy_nb S q mq hmq nbq]

/-- D3 (window condition, boundary coordinates allowed): the same conclusion when both the original and the shifted
    pair pass the 7³ window check. -/
theorem minImage2_offsets_window {S : Int} (hS : 0 < S) (G : List (List Int)) {p q mp mq : List Int}
    (hp : p.length = 3) (hq : q.length = 3) (hmp : mp.length = 3) (hmq : mq.length = 3)
    (hw : pairWindowOK S G 3 p q = true)
    (hw' : pairWindowOK S G 3 (shiftBy S p mp) (shiftBy S q mq) = true) :
    minImage2 S G (shiftBy S p mp) (shiftBy S q mq) = minImage2 S G p q := by
  apply minImage2_congr hS G hp hq (by rw [shiftBy_length S p mp (by omega)]; exact hp)
    (by rw [shiftBy_length S q mq (by omega)]; exact hq) _ hw hw'
  obtain ⟨p0, p1, p2, rfl⟩ := length3 hp
  obtain ⟨q0, q1, q2, rfl⟩ := length3 hq
  obtain ⟨k0, k1, k2, rfl⟩ := length3 hmp
  obtain ⟨l0, l1, l2, rfl⟩ := length3 hmq
  intro c hc
  rw [getD_shiftBy3 S _ _ _ _ _ _ c hc, getD_shiftBy3 S _ _ _ _ _ _ c hc]
  refine ⟨[k0, k1, k2].getD c 0 - [l0, l1, l2].getD c 0, ?_⟩
  rw [Int.mul_sub, Int.mul_comm S, Int.mul_comm S]
  omega

/-! ## D4 -/

theorem getD_mem {ps : List (List Int)} {i : Nat} (hi : i < ps.length) : ps.getD i [] ∈ ps := by
  rw [List.getD_eq_getElem?_getD, List.getElem?_eq_getElem hi]
  exact List.getElem_mem hi

theorem windowOK_pair {k : Nat} {S : Int} {G : List (List Int)} {ps : List (List Int)}
    (hw : windowOK k S G ps = true) {i j : Nat} (hi : i < ps.length) (hj : j < ps.length) :
    pairWindowOK S G k (ps.getD i []) (ps.getD j []) = true := by
  simp only [windowOK, List.all_eq_true] at hw
  exact hw _ (getD_mem hi) _ (getD_mem hj)

theorem transPerm_dvd {S : Int} {ps : List (List Int)} {τ : Nat → Nat} {a : List Int}
    (hτ : TransPerm S ps τ a) {i j : Nat} (hi : i < ps.length) (hj : j < ps.length) (c : Nat) (hc : c < 3) :
    S ∣ ((ps.getD (τ i) []).getD c 0 - (ps.getD (τ j) []).getD c 0) -
      ((ps.getD i []).getD c 0 - (ps.getD j []).getD c 0) := by
  have h1 := Int.dvd_of_emod_eq_zero ((hτ i hi).2 c hc)
  have h2 := Int.dvd_of_emod_eq_zero ((hτ j hj).2 c hc)
  unfold coord at h1 h2
  have := Int.dvd_sub h1 h2
  have e : ((ps.getD (τ i) []).getD c 0 - ((ps.getD i []).getD c 0 + a.getD c 0)) -
      ((ps.getD (τ j) []).getD c 0 - ((ps.getD j []).getD c 0 + a.getD c 0)) =
      ((ps.getD (τ i) []).getD c 0 - (ps.getD (τ j) []).getD c 0) -
      ((ps.getD i []).getD c 0 - (ps.getD j []).getD c 0) := by omega
  rwa [e] at this

/-- D4. If for every pair of atoms the 27-image minimum equals the minimum over the 7³ window (`WindowOK3`, decidable),
    the computed distances are invariant under every permutation of the atoms induced by a translation.
    The 7³ window is what the proof needs: both difference vectors have coordinates in [−S, S] and are congruent mod S,
    so they differ by S·m with |m|_∞ ≤ 2, and {−1,0,1}³ − m ⊆ {−3..3}³. -/
theorem window_sufficient {S : Int} (hS : 0 < S) (G : List (List Int)) {ps : List (List Int)}
    (hlen : ∀ p ∈ ps, p.length = 3) (hw : WindowOK3 S G ps = true)
    {τ : Nat → Nat} {a : List Int} (hτ : TransPerm S ps τ a)
    {i j : Nat} (hi : i < ps.length) (hj : j < ps.length) :
    minImage2 S G (ps.getD (τ i) []) (ps.getD (τ j) []) = minImage2 S G (ps.getD i []) (ps.getD j []) :=
  minImage2_congr hS G (hlen _ (getD_mem hi)) (hlen _ (getD_mem hj))
    (hlen _ (getD_mem (hτ i hi).1)) (hlen _ (getD_mem (hτ j hj).1))
    (fun c hc => transPerm_dvd hτ hi hj c hc)
    (windowOK_pair hw hi hj) (windowOK_pair hw (hτ i hi).1 (hτ j hj).1)

theorem noBoundary_mem {S : Int} {ps : List (List Int)} (h : noBoundary S ps = true) {p : List Int}
    (hp : p ∈ ps) : ∀ x ∈ p, 2 * (x % S) ≠ S := by
  simp only [noBoundary, List.all_eq_true, bne_iff_ne] at h
  exact h p hp

/-- D4 with the task's `WindowOK` (5³ window): sufficient when no coordinate is ≡ S/2 (mod S). -/
theorem window5_sufficient_noBoundary {S : Int} (hS : 0 < S) (G : List (List Int)) {ps : List (List Int)}
    (hlen : ∀ p ∈ ps, p.length = 3) (hnb : noBoundary S ps = true) (hw : WindowOK S G ps = true)
    {τ : Nat → Nat} {a : List Int} (hτ : TransPerm S ps τ a)
    {i j : Nat} (hi : i < ps.length) (hj : j < ps.length) :
    minImage2 S G (ps.getD (τ i) []) (ps.getD (τ j) []) = minImage2 S G (ps.getD i []) (ps.getD j []) :=
  minImage2_congr_nb hS G (hlen _ (getD_mem hi)) (hlen _ (getD_mem hj))
    (hlen _ (getD_mem (hτ i hi).1)) (hlen _ (getD_mem (hτ j hj).1))
    (noBoundary_mem hnb (getD_mem hi)) (noBoundary_mem hnb (getD_mem hj))
    (noBoundary_mem hnb (getD_mem (hτ i hi).1)) (noBoundary_mem hnb (getD_mem (hτ j hj).1))
    (fun c hc => transPerm_dvd hτ hi hj c hc)
    (windowOK_pair hw hi hj) (windowOK_pair hw (hτ i hi).1 (hτ j hj).1)

instance (S : Int) (ps : List (List Int)) (τ : Nat → Nat) (a : List Int) : Decidable (TransPerm S ps τ a) := by
  unfold TransPerm; infer_instance

/-- the permutation (0 1)(2 3) as a function -/
def swapPairs (i : Nat) : Nat := [1, 0, 3, 2].getD i i

/-- The 5³ window alone is NOT sufficient: S = 4, a positive definite Gram matrix, four pairwise distinct atoms (mod S)
    invariant under the translation a = (1/2, 0, 1/2) which swaps 0↔1 and 2↔3; `WindowOK` holds, yet
    d²(3,0) = 22 ≠ 14 = d²(τ3, τ0).  (`WindowOK3` fails, as it must.) -/
theorem window5_insufficient :
    let S : Int := 4
    let G : List (List Int) := [[22, 15, 11], [15, 14, 14], [11, 14, 17]]
    let ps : List (List Int) := [[4, 2, 4], [2, 6, 2], [7, 2, 6], [1, 6, 4]]
    PSD G ∧ WindowOK S G ps = true ∧ WindowOK3 S G ps = false ∧ TransPerm S ps swapPairs [2, 0, 2] ∧
    positionsDistinct S ps = true ∧
    minImage2 S G (ps.getD 3 []) (ps.getD 0 []) = 22 ∧
    minImage2 S G (ps.getD (swapPairs 3) []) (ps.getD (swapPairs 0) []) = 14 := by
  refine ⟨?_, by decide +kernel, by decide +kernel, by decide +kernel, by decide +kernel, by decide +kernel,
    by decide +kernel⟩
  have : ([[22, 15, 11], [15, 14, 14], [11, 14, 17]] : List (List Int)) =
      gram (-3) (-2) 3 (-1) (-3) 2 0 (-4) 1 := by decide
  rw [this]; exact PSD_gram _ _ _ _ _ _ _ _ _

/-! ## D5 -/

theorem nearD_iff {S : Int} {G : List (List Int)} {ps : List (List Int)} {cut2 : Int} {i j : Nat} :
    nearD S G ps cut2 i j = true ↔ minImage2 S G (ps.getD i []) (ps.getD j []) < cut2 := by
  simp [nearD]

/-- D5 (relational form). Under `0 < S`, positions of length 3, G positive semidefinite, `WindowOK3` and a positive
    cutoff, the relation `nearD` has the three relational properties of `Cov.CutOK`:
    symmetric, reflexive on the atoms, invariant under the translation permutations. -/
theorem nearD_is_CutOK {S : Int} (hS : 0 < S) {G : List (List Int)} (hG : PSD G) {ps : List (List Int)}
    (hlen : ∀ p ∈ ps, p.length = 3) (hw : WindowOK3 S G ps = true) {cut2 : Int} (hcut : 0 < cut2) :
    (∀ i j, nearD S G ps cut2 i j = true → nearD S G ps cut2 j i = true) ∧
    (∀ i, i < ps.length → nearD S G ps cut2 i i = true) ∧
    (∀ (τ : Nat → Nat) (a : List Int), TransPerm S ps τ a → ∀ i j, i < ps.length → j < ps.length →
      (nearD S G ps cut2 (τ i) (τ j) = true ↔ nearD S G ps cut2 i j = true)) := by
  refine ⟨?_, ?_, ?_⟩
  · intro i j h
    rw [nearD_iff] at h ⊢
    rw [minImage2_symm]; exact h
  · intro i hi
    rw [nearD_iff, minImage2_self hG S (hlen _ (getD_mem hi))]
    exact hcut
  · intro τ a hτ i j hi hj
    rw [nearD_iff, nearD_iff, window_sufficient hS G hlen hw hτ hi hj]

/-- the cutoff input of Model/Cutoff.lean built from the computed distances: the "ranks" are the squared distances
    themselves (as naturals), the cutoff is the squared cutoff -/
def cutoffInOf (S : Int) (G : List (List Int)) (ps : List (List Int)) (cut2 : Int) : CutoffIn :=
  { N := ps.length,
    dist := ((dist2Matrix S G ps).map (fun r => (r.map Int.toNat).toArray)).toArray,
    cutoff := cut2.toNat }

theorem d_cutoffInOf (S : Int) (G : List (List Int)) (ps : List (List Int)) (cut2 : Int) {i j : Nat}
    (hi : i < ps.length) (hj : j < ps.length) :
    (cutoffInOf S G ps cut2).d i j = (minImage2 S G (ps.getD i []) (ps.getD j [])).toNat := by
  simp [CutoffIn.d, cutoffInOf, dist2Matrix, List.getD_eq_getElem?_getD, hi, hj]

theorem near_cutoffInOf {S : Int} {G : List (List Int)} {ps : List (List Int)} {cut2 : Int} (hcut : 0 < cut2)
    {i j : Nat} (hi : i < ps.length) (hj : j < ps.length) :
    near (cutoffInOf S G ps cut2) i j ↔ nearD S G ps cut2 i j = true := by
  unfold near
  rw [d_cutoffInOf S G ps cut2 hi hj, nearD_iff]
  show _ < cut2.toNat ↔ _
  omega

/-- D5 (literal `Cov.CutOK`). For a cell `c` on the same atoms all of whose translation permutations `c.img l` are
    induced by grid translations, the cutoff input built from the computed distances fits the cell.
    (Well-formedness of `c` is not needed beyond what `TransPerm` says: the images are atoms.) -/
theorem cutOK_of_dist {S : Int} (hS : 0 < S) {G : List (List Int)} (hG : PSD G) {ps : List (List Int)}
    (hlen : ∀ p ∈ ps, p.length = 3) (hw : WindowOK3 S G ps = true) {cut2 : Int} (hcut : 0 < cut2)
    (c : Cell) (hN : c.N = ps.length)
    (htr : ∀ l, l < c.nlp → ∃ a : List Int, TransPerm S ps (c.img l) a) :
    Cov.CutOK c (cutoffInOf S G ps cut2) := by
  obtain ⟨h1, h2, h3⟩ := nearD_is_CutOK hS hG hlen hw hcut
  refine ⟨hN.symm, ?_, ?_, ?_⟩
  · intro i j hi hj h
    rw [hN] at hi hj
    rw [near_cutoffInOf hcut hi hj] at h
    rw [near_cutoffInOf hcut hj hi]
    exact h1 i j h
  · intro i hi
    rw [hN] at hi
    rw [near_cutoffInOf hcut hi hi]
    exact h2 i hi
  · intro l hl i j hi hj
    rw [hN] at hi hj
    obtain ⟨a, hτ⟩ := htr l hl
    rw [near_cutoffInOf hcut (hτ i hi).1 (hτ j hj).1, near_cutoffInOf hcut hi hj]
    exact h3 _ a hτ i j hi hj

/-! ## D6: non-vacuity -/

/-- S = 8; basis b₁ = (2,0,0), b₂ = (1,2,0), b₃ = (0,1,3): a sheared cell with 2|G_ab| ≤ min(G_aa, G_bb) -/
def G8 : List (List Int) := [[4, 2, 0], [2, 5, 2], [0, 2, 10]]

/-- four atoms, two orbits of the translation a = (1/2, 0, 0); the coordinates 4 and 12 sit on the rint boundary
    (4 ↦ +4, 12 ↦ −4) -/
def ps8 : List (List Int) := [[0, 0, 0], [4, 0, 0], [1, 3, 12], [5, 3, 4]]

/-- the cell: identity and the translation swapping 0↔1, 2↔3 -/
def cell8 : Cell := { N := 4, tp := #[#[0, 1, 2, 3], #[1, 0, 3, 2]] }

theorem example8_G : G8 = gram 2 0 0 1 2 0 0 1 3 ∧ PSD G8 := by
  have : G8 = gram 2 0 0 1 2 0 0 1 3 := by decide
  exact ⟨this, this ▸ PSD_gram _ _ _ _ _ _ _ _ _⟩

theorem example8_matrix :
    dist2Matrix 8 G8 ps8 = [[0, 64, 173, 157], [64, 0, 157, 173], [173, 157, 0, 64], [157, 173, 64, 0]] := by
  decide +kernel

theorem example8_window : WindowOK3 8 G8 ps8 = true ∧ WindowOK 8 G8 ps8 = true ∧ noBoundary 8 ps8 = false := by
  refine ⟨by decide +kernel, by decide +kernel, by decide +kernel⟩

theorem example8_trans : cell8.wf = true ∧ cell8.N = ps8.length ∧
    TransPerm 8 ps8 (cell8.img 0) [0, 0, 0] ∧ TransPerm 8 ps8 (cell8.img 1) [4, 0, 0] := by
  refine ⟨by decide +kernel, by decide, by decide +kernel, by decide +kernel⟩

/-- all hypotheses of `cutOK_of_dist` hold for the example, with a cutoff (160) that separates the pairs:
    near = {(0,1), (0,3), (1,2), (2,3)} and the diagonal -/
theorem example8_cutOK : Cov.CutOK cell8 (cutoffInOf 8 G8 ps8 160) ∧
    (List.range 4).map (fun i => (List.range 4).filter (fun j => nearD 8 G8 ps8 160 i j)) =
      [[0, 1, 3], [0, 1, 2], [1, 2, 3], [0, 2, 3]] := by
  refine ⟨?_, by decide +kernel⟩
  apply cutOK_of_dist (by decide) example8_G.2 (by decide) example8_window.1 (by decide) cell8 (by decide)
  intro l hl
  have hl2 : l < 2 := hl
  match l, hl2 with
  | 0, _ => exact ⟨[0, 0, 0], example8_trans.2.2.1⟩
  | 1, _ => exact ⟨[4, 0, 0], example8_trans.2.2.2⟩

end Dist
end Symfc
