/-
  Lemmas/Chain.lean — the generated `divmod` chains of `reshape_nN33_nx_to_N3_n3nx` (O2),
  `reshape_nNN333_nx_to_N3N3_n3nx` (O3), `reshape_nNNN3333_nx_to_N3N3N3_n3nx` (O4) are the stated
  index bijections: compact row `(il, j, k, l | a, b, c, d)` ↦ row of the displacement monomial
  `u_{jb} u_{kc} u_{ld}` and column block `(il, a)`.
-/
import SymfcModel.Model.Solver
import SymfcModel.Gen.Solver
namespace Symfc

theorem divmod_of_lt {q d r : Nat} (h : r < d) : (q * d + r) / d = q ∧ (q * d + r) % d = r := by
  have hd : 0 < d := by omega
  constructor
  · rw [Nat.mul_comm, Nat.mul_add_div hd, Nat.div_eq_of_lt h]; rfl
  · rw [Nat.mul_comm, Nat.mul_add_mod, Nat.mod_eq_of_lt h]

/-- one mixed-radix digit: `j < N`, `r < M` gives `j * M + r < N * M` -/
theorem digit_lt {j N r M : Nat} (hj : j < N) (hr : r < M) : j * M + r < N * M := by
  have : (j + 1) * M ≤ N * M := Nat.mul_le_mul_right M hj
  rw [Nat.add_mul] at this
  omega

/-! ### the chains as explicit div/mod expressions (any `row`) -/

theorem chainO2_run_eq (N nx row col : Nat) :
    Gen.chainO2.run N nx row col =
      (row % (9 * N) / 9 * 3 + row % (9 * N) % 9 % 3,
       col + row / (9 * N) * (3 * nx) + row % (9 * N) % 9 / 3 * (1 * nx)) := by
  simp only [Chain.run, Gen.chainO2, List.foldl, Mono.eval, Nat.pow_one, Nat.pow_zero, Nat.mul_one,
    if_true, if_false, Bool.false_eq_true]

theorem chainO3_run_eq (N nx row col : Nat) :
    Gen.chainO3.run N nx row col =
      (row % (27 * N ^ 2) / (27 * N) * (9 * N) + row % (27 * N ^ 2) % (27 * N) / 27 * 3 +
          row % (27 * N ^ 2) % (27 * N) % 27 % 9 / 3 * (3 * N) +
        row % (27 * N ^ 2) % (27 * N) % 27 % 9 % 3,
       col + row / (27 * N ^ 2) * (3 * nx) + row % (27 * N ^ 2) % (27 * N) % 27 / 9 * (1 * nx)) := by
  simp only [Chain.run, Gen.chainO3, List.foldl, Mono.eval, Nat.pow_one, Nat.pow_zero, Nat.mul_one,
    if_true, if_false, Bool.false_eq_true]

theorem chainO4_run_eq (N nx row col : Nat) :
    Gen.chainO4.run N nx row col =
      (row % (81 * N ^ 3) / (81 * N ^ 2) * (27 * N ^ 2) +
          row % (81 * N ^ 3) % (81 * N ^ 2) / (81 * N) * (9 * N) +
          row % (81 * N ^ 3) % (81 * N ^ 2) % (81 * N) / 81 * 3 +
          row % (81 * N ^ 3) % (81 * N ^ 2) % (81 * N) % 81 % 27 / 9 * (9 * N ^ 2) +
          row % (81 * N ^ 3) % (81 * N ^ 2) % (81 * N) % 81 % 27 % 9 / 3 * (3 * N) +
        row % (81 * N ^ 3) % (81 * N ^ 2) % (81 * N) % 81 % 27 % 9 % 3,
       col + row / (81 * N ^ 3) * (3 * nx) +
        row % (81 * N ^ 3) % (81 * N ^ 2) % (81 * N) % 81 / 27 * (1 * nx)) := by
  simp only [Chain.run, Gen.chainO4, List.foldl, Mono.eval, Nat.pow_one, Nat.pow_zero, Nat.mul_one,
    if_true, if_false, Bool.false_eq_true]

/-! ### the index bijections -/

theorem chainO2_run (N nx il j a b col : Nat) (hj : j < N) (ha : a < 3) (hb : b < 3) :
    Gen.chainO2.run N nx (((il * N + j) * 3 + a) * 3 + b) col
      = (3 * j + b, col + (3 * il + a) * nx) := by
  have hrow : ((il * N + j) * 3 + a) * 3 + b = il * (9 * N) + (j * 9 + (a * 3 + b)) := by grind
  have e1 := divmod_of_lt (q := il) (d := 9 * N) (r := j * 9 + (a * 3 + b)) (by omega)
  have e2 := divmod_of_lt (q := j) (d := 9) (r := a * 3 + b) (by omega)
  have e3 := divmod_of_lt (q := a) (d := 3) (r := b) hb
  rw [chainO2_run_eq, hrow]
  simp only [e1.1, e1.2, e2.1, e2.2, e3.1, e3.2]
  congr 1
  · omega
  · grind

theorem chainO3_run (N nx il j k a b c col : Nat) (hj : j < N) (hk : k < N)
    (ha : a < 3) (hb : b < 3) (hc : c < 3) :
    Gen.chainO3.run N nx ((((il * N + j) * N + k) * 27) + (a * 9 + b * 3 + c)) col
      = ((3 * j + b) * (3 * N) + (3 * k + c), col + (3 * il + a) * nx) := by
  have hrow : (((il * N + j) * N + k) * 27) + (a * 9 + b * 3 + c)
      = il * (27 * N ^ 2) + (j * (27 * N) + (k * 27 + (a * 9 + (b * 3 + c)))) := by grind
  have b2 : k * 27 + (a * 9 + (b * 3 + c)) < 27 * N := by omega
  have b1 : j * (27 * N) + (k * 27 + (a * 9 + (b * 3 + c))) < 27 * N ^ 2 := by
    have := digit_lt hj b2
    have e : N * (27 * N) = 27 * N ^ 2 := by grind
    omega
  have e1 := divmod_of_lt (q := il) b1
  have e2 := divmod_of_lt (q := j) b2
  have e3 := divmod_of_lt (q := k) (d := 27) (r := a * 9 + (b * 3 + c)) (by omega)
  have e4 := divmod_of_lt (q := a) (d := 9) (r := b * 3 + c) (by omega)
  have e5 := divmod_of_lt (q := b) (d := 3) (r := c) hc
  rw [chainO3_run_eq, hrow]
  simp only [e1.1, e1.2, e2.1, e2.2, e3.1, e3.2, e4.1, e4.2, e5.1, e5.2]
  congr 1
  · grind
  · grind

theorem chainO4_run (N nx il j k l a b c d col : Nat) (hj : j < N) (hk : k < N) (hl : l < N)
    (ha : a < 3) (hb : b < 3) (hc : c < 3) (hd : d < 3) :
    Gen.chainO4.run N nx
        (((((il * N + j) * N + k) * N + l) * 81) + (a * 27 + b * 9 + c * 3 + d)) col
      = (((3 * j + b) * (3 * N) + (3 * k + c)) * (3 * N) + (3 * l + d),
         col + (3 * il + a) * nx) := by
  have hrow : ((((il * N + j) * N + k) * N + l) * 81) + (a * 27 + b * 9 + c * 3 + d)
      = il * (81 * N ^ 3) + (j * (81 * N ^ 2) + (k * (81 * N) +
          (l * 81 + (a * 27 + (b * 9 + (c * 3 + d)))))) := by grind
  have b3 : l * 81 + (a * 27 + (b * 9 + (c * 3 + d))) < 81 * N := by omega
  have b2 : k * (81 * N) + (l * 81 + (a * 27 + (b * 9 + (c * 3 + d)))) < 81 * N ^ 2 := by
    have := digit_lt hk b3
    have e : N * (81 * N) = 81 * N ^ 2 := by grind
    omega
  have b1 : j * (81 * N ^ 2) + (k * (81 * N) + (l * 81 + (a * 27 + (b * 9 + (c * 3 + d)))))
      < 81 * N ^ 3 := by
    have := digit_lt hj b2
    have e : N * (81 * N ^ 2) = 81 * N ^ 3 := by grind
    omega
  have e1 := divmod_of_lt (q := il) b1
  have e2 := divmod_of_lt (q := j) b2
  have e3 := divmod_of_lt (q := k) b3
  have e4 := divmod_of_lt (q := l) (d := 81) (r := a * 27 + (b * 9 + (c * 3 + d))) (by omega)
  have e5 := divmod_of_lt (q := a) (d := 27) (r := b * 9 + (c * 3 + d)) (by omega)
  have e6 := divmod_of_lt (q := b) (d := 9) (r := c * 3 + d) (by omega)
  have e7 := divmod_of_lt (q := c) (d := 3) (r := d) hd
  rw [chainO4_run_eq, hrow]
  simp only [e1.1, e1.2, e2.1, e2.2, e3.1, e3.2, e4.1, e4.2, e5.1, e5.2, e6.1, e6.2, e7.1, e7.2]
  congr 1
  · grind
  · grind

/-! ### flat (mixed radix) form -/

theorem chainO2_run_flat (N nx il j a b col : Nat) (hj : j < N) (ha : a < 3) (hb : b < 3) :
    Gen.chainO2.run N nx (flat N [il, j] * 9 + flat 3 [a, b]) col
      = (flat (3 * N) [3 * j + b], col + flat 3 [il, a] * nx) := by
  have h := chainO2_run N nx il j a b col hj ha hb
  have e : flat N [il, j] * 9 + flat 3 [a, b] = ((il * N + j) * 3 + a) * 3 + b := by
    simp only [flat, List.foldl, Nat.zero_mul, Nat.zero_add]; omega
  have e2 : flat 3 [il, a] = 3 * il + a := by simp only [flat, List.foldl]; omega
  have e3 : flat (3 * N) [3 * j + b] = 3 * j + b := by simp [flat, List.foldl]
  rw [e, e2, e3, h]

theorem chainO3_run_flat (N nx il j k a b c col : Nat) (hj : j < N) (hk : k < N)
    (ha : a < 3) (hb : b < 3) (hc : c < 3) :
    Gen.chainO3.run N nx (flat N [il, j, k] * 27 + flat 3 [a, b, c]) col
      = (flat (3 * N) [3 * j + b, 3 * k + c], col + flat 3 [il, a] * nx) := by
  have h := chainO3_run N nx il j k a b c col hj hk ha hb hc
  have e : flat N [il, j, k] * 27 + flat 3 [a, b, c]
      = (((il * N + j) * N + k) * 27) + (a * 9 + b * 3 + c) := by
    simp only [flat, List.foldl, Nat.zero_mul, Nat.zero_add]; omega
  have e2 : flat 3 [il, a] = 3 * il + a := by simp only [flat, List.foldl]; omega
  have e3 : flat (3 * N) [3 * j + b, 3 * k + c] = (3 * j + b) * (3 * N) + (3 * k + c) := by
    simp [flat, List.foldl]
  rw [e, e2, e3, h]

theorem chainO4_run_flat (N nx il j k l a b c d col : Nat) (hj : j < N) (hk : k < N) (hl : l < N)
    (ha : a < 3) (hb : b < 3) (hc : c < 3) (hd : d < 3) :
    Gen.chainO4.run N nx (flat N [il, j, k, l] * 81 + flat 3 [a, b, c, d]) col
      = (flat (3 * N) [3 * j + b, 3 * k + c, 3 * l + d], col + flat 3 [il, a] * nx) := by
  have h := chainO4_run N nx il j k l a b c d col hj hk hl ha hb hc hd
  have e : flat N [il, j, k, l] * 81 + flat 3 [a, b, c, d]
      = ((((il * N + j) * N + k) * N + l) * 81) + (a * 27 + b * 9 + c * 3 + d) := by
    simp only [flat, List.foldl, Nat.zero_mul, Nat.zero_add]; omega
  have e2 : flat 3 [il, a] = 3 * il + a := by simp only [flat, List.foldl]; omega
  have e3 : flat (3 * N) [3 * j + b, 3 * k + c, 3 * l + d]
      = ((3 * j + b) * (3 * N) + (3 * k + c)) * (3 * N) + (3 * l + d) := by
    simp [flat, List.foldl]
  rw [e, e2, e3, h]

/-! ### output shapes and bounds -/

theorem chainO2_outRows (N nx : Nat) : Gen.chainO2.outRows.eval N nx = 3 * N := by
  simp [Gen.chainO2, Mono.eval]

theorem chainO3_outRows (N nx : Nat) : Gen.chainO3.outRows.eval N nx = 9 * N ^ 2 := by
  simp [Gen.chainO3, Mono.eval]

theorem chainO4_outRows (N nx : Nat) : Gen.chainO4.outRows.eval N nx = 27 * N ^ 3 := by
  simp [Gen.chainO4, Mono.eval]

/-- column bound shared by the three chains: block `(il, a)` of width `nx` inside `n * 3` blocks -/
theorem chain_col_lt {n nx il a col : Nat} (hil : il < n) (ha : a < 3) (hcol : col < nx) :
    col + (3 * il + a) * nx < n * 3 * nx := by
  have := digit_lt (j := 3 * il + a) (N := n * 3) (r := col) (M := nx) (by omega) hcol
  omega

theorem chainO2_row_lt {N nx j b : Nat} (hj : j < N) (hb : b < 3) :
    3 * j + b < Gen.chainO2.outRows.eval N nx := by
  rw [chainO2_outRows]; omega

theorem chainO3_row_lt {N nx j k b c : Nat} (hj : j < N) (hk : k < N) (hb : b < 3) (hc : c < 3) :
    (3 * j + b) * (3 * N) + (3 * k + c) < Gen.chainO3.outRows.eval N nx := by
  rw [chainO3_outRows]
  have := digit_lt (j := 3 * j + b) (N := 3 * N) (r := 3 * k + c) (M := 3 * N) (by omega) (by omega)
  have e : 3 * N * (3 * N) = 9 * N ^ 2 := by grind
  omega

theorem chainO4_row_lt {N nx j k l b c d : Nat} (hj : j < N) (hk : k < N) (hl : l < N)
    (hb : b < 3) (hc : c < 3) (hd : d < 3) :
    ((3 * j + b) * (3 * N) + (3 * k + c)) * (3 * N) + (3 * l + d)
      < Gen.chainO4.outRows.eval N nx := by
  rw [chainO4_outRows]
  have h1 := digit_lt (j := 3 * j + b) (N := 3 * N) (r := 3 * k + c) (M := 3 * N)
    (by omega) (by omega)
  have h2 := digit_lt (j := (3 * j + b) * (3 * N) + (3 * k + c)) (N := 3 * N * (3 * N))
    (r := 3 * l + d) (M := 3 * N) h1 (by omega)
  have e : 3 * N * (3 * N) * (3 * N) = 27 * N ^ 3 := by grind
  omega

/-- packaged: O2 result lies inside the resized matrix `(3N) × (n·3·nx)` -/
theorem chainO2_run_bounds {N nx n il j a b col : Nat} (hil : il < n) (hj : j < N) (ha : a < 3)
    (hb : b < 3) (hcol : col < nx) :
    (Gen.chainO2.run N nx (((il * N + j) * 3 + a) * 3 + b) col).1 < Gen.chainO2.outRows.eval N nx ∧
    (Gen.chainO2.run N nx (((il * N + j) * 3 + a) * 3 + b) col).2 < n * 3 * nx := by
  rw [chainO2_run N nx il j a b col hj ha hb]
  exact ⟨chainO2_row_lt hj hb, chain_col_lt hil ha hcol⟩

theorem chainO3_run_bounds {N nx n il j k a b c col : Nat} (hil : il < n) (hj : j < N) (hk : k < N)
    (ha : a < 3) (hb : b < 3) (hc : c < 3) (hcol : col < nx) :
    (Gen.chainO3.run N nx ((((il * N + j) * N + k) * 27) + (a * 9 + b * 3 + c)) col).1
        < Gen.chainO3.outRows.eval N nx ∧
    (Gen.chainO3.run N nx ((((il * N + j) * N + k) * 27) + (a * 9 + b * 3 + c)) col).2
        < n * 3 * nx := by
  rw [chainO3_run N nx il j k a b c col hj hk ha hb hc]
  exact ⟨chainO3_row_lt hj hk hb hc, chain_col_lt hil ha hcol⟩

theorem chainO4_run_bounds {N nx n il j k l a b c d col : Nat} (hil : il < n) (hj : j < N)
    (hk : k < N) (hl : l < N) (ha : a < 3) (hb : b < 3) (hc : c < 3) (hd : d < 3)
    (hcol : col < nx) :
    (Gen.chainO4.run N nx
        (((((il * N + j) * N + k) * N + l) * 81) + (a * 27 + b * 9 + c * 3 + d)) col).1
        < Gen.chainO4.outRows.eval N nx ∧
    (Gen.chainO4.run N nx
        (((((il * N + j) * N + k) * N + l) * 81) + (a * 27 + b * 9 + c * 3 + d)) col).2
        < n * 3 * nx := by
  rw [chainO4_run N nx il j k l a b c d col hj hk hl ha hb hc hd]
  exact ⟨chainO4_row_lt hj hk hl hb hc hd, chain_col_lt hil ha hcol⟩


end Symfc
