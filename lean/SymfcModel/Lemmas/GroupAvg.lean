/- Lemmas/GroupAvg.lean — the group average of an orthogonal matrix representation is the
   orthogonal projector onto the invariant vectors (G1–G6). -/
import SymfcModel.Lemmas.LinAlg
import Mathlib.Algebra.BigOperators.Group.Finset.Basic
import Mathlib.Algebra.Group.Hom.Defs
import Mathlib.Data.Fintype.Card
import Mathlib.Data.Matrix.Basic
import Mathlib.Tactic.FieldSimp
import Mathlib.Data.Int.Order.Units
import Mathlib.Algebra.GroupWithZero.Units.Fintype
import Mathlib.Algebra.Group.Prod

namespace Symfc.GroupAvg

open Matrix

/-! ## Definitions -/

section Defs

variable {K : Type*} [Field K]
variable {G : Type*} [Fintype G]
variable {n : Type*}

/-- The group average `P = (1/|G|) ∑_g ρ g`. -/
def avg (ρ : G → Matrix n n K) : Matrix n n K :=
  (1 / (Fintype.card G : K)) • ∑ g, ρ g

/-- `ρ` is an orthogonal matrix representation of the group `G`. -/
structure OrthRep [Group G] [Fintype n] [DecidableEq n] (ρ : G → Matrix n n K) : Prop where
  mul : ∀ g h, ρ (g * h) = ρ g * ρ h
  one : ρ 1 = 1
  orth : ∀ g, (ρ g)ᵀ = ρ g⁻¹

end Defs

/-! ## G1–G5 over any field of characteristic zero
(every linearly ordered field is one, via `IsStrictOrderedRing.toCharZero`) -/

section CharZero

variable {K : Type*} [Field K] [CharZero K]
variable {G : Type*} [Group G] [Fintype G]
variable {n : Type*} [Fintype n] [DecidableEq n]

omit [CharZero K] [DecidableEq n] in
/-- G1 (left). Only multiplicativity is needed. -/
theorem rho_mul_avg {ρ : G → Matrix n n K} (hmul : ∀ g h, ρ (g * h) = ρ g * ρ h) (h : G) :
    ρ h * avg ρ = avg ρ := by
  unfold avg
  rw [Matrix.mul_smul, Finset.mul_sum]
  congr 1
  simp_rw [← hmul]
  exact Fintype.sum_equiv (Equiv.mulLeft h) _ _ (fun g => rfl)

omit [CharZero K] [DecidableEq n] in
/-- G1 (right). -/
theorem avg_mul_rho {ρ : G → Matrix n n K} (hmul : ∀ g h, ρ (g * h) = ρ g * ρ h) (h : G) :
    avg ρ * ρ h = avg ρ := by
  unfold avg
  rw [Matrix.smul_mul, Finset.sum_mul]
  congr 1
  simp_rw [← hmul]
  exact Fintype.sum_equiv (Equiv.mulRight h) _ _ (fun g => rfl)

omit [CharZero K] in
/-- **G1.** -/
theorem G1 {ρ : G → Matrix n n K} (hρ : OrthRep ρ) (h : G) :
    ρ h * avg ρ = avg ρ ∧ avg ρ * ρ h = avg ρ :=
  ⟨rho_mul_avg hρ.mul h, avg_mul_rho hρ.mul h⟩

omit [DecidableEq n] in
theorem card_ne_zero : (Fintype.card G : K) ≠ 0 :=
  Nat.cast_ne_zero.mpr Fintype.card_ne_zero

omit [DecidableEq n] in
/-- The average absorbs (on the right) any matrix fixed by every `ρ g`. -/
theorem avg_mul_of_fixed {m : Type*} (ρ : G → Matrix n n K) (M : Matrix n m K)
    (h : ∀ g, ρ g * M = M) : avg ρ * M = M := by
  unfold avg
  rw [Matrix.smul_mul, Matrix.sum_mul, Finset.sum_congr rfl (fun g _ => h g), Finset.sum_const,
    Finset.card_univ, ← Nat.cast_smul_eq_nsmul K, smul_smul, one_div,
    inv_mul_cancel₀ (card_ne_zero (K := K) (G := G)), one_smul]

omit [DecidableEq n] in
/-- The average fixes any vector fixed by every `ρ g`. -/
theorem avg_mulVec_of_fixed (ρ : G → Matrix n n K) (v : n → K)
    (h : ∀ g, ρ g *ᵥ v = v) : avg ρ *ᵥ v = v := by
  unfold avg
  rw [Matrix.smul_mulVec, Matrix.sum_mulVec, Finset.sum_congr rfl (fun g _ => h g),
    Finset.sum_const, Finset.card_univ, ← Nat.cast_smul_eq_nsmul K, smul_smul, one_div,
    inv_mul_cancel₀ (card_ne_zero (K := K) (G := G)), one_smul]

omit [DecidableEq n] in
/-- G2 (idempotent). Only multiplicativity is needed. -/
theorem avg_mul_avg {ρ : G → Matrix n n K} (hmul : ∀ g h, ρ (g * h) = ρ g * ρ h) :
    avg ρ * avg ρ = avg ρ :=
  avg_mul_of_fixed ρ (avg ρ) (rho_mul_avg hmul)

omit [CharZero K] [DecidableEq n] [Fintype n] in
/-- G2 (symmetric). Only `(ρ g)ᵀ = ρ g⁻¹` is needed. -/
theorem avg_transpose {ρ : G → Matrix n n K} (horth : ∀ g, (ρ g)ᵀ = ρ g⁻¹) :
    (avg ρ)ᵀ = avg ρ := by
  unfold avg
  rw [Matrix.transpose_smul, Matrix.transpose_sum]
  congr 1
  simp_rw [horth]
  exact Fintype.sum_equiv (Equiv.inv G) _ _ (fun g => rfl)

/-- **G2.** The average is an orthogonal projector. -/
theorem G2 {ρ : G → Matrix n n K} (hρ : OrthRep ρ) :
    avg ρ * avg ρ = avg ρ ∧ (avg ρ)ᵀ = avg ρ :=
  ⟨avg_mul_avg hρ.mul, avg_transpose hρ.orth⟩

omit [DecidableEq n] in
/-- G3 with the minimal hypothesis. -/
theorem avg_mulVec_eq_iff {ρ : G → Matrix n n K} (hmul : ∀ g h, ρ (g * h) = ρ g * ρ h)
    (v : n → K) : avg ρ *ᵥ v = v ↔ ∀ g, ρ g *ᵥ v = v := by
  constructor
  · intro h g
    calc ρ g *ᵥ v = ρ g *ᵥ (avg ρ *ᵥ v) := by rw [h]
      _ = avg ρ *ᵥ v := by rw [Matrix.mulVec_mulVec, rho_mul_avg hmul]
      _ = v := h
  · exact avg_mulVec_of_fixed ρ v

/-- **G3.** The range of the average is exactly the invariant vectors. -/
theorem G3 {ρ : G → Matrix n n K} (hρ : OrthRep ρ) (v : n → K) :
    avg ρ *ᵥ v = v ↔ ∀ g, ρ g *ᵥ v = v :=
  avg_mulVec_eq_iff hρ.mul v

/-! ### G4: commutation -/

omit [CharZero K] [DecidableEq n] [Group G] in
/-- **G4a.** A matrix commuting with every `ρ g` commutes with the average. -/
theorem commute_avg (ρ : G → Matrix n n K) (S : Matrix n n K)
    (h : ∀ g, S * ρ g = ρ g * S) : S * avg ρ = avg ρ * S := by
  unfold avg
  rw [Matrix.mul_smul, Matrix.smul_mul, Finset.mul_sum, Finset.sum_mul]
  simp_rw [h]

variable {H : Type*} [Group H] [Fintype H]

omit [CharZero K] [DecidableEq n] [Group G] [Group H] in
/-- **G4b.** Averages of two commuting families commute. -/
theorem avg_comm (ρ : G → Matrix n n K) (σ : H → Matrix n n K)
    (hcomm : ∀ g h, ρ g * σ h = σ h * ρ g) : avg ρ * avg σ = avg σ * avg ρ :=
  commute_avg σ (avg ρ) (fun h => (commute_avg ρ (σ h) (fun g => (hcomm g h).symm)).symm)

/-- **G4c.** For two commuting orthogonal representations the product of the averages is an
orthogonal projector … -/
theorem avg_mul_avg_projector {ρ : G → Matrix n n K} {σ : H → Matrix n n K}
    (hρ : OrthRep ρ) (hσ : OrthRep σ) (hcomm : ∀ g h, ρ g * σ h = σ h * ρ g) :
    (avg ρ * avg σ) * (avg ρ * avg σ) = avg ρ * avg σ ∧ (avg ρ * avg σ)ᵀ = avg ρ * avg σ := by
  have hc := avg_comm ρ σ hcomm
  constructor
  · calc (avg ρ * avg σ) * (avg ρ * avg σ)
        = avg ρ * (avg σ * avg ρ) * avg σ := by simp only [Matrix.mul_assoc]
      _ = (avg ρ * avg ρ) * (avg σ * avg σ) := by rw [← hc]; simp only [Matrix.mul_assoc]
      _ = avg ρ * avg σ := by rw [(G2 hρ).1, (G2 hσ).1]
  · rw [Matrix.transpose_mul, (G2 hρ).2, (G2 hσ).2, hc]

/-- **G4d.** … onto the vectors invariant under both groups. -/
theorem avg_mul_avg_mulVec_eq_iff {ρ : G → Matrix n n K} {σ : H → Matrix n n K}
    (hρ : OrthRep ρ) (hσ : OrthRep σ) (hcomm : ∀ g h, ρ g * σ h = σ h * ρ g) (v : n → K) :
    (avg ρ * avg σ) *ᵥ v = v ↔ (∀ g, ρ g *ᵥ v = v) ∧ (∀ h, σ h *ᵥ v = v) := by
  have hc := avg_comm ρ σ hcomm
  rw [← G3 hρ, ← G3 hσ]
  constructor
  · intro h
    constructor
    · calc avg ρ *ᵥ v = avg ρ *ᵥ ((avg ρ * avg σ) *ᵥ v) := by rw [h]
        _ = (avg ρ * avg ρ * avg σ) *ᵥ v := by rw [Matrix.mulVec_mulVec, Matrix.mul_assoc]
        _ = v := by rw [(G2 hρ).1, h]
    · calc avg σ *ᵥ v = avg σ *ᵥ ((avg σ * avg ρ) *ᵥ v) := by rw [← hc, h]
        _ = (avg σ * avg σ * avg ρ) *ᵥ v := by rw [Matrix.mulVec_mulVec, Matrix.mul_assoc]
        _ = v := by rw [(G2 hσ).1, ← hc, h]
  · rintro ⟨h1, h2⟩
    rw [← Matrix.mulVec_mulVec, h2, h1]

/-! ### G5: averaging over a quotient -/

omit [DecidableEq n] [Fintype H] in
/-- All fibres of a surjective group homomorphism have the same cardinality. -/
theorem card_fiber_eq [DecidableEq H] (π : G →* H) (g₀ : G) :
    (Finset.univ.filter (fun g => π g = π g₀)).card
      = (Finset.univ.filter (fun g => π g = 1)).card := by
  have : Finset.univ.filter (fun g => π g = π g₀)
      = (Finset.univ.filter (fun g => π g = 1)).map (Equiv.mulLeft g₀).toEmbedding := by
    ext g
    rw [Finset.mem_map_equiv]
    simp only [Finset.mem_filter, Finset.mem_univ, true_and, Equiv.mulLeft_symm_apply, map_mul,
      map_inv, inv_mul_eq_one]
    exact eq_comm
  rw [this, Finset.card_map]

omit [DecidableEq n] [Fintype n] in
/-- **G5.** If `ρ = ρ' ∘ π` for a surjective group homomorphism `π : G →* H`, then the average of
`ρ` over `G` equals the average of `ρ'` over `H`. (No multiplicativity of `ρ'` is needed.) -/
theorem avg_comp_surjective (π : G →* H) (hπ : Function.Surjective π)
    (ρ' : H → Matrix n n K) : avg (fun g => ρ' (π g)) = avg ρ' := by
  classical
  set kc : ℕ := (Finset.univ.filter (fun g : G => π g = 1)).card with hkc
  have hfib : ∀ h : H, (Finset.univ.filter (fun g : G => π g = h)).card = kc := by
    intro h
    obtain ⟨g₀, rfl⟩ := hπ h
    exact card_fiber_eq π g₀
  have hsum : ∑ g, ρ' (π g) = (kc : K) • ∑ h, ρ' h := by
    rw [← Finset.sum_fiberwise' Finset.univ π ρ', Finset.smul_sum]
    refine Finset.sum_congr rfl (fun h _ => ?_)
    rw [Finset.sum_const, hfib h, Nat.cast_smul_eq_nsmul]
  have hcard : Fintype.card G = Fintype.card H * kc := by
    rw [← Finset.card_univ, Finset.card_eq_sum_card_fiberwise (f := π) (t := Finset.univ)
      (fun _ _ => Finset.mem_coe.mpr (Finset.mem_univ _))]
    rw [Finset.sum_congr rfl (fun h _ => hfib h), Finset.sum_const, Finset.card_univ, smul_eq_mul]
  have hk0 : (kc : K) ≠ 0 := by
    intro h0
    have : (Fintype.card G : K) = 0 := by rw [hcard, Nat.cast_mul, h0, mul_zero]
    exact card_ne_zero (K := K) (G := G) this
  unfold avg
  rw [hsum, smul_smul, hcard, Nat.cast_mul]
  congr 1
  have hH := card_ne_zero (K := K) (G := H)
  field_simp

omit [DecidableEq n] [Fintype n] in
/-- **G5, as stated:** `ρ g = ρ' (π g)`. -/
theorem G5 (π : G →* H) (hπ : Function.Surjective π) (ρ : G → Matrix n n K)
    (ρ' : H → Matrix n n K) (hfac : ∀ g, ρ g = ρ' (π g)) : avg ρ = avg ρ' := by
  rw [show ρ = fun g => ρ' (π g) from funext hfac]
  exact avg_comp_surjective π hπ ρ'

end CharZero

/-! ## G6 over a linearly ordered field -/

section Ordered

variable {K : Type*} [Field K] [LinearOrder K] [IsStrictOrderedRing K]
variable {G : Type*} [Group G] [Fintype G]
variable {n k : Type*} [Fintype n] [DecidableEq n] [Fintype k] [DecidableEq k]

/-- **G6.** For orthonormal `C`, the unit eigenvectors of the compressed average `Cᵀ P C` are
exactly the `v` whose lift `C v` is invariant under the group. -/
theorem G6 {ρ : G → Matrix n n K} (hρ : OrthRep ρ) (C : Matrix n k K) (hC : Cᵀ * C = 1)
    (v : k → K) :
    (Cᵀ * avg ρ * C) *ᵥ v = v ↔ ∀ g, ρ g *ᵥ (C *ᵥ v) = C *ᵥ v := by
  rw [LinAlg.compressed_projector_unit_iff C hC (avg ρ) (G2 hρ).2 (G2 hρ).1 v]
  exact G3 hρ (C *ᵥ v)

/-- **G1–G3 verbatim** (explicit hypotheses, linearly ordered field, `P` spelled out). -/
theorem avg_is_invariant_projector (ρ : G → Matrix n n K)
    (hmul : ∀ g h, ρ (g * h) = ρ g * ρ h) (hone : ρ 1 = 1) (horth : ∀ g, (ρ g)ᵀ = ρ g⁻¹)
    (P : Matrix n n K) (hP : P = (1 / (Fintype.card G : K)) • ∑ g, ρ g) :
    (∀ h, ρ h * P = P ∧ P * ρ h = P) ∧ P * P = P ∧ Pᵀ = P ∧
      ∀ v : n → K, P *ᵥ v = v ↔ ∀ g, ρ g *ᵥ v = v := by
  have hρ : OrthRep ρ := ⟨hmul, hone, horth⟩
  have : P = avg ρ := hP
  subst this
  exact ⟨G1 hρ, (G2 hρ).1, (G2 hρ).2, G3 hρ⟩

end Ordered

/-! ## Non-vacuity: the reflection group `ℤˣ = {1, -1}` acting on `ℚ²` -/

section Example

/-- `u ↦ diag(1, u)`: the reflection of the second coordinate. -/
private def ρex (u : ℤˣ) : Matrix (Fin 2) (Fin 2) ℚ := !![1, 0; 0, ((u : ℤ) : ℚ)]
/-- `u ↦ diag(u, 1)`: the reflection of the first coordinate. -/
private def σex (u : ℤˣ) : Matrix (Fin 2) (Fin 2) ℚ := !![((u : ℤ) : ℚ), 0; 0, 1]

private theorem ρex_rep : OrthRep ρex where
  mul g h := by
    ext i j; fin_cases i <;> fin_cases j <;> simp [ρex, Matrix.mul_apply, Fin.sum_univ_two]
  one := by ext i j; fin_cases i <;> fin_cases j <;> simp [ρex]
  orth g := by
    rw [Int.units_inv_eq_self]
    ext i j; fin_cases i <;> fin_cases j <;> simp [ρex]

private theorem σex_rep : OrthRep σex where
  mul g h := by
    ext i j; fin_cases i <;> fin_cases j <;> simp [σex, Matrix.mul_apply, Fin.sum_univ_two]
  one := by ext i j; fin_cases i <;> fin_cases j <;> simp [σex]
  orth g := by
    rw [Int.units_inv_eq_self]
    ext i j; fin_cases i <;> fin_cases j <;> simp [σex]

private theorem ρσ_comm (g h : ℤˣ) : ρex g * σex h = σex h * ρex g := by
  ext i j; fin_cases i <;> fin_cases j <;> simp [ρex, σex, Matrix.mul_apply, Fin.sum_univ_two]

private theorem ρex_fixed (a : ℚ) (g : ℤˣ) : ρex g *ᵥ ![a, 0] = ![a, 0] := by
  ext i; fin_cases i <;> simp [ρex, Matrix.mulVec, dotProduct, Fin.sum_univ_two]

/-- G2 instantiated. -/
example : avg ρex * avg ρex = avg ρex ∧ (avg ρex)ᵀ = avg ρex := G2 ρex_rep

/-- G3 instantiated: `(7, 0)` is invariant, hence fixed by the average … -/
example : avg ρex *ᵥ ![7, 0] = ![7, 0] := (G3 ρex_rep _).mpr (ρex_fixed 7)

/-- … and `(0, 1)` is not invariant (`g = -1` flips it), hence not fixed by the average. -/
example : avg ρex *ᵥ ![0, 1] ≠ ![0, 1] := by
  intro h
  have := (G3 ρex_rep _).mp h (-1)
  have h1 := congrFun this 1
  simp [ρex, Matrix.mulVec, dotProduct, Fin.sum_univ_two] at h1
  norm_num at h1

private def Cex : Matrix (Fin 2) (Fin 2) ℚ := !![3/5, -4/5; 4/5, 3/5]

/-- G6 instantiated with a rotated orthonormal basis: `C (3, -4) = (5, 0)` is invariant. -/
example : (Cexᵀ * avg ρex * Cex) *ᵥ ![3, -4] = ![3, -4] := by
  refine (G6 ρex_rep Cex ?_ _).mpr ?_
  · ext i j; fin_cases i <;> fin_cases j <;> norm_num [Cex, Matrix.mul_apply, Fin.sum_univ_two]
  · have : Cex *ᵥ ![3, -4] = ![5, 0] := by
      ext i; fin_cases i <;> norm_num [Cex, Matrix.mulVec, dotProduct, Fin.sum_univ_two]
    rw [this]
    exact ρex_fixed 5

/-- G4 instantiated. -/
example (v : Fin 2 → ℚ) : (avg ρex * avg σex) *ᵥ v = v ↔
    (∀ g, ρex g *ᵥ v = v) ∧ (∀ h, σex h *ᵥ v = v) :=
  avg_mul_avg_mulVec_eq_iff ρex_rep σex_rep ρσ_comm v

example : avg ρex * avg σex = avg σex * avg ρex := avg_comm ρex σex ρσ_comm

/-- G5 instantiated: `ℤˣ × ℤˣ → ℤˣ`, kernel of order 2. -/
example : avg (fun g : ℤˣ × ℤˣ => ρex g.1) = avg ρex :=
  G5 (MonoidHom.fst ℤˣ ℤˣ) Prod.fst_surjective _ ρex (fun _ => rfl)

end Example


end Symfc.GroupAvg
